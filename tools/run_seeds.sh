#!/bin/sh
# tools/run_seeds.sh [seed ...]: for every stored seeded change (or the named
# ones) apply the patch to /repo, run the quick check of its property, revert.
# /repo must be clean; nothing else may run checks meanwhile. The evidence
# files are rewritten by these runs: re-run the checks on the clean tree after.
cd "$(dirname "$0")/.." || exit 1
[ -z "$(git -C /repo status --porcelain)" ] || { echo "/repo is not clean"; exit 1; }
trap 'git -C /repo checkout -- . ; git -C /repo clean -fdq' EXIT INT TERM
seeds=${*:-$(ls seeded | grep -v RESULTS)}
out=seeded/RESULTS.txt
[ $# -eq 0 ] && : > $out
for s in $seeds; do
  prop=$(python3 -c "import json;print(json.load(open('seeded/$s/meta.json'))['property'])")
  git -C /repo apply "$PWD/seeded/$s/patch.diff" || { echo "$s: patch does not apply" | tee -a $out; continue; }
  start=$(date +%s)
  ./check $prop > /tmp/runseed-$s.log 2>&1
  rc=$?
  end=$(date +%s)
  git -C /repo checkout -- .
  git -C /repo clean -fdq
  first=$(grep -A1 '^VIOLATION' /tmp/runseed-$s.log | sed -n 2p | cut -c1-160)
  echo "$s property=$prop exit=$rc violations=$(grep -c '^VIOLATION' /tmp/runseed-$s.log) $((end-start))s :: $first" | tee -a $out
done
