#!/bin/sh
# Runs arnodel/golua's own test suite on /repo's working tree:
#  1. the pinned baseline (guard off, default linker flags): the packages that link;
#  2. the full suite with -ldflags=-checklinkname=0 (runtime and lib/* need it with go1.23).
# Known pre-existing failure in (2): lib/tablelib TestTable/lua/tablelib.quotas.lua.
export GOFLAGS=-mod=mod GOPROXY=off GOSUMDB=off GOTOOLCHAIN=local
cd /repo || exit 2
echo "== baseline (no flags)"
go test -vet=off -count=1 ./... 2>&1 | grep -v "^#\|link: \|no test files" | grep -v "^FAIL.*\[build failed\]" 
echo "== full (checklinkname=0)"
go test -vet=off -count=1 -ldflags=-checklinkname=0 ./... 2>&1 | grep -v "no test files"
rm -f lib/iolib/files/popenwrite.txt
git status --short
