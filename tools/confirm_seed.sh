#!/bin/sh
# tools/confirm_seed.sh <ID> [worktree [outname]]: re-confirms a seeded change independently:
# builds, runs golua's suite, runs the demonstration with and without the change,
# and stores patch + demo under /verif/seeded/<outname or ID>/.
id=$1; wt=${2:-/tmp/seed-$id}
export GOFLAGS=-mod=mod GOPROXY=off GOSUMDB=off GOTOOLCHAIN=local
out=/verif/seeded/${3:-$id}; mkdir -p $out
cd $wt || exit 1
git diff > $out/patch.diff
[ -s $out/patch.diff ] || { echo "$id: empty patch"; exit 1; }
rm -rf $out/demo; cp -r seed-demo $out/demo
go build -ldflags=-checklinkname=0 $(go list ./... | grep -v seed-demo) || { echo "$id: BUILD FAILS"; exit 1; }
pkgs=$(go list ./... | grep -v seed-demo)
go test -count=1 -vet=off $pkgs > /tmp/confirm-$id-base.log 2>&1
basepass=$(grep -c "^ok" /tmp/confirm-$id-base.log)
go test -count=1 -vet=off -ldflags=-checklinkname=0 $pkgs > /tmp/confirm-$id-full.log 2>&1
rm -f lib/iolib/files/popenwrite.txt
fullfail=$(grep "^--- FAIL\|^    --- FAIL" /tmp/confirm-$id-full.log | tr '\n' ' ')
demo=$(ls seed-demo/*.lua 2>/dev/null | head -1)
run_demo() { # $1 = binary suffix
  if [ -f seed-demo/run.sh ]; then (sh seed-demo/run.sh > /tmp/confirm-$id-demo-$1.log 2>&1; echo $?)
  elif ls seed-demo/*_test.go >/dev/null 2>&1; then (go test -count=1 -vet=off -ldflags=-checklinkname=0 ./seed-demo/ > /tmp/confirm-$id-demo-$1.log 2>&1; echo $?)
  elif [ -f seed-demo/main.go ]; then (go run -ldflags=-checklinkname=0 ./seed-demo > /tmp/confirm-$id-demo-$1.log 2>&1; echo $?)
  else
    go build -ldflags=-checklinkname=0 -o /tmp/golua-confirm-$id-$1 . && (cd $(dirname $demo) && /tmp/golua-confirm-$id-$1 $(basename $demo) > /tmp/confirm-$id-demo-$1.log 2>&1; echo $?); fi
}
with=$(run_demo with)
git apply -R $out/patch.diff
without=$(run_demo without)
git apply $out/patch.diff
rm -f /tmp/golua-confirm-$id-*
echo "$id: baseline packages ok=$basepass ; full-suite failures: [$fullfail] ; demo exit with change=$with without=$without"
