#!/bin/sh
# tools/try_seed.sh <ID> [<worktree> [tier [extra check ids...]]]
# Runs ./check <ID> against a scratch worktree of golua that has a seeded
# change applied (uncommitted), using a scratch copy of /verif whose go.mod
# points at that worktree. /repo itself is not touched.
id=$1
wt=${2:-/tmp/seed-$id}
tier=${3:-quick}
[ $# -gt 0 ] && shift
[ $# -gt 0 ] && shift
[ $# -gt 0 ] && shift
scratch=/tmp/vs-$id
rm -rf "$scratch"
mkdir -p "$scratch"
rsync -a --exclude bin --exclude replays --exclude .git /verif/ "$scratch"/
sed -i "s#=> /repo#=> $wt#" "$scratch/go.mod"
for c in $id "$@"; do
  (cd "$scratch" && ./check $c --tier $tier > "$scratch/check-$c.log" 2>&1
   echo "check $c (tier $tier) against $wt: exit $? ; $(grep -c '^VIOLATION' "$scratch/check-$c.log") violation line(s)")
  grep -A6 '^VIOLATION' "$scratch/check-$c.log" | head -24
done
