# Table of claimed properties; executed by gen_manifest.py
hook_commits = ["4fbb1bd"]
not_applicable = {}
claimed["C16"] = dict(
    technique="exhaustive lattice enumeration + rapid property-based testing against a big-integer/IEEE for-loop model",
    text="Every (start,limit,step) triple over a 38-value boundary lattice (54,872 triples x 2 operand routes) is run and compared with an independent loop model; rapid adds random triples near the integer/float boundaries. Exhaustive on the lattice, sampled beyond; bounded exploration, not a proof.",
    note="Trusts internal/numref (math/big model written from manual §3.3.5 and the reference implementation where the manual is silent: NaN operands, numeric strings, float accumulation are accepted in both readings). Body capped at 50 iterations.",
    design_ref="DESIGN.md §3 C16",
)
