#!/usr/bin/env python3
"""tools/flip_fixed.py <finding-id> <commit> [<what failed>]
Marks a finding as fixed in known_findings.json / known_findings.d/*.json."""
import json, sys, glob, os
here = os.path.dirname(os.path.dirname(os.path.abspath(__file__)))
fid, commit = sys.argv[1], sys.argv[2]
what = sys.argv[3] if len(sys.argv) > 3 else None
done = False
for p in [os.path.join(here, 'known_findings.json')] + sorted(glob.glob(os.path.join(here, 'known_findings.d', '*.json'))):
    d = json.load(open(p))
    ch = False
    for f in d.get('findings', []):
        if f['id'] == fid:
            f['status'] = 'fixed'
            f['commit'] = commit
            w = what or f.get('what', '')
            f['line'] = 'fixed: property=%s %s %s' % (f['property'], commit, (w + (' (' + f['input'] + ')' if f.get('input') and not what else ''))[:400])
            ch = True
            done = True
    if ch:
        json.dump(d, open(p, 'w'), indent=1)
print(('flipped ' if done else 'NOT FOUND ') + fid)
