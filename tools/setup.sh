#!/bin/sh
# Offline setup: build the driver and warm the Go build cache for the checks.
cd "$(dirname "$0")/.." || exit 1
export GOFLAGS=-mod=mod GOPROXY=off GOSUMDB=off GOTOOLCHAIN=local
mkdir -p bin evidence replays
go build -o bin/vcheck ./cmd/vcheck || exit 1
for d in props/*/; do
  go test -c -vet=off -tags verif -ldflags=-checklinkname=0 -o bin/props.warm.test "./$d" || exit 1
done
rm -f bin/props.warm.test
# warm the build cache for the race-built checks and for C14's six runner builds
for d in props/c09 props/c20; do
  go test -c -race -vet=off -tags verif -ldflags=-checklinkname=0 -o bin/props.warm.test "./$d" || exit 1
done
rm -f bin/props.warm.test
for tags in "verif" "verif noregpool" "verif nocontpool" "verif noregpool nocontpool" "verif noquotas" "verif safepool"; do
  go build -tags "$tags" -ldflags=-checklinkname=0 -o bin/vrun.warm ./cmd/vrun || exit 1
done
rm -f bin/vrun.warm
echo setup ok
