#!/bin/sh
# Offline setup: build the driver and warm the Go build cache for the checks.
cd "$(dirname "$0")/.." || exit 1
export GOFLAGS=-mod=mod GOPROXY=off GOSUMDB=off GOTOOLCHAIN=local
mkdir -p bin evidence replays
go build -o bin/vcheck ./cmd/vcheck || exit 1
for d in props/*/; do
  go test -c -vet=off -tags verif -ldflags=-checklinkname=0 -o bin/props.warm.test "./$d" || exit 1
done
rm -f bin/props.warm.test
echo setup ok
