#!/bin/sh
# tools/run_seeds_scratch.sh [seed ...]: like run_seeds.sh, but leaves /repo
# alone: every stored patch is applied to a scratch worktree of /repo's HEAD
# and the property's quick check is run from a scratch copy of /verif whose
# go.mod points at that worktree (tools/try_seed.sh). Can run while other
# checks use /repo. Writes seeded/RESULTS.txt.
cd "$(dirname "$0")/.." || exit 1
wt=${RS_WT:-/tmp/rs-wt} # two instances may run side by side with different RS_WT and disjoint properties
git -C /repo worktree remove --force $wt 2>/dev/null
git -C /repo worktree add --detach $wt HEAD >/dev/null 2>&1 || { echo "cannot create worktree"; exit 1; }
trap 'git -C /repo worktree remove --force $wt 2>/dev/null' EXIT INT TERM
seeds=${*:-$(ls seeded | grep -v RESULTS)}
out=seeded/RESULTS.txt
if [ $# -eq 0 ]; then echo "# quick check of each seed's property against a scratch worktree of /repo $(git -C /repo rev-parse --short HEAD) with the patch applied (tools/run_seeds_scratch.sh)" > $out; fi
for s in $seeds; do
  prop=$(python3 -c "import json;print(json.load(open('seeded/$s/meta.json'))['property'])")
  git -C $wt checkout -q -- . ; git -C $wt clean -fdq
  git -C $wt apply "$PWD/seeded/$s/patch.diff" || { echo "$s: patch does not apply" | tee -a $out; continue; }
  start=$(date +%s)
  sh tools/try_seed.sh $prop $wt > /tmp/runseed-$s.log 2>&1
  end=$(date +%s)
  log=/tmp/vs-$prop/check-$prop.log
  rc=$(sed -n 's/.*: exit \([0-9]*\) ;.*/\1/p' /tmp/runseed-$s.log | head -1)
  first=$(grep -a -A1 '^VIOLATION' $log | sed -n 2p | cut -c1-160)
  echo "$s property=$prop exit=$rc violations=$(grep -a -c '^VIOLATION' $log) $((end-start))s :: $first" | tee -a $out
done
