#!/usr/bin/env python3
"""Writes /verif/MANIFEST.json from the table below (kept in one place so that
claimed / not_applicable stay consistent with properties.jsonl)."""
import json, os
here = os.path.dirname(os.path.dirname(os.path.abspath(__file__)))
props = [json.loads(l)["id"] for l in open(os.path.join(here, "properties.jsonl"))]

# id -> (technique, level text, level_note, design_ref)
claimed = {}
exec(open(os.path.join(here, "tools", "claims.py")).read())

checks = []
for pid in props:
    if pid not in claimed:
        continue
    c = claimed[pid]
    checks.append({
        "property_id": pid,
        "quick_cmd": f"./check {pid} --tier quick",
        "thorough_cmd": f"./check {pid} --tier thorough",
        "evidence_file": f"/verif/evidence/{pid}.json",
        "replay_cmd_template": f"./check {pid} --replay {{path}}",
        "engine": "props",
        "level_claimed": {"category": c.get("category", "exploration"), "text": c["text"], "design_ref": c["design_ref"]},
        "level_note": c["note"],
        "technique": c["technique"],
    })
na = [{"property_id": p, "reason": not_applicable.get(p, "check not built yet in this revision (planned: property-based check per DESIGN.md §3)")} for p in props if p not in claimed]
m = {
    "version": 1,
    "setup_cmd": "sh tools/setup.sh",
    "hooks": {
        "guard": "verif",
        "enable": "go test -tags verif -ldflags=-checklinkname=0 (build tag 'verif' compiles runtime/verif_hooks.go)",
        "baseline_off_cmd": "cd /repo && GOFLAGS=-mod=mod GOPROXY=off go test -vet=off -count=1 ./...",
        "source_commits": hook_commits,
        "add_only": True,
    },
    "engines": [
        {"name": "props", "path": "/verif/props", "serves_properties": sorted(claimed), "kind_free_text": "Go test binary (pgregory.net/rapid v1.3.0 generators + exhaustive lattices) with explicit oracles in /verif/internal; driven and sharded by /verif/cmd/vcheck via ./check"},
    ],
    "checks": checks,
    "not_applicable": na,
    "notes": "Every check rebuilds /verif/props against /repo's working tree (replace directive), tag verif. Exit 0 held / 1 VIOLATION line / 2 inconclusive (build failure, worker death, harness timeout). VERIF_SEED honoured (0 remapped). Known findings: /verif/known_findings.json.",
}
json.dump(m, open(os.path.join(here, "MANIFEST.json"), "w"), indent=1)
print("claimed:", sorted(claimed), "not_applicable:", [x["property_id"] for x in na])
