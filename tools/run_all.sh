#!/bin/sh
# Runs every claimed check's quick (or $1) tier sequentially; prints one line per check.
cd "$(dirname "$0")/.." || exit 1
tier=${1:-quick}
for id in $(python3 -c "import json;print(' '.join(c['property_id'] for c in json.load(open('MANIFEST.json'))['checks']))"); do
  start=$(date +%s)
  ./check $id --tier $tier > /tmp/runall-$id.log 2>&1
  rc=$?
  end=$(date +%s)
  echo "$id rc=$rc $((end-start))s $(grep -c '^KNOWN-FINDING' /tmp/runall-$id.log) known $(grep -c '^VIOLATION' /tmp/runall-$id.log) violations :: $(grep "tier=$tier" /tmp/runall-$id.log | tail -1)"
done
