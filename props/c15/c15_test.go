package c15

import (
	"encoding/json"
	"fmt"
	"os"
	"runtime/debug"
	"strconv"
	"strings"
	"testing"
	"time"

	"github.com/arnodel/golua/lib/stringlib/pattern"
	rt "github.com/arnodel/golua/runtime"
	"pgregory.net/rapid"

	"verif/internal/ev"
	"verif/internal/harness"
	"verif/internal/patref"
	. "verif/internal/pbt"
)

// C15 — Lua pattern matching follows the manual for every pattern and subject.
//
// Oracle: internal/patref (recursive backtracking matcher and find / match /
// gmatch / gsub drivers written from the manual §6.4, §6.4.1).

// ---------------------------------------------------------------------------
// cases

type c15Case struct {
	P    []byte `json:"p"`    // pattern (base64 in JSON: arbitrary bytes)
	S    []byte `json:"s"`    // subject
	Init int64  `json:"init"` // init argument of find/match/gmatch
	Repl []byte `json:"repl"` // string replacement of gsub
	N    int64  `json:"n"`    // count limit of the limited gsub
	Show string `json:"show"` // human-readable spelling
}

func mkCase(p, s string, init int64, repl string, n int64) c15Case {
	return c15Case{P: []byte(p), S: []byte(s), Init: init, Repl: []byte(repl), N: n,
		Show: fmt.Sprintf("s=%q p=%q init=%d repl=%q n=%d", s, p, init, repl, n)}
}

const (
	refBudget  = 300_000    // reference matcher steps per API call; beyond: case discarded
	goBudget   = 50_000_000 // budget handed to golua's Go API
	defaultRep = "<%0|%1|%%>"
)

// ---------------------------------------------------------------------------
// replacement rule shared by the table and the function replacement (the Lua
// side implements the same rule in tval)

func tval(k patref.Val) patref.Val {
	if k.K == 's' {
		first := 0
		if len(k.S) > 0 {
			first = int(k.S[0])
		}
		switch (len(k.S) + first) % 4 {
		case 0:
			return patref.Nil
		case 1:
			return patref.Bool(false)
		case 2:
			return patref.Str("<" + k.S + ">")
		}
		return patref.Int(int64(len(k.S)))
	}
	switch k.I % 3 {
	case 0:
		return patref.Nil
	case 1:
		return patref.Str("@" + strconv.FormatInt(k.I, 10))
	}
	return patref.Int(k.I * 10)
}

const luaHelpers = `
local find, match, gmatch, gsub = string.find, string.match, string.gmatch, string.gsub
local pack, unpack, concat = table.pack, table.unpack, table.concat
local mtype, select, type, tostring, pcall = math.type, select, type, tostring, pcall
local sub, byte, char = string.sub, string.byte, string.char
local emit, sink = emit, sink

local function tval(k)
  if type(k) == "string" then
    local h = (#k + (byte(k, 1) or 0)) % 4
    if h == 0 then return nil elseif h == 1 then return false elseif h == 2 then return "<" .. k .. ">" else return #k end
  else
    local h = k % 3
    if h == 0 then return nil elseif h == 1 then return "@" .. k else return k * 10 end
  end
end

-- a plain table holding tval(k) for every substring of s and every position
local tcache, tcount = {}, 0
local function tableFor(s)
  local t = tcache[s]
  if t then return t end
  if tcount > 300 then tcache, tcount = {}, 0 end
  t = {}
  local n = #s
  for i = 1, n + 1 do
    local v = tval(i)
    if v ~= nil then t[i] = v end
    for j = i - 1, n do
      local k = sub(s, i, j)
      local w = tval(k)
      if w ~= nil then t[k] = w end
    end
  end
  tcache[s] = t
  tcount = tcount + 1
  return t
end

local function fnrepl(...)
  emit("f", ...)
  return tval((...))
end

-- one case, every API, observations through emit
local function one(s, p, init, repl, n, skipm)
  emit("find", pcall(find, s, p, init))
  emit("plain", pcall(find, s, p, init, true))
  if not skipm then emit("match", pcall(match, s, p, init)) end
  do
    local ok, it = pcall(gmatch, s, p, init)
    if not ok then
      emit("gmerr")
    else
      local cnt = 0
      while true do
        local r = pack(pcall(it))
        if not r[1] then emit("gmerr") break end
        if r[2] == nil then emit("gmend", cnt) break end
        cnt = cnt + 1
        emit("gm", unpack(r, 2, r.n))
        if cnt > #s + 2 then emit("gmrunaway") break end
      end
    end
  end
  emit("gsub-s", pcall(gsub, s, p, repl))
  emit("gsub-n", pcall(gsub, s, p, repl, n))
  emit("gsub-t", pcall(gsub, s, p, tableFor(s)))
  emit("gsub-f", pcall(gsub, s, p, fnrepl))
end

-- compact spelling for the batch runner (subjects over a, b, c only)
local function enc(v)
  local ty = type(v)
  if ty == "string" then return "'" .. v end
  if ty == "number" then
    if mtype(v) == "integer" then return tostring(v) end
    return "F" .. tostring(v)
  end
  if v == nil then return "N" end
  return tostring(v)
end
local function fmtl(t, i, j)
  local o = {}
  for k = i, j do o[#o + 1] = enc(t[k]) end
  return concat(o, ",")
end
local function fmtv(ok, ...)
  if not ok then return "E" end
  local n = select("#", ...)
  if n == 1 then return enc((...)) end
  return fmtl({...}, 1, n)
end

local function gm(s, p, init)
  local ok, it = pcall(gmatch, s, p, init)
  if not ok then return "E" end
  local parts, cnt = {}, 0
  while true do
    local r = pack(pcall(it))
    if not r[1] then return "E" end
    if r[2] == nil then break end
    cnt = cnt + 1
    parts[cnt] = fmtl(r, 2, r.n)
    if cnt > #s + 2 then parts[cnt + 1] = "RUNAWAY" break end
  end
  return concat(parts, ";")
end

-- all strings over a,b,c up to length 5, by length then lexicographically
local subjects = {""}
do
  local prev = {""}
  for l = 1, 5 do
    local cur = {}
    for _, x in ipairs(prev) do
      for _, c in ipairs{"a", "b", "c"} do cur[#cur + 1] = x .. c end
    end
    for _, x in ipairs(cur) do subjects[#subjects + 1] = x end
    prev = cur
  end
end

local calls
local function fnrepl2(...)
  calls[#calls + 1] = fmtl({...}, 1, select("#", ...))
  return tval((...))
end

-- batch: pattern p against every subject whose index has '1' in mask, every
-- init in -len-1 .. len+2; result handed to the host in one string
local function batch(p, mask, repl, n, hi)
  local out, k = {}, 0
  for si = 1, #mask do
    if byte(mask, si) == 49 then
      local s = subjects[si]
      local len = #s
      for init = -len - 1, len + hi do
        out[k + 1] = fmtv(pcall(find, s, p, init))
        out[k + 2] = fmtv(pcall(find, s, p, init, true))
        out[k + 3] = fmtv(pcall(match, s, p, init))
        out[k + 4] = gm(s, p, init)
        k = k + 4
      end
      out[k + 1] = fmtv(pcall(gsub, s, p, repl))
      out[k + 2] = fmtv(pcall(gsub, s, p, repl, n))
      out[k + 3] = fmtv(pcall(gsub, s, p, tableFor(s)))
      calls = {}
      local r = fmtv(pcall(gsub, s, p, fnrepl2))
      if r == "E" then out[k + 4] = r else out[k + 4] = r .. "!" .. concat(calls, ";") end
      k = k + 4
    end
  end
  sink(concat(out, "\n"))
end

-- membership of every byte in a single-character pattern
local function classbits(p)
  local o = {}
  for b = 0, 255 do
    local ok, r = pcall(find, char(b), p)
    o[b + 1] = (not ok) and "E" or (r and "1" or "0")
  end
  sink(concat(o))
end

-- CPU clause: one API on a^n .. tail
local function cpu(api, s, p)
  if api == "find" then return find(s, p)
  elseif api == "match" then return match(s, p)
  elseif api == "gmatch" then
    local c = 0
    for _ in gmatch(s, p) do c = c + 1 end
    return c
  else return gsub(s, p, "x") end
end

return {one = one, batch = batch, classbits = classbits, cpu = cpu}
`

// ---------------------------------------------------------------------------
// runner

type runner struct {
	s                         *harness.Session
	one, batch, classbits, cp rt.Value
	sink                      string
}

func (r *runner) session() *harness.Session {
	if r.s != nil {
		return r.s
	}
	s := harness.NewSession()
	s.R.SetEnvGoFunc(s.R.GlobalEnv(), "sink", func(t *rt.Thread, c *rt.GoCont) (rt.Cont, error) {
		str, err := c.StringArg(0)
		if err != nil {
			return nil, err
		}
		r.sink = str
		return c.Next(), nil
	}, 1, false).SolemnlyDeclareCompliance(rt.ComplyCpuSafe | rt.ComplyMemSafe | rt.ComplyIoSafe | rt.ComplyTimeSafe)
	v, err := s.Load("c15helpers", luaHelpers)
	if err != nil {
		panic(err)
	}
	tbl := v.AsTable()
	r.one = tbl.Get(rt.StringValue("one"))
	r.batch = tbl.Get(rt.StringValue("batch"))
	r.classbits = tbl.Get(rt.StringValue("classbits"))
	r.cp = tbl.Get(rt.StringValue("cpu"))
	r.s = s
	return s
}

func (r *runner) poison() { r.s = nil }

func (r *runner) runOne(c c15Case, skipMatch bool) *harness.Trace {
	s := r.session()
	tr := s.Call(r.one, 0, 0, rt.StringValue(string(c.S)), rt.StringValue(string(c.P)), rt.IntValue(c.Init), rt.StringValue(string(c.Repl)), rt.IntValue(c.N), rt.BoolValue(skipMatch))
	if tr.Panic != "" {
		r.poison()
	}
	return tr
}

// ---------------------------------------------------------------------------
// expectation per (pattern, subject, init, API)

const (
	aFind = iota
	aPlain
	aMatch
	aGmatch
	aGsubS
	aGsubN
	aGsubT
	aGsubF
	nAPI
)

// known-finding input classes (bits)
const (
	clPlainInit  = 1 << iota // plain search (4th argument true, or empty pattern) from init > 1
	clMatchInit              // string.match with init > len+1 and a pattern starting with '^'
	clMaxCaps                // more than 9 captures
	clBracketLo              // set with a range starting at the leading ']' ("[]-a]")
	clGsubAnchor             // gsub with a '^' pattern whose unanchored reading gives another result
	clGsubCount              // gsub whose iteration meets an empty match right after a non-empty one
	clGsubEmpty              // gsub whose result is empty up to the end of the last replaced match
)

var classSlug = []struct {
	bit  uint
	slug string
}{
	{clPlainInit, "C15-plain-find-init-offset"},
	{clMatchInit, "C15-match-init-beyond-end-panics"},
	{clMaxCaps, "C15-more-than-9-captures-rejected"},
	{clBracketLo, "C15-set-range-from-leading-bracket"},
	{clGsubAnchor, "C15-gsub-ignores-caret-anchor"},
	{clGsubCount, "C15-gsub-counts-rejected-empty-match"},
	{clGsubEmpty, "C15-gsub-empty-result-returns-subject"},
}

func slugOf(bits uint) string {
	for _, c := range classSlug {
		if bits&c.bit != 0 {
			return c.slug
		}
	}
	return ""
}

type parsed struct {
	src     string
	pat     *patref.Pattern // find/match/gsub reading; nil if malformed
	gl, gi  *patref.Pattern // gmatch readings: '^' literal; '^' ignored (nil unless p starts with '^')
	anyOnly bool            // malformed or unspecified: only "no Go panic" is required (plain find still compared)
	note    string
	pclass  uint // pattern-level known-finding classes
}

func parsePat(p string) *parsed {
	pp := &parsed{src: p}
	pat, err := patref.Parse(p)
	if err != nil {
		pp.anyOnly = true
		pp.note = "malformed: " + err.Error()
		return pp
	}
	pp.pat = pat
	if len(pat.Unspecified) > 0 {
		pp.anyOnly = true
		pp.note = "unspecified: " + strings.Join(pat.Unspecified, "; ")
		return pp
	}
	pp.gl, err = patref.ParseGMatch(p, patref.CaretLiteral)
	if err != nil {
		panic("gmatch reading rejected a pattern that find accepts: " + p)
	}
	if len(p) > 0 && p[0] == '^' {
		pp.gi, err = patref.ParseGMatch(p, patref.CaretIgnored)
		if err != nil {
			panic("gmatch (ignored caret) reading rejected a pattern that find accepts: " + p)
		}
	}
	if pat.NCap > 9 {
		pp.pclass |= clMaxCaps
	}
	if pat.BracketRange {
		pp.pclass |= clBracketLo
	}
	return pp
}

type apiRes struct {
	vals    []patref.Val   // find/plain/match: returned values; gsub: result, count
	tuples  [][]patref.Val // gmatch: tuples; gsub-f: the arguments of each call
	alt     [][]patref.Val // gmatch: second acceptable reading
	hasAlt  bool
	err     bool // a Lua error is expected
	budget  bool // the reference ran out of budget: not compared
	nontriv bool
	class   uint // known-finding input classes this (case, API) belongs to
}

func tuplesEqual(a, b [][]patref.Val) bool {
	if len(a) != len(b) {
		return false
	}
	for i := range a {
		if len(a[i]) != len(b[i]) {
			return false
		}
		for j := range a[i] {
			if a[i][j] != b[i][j] {
				return false
			}
		}
	}
	return true
}

// ref computes the expectation of one API; pp must not be anyOnly unless api is aPlain.
func (pp *parsed) ref(api int, s string, init int64, repl string, n int64) apiRes {
	var r apiRes
	st := &patref.Stats{}
	fail := func(err error) bool {
		switch {
		case err == nil:
			return false
		case err == patref.ErrBudget:
			r.budget = true
		case isRefErr(err):
			r.err = true
		default:
			panic(err)
		}
		return true
	}
	switch api {
	case aPlain:
		r.vals = patref.FindPlain(s, pp.src, init)
		if from, ok := patref.NormInit(len(s), init); ok && from > 0 && r.vals[0].K != 'n' {
			r.class |= clPlainInit
		}
		return r
	case aFind:
		v, err := pp.pat.Find(s, init, st, refBudget)
		if !fail(err) {
			r.vals = v
		}
		if from, ok := patref.NormInit(len(s), init); ok && from > 0 && pp.src == "" {
			r.class |= clPlainInit
		}
	case aMatch:
		v, err := pp.pat.Match(s, init, st, refBudget)
		if !fail(err) {
			r.vals = v
		}
		if _, ok := patref.NormInit(len(s), init); !ok && pp.pat.AnchorStart {
			r.class |= clMatchInit
		}
	case aGmatch:
		tu, err := pp.gl.GMatch(s, init, st, refBudget)
		if !fail(err) {
			r.tuples = tu
			if pp.gi != nil {
				// "a '^' at the start of a pattern does not work as an anchor": the
				// reference implementation takes it as an ordinary character;
				// dropping it is accepted as well. Anchoring is not.
				tu2, err2 := pp.gi.GMatch(s, init, st, refBudget)
				if !fail(err2) {
					r.alt, r.hasAlt = tu2, true
				}
			}
		}
		r.nontriv = pp.gl.Special() || st.Backtracks > 0
		r.class |= pp.pclass
		return r
	default:
		mk := func(calls *[][]patref.Val) patref.Repl {
			switch api {
			case aGsubT:
				return patref.Repl{Kind: 't', T: tval}
			case aGsubF:
				return patref.Repl{Kind: 'f', F: func(args []patref.Val) patref.Val {
					*calls = append(*calls, append([]patref.Val(nil), args...))
					return tval(args[0])
				}}
			}
			return patref.Repl{Kind: 's', S: repl}
		}
		var calls [][]patref.Val
		res, cnt, err := pp.pat.GSub(s, mk(&calls), n, api == aGsubN, st, refBudget)
		if !fail(err) {
			r.vals = []patref.Val{patref.Str(res), patref.Int(cnt)}
			r.tuples = calls
		}
		if st.RejectedEmpty > 0 {
			r.class |= clGsubCount
		}
		if st.WrittenEnd > 0 && st.WrittenOutLen == 0 {
			r.class |= clGsubEmpty
		}
		if pp.gi != nil && !r.budget {
			// what a gsub that drops the '^' would compute
			st2 := &patref.Stats{}
			var calls2 [][]patref.Val
			res2, cnt2, err2 := pp.gi.GSub(s, mk(&calls2), n, api == aGsubN, st2, refBudget)
			if err2 == patref.ErrBudget {
				r.budget = true
			} else {
				if (err2 != nil) != (err != nil) || res2 != res || cnt2 != cnt || !tuplesEqual(calls, calls2) {
					r.class |= clGsubAnchor
				}
				if st2.RejectedEmpty > 0 {
					r.class |= clGsubCount
				}
				if st2.WrittenEnd > 0 && st2.WrittenOutLen == 0 {
					r.class |= clGsubEmpty
				}
			}
		}
	}
	r.nontriv = pp.pat.Special() || st.Backtracks > 0
	r.class |= pp.pclass
	return r
}

var apiTag = [nAPI]string{"find", "plain", "match", "gmatch", "gsub-s", "gsub-n", "gsub-t", "gsub-f"}

func evLine(tag string, vals []patref.Val) string {
	if len(vals) == 0 {
		return "s:" + strconv.Quote(tag)
	}
	return "s:" + strconv.Quote(tag) + " " + patref.Enc(vals)
}

func okLine(tag string, vals []patref.Val) string {
	if len(vals) == 0 {
		return "s:" + strconv.Quote(tag) + " true"
	}
	return "s:" + strconv.Quote(tag) + " true " + patref.Enc(vals)
}

func gmText(tuples [][]patref.Val) string {
	lines := make([]string, 0, len(tuples)+1)
	for _, tu := range tuples {
		lines = append(lines, evLine("gm", tu))
	}
	lines = append(lines, evLine("gmend", []patref.Val{patref.Int(int64(len(tuples)))}))
	return strings.Join(lines, "\n")
}

// texts renders the acceptable observations as event text (single-case helper).
func (r apiRes) texts(api int) []string {
	if r.err {
		return []string{"ERROR"}
	}
	switch api {
	case aGmatch:
		out := []string{gmText(r.tuples)}
		if r.hasAlt {
			out = append(out, gmText(r.alt))
		}
		return out
	case aGsubF:
		lines := make([]string, 0, len(r.tuples)+1)
		for _, a := range r.tuples {
			lines = append(lines, evLine("f", a))
		}
		lines = append(lines, okLine(apiTag[api], r.vals))
		return []string{strings.Join(lines, "\n")}
	}
	return []string{okLine(apiTag[api], r.vals)}
}

func cenc(sb *strings.Builder, v patref.Val) {
	switch v.K {
	case 's':
		sb.WriteByte('\'')
		sb.WriteString(v.S)
	case 'i':
		sb.WriteString(strconv.FormatInt(v.I, 10))
	case 'n':
		sb.WriteByte('N')
	default:
		if v.I != 0 {
			sb.WriteString("true")
		} else {
			sb.WriteString("false")
		}
	}
}

func cvals(sb *strings.Builder, vs []patref.Val) {
	for i, v := range vs {
		if i > 0 {
			sb.WriteByte(',')
		}
		cenc(sb, v)
	}
}

func ctuples(sb *strings.Builder, tu [][]patref.Val) {
	for i, t := range tu {
		if i > 0 {
			sb.WriteByte(';')
		}
		cvals(sb, t)
	}
}

// compact renders the acceptable observations in the batch helper's spelling.
func (r apiRes) compact(api int) (string, string) {
	if r.err {
		return "E", ""
	}
	var sb strings.Builder
	switch api {
	case aGmatch:
		ctuples(&sb, r.tuples)
		if r.hasAlt {
			var sb2 strings.Builder
			ctuples(&sb2, r.alt)
			return sb.String(), sb2.String()
		}
		return sb.String(), ""
	case aGsubF:
		cvals(&sb, r.vals)
		sb.WriteByte('!')
		ctuples(&sb, r.tuples)
		return sb.String(), ""
	}
	cvals(&sb, r.vals)
	return sb.String(), ""
}

func isRefErr(err error) bool {
	if err == nil {
		return false
	}
	if _, ok := err.(*patref.ErrRepl); ok {
		return true
	}
	_, ok := err.(*patref.ErrMalformed)
	return ok
}

// observed groups the emitted events by API and normalises errors.
func observed(tr *harness.Trace) map[string]string {
	groups := map[string][]string{}
	isErr := map[string]bool{}
	for _, e := range tr.Events {
		tag := e
		if i := strings.IndexByte(e, ' '); i >= 0 {
			tag = e[:i]
		}
		tag, _ = strconv.Unquote(strings.TrimPrefix(tag, "s:"))
		api := tag
		switch tag {
		case "gm", "gmend", "gmrunaway":
			api = "gmatch"
		case "gmerr":
			api = "gmatch"
			isErr[api] = true
		case "f":
			api = "gsub-f"
		default:
			if strings.HasPrefix(e, "s:"+strconv.Quote(tag)+" false") {
				isErr[api] = true
			}
		}
		groups[api] = append(groups[api], e)
	}
	out := map[string]string{}
	for api, g := range groups {
		if isErr[api] {
			out[api] = "ERROR"
		} else {
			out[api] = strings.Join(g, "\n")
		}
	}
	return out
}

// ---------------------------------------------------------------------------
// Go API (pattern.New / MatchFromStart)

type goPat struct {
	p   *pattern.Pattern
	err error
	pan string
}

func goNew(p string) (g goPat) {
	defer func() {
		if x := recover(); x != nil {
			g.pan = fmt.Sprint(x)
		}
	}()
	g.p, g.err = pattern.New(p)
	return
}

// goMatch checks MatchFromStart(s, si) against the reference; "" if fine.
func goMatch(g goPat, pat *patref.Pattern, s string, si int, st *patref.Stats) (msg string, compared bool) {
	defer func() {
		if x := recover(); x != nil {
			msg = fmt.Sprintf("Go panic in pattern.MatchFromStart(%q, %d) of %q: %v", s, si, pat.Src, x)
		}
	}()
	want, err := pat.Search(s, si, st, refBudget)
	if err != nil {
		return "", false
	}
	caps, used := g.p.MatchFromStart(s, si, goBudget)
	if used > goBudget {
		return "", false
	}
	if !want.OK {
		if len(caps) != 0 {
			return fmt.Sprintf("Go API: pattern %q on %q from offset %d: the reference has no match, MatchFromStart gives %v", pat.Src, s, si, caps), true
		}
		return "", true
	}
	bad := len(caps) != 1+len(want.Caps)
	if !bad {
		if caps[0].Start() != want.Start || caps[0].End() != want.End {
			bad = true
		}
		for i, wc := range want.Caps {
			gc := caps[i+1]
			if wc.Pos {
				if !gc.IsEmpty() || gc.Start() != wc.Start {
					bad = true
				}
			} else if gc.IsEmpty() || gc.Start() != wc.Start || gc.End() != wc.End {
				bad = true
			}
		}
	}
	if bad {
		return fmt.Sprintf("Go API: pattern %q on %q from offset %d: reference match [%d,%d) captures %v, MatchFromStart gives %v", pat.Src, s, si, want.Start, want.End, want.Caps, caps), true
	}
	return "", true
}

// goNoPanic runs golua's matcher on a pattern the reference rejects / leaves open.
func goNoPanic(g goPat, p, s string) (msg string) {
	if g.pan != "" {
		return fmt.Sprintf("Go panic in pattern.New(%q): %s", p, g.pan)
	}
	if g.err != nil {
		return ""
	}
	defer func() {
		if x := recover(); x != nil {
			msg = fmt.Sprintf("Go panic in pattern.MatchFromStart/Match(%q, si) of %q: %v", s, p, x)
		}
	}()
	for si := 0; si <= len(s); si++ {
		g.p.MatchFromStart(s, si, goBudget)
		g.p.Match(s, si, goBudget)
	}
	return ""
}

// ---------------------------------------------------------------------------
// checker

type checker struct {
	rec   *ev.Recorder
	run   *runner
	open  uint // classes of the findings that are listed open
	ntReg int  // non-trivial keys registered by this process
	ntAll int64
	nviol int
	cnt   map[string]int64 // class counters of the batch path, flushed at the end
	tGo   time.Duration    // informational timing only
	tLua  time.Duration
	tRef  time.Duration
}

const ntCap = 1_500_000

// nontrivial registers a key; to bound memory, beyond ntCap keys only one in
// 64 is registered (distinct_nontrivial is then a lower bound).
func (ck *checker) nontrivial(p, s string, init int64, api int) {
	ck.ntAll++
	if ck.ntReg >= ntCap && ck.ntAll%64 != 0 {
		return
	}
	ck.ntReg++
	ck.rec.NonTrivial(p + "\x00" + s + "\x00" + strconv.FormatInt(init, 10) + "\x00" + apiTag[api])
}

func (ck *checker) excluded(class uint) bool {
	if class&ck.open != 0 {
		ck.rec.Discard("excluded-by-finding:" + slugOf(class&ck.open))
		return true
	}
	return false
}

// evalCase runs one case through every Lua API and the Go API and returns the
// mismatches. count: record evidence.
func (ck *checker) evalCase(c c15Case, count bool) []string {
	rec := ck.rec
	s, p := string(c.S), string(c.P)
	pp := parsePat(p)
	var msgs []string
	from, inRange := patref.NormInit(len(s), c.Init)

	// Go API
	g := goNew(p)
	switch {
	case pp.anyOnly:
		if m := goNoPanic(g, p, s); m != "" {
			msgs = append(msgs, m)
		}
	case pp.pclass&ck.open != 0:
		if count {
			ck.excluded(pp.pclass)
		}
		if m := goNoPanic(g, p, s); m != "" {
			msgs = append(msgs, m)
		}
	case g.pan != "":
		msgs = append(msgs, fmt.Sprintf("Go panic in pattern.New(%q): %s", p, g.pan))
	case g.err != nil:
		msgs = append(msgs, fmt.Sprintf("Go API: pattern.New(%q) rejects a well-formed pattern: %v", p, g.err))
	case inRange:
		st := &patref.Stats{}
		m, compared := goMatch(g, pp.pat, s, from, st)
		if compared && count {
			rec.Eval()
			rec.Class("api:go")
		}
		if m != "" {
			msgs = append(msgs, m)
		}
	}

	// Lua APIs
	var exp [nAPI]apiRes
	var skip [nAPI]bool
	for api := 0; api < nAPI; api++ {
		if pp.anyOnly && api != aPlain {
			skip[api] = true
			continue
		}
		exp[api] = pp.ref(api, s, c.Init, string(c.Repl), c.N)
		if exp[api].budget {
			skip[api] = true
			if count {
				rec.Discard("reference-budget")
			}
			continue
		}
		if exp[api].class&ck.open != 0 {
			skip[api] = true
			if count {
				ck.excluded(exp[api].class)
			}
		}
	}
	skipMatch := ck.open&clMatchInit != 0 && !inRange && len(p) > 0 && p[0] == '^'
	tr := ck.run.runOne(c, skipMatch)
	if tr.Panic != "" {
		return append(msgs, fmt.Sprintf("%s: Go panic: %s", c.Show, tr.Panic))
	}
	if tr.Killed || tr.Err != "" {
		if pp.anyOnly {
			return msgs
		}
		return append(msgs, fmt.Sprintf("%s: the helper did not finish (killed=%v err=%s)", c.Show, tr.Killed, tr.Err))
	}
	obs := observed(tr)
	for api := 0; api < nAPI; api++ {
		if skip[api] {
			continue
		}
		if count {
			rec.Eval()
			rec.Class("api:" + apiTag[api])
			if exp[api].nontriv {
				ck.nontrivial(p, s, c.Init, api)
			}
		}
		got := obs[apiTag[api]]
		acc := exp[api].texts(api)
		ok := false
		for _, a := range acc {
			if a == got {
				ok = true
			}
		}
		if !ok {
			msgs = append(msgs, fmt.Sprintf("%s [%s]: golua gave\n      %s\n    expected\n      %s", c.Show, apiTag[api],
				strings.ReplaceAll(got, "\n", "\n      "), strings.ReplaceAll(strings.Join(acc, "\n   or\n"), "\n", "\n      ")))
		}
	}
	if count {
		switch {
		case pp.pat == nil:
			rec.Class("rapid:pattern-malformed")
		case pp.anyOnly:
			rec.Class("rapid:pattern-unspecified-by-manual")
		default:
			rec.Class("rapid:pattern-well-formed")
			if !skip[aFind] {
				if exp[aFind].vals[0].K != 'n' {
					rec.Class("rapid:find-match")
					if len(exp[aFind].vals) > 2 {
						rec.Class("rapid:find-match-with-captures")
					}
				} else {
					rec.Class("rapid:find-no-match")
				}
			}
			if !skip[aGmatch] && len(exp[aGmatch].tuples) >= 2 {
				rec.Class("rapid:gmatch>=2-iterations")
			}
			if !skip[aGsubS] && exp[aGsubS].err {
				rec.Class("rapid:gsub-repl-error")
			}
			if pp.pat.HasBackref {
				rec.Class("rapid:has-backref")
			}
			if pp.pat.HasBalance {
				rec.Class("rapid:has-%b")
			}
			if pp.pat.HasFrontier {
				rec.Class("rapid:has-%f")
			}
			if exp[aFind].nontriv {
				rec.Class("rapid:find-non-trivial")
			}
		}
	}
	return msgs
}

// ---------------------------------------------------------------------------
// exhaustive enumeration over the token alphabet

var tokens = []string{
	"a", "b", ".", "%a", "%A", "%d", "%s", "%w", "%x", "%p",
	"[ab]", "[^a]", "[a-b]", "[%a_]", "[]]", "[^]]", "[a-]",
	"*", "+", "-", "?", "^", "$", "(", ")", "()", "%1", "%2",
	"%bab", "%f[a]", "%f[^a]", "%%", "%.", "%", "[",
}

// subjects: all strings over a,b,c up to length 5, by length then lexicographically
var subjects, subjEnd = func() ([]string, [6]int) {
	out := []string{""}
	var ends [6]int
	ends[0] = 1
	prev := []string{""}
	for l := 1; l <= 5; l++ {
		var cur []string
		for _, x := range prev {
			for _, c := range "abc" {
				cur = append(cur, x+string(c))
			}
		}
		out = append(out, cur...)
		ends[l] = len(out)
		prev = cur
	}
	return out, ends
}()

// batchLua runs pattern pp against the subjects selected by mask through the
// batch helper and compares every entry.
func (ck *checker) batchLua(pp *parsed, mask []byte, repl string, n int64) {
	rec := ck.rec
	p := pp.src
	hi := int64(2)
	if ck.open&clMatchInit != 0 && len(p) > 0 && p[0] == '^' {
		hi = 1
		rec.Discard("excluded-by-finding:" + slugOf(clMatchInit))
	}
	sess := ck.run.session()
	ck.run.sink = ""
	tl := time.Now()
	tr := sess.Call(ck.run.batch, 0, 0, rt.StringValue(p), rt.StringValue(string(mask)), rt.StringValue(repl), rt.IntValue(n), rt.IntValue(hi))
	ck.tLua += time.Since(tl)
	defer func(t time.Time) { ck.tRef += time.Since(t) }(time.Now())
	fallback := func(why string) {
		// locate the failing case with the single-case helper
		if tr.Panic != "" {
			ck.run.poison()
		}
		for si, m := range mask {
			if m != '1' {
				continue
			}
			s := subjects[si]
			for init := int64(-len(s) - 1); init <= int64(len(s))+hi; init++ {
				c := mkCase(p, s, init, repl, n)
				if msgs := ck.evalCase(c, false); len(msgs) > 0 {
					ck.violation("case", c, msgs[0])
					return
				}
			}
		}
		if !pp.anyOnly || tr.Panic != "" {
			ck.violation("case", mkCase(p, "", 1, repl, n), "batch helper failed ("+why+") but no single case reproduces it")
		}
	}
	if tr.Panic != "" {
		fallback("Go panic: " + tr.Panic)
		return
	}
	if tr.Killed || tr.Err != "" {
		fallback(fmt.Sprintf("killed=%v err=%s", tr.Killed, tr.Err))
		return
	}
	got := strings.Split(ck.run.sink, "\n")
	k := 0
	bad := false
	check := func(si int, init int64, api int) {
		if k >= len(got) {
			bad = true
			return
		}
		g := got[k]
		k++
		if pp.anyOnly && api != aPlain {
			return
		}
		s := subjects[si]
		r := pp.ref(api, s, init, repl, n)
		if r.budget {
			rec.Discard("reference-budget")
			return
		}
		if r.class&ck.open != 0 {
			ck.excluded(r.class)
			return
		}
		rec.Eval()
		ck.cnt["api:"+apiTag[api]]++
		if r.nontriv {
			ck.nontrivial(p, s, init, api)
			ck.cnt["non-trivial:"+apiTag[api]]++
		}
		switch {
		case r.err:
			ck.cnt["expect-error:"+apiTag[api]]++
		case api == aFind && r.vals[0].K != 'n':
			ck.cnt["find:match"]++
		case api == aFind:
			ck.cnt["find:no-match"]++
		case api == aGmatch && r.hasAlt && !tuplesEqual(r.tuples, r.alt):
			ck.cnt["gmatch:caret-readings-differ"]++
		case api == aGmatch && len(r.tuples) >= 2:
			ck.cnt["gmatch:>=2-iterations"]++
		case api == aGsubS && r.vals[1].I >= 2:
			ck.cnt["gsub:>=2-substitutions"]++
		}
		a1, a2 := r.compact(api)
		if g == a1 || (r.hasAlt && g == a2) {
			return
		}
		if ck.nviol < 5 {
			c := mkCase(p, s, init, repl, n)
			msgs := ck.evalCase(c, false)
			if len(msgs) > 0 {
				ck.violation("case", c, msgs[0])
			} else {
				ck.violation("case", c, fmt.Sprintf("%s [%s]: the batch helper observed %q, expected %q (the single-case helper agrees with the reference)", c.Show, apiTag[api], g, a1))
			}
		}
		bad = true
	}
	for si, m := range mask {
		if m != '1' {
			continue
		}
		l := int64(len(subjects[si]))
		for init := -l - 1; init <= l+hi; init++ {
			check(si, init, aFind)
			check(si, init, aPlain)
			check(si, init, aMatch)
			check(si, init, aGmatch)
		}
		check(si, 1, aGsubS)
		check(si, 1, aGsubN)
		check(si, 1, aGsubT)
		check(si, 1, aGsubF)
	}
	if k != len(got) && !bad && ck.nviol < 5 {
		ck.violation("case", mkCase(p, "", 1, repl, n), fmt.Sprintf("batch helper returned %d entries, expected %d", len(got), k))
	}
}

// goAPIPattern runs pattern pp through pattern.New/MatchFromStart on subjects[0:nsubj], every offset.
func (ck *checker) goAPIPattern(pp *parsed, nsubj int) {
	rec := ck.rec
	p := pp.src
	g := goNew(p)
	report := func(s string, si int, msg string) {
		if ck.nviol < 5 {
			ck.violation("case", mkCase(p, s, int64(si)+1, defaultRep, 1), msg)
		}
	}
	if pp.anyOnly || pp.pclass&ck.open != 0 {
		if !pp.anyOnly {
			ck.excluded(pp.pclass)
		}
		for _, s := range subjects[:subjEnd[2]] {
			if m := goNoPanic(g, p, s); m != "" {
				report(s, 0, m)
				return
			}
		}
		return
	}
	if g.pan != "" {
		report("", 0, fmt.Sprintf("Go panic in pattern.New(%q): %s", p, g.pan))
		return
	}
	if g.err != nil {
		report("", 0, fmt.Sprintf("Go API: pattern.New(%q) rejects a well-formed pattern: %v", p, g.err))
		return
	}
	var n int64
	special := pp.pat.Special()
	for _, s := range subjects[:nsubj] {
		for si := 0; si <= len(s); si++ {
			st := patref.Stats{}
			m, compared := goMatch(g, pp.pat, s, si, &st)
			if compared {
				n++
				if special || st.Backtracks > 0 {
					ck.nontrivialGo(p, s, si)
				}
			}
			if m != "" {
				report(s, si, m)
				rec.EvalN(n)
				return
			}
		}
	}
	rec.EvalN(n)
	rec.ClassN("api:go", n)
}

func (ck *checker) violation(kind string, c c15Case, msg string) {
	ck.nviol++
	path := ck.rec.Violation(kind, c, msg)
	fmt.Printf("violation: %s\nreplay: %s\n", msg, path)
}

// enumerate calls f(pattern, ntokens) for every distinct concatenation of at
// most max tokens, in a fixed order.
func enumerate(max int, f func(p string, ntok int)) {
	seen := map[uint64]struct{}{}
	var rec func(prefix string, depth int)
	rec = func(prefix string, depth int) {
		h := ev.Hash(prefix)
		if _, dup := seen[h]; !dup {
			seen[h] = struct{}{}
			f(prefix, depth)
		}
		if depth == max {
			return
		}
		for _, t := range tokens {
			rec(prefix+t, depth+1)
		}
	}
	rec("", 0)
}

func (ck *checker) nontrivialGo(p, s string, si int) {
	ck.ntAll++
	if ck.ntReg >= ntCap && ck.ntAll%64 != 0 {
		return
	}
	ck.ntReg++
	ck.rec.NonTrivial(p + "\x00" + s + "\x00" + strconv.Itoa(si+1) + "\x00go")
}

// ---------------------------------------------------------------------------
// rapid generators: longer patterns and subjects, arbitrary bytes

// node is one element of a generated pattern; it can spell itself and produce
// a string it matches.
type node struct {
	text    string // source text of the element (without quantifier)
	members []byte // some bytes an atom matches (empty: none known)
	q       byte   // quantifier
	kids    []*node
	kind    byte // 'a' atom, 'g' group, 'p' position capture, 'r' back-reference, 'b' balanced, 'f' frontier, 'x' raw text
	n       int  // back-reference index (1-based)
	x, y    byte
}

var litAlphabet = []byte{'a', 'b', 'c', 'a', 'b', 'A', 'Z', '0', '7', ' ', '\t', '\n', '_', '.', '-', '%', '^', '$', '(', ')', '[', ']', '*', '+', '?', 0, 1, 127, 128, 200, 255}

func isSpecial(c byte) bool { return strings.IndexByte("^$()%.[]*+-?", c) >= 0 }

func litText(c byte) string {
	if isSpecial(c) {
		return "%" + string(c)
	}
	return string(c)
}

func genSet(t *rapid.T) string {
	var sb strings.Builder
	sb.WriteByte('[')
	if rapid.IntRange(0, 3).Draw(t, "neg") == 0 {
		sb.WriteByte('^')
	}
	first := rapid.IntRange(0, 39).Draw(t, "first")
	switch first {
	case 0, 1, 2, 3:
		sb.WriteByte(']')
	case 4, 5, 6, 7:
		sb.WriteByte('-')
	case 8:
		sb.WriteString("]-")
		sb.WriteByte(rapid.SampledFrom([]byte{'a', 'c', '_', '^', ']', 'z'}).Draw(t, "bhi"))
	}
	n := rapid.IntRange(1, 4).Draw(t, "nitems")
	for i := 0; i < n; i++ {
		switch rapid.IntRange(0, 9).Draw(t, "item") {
		case 0, 1, 2, 3:
			c := rapid.SampledFrom(litAlphabet).Draw(t, "c")
			if c == ']' || c == '%' || c == '^' || c == '-' {
				sb.WriteByte('%')
			}
			sb.WriteByte(c)
		case 4, 5:
			lo := rapid.SampledFrom([]byte{'a', 'b', '0', 'A', 0, 127, 128, 250}).Draw(t, "lo")
			hi := int(lo) + rapid.IntRange(0, 5).Draw(t, "span")
			if hi > 255 {
				hi = 255
			}
			sb.WriteByte(lo)
			sb.WriteByte('-')
			sb.WriteByte(byte(hi))
		case 6, 7:
			sb.WriteByte('%')
			sb.WriteByte(rapid.SampledFrom([]byte("acdglpsuwxACDGLPSUWX")).Draw(t, "cl"))
		case 8:
			sb.WriteByte('%')
			sb.WriteByte(rapid.SampledFrom([]byte("]-%^.[")).Draw(t, "esc"))
		case 9:
			// rarely: something the manual leaves open or a raw special
			sb.WriteString(rapid.SampledFrom([]string{"^", "[", "c-a", "%a-z", "a-%", ".", "%z"}).Draw(t, "odd"))
		}
	}
	if rapid.IntRange(0, 7).Draw(t, "last") == 0 {
		sb.WriteByte('-')
	}
	sb.WriteByte(']')
	return sb.String()
}

func membersOf(text string) []byte {
	set, ok := patref.ClassSet(text)
	if !ok {
		return nil
	}
	var out []byte
	// favour the bytes of the literal alphabet
	for _, c := range litAlphabet {
		if set[c] {
			out = append(out, c)
		}
	}
	if len(out) == 0 {
		for c := 0; c < 256 && len(out) < 4; c++ {
			if set[c] {
				out = append(out, byte(c))
			}
		}
	}
	return out
}

type patGen struct {
	ncap   int   // captures opened so far
	closed []int // closed, non-position captures (1-based)
	open   int
}

func (g *patGen) atom(t *rapid.T) *node {
	var text string
	switch rapid.IntRange(0, 9).Draw(t, "atom") {
	case 0, 1, 2, 3:
		text = litText(rapid.SampledFrom(litAlphabet).Draw(t, "lit"))
	case 4:
		text = "."
	case 5, 6:
		text = "%" + string(rapid.SampledFrom([]byte("acdglpsuwxACDGLPSUWX")).Draw(t, "cl"))
	default:
		text = genSet(t)
	}
	nd := &node{kind: 'a', text: text, members: membersOf(text)}
	if rapid.IntRange(0, 9).Draw(t, "hasq") < 5 {
		nd.q = rapid.SampledFrom([]byte("*+-?")).Draw(t, "q")
	}
	return nd
}

func (g *patGen) seq(t *rapid.T, depth, maxLen int) []*node {
	n := rapid.IntRange(0, maxLen).Draw(t, "len")
	var out []*node
	for i := 0; i < n; i++ {
		k := rapid.IntRange(0, 19).Draw(t, "elem")
		switch {
		case k < 8:
			out = append(out, g.atom(t))
		case k < 12 && depth < 3 && g.ncap < 12:
			g.ncap++
			idx := g.ncap
			g.open++
			kids := g.seq(t, depth+1, 3)
			g.open--
			g.closed = append(g.closed, idx)
			out = append(out, &node{kind: 'g', kids: kids, n: idx})
		case k < 13 && g.ncap < 12:
			g.ncap++
			out = append(out, &node{kind: 'p', text: "()", n: g.ncap})
		case k < 16:
			if len(g.closed) > 0 {
				idx := rapid.SampledFrom(g.closed).Draw(t, "backref")
				if idx <= 9 {
					out = append(out, &node{kind: 'r', n: idx, text: "%" + strconv.Itoa(idx)})
					break
				}
			}
			out = append(out, g.atom(t))
		case k < 17:
			pair := rapid.SampledFrom([]string{"()", "ab", "[]", "<>", "\x00\xff", "a\x80"}).Draw(t, "bal")
			out = append(out, &node{kind: 'b', text: "%b" + pair, x: pair[0], y: pair[1]})
		case k < 18:
			set := genSet(t)
			out = append(out, &node{kind: 'f', text: "%f" + set})
		case k < 19:
			// anchors in the middle are ordinary characters
			out = append(out, &node{kind: 'a', text: rapid.SampledFrom([]string{"^", "$"}).Draw(t, "midanchor"), q: rapid.SampledFrom([]byte{0, 0, '*', '?'}).Draw(t, "q")})
			out[len(out)-1].members = []byte{out[len(out)-1].text[0]}
		default:
			// raw noise: mostly malformed or unspecified
			out = append(out, &node{kind: 'x', text: rapid.SampledFrom([]string{"%", "[", "(", ")", "]", "%b", "%bx", "%f", "%fa", "%0", "%9", "%1", "%z", "%y", "[a", "[%", "[^", "%b((", "()", "-", "*"}).Draw(t, "raw")})
		}
	}
	return out
}

func spell(sb *strings.Builder, ns []*node) {
	for _, nd := range ns {
		switch nd.kind {
		case 'g':
			sb.WriteByte('(')
			spell(sb, nd.kids)
			sb.WriteByte(')')
		default:
			sb.WriteString(nd.text)
			if nd.q != 0 {
				sb.WriteByte(nd.q)
			}
		}
	}
}

// sample writes a string the element sequence is likely to match.
func sample(t *rapid.T, sb *strings.Builder, ns []*node, caps map[int]string) {
	for _, nd := range ns {
		switch nd.kind {
		case 'a':
			lo, hi := 1, 1
			switch nd.q {
			case '*', '-':
				lo, hi = 0, 3
			case '+':
				lo, hi = 1, 3
			case '?':
				lo, hi = 0, 1
			}
			k := rapid.IntRange(lo, hi).Draw(t, "rep")
			for i := 0; i < k && len(nd.members) > 0; i++ {
				sb.WriteByte(rapid.SampledFrom(nd.members).Draw(t, "member"))
			}
		case 'g':
			start := sb.Len()
			sample(t, sb, nd.kids, caps)
			caps[nd.n] = sb.String()[start:]
		case 'r':
			sb.WriteString(caps[nd.n])
		case 'b':
			sb.WriteByte(nd.x)
			k := rapid.IntRange(0, 3).Draw(t, "inner")
			for i := 0; i < k; i++ {
				sb.WriteByte(rapid.SampledFrom([]byte{'a', 'c', nd.x, nd.y, '_'}).Draw(t, "innerc"))
			}
			sb.WriteByte(nd.y)
		}
	}
}

func genCase(t *rapid.T) c15Case {
	g := &patGen{}
	ns := g.seq(t, 0, 6)
	var pb strings.Builder
	if rapid.IntRange(0, 3).Draw(t, "caret") == 0 {
		pb.WriteByte('^')
	}
	if rapid.IntRange(0, 29).Draw(t, "manycaps") == 0 {
		// more captures than golua's array holds
		k := rapid.IntRange(8, 34).Draw(t, "ncaps")
		for i := 0; i < k; i++ {
			pb.WriteString(rapid.SampledFrom([]string{"()", "(a?)", "(.?)"}).Draw(t, "cap"))
		}
	}
	spell(&pb, ns)
	if rapid.IntRange(0, 3).Draw(t, "dollar") == 0 {
		pb.WriteByte('$')
	}
	p := pb.String()

	// subject: noise + a likely match + noise, or pure noise over the pattern's bytes
	var alpha []byte
	alpha = append(alpha, 'a', 'b', 'c')
	for _, nd := range ns {
		alpha = append(alpha, nd.members...)
	}
	alpha = append(alpha, rapid.SampledFrom(litAlphabet).Draw(t, "extra"))
	noise := func(label string, max int) string {
		k := rapid.IntRange(0, max).Draw(t, label)
		b := make([]byte, k)
		for i := range b {
			b[i] = rapid.SampledFrom(alpha).Draw(t, "nb")
		}
		return string(b)
	}
	var sb strings.Builder
	switch rapid.IntRange(0, 9).Draw(t, "subjkind") {
	case 0, 1:
		sb.WriteString(noise("noise", 12))
	default:
		sb.WriteString(noise("pre", 3))
		reps := rapid.IntRange(1, 2).Draw(t, "reps")
		for i := 0; i < reps; i++ {
			sample(t, &sb, ns, map[int]string{})
			sb.WriteString(noise("mid", 2))
		}
	}
	s := sb.String()
	if len(s) > 40 {
		s = s[:40]
	}
	l := int64(len(s))
	init := rapid.OneOf(
		rapid.Just(int64(1)),
		rapid.Int64Range(-l-3, l+3),
		rapid.SampledFrom([]int64{0, 1 << 31, -(1 << 31), 1<<63 - 1, -1 << 63, 1 << 62}),
	).Draw(t, "init")

	// replacement string
	var rb strings.Builder
	nr := rapid.IntRange(0, 4).Draw(t, "nrepl")
	for i := 0; i < nr; i++ {
		switch rapid.IntRange(0, 5).Draw(t, "rpiece") {
		case 0, 1:
			rb.WriteString(rapid.SampledFrom([]string{"x", "-", "", "<>", "\x00", "\xff"}).Draw(t, "rlit"))
		case 2:
			rb.WriteString("%0")
		case 3:
			rb.WriteString("%1")
		case 4:
			rb.WriteString("%%")
		case 5:
			rb.WriteString("%" + strconv.Itoa(rapid.IntRange(1, 9).Draw(t, "rcap")))
		}
	}
	n := int64(rapid.IntRange(-2, 3).Draw(t, "n"))
	return mkCase(p, s, init, rb.String(), n)
}

// ---------------------------------------------------------------------------

func TestC15(t *testing.T) {
	rec := ev.New("C15")
	defer Finish(t, rec)
	rec.Rule("Exhaustive: every distinct concatenation of <= 3 (thorough: <= 4 through the Go API) tokens of a 35-token alphabet covering every pattern construct (incl. a dangling % and an open [) x every subject over {a,b,c} of length <= 4 x every init in -len-1..len+2, through pattern.New/MatchFromStart and through string.find, find(plain), match, a full gmatch iteration and gsub with a string, table and function replacement and a count limit; plus rapid-generated longer patterns (nested captures, back-references, %b, %f, sets with ranges/classes/complements, bytes 0 and >= 128, malformed fragments) on subjects built to be likely matches; plus a class table check of every class/set on all 256 bytes; plus CPU charging of exponential patterns. Oracle: internal/patref, a recursive backtracking matcher and find/match/gmatch/gsub drivers written from the manual. Non-trivial: the reference matcher backtracked at least once for this call, or the pattern uses a capture, back-reference, %b, %f or an anchor; distinct by (pattern, subject, init, API).")
	rec.Assume("a pattern the reference parser rejects (dangling %, unclosed [ or (, unmatched ), %b without arguments, %f without [, back-reference to an open or missing capture): golua may raise an error or, since the reference implementation only raises when the faulty part is reached, return a result; only a Go panic is a violation")
	rec.Assume("patterns whose meaning the manual leaves open are only required not to panic: ranges mixed with classes ([%a-z], [a-%%]), descending ranges, %b with equal delimiters, %z, % followed by an alphanumeric that names no class, a back-reference to a position capture")
	rec.Assume("string.gmatch with a pattern starting with '^' ('does not work as an anchor'): both the reference implementation's reading (an ordinary character) and dropping the '^' are accepted; anchoring is not")
	rec.Assume("init = 0, init < -len and init > len+1 (manual silent) follow the reference implementation: 0 and < -len mean 1, > len+1 fails (find, match) / iterates nothing (gmatch); a negative count limit of gsub is not generated")
	rec.Assume("character classes are those of the C locale")
	ck := &checker{rec: rec, run: &runner{}, cnt: map[string]int64{}}
	defer func() {
		for k, v := range ck.cnt {
			rec.ClassN(k, v)
		}
	}()
	// the Lua runtime allocates a lot of short-lived garbage and the live heap is small
	defer debug.SetGCPercent(debug.SetGCPercent(400))

	for _, c := range classSlug {
		if ev.Open(c.slug) {
			ck.open |= c.bit
		}
	}

	if rec.Replay != "" {
		rf, err := rec.LoadReplay()
		if err != nil {
			t.Fatal(err)
		}
		var c c15Case
		if err := json.Unmarshal(rf.Case, &c); err != nil {
			t.Fatal(err)
		}
		if rf.Kind == "cpu" {
			if msg := ck.cpuClause(false); msg != "" {
				rec.Violation("cpu", c, msg)
			}
			return
		}
		ck.open = 0 // a replay checks the case as given
		rec.Eval()
		if msgs := ck.evalCase(c, false); len(msgs) > 0 {
			rec.Violation(rf.Kind, c, strings.Join(msgs, "\n"))
		}
		return
	}

	if os.Getenv("C15_PROBE") != "" {
		probe(ck)
		return
	}

	// known findings: fixed demonstrations
	demo := func(c c15Case) func() bool {
		return func() bool {
			save := ck.open
			ck.open = 0
			defer func() { ck.open = save }()
			return len(ck.evalCase(c, false)) > 0
		}
	}
	CheckKnown(rec, "C15-plain-find-init-offset", demo(mkCase("c", "abc", 3, "x", 1)))
	CheckKnown(rec, "C15-match-init-beyond-end-panics", demo(mkCase("^", "abc", 10, "x", 1)))
	CheckKnown(rec, "C15-more-than-9-captures-rejected", demo(mkCase("()()()()()()()()()()", "abc", 1, "x", 1)))
	CheckKnown(rec, "C15-set-range-from-leading-bracket", demo(mkCase("[]-a]+", "]-a^", 1, "x", 1)))
	CheckKnown(rec, "C15-gsub-ignores-caret-anchor", demo(mkCase("^a", "aaa", 1, "x", 1)))
	CheckKnown(rec, "C15-gsub-counts-rejected-empty-match", demo(mkCase("%w*", "abc", 1, "x", 1)))
	CheckKnown(rec, "C15-gsub-empty-result-returns-subject", demo(mkCase(".", "abc", 1, "", 1)))

	t0 := time.Now()
	lap := func(what string) {
		fmt.Printf("[c15] %s: %.1fs\n", what, time.Since(t0).Seconds())
		t0 = time.Now()
	}
	// 1. class tables: every class letter and several sets on all 256 bytes
	ck.classTables()
	lap("class tables")

	// 2. exhaustive enumeration
	ck.exhaustive()
	lap("exhaustive")
	if ck.nviol > 0 {
		return
	}

	// 3. rapid: longer patterns and subjects
	RunRapid(rec, "C15/random", rec.Pick(30000, 100000), 0, func(t *rapid.T) {
		c := genCase(t)
		msgs := ck.evalCase(c, true)
		rec.Sample(map[string]any{"pattern": string(strconv.Quote(string(c.P))), "subject": strconv.Quote(string(c.S)), "init": c.Init, "repl": strconv.Quote(string(c.Repl)), "n": c.N})
		if len(msgs) > 0 {
			FailCase(t, "case", c, "%s", msgs[0])
		}
	})
	lap("rapid random")
	// 4. sampled 4-token (quick) / 5-token (thorough) concatenations through the Lua APIs
	ntok := rec.Pick(4, 5)
	RunRapid(rec, "C15/tokens", rec.Pick(1500, 20000), 1, func(t *rapid.T) {
		var pb strings.Builder
		for i := 0; i < ntok; i++ {
			pb.WriteString(rapid.SampledFrom(tokens).Draw(t, "tok"))
		}
		s := subjects[rapid.IntRange(0, subjEnd[4]-1).Draw(t, "subj")]
		l := int64(len(s))
		c := mkCase(pb.String(), s, rapid.Int64Range(-l-1, l+2).Draw(t, "init"), defaultRep, int64(rapid.IntRange(0, 2).Draw(t, "n")))
		if msgs := ck.evalCase(c, true); len(msgs) > 0 {
			FailCase(t, "case", c, "%s", msgs[0])
		}
	})

	lap("rapid tokens")
	// 5. CPU charging
	if msg := ck.cpuClause(true); msg != "" {
		rec.Violation("cpu", mkCase("a*a*a*a*b", "a^n", 1, "x", 1), msg)
	}
	lap("cpu clause")
}

func (ck *checker) classTables() {
	rec := ck.rec
	if !rec.Mine(0) {
		return
	}
	pats := []string{".", "a", "%.", "%%", "%]", "\x00", "\xff", "[\x00]", "[^\x00]", "[\x80-\xff]", "[a-z]", "[^a-z]", "[%w_]", "[_%w]", "[0-7%l%-]", "[]]", "[^]]", "[a-]", "[-a]", "[%]]", "[%a%d]", "[^%s%p]", "[a-cx-z]", "[%^]", "[a^]"}
	for _, c := range "acdglpsuwx" {
		pats = append(pats, "%"+string(c), "%"+strings.ToUpper(string(c)), "[%"+string(c)+"]", "[^%"+string(c)+"]", "[%"+strings.ToUpper(string(c))+"]")
	}
	sess := ck.run.session()
	for _, p := range pats {
		set, ok := patref.ClassSet(p)
		if !ok {
			panic("not a single class: " + p)
		}
		ck.run.sink = ""
		tr := sess.Call(ck.run.classbits, 0, 0, rt.StringValue(p))
		if tr.Panic != "" || tr.Err != "" || tr.Killed || len(ck.run.sink) != 256 {
			ck.violation("case", mkCase(p, "a", 1, "x", 1), fmt.Sprintf("class table of %q: helper failed: %s", p, tr))
			ck.run.poison()
			return
		}
		for b := 0; b < 256; b++ {
			rec.Eval()
			want := byte('0')
			if set[b] {
				want = '1'
			}
			if ck.run.sink[b] != want {
				ck.violation("case", mkCase(p, string([]byte{byte(b)}), 1, "x", 1), fmt.Sprintf("string.find(%q, %q): golua %c, reference %c", string([]byte{byte(b)}), p, ck.run.sink[b], want))
				return
			}
		}
		rec.Class("class-table")
	}
}

func (ck *checker) exhaustive() {
	rec := ck.rec
	thorough := rec.Thorough()
	luaMax := 3 // tokens: patterns run through the Lua APIs
	goMax := 3
	if thorough {
		goMax = 4
	}
	nsubj := subjEnd[4]
	idx := 0
	seedRot := int(rec.BaseSeed() % 1000)
	var nPat, nMal, nUnspec int64
	enumerate(goMax, func(p string, ntok int) {
		idx++
		h := int(ev.Hash(p) >> 33)
		if !rec.Mine(h) || ck.nviol >= 5 {
			return
		}
		pp := parsePat(p)
		nPat++
		switch {
		case pp.pat == nil:
			nMal++
		case pp.anyOnly:
			nUnspec++
		}
		tg := time.Now()
		if thorough && ntok <= 3 {
			ck.goAPIPattern(pp, subjEnd[5])
		} else {
			ck.goAPIPattern(pp, nsubj)
		}
		ck.tGo += time.Since(tg)
		// Lua APIs. Quick: all subjects for <= 2 tokens, a rotating thirtieth (plus
		// the empty subject) for 3 tokens. Thorough: all subjects for <= 3 tokens,
		// and every 40th 4-token pattern on a rotating quarter of the subjects.
		if ntok > luaMax && (h/16)%40 != 0 {
			return
		}
		mask := make([]byte, nsubj)
		for i := range mask {
			mask[i] = '0'
			switch {
			case pp.anyOnly:
				// only "no panic" and plain find are checked: a few subjects suffice
				if i < subjEnd[1] || (i+idx)%40 == 0 {
					mask[i] = '1'
				}
			case ntok <= 2 || (thorough && ntok == 3) || i == 0:
				mask[i] = '1'
			case ntok == 3:
				if (i*7+idx+seedRot)%30 == 0 {
					mask[i] = '1'
				}
			default:
				if (i*7+idx+seedRot)%4 == 0 {
					mask[i] = '1'
				}
			}
		}
		ck.batchLua(pp, mask, defaultRep, int64(idx%4)-1)
		if nPat%64 == 1 {
			rec.Sample(map[string]any{"pattern": p, "tokens": ntok, "note": pp.note, "subjects": strings.Count(string(mask), "1")})
		}
	})
	rec.ClassN("pattern:well-formed", nPat-nMal-nUnspec)
	rec.ClassN("pattern:malformed", nMal)
	rec.ClassN("pattern:unspecified-by-manual", nUnspec)
	fmt.Printf("[c15] exhaustive: go-api %.1fs, lua batch %.1fs, reference+compare %.1fs\n", ck.tGo.Seconds(), ck.tLua.Seconds(), ck.tRef.Seconds())
	rec.Exhaustive(true)
	rec.Set("token_alphabet", len(tokens))
	rec.Set("n_patterns_enumerated", float64(nPat))
}

// cpuClause: matching work is charged to the CPU budget. Exponential patterns
// on a^n must be charged more as n grows, and under a small limit the call
// must end (killed, or finished with the right answer), never hang.
func (ck *checker) cpuClause(count bool) string {
	rec := ck.rec
	if count && !rec.Mine(1) {
		return ""
	}
	sess := ck.run.session()
	pats := []string{"a*a*a*a*b", "a-a-a-a-b", "a+a+a+a+b", "a?a?a?a?a?a?a?a?a?a?b", "(a*)(a*)a*%1b", "[ab]*[ac]*a*.-b"}
	want := map[string]string{"find": "nil", "match": "nil", "gmatch": "i:0"}
	for _, p := range pats {
		pat, err := patref.Parse(p)
		if err != nil {
			panic(err)
		}
		for _, api := range []string{"find", "match", "gmatch", "gsub"} {
			var prev uint64
			var prevSteps int64
			for _, n := range []int{8, 16, 32, 64} {
				s := strings.Repeat("a", n)
				st := &patref.Stats{}
				if r, err := pat.Search(s, 0, st, 0); err != nil || r.OK {
					panic("cpu clause: the reference finds a match")
				}
				tr := sess.Call(ck.run.cp, 0, 0, rt.StringValue(api), rt.StringValue(s), rt.StringValue(p))
				if count {
					rec.Eval()
					rec.Class("cpu-clause")
					rec.NonTrivial("cpu\x00" + p + "\x00" + api + "\x00" + strconv.Itoa(n))
				}
				if tr.Panic != "" {
					ck.run.poison()
					return fmt.Sprintf("string.%s(('a'):rep(%d), %q): Go panic %s", api, n, p, tr.Panic)
				}
				w := want[api]
				if api == "gsub" {
					w = "s:" + strconv.Quote(s) + " i:0"
				}
				if tr.Killed || tr.Err != "" || tr.Rets != w {
					return fmt.Sprintf("string.%s(('a'):rep(%d), %q) under the default CPU limit: expected %s, got\n%s", api, n, p, w, tr)
				}
				if tr.UsedCPU < prev {
					return fmt.Sprintf("string.%s(('a'):rep(n), %q): CPU charged for n=%d (%d) is less than for n=%d (%d) although the reference does %d vs %d steps", api, p, n, tr.UsedCPU, n/2, prev, st.Steps, prevSteps)
				}
				if prev > 0 && st.Steps >= 8*prevSteps && tr.UsedCPU < 2*prev {
					return fmt.Sprintf("string.%s(('a'):rep(n), %q): the reference's work grows from %d to %d steps between n=%d and n=%d, the CPU charged only from %d to %d: matching work is not charged", api, p, prevSteps, st.Steps, n/2, n, prev, tr.UsedCPU)
				}
				prev, prevSteps = tr.UsedCPU, st.Steps
			}
			// small limit, large n: must end
			s := strings.Repeat("a", 150)
			const limit = 20000
			tr := sess.Call(ck.run.cp, limit, 0, rt.StringValue(api), rt.StringValue(s), rt.StringValue(p))
			if count {
				rec.Eval()
				rec.NonTrivial("cpu-limit\x00" + p + "\x00" + api)
			}
			if tr.Panic != "" {
				ck.run.poison()
				return fmt.Sprintf("string.%s(('a'):rep(150), %q) under CPU limit %d: Go panic %s", api, p, limit, tr.Panic)
			}
			if !tr.Killed {
				w := want[api]
				if api == "gsub" {
					w = "s:" + strconv.Quote(s) + " i:0"
				}
				if tr.Err != "" || tr.Rets != w {
					return fmt.Sprintf("string.%s(('a'):rep(150), %q) under CPU limit %d: neither killed nor the right result:\n%s", api, p, limit, tr)
				}
				if count {
					rec.Class("cpu-limit:finished")
				}
			} else if count {
				rec.Class("cpu-limit:killed")
			}
		}
	}
	return ""
}

// probe: C15_PROBE="pattern|subject|init|repl|n;..." evaluates cases with no
// finding excluded and prints the mismatches (developer aid).
func probe(ck *checker) {
	ck.open = 0
	for _, spec := range strings.Split(os.Getenv("C15_PROBE"), ";;") {
		f := strings.Split(spec, "|")
		if len(f) != 5 {
			continue
		}
		unq := func(s string) string {
			if u, err := strconv.Unquote(`"` + s + `"`); err == nil {
				return u
			}
			return s
		}
		init, _ := strconv.ParseInt(f[2], 10, 64)
		n, _ := strconv.ParseInt(f[4], 10, 64)
		c := mkCase(unq(f[0]), unq(f[1]), init, unq(f[3]), n)
		fmt.Printf("== %s\n", c.Show)
		pp := parsePat(string(c.P))
		fmt.Printf("   %s\n", pp.note)
		tr := ck.run.runOne(c, false)
		fmt.Printf("%s", tr)
		for _, m := range ck.evalCase(c, false) {
			fmt.Printf("  MISMATCH %s\n", m)
		}
	}
}
