package c05

import (
	"encoding/json"
	"fmt"
	"strings"
	"testing"
	"time"

	"pgregory.net/rapid"

	"verif/internal/ev"
	"verif/internal/harness"
	"verif/internal/luagen"
	"verif/internal/mlua"
	. "verif/internal/pbt"
	"verif/internal/progcheck"
)

// C05 — a CPU limit is a hard, exact and uninterceptable bound.

type limCase struct {
	Source string   `json:"source"`
	Args   []string `json:"args"`
	Limit  uint64   `json:"limit"`
	U      uint64   `json:"u,omitempty"` // CPU used by the unlimited run
	Kind   string   `json:"kind"`        // "program" | "intercept" | "unmetered"
	Mem    uint64   `json:"mem,omitempty"`
	Name   string   `json:"name,omitempty"`
}

const hugeCPU = 4_000_000_000

func run(c limCase, cpu uint64) *harness.Trace {
	// the in-flight marker carries the limit (a crash under a limit does not
	// reproduce without it)
	mc := c
	mc.Limit = cpu
	if mc.Kind == "" {
		mc.Kind = "intercept"
	}
	progcheck.SkipInflight = true
	progcheck.MarkInflight(mc.Kind, mc)
	return progcheck.RunGolua(progcheck.Case{Source: c.Source, Args: c.Args}, harness.Opts{CPU: cpu, Mem: c.Mem})
}

// runWatched guards calls that might never come back.
func runWatched(c limCase, cpu uint64, d time.Duration) (*harness.Trace, bool) {
	done := make(chan *harness.Trace, 1)
	go func() { done <- run(c, cpu) }()
	select {
	case tr := <-done:
		return tr, false
	case <-time.After(d):
		select {
		case tr := <-done:
			return tr, false
		case <-time.After(d):
			return nil, true
		}
	}
}

func isPrefix(a, b []string) bool {
	if len(a) > len(b) {
		return false
	}
	for i := range a {
		if a[i] != b[i] {
			return false
		}
	}
	return true
}

// checkProgram verifies the exactness relations of one program at one limit,
// given the unlimited run ref (which used ref.UsedCPU units).
func checkProgram(c limCase, ref *harness.Trace) string {
	u := ref.UsedCPU
	L := c.Limit
	tr := run(c, L)
	if tr.Panic != "" {
		return "Go panic: " + tr.Panic
	}
	wantKilled := L <= u
	if tr.Killed != wantKilled {
		if wantKilled {
			return fmt.Sprintf("the program uses %d CPU units when unlimited, so limit %d must kill it, but it ended %q (used %d, error %q): the termination was intercepted or the accounting is not exact", u, L, tr.Status, tr.UsedCPU, tr.ErrTok)
		}
		return fmt.Sprintf("the program uses only %d CPU units when unlimited but was killed under limit %d (used %d)", u, L, tr.UsedCPU)
	}
	if tr.UsedCPU >= L {
		return fmt.Sprintf("CPU counter reached the limit: used %d under limit %d", tr.UsedCPU, L)
	}
	if !isPrefix(tr.Events, ref.Events) {
		return fmt.Sprintf("events under limit %d are not a prefix of the unlimited run's events:\n  limited:   %v\n  unlimited: %v", L, tr.Events, ref.Events)
	}
	if !tr.Killed {
		if len(tr.Events) != len(ref.Events) || tr.Rets != ref.Rets || tr.ErrTok != ref.ErrTok {
			return fmt.Sprintf("limit %d > usage %d but the results differ from the unlimited run: events %d vs %d, returns %q vs %q, error %q vs %q", L, u, len(tr.Events), len(ref.Events), tr.Rets, ref.Rets, tr.ErrTok, ref.ErrTok)
		}
		if tr.UsedCPU != u {
			return fmt.Sprintf("CPU accounting is not deterministic: %d units under limit %d, %d when unlimited", tr.UsedCPU, L, u)
		}
	}
	// determinism
	tr2 := run(c, L)
	if tr2.UsedCPU != tr.UsedCPU || tr2.Killed != tr.Killed || len(tr2.Events) != len(tr.Events) {
		return fmt.Sprintf("two runs under limit %d differ: used %d/%d, killed %v/%v, events %d/%d", L, tr.UsedCPU, tr2.UsedCPU, tr.Killed, tr2.Killed, len(tr.Events), len(tr2.Events))
	}
	// nothing of the killed context runs afterwards
	if tr.Killed {
		n := len(tr.Events)
		time.Sleep(time.Millisecond)
		if len(tr.Events) != n {
			return fmt.Sprintf("Lua code of the killed context kept running after control had returned to the host (events grew from %d to %d)", n, len(tr.Events))
		}
	}
	return ""
}

// interception templates: whatever they do, a small limit must kill them.
var intercept = []struct{ name, src string }{
	{"bare-loop", `local i = 0 while true do i = i + 1 end`},
	{"pcall-loop", `while true do pcall(function() while true do end end) end`},
	{"pcall-loop-with-work", `local n = 0 while true do local ok, e = pcall(function() local t = {} for i = 1, 1e9 do t[i % 10] = i end end) n = n + 1 emit("intercepted", ok, e) end`},
	{"xpcall-handler-loops", `while true do xpcall(function() while true do end end, function(m) emit("handler-ran") while true do end end) end`},
	{"xpcall-handler-retries", `local function h(m) emit("handler-ran") return m end while true do xpcall(function() while true do end end, h) end`},
	{"coroutine-wrap-retry", `while true do local co = coroutine.wrap(function() while true do end end) pcall(co) emit("survived-coroutine-kill") end`},
	{"coroutine-resume-retry", `while true do local co = coroutine.create(function() while true do end end) local ok = coroutine.resume(co) emit("resume-returned", ok) end`},
	{"close-handler-loops", `local function closer() return setmetatable({}, {__close = function() emit("close-ran") while true do end end}) end
while true do pcall(function() local c <close> = closer() while true do end end) end`},
	{"close-handler-in-coroutine", `local function closer() return setmetatable({}, {__close = function() emit("close-ran") end}) end
local co = coroutine.wrap(function() local c <close> = closer() while true do end end) co() emit("unreachable")`},
	{"close-handler-loops-at-coroutine-close", `local function closer() return setmetatable({}, {__close = function() emit("close-entered") while true do end end}) end
while true do local co = coroutine.create(function() local c <close> = closer() coroutine.yield() end) coroutine.resume(co) emit("survived-close", pcall(coroutine.close, co)) end`},
	{"close-handler-loops-at-coroutine-error", `local function closer() return setmetatable({}, {__close = function() emit("close-entered") while true do end end}) end
while true do local co = coroutine.create(function() local c <close> = closer() error("x") end) emit("survived-resume", pcall(coroutine.resume, co)) end`},
	{"close-handler-bulk-at-coroutine-close", `local function closer() return setmetatable({}, {__close = function() emit("close-entered") return #("x"):rep(1e7, ",") end}) end
while true do local co = coroutine.wrap(function() local c <close> = closer() coroutine.yield() error("y") end) co() emit("survived-second", pcall(co)) end`},
	{"gc-handler-loops-at-context-exit", `setmetatable({}, {__gc = function() emit("gc-entered") while true do end end}) emit("body-done")`},
	{"gc-handler-loops-at-context-exit-after-error", `setmetatable({}, {__gc = function() emit("gc-entered") while true do end end}) error("body-fails")`},
	{"gc-handler-loops-at-nested-context-exit-after-error", `local ctx = runtime.callcontext({kill = {cpu = 1e15}}, function() setmetatable({}, {__gc = function() emit("gc-entered") while true do end end}) error("body-fails") end) emit("outlived-nested-context", ctx.status)`},
	{"gc-handler-bulk-at-context-exit-after-error", `setmetatable({}, {__gc = function() emit("gc-entered") return #("x"):rep(1e7, ",") end}) error({})`},
	{"close-and-gc-handlers-after-error", `local c <close> = setmetatable({}, {__close = function() setmetatable({}, {__gc = function() while true do end end}) end}) error("body-fails")`},
	{"gc-handler-loops", `setmetatable({}, {__gc = function() emit("gc-ran") while true do end end}) while true do local t = {} end`},
	{"nested-callcontext-bigger", `while true do runtime.callcontext({kill = {cpu = 1e15}}, function() while true do end end) emit("outlived-nested-context") end`},
	{"nested-callcontext-bigger-bulk-request", `while true do runtime.callcontext({kill = {cpu = 1e15}}, function() return #("x"):rep(1e7, ",") end) emit("outlived-nested-context") end`},
	{"nested-callcontext-equal-bulk-request", `while true do local left = runtime.context().kill.cpu - runtime.context().used.cpu runtime.callcontext({kill = {cpu = left}}, function() return #("x"):rep(1e7, ",") end) emit("outlived-nested-context") end`},
	{"nested-callcontext-bulk-in-coroutine", `while true do runtime.callcontext({kill = {cpu = 1e12, memory = 1e12}}, function() local co = coroutine.wrap(function() return #("x"):rep(1e7, ",") end) return co() end) emit("outlived-nested-context") end`},
	{"pcall-bulk-request", `while true do emit("intercepted", pcall(string.rep, "x", 1e7, ",")) end`},
	{"xpcall-bulk-request", `while true do emit("intercepted", xpcall(string.rep, function(m) emit("handler-ran") return m end, "x", 1e7, ",")) end`},
	{"nested-callcontext-noquota", `while true do runtime.callcontext({}, function() while true do end end) emit("outlived-nested-context") end`},
	{"metamethod-recursion", `local t = setmetatable({}, {__index = function(t, k) return t[k + 1] end}) pcall(function() return t[1] end) emit("after") while true do end`},
	{"string-work-in-pcall", `local s = ("a"):rep(2000) while true do emit("find", pcall(string.find, s, "b", 1, true)) emit("rep", pcall(string.rep, "x", 100000)) emit("gsub", pcall(string.gsub, s, "a", "bb")) end`},
	{"sort-comparator-loops", `local t = {} for i = 1, 100 do t[i] = -i end while true do pcall(table.sort, t, function(a, b) while true do end end) end`},
	{"gsub-callback-loops", `while true do pcall(string.gsub, "abc", ".", function() while true do end end) end`},
	{"tostring-metamethod-loops", `local o = setmetatable({}, {__tostring = function() while true do end end}) while true do pcall(tostring, o) end`},
	{"load-in-loop", `while true do local f = load("while true do end") pcall(f) end`},
	{"error-handler-chain", `local function f() error("x") end while true do pcall(pcall, pcall, f) end`},
	{"goto-loop", `local i = 0 ::top:: i = i + 1 goto top`},
	{"deep-recursion-pcall", `local function r(n) return pcall(r, n + 1) end while true do r(1) end`},
}

// callback sites: every place where the library or the VM calls back into Lua,
// each handed a function that never returns; combined with four ways of
// observing what happens after the limit is hit.
const loopFn = `function(...) while true do end end`

var callbackSites = []struct{ name, call string }{
	{"sort-cmp", `table.sort({3, 2, 1}, LOOP)`},
	{"sort-lt", `local o = setmetatable({}, {__lt = LOOP}) table.sort({o, o, o})`},
	{"gsub-fn", `string.gsub("abc", ".", LOOP)`},
	{"gsub-table-index", `string.gsub("abc", ".", setmetatable({}, {__index = LOOP}))`},
	{"load-reader", `load(LOOP)`},
	{"tostring", `tostring(setmetatable({}, {__tostring = LOOP}))`},
	{"format-s", `string.format("%s", setmetatable({}, {__tostring = LOOP}))`},
	{"print", `print(setmetatable({}, {__tostring = LOOP}))`},
	{"concat-index", `table.concat(setmetatable({}, {__index = LOOP}), ",", 1, 3)`},
	{"insert-newindex", `table.insert(setmetatable({}, {__newindex = LOOP}), 1)`},
	{"unpack-index", `table.unpack(setmetatable({}, {__index = LOOP}), 1, 3)`},
	{"move-index", `table.move(setmetatable({}, {__index = LOOP}), 1, 3, 2, {})`},
	{"ipairs-index", `for _ in ipairs(setmetatable({}, {__index = LOOP})) do end`},
	{"pairs-metamethod", `for _ in pairs(setmetatable({}, {__pairs = LOOP})) do end`},
	{"index", `local _ = setmetatable({}, {__index = LOOP}).k`},
	{"newindex", `setmetatable({}, {__newindex = LOOP}).k = 1`},
	{"call", `setmetatable({}, {__call = LOOP})()`},
	{"arith", `local _ = setmetatable({}, {__add = LOOP}) + 1`},
	{"concat", `local _ = setmetatable({}, {__concat = LOOP}) .. "x"`},
	{"len", `local _ = #setmetatable({}, {__len = LOOP})`},
	{"eq", `local m = {__eq = LOOP} local _ = setmetatable({}, m) == setmetatable({}, m)`},
	{"lt", `local _ = setmetatable({}, {__lt = LOOP}) < 1`},
	{"unm", `local _ = -setmetatable({}, {__unm = LOOP})`},
	{"close", `do local cl <close> = setmetatable({}, {__close = LOOP}) end`},
	{"xpcall-handler", `xpcall(error, LOOP, "x")`},
	{"coroutine-wrap", `coroutine.wrap(LOOP)()`},
	{"for-iterator", `for _ in LOOP do end`},
	{"select-after-call", `select(2, (LOOP)())`},
}

var callbackWrappers = []struct{ name, src string }{
	{"direct", `emit("before") CALL emit("survived")`},
	{"in-coroutine", `emit("resume-returned", coroutine.resume(coroutine.create(function() CALL end))) emit("survived") while true do end`},
	{"pending-close", `local c <close> = setmetatable({}, {__close = function() emit("close-ran") end}) CALL emit("survived")`},
	{"in-pcall", `emit("intercepted", pcall(function() CALL end)) while true do end`},
}

func init() {
	for _, s := range callbackSites {
		for _, w := range callbackWrappers {
			call := strings.ReplaceAll(s.call, "LOOP", loopFn)
			intercept = append(intercept, struct{ name, src string }{"callback:" + s.name + "/" + w.name, strings.ReplaceAll(w.src, "CALL", call)})
		}
	}
}

// unmetered: library calls with a size parameter N; under small limits they
// must come back (done, error or killed), whatever N.
var unmetered = []struct{ name, src string }{
	{"rep", `return #string.rep("x", N)`},
	{"rep-sep", `return #string.rep("x", N, ",")`},
	{"rep-empty", `return #string.rep("", N)`},
	{"rep-empty-sep", `return #string.rep("", N, "")`},
	{"rep-find", `return (("x"):rep(M)):find("y", 1, true)`},
	{"rep-find-pattern", `return (("x"):rep(M)):find("x*y")`},
	{"rep-gsub", `return #((("x"):rep(M)):gsub("x", "yy"))`},
	{"rep-gmatch", `local n = 0 for _ in (("x"):rep(M)):gmatch("x") do n = n + 1 end return n`},
	{"rep-upper-reverse", `return #(("x"):rep(M)):upper():reverse()`},
	{"rep-byte", `return select("#", (("x"):rep(M)):byte(1, -1))`},
	{"concat", `local t = {} for i = 1, 100 do t[i] = "x" end return #table.concat(t, ",", 1, N)`},
	{"unpack", `return select("#", table.unpack({}, 1, N))`},
	{"move", `return #table.move({1, 2, 3}, 1, N, 2)`},
	{"insert-remove", `local t = {} for i = 1, M do table.insert(t, 1, i) end return #t`},
	{"sort", `local t = {} for i = 1, M do t[i] = (i * 7919) % 1009 end table.sort(t) return #t`},
	{"format-width", `return #string.format("%" .. math.min(N, 99) .. "d", 1)`},
	{"pack-z", `return #string.pack("z", ("x"):rep(M))`},
	{"utf8-char", `return #utf8.char(table.unpack({}, 1, math.min(N, 200)))`},
	{"utf8-len", `return utf8.len(("x"):rep(M))`},
	{"load-big", `return load("return " .. ("1+"):rep(M) .. "1")`},
	{"select-neg", `return select(-1, table.unpack({1, 2, 3}))`},
	{"tostring-tonumber", `return tonumber(("9"):rep(M))`},
	{"numeric-for", `local n = 0 for i = 1, N do n = n + 1 end return n`},
	{"string-comparison", `local a, b = ("x"):rep(M), ("x"):rep(M) return a < b, a == b`},
	{"table-constructor", `local t = {} for i = 1, N do t[i] = i end return #t`},
	// metamethod chains that lead back to the value itself: followed in Go, no Lua code runs
	{"call-cycle", `local t = setmetatable({}, {}) getmetatable(t).__call = t return pcall(t, N)`},
	{"call-cycle-direct", `local t = setmetatable({}, {}) getmetatable(t).__call = t return t(N)`},
	{"call-cycle-two", `local a, b = setmetatable({}, {}), setmetatable({}, {}) getmetatable(a).__call = b getmetatable(b).__call = a return pcall(a, N)`},
	{"call-cycle-coroutine", `local t = setmetatable({}, {}) getmetatable(t).__call = t return coroutine.resume(coroutine.create(function() return t(N) end))`},
	{"call-cycle-metamethod", `local t = setmetatable({}, {}) getmetatable(t).__call = t local u = setmetatable({}, {__index = t, __add = t, __close = t}) return pcall(function() return u.x end), pcall(function() return u + 1 end)`},
	{"index-cycle", `local t = setmetatable({}, {}) getmetatable(t).__index = t return pcall(function() return t[N] end)`},
	{"newindex-cycle", `local t = setmetatable({}, {}) getmetatable(t).__newindex = t return pcall(function() t[N] = 1 end)`},
	{"index-chain", `local t = {} for i = 1, math.min(N, 100000) do t = setmetatable({}, {__index = t}) end return pcall(function() return t.x end)`},
	{"load-endless-reader", `return load(function() return " " end)`},
	{"load-endless-reader-token", `return load(function() return "x = 1 " end)`},
	{"sort-inconsistent-order", `local t = {} for i = 1, math.min(M, 5000) do t[i] = i % 17 end return pcall(table.sort, t, function() return true end)`},
	{"utf8-codepoint", `return select("#", utf8.codepoint(("x"):rep(M), 1, -1))`},
	{"utf8-codes", `local n = 0 for _ in utf8.codes(("x"):rep(M)) do n = n + 1 end return n`},
	{"date-long-format", `return #os.date(("%Y"):rep(M), 0)`},
	{"tostring-name-cycle", `local t = setmetatable({}, {}) getmetatable(t).__tostring = function(x) return x end return pcall(tostring, t), pcall(string.format, "%s", t)`},
	{"concat-big-number-strings", `local t = {} for i = 1, math.min(M, 100000) do t[i] = i end return #table.concat(t)`},
}

func TestC05(t *testing.T) {
	rec := ev.New("C05")
	defer Finish(t, rec)
	rec.Rule("(1) rapid-generated programs (general profile incl. pcall/xpcall/coroutines/to-be-closed handlers around loops): each is run once unlimited to get its CPU usage u and full trace, then under limits L in {1, 2, u/3, u-1, u, u+1, 2u} and a drawn L; oracle (metamorphic): killed <=> L <= u, used < L, the limited trace is a prefix of the unlimited one and equal with identical results when L > u, two runs agree (determinism), nothing runs after the kill. (2) 26 interception templates (infinite work wrapped in pcall/xpcall-handler/coroutine/__close/__gc/nested callcontext/metamethod/sort and gsub callbacks/load) under limits {1e3, 1e4, 1e5}: must end 'killed' with used < L and without the marker events that only run if the kill was intercepted. (3) 25 library calls with a size parameter N in {1e3 .. 2^40} under small CPU and memory limits: must come back (done, error or killed) within a watchdog. Non-trivial: u >= 50 and the kill point falls inside a pcall/coroutine/handler for some tested L, or a template; distinct by (program, L).")
	rec.Assume("real work between two counter increments is only observable as wall time: the watchdog (2 x 90 s) is astronomically loose and only detects work that is not metered at all for a program-chosen size; a watchdog hit is re-confirmed once before it is reported")
	rec.Assume("__gc handlers: when Go's collector runs them is not controlled; templates only require that they do not outlive the kill")
	progcheck.ApplyKnownFindings(rec)

	if rec.Replay != "" {
		rf, err := rec.LoadReplay()
		if err != nil {
			t.Fatal(err)
		}
		var c limCase
		if err := json.Unmarshal(rf.Case, &c); err != nil {
			t.Fatal(err)
		}
		rec.Eval()
		var msg string
		switch c.Kind {
		case "program":
			msg = checkProgram(c, run(c, hugeCPU))
		case "intercept":
			msg = checkIntercept(c)
		case "cost":
			msg = checkCost(c)
		default:
			msg = checkUnmetered(c)
		}
		if msg != "" {
			rec.Violation(c.Kind, c, msg)
		}
		return
	}

	kfInherited := CheckKnown(rec, "C05-inherited-limit-interceptable", func() bool {
		c := limCase{Source: intercept[13].src, Limit: 10000, Kind: "intercept", Name: intercept[13].name}
		return checkIntercept(c) != ""
	})

	// the open context-stack finding of C07, as this property meets it: the
	// pcall's context (which inherited what was left of the limit) stays pushed
	// when the coroutine yields, the resumer then runs under it, and when it is
	// exhausted the termination belongs to a context no CallContext on the
	// stack owns
	kfYield := CheckKnown(rec, "C05-yield-inside-protected-call-under-limit", func() bool {
		c := limCase{Source: `local co = coroutine.create(function() pcall(coroutine.yield, 1) end) coroutine.resume(co) local i = 0 while true do i = i + 1 end`, Limit: 10000, Kind: "intercept", Name: "yield-inside-pcall-then-loop"}
		return checkIntercept(c) != ""
	})

	// (2) interception templates
	idx := 0
	for _, tpl := range intercept {
		for _, L := range []uint64{1000, 10000, 100000} {
			idx++
			if !rec.Mine(idx) {
				continue
			}
			c := limCase{Source: tpl.src, Limit: L, Kind: "intercept", Name: tpl.name}
			if kfInherited && knownInterceptable(tpl.name) {
				rec.Discard("excluded-by-finding:C05-inherited-limit-interceptable")
				continue
			}
			rec.Eval()
			rec.Class("intercept:" + tpl.name)
			rec.NonTrivial(fmt.Sprint(tpl.name, L))
			rec.Sample(map[string]any{"template": tpl.name, "limit": L})
			if msg := checkIntercept(c); msg != "" {
				rec.Violation("intercept", c, tpl.name+fmt.Sprintf(" under cpu limit %d: ", L)+msg)
				return
			}
		}
	}

	// (4) iteration-cost stability: accounting is deterministic, so N closed,
	// identical iterations of one snippet in one runtime cost the same number
	// of units each (no hidden state such as a pool decides what is charged)
	for _, sn := range costSnippets {
		idx++
		if !rec.Mine(idx) {
			continue
		}
		c := limCase{Source: costProgram(sn.body, rec.Pick(40, 400), "cpu"), Limit: 2_000_000_000, Kind: "cost", Name: sn.name}
		rec.Eval()
		rec.Class("cost-stability:" + sn.name)
		rec.NonTrivial("cost|" + sn.name)
		if msg := checkCost(c); msg != "" {
			rec.Violation("cost", c, sn.name+": "+msg)
			return
		}
	}

	// (3) unmetered work
	sizes := []uint64{1000, 1 << 20, 1 << 31, 1 << 40}
	if rec.Thorough() {
		sizes = []uint64{1000, 65536, 1 << 20, 1 << 26, 1 << 31, 1 << 32, 1 << 40, 1<<63 - 1}
	}
	for _, tpl := range unmetered {
		for _, N := range sizes {
			for _, lim := range [][2]uint64{{20000, 1 << 20}, {200000, 1 << 16}} {
				idx++
				if !rec.Mine(idx) {
					continue
				}
				m := N
				if m > 1<<24 {
					m = 1 << 24 // M: sizes that are materialised as a subject string
				}
				src := strings.ReplaceAll(strings.ReplaceAll(tpl.src, "N", fmt.Sprint(N)), "M", fmt.Sprint(m))
				c := limCase{Source: src, Limit: lim[0], Mem: lim[1], Kind: "unmetered", Name: tpl.name}
				if kfUnmeteredExcluded(tpl.name) {
					rec.Discard("excluded-by-finding:" + unmeteredFinding[tpl.name])
					continue
				}
				rec.Eval()
				rec.Class("unmetered:" + tpl.name)
				if N >= 1<<20 {
					rec.NonTrivial(fmt.Sprint(tpl.name, N, lim))
				}
				if msg := checkUnmetered(c); msg != "" {
					rec.Violation("unmetered", c, fmt.Sprintf("%s with N=%d under cpu=%d mem=%d: %s", tpl.name, N, lim[0], lim[1], msg))
					return
				}
			}
		}
	}

	// (1) generated programs
	ShrinkTime = "1ms"
	prof := luagen.General
	prof.Name, prof.Errors, prof.Coroutines, prof.Close = "limits", 8, 5, 4
	RunRapid(rec, "C05/programs", rec.Pick(150, 4000), 0, func(t *rapid.T) {
		prog := luagen.Generate(t, prof)
		specs := progcheck.ArgSpecs(prog.Args)
		src, lines := mlua.Render(prog.Block, nil)
		if kfYield && progcheck.YieldsInsideProtectedCall(prog.Block, lines, specs, src) {
			rec.Discard("excluded-by-finding:C05-yield-inside-protected-call-under-limit")
			return
		}
		base := limCase{Source: src, Args: specs, Kind: "program"}
		ref := run(base, hugeCPU)
		if ref.Panic != "" || ref.Killed || ref.CompileErr != "" {
			rec.Discard("reference run unusable")
			return
		}
		if again := run(base, hugeCPU); again.Rets != ref.Rets || again.ErrTok != ref.ErrTok || strings.Join(again.Events, "\n") != strings.Join(ref.Events, "\n") {
			// e.g. tostring of a table: the program's own output carries an address
			rec.Discard("the program's output differs between two unlimited runs (addresses): relations not applicable")
			return
		}
		u := ref.UsedCPU
		limits := []uint64{1, 2, u / 3, u - 1, u, u + 1, 2 * u}
		if u > 4 {
			limits = append(limits, uint64(rapid.IntRange(3, int(u)-1).Draw(t, "L")))
		}
		inside := strings.Contains(src, "pcall") || strings.Contains(src, "coroutine") || strings.Contains(src, "close")
		for _, L := range limits {
			if L == 0 {
				continue
			}
			c := base
			c.Limit, c.U = L, u
			rec.Eval()
			if u >= 50 && inside && L <= u {
				rec.NonTrivial(fmt.Sprint(src, specs, L))
			}
			if L <= u {
				rec.Class("program:killed")
			} else {
				rec.Class("program:completes")
			}
			if msg := checkProgram(c, ref); msg != "" {
				if kfInherited && strings.Contains(msg, "must kill it") && usesBulkCPU(src) {
					rec.Discard("excluded-by-finding:C05-inherited-limit-interceptable")
					continue
				}
				FailCase(t, "program", c, "%s\n--- program (unlimited usage u=%d, limit L=%d) ---\n%s--- args: %v", msg, u, L, progcheck.Numbered(src), specs)
			}
		}
		rec.Sample(map[string]any{"source": src, "args": specs, "u": u})
	})
}

func checkIntercept(c limCase) string {
	tr, hung := runWatched(c, c.Limit, 90*time.Second)
	if hung {
		return "did not come back within the watchdog: work that no CPU limit stops"
	}
	if tr.Panic != "" {
		return "Go panic: " + tr.Panic
	}
	for _, e := range tr.Events {
		for _, marker := range []string{"intercepted", "survived", "resume-returned", "outlived", "unreachable", "handler-ran", "close-ran"} {
			if strings.Contains(e, marker) && !(marker == "handler-ran" && false) {
				// handler-ran / close-ran may legitimately appear only before the limit is hit:
				// in these templates the limit is always hit first (inside the infinite loop)
				return fmt.Sprintf("Lua code of the context ran after its CPU limit was hit (event %s); status %q used %d", e, tr.Status, tr.UsedCPU)
			}
		}
	}
	if !tr.Killed {
		return fmt.Sprintf("expected status killed, got %q (error %q, used %d)", tr.Status, tr.ErrTok, tr.UsedCPU)
	}
	if tr.UsedCPU >= c.Limit {
		return fmt.Sprintf("used %d reached the limit %d", tr.UsedCPU, c.Limit)
	}
	return ""
}

func checkUnmetered(c limCase) string {
	tr, hung := runWatched(c, c.Limit, 90*time.Second)
	if hung {
		return "the call did not come back within 2 x 90 s under a small CPU and memory limit: its work is not metered"
	}
	if tr.Panic != "" {
		return "Go panic: " + tr.Panic
	}
	if tr.UsedCPU >= c.Limit || (c.Mem > 0 && tr.UsedMem >= c.Mem) {
		return fmt.Sprintf("counter reached the limit: cpu %d/%d mem %d/%d", tr.UsedCPU, c.Limit, tr.UsedMem, c.Mem)
	}
	return ""
}

// ---- known findings (narrow input classes)

// C05-inherited-limit-interceptable: a Go function that requires a large
// amount of CPU at once inside pcall/coroutine is refused in the nested
// context and pcall returns false instead of the outer context being killed.
func knownInterceptable(name string) bool {
	return name == "string-work-in-pcall"
}

func usesBulkCPU(src string) bool {
	return strings.Contains(src, "pcall") || strings.Contains(src, "coroutine")
}

var unmeteredFinding = map[string]string{}

func kfUnmeteredExcluded(name string) bool {
	id, ok := unmeteredFinding[name]
	return ok && ev.Open(id)
}
