package c05

import (
	"fmt"
	"strings"
)

// Iteration-cost stability (metamorphic): every iteration of a closed snippet
// (it builds all its state afresh) does the same work, so a deterministic
// accounting charges every iteration the same amount. The first iteration is
// left out (one-off costs of the loop itself).

var costSnippets = []struct{ name, body string }{
	{"tables-and-loops", `local t = {} for i = 1, 50 do t[i] = i * 2 end local s = 0 for i, v in ipairs(t) do s = s + v end for k, v in pairs({a = 1, b = 2}) do s = s + v end return s`},
	{"strings", `local s = ("x"):rep(20) .. "y" return #s:upper() + #s:sub(2, 5) + (s:find("y", 1, true) or 0) + #string.format("%d %s", 12, s) + select(2, s:gsub("x", "z"))`},
	{"closures-and-calls", `local function mk(i) return function(a, b) return a + b + i end end local s = 0 for i = 1, 20 do s = s + mk(i)(1, 2) end return s`},
	{"varargs", `local function pass(n, ...) if n == 0 then return select("#", ...) end return pass(n - 1, ...) end return pass(10, 1, nil, 3) + select("#", table.unpack({1, 2, 3, 4}))`},
	{"pcall-and-errors", `local n = 0 for i = 1, 10 do local ok = pcall(error, {i}) if not ok then n = n + 1 end end local ok2 = pcall(function() local x = nil return x.y end) return n`},
	{"coroutines", `local co = coroutine.wrap(function(a) for i = 1, 5 do a = a + coroutine.yield(a) end return a end) local s = co(1) for i = 1, 5 do s = s + (co(i) or 0) end return s`},
	{"metamethods", `local mt = {} mt.__add = function(a, b) return setmetatable({v = a.v + b.v}, mt) end mt.__index = function(t, k) return k end mt.__call = function(self, x) return x end local o = setmetatable({v = 1}, mt) return (o + o + o).v .. o.foo .. o(3)`},
	{"sort-and-gsub-callbacks", `local t = {5, 3, 9, 1, 7, 2} table.sort(t, function(a, b) return a > b end) local s = ("abcabc"):gsub("b", function(c) return c:upper() end) return t[1] .. s`},
	{"to-be-closed", `local n = 0 local function closer() return setmetatable({}, {__close = function() n = n + 1 end}) end do local a <close> = closer() local b <close> = closer() end pcall(function() local c <close> = closer() error("x") end) return n`},
	{"deep-recursion", `local function d(k) if k == 0 then return 0 end return 1 + d(k - 1) end local function tl(k, acc) if k == 0 then return acc end return tl(k - 1, acc + 1) end return d(150) + tl(300, 0)`},
	{"load-and-dump", `local f = load("local a, b = ... return a + b") local g = load(string.dump(f)) return f(1, 2) + g(3, 4)`},
	{"nested-contexts", `local ctx = runtime.callcontext({kill = {cpu = 100000}}, function() local s = 0 for i = 1, 30 do s = s + i end return s end) return ctx.status`},
}

// costProgram: N iterations, the cost of each measured on the running context.
func costProgram(body string, n int, res string) string {
	return fmt.Sprintf(`local function snippet() %s end
local ds = {}
local prev = runtime.context().used.%s
for i = 1, %d do
  snippet()
  local now = runtime.context().used.%s
  ds[i] = now - prev
  prev = runtime.context().used.%s
end
for i = 3, #ds do
  if ds[i] ~= ds[2] then emit("cost-differs", i, ds[2], ds[i]) return end
end
emit("cost-stable", ds[2])
`, body, res, n, res, res)
}

func checkCost(c limCase) string {
	tr := run(c, c.Limit)
	if tr.Panic != "" {
		return "Go panic: " + tr.Panic
	}
	if tr.ErrTok != "" || tr.Killed {
		return fmt.Sprintf("the template did not run to its end: status %s error %s", tr.Status, tr.ErrTok)
	}
	for _, e := range tr.Events {
		if strings.HasPrefix(e, `s:"cost-differs"`) {
			return "identical iterations of a closed snippet are charged differently (iteration, cost of the 2nd, cost of this one): " + e
		}
		if strings.HasPrefix(e, `s:"cost-stable"`) {
			return ""
		}
	}
	return fmt.Sprintf("no verdict event: %v", tr.Events)
}
