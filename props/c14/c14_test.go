package c14

import (
	"bufio"
	"encoding/json"
	"fmt"
	"os"
	"os/exec"
	"path/filepath"
	"strings"
	"syscall"
	"testing"

	"pgregory.net/rapid"

	"verif/internal/ev"
	"verif/internal/harness"
	"verif/internal/luagen"
	"verif/internal/mlua"
	. "verif/internal/pbt"
	"verif/internal/progcheck"
)

// C14 — performance build options never change behaviour.

var tagSets = []string{"", "noregpool", "nocontpool", "noregpool nocontpool", "noquotas", "safepool"}

type vout struct {
	Events     [][]string `json:"events"`
	Rets       []string   `json:"rets"`
	Err        string     `json:"err,omitempty"`
	CompileErr string     `json:"compile_err,omitempty"`
	Panic      string     `json:"panic,omitempty"`
	Killed     bool       `json:"killed,omitempty"`
}

type runner struct {
	tags string
	cmd  *exec.Cmd
	in   *bufio.Writer
	out  *json.Decoder
	bin  string
}

func (r *runner) start() error {
	r.cmd = exec.Command(r.bin)
	stdin, err := r.cmd.StdinPipe()
	if err != nil {
		return err
	}
	stdout, err := r.cmd.StdoutPipe()
	if err != nil {
		return err
	}
	r.cmd.Stderr = os.Stderr
	r.in = bufio.NewWriter(stdin)
	r.out = json.NewDecoder(bufio.NewReaderSize(stdout, 1<<20))
	return r.cmd.Start()
}

// run returns the trace, or an error string if the child died.
func (r *runner) run(c progcheck.Case) (vout, string) {
	if r.cmd == nil {
		if err := r.start(); err != nil {
			return vout{}, "cannot start runner: " + err.Error()
		}
	}
	b, _ := json.Marshal(c)
	r.in.Write(b)
	r.in.WriteByte('\n')
	r.in.Flush()
	var o vout
	if err := r.out.Decode(&o); err != nil {
		r.cmd.Process.Kill()
		r.cmd.Wait()
		r.cmd = nil
		return vout{}, "runner built with tags [" + r.tags + "] died on this program: " + err.Error()
	}
	return o, ""
}

func (r *runner) stop() {
	if r.cmd != nil {
		r.cmd.Process.Kill()
		r.cmd.Wait()
	}
}

func canon(o vout) string {
	b, _ := json.Marshal(o)
	return string(b)
}

// pool-stress templates (Lua text; N is substituted)
var templates = []struct{ name, src string }{
	{"deep-recursion", `local function d(n) if n == 0 then return 0 end return 1 + d(n - 1) end emit("deep", d(N))`},
	{"tail-recursion", `local function t(n, acc) if n == 0 then return acc end return t(n - 1, acc + n) end emit("tail", t(N * 20, 0))`},
	{"mutual-tail", `local odd local function even(n) if n == 0 then return true end return odd(n - 1) end odd = function(n) if n == 0 then return false end return even(n - 1) end emit("mutual", even(N * 10), odd(N * 10 + 1))`},
	{"unwind-and-retry", `local function f(n) if n == 0 then error({depth = "bottom"}) end local x <const> = n return f(n - 1) + x end
for round = 1, 20 do local ok, e = pcall(f, N // 10) if round % 5 == 0 then emit("retry", round, ok, type(e) == "table" and e.depth) end end`},
	{"unwind-non-tail", `local function f(n) if n == 0 then error("bottom", 0) end return 1 + f(n - 1) end
for round = 1, 10 do emit("unwound", round, pcall(f, N // 10)) end`},
	{"abandoned-coroutines", `local live = {}
for i = 1, N // 10 do local co = coroutine.wrap(function(a) local function inner(x) return coroutine.yield(x * 2) + 1 end local r = inner(a) return r end) live[i] = co(i) end
local s = 0 for i = 1, #live do s = s + live[i] end emit("abandoned", s) live = nil
local junk = {} for i = 1, 2000 do junk[i % 10 + 1] = {i} end emit("after-garbage", #junk)`},
	{"closures-outlive-frames", `local fs = {}
local function mk(i) local a, b, c = i, i * 2, i * 3 return function(d) a = a + d return a + b + c end end
for i = 1, N // 10 do fs[i] = mk(i) end
local s = 0 for round = 1, 3 do for i = 1, #fs do s = s + fs[i](round) end end emit("closures", s)`},
	{"reentrant-sort", `local t = {} for i = 1, N // 20 do t[i] = (i * 7919) % 1009 end
local calls = 0 local function cmp(a, b) calls = calls + 1 if calls % 50 == 0 then local u = {3, 1, 2} table.sort(u, function(x, y) return x < y end) end return a < b end
table.sort(t, cmp) local ok = true for i = 2, #t do if t[i - 1] > t[i] then ok = false end end emit("sorted", ok, #t)`},
	{"reentrant-gsub", `local depth = 0 local function rep(s) depth = depth + 1 if depth < 30 then return (s:gsub("%d", rep)) end return "x" end
emit("gsub", (("a1b2c3"):rep(3)):gsub("%d", rep))`},
	{"register-set-sizes", `local fns = {
 function() return 1 end,
 function(a) local b = a return b end,
 function(a) local b, c = a, a return b + c end,
 function(a) local b, c, d = a, a, a return b + c + d end,
 function(a) local b, c, d, e = a, a, a, a return b + c + d + e end,
 function(a) local b, c, d, e, f = a, a, a, a, a return b + c + d + e + f end,
 function(a) local b, c, d, e, f, g = a, a, a, a, a, a return b + c + d + e + f + g end,
 function(a) local b, c, d, e, f, g, h = a, a, a, a, a, a, a return b + c + d + e + f + g + h end,
 function(a) local b, c, d, e, f, g, h, i = a, a, a, a, a, a, a, a return b + c + d + e + f + g + h + i end,
 function(a) local b, c, d, e, f, g, h, i, j = a, a, a, a, a, a, a, a, a return b + c + d + e + f + g + h + i + j end,
 function(a) local b, c, d, e, f, g, h, i, j, k = a, a, a, a, a, a, a, a, a, a return b + c + d + e + f + g + h + i + j + k end,
 function(a) local b, c, d, e, f, g, h, i, j, k, l = a, a, a, a, a, a, a, a, a, a, a return function() return b + c + d + e + f + g + h + i + j + k + l end end,
}
local s = 0 for round = 1, N // 50 do for i = 1, #fns do local r = fns[i](round) if type(r) == "function" then r = r() end s = s + r end end emit("regsets", s)`},
	{"cont-pool-overflow", `local function nest(n, f) if n == 0 then return f() end local r = nest(n - 1, f) return r + 1 end
for round = 1, 5 do emit("nest", round, nest(150, function() return round end)) end
emit("nest-error", pcall(nest, 150, function() error("deep", 0) end))`},
	{"varargs-through-frames", `local function pass(n, ...) if n == 0 then return select("#", ...), ... end return pass(n - 1, ...) end
emit("varargs", pass(200, 1, nil, "x", nil))
local function collect(...) local t = table.pack(...) return t.n end emit("packed", collect(pass(50, table.unpack({1, 2, 3, 4, 5, 6, 7, 8, 9, 10}))))`},
	{"tbc-and-errors", `local log = {} local function closer(id) return setmetatable({}, {__close = function(_, e) log[#log + 1] = id .. ":" .. tostring(e ~= nil) end}) end
local function f(n) local c <close> = closer(n) if n == 0 then error("stop", 0) end return f(n - 1) end
for round = 1, 5 do pcall(f, 20) end emit("tbc", #log, log[1], log[#log])`},
	{"finaliser-order-remark", `local function mk(name) local mt = {__gc = function() emit("gc", name) end} return setmetatable({}, mt), mt end
ga, gamt = mk("a") gb = mk("b") gc_ = mk("c") setmetatable(ga, gamt) gd = mk("d") emit("marked", N)`},
	{"finaliser-order-many", `keep = {} for i = 1, math.min(N, 200) do keep[i] = setmetatable({}, {__gc = function() emit("gc", i) end}) end
for i = 1, #keep, 7 do setmetatable(keep[i], getmetatable(keep[i])) end emit("marked", #keep)`},
	{"finaliser-in-context", `local held = {} for i = 1, 5 do held[i] = setmetatable({}, {__gc = function() emit("gc", i) end}) end setmetatable(held[2], getmetatable(held[2])) emit("marked")`},
	// frames that are unwound or abandoned (never returned) must let go of what
	// they referenced in every build: values only they referenced are finalised
	// after a bounded number of full collections (when exactly is up to Go's
	// collector, so only "eventually, within 300 collections" is observed; the
	// waiting loop makes no Lua call, which could recycle a pooled frame)
	{"unwound-frames-release-references", `local done = 0
local function frame(n) local o = setmetatable({}, {__gc = function() done = done + 1 end}) if n == 0 then error("unwind", 0) end return 1 + frame(n - 1) end
local function warm(n) if n == 0 then return 0 end return 1 + warm(n - 1) end
emit("warm", warm(20))
local depth = math.min(N // 10, 100)
local ok, e = pcall(frame, depth)
local tries = 0
while done < depth + 1 and tries < 300 do hostgc() tries = tries + 1 end
emit("unwound", ok, e, done == depth + 1)`},
	{"closed-coroutine-releases-references", `local done = 0
local function frame(n) local o = setmetatable({}, {__gc = function() done = done + 1 end}) if n == 0 then coroutine.yield("deep") return 0 end return 1 + frame(n - 1) end
local function warm(n) if n == 0 then return 0 end return 1 + warm(n - 1) end
emit("warm", warm(20))
local depth = math.min(N // 10, 100)
local co = coroutine.create(frame)
local ok, v = coroutine.resume(co, depth)
local closed = coroutine.close(co)
co = nil
local tries = 0
while done < depth + 1 and tries < 300 do hostgc() tries = tries + 1 end
emit("closed", ok, v, closed, done == depth + 1)`},
	{"failed-coroutine-releases-references", `local done = 0
local function frame(n) local o = setmetatable({}, {__gc = function() done = done + 1 end}) if n == 0 then error("inside", 0) end return 1 + frame(n - 1) end
local function warm(n) if n == 0 then return 0 end return 1 + warm(n - 1) end
emit("warm", warm(20))
local depth = math.min(N // 10, 100)
local co = coroutine.create(frame)
local ok, v = coroutine.resume(co, depth)
co = nil
local tries = 0
while done < depth + 1 and tries < 300 do hostgc() tries = tries + 1 end
emit("failed", ok, v, done == depth + 1)`},
	{"returned-frames-release-references", `local done = 0
local function frame(n) local o = setmetatable({}, {__gc = function() done = done + 1 end}) if n == 0 then return 0 end return 1 + frame(n - 1) end
local depth = math.min(N // 10, 100)
local r = frame(depth)
local tries = 0
while done < depth + 1 and tries < 300 do hostgc() tries = tries + 1 end
emit("returned", r, done == depth + 1)`},
	{"coroutine-pipeline", `local function gen(n) return coroutine.wrap(function() for i = 1, n do coroutine.yield(i) end end) end
local function filter(p, g) return coroutine.wrap(function() for v in g do if p(v) then coroutine.yield(v) end end end) end
local s = 0 for v in filter(function(x) return x % 3 == 0 end, filter(function(x) return x % 2 == 0 end, gen(N))) do s = s + v end emit("pipeline", s)`},
}

// quota templates: the program observes its own accounting (status, used
// memory and cpu of a limited context). They are compared across the builds
// that have quotas (every tag set but noquotas): pools are optimisations and
// must not change what is accounted or when a limit is hit.
var quotaTemplates = []struct{ name, work string }{
	{"go-calls-with-extra-arguments", `for i = 1, N do local a = select("#", i, i, i, i) local s = string.format("%d %d %d", i, i, i) local ok = pcall(type, i, i, i) local m = math.max(i, 1, 2, 3, 4, 5) end`},
	{"coroutine-resume-with-arguments", `local co = coroutine.wrap(function(...) while true do coroutine.yield(select("#", ...)) end end) for i = 1, N do co(i, i, i, i) end`},
	{"varargs-through-lua-frames", `local function pass(n, ...) if n == 0 then return select("#", ...) end return pass(n - 1, ...) end for i = 1, N // 10 do pass(10, i, i, i) end`},
	{"table-and-string-building", `local t = {} for i = 1, N do t[i] = {i, tostring(i)} end local s = "" for i = 1, N // 10 do s = s .. "x" end`},
	{"closures-and-calls", `local fs = {} for i = 1, N // 2 do fs[i] = function(a, b) return a + b + i end end local s = 0 for i = 1, #fs do s = s + fs[i](1, 2) end`},
	{"deep-recursion", `local function d(n) if n == 0 then return 0 end return 1 + d(n - 1) end for r = 1, 5 do d(N // 5) end`},
	{"error-unwinding", `local function f(n) if n == 0 then error("e", 0) end return 1 + f(n - 1) end for r = 1, N // 20 do pcall(f, 20) end`},
	{"coroutines-created-and-finished", `for i = 1, N // 4 do local co = coroutine.wrap(function(a) coroutine.yield(a) return a end) co(i) co() end`},
	{"coroutines-abandoned", `local keep = {} for i = 1, N // 4 do local co = coroutine.wrap(function(a) coroutine.yield(a) end) co(i) keep[i % 7] = co end`},
	{"sort-and-gsub-callbacks", `local t = {} for i = 1, N // 4 do t[i] = (i * 7919) % 1009 end table.sort(t, function(a, b) return a < b end) local s = (("ab"):rep(N // 8)):gsub("a", function(c) return c .. c end)`},
	{"nested-contexts", `for i = 1, N // 10 do runtime.callcontext({kill = {memory = 1000000}}, function() local t = {} for j = 1, 10 do t[j] = {j} end pcall(error, "x") end) end`},
	{"tbc-and-metamethods", `local mt = {__close = function() end, __index = function(t, k) return k end, __add = function(a, b) return 1 end} for i = 1, N // 4 do local o <close> = setmetatable({}, mt) local x = o.foo + (o + o) end`},
	{"load-and-dump", `for i = 1, N // 50 do local f = load("return " .. i .. " + 1") local g = load(string.dump(f)) g() load("x = = 1") end`},
}

func quotaProgram(work string, n int, limit string) string {
	w := strings.ReplaceAll(work, "N", fmt.Sprint(n))
	return `local ctx = runtime.callcontext({kill = {` + limit + `}}, function() ` + w + ` emit("inside", runtime.context().used.memory, runtime.context().used.cpu) end)
emit("outside", ctx.status, ctx.used.memory, ctx.used.cpu)`
}

func TestC14(t *testing.T) {
	rec := ev.New("C14")
	defer Finish(t, rec)
	rec.Rule("one corpus per run: rapid-generated MiniLua programs (general profile, no use of the runtime.* quota library, which the noquotas build lacks) plus pool-stressing templates (deep and tail recursion, mutual tail calls, error unwinding through many frames caught and retried, abandoned coroutines then collection, closures outliving frames, re-entrant Go->Lua calls from sort/gsub callbacks, > 10 register-set sizes, continuation-pool overflow, varargs through frames, to-be-closed variables under errors, coroutine pipelines, and frames that are unwound by an error / abandoned in a closed or failed coroutine / returned normally, each of which must let go of what it referenced: values only they referenced are finalised within 300 full collections forced through a host function) at several sizes; every program is run by six separately built runner binaries (tags: default, noregpool, nocontpool, noregpool+nocontpool, noquotas, safepool). Oracle: the canonical trace (events, results, error value) must be byte-equal across all builds, and the default build's trace of generated programs must be the reference interpreter's. Non-trivial: the program makes calls (>= 1 function defined) and ends without being discarded; templates always; distinct by program text + arguments.")
	rec.Assume("the runner binaries are built from /repo's working tree with `go build -tags ...`; a build failure of a tag set is reported as inconclusive (exit 2), not as a violation")

	scratch := os.Getenv("VERIF_SCRATCH")
	if scratch == "" {
		scratch = t.TempDir()
	}
	vdir := ev.VerifDir()
	runners := make([]*runner, len(tagSets))
	// the shards share the six binaries: whoever takes the lock first builds
	lock, err := os.OpenFile(filepath.Join(scratch, "vrun-build.lock"), os.O_CREATE|os.O_RDWR, 0o644)
	if err != nil {
		t.Fatal(err)
	}
	syscall.Flock(int(lock.Fd()), syscall.LOCK_EX)
	for i, tags := range tagSets {
		bin := filepath.Join(scratch, fmt.Sprintf("vrun-%d", i))
		if _, err := os.Stat(bin); err != nil {
			cmd := exec.Command("go", "build", "-tags", strings.TrimSpace("verif "+tags), "-ldflags=-checklinkname=0", "-o", bin+".tmp", "./cmd/vrun")
			cmd.Dir = vdir
			if out, err := cmd.CombinedOutput(); err != nil {
				fmt.Printf("build with tags [%s] failed:\n%s\n", tags, out)
				os.Exit(3) // inconclusive: the driver sees a dead worker
			}
			os.Rename(bin+".tmp", bin)
		}
		runners[i] = &runner{tags: tags, bin: bin}
	}
	syscall.Flock(int(lock.Fd()), syscall.LOCK_UN)
	lock.Close()
	defer func() {
		for _, r := range runners {
			r.stop()
		}
	}()

	// compare runs c on every build; returns a message if they differ
	compare := func(c progcheck.Case, expectModel bool) string {
		base, errs := runners[0].run(c)
		if errs != "" {
			return errs
		}
		if base.Panic != "" {
			return "Go panic in the default build: " + base.Panic
		}
		if expectModel {
			// anchor: the default build agrees with the reference interpreter
			tr := &harness.Trace{EventList: base.Events, RetList: base.Rets, ErrTok: base.Err, Panic: base.Panic, CompileErr: base.CompileErr, Killed: base.Killed, Rets: strings.Join(base.Rets, " ")}
			if msg := progcheck.Compare(c.Expected, tr); msg != "" {
				return "default build vs reference interpreter: " + msg
			}
		}
		want := canon(base)
		for _, r := range runners[1:] {
			if strings.HasPrefix(c.Note, "quota:") && strings.Contains(r.tags, "noquotas") {
				continue // that build has no accounting to compare
			}
			got, errs := r.run(c)
			if errs != "" {
				return errs
			}
			if g := canon(got); g != want {
				return fmt.Sprintf("build with tags [%s] behaves differently from the default build:\n   default: %s\n   %s: %s", r.tags, abbreviate(want), r.tags, abbreviate(g))
			}
		}
		return ""
	}

	if rec.Replay != "" {
		rf, err := rec.LoadReplay()
		if err != nil {
			t.Fatal(err)
		}
		var c progcheck.Case
		if err := json.Unmarshal(rf.Case, &c); err != nil {
			t.Fatal(err)
		}
		rec.Eval()
		if msg := compare(c, false); msg != "" {
			rec.Violation("program", c, msg)
		}
		return
	}

	// templates
	sizes := []int{100, 1000}
	if rec.Thorough() {
		sizes = []int{10, 100, 1000, 5000, 20000}
	}
	idx := 0
	nviol := 0
	for _, tpl := range templates {
		for _, n := range sizes {
			idx++
			if !rec.Mine(idx) {
				continue
			}
			src := strings.ReplaceAll(tpl.src, "N", fmt.Sprint(n))
			c := progcheck.Case{Source: src, Note: fmt.Sprintf("%s N=%d", tpl.name, n)}
			rec.Eval()
			rec.Class("template:" + tpl.name)
			rec.NonTrivial(src)
			rec.Sample(map[string]any{"template": tpl.name, "N": n})
			if msg := compare(c, false); msg != "" && nviol < 5 {
				nviol++
				rec.Violation("program", c, "template "+c.Note+": "+msg+"\n"+progcheck.Numbered(src))
			}
		}
	}
	// quota templates (builds with quotas only)
	for _, tpl := range quotaTemplates {
		for _, n := range []int{40, 400, 4000} {
			for _, limit := range []string{"memory = 50000", "memory = 2000000", "cpu = 20000", "cpu = 5000000, memory = 100000000"} {
				idx++
				if !rec.Mine(idx) {
					continue
				}
				src := quotaProgram(tpl.work, n, limit)
				c := progcheck.Case{Source: src, Note: fmt.Sprintf("quota:%s N=%d %s", tpl.name, n, limit)}
				rec.Eval()
				rec.Class("quota-template:" + tpl.name)
				rec.NonTrivial(src)
				if msg := compare(c, false); msg != "" && nviol < 5 {
					nviol++
					rec.Violation("program", c, "template "+c.Note+": "+msg+"\n"+progcheck.Numbered(src))
				}
			}
		}
	}
	if nviol > 0 {
		return
	}

	// generated programs
	prof := luagen.General
	RunRapid(rec, "C14/programs", rec.Pick(250, 2000), 0, func(t *rapid.T) {
		prog := luagen.Generate(t, prof)
		specs := progcheck.ArgSpecs(prog.Args)
		src, lines := mlua.Render(prog.Block, nil)
		res := progcheck.Model(prog.Block, lines, specs)
		if res.Unspecified != "" || res.Budget || res.OrderSensitive {
			rec.Discard("unspecified/budget")
			return
		}
		c := progcheck.Case{Source: src, Args: specs, Expected: progcheck.ExpectedOf(res)}
		rec.Eval()
		if res.Feat["closure"] > 0 {
			rec.NonTrivial(src + "\x00" + strings.Join(specs, "\x00"))
		}
		if res.Feat["yield"] > 0 {
			rec.Class("generated:coroutines")
		}
		if res.Feat["pcall-caught"] > 0 {
			rec.Class("generated:error-unwinding")
		}
		rec.Sample(map[string]any{"source": src, "args": specs})
		if msg := compare(c, true); msg != "" {
			FailCase(t, "program", c, "%s\n--- program ---\n%s--- args: %v", msg, progcheck.Numbered(src), specs)
		}
	})
}

func abbreviate(s string) string {
	if len(s) > 1500 {
		return s[:1500] + "…"
	}
	return s
}
