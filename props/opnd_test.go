package props

import (
	"fmt"
	"math"
	"strconv"
	"strings"

	rt "github.com/arnodel/golua/runtime"

	"verif/internal/numref"
)

// opnd is an operand spec that can be written to JSON (floats by bit pattern),
// turned into a golua value, a Lua source expression, and a model number.
//
//	i:<decimal>   integer
//	f:<hex bits>  float by IEEE bit pattern
//	s:<text>      string
//	nil, true, false, table
type opnd string

func oInt(i int64) opnd     { return opnd("i:" + strconv.FormatInt(i, 10)) }
func oFloat(f float64) opnd { return opnd("f:" + strconv.FormatUint(math.Float64bits(f), 16)) }
func oStr(s string) opnd    { return opnd("s:" + s) }

const (
	oNil   opnd = "nil"
	oTrue  opnd = "true"
	oFalse opnd = "false"
	oTable opnd = "table"
)

func (o opnd) kind() byte {
	switch {
	case strings.HasPrefix(string(o), "i:"):
		return 'i'
	case strings.HasPrefix(string(o), "f:"):
		return 'f'
	case strings.HasPrefix(string(o), "s:"):
		return 's'
	case o == oNil:
		return 'n'
	case o == oTrue || o == oFalse:
		return 'b'
	default:
		return 't'
	}
}

func (o opnd) int() int64 {
	n, _ := strconv.ParseInt(string(o[2:]), 10, 64)
	return n
}

func (o opnd) float() float64 {
	b, _ := strconv.ParseUint(string(o[2:]), 16, 64)
	return math.Float64frombits(b)
}

func (o opnd) str() string { return string(o[2:]) }

// num returns the model number for numeric operands.
func (o opnd) num() (numref.Num, bool) {
	switch o.kind() {
	case 'i':
		return numref.Int(o.int()), true
	case 'f':
		return numref.Float(o.float()), true
	}
	return numref.Num{}, false
}

func (o opnd) value() rt.Value {
	switch o.kind() {
	case 'i':
		return rt.IntValue(o.int())
	case 'f':
		return rt.FloatValue(o.float())
	case 's':
		return rt.StringValue(o.str())
	case 'b':
		return rt.BoolValue(o == oTrue)
	case 't':
		return rt.TableValue(rt.NewTable())
	}
	return rt.NilValue
}

// pretty is for messages.
func (o opnd) pretty() string {
	switch o.kind() {
	case 'i':
		return strconv.FormatInt(o.int(), 10)
	case 'f':
		f := o.float()
		return fmt.Sprintf("%s(float %#x)", strconv.FormatFloat(f, 'g', -1, 64), math.Float64bits(f))
	case 's':
		return strconv.Quote(o.str())
	}
	return string(o)
}

// luaFloat spells a float as a Lua expression that denotes exactly it and
// does not depend on decimal->binary conversion (hex float literal).
func luaFloat(f float64) string {
	switch {
	case f != f:
		return "(0/0)"
	case math.IsInf(f, 1):
		return "math.huge"
	case math.IsInf(f, -1):
		return "(-math.huge)"
	}
	neg := math.Signbit(f)
	if neg {
		f = -f
	}
	var s string
	if f == 0 {
		s = "0.0"
	} else {
		mant, exp := math.Frexp(f) // f = mant * 2^exp, mant in [0.5,1)
		m := uint64(mant * (1 << 53))
		s = fmt.Sprintf("0x%xp%d", m, exp-53)
	}
	if neg {
		return "(-" + s + ")"
	}
	return s
}

func luaInt(i int64) string {
	if i == math.MinInt64 {
		return "math.mininteger"
	}
	if i < 0 {
		return "(" + strconv.FormatInt(i, 10) + ")"
	}
	return strconv.FormatInt(i, 10)
}

func luaString(s string) string {
	var sb strings.Builder
	sb.WriteByte('"')
	for i := 0; i < len(s); i++ {
		c := s[i]
		switch {
		case c == '"' || c == '\\':
			sb.WriteByte('\\')
			sb.WriteByte(c)
		case c >= 32 && c < 127:
			sb.WriteByte(c)
		default:
			fmt.Fprintf(&sb, "\\%03d", c)
		}
	}
	sb.WriteByte('"')
	return sb.String()
}

// lua spells the operand as a Lua source expression.
func (o opnd) lua() string {
	switch o.kind() {
	case 'i':
		return luaInt(o.int())
	case 'f':
		return luaFloat(o.float())
	case 's':
		return luaString(o.str())
	case 't':
		return "{}"
	}
	return string(o)
}

// encNum encodes a model number like harness.Canon does for golua values.
func encNum(n numref.Num) string {
	if n.IsInt {
		return "i:" + strconv.FormatInt(n.I, 10)
	}
	if n.F != n.F {
		return "f:nan"
	}
	return "f:" + strconv.FormatUint(math.Float64bits(n.F), 16) + "(" + strconv.FormatFloat(n.F, 'g', -1, 64) + ")"
}
