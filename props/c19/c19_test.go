package c19

import (
	"encoding/json"
	"fmt"
	"math"
	"math/big"
	"sort"
	"strconv"
	"strings"
	"testing"
	"time"

	rt "github.com/arnodel/golua/runtime"
	"pgregory.net/rapid"

	"verif/internal/ev"
	"verif/internal/harness"
	"verif/internal/libref"
	"verif/internal/numref"
	. "verif/internal/pbt"
)

// C19 — the non-pattern string functions and the table functions compute what
// the manual defines (models in internal/libref); table.sort leaves an ordered
// permutation, and a permutation whatever the comparison function does.

// ---------------------------------------------------------------------------
// case description (JSON-serialisable; strings are bytes, floats are bits)

type Val struct {
	K string `json:"k"` // "i" integer, "f" float, "s" string, "b" boolean, "n" nil, "t" table (identity T)
	I int64  `json:"i,omitempty"`
	F uint64 `json:"f,omitempty"`
	S []byte `json:"s,omitempty"`
	B bool   `json:"b,omitempty"`
	T int    `json:"t,omitempty"`
}

func vInt(i int64) Val     { return Val{K: "i", I: i} }
func vFloat(f float64) Val { return Val{K: "f", F: math.Float64bits(f)} }
func vStr(s string) Val    { return Val{K: "s", S: []byte(s)} }
func vBytes(b []byte) Val  { return Val{K: "s", S: append([]byte{}, b...)} }
func vBool(b bool) Val     { return Val{K: "b", B: b} }
func vTab(id int) Val      { return Val{K: "t", T: id} }

var vNil = Val{K: "n"}

// bigNumPool: numbers around 2^53 and 2^63 whose order needs exact mixed
// integer/float comparison.
var bigNumPool = []Val{
	vInt(math.MaxInt64), vInt(math.MaxInt64 - 1), vInt(math.MaxInt64 - 2), vInt(math.MinInt64), vInt(math.MinInt64 + 1), vInt(math.MinInt64 + 2),
	vInt(1 << 53), vInt(1<<53 + 1), vInt(1<<53 - 1), vInt(1<<53 + 2), vInt(-(1 << 53)), vInt(-(1 << 53) - 1),
	vInt(1 << 62), vInt(1<<62 + 1), vInt(1<<63 - 512), vInt(1<<63 - 513), vInt(1<<63 - 1024), vInt(1<<63 - 1025),
	vFloat(9007199254740992), vFloat(9007199254740994), vFloat(-9007199254740992), vFloat(9223372036854775808), vFloat(-9223372036854775808),
	vFloat(9223372036854774784), vFloat(4611686018427387904), vFloat(1e300), vFloat(-1e300), vFloat(math.Inf(1)), vFloat(math.Inf(-1)),
	vInt(0), vFloat(0), vFloat(math.Copysign(0, -1)), vInt(1), vFloat(0.5),
}

func (v Val) model() libref.V {
	switch v.K {
	case "i":
		return libref.Int(v.I)
	case "f":
		return libref.Float(math.Float64frombits(v.F))
	case "s":
		return libref.Str(string(v.S))
	case "b":
		return libref.Bool(v.B)
	case "t":
		return libref.TableID(v.T)
	}
	return libref.Nil
}

func (v Val) pretty() string {
	switch v.K {
	case "i":
		if v.I == math.MinInt64 {
			return "math.mininteger"
		}
		if v.I == math.MaxInt64 {
			return "math.maxinteger"
		}
		return strconv.FormatInt(v.I, 10)
	case "f":
		return LuaFloat(math.Float64frombits(v.F))
	case "s":
		return LuaString(string(v.S))
	case "b":
		return strconv.FormatBool(v.B)
	case "t":
		return fmt.Sprintf("E%d", v.T)
	}
	return "nil"
}

// asInt: integer arguments accept integers and floats with an exact integer
// value (§3.4.3); anything else is an argument error.
func (v Val) asInt() (int64, bool) {
	switch v.K {
	case "i":
		return v.I, true
	case "f":
		return numref.FloatToInt(math.Float64frombits(v.F))
	}
	return 0, false
}

type KV struct {
	Key int64 `json:"key"`
	V   Val   `json:"v"`
}

type TabSpec struct {
	Elems []Val `json:"elems"`           // positions 1..len(Elems)
	Extra []KV  `json:"extra,omitempty"` // other integer keys (never len+1)
	Proxy bool  `json:"proxy,omitempty"` // empty table whose __index/__newindex/__len act on the real content
	Len   int64 `json:"len,omitempty"`   // what __len reports (proxy only)
}

func (ts *TabSpec) n() int64 {
	if ts.Proxy {
		return ts.Len
	}
	return int64(len(ts.Elems))
}

func (ts *TabSpec) tab() libref.Tab {
	t := libref.Tab{}
	for i, e := range ts.Elems {
		t.Set(int64(i+1), e.model())
	}
	for _, kv := range ts.Extra {
		t.Set(kv.Key, kv.V.model())
	}
	return t
}

type SortSpec struct {
	Cmp     string `json:"cmp"`             // "none" (default <), "rank" (consistent: rank[a] < rank[b]), "bits" (answers from a bit list, cyclic)
	Ranks   []int  `json:"ranks,omitempty"` // rank of Elems[i] (equal values have equal ranks)
	Bits    []bool `json:"bits,omitempty"`
	ErrAt   int    `json:"err_at,omitempty"`   // the comparator raises on this call
	YieldAt int    `json:"yield_at,omitempty"` // the sort runs in a coroutine and the comparator yields on this call
}

type c19Case struct {
	Fn   string    `json:"fn"`
	Args []Val     `json:"args,omitempty"` // scalar arguments in call order (after the table for table functions)
	T1   *TabSpec  `json:"t1,omitempty"`
	T2   *TabSpec  `json:"t2,omitempty"`   // move: a distinct destination table
	Same bool      `json:"same,omitempty"` // move: the source passed again as destination
	Sort *SortSpec `json:"sort,omitempty"`
}

func (c c19Case) pretty() string {
	var sb strings.Builder
	tabStr := func(ts *TabSpec) string {
		var b strings.Builder
		if ts.Proxy {
			fmt.Fprintf(&b, "proxy(len=%d){", ts.Len)
		} else {
			b.WriteString("{")
		}
		for i, e := range ts.Elems {
			if i > 0 {
				b.WriteString(",")
			}
			if i >= 12 {
				fmt.Fprintf(&b, "…(%d)", len(ts.Elems))
				break
			}
			b.WriteString(e.pretty())
		}
		for _, kv := range ts.Extra {
			fmt.Fprintf(&b, ",[%d]=%s", kv.Key, kv.V.pretty())
		}
		b.WriteString("}")
		return b.String()
	}
	var parts []string
	if c.T1 != nil {
		parts = append(parts, tabStr(c.T1))
	}
	for _, a := range c.Args {
		p := a.pretty()
		if len(p) > 80 {
			p = p[:80] + "…"
		}
		parts = append(parts, p)
	}
	lib := "string."
	if c.T1 != nil || c.Fn == "pack" {
		lib = "table."
	}
	switch {
	case c.Fn == "find":
		parts = append(parts, "true")
	case c.Same:
		parts = append(parts, "<same table>")
	case c.T2 != nil:
		parts = append(parts, tabStr(c.T2))
	case c.Sort != nil:
		s := c.Sort
		d := s.Cmp
		if s.Cmp == "bits" {
			d = fmt.Sprintf("bits%v", s.Bits)
		}
		if s.ErrAt > 0 {
			d += fmt.Sprintf(" raising on call %d", s.ErrAt)
		}
		if s.YieldAt > 0 {
			d += fmt.Sprintf(" yielding on call %d", s.YieldAt)
		}
		parts = append(parts, "<comparator: "+d+">")
	}
	fmt.Fprintf(&sb, "%s%s(%s)", lib, c.Fn, strings.Join(parts, ", "))
	return sb.String()
}

// ---------------------------------------------------------------------------
// expectation

type c19Exp struct {
	Kind     string // "ok", "err" (must raise, tables unchanged), "huge" (error or resource kill), "sort"
	Soft     bool   // with "ok": raising is acceptable as well (unpack beyond the documented limit)
	SoftKill bool   // with "ok": a resource stop is acceptable as well
	Rets     []libref.V
	T1       libref.Tab // expected final content (ok) or initial content (err)
	T2       libref.Tab
	// pack: the result table has "n"
	Pack   bool
	PackN  int64
	RepLen int64 // > 0: the result is a string of this length (too long to compare)
	// rets are "the destination table"
	RetDst bool
	Why    string
}

type f2sFunc func(float64) (string, bool)

func argsInts(args []Val) ([]int64, bool) {
	out := make([]int64, len(args))
	for i, a := range args {
		v, ok := a.asInt()
		if !ok {
			return nil, false
		}
		out[i] = v
	}
	return out, true
}

func c19Expect(c c19Case, f2s f2sFunc) c19Exp {
	errExp := func(why string) c19Exp {
		e := c19Exp{Kind: "err", Why: why}
		if c.T1 != nil {
			e.T1 = c.T1.tab()
		}
		if c.T2 != nil {
			e.T2 = c.T2.tab()
		}
		return e
	}
	hugeExp := func(why string) c19Exp { return c19Exp{Kind: "huge", Why: why} }
	switch c.Fn {
	case "sub":
		if len(c.Args) < 2 {
			return errExp("i is required")
		}
		ps, ok := argsInts(c.Args[1:])
		if !ok {
			return errExp("position without integer representation")
		}
		j := int64(-1)
		if len(ps) > 1 {
			j = ps[1]
		}
		return c19Exp{Kind: "ok", Rets: []libref.V{libref.Str(string(libref.Sub(c.Args[0].S, ps[0], j)))}}
	case "byte":
		ps, ok := argsInts(c.Args[1:])
		if !ok {
			return errExp("position without integer representation")
		}
		i := int64(1)
		if len(ps) > 0 {
			i = ps[0]
		}
		j := i
		if len(ps) > 1 {
			j = ps[1]
		}
		e := c19Exp{Kind: "ok"}
		for _, b := range libref.Byte(c.Args[0].S, i, j) {
			e.Rets = append(e.Rets, libref.Int(b))
		}
		return e
	case "char":
		codes, ok := argsInts(c.Args)
		if !ok {
			return errExp("code without integer representation")
		}
		s, err := libref.Char(codes)
		if err != nil {
			return errExp("code outside 0..255")
		}
		return c19Exp{Kind: "ok", Rets: []libref.V{libref.Str(string(s))}}
	case "rep":
		if len(c.Args) < 2 {
			return errExp("n is required")
		}
		n, ok := c.Args[1].asInt()
		if !ok {
			return errExp("n without integer representation")
		}
		var sep []byte
		if len(c.Args) > 2 {
			sep = c.Args[2].S
		}
		s, err := libref.Rep(c.Args[0].S, n, sep)
		if l := libref.RepLen(len(c.Args[0].S), len(sep), n); err != nil && l.IsInt64() && l.Int64() <= memNormal {
			// too long for the model to build but possible under the memory limit: the length is checked
			return c19Exp{Kind: "ok", Soft: true, SoftKill: true, RepLen: l.Int64(), Why: "long result: length only"}
		}
		if err != nil {
			return hugeExp(fmt.Sprintf("result of %s bytes", libref.RepLen(len(c.Args[0].S), len(sep), n)))
		}
		return c19Exp{Kind: "ok", Rets: []libref.V{libref.Str(string(s))}}
	case "reverse":
		return c19Exp{Kind: "ok", Rets: []libref.V{libref.Str(string(libref.Reverse(c.Args[0].S)))}}
	case "upper":
		return c19Exp{Kind: "ok", Rets: []libref.V{libref.Str(string(libref.Upper(c.Args[0].S)))}}
	case "lower":
		return c19Exp{Kind: "ok", Rets: []libref.V{libref.Str(string(libref.Lower(c.Args[0].S)))}}
	case "len":
		return c19Exp{Kind: "ok", Rets: []libref.V{libref.Int(libref.Len(c.Args[0].S))}}
	case "find":
		init, ok := c.Args[2].asInt()
		if !ok {
			return errExp("init without integer representation")
		}
		st, en, found := libref.FindPlain(c.Args[0].S, c.Args[1].S, init)
		if !found {
			return c19Exp{Kind: "ok", Rets: []libref.V{libref.Nil}}
		}
		return c19Exp{Kind: "ok", Rets: []libref.V{libref.Int(st), libref.Int(en)}}
	case "pack":
		vs := make([]libref.V, len(c.Args))
		for i, a := range c.Args {
			vs[i] = a.model()
		}
		t, n := libref.Pack(vs)
		return c19Exp{Kind: "ok", Pack: true, PackN: n, T1: t}
	}
	// table functions
	t1 := c.T1.tab()
	n := c.T1.n()
	switch c.Fn {
	case "insert":
		var err error
		if len(c.Args) == 1 {
			err = libref.Insert(t1, n, false, 0, c.Args[0].model())
		} else {
			pos, ok := c.Args[0].asInt()
			if !ok {
				return errExp("pos without integer representation")
			}
			err = libref.Insert(t1, n, true, pos, c.Args[1].model())
		}
		if err == libref.ErrMid {
			return c19Exp{Kind: "skip", Why: "long shift"}
		}
		if err != nil {
			return errExp("position out of bounds")
		}
		return c19Exp{Kind: "ok", T1: t1}
	case "remove":
		var (
			v   libref.V
			err error
		)
		if len(c.Args) == 0 {
			v, err = libref.Remove(t1, n, false, 0)
		} else {
			pos, ok := c.Args[0].asInt()
			if !ok {
				return errExp("pos without integer representation")
			}
			v, err = libref.Remove(t1, n, true, pos)
		}
		if err == libref.ErrMid {
			return c19Exp{Kind: "skip", Why: "long shift"}
		}
		if err != nil {
			return errExp("position out of bounds")
		}
		return c19Exp{Kind: "ok", T1: t1, Rets: []libref.V{v}}
	case "move":
		ps, ok := argsInts(c.Args)
		if !ok {
			return errExp("position without integer representation")
		}
		dst := t1
		var t2 libref.Tab
		if c.T2 != nil {
			t2 = c.T2.tab()
			dst = t2
		}
		err := libref.Move(t1, ps[0], ps[1], ps[2], dst)
		if err != nil && c.T2 == nil && ps[0] == ps[2] {
			// a1[f..e] = a1[f..e]: the assignment changes nothing whatever its size; leaving
			// the table alone is as good as raising or running out of budget
			return c19Exp{Kind: "ok", Soft: true, SoftKill: true, T1: c.T1.tab(), RetDst: true, Why: "identity move of a range that is too large"}
		}
		if err == libref.ErrMid {
			return c19Exp{Kind: "skip", Why: "moves 20001..10^7 elements"}
		}
		if err == libref.ErrHuge {
			return hugeExp("moves more than 10^7 elements")
		}
		if err != nil {
			return errExp("too many elements to move / destination wrap around")
		}
		return c19Exp{Kind: "ok", T1: t1, T2: t2, RetDst: true}
	case "concat":
		var sep []byte
		i, j := int64(1), n
		if len(c.Args) > 0 {
			sep = c.Args[0].S
		}
		if len(c.Args) > 1 {
			ps, ok := argsInts(c.Args[1:])
			if !ok {
				return errExp("position without integer representation")
			}
			i = ps[0]
			if len(ps) > 1 {
				j = ps[1]
			}
		}
		s, err := libref.Concat(t1, sep, i, j, f2s)
		if err == libref.ErrUnspecified {
			return c19Exp{Kind: "skip", Why: "float element whose text is not known"}
		}
		if err != nil {
			return errExp("element that is neither a string nor a number")
		}
		return c19Exp{Kind: "ok", T1: t1, Rets: []libref.V{libref.Str(string(s))}}
	case "unpack":
		i, j := int64(1), n
		ps, ok := argsInts(c.Args)
		if !ok {
			return errExp("position without integer representation")
		}
		if len(ps) > 0 {
			i = ps[0]
		}
		if len(ps) > 1 {
			j = ps[1]
		}
		vals, soft, err := libref.Unpack(t1, i, j)
		if err == libref.ErrMid {
			return c19Exp{Kind: "skip", Why: "unpacks 20001..10^7 values"}
		}
		if err != nil {
			// no implementation can return 2^31 or more values: the range has to
			// be refused ("too many results to unpack") before anything is read,
			// not ground through until a quota stops it
			if cnt := new(big.Int).Sub(big.NewInt(j), big.NewInt(i)); cnt.Cmp(big.NewInt(1<<31)) >= 0 {
				return errExp("2^31 or more results")
			}
			return hugeExp("more than 10^7 results")
		}
		return c19Exp{Kind: "ok", Soft: soft, T1: t1, Rets: vals}
	case "sort":
		return c19Exp{Kind: "sort", T1: t1}
	}
	panic("unknown function " + c.Fn)
}

// ---------------------------------------------------------------------------
// running a case in golua

const c19Helpers = `
local emit, pcall, next, rawget, rawset, setmetatable, type, error = emit, pcall, next, rawget, rawset, setmetatable, type, error
local cowrap, coyield = coroutine.wrap, coroutine.yield
local H = {}
H.fns = {sub=string.sub, byte=string.byte, char=string.char, rep=string.rep, reverse=string.reverse,
  upper=string.upper, lower=string.lower, len=string.len, find=string.find,
  insert=table.insert, remove=table.remove, move=table.move, concat=table.concat,
  unpack=table.unpack, pack=table.pack, sort=table.sort}

function H.call(f, ...) emit("r", pcall(f, ...)) end
function H.tostr(x) emit(x .. "") end
function H.rep(f, ...)
  local ok, r = pcall(f, ...)
  if ok and type(r) == "string" and #r > 65536 then emit("r", true, "#", #r) else emit("r", ok, r) end
end

local function mkproxy(back, len, log)
  return setmetatable({}, {
    __index = function(_, k) log.r = log.r + 1 return rawget(back, k) end,
    __newindex = function(_, k, v) log.w = log.w + 1 rawset(back, k, v) end,
    __len = function() log.l = log.l + 1 return len end,
  })
end

-- content of t at the probe keys, then every other key that next() reaches
-- (the walk stops at the first key seen twice)
local function dump(tag, t, keys, nkeys)
  local ks = {}
  for i = 1, nkeys do
    local k = keys[i]
    ks[k] = true
    local v = rawget(t, k)
    if v ~= nil then emit("k" .. tag, k, v) end
  end
  local seen, n = {}, 0
  local k, v = next(t)
  while k ~= nil and not seen[k] and n < 3000 do
    seen[k] = true
    n = n + 1
    if not ks[k] then emit("x" .. tag, k, v) end
    k, v = next(t, k)
  end
end

local function setup(spec)
  for i = 1, spec.nids do emit("id", spec.ids[i]) end
  local P1, log1 = spec.b1, nil
  if spec.p1 then log1 = {r = 0, w = 0, l = 0} P1 = mkproxy(spec.b1, spec.l1, log1) end
  local P2, log2 = nil, nil
  if spec.same then
    P2 = P1
  elseif spec.b2 then
    P2 = spec.b2
    if spec.p2 then log2 = {r = 0, w = 0, l = 0} P2 = mkproxy(spec.b2, spec.l2, log2) end
  end
  emit("tab", P1, P2)
  return P1, log1, P2, log2
end

local function finish(spec, P1, log1, P2, log2)
  dump("1", spec.b1, spec.keys1, spec.nkeys1)
  if log1 then emit("raw1", next(P1) == nil) emit("log1", log1.r, log1.w, log1.l) end
  if spec.b2 and not spec.same then
    dump("2", spec.b2, spec.keys2, spec.nkeys2)
    if log2 then emit("raw2", next(P2) == nil) emit("log2", log2.r, log2.w, log2.l) end
  end
end

function H.tcall(f, spec, ...)
  local P1, log1, P2, log2 = setup(spec)
  emit("r", pcall(f, P1, ...))
  finish(spec, P1, log1, P2, log2)
end

function H.mcall(f, spec, a, b, c)
  local P1, log1, P2, log2 = setup(spec)
  if P2 ~= nil then emit("r", pcall(f, P1, a, b, c, P2)) else emit("r", pcall(f, P1, a, b, c)) end
  finish(spec, P1, log1, P2, log2)
end

function H.pack(f, ...)
  local ok, t = pcall(f, ...)
  emit("r", ok, type(t))
  if ok and type(t) == "table" then
    local n = 0
    for k, v in next, t do
      emit("k1", k, v)
      n = n + 1
      if n > 1000 then break end
    end
  end
end

function H.scall(f, spec)
  local P1, log1 = setup(spec)
  local calls = 0
  local cmp = nil
  local mode, rank, bits, nbits, errat, yieldat = spec.cmp, spec.rank, spec.bits, spec.nbits, spec.errat, spec.yieldat
  if mode ~= "none" then
    cmp = function(a, b)
      calls = calls + 1
      if calls == errat then error("comparator failure") end
      if calls == yieldat then coyield("y") end
      if mode == "rank" then return rank[a] < rank[b] end
      return bits[(calls - 1) % nbits + 1]
    end
  end
  local function go()
    if cmp then emit("r", pcall(f, P1, cmp)) else emit("r", pcall(f, P1)) end
    return "done"
  end
  if yieldat > 0 then
    local co = cowrap(go)
    local n = 0
    repeat
      local x = co()
      n = n + 1
    until x == "done" or n > 10
  else
    go()
  end
  emit("calls", calls)
  finish(spec, P1, log1)
end

return H
`

type c19Runner struct {
	s   *harness.Session
	h   *rt.Table
	fns *rt.Table
	f2s map[uint64]string
}

func (r *c19Runner) session() *harness.Session {
	if r.s == nil {
		r.s = harness.NewSession()
		h, err := r.s.Load("helpers", c19Helpers)
		if err != nil {
			panic(err)
		}
		r.h = h.AsTable()
		r.fns = r.h.Get(rt.StringValue("fns")).AsTable()
	}
	return r.s
}

func (r *c19Runner) helper(name string) rt.Value { return r.h.Get(rt.StringValue(name)) }

// fmtFloat asks golua's `..` operator (not the function under test) for the
// text of a float: the manual leaves the format open.
func (r *c19Runner) fmtFloat(f float64) (string, bool) {
	if f != f {
		return "", false
	}
	bits := math.Float64bits(f)
	if s, ok := r.f2s[bits]; ok {
		return s, true
	}
	s := r.session()
	tr := s.Call(r.helper("tostr"), 100000, 0, rt.FloatValue(f))
	if tr.Panic != "" {
		r.s = nil
	}
	if len(tr.Events) != 1 || !strings.HasPrefix(tr.Events[0], "s:") {
		return "", false
	}
	txt, err := strconv.Unquote(tr.Events[0][2:])
	if err != nil {
		return "", false
	}
	if r.f2s == nil {
		r.f2s = map[uint64]string{}
	}
	r.f2s[bits] = txt
	return txt, true
}

type valBuilder struct {
	ids map[int]*rt.Table
	max int
}

func (b *valBuilder) val(v Val) rt.Value {
	switch v.K {
	case "i":
		return rt.IntValue(v.I)
	case "f":
		return rt.FloatValue(math.Float64frombits(v.F))
	case "s":
		return rt.StringValue(string(v.S))
	case "b":
		return rt.BoolValue(v.B)
	case "t":
		if b.ids == nil {
			b.ids = map[int]*rt.Table{}
		}
		t, ok := b.ids[v.T]
		if !ok {
			t = rt.NewTable()
			b.ids[v.T] = t
			if v.T > b.max {
				b.max = v.T
			}
		}
		return rt.TableValue(t)
	}
	return rt.NilValue
}

func (b *valBuilder) table(ts *TabSpec) *rt.Table {
	t := rt.NewTable()
	for i, e := range ts.Elems {
		t.Set(rt.IntValue(int64(i+1)), b.val(e))
	}
	for _, kv := range ts.Extra {
		t.Set(rt.IntValue(kv.Key), b.val(kv.V))
	}
	return t
}

func addNear(set map[int64]bool, k int64, d int64) {
	for x := -d; x <= d; x++ {
		if (x > 0 && k > math.MaxInt64-x) || (x < 0 && k < math.MinInt64-x) {
			continue
		}
		set[k+x] = true
	}
}

// probeKeys: the keys whose content is read back after the call.
func probeKeys(ts *TabSpec, c c19Case, final libref.Tab) *rt.Table {
	set := map[int64]bool{}
	n := int64(len(ts.Elems))
	if ts.Proxy && ts.Len > n {
		n = ts.Len
	}
	for k := -n - 6; k <= n+6; k++ {
		set[k] = true
	}
	for _, kv := range ts.Extra {
		addNear(set, kv.Key, 1)
	}
	for k := range final {
		set[k] = true
	}
	for _, a := range c.Args {
		if v, ok := a.asInt(); ok {
			addNear(set, v, 2)
		}
	}
	addNear(set, math.MinInt64, 2)
	addNear(set, math.MaxInt64, 2)
	keys := make([]int64, 0, len(set))
	for k := range set {
		keys = append(keys, k)
	}
	sort.Slice(keys, func(i, j int) bool { return keys[i] < keys[j] })
	t := rt.NewTable()
	for i, k := range keys {
		t.Set(rt.IntValue(int64(i+1)), rt.IntValue(k))
	}
	t.Set(rt.StringValue("n"), rt.IntValue(int64(len(keys))))
	return t
}

const (
	cpuNormal = 5_000_000
	cpuHuge   = 150_000
	cpuSort   = 60_000_000
	memNormal = 64 << 20
)

func (r *c19Runner) run(c c19Case, exp c19Exp) *harness.Trace {
	s := r.session()
	fn := r.fns.Get(rt.StringValue(c.Fn))
	vb := &valBuilder{}
	cpu := uint64(cpuNormal)
	if exp.Kind == "huge" {
		cpu = cpuHuge
	}
	var tr *harness.Trace
	if c.T1 == nil {
		args := []rt.Value{fn}
		for _, a := range c.Args {
			args = append(args, vb.val(a))
		}
		h := "call"
		switch c.Fn {
		case "find":
			args = append(args, rt.BoolValue(true))
		case "pack":
			h = "pack"
		case "rep":
			h = "rep"
		}
		tr = s.Call(r.helper(h), cpu, memNormal, args...)
	} else {
		spec := rt.NewTable()
		set := func(k string, v rt.Value) { spec.Set(rt.StringValue(k), v) }
		set("b1", rt.TableValue(vb.table(c.T1)))
		set("p1", rt.BoolValue(c.T1.Proxy))
		set("l1", rt.IntValue(c.T1.Len))
		k1 := probeKeys(c.T1, c, exp.T1)
		set("keys1", rt.TableValue(k1))
		set("nkeys1", k1.Get(rt.StringValue("n")))
		set("same", rt.BoolValue(c.Same))
		if c.T2 != nil {
			set("b2", rt.TableValue(vb.table(c.T2)))
			set("p2", rt.BoolValue(c.T2.Proxy))
			set("l2", rt.IntValue(c.T2.Len))
			k2 := probeKeys(c.T2, c, exp.T2)
			set("keys2", rt.TableValue(k2))
			set("nkeys2", k2.Get(rt.StringValue("n")))
		}
		args := []rt.Value{fn, rt.TableValue(spec)}
		h := "tcall"
		if c.Fn == "move" {
			h = "mcall"
		}
		for _, a := range c.Args {
			args = append(args, vb.val(a))
		}
		if c.Sort != nil {
			h = "scall"
			cpu = cpuSort
			sp := c.Sort
			set("cmp", rt.StringValue(sp.Cmp))
			set("errat", rt.IntValue(int64(sp.ErrAt)))
			set("yieldat", rt.IntValue(int64(sp.YieldAt)))
			if sp.Cmp == "rank" {
				rank := rt.NewTable()
				for i, e := range c.T1.Elems {
					rank.Set(vb.val(e), rt.IntValue(int64(sp.Ranks[i])))
				}
				set("rank", rt.TableValue(rank))
			}
			if sp.Cmp == "bits" {
				bits := rt.NewTable()
				for i, b := range sp.Bits {
					bits.Set(rt.IntValue(int64(i+1)), rt.BoolValue(b))
				}
				set("bits", rt.TableValue(bits))
				set("nbits", rt.IntValue(int64(len(sp.Bits))))
			}
		}
		ids := rt.NewTable()
		for i := 1; i <= vb.max; i++ {
			ids.Set(rt.IntValue(int64(i)), vb.val(vTab(i)))
		}
		set("ids", rt.TableValue(ids))
		set("nids", rt.IntValue(int64(vb.max)))
		tr = s.Call(r.helper(h), cpu, memNormal, args...)
	}
	if tr.Panic != "" {
		r.s = nil // poisoned
	}
	return tr
}

// ---------------------------------------------------------------------------
// comparing

func maxTableID(c c19Case) int {
	m := 0
	see := func(v Val) {
		if v.K == "t" && v.T > m {
			m = v.T
		}
	}
	for _, a := range c.Args {
		see(a)
	}
	for _, ts := range []*TabSpec{c.T1, c.T2} {
		if ts == nil {
			continue
		}
		for _, e := range ts.Elems {
			see(e)
		}
		for _, kv := range ts.Extra {
			see(kv.V)
		}
	}
	return m
}

func encV(v libref.V) string {
	switch v.Kind {
	case 'i':
		return harness.EncInt(v.I)
	case 'f':
		return harness.EncFloat(v.F)
	case 's':
		return harness.EncString(v.S)
	case 'b':
		if v.B {
			return "true"
		}
		return "false"
	case 't':
		return "T#" + strconv.Itoa(v.T)
	}
	return "nil"
}

func encTab(tag string, t libref.Tab) []string {
	out := make([]string, 0, len(t))
	for k, v := range t {
		out = append(out, `s:"k`+tag+`" `+harness.EncInt(k)+" "+encV(v))
	}
	sort.Strings(out)
	return out
}

func diffSets(want, got []string) string {
	w := map[string]bool{}
	for _, x := range want {
		w[x] = true
	}
	g := map[string]bool{}
	for _, x := range got {
		g[x] = true
	}
	var miss, extra []string
	for _, x := range want {
		if !g[x] {
			miss = append(miss, x)
		}
	}
	for _, x := range got {
		if !w[x] {
			extra = append(extra, x)
		}
	}
	if len(miss) == 0 && len(extra) == 0 {
		return ""
	}
	clip := func(xs []string) []string {
		if len(xs) > 8 {
			return append(xs[:8:8], "…")
		}
		return xs
	}
	return fmt.Sprintf("expected but absent: %v; present but not expected: %v", clip(miss), clip(extra))
}

type c19Obs struct {
	outcome string // "ok", "error", "killed"
	rets    string
	errText string
	k       map[string][]string // tag -> k events
	x       []string
	raw     map[string]string
	log     map[string]string
	calls   int
}

func c19Observe(tr *harness.Trace) (o c19Obs, problem string) {
	o.k = map[string][]string{}
	o.raw = map[string]string{}
	o.log = map[string]string{}
	o.calls = -1
	haveR := false
	for _, e := range tr.Events {
		switch {
		case strings.HasPrefix(e, `s:"r" true`):
			haveR = true
			o.outcome = "ok"
			o.rets = strings.TrimPrefix(strings.TrimPrefix(e, `s:"r" true`), " ")
		case strings.HasPrefix(e, `s:"r" false`):
			haveR = true
			o.outcome = "error"
			o.errText = strings.TrimPrefix(e, `s:"r" false `)
		case strings.HasPrefix(e, `s:"k1" `):
			o.k["1"] = append(o.k["1"], e)
		case strings.HasPrefix(e, `s:"k2" `):
			o.k["2"] = append(o.k["2"], e)
		case strings.HasPrefix(e, `s:"x1" `), strings.HasPrefix(e, `s:"x2" `):
			o.x = append(o.x, e)
		case strings.HasPrefix(e, `s:"raw1" `):
			o.raw["1"] = e[len(`s:"raw1" `):]
		case strings.HasPrefix(e, `s:"raw2" `):
			o.raw["2"] = e[len(`s:"raw2" `):]
		case strings.HasPrefix(e, `s:"log1" `):
			o.log["1"] = e[len(`s:"log1" `):]
		case strings.HasPrefix(e, `s:"log2" `):
			o.log["2"] = e[len(`s:"log2" `):]
		case strings.HasPrefix(e, `s:"calls" i:`):
			o.calls, _ = strconv.Atoi(e[len(`s:"calls" i:`):])
		}
	}
	for _, ks := range o.k {
		sort.Strings(ks)
	}
	if tr.Panic != "" {
		return o, "Go panic: " + tr.Panic
	}
	if tr.Killed {
		o.outcome = "killed"
		return o, ""
	}
	if tr.Err != "" {
		// an error that escaped pcall: only a resource limit surfacing as an error does that legitimately
		if !haveR {
			o.outcome = "error"
			o.errText = tr.Err
			return o, ""
		}
		return o, "error outside the protected call: " + tr.Err
	}
	if !haveR {
		return o, "no result event"
	}
	return o, ""
}

// sortLess builds the order oracle for a sort case over the encodings of the
// elements; nil if the comparator is not a consistent order or the default
// order is not defined on the elements.
func sortLess(c c19Case) (less func(a, b string) bool, mustErr bool) {
	sp := c.Sort
	l := c.T1.n()
	elems := c.T1.Elems[:l]
	switch sp.Cmp {
	case "rank":
		rank := map[string]int{}
		for i, e := range c.T1.Elems {
			rank[encV(e.model())] = sp.Ranks[i]
		}
		return func(a, b string) bool { return rank[a] < rank[b] }, false
	case "none":
		nums, strs, other := 0, 0, 0
		vals := map[string]libref.V{}
		for _, e := range elems {
			v := e.model()
			vals[encV(v)] = v
			switch v.Kind {
			case 'i', 'f':
				nums++
			case 's':
				strs++
			default:
				other++
			}
		}
		if l >= 2 && (other > 0 || (nums > 0 && strs > 0)) {
			return nil, true
		}
		return func(a, b string) bool {
			x, y := vals[a], vals[b]
			if x.Kind == 's' && y.Kind == 's' {
				return x.S < y.S
			}
			num := func(v libref.V) numref.Num {
				if v.Kind == 'i' {
					return numref.Int(v.I)
				}
				return numref.Float(v.F)
			}
			return numref.Lt(num(x), num(y))
		}, false
	case "bits":
		allFalse := true
		for _, b := range sp.Bits {
			if b {
				allFalse = false
			}
		}
		if allFalse {
			// every pair is equivalent: every permutation is ordered
			return func(a, b string) bool { return false }, false
		}
	}
	return nil, false
}

func c19Check(c c19Case, exp c19Exp, tr *harness.Trace) string {
	o, problem := c19Observe(tr)
	if problem != "" {
		return c.pretty() + ": " + problem
	}
	base := maxTableID(c)
	fail := func(format string, a ...any) string {
		return c.pretty() + ": " + fmt.Sprintf(format, a...)
	}
	if len(o.x) > 0 {
		return fail("keys outside the expected set were written: %v", o.x)
	}
	for tag, raw := range o.raw {
		if raw != "true" {
			return fail("the proxy table %s was written to directly (bypassing __newindex)", tag)
		}
	}
	checkTabs := func() string {
		if c.T1 != nil && exp.T1 != nil {
			if d := diffSets(encTab("1", exp.T1), o.k["1"]); d != "" {
				return fail("content of the table after the call differs: %s", d)
			}
		}
		if c.T2 != nil && exp.T2 != nil {
			if d := diffSets(encTab("2", exp.T2), o.k["2"]); d != "" {
				return fail("content of the destination table after the call differs: %s", d)
			}
		}
		return ""
	}
	switch exp.Kind {
	case "huge":
		if o.outcome == "ok" {
			return fail("returned %q although %s (expected an error or a resource stop)", o.rets, exp.Why)
		}
		return ""
	case "err":
		if o.outcome != "error" {
			return fail("expected an error (%s), got %s %s", exp.Why, o.outcome, o.rets)
		}
		return checkTabs()
	case "ok":
		if (o.outcome == "error" && exp.Soft) || (o.outcome == "killed" && exp.SoftKill) {
			return ""
		}
		if o.outcome != "ok" {
			return fail("expected %s, got %s %s", c19WantRets(c, exp, base), o.outcome, o.errText)
		}
		if want := c19WantRets(c, exp, base); want != o.rets {
			return fail("expected results [%s], got [%s]", want, o.rets)
		}
		if exp.Pack {
			want := encTab("1", exp.T1)
			want = append(want, `s:"k1" s:"n" `+harness.EncInt(exp.PackN))
			if d := diffSets(want, o.k["1"]); d != "" {
				return fail("content of the packed table differs: %s", d)
			}
			return ""
		}
		return checkTabs()
	case "sort":
		return c19CheckSort(c, exp, o, fail)
	}
	return fail("internal: unknown expectation %q", exp.Kind)
}

func c19WantRets(c c19Case, exp c19Exp, base int) string {
	if exp.Pack {
		return `s:"table"`
	}
	if exp.RepLen > 0 {
		return `s:"#" ` + harness.EncInt(exp.RepLen)
	}
	if exp.RetDst {
		if c.T2 != nil {
			return "T#" + strconv.Itoa(base+2)
		}
		return "T#" + strconv.Itoa(base+1)
	}
	parts := make([]string, len(exp.Rets))
	for i, v := range exp.Rets {
		parts[i] = encV(v)
	}
	return strings.Join(parts, " ")
}

func c19CheckSort(c c19Case, exp c19Exp, o c19Obs, fail func(string, ...any) string) string {
	sp := c.Sort
	if o.outcome == "killed" {
		return fail("the sort did not end within %d cpu units (%d comparator calls so far)", cpuSort, o.calls)
	}
	// after-state by position
	nAll := int64(len(c.T1.Elems))
	l := c.T1.n()
	after := map[int64]string{}
	for _, e := range o.k["1"] {
		rest := e[len(`s:"k1" i:`):]
		sp := strings.IndexByte(rest, ' ')
		k, _ := strconv.ParseInt(rest[:sp], 10, 64)
		after[k] = rest[sp+1:]
	}
	var bef, aft []string
	for k := int64(1); k <= nAll; k++ {
		b := encV(c.T1.Elems[k-1].model())
		a, ok := after[k]
		if !ok {
			a = "nil"
		}
		delete(after, k)
		if k <= l {
			bef = append(bef, b)
			aft = append(aft, a)
		} else if a != b {
			return fail("position %d beyond the length %d changed from %s to %s", k, l, b, a)
		}
	}
	for k, v := range after {
		return fail("key %d = %s appeared", k, v)
	}
	less, mustErr := sortLess(c)
	if o.outcome == "error" {
		less = nil
	}
	if d := libref.CheckSort(bef, aft, less); d != "" {
		return fail("after the sort (%s): %s; before %v, after %v", o.outcome, d, clipStrs(bef), clipStrs(aft))
	}
	switch {
	case mustErr:
		if o.outcome != "error" {
			return fail("elements that `<` cannot compare were sorted without an error")
		}
	case sp.ErrAt > 0 && sp.Cmp != "none":
		if o.outcome == "error" && o.calls != sp.ErrAt {
			return fail("error after %d comparator calls, the comparator raises on call %d only", o.calls, sp.ErrAt)
		}
		if o.outcome == "ok" && o.calls >= sp.ErrAt {
			return fail("the comparator raised on call %d (of %d) but the sort returned normally", sp.ErrAt, o.calls)
		}
	case sp.YieldAt > 0:
		// the manual does not say whether the comparator may yield: both a normal end and an error are accepted
	case sp.Cmp == "bits" && less == nil:
		// inconsistent comparator: "invalid order function" is acceptable
	default:
		if o.outcome != "ok" {
			return fail("unexpected error from a sort with a consistent order: %s", o.errText)
		}
	}
	return ""
}

func clipStrs(xs []string) []string {
	if len(xs) > 16 {
		return append(xs[:16:16], fmt.Sprintf("…(%d)", len(xs)))
	}
	return xs
}

// ---------------------------------------------------------------------------
// non-trivial rule and classes

func c19NonTrivial(c c19Case) bool {
	if c.T1 != nil {
		if c.T1.Proxy || (c.T2 != nil && c.T2.Proxy) {
			return true
		}
		n := c.T1.n()
		if n >= 3 {
			return true
		}
		for _, a := range c.Args {
			if a.K == "i" || a.K == "f" {
				v, ok := a.asInt()
				if !ok || v < 1 || v > n {
					return true
				}
			}
		}
		return false
	}
	if c.Fn == "pack" || c.Fn == "char" {
		if len(c.Args) >= 3 {
			return true
		}
		for _, a := range c.Args {
			if v, ok := a.asInt(); c.Fn == "char" && (!ok || v < 0 || v > 255) {
				return true
			}
		}
		return false
	}
	n := int64(len(c.Args[0].S))
	if n >= 3 {
		return true
	}
	for _, a := range c.Args[1:] {
		if a.K == "i" || a.K == "f" {
			v, ok := a.asInt()
			if !ok || v < 1 || v > n {
				return true
			}
		}
	}
	return false
}

func c19Key(c c19Case) string {
	b, _ := json.Marshal(c)
	return string(b)
}

// ---------------------------------------------------------------------------
// known findings: recognisers over inputs

// C19-rep-negative: string.rep with a negative count raises.
func kfRepNegative(c c19Case) bool {
	if c.Fn != "rep" || len(c.Args) < 2 {
		return false
	}
	n, ok := c.Args[1].asInt()
	return ok && n < 0
}

// C19-case-nonascii: upper/lower on a string with a byte >= 0x80.
func kfCaseNonASCII(c c19Case) bool {
	if c.Fn != "upper" && c.Fn != "lower" {
		return false
	}
	for _, b := range c.Args[0].S {
		if b >= 0x80 {
			return true
		}
	}
	return false
}

// C19-plain-find-init: plain find that starts after position 1 and finds the needle.
func kfPlainFindInit(c c19Case) bool {
	if c.Fn != "find" {
		return false
	}
	init, ok := c.Args[2].asInt()
	if !ok {
		return false
	}
	_, _, found := libref.FindPlain(c.Args[0].S, c.Args[1].S, init)
	return found && libref.FindInit(int64(len(c.Args[0].S)), init) > 1
}

// string.rep("", n, "") with a present empty separator loops n times without
// consuming cpu: for large n it cannot be run in-process (no limit stops it).
func unrunnableRep(c c19Case) bool {
	if c.Fn != "rep" || len(c.Args) < 3 {
		return false
	}
	n, ok := c.Args[1].asInt()
	return ok && n > 1_000_000 && len(c.Args[0].S) == 0 && len(c.Args[2].S) == 0
}

// ---------------------------------------------------------------------------

func posLattice(n int64) []Val {
	out := []Val{vInt(math.MinInt64)}
	for p := -n - 2; p <= n+2; p++ {
		out = append(out, vInt(p))
	}
	return append(out, vInt(math.MaxInt64))
}

func latticeStrings(maxLen int) [][]byte {
	alpha := []byte{'a', 'B', 0, 0xff}
	out := [][]byte{{}}
	prev := [][]byte{{}}
	for l := 1; l <= maxLen; l++ {
		var cur [][]byte
		for _, p := range prev {
			for _, a := range alpha {
				cur = append(cur, append(append([]byte{}, p...), a))
			}
		}
		out = append(out, cur...)
		prev = cur
	}
	return out
}

func seqInts(n int) []Val {
	out := make([]Val, n)
	for i := range out {
		out[i] = vInt(int64(10 * (i + 1)))
	}
	return out
}

func TestC19(t *testing.T) {
	rec := ev.New("C19")
	defer Finish(t, rec)
	if err := libref.SelfTest(); err != nil {
		t.Fatal(err)
	}
	rec.Rule("exhaustive argument tuples: strings of length 0-3 over {a,B,\\0,\\xff}, sequences of length 0-4, positions/counts from {mininteger, -len-2..len+2, maxinteger} for sub, byte, char, rep, reverse, upper, lower, len, plain find, insert, remove, move, concat, unpack, pack (plain tables and proxies with logging __index/__newindex/__len), sort of every sequence of length 0-4 over 3 values under 7 comparators; plus rapid-drawn inputs up to 200 elements with float positions, proxies whose __len differs from the content, extra keys, default/consistent/adversarial/raising/yielding comparators. Oracle: models written from the manual (internal/libref) — exact results and final table contents (read back at probe keys plus a next() walk for stray keys), only THAT an error is raised; sort: permutation by identity, ordered for consistent orders, error propagated, ends within a cpu budget. Non-trivial: a position is negative, out of range or extreme, or a metamethod proxy is involved, or the length is >= 3; distinct by (function, argument tuple).")
	rec.Assume("table.insert/table.remove with a position outside the range the manual allows: the reference implementation's error is required (the manual defines no other behaviour)")
	rec.Assume("table.unpack of more than 256 values (the limit golua documents; the manual names none): the exact results and an error are both accepted")
	rec.Assume("the text of a float element in table.concat is taken from golua's `..` operator (§3.4.3 leaves the number format open); integers are decimal")
	rec.Assume("results that cannot exist (string.rep beyond 64 KiB under a 64 MiB limit, moves/unpacks of more than 10^7 elements under a budget of 150000 cpu units; 20001..10^7 elements: no expectation, not generated on purpose): an error or a resource stop are accepted, a normal return is not; table.unpack of 2^31 or more values must be refused with an error before anything is read (as the reference implementation does), a resource stop is not accepted there")
	rec.Assume("nil in place of an omitted middle argument, numeric strings as positions and numbers as strings are not generated: the manual does not define them")
	rec.Assume("table.move(a, f, e, f) onto itself with a range too large to move: the assignment is the identity, so an unchanged table, an error and a resource stop are all accepted")
	rec.Assume("a comparator that yields: the manual is silent; a normal end (ordered) and an error (permutation) are both accepted")
	run := &c19Runner{}

	if rec.Replay != "" {
		rf, err := rec.LoadReplay()
		if err != nil {
			t.Fatal(err)
		}
		var c c19Case
		if err := json.Unmarshal(rf.Case, &c); err != nil {
			t.Fatal(err)
		}
		rec.Eval()
		if unrunnableRep(c) {
			return
		}
		exp := c19Expect(c, run.fmtFloat)
		if exp.Kind == "skip" {
			return
		}
		if msg := c19Check(c, exp, run.run(c, exp)); msg != "" {
			rec.Violation(rf.Kind, c, msg)
		}
		return
	}

	stillFails := func(c c19Case) bool {
		exp := c19Expect(c, run.fmtFloat)
		return c19Check(c, exp, run.run(c, exp)) != ""
	}
	kfRep := CheckKnown(rec, "C19-rep-negative", func() bool {
		return stillFails(c19Case{Fn: "rep", Args: []Val{vStr("ab"), vInt(-5)}})
	})
	kfCase := CheckKnown(rec, "C19-case-nonascii", func() bool {
		return stillFails(c19Case{Fn: "upper", Args: []Val{vStr("a\xff")}})
	})
	kfFind := CheckKnown(rec, "C19-plain-find-init", func() bool {
		return stillFails(c19Case{Fn: "find", Args: []Val{vStr("abc"), vStr("c"), vInt(3)}})
	})
	excluded := func(c c19Case) bool {
		switch {
		case kfRep && kfRepNegative(c):
			rec.Discard("excluded-by-finding:C19-rep-negative")
		case kfCase && kfCaseNonASCII(c):
			rec.Discard("excluded-by-finding:C19-case-nonascii")
		case kfFind && kfPlainFindInit(c):
			rec.Discard("excluded-by-finding:C19-plain-find-init")
		case unrunnableRep(c):
			rec.Discard("not-runnable:rep-empty-string-empty-separator-huge-count")
		default:
			return false
		}
		return true
	}

	maxCPU := uint64(0)
	evalCase := func(c c19Case) string {
		if excluded(c) {
			return ""
		}
		exp := c19Expect(c, run.fmtFloat)
		if exp.Kind == "skip" {
			rec.Discard("skip:" + exp.Why)
			return ""
		}
		tr := run.run(c, exp)
		rec.Eval()
		if c19NonTrivial(c) {
			rec.NonTrivial(c19Key(c))
		}
		rec.Class("fn:" + c.Fn)
		rec.Class("expect:" + exp.Kind)
		if c.T1 != nil && c.T1.Proxy {
			rec.Class("proxy")
		}
		if c.Sort != nil {
			cl := "sort:" + c.Sort.Cmp
			if c.Sort.ErrAt > 0 {
				cl += "+raise"
			}
			if c.Sort.YieldAt > 0 {
				cl += "+yield"
			}
			rec.Class(cl)
			if tr.UsedCPU > maxCPU {
				maxCPU = tr.UsedCPU
			}
		}
		if tr.Killed {
			rec.Class("observed:killed")
		}
		for _, e := range tr.Events {
			if strings.HasPrefix(e, `s:"log1" `) && e != `s:"log1" i:0 i:0 i:0` {
				rec.Class("proxy:metamethods-called")
			}
		}
		rec.Sample(map[string]any{"call": c.pretty(), "expect": exp.Kind, "why": exp.Why})
		return c19Check(c, exp, tr)
	}

	nviol := 0
	idx := 0
	t0 := time.Now()
	lat := func(c c19Case) {
		idx++
		if !rec.Mine(idx) || nviol >= 8 {
			return
		}
		if msg := evalCase(c); msg != "" {
			nviol++
			rec.Violation("tuple", c, msg)
		}
	}

	// ---- 1. exhaustive lattices -------------------------------------------
	strs := latticeStrings(3)
	needleMax := rec.Pick(2, 3)
	for _, s := range strs {
		n := int64(len(s))
		pos := posLattice(n)
		S := vBytes(s)
		for _, fn := range []string{"reverse", "upper", "lower", "len"} {
			lat(c19Case{Fn: fn, Args: []Val{S}})
		}
		lat(c19Case{Fn: "sub", Args: []Val{S}})
		lat(c19Case{Fn: "byte", Args: []Val{S}})
		for _, i := range pos {
			lat(c19Case{Fn: "sub", Args: []Val{S, i}})
			lat(c19Case{Fn: "byte", Args: []Val{S, i}})
			for _, j := range pos {
				lat(c19Case{Fn: "sub", Args: []Val{S, i, j}})
				lat(c19Case{Fn: "byte", Args: []Val{S, i, j}})
			}
		}
		for _, cnt := range []int64{math.MinInt64, -1, 0, 1, 2, 3, 1 << 31, 1 << 40, math.MaxInt64} {
			lat(c19Case{Fn: "rep", Args: []Val{S, vInt(cnt)}})
			for _, sep := range []string{"", ",", "\x00\xff"} {
				lat(c19Case{Fn: "rep", Args: []Val{S, vInt(cnt), vStr(sep)}})
			}
		}
		for _, p := range strs {
			if len(p) > needleMax {
				continue
			}
			for _, init := range pos {
				lat(c19Case{Fn: "find", Args: []Val{S, vBytes(p), init}})
			}
		}
	}
	for b := 0; b < 256; b++ {
		lat(c19Case{Fn: "upper", Args: []Val{vBytes([]byte{byte(b)})}})
		lat(c19Case{Fn: "lower", Args: []Val{vBytes([]byte{byte(b)})}})
		lat(c19Case{Fn: "char", Args: []Val{vInt(int64(b))}})
		lat(c19Case{Fn: "byte", Args: []Val{vBytes([]byte{byte(b)})}})
	}
	codes := []Val{vInt(-1), vInt(0), vInt(97), vInt(255), vInt(256), vInt(math.MinInt64), vInt(math.MaxInt64)}
	lat(c19Case{Fn: "char"})
	for _, a := range codes {
		lat(c19Case{Fn: "char", Args: []Val{a}})
		for _, b := range codes {
			lat(c19Case{Fn: "char", Args: []Val{a, b}})
			for _, d := range codes {
				lat(c19Case{Fn: "char", Args: []Val{a, b, d}})
			}
		}
	}
	packVals := []Val{vInt(1), vNil, vStr("x"), vBool(false)}
	lat(c19Case{Fn: "pack"})
	for _, a := range packVals {
		lat(c19Case{Fn: "pack", Args: []Val{a}})
		for _, b := range packVals {
			lat(c19Case{Fn: "pack", Args: []Val{a, b}})
			for _, d := range packVals {
				lat(c19Case{Fn: "pack", Args: []Val{a, b, d}})
			}
		}
	}
	mkTab := func(elems []Val, proxy bool) *TabSpec {
		return &TabSpec{Elems: elems, Proxy: proxy, Len: int64(len(elems))}
	}
	for n := 0; n <= 4; n++ {
		pos := posLattice(int64(n))
		for _, proxy := range []bool{false, true} {
			for _, v := range []Val{vInt(99), vNil} {
				lat(c19Case{Fn: "insert", T1: mkTab(seqInts(n), proxy), Args: []Val{v}})
				for _, p := range pos {
					lat(c19Case{Fn: "insert", T1: mkTab(seqInts(n), proxy), Args: []Val{p, v}})
				}
			}
			lat(c19Case{Fn: "remove", T1: mkTab(seqInts(n), proxy)})
			lat(c19Case{Fn: "unpack", T1: mkTab(seqInts(n), proxy)})
			for _, p := range pos {
				lat(c19Case{Fn: "remove", T1: mkTab(seqInts(n), proxy), Args: []Val{p}})
				lat(c19Case{Fn: "unpack", T1: mkTab(seqInts(n), proxy), Args: []Val{p}})
				for _, q := range pos {
					lat(c19Case{Fn: "unpack", T1: mkTab(seqInts(n), proxy), Args: []Val{p, q}})
				}
			}
			// concat: integers; strings and integers; a boolean in the middle
			variants := [][]Val{seqInts(n)}
			mixed := seqInts(n)
			for i := range mixed {
				if i%2 == 0 {
					mixed[i] = vStr(string(rune('a' + i)))
				}
			}
			variants = append(variants, mixed)
			if n > 0 {
				bad := seqInts(n)
				bad[n/2] = vBool(true)
				variants = append(variants, bad)
			}
			for _, elems := range variants {
				lat(c19Case{Fn: "concat", T1: mkTab(elems, proxy)})
				for _, sep := range []string{"", ", "} {
					lat(c19Case{Fn: "concat", T1: mkTab(elems, proxy), Args: []Val{vStr(sep)}})
					for _, p := range pos {
						lat(c19Case{Fn: "concat", T1: mkTab(elems, proxy), Args: []Val{vStr(sep), p}})
						for _, q := range pos {
							lat(c19Case{Fn: "concat", T1: mkTab(elems, proxy), Args: []Val{vStr(sep), p, q}})
						}
					}
				}
			}
			// move
			for _, f := range pos {
				for _, e := range pos {
					for _, d := range pos {
						args := []Val{f, e, d}
						lat(c19Case{Fn: "move", T1: mkTab(seqInts(n), proxy), Args: args})
						if proxy && !rec.Thorough() {
							continue
						}
						lat(c19Case{Fn: "move", T1: mkTab(seqInts(n), proxy), Args: args, Same: true})
						lat(c19Case{Fn: "move", T1: mkTab(seqInts(n), proxy), Args: args, T2: mkTab([]Val{vInt(77), vInt(88)}, proxy)})
					}
				}
			}
		}
	}
	// sort: every sequence of length 0..4 over {1,2,3}
	sortCmps := []SortSpec{
		{Cmp: "none"}, {Cmp: "rank"}, {Cmp: "rank", ErrAt: 1}, {Cmp: "rank", ErrAt: 2},
		{Cmp: "bits", Bits: []bool{true}}, {Cmp: "bits", Bits: []bool{false}}, {Cmp: "bits", Bits: []bool{true, false}},
		{Cmp: "rank", YieldAt: 1}, {Cmp: "rank", YieldAt: 2},
	}
	var seqs [][]int
	var gen func(cur []int)
	gen = func(cur []int) {
		seqs = append(seqs, append([]int{}, cur...))
		if len(cur) == 4 {
			return
		}
		for v := 1; v <= 3; v++ {
			gen(append(cur, v))
		}
	}
	gen(nil)
	for _, sq := range seqs {
		for _, proxy := range []bool{false, true} {
			for ci, sc := range sortCmps {
				elems := make([]Val, len(sq))
				ranks := make([]int, len(sq))
				for i, v := range sq {
					elems[i] = vInt(int64(v))
					ranks[i] = v
					if ci == 1 && proxy {
						ranks[i] = -v // descending order
					}
				}
				sp := sc
				if sp.Cmp == "rank" {
					sp.Ranks = ranks
				}
				lat(c19Case{Fn: "sort", T1: mkTab(elems, proxy), Sort: &sp})
			}
		}
	}
	rec.Exhaustive(true)
	rec.Set("n_lattice_tuples", idx)
	rec.Set("wall_lattice_s", time.Since(t0).Seconds())
	if nviol > 0 {
		return
	}

	// ---- 2. rapid: longer inputs --------------------------------------------
	genPos := func(n int64) *rapid.Generator[Val] {
		ints := rapid.OneOf(
			rapid.Int64Range(-n-3, n+3),
			rapid.Int64Range(-n-3, n+3),
			rapid.Int64Range(1, n+1),
			rapid.SampledFrom([]int64{math.MinInt64, math.MinInt64 + 1, math.MaxInt64, math.MaxInt64 - 1, 1 << 31, -(1 << 31), 1 << 32, 1<<53 + 1, -(1 << 62)}),
			rapid.Int64Range(math.MinInt64, math.MinInt64+300),
			rapid.Int64Range(math.MaxInt64-300, math.MaxInt64),
		)
		return rapid.Custom(func(t *rapid.T) Val {
			v := ints.Draw(t, "pos")
			switch rapid.IntRange(0, 19).Draw(t, "poskind") {
			case 0:
				if v > -(1<<53) && v < 1<<53 {
					return vFloat(float64(v)) // float with an exact integer value
				}
			case 1:
				if v > -(1<<50) && v < 1<<50 {
					return vFloat(float64(v) + 0.5) // no integer representation: error
				}
			case 2:
				return rapid.SampledFrom([]Val{vFloat(math.Ldexp(1, 63)), vFloat(-math.Ldexp(1, 63)), vFloat(math.Inf(1)), vFloat(math.NaN())}).Draw(t, "oddfloat")
			}
			return vInt(v)
		})
	}
	genBytes := func(maxLen int) *rapid.Generator[[]byte] {
		return rapid.SliceOfN(rapid.OneOf(
			rapid.SampledFrom([]byte{'a', 'b', 'c', 'A', 'Z', 'z', 0, 0xff, 0x80, 0xc3, 0xa9, ' ', '%', '.'}),
			rapid.Byte(),
		), 0, maxLen)
	}
	strProp := func(t *rapid.T) {
		s := genBytes(200).Draw(t, "s")
		n := int64(len(s))
		S := vBytes(s)
		var c c19Case
		switch fn := rapid.SampledFrom([]string{"sub", "sub", "byte", "byte", "find", "find", "find", "rep", "rep", "reverse", "upper", "lower", "len", "char"}).Draw(t, "fn"); fn {
		case "sub":
			c = c19Case{Fn: fn, Args: []Val{S, genPos(n).Draw(t, "i")}}
			if rapid.IntRange(0, 3).Draw(t, "hasj") > 0 {
				c.Args = append(c.Args, genPos(n).Draw(t, "j"))
			}
		case "byte":
			c = c19Case{Fn: fn, Args: []Val{S}}
			if k := rapid.IntRange(0, 5).Draw(t, "nargs"); k > 0 {
				c.Args = append(c.Args, genPos(n).Draw(t, "i"))
				if k > 1 {
					c.Args = append(c.Args, genPos(n).Draw(t, "j"))
				}
			}
		case "find":
			var p []byte
			if rapid.IntRange(0, 3).Draw(t, "needlekind") > 0 && n > 0 {
				a := rapid.Int64Range(0, n-1).Draw(t, "from")
				l := rapid.Int64Range(0, min64(n-a, 6)).Draw(t, "nlen")
				p = append([]byte{}, s[a:a+l]...)
			} else {
				p = genBytes(3).Draw(t, "needle")
			}
			c = c19Case{Fn: fn, Args: []Val{S, vBytes(p), genPos(n).Draw(t, "init")}}
		case "rep":
			short := s
			if len(short) > 40 {
				short = short[:40]
			}
			cnt := rapid.OneOf(rapid.Int64Range(-3, 40), rapid.Int64Range(-3, 40), rapid.SampledFrom([]int64{1 << 31, 1 << 33, 1 << 40, 1 << 62, math.MaxInt64, math.MinInt64, 1<<63 - 2, 70000, 1 << 20}), rapid.Int64Range(1<<34, math.MaxInt64)).Draw(t, "n")
			c = c19Case{Fn: fn, Args: []Val{vBytes(short), vInt(cnt)}}
			if rapid.Bool().Draw(t, "hassep") {
				c.Args = append(c.Args, vBytes(genBytes(5).Draw(t, "sep")))
			}
		case "char":
			k := rapid.IntRange(0, 200).Draw(t, "ncodes")
			bad := rapid.IntRange(-1, 8).Draw(t, "badat")
			c = c19Case{Fn: fn}
			for i := 0; i < k; i++ {
				if i == bad*7 {
					c.Args = append(c.Args, rapid.SampledFrom([]Val{vInt(256), vInt(-1), vInt(math.MaxInt64), vInt(math.MinInt64), vFloat(65), vFloat(65.5), vInt(1 << 32)}).Draw(t, "badcode"))
				} else {
					c.Args = append(c.Args, vInt(int64(rapid.IntRange(0, 255).Draw(t, "code"))))
				}
			}
		default:
			c = c19Case{Fn: fn, Args: []Val{S}}
		}
		if msg := evalCase(c); msg != "" {
			FailCase(t, "tuple", c, "%s", msg)
		}
	}
	if !RunRapid(rec, "C19/strings", rec.Pick(5000, 60000), 0, strProp) {
		return
	}
	rec.Set("wall_strings_s", time.Since(t0).Seconds())

	genElems := func(t *rapid.T, kind string, n int) []Val {
		out := make([]Val, n)
		for i := range out {
			switch kind {
			case "ints":
				out[i] = vInt(int64(rapid.IntRange(-20, 20).Draw(t, "e")))
			case "strs":
				out[i] = vBytes(genBytes(3).Draw(t, "e"))
			case "nums":
				if rapid.Bool().Draw(t, "isf") {
					out[i] = vFloat(float64(rapid.IntRange(-40, 40).Draw(t, "e")) / 2)
				} else {
					out[i] = vInt(int64(rapid.IntRange(-20, 20).Draw(t, "e")))
				}
			case "bignums":
				// integers and floats that are equal or adjacent only under exact
				// comparison (a float64 cannot tell them apart)
				out[i] = rapid.SampledFrom(bigNumPool).Draw(t, "e")
			case "tabs":
				out[i] = vTab(i + 1)
			default: // mixed strings and integers
				if rapid.Bool().Draw(t, "iss") {
					out[i] = vBytes(genBytes(3).Draw(t, "e"))
				} else {
					out[i] = vInt(int64(rapid.IntRange(-20, 20).Draw(t, "e")))
				}
			}
		}
		return out
	}
	genLen := rapid.OneOf(rapid.IntRange(0, 8), rapid.IntRange(0, 40), rapid.IntRange(0, 200))
	genTab := func(t *rapid.T, label string, kind string, lenVaries bool, extras bool) *TabSpec {
		n := genLen.Draw(t, label+"n")
		ts := &TabSpec{Elems: genElems(t, kind, n), Len: int64(n)}
		ts.Proxy = rapid.Bool().Draw(t, label+"proxy")
		if ts.Proxy && lenVaries && rapid.IntRange(0, 2).Draw(t, label+"lenvar") == 0 {
			ts.Len = int64(rapid.IntRange(0, n+2).Draw(t, label+"len"))
		}
		if extras && rapid.IntRange(0, 2).Draw(t, label+"hasextra") == 0 {
			for _, k := range []int64{0, -1, int64(n) + 2, int64(n) + 3} {
				if rapid.Bool().Draw(t, label+"extra") {
					ts.Extra = append(ts.Extra, KV{Key: k, V: vInt(1000 + k)})
				}
			}
		}
		return ts
	}
	tabProp := func(t *rapid.T) {
		var c c19Case
		switch fn := rapid.SampledFrom([]string{"insert", "remove", "move", "move", "concat", "concat", "unpack", "unpack", "pack"}).Draw(t, "fn"); fn {
		case "insert":
			ts := genTab(t, "t", "mixed", true, false)
			c = c19Case{Fn: fn, T1: ts}
			if rapid.Bool().Draw(t, "haspos") {
				c.Args = append(c.Args, genPos(ts.n()).Draw(t, "pos"))
			}
			c.Args = append(c.Args, rapid.SampledFrom([]Val{vInt(99), vStr("new"), vNil, vBool(false)}).Draw(t, "v"))
		case "remove":
			ts := genTab(t, "t", "mixed", true, false)
			c = c19Case{Fn: fn, T1: ts}
			if rapid.Bool().Draw(t, "haspos") {
				c.Args = append(c.Args, genPos(ts.n()).Draw(t, "pos"))
			}
		case "move":
			ts := genTab(t, "t", "ints", false, true)
			n := ts.n()
			c = c19Case{Fn: fn, T1: ts, Args: []Val{genPos(n).Draw(t, "f"), genPos(n).Draw(t, "e"), genPos(n).Draw(t, "d")}}
			switch rapid.IntRange(0, 2).Draw(t, "a2") {
			case 1:
				c.Same = true
			case 2:
				c.T2 = genTab(t, "u", "strs", false, true)
			}
		case "concat":
			kind := rapid.SampledFrom([]string{"mixed", "ints", "strs", "nums"}).Draw(t, "kind")
			explicit := rapid.Bool().Draw(t, "explicit")
			ts := genTab(t, "t", kind, true, explicit)
			if k := rapid.IntRange(-6, len(ts.Elems)-1).Draw(t, "badat"); k >= 0 && rapid.IntRange(0, 3).Draw(t, "bad") == 0 {
				ts.Elems[k] = rapid.SampledFrom([]Val{vBool(true), vTab(1), vBool(false)}).Draw(t, "badv")
			}
			c = c19Case{Fn: fn, T1: ts}
			n := ts.n()
			if explicit {
				c.Args = []Val{vBytes(genBytes(3).Draw(t, "sep")), genPos(n).Draw(t, "i"), genPos(n).Draw(t, "j")}
			} else if k := rapid.IntRange(0, 2).Draw(t, "nargs"); k > 0 {
				c.Args = []Val{vBytes(genBytes(3).Draw(t, "sep"))}
				if k > 1 {
					c.Args = append(c.Args, genPos(n).Draw(t, "i"))
				}
			}
		case "unpack":
			explicit := rapid.Bool().Draw(t, "explicit")
			ts := genTab(t, "t", "mixed", true, explicit)
			c = c19Case{Fn: fn, T1: ts}
			n := ts.n()
			if explicit {
				i := genPos(n).Draw(t, "i")
				j := genPos(n).Draw(t, "j")
				if iv, ok := i.asInt(); ok && rapid.Bool().Draw(t, "near") && iv < math.MaxInt64-400 {
					j = vInt(iv + int64(rapid.IntRange(-2, 300).Draw(t, "span")))
				}
				c.Args = []Val{i, j}
			} else if rapid.Bool().Draw(t, "hasi") {
				c.Args = []Val{genPos(n).Draw(t, "i")}
			}
		case "pack":
			k := rapid.IntRange(0, 200).Draw(t, "nargs")
			c = c19Case{Fn: fn}
			for i := 0; i < k; i++ {
				c.Args = append(c.Args, rapid.SampledFrom([]Val{vInt(int64(i)), vNil, vNil, vStr("x"), vBool(false), vFloat(1.5)}).Draw(t, "arg"))
			}
		}
		if msg := evalCase(c); msg != "" {
			FailCase(t, "tuple", c, "%s", msg)
		}
	}
	if !RunRapid(rec, "C19/tables", rec.Pick(5000, 60000), 1, tabProp) {
		return
	}
	rec.Set("wall_tables_s", time.Since(t0).Seconds())

	sortProp := func(t *rapid.T) {
		kind := rapid.SampledFrom([]string{"ints", "ints", "strs", "tabs", "nums", "bignums", "bignums", "mixed"}).Draw(t, "kind")
		n := genLen.Draw(t, "n")
		ts := &TabSpec{Elems: genElems(t, kind, n), Len: int64(n)}
		ts.Proxy = rapid.Bool().Draw(t, "proxy")
		if ts.Proxy && rapid.IntRange(0, 3).Draw(t, "lenvar") == 0 {
			ts.Len = int64(rapid.IntRange(0, n).Draw(t, "len"))
		}
		sp := &SortSpec{}
		modes := []string{"none", "rank", "rank", "bits", "bits", "rank+raise", "rank+yield", "bits+raise"}
		if kind == "tabs" {
			modes = modes[1:]
		}
		if kind == "nums" || kind == "bignums" {
			modes = []string{"none"}
		}
		mode := rapid.SampledFrom(modes).Draw(t, "cmp")
		sp.Cmp = strings.SplitN(mode, "+", 2)[0]
		if sp.Cmp == "rank" {
			// a random total preorder: equal values get equal ranks
			byVal := map[string]int{}
			nranks := rapid.IntRange(1, 1+n).Draw(t, "nranks")
			sp.Ranks = make([]int, n)
			for i, e := range ts.Elems {
				k := encV(e.model())
				r, ok := byVal[k]
				if !ok {
					r = rapid.IntRange(1, nranks).Draw(t, "rank")
					byVal[k] = r
				}
				sp.Ranks[i] = r
			}
		}
		if sp.Cmp == "bits" {
			sp.Bits = rapid.SliceOfN(rapid.Bool(), 1, 40).Draw(t, "bits")
		}
		if strings.HasSuffix(mode, "+raise") {
			sp.ErrAt = rapid.IntRange(1, 3*n+2).Draw(t, "errat")
		}
		if strings.HasSuffix(mode, "+yield") {
			sp.YieldAt = rapid.IntRange(1, 2*n+2).Draw(t, "yieldat")
		}
		c := c19Case{Fn: "sort", T1: ts, Sort: sp}
		if msg := evalCase(c); msg != "" {
			FailCase(t, "sort", c, "%s", msg)
		}
	}
	if !RunRapid(rec, "C19/sort", rec.Pick(2000, 40000), 2, sortProp) {
		return
	}
	rec.Set("max_sort_cpu", maxCPU)
}

func min64(a, b int64) int64 {
	if a < b {
		return a
	}
	return b
}
