package c02

import (
	"encoding/json"
	"fmt"
	"math"
	"strconv"
	"strings"
	"testing"

	rt "github.com/arnodel/golua/runtime"
	"pgregory.net/rapid"

	"verif/internal/ev"
	"verif/internal/harness"
	. "verif/internal/pbt"
)

// C02 — numbers: arithmetic, comparison, bitwise operators and conversions are exact.

// c02Case is one replayable case.
//
//	Kind "bin"  : A Op B            routes go | fn | lit
//	Kind "un"   : Op A              routes go | fn | lit
//	Kind "math" : math.Op(A[,B])    routes fn | go (tointeger only: rt.ToInt/ToIntNoString/FloatToInt)
//	Kind "laws" : order laws on A,B routes go | fn
//	Kind "num"  : numeral string S (Go-quoted) routes tonumber | coerce | tointeger | source | go
type c02Case struct {
	Kind  string `json:"kind"`
	Route string `json:"route"`
	Op    string `json:"op,omitempty"`
	A     Opnd   `json:"a,omitempty"`
	B     Opnd   `json:"b,omitempty"`
	S     string `json:"s,omitempty"`
}

func (c c02Case) key() string {
	return c.Kind + "|" + c.Route + "|" + c.Op + "|" + string(c.A) + "|" + string(c.B) + "|" + c.S
}

func (c c02Case) str() string {
	s, err := strconv.Unquote(c.S)
	if err != nil {
		return c.S
	}
	return s
}

func (c c02Case) pretty() string {
	switch c.Kind {
	case "bin":
		return fmt.Sprintf("%s %s %s [%s route]", c.A.Pretty(), c.Op, c.B.Pretty(), c.Route)
	case "un":
		return fmt.Sprintf("%s %s [%s route]", c.Op, c.A.Pretty(), c.Route)
	case "math":
		if c.B != "" {
			return fmt.Sprintf("math.%s(%s, %s) [%s route]", c.Op, c.A.Pretty(), c.B.Pretty(), c.Route)
		}
		return fmt.Sprintf("math.%s(%s) [%s route]", c.Op, c.A.Pretty(), c.Route)
	case "laws":
		return fmt.Sprintf("order laws on %s, %s [%s route]", c.A.Pretty(), c.B.Pretty(), c.Route)
	}
	return fmt.Sprintf("numeral %s [%s route]", c.S, c.Route)
}

// obs is what golua was observed to do.
type obs struct {
	rets       string
	err        string
	compileErr string
	panicMsg   string
	killed     bool
	na         bool // the route does not exist for this operation
}

func (o obs) String() string {
	switch {
	case o.panicMsg != "":
		return "GO PANIC " + o.panicMsg
	case o.killed:
		return "KILLED"
	case o.compileErr != "":
		return "compile error " + o.compileErr
	case o.err != "":
		return "error " + o.err
	}
	return o.rets
}

type runner struct {
	s   *harness.Session
	fns map[string]rt.Value
}

func (r *runner) session() *harness.Session {
	if r.s == nil {
		r.s = harness.NewSession()
		r.fns = map[string]rt.Value{}
	}
	return r.s
}

func (r *runner) fn(src string) rt.Value {
	s := r.session()
	if f, ok := r.fns[src]; ok {
		return f
	}
	f, err := s.Load("fn", src)
	if err != nil {
		panic("c02: cannot compile helper " + src + ": " + err.Error())
	}
	r.fns[src] = f
	return f
}

func (r *runner) fromTrace(tr *harness.Trace) obs {
	if tr.Panic != "" {
		r.s = nil // poisoned
		return obs{panicMsg: tr.Panic}
	}
	return obs{rets: tr.Rets, err: tr.Err, killed: tr.Killed, compileErr: tr.CompileErr}
}

// call runs the precompiled helper src (a chunk returning a function) on args.
func (r *runner) call(src string, args ...rt.Value) obs {
	f := r.fn(src)
	return r.fromTrace(r.s.Call(f, 1_000_000, 0, args...))
}

// chunk compiles src and runs it.
func (r *runner) chunk(src string) (o obs) {
	s := r.session()
	var clos *rt.Closure
	var err error
	func() {
		defer func() {
			if p := recover(); p != nil {
				o = obs{panicMsg: "while compiling: " + fmt.Sprint(p)}
				r.s = nil
			}
		}()
		clos, err = s.R.CompileAndLoadLuaChunk("chunk", []byte(src), rt.TableValue(s.R.GlobalEnv()))
	}()
	if o.panicMsg != "" {
		return o
	}
	if err != nil {
		return obs{compileErr: err.Error()}
	}
	return r.fromTrace(s.Call(rt.FunctionValue(clos), 1_000_000, 0))
}

func encV(v rt.Value) string { return harness.NewCanon().EncValue(v) }

// goBin is route 1 for binary operators: golua's exported Go functions.
func (r *runner) goBin(op string, a, b rt.Value) (o obs) {
	th := r.session().R.MainThread()
	defer func() {
		if p := recover(); p != nil {
			o = obs{panicMsg: fmt.Sprint(p)}
		}
	}()
	val := func(v rt.Value, ok bool) obs {
		if !ok {
			return obs{err: "exported function reported: operands are not numbers"}
		}
		return obs{rets: encV(v)}
	}
	valE := func(v rt.Value, ok bool, err error) obs {
		if err != nil {
			return obs{err: err.Error()}
		}
		return val(v, ok)
	}
	boolE := func(b bool, err error) obs {
		if err != nil {
			return obs{err: err.Error()}
		}
		return obs{rets: encBool(b)}
	}
	switch op {
	case "+":
		return val(rt.Add(a, b))
	case "-":
		return val(rt.Sub(a, b))
	case "*":
		return val(rt.Mul(a, b))
	case "/":
		return val(rt.Div(a, b))
	case "//":
		return valE(rt.Idiv(a, b))
	case "%":
		return valE(rt.Mod(a, b))
	case "^":
		return val(rt.Pow(a, b))
	case "==":
		eq, _ := rt.RawEqual(a, b)
		return obs{rets: encBool(eq)}
	case "~=":
		eq, _ := rt.RawEqual(a, b)
		return obs{rets: encBool(!eq)}
	case "<":
		return boolE(rt.Lt(th, a, b))
	case ">":
		return boolE(rt.Lt(th, b, a))
	}
	return obs{na: true} // <=, >=, bitwise operators: not exported
}

func binFnSrc(op string) string { return "return function(a, b) return a " + op + " b end" }
func unFnSrc(op string) string  { return "return function(a) return " + op + " a end" }

const lawsSrc = "return function(a, b) return a < b, a == b, a > b, a <= b, a >= b, a ~= b end"

func (r *runner) run(c c02Case) obs {
	switch c.Kind {
	case "bin":
		switch c.Route {
		case "go":
			return r.goBin(c.Op, c.A.Value(), c.B.Value())
		case "fn":
			return r.call(binFnSrc(c.Op), c.A.Value(), c.B.Value())
		case "lit":
			return r.chunk("return " + c.A.Lua() + " " + c.Op + " " + c.B.Lua())
		}
	case "un":
		switch c.Route {
		case "go":
			if c.Op != "-" {
				return obs{na: true}
			}
			v, ok := rt.Unm(c.A.Value())
			if !ok {
				return obs{err: "rt.Unm: not a number"}
			}
			return obs{rets: encV(v)}
		case "fn":
			return r.call(unFnSrc(c.Op), c.A.Value())
		case "lit":
			return r.chunk("return " + c.Op + " " + c.A.Lua())
		}
	case "math":
		switch c.Route {
		case "fn":
			if c.B != "" {
				return r.call("return function(a, b) return math."+c.Op+"(a, b) end", c.A.Value(), c.B.Value())
			}
			return r.call("return function(a) return math."+c.Op+"(a) end", c.A.Value())
		case "lit":
			if c.B != "" {
				return r.chunk("return math." + c.Op + "(" + c.A.Lua() + ", " + c.B.Lua() + ")")
			}
			return r.chunk("return math." + c.Op + "(" + c.A.Lua() + ")")
		case "go":
			return goToInt(c.A.Value())
		}
	case "laws":
		switch c.Route {
		case "fn":
			return r.call(lawsSrc, c.A.Value(), c.B.Value())
		case "go":
			th := r.session().R.MainThread()
			a, b := c.A.Value(), c.B.Value()
			lt, err1 := rt.Lt(th, a, b)
			gt, err2 := rt.Lt(th, b, a)
			eq, _ := rt.RawEqual(a, b)
			if err1 != nil || err2 != nil {
				return obs{err: fmt.Sprint(err1, err2)}
			}
			return obs{rets: encBool(lt) + " " + encBool(eq) + " " + encBool(gt)}
		}
	case "num":
		s := c.str()
		switch c.Route {
		case "tonumber":
			return r.call("return function(s) return tonumber(s) end", rt.StringValue(s))
		case "coerce":
			return r.call("return function(s) return s + 0 end", rt.StringValue(s))
		case "tointeger":
			return r.call("return function(s) return math.tointeger(s) end", rt.StringValue(s))
		case "source":
			return r.chunk("return " + s)
		case "go":
			return goStringToNumber(s)
		case "gotoint":
			return goToInt(rt.StringValue(s))
		}
	}
	panic("c02: bad case " + c.key())
}

// goToInt: rt.ToInt, and for numbers rt.ToIntNoString and rt.FloatToInt, which must agree.
func goToInt(v rt.Value) (o obs) {
	defer func() {
		if p := recover(); p != nil {
			o = obs{panicMsg: fmt.Sprint(p)}
		}
	}()
	enc := func(n int64, ok bool) string {
		if !ok {
			return "nil"
		}
		return harness.EncInt(n)
	}
	r1 := enc(rt.ToInt(v))
	if v.Type() != rt.StringType {
		if r2 := enc(rt.ToIntNoString(v)); r2 != r1 {
			return obs{rets: "ToInt:" + r1 + " ToIntNoString:" + r2}
		}
	}
	if f, ok := v.TryFloat(); ok {
		n, tp := rt.FloatToInt(f)
		if r3 := enc(n, tp == rt.IsInt); r3 != r1 {
			return obs{rets: "ToInt:" + r1 + " FloatToInt:" + r3}
		}
	}
	return obs{rets: r1}
}

func goStringToNumber(s string) (o obs) {
	defer func() {
		if p := recover(); p != nil {
			o = obs{panicMsg: fmt.Sprint(p)}
		}
	}()
	n, f, tp := rt.StringToNumber(s)
	switch tp {
	case rt.IsInt:
		return obs{rets: harness.EncInt(n)}
	case rt.IsFloat:
		return obs{rets: harness.EncFloat(f)}
	}
	return obs{rets: "nil"}
}

// lawsCheck checks the order laws of the statement WITHOUT the number model:
// only whether an operand is NaN is taken from the inputs.
func lawsCheck(c c02Case, o obs) string {
	if o.panicMsg != "" || o.killed || o.compileErr != "" {
		return "golua: " + o.String()
	}
	if o.err != "" {
		return "comparison of two numbers raised: " + o.err
	}
	var v []bool
	for _, f := range strings.Fields(o.rets) {
		switch f {
		case "true":
			v = append(v, true)
		case "false":
			v = append(v, false)
		default:
			return "comparison returned a non-boolean: " + o.rets
		}
	}
	isNaN := func(p Opnd) bool { return p.Kind() == 'f' && p.Float() != p.Float() }
	nan := isNaN(c.A) || isNaN(c.B)
	if c.Route == "go" {
		if len(v) != 3 {
			return "bad observation " + o.rets
		}
	} else if len(v) != 6 {
		return "expected 6 booleans, got " + o.rets
	}
	lt, eq, gt := v[0], v[1], v[2]
	if nan {
		if lt || eq || gt {
			return fmt.Sprintf("NaN operand but (a<b, a==b, a>b) = (%v, %v, %v)", lt, eq, gt)
		}
	} else {
		n := 0
		for _, x := range []bool{lt, eq, gt} {
			if x {
				n++
			}
		}
		if n != 1 {
			return fmt.Sprintf("trichotomy violated: (a<b, a==b, a>b) = (%v, %v, %v)", lt, eq, gt)
		}
	}
	if c.Route == "fn" {
		le, ge, ne := v[3], v[4], v[5]
		if le != (lt || eq) {
			return fmt.Sprintf("a<=b is %v but a<b is %v and a==b is %v", le, lt, eq)
		}
		if ge != (gt || eq) {
			return fmt.Sprintf("a>=b is %v but a>b is %v and a==b is %v", ge, gt, eq)
		}
		if ne == eq {
			return fmt.Sprintf("a~=b is %v and a==b is %v", ne, eq)
		}
	}
	return ""
}

// expectation returns the model's expectation for a case (not for "laws").
func expectation(c c02Case) (w want, nontrivial bool, class string) {
	a, _ := c.A.Num()
	b, _ := c.B.Num()
	switch c.Kind {
	case "bin":
		w = wantBin(c.Op, a, b)
		return w, nontrivBin(c.Op, a, b, w), "bin:" + c.Route
	case "un":
		w = wantUn(c.Op, a)
		return w, w.err || special(a) || (a.IsInt && a.I == math.MinInt64), "un:" + c.Route
	case "math":
		if c.Route == "go" {
			w = wantMath("tointeger", a, b)
		} else {
			w = wantMath(c.Op, a, b)
		}
		nt := w.err || special(a) || (c.B != "" && special(b)) || len(w.accept) > 1
		if !nt && !a.IsInt && a.F != math.Trunc(a.F) {
			nt = true // rounding functions on a non-integral float
		}
		return w, nt, "math:" + c.Op + ":" + c.Route
	case "num":
		s := c.str()
		switch c.Route {
		case "tonumber", "go":
			w = wantToNumber(s)
		case "coerce":
			w = wantCoerce(s)
		case "tointeger":
			w = wantToIntegerStr(s)
		case "gotoint":
			w = wantGoToInt(s)
		case "source":
			var cl string
			w, cl = wantSource(s)
			return w, !w.weak && numeralNontrivial(trimASCIIBlanks(s)), "num:source:" + cl
		}
		return w, numeralNontrivial(s), "num:" + c.Route
	}
	panic("c02: no expectation for " + c.key())
}

func outcomeClass(w want) string {
	switch {
	case w.err:
		return "expect:error"
	case w.compileErr:
		return "expect:compile-error"
	case w.weak:
		return "expect:no-panic-only"
	case w.pow != nil:
		return "expect:pow-1ulp"
	case len(w.accept) > 1:
		return "expect:several-acceptable"
	case len(w.accept) == 1 && strings.HasPrefix(w.accept[0], "i:"):
		return "expect:integer"
	case len(w.accept) == 1 && strings.HasPrefix(w.accept[0], "f:"):
		return "expect:float"
	case len(w.accept) == 1 && w.accept[0] == "nil":
		return "expect:nil"
	}
	return "expect:boolean/other"
}

func TestC02(t *testing.T) {
	rec := ev.New("C02")
	defer Finish(t, rec)
	rec.Rule("(a) exhaustive ordered pairs over a lattice of 27 integers and 26 floats (0, small, 2^31, 2^32, 2^53±1, 2^62, min/maxinteger neighbourhood; ±0.0, fractions, ±2^53, 2^63-1024, ±2^63, -2^63-2048, 2^64, ±1e308, 5e-324, ±inf, NaN) x 18 binary + 2 unary operators x 3 routes (exported Go functions rt.Add…rt.Lt/RawEqual; compiled function(a,b) return a OP b end on runtime operands; chunk `return <lit> OP <lit>`), plus math.tointeger/floor/ceil/abs/fmod/modf/max/min/ult/type on the lattice; (b) order laws (trichotomy, <= and >= as disjunctions, NaN unordered) on every lattice pair without the model; (c) rapid-drawn operands concentrated near 2^53 and 2^63 for every operator and math function; (d) numeral strings: every string of length <= 4 over a 14-symbol alphabet (thorough; seeded sample in quick) and rapid-drawn longer strings built from the numeral grammar and mutated, through tonumber, `s+0`, math.tointeger, rt.StringToNumber/rt.ToInt and as source text `return <s>`. Oracle: internal/numref (math/big model written from manual §3.1, §3.4.1-3.4.4, §6.7). Non-trivial: the expected result differs from the naive float64(a) OP float64(b) computation, or an operand is ±0.0/inf/NaN or within 1024 of ±2^53/±2^63, or the case raises; numerals: accepted by exactly one of {strconv.ParseFloat, the model} or using hex/exponent/blank forms. Distinct by (kind, route, op, operands / string).")
	rec.Assume("`^`: when both operands are integral and the true power is exactly representable (big-integer computation) the result must be exact; otherwise results within 1 ulp of Go's math.Pow are accepted (special values must match exactly)")
	rec.Assume("float `%` with an infinite divisor: the reference implementation's fmod-with-sign-correction result and the formula a - floor(a/b)*b are both accepted")
	rec.Assume("errors: only THAT an error is raised is checked (integer // and % by zero, bitwise operators on floats without integer value, math.ult likewise, math.fmod of integers by zero)")
	rec.Assume("math.modf: the integral part may be a float (reference implementation) or an integer when it fits (§6.7 text); a zero fractional part may have either sign; math.max/min: for arguments that compare equal or with a NaN either argument is accepted")
	rec.Assume("math.tointeger(string): both fail (5.4.0-5.4.2) and the converted integer (5.4.3+) are accepted; \"-9223372036854775808\" (any leading zeros) as a string may be mininteger (reference implementation) or the float -2^63 (lexer rule)")
	rec.Assume("source route: only strings that the lexer must read as one numeral (or a numeral touching letters/dots) are required to be compile errors; strings with inner signs, blanks or other characters are only required not to panic")
	run := &runner{}

	// evalCase evaluates one case; returns a message if golua disagrees.
	evalCase := func(c c02Case) string {
		o := run.run(c)
		if o.na {
			rec.Discard("route-go:operator-not-exported")
			return ""
		}
		rec.Eval()
		if c.Kind == "laws" {
			rec.Class("laws:" + c.Route)
			a, _ := c.A.Num()
			b, _ := c.B.Num()
			if special(a) || special(b) || a.IsInt != b.IsInt {
				rec.NonTrivial(c.key())
			}
			if msg := lawsCheck(c, o); msg != "" {
				return c.pretty() + ": " + msg + " [observed " + o.String() + "]"
			}
			return ""
		}
		w, nt, class := expectation(c)
		rec.Class(class)
		rec.Class(outcomeClass(w))
		if nt {
			rec.NonTrivial(c.key())
		}
		if nt {
			rec.Sample(map[string]any{"case": c.pretty(), "expected": w.describe(), "observed": o.String()})
		}
		if msg := w.check(o); msg != "" {
			return c.pretty() + ": " + msg
		}
		return ""
	}

	if rec.Replay != "" {
		rf, err := rec.LoadReplay()
		if err != nil {
			t.Fatal(err)
		}
		var c c02Case
		if err := json.Unmarshal(rf.Case, &c); err != nil {
			t.Fatal(err)
		}
		if msg := evalCase(c); msg != "" {
			rec.Violation(rf.Kind, c, msg)
		}
		return
	}

	// ---- known findings (open entries of known_findings.d/C02.json) ----
	numCase := func(route, s string) c02Case {
		return c02Case{Kind: "num", Route: route, S: strconv.QuoteToASCII(s)}
	}
	stillFails := func(c c02Case) func() bool {
		return func() bool {
			w, _, _ := expectation(c)
			return w.check(run.run(c)) != ""
		}
	}
	kfPlus := CheckKnown(rec, "C02-tonumber-sign-after-plus", stillFails(numCase("tonumber", "+-5")))
	kfUnder := CheckKnown(rec, "C02-tonumber-float-underscore", stillFails(numCase("tonumber", "0x1_0p0")))
	kfBlank := CheckKnown(rec, "C02-tonumber-unicode-blank", stillFails(numCase("tonumber", "\xC2\xA05")))
	kfHexJunk := CheckKnown(rec, "C02-tonumber-long-hex-prefix", stillFails(numCase("tonumber", "0x-0000000000000001")))
	kfDecLit := CheckKnown(rec, "C02-decimal-literal-wrap", stillFails(numCase("source", "9223372036854775808")))
	kfFmodOpen := CheckKnown(rec, "C02-fmod-floor", stillFails(c02Case{Kind: "math", Route: "fn", Op: "fmod", A: OInt(-5), B: OInt(3)}))

	excluded := func(c c02Case) bool {
		disc := func(id string) bool { rec.Discard("excluded-by-finding:" + id); return true }
		switch c.Kind {
		case "math":
			if kfFmodOpen && c.Op == "fmod" && c.Route != "go" {
				a, _ := c.A.Num()
				b, _ := c.B.Num()
				if kfFmod(a, b) {
					return disc("C02-fmod-floor")
				}
			}
		case "num":
			s := c.str()
			if c.Route == "source" {
				if kfDecLit && kfDecLiteral(s) {
					return disc("C02-decimal-literal-wrap")
				}
				return false
			}
			switch {
			case kfPlus && kfSignAfterPlus(s):
				return disc("C02-tonumber-sign-after-plus")
			case kfUnder && kfFloatUnderscore(s):
				return disc("C02-tonumber-float-underscore")
			case kfBlank && kfUnicodeBlank(s):
				return disc("C02-tonumber-unicode-blank")
			case kfHexJunk && kfLongHexJunk(s):
				return disc("C02-tonumber-long-hex-prefix")
			}
		}
		return false
	}

	// violations of enumerations: at most one per signature, to show the classes
	seenSig := map[string]int{}
	report := func(c c02Case, msg string) {
		sig := c.Kind + "|" + c.Route + "|" + c.Op
		if c.Kind == "num" {
			sig = c.Kind + "|" + c.Route
		}
		seenSig[sig]++
		if seenSig[sig] > 2 || rec.NViolations() >= 40 {
			return
		}
		rec.Violation(c.Kind, c, msg)
	}
	try := func(c c02Case) {
		if excluded(c) {
			return
		}
		if msg := evalCase(c); msg != "" {
			report(c, msg)
		}
	}

	// ---- (a) exhaustive lattice, three routes; (b) order laws ----
	lat := lattice()
	rec.Set("lattice_size", len(lat))
	litEvery := rec.Pick(1, 1) // literal route: full in both tiers (cheap enough)
	idx := 0
	for _, a := range lat {
		for _, b := range lat {
			idx++
			if !rec.Mine(idx) {
				continue
			}
			for _, op := range binOps {
				try(c02Case{Kind: "bin", Route: "go", Op: op, A: a, B: b})
				try(c02Case{Kind: "bin", Route: "fn", Op: op, A: a, B: b})
				if pick(rec.BaseSeed(), idx, litEvery) {
					try(c02Case{Kind: "bin", Route: "lit", Op: op, A: a, B: b})
				}
			}
			for _, fn := range mathBin {
				try(c02Case{Kind: "math", Route: "fn", Op: fn, A: a, B: b})
				if pick(rec.BaseSeed(), idx, litEvery) {
					try(c02Case{Kind: "math", Route: "lit", Op: fn, A: a, B: b})
				}
			}
			try(c02Case{Kind: "laws", Route: "fn", A: a, B: b})
			try(c02Case{Kind: "laws", Route: "go", A: a, B: b})
		}
	}
	for i, a := range lat {
		if !rec.Mine(i) {
			continue
		}
		for _, op := range unOps {
			for _, route := range []string{"go", "fn", "lit"} {
				try(c02Case{Kind: "un", Route: route, Op: op, A: a})
			}
		}
		for _, fn := range mathUn {
			try(c02Case{Kind: "math", Route: "fn", Op: fn, A: a})
			try(c02Case{Kind: "math", Route: "lit", Op: fn, A: a})
		}
		try(c02Case{Kind: "math", Route: "go", Op: "tointeger", A: a})
	}

	// ---- (d) numerals: exhaustive short strings ----
	numRoutes := []string{"tonumber", "coerce", "tointeger", "go", "gotoint", "source"}
	nstr := 0
	enumStrings(4, func(i int, s string) {
		if !rec.Mine(i) {
			return
		}
		// quick tier: all strings up to length 3 and a seeded eighth of length 4
		if !rec.Thorough() && symLen(i) == 4 && !pick(rec.BaseSeed(), i, 8) {
			return
		}
		nstr++
		for _, route := range numRoutes {
			try(numCase(route, s))
		}
	})
	for i, s := range numeralSpecials {
		if rec.Mine(i) {
			for _, route := range numRoutes {
				try(numCase(route, s))
			}
		}
	}
	rec.Set("short_numeral_strings_this_shard", nstr)
	rec.Exhaustive(true)

	if rec.NViolations() > 0 {
		return
	}

	// ---- (c) random operands near 2^53 / 2^63, routes 1-2 (and 3 for a share) ----
	gOp := genOpnd()
	RunRapid(rec, "C02/random-operators", rec.Pick(100000, 800000), 0, func(t *rapid.T) {
		var c c02Case
		switch rapid.IntRange(0, 9).Draw(t, "kind") {
		case 0:
			c = c02Case{Kind: "un", Op: rapid.SampledFrom(unOps).Draw(t, "op"), A: gOp.Draw(t, "a")}
		case 1:
			c = c02Case{Kind: "math", Op: rapid.SampledFrom(mathUn).Draw(t, "fn"), A: gOp.Draw(t, "a")}
		case 2:
			c = c02Case{Kind: "math", Op: rapid.SampledFrom(mathBin).Draw(t, "fn"), A: gOp.Draw(t, "a"), B: gOp.Draw(t, "b")}
		case 3:
			c = c02Case{Kind: "laws", A: gOp.Draw(t, "a"), B: gOp.Draw(t, "b")}
		default:
			c = c02Case{Kind: "bin", Op: rapid.SampledFrom(binOps).Draw(t, "op"), A: gOp.Draw(t, "a"), B: gOp.Draw(t, "b")}
		}
		routes := []string{"go", "fn", "fn", "lit"}
		switch c.Kind {
		case "math":
			routes = []string{"fn", "fn", "lit"}
			if c.Op == "tointeger" {
				routes = append(routes, "go")
			}
		case "laws":
			routes = []string{"go", "fn"}
		}
		c.Route = rapid.SampledFrom(routes).Draw(t, "route")
		if excluded(c) {
			return
		}
		if msg := evalCase(c); msg != "" {
			FailCase(t, c.Kind, c, "%s", msg)
		}
	})

	// ---- (d) numerals: random longer strings ----
	gStr := genNumeralString()
	RunRapid(rec, "C02/random-numerals", rec.Pick(80000, 600000), 1, func(t *rapid.T) {
		s := gStr.Draw(t, "s")
		c := numCase(rapid.SampledFrom(numRoutes).Draw(t, "route"), s)
		if excluded(c) {
			return
		}
		if msg := evalCase(c); msg != "" {
			FailCase(t, c.Kind, c, "%s", msg)
		}
	})
}
