package c02

// Expectations for C02, computed from internal/numref (big-number model written
// from the manual) — never from golua.

import (
	"fmt"
	"math"
	"math/big"
	"strconv"
	"strings"
	"unicode"

	"verif/internal/harness"
	"verif/internal/numref"
	. "verif/internal/pbt"
)

// want is the set of acceptable observations of one case.
type want struct {
	err        bool     // a Lua error must be raised (only THAT it is raised is checked)
	compileErr bool     // the chunk must be rejected by the compiler
	weak       bool     // nothing is claimed but "no Go panic, no kill"
	accept     []string // acceptable canonical encodings of the returned values
	pow        *float64 // `^` without an exactly representable result: <= 1 ulp from this
	nums       []numref.Num
	boolean    *bool
}

func wantNums(ns ...numref.Num) want {
	w := want{nums: ns}
	for _, n := range ns {
		w.accept = append(w.accept, EncNum(n))
	}
	return w
}

func encBool(b bool) string {
	if b {
		return "true"
	}
	return "false"
}

func wantBool(b bool) want { return want{accept: []string{encBool(b)}, boolean: &b} }

func (w want) describe() string {
	switch {
	case w.err:
		return "an error"
	case w.compileErr:
		return "a compile error"
	case w.weak:
		return "anything but a panic"
	case w.pow != nil:
		return fmt.Sprintf("within 1 ulp of %s", harness.EncFloat(*w.pow))
	}
	return strings.Join(w.accept, "  or  ")
}

// ord maps floats to integers so that adjacent floats differ by 1.
func ord(f float64) int64 {
	b := int64(math.Float64bits(f))
	if b < 0 {
		b = math.MinInt64 - b
	}
	return b
}

func parseEncFloat(s string) (float64, bool) {
	if s == "f:nan" {
		return math.NaN(), true
	}
	if !strings.HasPrefix(s, "f:") {
		return 0, false
	}
	s = s[2:]
	if i := strings.IndexByte(s, '('); i >= 0 {
		s = s[:i]
	}
	b, err := strconv.ParseUint(s, 16, 64)
	if err != nil {
		return 0, false
	}
	return math.Float64frombits(b), true
}

// check returns "" if the observation is acceptable.
func (w want) check(o obs) string {
	if o.panicMsg != "" {
		return "Go panic: " + o.panicMsg
	}
	if o.killed {
		return "killed by the CPU/memory safety net"
	}
	if o.compileErr != "" {
		if w.compileErr || w.weak {
			return ""
		}
		return "unexpected compile error: " + o.compileErr
	}
	if w.compileErr {
		return "expected a compile error, golua gave " + o.String()
	}
	if w.weak {
		return ""
	}
	if w.err {
		if o.err != "" {
			return ""
		}
		return "expected an error, golua returned " + o.rets
	}
	if o.err != "" {
		return "unexpected error " + o.err + ", expected " + w.describe()
	}
	for _, a := range w.accept {
		if a == o.rets {
			return ""
		}
	}
	if w.pow != nil {
		got, ok := parseEncFloat(o.rets)
		p := *w.pow
		switch {
		case !ok:
		case p != p:
			if got != got {
				return ""
			}
		case p == 0 || math.IsInf(p, 0):
			if math.Float64bits(got) == math.Float64bits(p) {
				return ""
			}
		case got == got:
			if d := ord(got) - ord(p); d >= -1 && d <= 1 {
				return ""
			}
		}
	}
	return "golua gave " + o.rets + ", expected " + w.describe()
}

var binOps = []string{"+", "-", "*", "/", "//", "%", "^", "&", "|", "~", "<<", ">>", "==", "~=", "<", "<=", ">", ">="}
var unOps = []string{"-", "~"}

func isCmpOp(op string) bool {
	switch op {
	case "==", "~=", "<", "<=", ">", ">=":
		return true
	}
	return false
}

func isBitOp(op string) bool {
	switch op {
	case "&", "|", "~", "<<", ">>":
		return true
	}
	return false
}

func wantBin(op string, a, b numref.Num) want {
	num := func(n numref.Num, err error) want {
		if err != nil {
			return want{err: true}
		}
		return wantNums(n)
	}
	switch op {
	case "+":
		return wantNums(numref.Add(a, b))
	case "-":
		return wantNums(numref.Sub(a, b))
	case "*":
		return wantNums(numref.Mul(a, b))
	case "/":
		return wantNums(numref.Div(a, b))
	case "//":
		return num(numref.IDiv(a, b))
	case "%":
		ns, err := numref.Mod(a, b)
		if err != nil {
			return want{err: true}
		}
		return wantNums(ns...)
	case "^":
		approx, exact, has := numref.Pow(a, b)
		// a zero base keeps its sign for odd exponents (pow(-0.0, 3) = -0.0): the
		// big-integer computation cannot express that, the special-value rule below can
		if has && a.AsFloat() != 0 {
			return wantNums(numref.Float(exact))
		}
		w := wantNums(numref.Float(approx))
		w.pow = &approx
		return w
	case "&":
		return num(numref.Band(a, b))
	case "|":
		return num(numref.Bor(a, b))
	case "~":
		return num(numref.Bxor(a, b))
	case "<<":
		return num(numref.Shl(a, b))
	case ">>":
		return num(numref.Shr(a, b))
	case "==":
		return wantBool(numref.Eq(a, b))
	case "~=":
		return wantBool(!numref.Eq(a, b))
	case "<":
		return wantBool(numref.Lt(a, b))
	case "<=":
		return wantBool(numref.Le(a, b))
	case ">":
		return wantBool(numref.Lt(b, a))
	case ">=":
		return wantBool(numref.Le(b, a))
	}
	panic("c02: unknown operator " + op)
}

func wantUn(op string, a numref.Num) want {
	switch op {
	case "-":
		return wantNums(numref.Unm(a))
	case "~":
		n, err := numref.Bnot(a)
		if err != nil {
			return want{err: true}
		}
		return wantNums(n)
	}
	panic("c02: unknown unary operator " + op)
}

var mathUn = []string{"tointeger", "floor", "ceil", "abs", "modf", "type"}
var mathBin = []string{"fmod", "max", "min", "ult"}

func wantMath(fn string, a, b numref.Num) want {
	switch fn {
	case "tointeger":
		if i, ok := numref.ToInteger(a); ok {
			return wantNums(numref.Int(i))
		}
		return want{accept: []string{"nil"}}
	case "floor":
		return wantNums(numref.Floor(a))
	case "ceil":
		return wantNums(numref.Ceil(a))
	case "abs":
		return wantNums(numref.Abs(a))
	case "type":
		return want{accept: []string{harness.EncString(numref.MathType(a))}}
	case "modf":
		var w want
		for _, p := range numref.Modf(a) {
			w.accept = append(w.accept, EncNum(p[0])+" "+EncNum(p[1]))
		}
		return w
	case "fmod":
		n, err := numref.Fmod(a, b)
		if err != nil {
			return want{err: true}
		}
		return wantNums(n)
	case "max":
		return wantNums(numref.MaxMin(a, b, true)...)
	case "min":
		return wantNums(numref.MaxMin(a, b, false)...)
	case "ult":
		r, err := numref.Ult(a, b)
		if err != nil {
			return want{err: true}
		}
		return wantBool(r)
	}
	panic("c02: unknown math function " + fn)
}

// ---------------------------------------------------------------- non-trivial rule

var (
	big53 = new(big.Int).Lsh(big.NewInt(1), 53)
	big63 = new(big.Int).Lsh(big.NewInt(1), 63)
	big64 = new(big.Int).Lsh(big.NewInt(1), 64)
	b1024 = big.NewInt(1024)
)

// special: ±0.0, ±inf, NaN, or within 1024 of ±2^53 or ±2^63.
func special(n numref.Num) bool {
	var mag *big.Int
	if n.IsInt {
		mag = new(big.Int).Abs(big.NewInt(n.I))
	} else {
		f := n.F
		if f == 0 || f != f || math.IsInf(f, 0) {
			return true
		}
		if math.Abs(f) > 1e19 || math.Abs(f) < 1e15 {
			return false
		}
		mag, _ = new(big.Float).SetFloat64(math.Abs(f)).Int(nil)
	}
	for _, c := range []*big.Int{big53, big63} {
		d := new(big.Int).Sub(mag, c)
		if d.Abs(d).Cmp(b1024) <= 0 {
			return true
		}
	}
	return false
}

func nf(n numref.Num) float64 {
	if n.IsInt {
		return float64(n.I)
	}
	return n.F
}

func sameAsNaive(exp numref.Num, naive float64) bool {
	if naive != naive {
		return !exp.IsInt && exp.F != exp.F
	}
	if !exp.IsInt {
		return math.Float64bits(exp.F) == math.Float64bits(naive)
	}
	return numref.Eq(exp, numref.Float(naive))
}

func nontrivBin(op string, a, b numref.Num, w want) bool {
	if w.err || special(a) || special(b) {
		return true
	}
	x, y := nf(a), nf(b)
	switch {
	case isCmpOp(op):
		var nv bool
		switch op {
		case "==":
			nv = x == y
		case "~=":
			nv = x != y
		case "<":
			nv = x < y
		case "<=":
			nv = x <= y
		case ">":
			nv = x > y
		case ">=":
			nv = x >= y
		}
		return w.boolean == nil || *w.boolean != nv
	case isBitOp(op):
		// the C-naive reading: shift counts taken modulo 64, arithmetic right shift
		i, j := int64(x), int64(y)
		var nv int64
		switch op {
		case "&":
			nv = i & j
		case "|":
			nv = i | j
		case "~":
			nv = i ^ j
		case "<<":
			nv = i << uint(j&63)
		case ">>":
			nv = i >> uint(j&63)
		}
		return len(w.nums) != 1 || !w.nums[0].IsInt || w.nums[0].I != nv
	}
	nv, ok := numref.NaiveBin(op, a, b)
	if !ok || len(w.nums) == 0 {
		return true
	}
	return len(w.nums) > 1 || !sameAsNaive(w.nums[0], nv)
}

// ---------------------------------------------------------------- numerals

func wantToNumber(s string) want {
	n, ok := numref.StringToNumber(s)
	if !ok {
		return want{accept: []string{"nil"}}
	}
	w := wantNums(n)
	if numref.IsMinIntDecimal(s) {
		w = wantNums(n, numref.Int(math.MinInt64))
	}
	return w
}

// s + 0: the string is converted following the lexer's rules, then the
// addition follows the operand kinds.
func wantCoerce(s string) want {
	n, ok := numref.StringToNumber(s)
	if !ok {
		return want{err: true}
	}
	w := wantNums(numref.Add(n, numref.Int(0)))
	if numref.IsMinIntDecimal(s) {
		w = wantNums(numref.Add(n, numref.Int(0)), numref.Int(math.MinInt64))
	}
	return w
}

// math.tointeger(s): 5.4.0–5.4.2 give fail for every string, 5.4.3+ convert:
// both accepted.
func wantToIntegerStr(s string) want {
	w := want{accept: []string{"nil"}}
	if n, ok := numref.StringToNumber(s); ok {
		if i, ok := numref.ToInteger(n); ok {
			w.accept = append(w.accept, EncNum(numref.Int(i)))
		}
	}
	return w
}

// string -> integer conversion (§3.4.3): string to number, then to integer.
func wantGoToInt(s string) want {
	if n, ok := numref.StringToNumber(s); ok {
		if i, ok := numref.ToInteger(n); ok {
			return want{accept: []string{EncNum(numref.Int(i))}}
		}
	}
	return want{accept: []string{"nil"}}
}

func isASCIIBlank(c byte) bool {
	return c == ' ' || c == '\t' || c == '\n' || c == '\v' || c == '\f' || c == '\r'
}

func trimASCIIBlanks(s string) string {
	i, j := 0, len(s)
	for i < j && isASCIIBlank(s[i]) {
		i++
	}
	for j > i && isASCIIBlank(s[j-1]) {
		j--
	}
	return s[i:j]
}

func isDig(c byte) bool { return c >= '0' && c <= '9' }
func isXDig(c byte) bool {
	return isDig(c) || (c >= 'a' && c <= 'f') || (c >= 'A' && c <= 'F')
}
func isAlphaU(c byte) bool {
	return (c >= 'a' && c <= 'z') || (c >= 'A' && c <= 'Z') || c == '_'
}

// startsNumeral: the lexer starts reading a numeral here.
func startsNumeral(s string) bool {
	return len(s) > 0 && (isDig(s[0]) || (s[0] == '.' && len(s) > 1 && isDig(s[1])))
}

// lexMunch is the extent of the numeral token read by the reference lexer
// (read_numeral): digits, hex digits, dots, exponent marks with an optional
// sign, and one touching letter.
func lexMunch(s string) int {
	i := 1
	expo := "eE"
	if s[0] == '0' && i < len(s) && (s[i] == 'x' || s[i] == 'X') {
		expo = "pP"
		i++
	}
	for i < len(s) {
		c := s[i]
		if strings.IndexByte(expo, c) >= 0 {
			i++
			if i < len(s) && (s[i] == '+' || s[i] == '-') {
				i++
			}
			continue
		}
		if isXDig(c) || c == '.' {
			i++
			continue
		}
		break
	}
	if i < len(s) && isAlphaU(s[i]) {
		i++
	}
	return i
}

func plainWord(s string) bool {
	for i := 0; i < len(s); i++ {
		if !(isDig(s[i]) || isAlphaU(s[i]) || s[i] == '.') {
			return false
		}
	}
	return true
}

// wantSource is the expectation for the chunk `return <s>`.
//   - a well-formed numeral denotes numref.Numeral's value;
//   - a malformed numeral (the text is one numeral token for the lexer, or a
//     numeral touching letters/digits/dots, which no grammar production accepts
//     after `return <numeral>`) is a compile error;
//   - `-` followed by a well-formed numeral is the negation of its value;
//   - anything else (signs and blanks inside, other characters): only
//     "never a panic".
func wantSource(s string) (w want, class string) {
	core := trimASCIIBlanks(s)
	neg := false
	if strings.HasPrefix(core, "-") {
		rest := trimASCIIBlanks(core[1:])
		if startsNumeral(rest) {
			if _, ok := numref.Numeral(rest); ok {
				neg = true
				core = rest
			}
		}
	}
	if !startsNumeral(core) {
		return want{weak: true}, "weak"
	}
	if n, ok := numref.Numeral(core); ok {
		if neg {
			return wantNums(numref.Unm(n)), "neg-numeral"
		}
		return wantNums(n), "numeral"
	}
	if strings.Contains(core, "..") {
		// `.1..5`: the reference lexer reads one malformed numeral, a lexer that
		// follows only the numeral grammar reads `.1 .. 5`; the manual does not decide
		return want{weak: true}, "weak"
	}
	if lexMunch(core) == len(core) || plainWord(core) {
		return want{compileErr: true}, "malformed"
	}
	return want{weak: true}, "weak"
}

// numeralNontrivial: accepted by exactly one of {strconv.ParseFloat, model},
// or the string uses hex / exponent / blank forms.
func numeralNontrivial(s string) bool {
	_, err := strconv.ParseFloat(s, 64)
	naive := err == nil
	_, model := numref.StringToNumber(s)
	if naive != model {
		return true
	}
	for i := 0; i < len(s); i++ {
		switch c := s[i]; {
		case c == 'x' || c == 'X' || c == 'e' || c == 'E' || c == 'p' || c == 'P':
			return true
		case isASCIIBlank(c) || c >= 0x80 || c == 0:
			return true
		}
	}
	return false
}

// ---------------------------------------------------------------- recognisers of known findings (over inputs)

func trimUnicodeBlanks(s string) string { return strings.TrimFunc(s, unicode.IsSpace) }

// C02-tonumber-sign-after-plus: after the surrounding blanks, '+' followed by another sign.
func kfSignAfterPlus(s string) bool {
	t := trimUnicodeBlanks(s)
	return len(t) >= 2 && t[0] == '+' && (t[1] == '+' || t[1] == '-')
}

// C02-tonumber-float-underscore: a string with an underscore that golua hands
// to strconv.ParseFloat: float syntax ('.', exponent mark), or a decimal digit
// string long enough (>= 19 digits) to overflow an integer.
func kfFloatUnderscore(s string) bool {
	if !strings.Contains(s, "_") {
		return false
	}
	if strings.ContainsAny(s, ".eEpP") {
		return true
	}
	nd := 0
	for i := 0; i < len(s); i++ {
		if isDig(s[i]) {
			nd++
		}
	}
	return nd >= 19
}

// C02-tonumber-unicode-blank: the surrounding run of Unicode white space
// contains a non-ASCII one (U+0085, U+00A0, U+2003, ...), i.e. stripping
// Unicode white space removes more than stripping the ASCII blanks.
func kfUnicodeBlank(s string) bool {
	return trimUnicodeBlanks(s) != trimASCIIBlanks(s)
}

// C02-tonumber-long-hex-prefix: "0x" followed by more than 16 characters (no
// '.', 'p', 'P') of which one before the last 16 is not a hex digit.
func kfLongHexJunk(s string) bool {
	t := trimUnicodeBlanks(s)
	if len(t) > 0 && (t[0] == '+' || t[0] == '-') {
		t = t[1:]
	}
	if len(t) < 2 || t[0] != '0' || (t[1] != 'x' && t[1] != 'X') {
		return false
	}
	t = t[2:]
	if len(t) <= 16 || strings.ContainsAny(t, ".pP") {
		return false
	}
	for i := 0; i < len(t)-16; i++ {
		if !isXDig(t[i]) {
			return true
		}
	}
	return false
}

// C02-decimal-literal-wrap: a decimal integer literal in [2^63, 2^64) in source.
func kfDecLiteral(s string) bool {
	core := trimASCIIBlanks(s)
	if strings.HasPrefix(core, "-") {
		core = trimASCIIBlanks(core[1:])
	}
	if core == "" {
		return false
	}
	for i := 0; i < len(core); i++ {
		if !isDig(core[i]) {
			return false
		}
	}
	bi, ok := new(big.Int).SetString(core, 10)
	return ok && bi.Cmp(big63) >= 0 && bi.Cmp(big64) < 0
}

// C02-fmod-floor: math.fmod with operands of opposite sign and a non-zero remainder.
func kfFmod(a, b numref.Num) bool {
	neg := func(n numref.Num) bool {
		if n.IsInt {
			return n.I < 0
		}
		return n.F < 0
	}
	if neg(a) == neg(b) {
		return false
	}
	r, err := numref.Fmod(a, b)
	if err != nil {
		return false
	}
	if r.IsInt {
		return r.I != 0
	}
	return r.F == r.F && r.F != 0
}
