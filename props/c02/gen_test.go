package c02

import (
	"math"
	"strconv"
	"strings"

	"pgregory.net/rapid"

	. "verif/internal/pbt"
)

const (
	p53 = int64(1) << 53
)

var two63 = math.Ldexp(1, 63)

// lattice is the boundary lattice of the design.
func lattice() []Opnd {
	ints := []int64{
		0, 1, -1, 2, -2, 3, -3, 7, 63, 64, 65, -64,
		1<<31 - 1, 1 << 31, 1 << 32,
		p53, -p53, p53 + 1, p53 - 1, -(p53 + 1), -(p53 - 1),
		1 << 62, math.MaxInt64 - 512, math.MaxInt64 - 1, math.MaxInt64, math.MinInt64, math.MinInt64 + 1,
	}
	floats := []float64{
		0, math.Copysign(0, -1), 0.5, -0.5, 1, -1, 1.5, -1.5, 2, 64, 0.1, math.Pi,
		float64(p53), -float64(p53), float64(p53) + 2,
		two63 - 1024, two63, -two63, -two63 - 2048, math.Ldexp(1, 64),
		1e308, -1e308, 5e-324, math.Inf(1), math.Inf(-1), math.NaN(),
	}
	var out []Opnd
	for _, i := range ints {
		out = append(out, OInt(i))
	}
	for _, f := range floats {
		out = append(out, OFloat(f))
	}
	return out
}

// pick is a seeded 1-in-n selection of enumeration index i.
func pick(seed uint64, i int, n int) bool {
	if n <= 1 {
		return true
	}
	x := seed*0x9E3779B97F4A7C15 ^ uint64(i+1)*0xBF58476D1CE4E5B9
	x ^= x >> 31
	x *= 0xD6E8FEB86659FD93
	x ^= x >> 29
	return x%uint64(n) == 0
}

// numeralSymbols is the alphabet of the exhaustive short-string enumeration.
var numeralSymbols = []string{"0", "1", "9", "x", "a", "e", "p", ".", "+", "-", " ", "_", "f", "\xC2\xA0"}

// enumStrings calls f(i, s) for every sequence of 1..maxLen symbols, in a fixed order.
func enumStrings(maxLen int, f func(i int, s string)) {
	n := len(numeralSymbols)
	i := 0
	for l := 1; l <= maxLen; l++ {
		idx := make([]int, l)
		for {
			var sb strings.Builder
			for _, k := range idx {
				sb.WriteString(numeralSymbols[k])
			}
			f(i, sb.String())
			i++
			p := l - 1
			for p >= 0 {
				idx[p]++
				if idx[p] < n {
					break
				}
				idx[p] = 0
				p--
			}
			if p < 0 {
				break
			}
		}
	}
}

// symLen is the number of symbols of the string with enumeration index i.
func symLen(i int) int {
	n := len(numeralSymbols)
	c := n
	for l := 1; ; l++ {
		if i < c {
			return l
		}
		i -= c
		c *= n
	}
}

// numeralSpecials are checked in every run (all routes).
var numeralSpecials = []string{
	"+-5", "-+5", "++5", "--5", "0x", "1e", "0x1_0p0", "1_000", "0x1_0", "1e1_0", "0x_1p0",
	" 5", "5 ", "\t5\n", "\v5", "5\f", "\r5\r", " \t\n\v\f\r5 \t\n\v\f\r", "- 5", "-\t5",
	"\xC2\xA05", "5\xC2\xA0", "\xE2\x80\x835", "5\xE2\x80\x83", "\xC2\x855", "\xA05", "5\xA0", "\xE3\x80\x805", "\xE2\x80\xA85",
	"inf", "nan", "Inf", "NaN", "-inf", "infinity", "+nan", "-nan", "0xinf", "1e+", "1e-", ".", "0x.p1", "5.", ".5", "0x.8", "0xA.8p1",
	"0x.", "0x.p", "0xp1", "0x1p", "0x1p+", "1.e5", ".e5", "5.e", "1e5.0", "1.5.5", "1..5", "0x1.8p1.5", "0x1e+1", "0x1p1e1", "1p1", "0x1e1",
	"0xffffffffffffffff", "0x10000000000000000", "0x10000000000000001", "0x7fffffffffffffff", "0x8000000000000000", "-0x8000000000000000",
	"0xfffffffffffffffffffff", "-0xffffffffffffffff", "0x00000000000000000000001", "0x123456789abcdef01",
	"0x-0000000000000001", "0x+0000000000000001", "0xg0000000000000000", "0x 0000000000000001", "0xx0000000000000001", "0x0x0000000000000001",
	"9223372036854775806", "9223372036854775807", "9223372036854775808", "9223372036854775809", "-9223372036854775807", "-9223372036854775808",
	"-9223372036854775809", "-09223372036854775808", " -9223372036854775808 ", "- 9223372036854775808", "+9223372036854775808",
	"18446744073709551614", "18446744073709551615", "18446744073709551616", "18446744073709551617", "-18446744073709551615", "36893488147419103232",
	"9007199254740993", "9007199254740993.0", "9223372036854775807.0", "9223372036854775808.0", "9.223372036854775807e18",
	"1e309", "-1e309", "1e-400", "1e308", "1.7976931348623157e308", "1.7976931348623159e308", "4.9e-324", "2.4e-324", "2.5e-324",
	"0x1p1023", "0x1p1024", "0x1.fffffffffffff8p1023", "0x1.fffffffffffff7p1023", "0x1p-1074", "0x1p-1075", "0x1.8p-1075", "0x1.000001p-1075",
	"0x1.00000000000008p0", "0x1.00000000000018p0", "0x1.000000000000080000001p0", "0x.0000000000000000000000000000001p124", "0x1p99999999999999999999", "0x1p-99999999999999999999", "0x0p99999999999999999999",
	"1e99999999999999999999", "1e-99999999999999999999", "0e99999999999999999999",
	"1\x00", "\x001", "1\x000", "1 1", "1 e1", "1e 1", "0 x1", "0x 1", "0X1P1", "0XA", "1E1", "1E+1", "1e+01", "00", "007", "0.0", "-0", "-0.0", "+0.0", "-.0", "-0x0", "-0x0p0", "-0x.0",
	"", " ", "-", "+", "- ", "e1", "E1", "x1", "p1", "0b1", "0o7", "1f", "1d", "1l", "1L", "1u", "0x1g", "١", "٥", "５", "1,5", "1'000", "1e５",
	"0x1.p1", "0x.1p1", "0x1.P1", "1.", "1.e1", "1.e+1", "0x1P-1", "3.", "3.e", "3e", "3e+", "3e+-1", "3e++1", "0x3p--1", "0x", "0X", "0x-1", "0x+1", "-0x-1",
	"nil", "true", "1x", "0xe+1", "0xep1", "0xep+1", "0xe.p1", "1ee1", "1e1e1", "1pp1", "0x1pp1", "0x1p1p1", "1e0x1", "1e.5", "0x1p.5", "0x1pa", "0x1pf", "1ea", "1ef",
}

// genOpnd draws integers and floats concentrated near 2^53 and 2^63.
func genOpnd() *rapid.Generator[Opnd] {
	near := func(base int64, spread int64) *rapid.Generator[int64] {
		return rapid.Map(rapid.Int64Range(-spread, spread), func(d int64) int64 { return base + d })
	}
	genInt := rapid.OneOf(
		rapid.Int64Range(-70, 70),
		near(p53, 1100), near(-p53, 1100),
		rapid.Map(rapid.Int64Range(0, 1100), func(d int64) int64 { return math.MaxInt64 - d }),
		rapid.Map(rapid.Int64Range(0, 1100), func(d int64) int64 { return math.MinInt64 + d }),
		rapid.Map(rapid.Int64Range(0, 62), func(k int64) int64 { return 1 << uint(k) }),
		rapid.Map(rapid.Int64Range(0, 63), func(k int64) int64 { return -(1 << uint(k)) }),
		rapid.Map(rapid.Int64Range(1, 62), func(k int64) int64 { return 1<<uint(k) - 1 }),
		rapid.Map(rapid.Int64Range(1, 62), func(k int64) int64 { return 1<<uint(k) + 1 }),
		near(1<<62, 3), near(1<<32, 3), near(1<<31, 3),
		rapid.Int64(),
	)
	sign := func(g *rapid.Generator[float64]) *rapid.Generator[float64] {
		return rapid.Custom(func(t *rapid.T) float64 {
			f := g.Draw(t, "f")
			if rapid.Bool().Draw(t, "neg") {
				return -f
			}
			return f
		})
	}
	genFloat := rapid.OneOf(
		rapid.Map(rapid.Int64Range(-280, 280), func(d int64) float64 { return float64(d) / 4 }),
		sign(rapid.Map(rapid.Int64Range(-1100, 1100), func(d int64) float64 { return float64(p53) + float64(d) })),
		sign(rapid.Map(rapid.Int64Range(-2200, 2200), func(d int64) float64 { return float64(p53) + float64(d)/2 })),
		sign(rapid.Map(rapid.Int64Range(-6, 6), func(d int64) float64 { return two63 + float64(d)*1024 })),
		sign(rapid.Map(rapid.Int64Range(-3, 3), func(d int64) float64 { return math.Ldexp(1, 64) + float64(d)*2048 })),
		sign(rapid.Map(rapid.Int64Range(-1074, 1023), func(k int64) float64 { return math.Ldexp(1, int(k)) })),
		sign(rapid.Map(rapid.Int64Range(0, 64), func(k int64) float64 { return math.Nextafter(math.Ldexp(1, int(k)), 0) })),
		sign(rapid.Map(rapid.Int64Range(0, 64), func(k int64) float64 { return math.Nextafter(math.Ldexp(1, int(k)), math.Inf(1)) })),
		rapid.SampledFrom([]float64{0, math.Copysign(0, -1), math.Inf(1), math.Inf(-1), math.NaN(), 1e308, -1e308, math.MaxFloat64, -math.MaxFloat64, 5e-324, -5e-324, 0.1, math.Pi, 1e15, 1e16, 1e19, 0.3, 1.0 / 3}),
		// the float nearest to a random integer (integral floats of every magnitude below 2^63)
		rapid.Map(rapid.Int64(), func(i int64) float64 { return float64(i) }),
		rapid.Float64(),
	)
	return rapid.OneOf(rapid.Map(genInt, OInt), rapid.Map(genFloat, OFloat))
}

// genNumeralString builds strings from the numeral grammar, decorates them
// with blanks and signs and mutates them.
func genNumeralString() *rapid.Generator[string] {
	digits := func(alpha string, min, max int) *rapid.Generator[string] {
		return rapid.Custom(func(t *rapid.T) string {
			n := rapid.IntRange(min, max).Draw(t, "n")
			var sb strings.Builder
			for i := 0; i < n; i++ {
				sb.WriteByte(alpha[rapid.IntRange(0, len(alpha)-1).Draw(t, "d")])
			}
			return sb.String()
		})
	}
	dec := "0123456789"
	hex := "0123456789abcdefABCDEF"
	exponent := func(marks string) *rapid.Generator[string] {
		return rapid.Custom(func(t *rapid.T) string {
			if rapid.IntRange(0, 2).Draw(t, "hasexp") == 0 {
				return ""
			}
			m := string(marks[rapid.IntRange(0, len(marks)-1).Draw(t, "mark")])
			sg := rapid.SampledFrom([]string{"", "", "+", "-"}).Draw(t, "esign")
			e := rapid.OneOf(digits(dec, 1, 2), digits(dec, 0, 4), rapid.SampledFrom([]string{"308", "309", "323", "324", "325", "1023", "1024", "1074", "1075", "1076", "400", "99999999999999999999"})).Draw(t, "edigits")
			return m + sg + e
		})
	}
	near := func(base string) *rapid.Generator[string] {
		return rapid.Custom(func(t *rapid.T) string {
			b, _ := strconv.ParseUint(base, 10, 64)
			d := rapid.Uint64Range(0, 4).Draw(t, "d")
			var v string
			switch rapid.IntRange(0, 2).Draw(t, "dir") {
			case 0:
				v = strconv.FormatUint(b-d, 10)
			case 1:
				v = strconv.FormatUint(b+d, 10) // may wrap for 2^64-1 + d: still a digit string
			default:
				// 2^64 + d
				if base == "18446744073709551615" {
					v = "1844674407370955161" + strconv.FormatUint(6+d, 10)
				} else {
					v = strconv.FormatUint(b+d, 10)
				}
			}
			return rapid.SampledFrom([]string{"", "", "0", "000"}).Draw(t, "lead") + v
		})
	}
	core := rapid.OneOf(
		digits(dec, 1, 6),
		digits(dec, 15, 24),
		near("9223372036854775808"), near("18446744073709551615"), near("9007199254740992"),
		// decimal float
		rapid.Custom(func(t *rapid.T) string {
			return digits(dec, 0, 20).Draw(t, "ip") + rapid.SampledFrom([]string{".", ".", ""}).Draw(t, "dot") + digits(dec, 0, 20).Draw(t, "fp") + exponent("eE").Draw(t, "exp")
		}),
		// hex integer
		rapid.Custom(func(t *rapid.T) string {
			return rapid.SampledFrom([]string{"0x", "0X"}).Draw(t, "pfx") + rapid.OneOf(digits(hex, 1, 8), digits(hex, 14, 24), rapid.Map(digits(hex, 1, 8), func(s string) string { return s + "0000000000000000" })).Draw(t, "hd")
		}),
		// hex float
		rapid.Custom(func(t *rapid.T) string {
			return rapid.SampledFrom([]string{"0x", "0X"}).Draw(t, "pfx") + digits(hex, 0, 18).Draw(t, "ip") + rapid.SampledFrom([]string{".", ".", ""}).Draw(t, "dot") + digits(hex, 0, 18).Draw(t, "fp") + exponent("pP").Draw(t, "exp")
		}),
		rapid.SampledFrom(numeralSpecials),
	)
	symbols := []string{"0", "1", "9", "7", "x", "X", "a", "e", "E", "p", "P", ".", "+", "-", " ", "_", "f", "F", "\t", "\v", "\f", "\n", "\r", "\x00", "\xC2\xA0", "\xE2\x80\x83", "g", "n", "i", "\xA0", "\xC2\x85", "0x"}
	blanks := []string{"", "", "", " ", "\t", "\n", "\v", "\f", "\r", "  ", " \t", "\xC2\xA0", "\xE2\x80\x83", "\x00", "\xA0", "\xE2\x80\x8B"}
	signs := []string{"", "", "", "-", "+", "+-", "-+", "++", "--", "- ", "+ "}
	return rapid.Custom(func(t *rapid.T) string {
		s := core.Draw(t, "core")
		nm := rapid.SampledFrom([]int{0, 0, 0, 1, 1, 2}).Draw(t, "nmut")
		for k := 0; k < nm; k++ {
			pos := 0
			if len(s) > 0 {
				pos = rapid.IntRange(0, len(s)).Draw(t, "pos")
			}
			switch rapid.IntRange(0, 3).Draw(t, "mut") {
			case 0: // insert
				s = s[:pos] + rapid.SampledFrom(symbols).Draw(t, "sym") + s[pos:]
			case 1: // delete
				if pos < len(s) {
					s = s[:pos] + s[pos+1:]
				}
			case 2: // replace
				if pos < len(s) {
					s = s[:pos] + rapid.SampledFrom(symbols).Draw(t, "sym") + s[pos+1:]
				}
			default: // truncate
				s = s[:pos]
			}
		}
		return rapid.SampledFrom(blanks).Draw(t, "lead") + rapid.SampledFrom(signs).Draw(t, "sign") + s + rapid.SampledFrom(blanks).Draw(t, "trail")
	})
}
