package c13

import (
	"fmt"
	"strconv"
	"strings"

	rt "github.com/arnodel/golua/runtime"

	"verif/internal/harness"
	"verif/internal/progcheck"
)

// Size sweeps for C13: the chunk is generated from (template, n); a replay
// regenerates it from the case's Note ("size:<template>:<n>").

type sizeTemplate struct {
	name string
	max  int // largest n that makes sense for the template
	gen  func(n int) string
}

func rep(s string, n int) string { return strings.Repeat(s, n) }

func seq(n int, f func(i int) string, sep string) string {
	parts := make([]string, n)
	for i := range parts {
		parts[i] = f(i + 1)
	}
	return strings.Join(parts, sep)
}

var sizeTemplates = []sizeTemplate{
	// functions nested in one another, two syntactic forms
	{"nested-return-function", 260, func(n int) string {
		return rep("return function(a) ", n) + "return 'bottom', a " + rep("end ", n)
	}},
	{"nested-local-function", 260, func(n int) string {
		s := "return 'bottom', ..."
		for i := 0; i < n; i++ {
			s = "local function f(...) " + s + " end return f(...)"
		}
		return s
	}},
	{"nested-function-upvalue-chain", 200, func(n int) string {
		// every level captures the variable of the level above
		s := "return v" + strconv.Itoa(n)
		for i := n; i >= 1; i-- {
			s = fmt.Sprintf("local v%d = v%d + 1 return (function() %s end)()", i, i-1, s)
		}
		return "local v0 = ... or 0 " + s
	}},
	// constants
	{"integer-constants", 70000, func(n int) string {
		return "local t = {" + seq(n, func(i int) string { return strconv.Itoa(1000000 + i*7) }, ",") + "} return #t, t[1], t[#t], t[(#t + 1) // 2]"
	}},
	{"float-constants", 70000, func(n int) string {
		return "local t = {" + seq(n, func(i int) string { return strconv.Itoa(i) + ".5" }, ",") + "} return #t, t[1], t[#t], math.type(t[#t])"
	}},
	{"string-constants", 70000, func(n int) string {
		return "local t = {" + seq(n, func(i int) string { return `"s` + strconv.Itoa(i) + `\0z"` }, ",") + "} return #t, t[1], t[#t], #t[#t]"
	}},
	{"long-string-constant", 1 << 20, func(n int) string {
		return `local s = "` + rep("ab\\0", n) + `" return #s, s:sub(1, 3), s:sub(-3)`
	}},
	{"sibling-functions", 70000, func(n int) string {
		return "local t = {" + seq(n, func(i int) string { return "function() return " + strconv.Itoa(i) + " end" }, ",") + "} return #t, t[1](), t[#t]()"
	}},
	// variables
	{"locals", 260, func(n int) string {
		return "local " + seq(n, func(i int) string { return "a" + strconv.Itoa(i) }, ",") + " = " + seq(n, func(i int) string { return strconv.Itoa(i) }, ",") +
			" return a1, a" + strconv.Itoa(n) + ", a" + strconv.Itoa((n+1)/2)
	}},
	{"upvalues", 260, func(n int) string {
		return "local " + seq(n, func(i int) string { return "a" + strconv.Itoa(i) }, ",") + " = " + seq(n, func(i int) string { return strconv.Itoa(i) }, ",") +
			" local function f() return " + seq(n, func(i int) string { return "a" + strconv.Itoa(i) }, "+") + " end a1 = 100 return f(), a1"
	}},
	{"parameters", 260, func(n int) string {
		return "local function f(" + seq(n, func(i int) string { return "p" + strconv.Itoa(i) }, ",") + ", ...) return p1, p" + strconv.Itoa(n) + ", select('#', ...) end return f(" +
			seq(n+3, func(i int) string { return strconv.Itoa(i) }, ",") + ")"
	}},
	{"call-arguments", 70000, func(n int) string {
		return "return select('#', " + seq(n, func(i int) string { return strconv.Itoa(i) }, ",") + ")"
	}},
	{"return-values", 70000, func(n int) string {
		return "local function f() return " + seq(n, func(i int) string { return strconv.Itoa(i) }, ",") + " end return select('#', f()), (select(-1, f()))"
	}},
	// code length: jumps over and back across n statements
	{"loop-body-statements", 70000, func(n int) string {
		return "local x = 0 for i = 1, 2 do if i == 3 then x = -1 else " + rep("x = x + 1 ", n) + "end end return x"
	}},
	{"if-chain", 20000, func(n int) string {
		return "local v, r = ... or " + strconv.Itoa(n) + " if v == 0 then r = 0 " + seq(n, func(i int) string { return "elseif v == " + strconv.Itoa(i) + " then r = " + strconv.Itoa(i*2) }, " ") + " else r = -1 end return r"
	}},
	{"goto-across-statements", 70000, func(n int) string {
		return "local x = 0 goto skip " + "::back:: do return x end " + "::skip:: " + rep("x = x + 1 ", n) + "goto back"
	}},
	{"nested-blocks", 260, func(n int) string {
		return rep("do local x = 1 ", n) + "return 'deep' " + rep("end ", n)
	}},
	{"nested-loops", 260, func(n int) string {
		return "local c = 0 " + rep("for i = 1, 1 do ", n) + "c = c + 1 " + rep("end ", n) + "return c"
	}},
	{"nested-tables", 260, func(n int) string {
		return "local t = " + rep("{", n) + "1" + rep("}", n) + " local d = 0 while type(t) == 'table' do t = t[1] d = d + 1 end return d, t"
	}},
	{"nested-parentheses", 260, func(n int) string {
		return "return " + rep("(", n) + "1" + rep(")", n)
	}},
	{"operator-chain", 70000, func(n int) string {
		return "local a = 1 return a" + rep(" + a", n)
	}},
	{"concat-chain", 20000, func(n int) string {
		return "local a = 'x' return #(a" + rep(" .. a", n) + ")"
	}},
	{"unary-operators", 20000, func(n int) string {
		return "local a, t = 1, {} " + seq(n, func(i int) string { return "t[" + strconv.Itoa(i) + "] = -a" }, " ") + " return #t, t[#t]"
	}},
	{"unary-operator-stack", 260, func(n int) string {
		return "local a = 1 return " + rep("- ", n) + "a, " + rep("not ", n) + "a"
	}},
	// line information survives the dump: a runtime error and error() on line n
	{"error-on-line", 70000, func(n int) string {
		return rep("\n", n-1) + "local t = nil return t.x"
	}},
	{"error-call-on-line", 70000, func(n int) string {
		return rep("\n", n-1) + "error('on line n')"
	}},
	{"error-in-nested-function-on-line", 70000, func(n int) string {
		return "local function f()" + rep("\n", n-1) + "error('in f') end return pcall(f)"
	}},
	// varargs and closures over loop variables
	{"vararg-through-dump", 250, func(n int) string {
		return "local function f(...) return select('#', ...), ... end return f(" + seq(n, func(i int) string { return strconv.Itoa(i) }, ",") + ")"
	}},
	{"closures-in-loop", 5000, func(n int) string {
		return "local fs = {} for i = 1, " + strconv.Itoa(n) + " do local j = i * 2 fs[i] = function() j = j + 1 return i + j end end local s = 0 for i = 1, #fs do s = s + fs[i]() + fs[i]() end return s"
	}},
}

// sizeSweep returns the values of n to try: small ones, everything around the
// powers of two and the round limits implementations tend to have, up to max.
func sizeSweep(max int, thorough bool) []int {
	var out []int
	seen := map[int]bool{}
	add := func(n int) {
		if n >= 1 && n <= max && !seen[n] {
			seen[n] = true
			out = append(out, n)
		}
	}
	for n := 1; n <= 4; n++ {
		add(n)
	}
	for _, c := range []int{10, 50, 99, 100, 101, 127, 128, 150, 190, 198, 199, 200, 201, 249, 250, 251, 254, 255, 256, 257, 511, 512, 1000, 4095, 4096, 32767, 32768, 32769, 65535, 65536, 65537, 70000, 1 << 20} {
		add(c)
	}
	if thorough {
		for n := 5; n <= 300 && n <= max; n++ {
			add(n)
		}
		for _, c := range []int{16383, 16384, 16385, 50000, 65534, 69999, 1 << 18} {
			add(c)
		}
	}
	return out
}

const sizeDriver = `local SRC, viaDump = ...
local f, cerr = load(SRC, "chunk", "t")
if not f then return "compile-error", (tostring(cerr):gsub("^.-:%d+:", "")) end
if viaDump then
  local d = string.dump(f)
  local g, lerr = load(d, "reloaded", "b")
  if not g then return "load-of-dump-failed", lerr end
  if string.dump(g) ~= d then return "dump-of-reloaded-differs" end
  f = g
end
local function descend(ok, v, ...)
  while ok and type(v) == "function" do return descend(pcall(v, 7)) end
  return ok, v, ...
end
return descend(pcall(f, 7))`

func runSize(src string, viaDump bool) *harness.Trace {
	return harness.Run(sizeDriver, harness.Opts{ChunkName: "driver", CPU: 2_000_000_000, Args: func(r *rt.Runtime, cn *harness.Canon) []rt.Value {
		return []rt.Value{rt.StringValue(src), rt.BoolValue(viaDump)}
	}})
}

// checkSize: the chunk run through dump+load behaves like the chunk run
// directly (same values or the same error, message and line included).
func checkSize(c progcheck.Case) string {
	src := c.Source
	if src == "" {
		parts := strings.Split(c.Note, ":")
		if len(parts) != 3 {
			return "bad size case " + c.Note
		}
		n, _ := strconv.Atoi(parts[2])
		for _, tpl := range sizeTemplates {
			if tpl.name == parts[1] {
				src = tpl.gen(n)
			}
		}
	}
	direct := runSize(src, false)
	dumped := runSize(src, true)
	for _, tr := range []*harness.Trace{direct, dumped} {
		if tr.Panic != "" {
			return "Go panic: " + tr.Panic
		}
	}
	if direct.Killed || dumped.Killed {
		if direct.Killed != dumped.Killed {
			return fmt.Sprintf("one route ran out of the CPU safety net and the other did not (direct killed=%v, via dump killed=%v)", direct.Killed, dumped.Killed)
		}
		return ""
	}
	if direct.Rets != dumped.Rets || direct.ErrTok != dumped.ErrTok {
		return fmt.Sprintf("the chunk run directly and the chunk run through string.dump+load differ:\n  direct:   returns %s error %q\n  via dump: returns %s error %q", clipSrc(direct.Rets), direct.ErrTok, clipSrc(dumped.Rets), dumped.ErrTok)
	}
	return ""
}

func clipSrc(s string) string {
	if len(s) > 600 {
		return s[:300] + " …[" + strconv.Itoa(len(s)-600) + " bytes]… " + s[len(s)-300:]
	}
	return s
}

// Upvalues of a reloaded function: "Other upvalues are initialized with nil.
// All upvalues are fresh, that is, they are not shared with any other
// function" (manual, load) — nor with each other. A function with k upvalues
// besides _ENV that counts in each of them is dumped, reloaded and called
// twice; the values it returns are computed here.
func upvalueCase(k int) (src, want string) {
	names := seq(k, func(i int) string { return "u" + strconv.Itoa(i) }, ", ")
	var sb strings.Builder
	sb.WriteString("local " + names + "\n")
	sb.WriteString("local function f(n)\n  local ty = type\n")
	for i := 1; i <= k; i++ {
		fmt.Fprintf(&sb, "  u%d = (u%d or 0) + n * %d\n", i, i, i)
	}
	sb.WriteString("  return " + names + "\nend\n")
	sb.WriteString("local g = assert(load(string.dump(f)))\n")
	sb.WriteString("g(1)\nlocal r = table.pack(g(1))\n")
	// the original's variables are untouched, the reloaded upvalues are pairwise distinct
	sb.WriteString("local untouched = true for i, v in ipairs({" + names + "}) do untouched = false end\n")
	sb.WriteString("local ids, distinct = {}, true for i = 1, 300 do local name = debug.getupvalue(g, i) if not name then break end local id = debug.upvalueid(g, i) if ids[id] then distinct = false end ids[id] = true end\n")
	sb.WriteString("f(5)\nlocal again = table.pack(g(0))\n")
	sb.WriteString("local same = true for i = 1, r.n do if r[i] ~= again[i] then same = false end end\n")
	sb.WriteString("return untouched, distinct, same, r.n, table.unpack(r, 1, r.n)\n")
	w := []string{"true", "true", "true", "i:" + strconv.Itoa(k)}
	for i := 1; i <= k; i++ {
		w = append(w, "i:"+strconv.Itoa(2*i))
	}
	return sb.String(), strings.Join(w, " ")
}

func checkUpvalues(k int) string {
	src, want := upvalueCase(k)
	tr := harness.Run(src, harness.Opts{ChunkName: "chunk"})
	if tr.Panic != "" {
		return "Go panic: " + tr.Panic
	}
	if tr.ErrTok != "" || tr.CompileErr != "" {
		return fmt.Sprintf("error %s %s", tr.ErrTok, tr.CompileErr)
	}
	if tr.Rets != want {
		return fmt.Sprintf("a reloaded function with %d upvalues that counts in each of them, called twice: expected (original untouched, upvalue ids distinct, unaffected by the original, n, values) = %s, golua returns %s", k, clipSrc(want), clipSrc(tr.Rets))
	}
	return ""
}
