package c13

import (
	"encoding/json"
	"fmt"
	"strconv"
	"strings"
	"testing"

	"github.com/arnodel/golua/lib"
	rt "github.com/arnodel/golua/runtime"
	"pgregory.net/rapid"

	"verif/internal/ev"
	"verif/internal/harness"
	"verif/internal/luagen"
	"verif/internal/mlua"
	. "verif/internal/pbt"
	"verif/internal/progcheck"
)

// C13 — string.dump followed by load reproduces the function.

// viaDumpDriver loads the program text, dumps the chunk function, loads the
// dump and runs that with the program's arguments.
const viaDumpDriver = `local SRC = ...
local f = assert(load(SRC, "chunk", "t"))
local g = assert(load(string.dump(f), "reloaded", "b"))
return g(select(2, ...))`

const determinismDriver = `local SRC = ...
local f = assert(load(SRC, "chunk", "t"))
local d1, d2 = string.dump(f), string.dump(f)
local g = assert(load(d1, "reloaded", "b"))
local d3 = string.dump(g)
local d4 = string.dump(assert(load(SRC, "chunk", "t")))
return d1 == d2, d1 == d3, d1 == d4, #d1 > 0`

const redumpPrelude = `function redump(f) return assert(load(string.dump(f), "redumped", "b")) end`

func withSrcArg(c progcheck.Case) func(r *rt.Runtime, cn *harness.Canon) []rt.Value {
	inner := progcheck.GoluaArgs(c.Args)
	return func(r *rt.Runtime, cn *harness.Canon) []rt.Value {
		return append([]rt.Value{rt.StringValue(c.Source)}, inner(r, cn)...)
	}
}

// runRoute runs c.Source through the route named by c.Note.
func runRoute(c progcheck.Case) *harness.Trace {
	switch c.Note {
	case "via-dump":
		return harness.Run(viaDumpDriver, harness.Opts{ChunkName: "driver", Args: withSrcArg(c)})
	case "determinism":
		return harness.Run(determinismDriver, harness.Opts{ChunkName: "driver", Args: withSrcArg(c)})
	default: // "redump": closed function literals wrapped in redump(...)
		return progcheck.RunGolua(c, harness.Opts{Setup: func(r *rt.Runtime, env *rt.Table, tr *harness.Trace, cn *harness.Canon) {
			clos, err := r.CompileAndLoadLuaChunk("prelude", []byte(redumpPrelude), rt.TableValue(r.GlobalEnv()))
			if err != nil {
				panic(err)
			}
			if err := rt.Call(r.MainThread(), rt.FunctionValue(clos), nil, rt.NewTerminationWith(nil, 0, false)); err != nil {
				panic(err)
			}
		}})
	}
}

var _ = lib.LoadAll

var recompileDiffers int

func checkRoute(c progcheck.Case) string {
	tr := runRoute(c)
	if c.Note == "determinism" {
		if tr.Panic != "" {
			return "Go panic: " + tr.Panic
		}
		if tr.ErrTok != "" {
			return "dump/load failed: " + tr.ErrTok
		}
		// the third value (an independent second compilation dumps to the same
		// bytes) is stronger than the property and only recorded
		if !strings.HasPrefix(tr.Rets, "true true ") || !strings.HasSuffix(tr.Rets, " true") {
			return fmt.Sprintf("dumping is not deterministic / not stable under reload: (dump==dump, dump(load(dump))==dump, dump of a second compilation==dump, non-empty) = (%s)", tr.Rets)
		}
		if tr.Rets != "true true true true" {
			recompileDiffers++
		}
		return ""
	}
	return progcheck.Compare(c.Expected, tr)
}

type scan struct{ funcs, ints, floats, strs int }

func scanBlock(b []mlua.Stmt) scan {
	var s scan
	cp := mlua.CloneBlockHook(b, func(orig, clone *mlua.Func) mlua.Expr { s.funcs++; return clone })
	src, _ := mlua.Render(cp, nil)
	// cheap lexical scan of the canonical rendering for constant kinds
	for _, tok := range strings.Fields(src) {
		switch {
		case tok[0] == '"':
			s.strs++
		case tok[0] >= '0' && tok[0] <= '9' && strings.ContainsAny(tok, ".ep") && !strings.HasPrefix(tok, "0x"):
			s.floats++
		case tok[0] >= '0' && tok[0] <= '9':
			s.ints++
		}
	}
	return s
}

func TestC13(t *testing.T) {
	rec := ev.New("C13")
	defer Finish(t, rec)
	rec.Rule("rapid-generated MiniLua programs (closure-heavy profile: nested functions, varargs, constants of every type incl. mininteger, -0.0, inf, NaN expressions, short and long strings with NUL bytes, upvalue layouts) with a drawn argument tuple, each checked through three routes: (R1) load(string.dump(load(src))) run with the same arguments must produce the model's trace (events, results, error values and chunk:line: positions); (R2) the program with every function literal that has no free local variable wrapped in redump(f) = load(string.dump(f)) must produce the model's trace; (R3) string.dump(f) == string.dump(f), string.dump(load(string.dump(f))) == string.dump(f), (whether an independent second compilation dumps to the same bytes is recorded but not required). Plus size sweeps (chunks built by construction, swept across the compiler's and the dump format's limits, run directly and through dump+load), upvalue freshness of reloaded functions, and interrupted dumps: string.dump(f) under a x1.125 ladder of CPU and memory limits (the kill point moves through every phase of the dump), after every attempt dumps of f and of a small function must be byte-identical to what they were. Oracle: reference interpreter (R1, R2), byte equality (R3). Non-trivial: the chunk contains >= 1 nested function and integer, float and string constants; distinct by program text + arguments.")
	rec.Assume("only dumps produced by golua itself are loaded (hand-made binary chunks are outside the property)")
	progcheck.ApplyKnownFindings(rec)

	if rec.Replay != "" {
		rf, err := rec.LoadReplay()
		if err != nil {
			t.Fatal(err)
		}
		var c progcheck.Case
		if err := json.Unmarshal(rf.Case, &c); err != nil {
			t.Fatal(err)
		}
		rec.Eval()
		if strings.HasPrefix(c.Note, "upvalues:") {
			k, _ := strconv.Atoi(strings.TrimPrefix(c.Note, "upvalues:"))
			if msg := checkUpvalues(k); msg != "" {
				rec.Violation("upvalues", c, msg)
			}
			return
		}
		if strings.HasPrefix(c.Note, "residue:") {
			parts := strings.Split(c.Note, ":")
			n, _ := strconv.Atoi(parts[len(parts)-1])
			if msg, _ := checkResidue(parts[1], n); msg != "" {
				rec.Violation("residue", c, msg)
			}
			return
		}
		if strings.HasPrefix(c.Note, "size:") {
			if msg := checkSize(c); msg != "" {
				rec.Violation("size", c, msg)
			}
			return
		}
		if msg := checkRoute(c); msg != "" {
			rec.Violation("program", c, msg)
		}
		return
	}

	defer func() { rec.Set("n_recompilation_dumps_differ", float64(recompileDiffers)) }()

	// size sweeps: chunks built by construction whose size along one dimension
	// (function nesting, constants, upvalues, code length, line numbers, ...)
	// is swept across the compiler's and the dump format's limits; the chunk
	// run directly must behave like the chunk run through dump and load
	idx := 0
	for _, tpl := range sizeTemplates {
		for _, n := range sizeSweep(tpl.max, rec.Thorough()) {
			idx++
			if !rec.Mine(idx) {
				continue
			}
			// the source is regenerated from the note on replay
			c := progcheck.Case{Note: "size:" + tpl.name + fmt.Sprintf(":%d", n)}
			rec.Eval()
			rec.Class("size:" + tpl.name)
			if n >= 64 {
				rec.NonTrivial(c.Note)
			}
			if msg := checkSize(c); msg != "" {
				rec.Violation("size", c, fmt.Sprintf("%s with n=%d: %s\n--- chunk ---\n%s", tpl.name, n, msg, clipSrc(tpl.gen(n))))
				return
			}
		}
	}

	// reloaded functions with upvalues: fresh, nil-initialised, pairwise distinct
	for _, k := range []int{1, 2, 3, 4, 5, 8, 16, 50, 100, 200} {
		idx++
		if !rec.Mine(idx) {
			continue
		}
		rec.Eval()
		rec.Class("upvalues-of-reloaded-function")
		rec.NonTrivial(fmt.Sprint("upvalues:", k))
		if msg := checkUpvalues(k); msg != "" {
			src, _ := upvalueCase(k)
			rec.Violation("upvalues", progcheck.Case{Note: fmt.Sprintf("upvalues:%d", k)}, msg+"\n--- chunk ---\n"+clipSrc(src))
			return
		}
	}

	// dumps interrupted by a quota leave nothing behind
	for _, rtpl := range residueTemplates {
		idx++
		if !rec.Mine(idx) {
			continue
		}
		rec.Eval()
		rec.Class("residue-after-killed-dump")
		msg, killed := checkResidue(rtpl.name, rtpl.n)
		if killed >= 10 {
			rec.NonTrivial(fmt.Sprint("residue:", rtpl.name, rtpl.n))
		}
		if msg != "" {
			rec.Violation("residue", progcheck.Case{Note: fmt.Sprintf("residue:%s:%d", rtpl.name, rtpl.n)}, fmt.Sprintf("%s with n=%d: %s", rtpl.name, rtpl.n, msg))
			return
		}
	}

	ShrinkTime = "1ms"
	prof := luagen.General
	prof.Name, prof.Closures, prof.Varargs, prof.Coroutines = "closures", 14, 8, 2
	RunRapid(rec, "C13/programs", rec.Pick(500, 12000), 0, func(t *rapid.T) {
		prog := luagen.Generate(t, prof)
		specs := progcheck.ArgSpecs(prog.Args)
		src, lines := mlua.Render(prog.Block, nil)
		res := progcheck.Model(prog.Block, lines, specs)
		if res.Unspecified != "" || res.Budget || res.OrderSensitive {
			rec.Discard("unspecified/budget")
			return
		}
		exp := progcheck.ExpectedOf(res)
		sc := scanBlock(prog.Block)
		if sc.funcs >= 1 && sc.ints > 0 && sc.floats > 0 && sc.strs > 0 {
			rec.NonTrivial(src + "\x00" + strings.Join(specs, "\x00"))
		}
		if sc.funcs >= 3 {
			rec.Class("nested-functions>=3")
		}
		rec.Sample(map[string]any{"source": src, "args": specs, "functions": sc.funcs})

		fail := func(route string, block []mlua.Stmt, c progcheck.Case, msg string) {
			// reduce on the AST while this route keeps failing
			if block != nil {
				cur := mlua.CloneBlock(block)
				still := func() (string, progcheck.Case) {
					defer func() { recover() }()
					s, l := mlua.Render(cur, nil)
					r := progcheck.Model(cur, l, specs)
					if r.Unspecified != "" || r.Budget || r.OrderSensitive {
						return "", progcheck.Case{}
					}
					cc := progcheck.Case{Source: s, Args: specs, Expected: progcheck.ExpectedOf(r), Note: route}
					return checkRoute(cc), cc
				}
				tests := 0
				for changed := true; changed && tests < 800; {
					changed = false
					for _, bp := range mlua.Blocks(&cur) {
						for i := len(*bp) - 1; i >= 0 && tests < 800; i-- {
							if i >= len(*bp) {
								continue
							}
							old := *bp
							*bp = append(append([]mlua.Stmt{}, old[:i]...), old[i+1:]...)
							tests++
							if m, _ := still(); m != "" {
								changed = true
								continue
							}
							*bp = old
						}
						if changed {
							break
						}
					}
				}
				if m, cc := still(); m != "" {
					FailCase(t, "program", cc, "route %s: %s\n--- program (reduced) ---\n%s--- args: %v", route, m, progcheck.Numbered(cc.Source), specs)
				}
			}
			FailCase(t, "program", c, "route %s: %s\n--- program ---\n%s--- args: %v", route, msg, progcheck.Numbered(c.Source), specs)
		}

		// R1
		c1 := progcheck.Case{Source: src, Args: specs, Expected: exp, Note: "via-dump"}
		rec.Eval()
		rec.Class("route:via-dump")
		if msg := checkRoute(c1); msg != "" {
			fail("via-dump", prog.Block, c1, msg)
		}
		// R3
		c3 := progcheck.Case{Source: src, Args: nil, Note: "determinism"}
		rec.Eval()
		rec.Class("route:determinism")
		if msg := checkRoute(c3); msg != "" {
			fail("determinism", nil, c3, msg)
		}
		// R2
		closed := mlua.ClosedFuncs(prog.Block)
		nwrapped := 0
		wrapped := mlua.CloneBlockHook(prog.Block, func(orig, clone *mlua.Func) mlua.Expr {
			if closed[orig] {
				nwrapped++
				return mlua.C(mlua.N("redump"), clone)
			}
			return clone
		})
		if nwrapped > 0 {
			src2, lines2 := mlua.Render(wrapped, nil)
			res2 := progcheck.Model(wrapped, lines2, specs)
			if res2.Unspecified == "" && !res2.Budget {
				c2 := progcheck.Case{Source: src2, Args: specs, Expected: progcheck.ExpectedOf(res2), Note: "redump"}
				rec.Eval()
				rec.Class("route:redump")
				rec.ClassN("redump-wrapped-functions", int64(nwrapped))
				if msg := checkRoute(c2); msg != "" {
					fail("redump", wrapped, c2, msg)
				}
			}
		}
	})
}
