package c13

import (
	"fmt"

	rt "github.com/arnodel/golua/runtime"

	"verif/internal/harness"
)

// Interrupted dumps leave nothing behind: "dumping is deterministic" also
// after a string.dump that was cut short by a quota. The driver dumps f under
// a ladder of CPU and memory limits (x1.125 per step, so that the kill point
// moves through every phase of the dump, the serialisation of the constants
// included) and after EVERY attempt dumps f and a small function again, which
// must give the bytes they gave before.

const residueDriver = `local SRC = ...
local f = assert(load(SRC, "chunk", "t"))
local tiny = load("return 1")
local clean, small = string.dump(f), string.dump(tiny)
local killed = 0
for _, res in ipairs{"memory", "cpu"} do
  local lim = 40
  while lim < 400000000 do
    local ctx = runtime.callcontext({kill = {[res] = lim}}, function() return string.dump(f) end)
    local d1, d2 = string.dump(tiny), string.dump(f)
    if d1 ~= small then return "residue", res, lim, "a small function's dump changed", #d1, #small end
    if d2 ~= clean then return "residue", res, lim, "the same function's dump changed", #d2, #clean end
    local g = load(d2, "reloaded", "b")
    if not g then return "residue", res, lim, "the dump no longer loads" end
    if ctx.status ~= "killed" then break end
    killed = killed + 1
    lim = lim + math.max(1, lim // 8)
  end
end
return "clean", killed`

var residueTemplates = []struct {
	name string
	n    int
}{
	{"long-string-constant", 60000}, {"long-string-constant", 3000}, {"string-constants", 1500}, {"integer-constants", 2000}, {"float-constants", 2000},
	{"sibling-functions", 300}, {"nested-return-function", 120}, {"operator-chain", 3000}, {"loop-body-statements", 2000}, {"closures-in-loop", 200}, {"error-on-line", 3000},
}

func residueSource(name string, n int) string {
	for _, tpl := range sizeTemplates {
		if tpl.name == name {
			return tpl.gen(n)
		}
	}
	return ""
}

func checkResidue(name string, n int) (msg string, killed int64) {
	src := residueSource(name, n)
	tr := harness.Run(residueDriver, harness.Opts{ChunkName: "driver", CPU: 4_000_000_000, Args: func(r *rt.Runtime, cn *harness.Canon) []rt.Value {
		return []rt.Value{rt.StringValue(src)}
	}})
	if tr.Panic != "" {
		return "Go panic: " + tr.Panic, 0
	}
	if tr.Killed || tr.ErrTok != "" {
		return fmt.Sprintf("the driver did not finish: killed=%v error=%s", tr.Killed, tr.ErrTok), 0
	}
	if len(tr.RetList) >= 1 && tr.RetList[0] == `s:"clean"` {
		if len(tr.RetList) >= 2 {
			fmt.Sscanf(tr.RetList[1], "i:%d", &killed)
		}
		return "", killed
	}
	return fmt.Sprintf("after a string.dump that was cut short by a quota, dumps are no longer what they were: %s", tr.Rets), 0
}
