package c06

import (
	"encoding/json"
	"fmt"
	"reflect"
	"runtime"
	"strings"
	"testing"
	"time"

	rt "github.com/arnodel/golua/runtime"
	"pgregory.net/rapid"

	"verif/internal/ev"
	"verif/internal/harness"
	"verif/internal/luagen"
	"verif/internal/mlua"
	. "verif/internal/pbt"
	"verif/internal/progcheck"
)

// C06 — a memory limit bounds accounted and real allocation.

type memCase struct {
	Source string   `json:"source"`
	Args   []string `json:"args"`
	Mem    uint64   `json:"mem"`
	CPU    uint64   `json:"cpu,omitempty"`
	Kind   string   `json:"kind"` // "program" | "amplify" | "pairing"
	Name   string   `json:"name,omitempty"`
}

const hugeMem = 1 << 40

type obs struct {
	tr       *harness.Trace
	overrun  string // used memory seen >= limit at some event
	allocMiB float64
}

func run(c memCase, mem uint64) obs {
	var o obs
	// heap growth caused by the call: peak of HeapAlloc sampled while it runs,
	// above the level before the call (not the cumulative TotalAlloc: a program
	// may legitimately churn memory within its limit)
	runtime.GC()
	var ms0 runtime.MemStats
	runtime.ReadMemStats(&ms0)
	var peak uint64
	stop := make(chan struct{})
	sampled := make(chan struct{})
	if c.Kind == "amplify" {
		go func() {
			defer close(sampled)
			var ms runtime.MemStats
			tick := time.NewTicker(2 * time.Millisecond)
			defer tick.Stop()
			for {
				select {
				case <-stop:
					return
				case <-tick.C:
					runtime.ReadMemStats(&ms)
					if ms.HeapAlloc > peak {
						peak = ms.HeapAlloc
					}
				}
			}
		}()
	} else {
		close(sampled)
	}
	mc := c
	mc.Mem = mem
	if mc.Kind == "" {
		mc.Kind = "intercept"
	}
	progcheck.SkipInflight = true
	progcheck.MarkInflight(mc.Kind, mc)
	o.tr = progcheck.RunGolua(progcheck.Case{Source: c.Source, Args: c.Args}, harness.Opts{Mem: mem, CPU: c.CPU, EventHook: func(r *rt.Runtime, e string) {
		u := r.UsedResources().Memory
		if mem > 0 && u >= mem && o.overrun == "" {
			o.overrun = fmt.Sprintf("accounted memory %d >= limit %d at event %s", u, mem, e)
		}
		// retention templates report a lower bound of what they keep alive
		// (payload bytes of strings reachable from a live table)
		if strings.HasPrefix(e, `s:"retained" i:`) && o.overrun == "" && mem > 0 {
			var kept uint64
			fmt.Sscanf(e[len(`s:"retained" i:`):], "%d", &kept)
			// what nested contexts use is charged to their parents only when
			// they are popped: add up the whole chain
			u = 0
			for ctx := r.RuntimeContext(); ctx != nil && !reflect.ValueOf(ctx).IsNil(); ctx = ctx.Parent() {
				u += ctx.UsedResources().Memory
			}
			if kept > 65536 && u < kept/4 {
				o.overrun = fmt.Sprintf("the program provably keeps %d bytes alive but only %d are accounted to its context (limit %d): accounting has lost memory that is still in use", kept, u, mem)
			}
		}
	}})
	close(stop)
	<-sampled
	if peak > ms0.HeapAlloc {
		o.allocMiB = float64(peak-ms0.HeapAlloc) / (1 << 20)
	}
	return o
}

func runWatched(c memCase, mem uint64, d time.Duration) (obs, bool) {
	done := make(chan obs, 1)
	go func() { done <- run(c, mem) }()
	select {
	case o := <-done:
		return o, false
	case <-time.After(d):
		select {
		case o := <-done:
			return o, false
		case <-time.After(d):
			return obs{}, true
		}
	}
}

func isPrefix(a, b []string) bool {
	if len(a) > len(b) {
		return false
	}
	for i := range a {
		if a[i] != b[i] {
			return false
		}
	}
	return true
}

func basic(o obs, mem uint64) string {
	tr := o.tr
	if tr.Panic != "" {
		return "Go panic: " + tr.Panic
	}
	if o.overrun != "" {
		return o.overrun
	}
	if tr.UsedMem >= mem {
		return fmt.Sprintf("accounted memory %d reached the limit %d at the end (status %s)", tr.UsedMem, mem, tr.Status)
	}
	if tr.UsedMem > 1<<62 {
		return fmt.Sprintf("memory counter wrapped below zero: %d", tr.UsedMem)
	}
	return ""
}

// checkProgram runs the program under an increasing ladder of limits.
func checkProgram(c memCase, ladder []uint64) (string, int, int) {
	ref := run(c, hugeMem)
	if ref.tr.Panic != "" {
		return "Go panic without a limit: " + ref.tr.Panic, 0, 0
	}
	if ref.tr.Killed || ref.tr.CompileErr != "" {
		return "", 0, 0
	}
	if again := run(c, hugeMem); again.tr.Rets != ref.tr.Rets || again.tr.ErrTok != ref.tr.ErrTok || strings.Join(again.tr.Events, "\n") != strings.Join(ref.tr.Events, "\n") {
		// the program's own output varies between runs (an address in a string): relations not applicable
		return "", 0, 0
	}
	seenDone := false
	killed, done := 0, 0
	for _, m := range ladder {
		o := run(c, m)
		if msg := basic(o, m); msg != "" {
			return fmt.Sprintf("under memory limit %d: %s", m, msg), killed, done
		}
		tr := o.tr
		if !isPrefix(tr.Events, ref.tr.Events) {
			return fmt.Sprintf("events under memory limit %d are not a prefix of the unlimited run's events (a kill was intercepted or behaviour depends on the limit):\n  limited:   %v\n  unlimited: %v", m, tr.Events, ref.tr.Events), killed, done
		}
		if tr.Killed {
			killed++
			if seenDone {
				return fmt.Sprintf("not monotone: the program completes under a smaller limit but is killed under %d", m), killed, done
			}
		} else {
			done++
			seenDone = true
			if len(tr.Events) != len(ref.tr.Events) || tr.Rets != ref.tr.Rets || tr.ErrTok != ref.tr.ErrTok {
				return fmt.Sprintf("not killed under memory limit %d but results differ from the unlimited run (the termination was intercepted): events %d vs %d, returns %q vs %q, error %q vs %q", m, len(tr.Events), len(ref.tr.Events), tr.Rets, ref.tr.Rets, tr.ErrTok, ref.tr.ErrTok), killed, done
			}
		}
	}
	return "", killed, done
}

// amplification templates: N is substituted.
var amplify = []struct{ name, src string }{
	{"rep", `return #string.rep("x", N)`},
	{"rep-sep", `return #string.rep("ab", N, ", ")`},
	{"rep-in-pcall-loop", `local n = 0 for i = 1, 50 do local ok = pcall(string.rep, "x", N) if not ok then n = n + 1 end end emit("refused", n) return n`},
	{"concat-doubling", `local s = "x" for i = 1, 64 do s = s .. s if #s > N then break end end return #s`},
	{"table-growth", `local t = {} for i = 1, N do t[i] = i end return #t`},
	{"table-hash-growth", `local t = {} for i = 1, N do t["k" .. i] = i end return i`},
	{"vararg-list", `return select("#", table.unpack({}, 1, N))`},
	{"table-pack", `return table.pack(table.unpack({}, 1, N)).n`},
	{"vararg-recursion-live", `local function f(n, ...) if n == 0 then return select("#", ...) end return 1 + f(n - 1, n, ...) end return f(N)`},
	{"vararg-prefix-expansion", `local function g(...) return ... end local function f(n, ...) if n == 0 then return select("#", ...) end return 1 + f(n - 1, n, g(...)) end return f(N)`},
	{"vararg-return-prefix", `local function f(n, ...) if n == 0 then return ... end return n, f(n - 1, n, ...) end return select("#", f(N))`},
	{"vararg-table-from-calls", `local function three() return 1, 2, 3 end local t = {} for i = 1, N do t[i] = {i, three()} end return #t`},
	{"table-concat", `local t = {} for i = 1, 1000 do t[i] = ("x"):rep(100) end local parts = {} for i = 1, N do parts[i] = table.concat(t) end return #parts`},
	{"string-format", `return #string.format("%" .. math.min(N, 99) .. "s", "x")`},
	{"closures", `local fs = {} for i = 1, N do fs[i] = function() return i end end return #fs`},
	{"coroutines", `local cs = {} for i = 1, N do cs[i] = coroutine.create(function() coroutine.yield() end) coroutine.resume(cs[i]) end return #cs`},
	{"load-chunks", `local fs = {} for i = 1, N do fs[i] = load("return " .. i) end return #fs`},
	{"load-big-source", `return load("return {" .. ("1,"):rep(math.min(N, 1 << 22)) .. "}")`},
	{"load-syntax-errors", `local n = 0 for i = 1, math.min(N, 5000) do if not load("return +" .. i .. " +") then n = n + 1 end end return n`},
	{"deep-recursion", `local function d(n) if n == 0 then return 0 end return 1 + d(n - 1) end return d(N)`},
	{"string-keys", `local t = {} for i = 1, N do t[i] = tostring(i) .. ("y"):rep(50) end return #t`},
	{"gsub-expansion", `return #((("x"):rep(math.min(N, 1 << 20))):gsub("x", ("y"):rep(100)))`},
	{"utf8-char", `local t = {} for i = 1, math.min(N, 1 << 16) do t[i] = 65 end return #utf8.char(table.unpack(t))`},
	{"string-dump", `local fs = {} local f = load("return " .. ("1+"):rep(1000) .. "1") for i = 1, N do fs[i] = string.dump(f) end return #fs`},
	{"pack", `return #string.pack("s", ("x"):rep(math.min(N, 1 << 26)))`},
	{"table-insert-front", `local t = {} for i = 1, math.min(N, 3000) do table.insert(t, 1, ("z"):rep(1000)) end return #t`},
	{"xpcall-retry-alloc", `local kept = {} for round = 1, 100 do xpcall(function() for i = 1, N do kept[#kept + 1] = ("k"):rep(1000) end end, function(m) return m end) end return #kept`},
	// virtual tables: the range arguments are program-chosen 64-bit integers and
	// the elements come from metamethods, so the range can really be that long
	{"concat-virtual-separator", `local t = setmetatable({}, {__index = function() return "" end}) return pcall(table.concat, t, ("-"):rep(16), 1, N)`},
	{"concat-virtual-items", `local t = setmetatable({}, {__index = function(_, k) return "0123456789abcdef" end}) return pcall(table.concat, t, "", -N, 0)`},
	{"concat-virtual-numbers", `local t = setmetatable({}, {__index = function(_, k) return k end}) return pcall(table.concat, t, ",", 1, N)`},
	{"unpack-virtual", `local t = setmetatable({}, {__index = function() return 1 end}) return pcall(function() return select("#", table.unpack(t, 1, N)) end)`},
	{"move-virtual", `local t = setmetatable({}, {__index = function(_, k) return {k} end}) return pcall(table.move, t, 1, N, 1, {})`},
	{"insert-virtual-length", `local t = setmetatable({}, {__len = function() return N end, __index = function() return 1 end}) return pcall(table.insert, t, 1, "x")`},
	{"remove-virtual-length", `local t = setmetatable({}, {__len = function() return N end, __index = function() return 1 end}) return pcall(table.remove, t, 1)`},
	{"sort-virtual-length", `local t = setmetatable({}, {__len = function() return N end, __index = function() return 1 end, __newindex = function() end}) return pcall(table.sort, t)`},
	{"gsub-virtual-replacement", `local r = setmetatable({}, {__index = function() return ("y"):rep(1000) end}) return #(("x"):rep(math.min(N, 1 << 16)):gsub("x", r))`},
	// retention: N rounds each keep ~1.5 KB alive; the round's allocation and
	// the releases around it happen in differently nested contexts
	{"retain-plain", `local keep = {} for i = 1, N do keep[#keep + 1] = ("x"):rep(SZ) if #keep % 64 == 0 then emit("retained", #keep * SZ) end end return #keep`},
	{"retain-in-pcall", `local keep = {} for i = 1, N do pcall(function() keep[#keep + 1] = ("x"):rep(SZ) if #keep % 64 == 0 then emit("retained", #keep * SZ) end end) end return #keep`},
	{"retain-in-pcall-then-error", `local keep = {} for i = 1, N do pcall(function() keep[#keep + 1] = ("x"):rep(SZ) if #keep % 64 == 0 then emit("retained", #keep * SZ) end error("e") end) end return #keep`},
	{"retain-in-xpcall-handler", `local keep = {} for i = 1, N do xpcall(error, function(m) keep[#keep + 1] = ("x"):rep(SZ) if #keep % 64 == 0 then emit("retained", #keep * SZ) end return m end, i) end return #keep`},
	{"retain-in-callcontext", `local keep = {} for i = 1, N do runtime.callcontext({}, function() keep[#keep + 1] = ("x"):rep(SZ) if #keep % 64 == 0 then emit("retained", #keep * SZ) end end) end return #keep`},
	{"retain-in-nested-pcall", `local keep = {} for i = 1, N do pcall(pcall, pcall, function() keep[#keep + 1] = ("x"):rep(SZ) if #keep % 64 == 0 then emit("retained", #keep * SZ) end end) end return #keep`},
	{"retain-in-coroutine", `local keep = {} for i = 1, N do coroutine.wrap(function() keep[#keep + 1] = ("x"):rep(SZ) if #keep % 64 == 0 then emit("retained", #keep * SZ) end end)() end return #keep`},
	{"retain-coroutine-finishes-in-pcall", `local keep = {} for i = 1, N do local co = coroutine.wrap(function() coroutine.yield() end) co() pcall(function() keep[#keep + 1] = ("x"):rep(SZ) if #keep % 64 == 0 then emit("retained", #keep * SZ) end co() end) end return #keep`},
	{"retain-with-failing-compile", `local src = "goto nowhere --" .. ("y"):rep(100000) local keep = {} for i = 1, N do keep[#keep + 1] = ("x"):rep(SZ) if #keep % 64 == 0 then emit("retained", #keep * SZ) end load(src) end return #keep`},
	{"retain-with-failing-parse", `local src = "x = = --" .. ("y"):rep(100000) local keep = {} for i = 1, N do keep[#keep + 1] = ("x"):rep(SZ) if #keep % 64 == 0 then emit("retained", #keep * SZ) end load(src) end return #keep`},
	{"retain-with-failing-load-pieces", `local piece = ("y"):rep(10000) local keep = {} for i = 1, N do keep[#keep + 1] = ("x"):rep(SZ) if #keep % 64 == 0 then emit("retained", #keep * SZ) end local n = 0 load(function() n = n + 1 if n == 1 then return "break --" elseif n < 10 then return piece end end) end return #keep`},
	{"retain-with-failing-dump-load", `local d = string.dump(load("return " .. ("1+"):rep(20000) .. "1")) local bad = d:sub(1, #d - 10) local keep = {} for i = 1, N do keep[#keep + 1] = ("x"):rep(SZ) if #keep % 64 == 0 then emit("retained", #keep * SZ) end load(bad) end return #keep`},
	{"retain-with-error-in-format", `local keep = {} local big = ("y"):rep(100000) for i = 1, N do keep[#keep + 1] = ("x"):rep(SZ) if #keep % 64 == 0 then emit("retained", #keep * SZ) end pcall(string.format, "%s %d", big, "x") end return #keep`},
	{"retain-coroutine-runs-in-pcall", `local keep = {} for i = 1, N do local co = coroutine.wrap(function() end) pcall(function() keep[#keep + 1] = ("x"):rep(SZ) if #keep % 64 == 0 then emit("retained", #keep * SZ) end co() end) end return #keep`},
	{"retain-coroutine-runs-in-callcontext", `local keep = {} for i = 1, N do local co = coroutine.create(function() return 1 end) runtime.callcontext({}, function() keep[#keep + 1] = ("x"):rep(SZ) if #keep % 64 == 0 then emit("retained", #keep * SZ) end coroutine.resume(co) end) end return #keep`},
	{"retain-coroutine-runs-in-nested-pcall", `local keep = {} for i = 1, N do local co = coroutine.wrap(function() end) pcall(function() keep[#keep + 1] = ("x"):rep(SZ) if #keep % 64 == 0 then emit("retained", #keep * SZ) end pcall(co) end) end return #keep`},
	{"retain-coroutine-from-pcall-runs-outside", `local keep, co = {} for i = 1, N do pcall(function() co = coroutine.wrap(function() keep[#keep + 1] = ("x"):rep(SZ) if #keep % 64 == 0 then emit("retained", #keep * SZ) end end) end) co() end return #keep`},
	{"retain-coroutine-finishes-in-callcontext", `local keep = {} for i = 1, N do local co = coroutine.wrap(function() coroutine.yield() end) co() runtime.callcontext({}, function() keep[#keep + 1] = ("x"):rep(SZ) if #keep % 64 == 0 then emit("retained", #keep * SZ) end co() end) end return #keep`},
	{"retain-coroutine-created-in-pcall", `local keep, co = {} for i = 1, N do pcall(function() co = coroutine.wrap(function() coroutine.yield() keep[#keep + 1] = ("x"):rep(SZ) if #keep % 64 == 0 then emit("retained", #keep * SZ) end end) co() end) co() end return #keep`},
	{"retain-coroutine-closed-in-pcall", `local keep = {} for i = 1, N do local co = coroutine.create(function() local c <close> = setmetatable({}, {__close = function() keep[#keep + 1] = ("x"):rep(SZ) if #keep % 64 == 0 then emit("retained", #keep * SZ) end end}) coroutine.yield() end) coroutine.resume(co) pcall(coroutine.close, co) end return #keep`},
	{"retain-in-close-handler", `local keep = {} for i = 1, N do pcall(function() local c <close> = setmetatable({}, {__close = function() keep[#keep + 1] = ("x"):rep(SZ) if #keep % 64 == 0 then emit("retained", #keep * SZ) end end}) error("e") end) end return #keep`},
	{"retain-in-sort-comparator", `local keep = {} for i = 1, N do table.sort({2, 1}, function(a, b) keep[#keep + 1] = ("x"):rep(SZ) if #keep % 64 == 0 then emit("retained", #keep * SZ) end return a < b end) end return #keep`},
	{"retain-in-gsub-callback", `local keep = {} for i = 1, N do string.gsub("a", "a", function() keep[#keep + 1] = ("x"):rep(SZ) if #keep % 64 == 0 then emit("retained", #keep * SZ) end end) end return #keep`},
	{"retain-in-metamethod", `local keep = {} local o = setmetatable({}, {__index = function(_, k) keep[#keep + 1] = ("x"):rep(SZ) if #keep % 64 == 0 then emit("retained", #keep * SZ) end return k end}) for i = 1, N do local _ = o[i] end return #keep`},
}

// pairing templates: memory required in one context and released in another,
// and release on every exit path. They run to completion under an ample limit
// and must neither panic nor leave the counter negative/huge.
var pairing = []struct{ name, src string }{
	{"coroutine-finishes-in-pcall", `for i = 1, 200 do local co = coroutine.wrap(function() local t = {1, 2, 3} coroutine.yield(1) return #t end) co() pcall(co) end emit("ok")`},
	{"coroutine-finishes-in-callcontext", `for i = 1, 100 do local co = coroutine.wrap(function() coroutine.yield(1) return 1 end) co() runtime.callcontext({kill = {memory = 1e6}}, co) end emit("ok")`},
	{"coroutine-created-in-pcall-finished-outside", `local cos = {} for i = 1, 200 do pcall(function() cos[i] = coroutine.wrap(function() coroutine.yield(1) return 2 end) cos[i]() end) end for i = 1, #cos do cos[i]() end emit("ok")`},
	{"coroutine-killed-in-nested-context", `for i = 1, 50 do local co = coroutine.wrap(function() coroutine.yield(1) local t = {} while true do t[#t + 1] = ("x"):rep(1000) end end) co() runtime.callcontext({kill = {memory = 50000}}, co) end emit("ok")`},
	{"error-unwinding-releases", `local function f(n) local a, b, c = {}, {}, {} if n == 0 then error("bottom") end return f(n - 1) end for i = 1, 200 do pcall(f, 50) end emit("ok")`},
	{"tail-calls-release", `local function t(n) if n == 0 then return 0 end return t(n - 1) end for i = 1, 20 do t(5000) end emit("ok")`},
	{"compile-errors-release", `for i = 1, 2000 do load("x = = " .. i) load("return (" .. i) load("goto nowhere") end emit("ok")`},
	{"string-dump-load", `for i = 1, 500 do local f = load("local a, b = ... return function() return a + b + " .. i .. " end") local g = load(string.dump(f)) g(1, 2) end emit("ok")`},
	{"close-coroutine-with-frames", `for i = 1, 200 do local co = coroutine.create(function() local function deep(n) if n == 0 then coroutine.yield() end return deep(n - 1) + 1 end return deep(30) end) coroutine.resume(co) coroutine.close(co) end emit("ok")`},
	{"nested-contexts-pop-order", `for i = 1, 100 do runtime.callcontext({kill = {memory = 2e5}}, function() local t = {} for j = 1, 100 do t[j] = {j} end pcall(function() local u = {} for j = 1, 100 do u[j] = {j} end error("x") end) return #t end) end emit("ok")`},
	{"gsub-callback-errors", `for i = 1, 300 do pcall(string.gsub, ("a"):rep(100), "a", function() error("in callback") end) end emit("ok")`},
	{"sort-comparator-errors", `local t = {} for i = 1, 100 do t[i] = -i end for i = 1, 200 do pcall(table.sort, t, function(a, b) error("cmp") end) end emit("ok")`},
	{"yield-across-pcall-release", `for i = 1, 200 do local co = coroutine.wrap(function() pcall(function() local big = ("x"):rep(5000) coroutine.yield(#big) end) return 1 end) co() co() end emit("ok")`},
}

// interception templates: every place where the library or the VM calls back
// into Lua is handed a function that allocates for ever; whatever observes
// the outcome, the context must be killed and nothing of it may run afterwards.
const allocFn = `function(...) local t = {} while true do t[#t + 1] = {#t} end end`

var callbackSites = []struct{ name, call string }{
	{"sort-cmp", `table.sort({3, 2, 1}, ALLOC)`},
	{"sort-lt", `local o = setmetatable({}, {__lt = ALLOC}) table.sort({o, o, o})`},
	{"gsub-fn", `string.gsub("abc", ".", ALLOC)`},
	{"gsub-table-index", `string.gsub("abc", ".", setmetatable({}, {__index = ALLOC}))`},
	{"load-reader", `load(ALLOC)`},
	{"tostring", `tostring(setmetatable({}, {__tostring = ALLOC}))`},
	{"format-s", `string.format("%s", setmetatable({}, {__tostring = ALLOC}))`},
	{"concat-index", `table.concat(setmetatable({}, {__index = ALLOC}), ",", 1, 3)`},
	{"insert-newindex", `table.insert(setmetatable({}, {__newindex = ALLOC}), 1)`},
	{"unpack-index", `table.unpack(setmetatable({}, {__index = ALLOC}), 1, 3)`},
	{"ipairs-index", `for _ in ipairs(setmetatable({}, {__index = ALLOC})) do end`},
	{"pairs-metamethod", `for _ in pairs(setmetatable({}, {__pairs = ALLOC})) do end`},
	{"index", `local _ = setmetatable({}, {__index = ALLOC}).k`},
	{"newindex", `setmetatable({}, {__newindex = ALLOC}).k = 1`},
	{"call", `setmetatable({}, {__call = ALLOC})()`},
	{"arith", `local _ = setmetatable({}, {__add = ALLOC}) + 1`},
	{"concat", `local _ = setmetatable({}, {__concat = ALLOC}) .. "x"`},
	{"len", `local _ = #setmetatable({}, {__len = ALLOC})`},
	{"eq", `local m = {__eq = ALLOC} local _ = setmetatable({}, m) == setmetatable({}, m)`},
	{"lt", `local _ = setmetatable({}, {__lt = ALLOC}) < 1`},
	{"close", `do local cl <close> = setmetatable({}, {__close = ALLOC}) end`},
	{"xpcall-handler", `xpcall(error, ALLOC, "x")`},
	{"coroutine-wrap", `coroutine.wrap(ALLOC)()`},
	{"for-iterator", `for _ in ALLOC do end`},
	{"string-rep", `local s = ("x"):rep(1e9)`},
	{"table-concat-big", `local t = {} for i = 1, 1e6 do t[i] = "xxxxxxxxxxxxxxxx" end local s = table.concat(t)`},
}

var callbackWrappers = []struct{ name, src string }{
	{"direct", `emit("before") CALL emit("survived")`},
	{"in-coroutine", `emit("resume-returned", coroutine.resume(coroutine.create(function() CALL end))) emit("survived") while true do end`},
	{"pending-close", `local c <close> = setmetatable({}, {__close = function() emit("close-ran") end}) CALL emit("survived")`},
	{"in-pcall", `emit("intercepted", pcall(function() CALL end)) local t = {} while true do t[#t + 1] = {} end`},
	{"in-xpcall", `emit("intercepted", xpcall(function() CALL end, function(m) emit("handler-ran") return m end)) local t = {} while true do t[#t + 1] = {} end`},
}

// the retention templates exist once per retained size SZ (what a nested
// context holds when something bigger is released in it matters)
func init() {
	var out []struct{ name, src string }
	for _, tpl := range amplify {
		if !strings.Contains(tpl.src, "SZ") {
			out = append(out, tpl)
			continue
		}
		for _, sz := range []int{100, 1000, 4000} {
			out = append(out, struct{ name, src string }{fmt.Sprintf("%s/%d", tpl.name, sz), strings.ReplaceAll(tpl.src, "SZ", fmt.Sprint(sz))})
		}
	}
	amplify = out
}

func interceptTemplates() []struct{ name, src string } {
	var out []struct{ name, src string }
	for _, s := range callbackSites {
		for _, w := range callbackWrappers {
			call := strings.ReplaceAll(s.call, "ALLOC", allocFn)
			out = append(out, struct{ name, src string }{s.name + "/" + w.name, strings.ReplaceAll(w.src, "CALL", call)})
		}
	}
	// finalisers that allocate for ever, run when the context is left
	for _, x := range []struct{ name, src string }{
		{"gc-handler/at-context-exit", `setmetatable({}, {__gc = ALLOC}) emit("body-done")`},
		{"gc-handler/at-context-exit-after-error", `setmetatable({}, {__gc = ALLOC}) error("body-fails")`},
		{"gc-handler/at-nested-context-exit-after-error", `local ctx = runtime.callcontext({kill = {memory = 1e15}}, function() setmetatable({}, {__gc = ALLOC}) error("body-fails") end) emit("survived", ctx.status)`},
		{"gc-handler/set-by-close-handler-after-error", `local c <close> = setmetatable({}, {__close = function() setmetatable({}, {__gc = ALLOC}) end}) error("body-fails")`},
	} {
		out = append(out, struct{ name, src string }{x.name, strings.ReplaceAll(x.src, "ALLOC", allocFn)})
	}
	return out
}

func checkIntercept(c memCase) string {
	o, hung := runWatched(c, c.Mem, 90*time.Second)
	if hung {
		return "did not come back within the watchdog: no memory limit stops it"
	}
	if msg := basic(o, c.Mem); msg != "" {
		return msg
	}
	for _, e := range o.tr.Events {
		for _, marker := range []string{"intercepted", "survived", "resume-returned", "handler-ran", "close-ran"} {
			if strings.Contains(e, marker) {
				return fmt.Sprintf("Lua code of the context ran after its memory limit was hit (event %s); status %q, accounted %d", e, o.tr.Status, o.tr.UsedMem)
			}
		}
	}
	if !o.tr.Killed {
		return fmt.Sprintf("expected status killed, got %q (error %q, accounted %d)", o.tr.Status, o.tr.ErrTok, o.tr.UsedMem)
	}
	return ""
}

func TestC06(t *testing.T) {
	rec := ev.New("C06")
	defer Finish(t, rec)
	rec.Rule("(1) rapid-generated programs run unlimited and then under a ladder of memory limits (512 B .. 16 MiB and drawn ones): accounted memory < M at every host event and at the end, killed is monotone in M, the limited trace is a prefix of the unlimited one and identical with the same results when not killed (a kill cannot be intercepted); (2) 27 amplification templates (string building/repetition, table growth, argument lists, loading code, closures, coroutines, dump, pack, gsub expansion, allocation retried under pcall/xpcall) with N in {1e3 .. 2^40} under M in {1e4, 1e5, 1e6}: must come back within a watchdog, accounted memory < M, no Go panic, and the Go heap growth caused by the call (peak of runtime.MemStats.HeapAlloc sampled every 2 ms, above its level before the call) <= 40*M + 48 MiB; (3) 13 pairing templates where memory is required in one context and released in another or on error/kill/close paths: no panic, counter never wraps. Non-trivial: program killed for one tested M and completing for another, or a template with N >= 2^20; distinct by (program/template, M, N).")
	rec.Assume("HeapAlloc is a whole-process number sampled every 2 ms: the test process runs one case at a time, a breach is re-measured once, and the bound 40*M + 48 MiB leaves more than a 10x margin over a fresh runtime (about 3 MiB) plus M plus uncollected garbage")
	rec.Assume("a watchdog (2 x 90 s) only detects calls that never return")
	progcheck.ApplyKnownFindings(rec)

	if rec.Replay != "" {
		rf, err := rec.LoadReplay()
		if err != nil {
			t.Fatal(err)
		}
		var c memCase
		if err := json.Unmarshal(rf.Case, &c); err != nil {
			t.Fatal(err)
		}
		rec.Eval()
		var msg string
		switch c.Kind {
		case "program":
			msg, _, _ = checkProgram(c, []uint64{c.Mem})
		case "intercept":
			msg = checkIntercept(c)
		case "cost":
			msg = checkCost(c)
		default:
			msg = checkTemplate(c)
		}
		if msg != "" {
			rec.Violation(c.Kind, c, msg)
		}
		return
	}

	idx := 0
	// (3) pairing
	for _, tpl := range pairing {
		idx++
		if !rec.Mine(idx) {
			continue
		}
		for _, m := range []uint64{20_000_000, 200_000_000} {
			c := memCase{Source: tpl.src, Mem: m, CPU: 2_000_000_000, Kind: "pairing", Name: tpl.name}
			rec.Eval()
			rec.Class("pairing:" + tpl.name)
			rec.NonTrivial(fmt.Sprint(tpl.name, m))
			msg := checkTemplate(c)
			if msg == "" {
				o := run(c, m)
				if !o.tr.Killed && (len(o.tr.Events) == 0 || !strings.Contains(o.tr.Events[len(o.tr.Events)-1], "ok")) {
					msg = fmt.Sprintf("template did not run to completion: status %s error %q events %v", o.tr.Status, o.tr.ErrTok, o.tr.Events)
				}
			}
			if msg != "" {
				rec.Violation("pairing", c, tpl.name+fmt.Sprintf(" under memory limit %d: ", m)+msg)
				return
			}
		}
	}
	// (5) iteration-cost stability of the memory accounting
	for _, sn := range costSnippets {
		idx++
		if !rec.Mine(idx) {
			continue
		}
		c := memCase{Source: costProgram(sn.body, rec.Pick(40, 400), "memory"), Mem: 1 << 34, CPU: 2_000_000_000, Kind: "cost", Name: sn.name}
		rec.Eval()
		rec.Class("cost-stability:" + sn.name)
		rec.NonTrivial("cost|" + sn.name)
		if msg := checkCost(c); msg != "" {
			rec.Violation("cost", c, sn.name+": "+msg)
			return
		}
	}
	// (4) interception
	for _, tpl := range interceptTemplates() {
		for _, m := range []uint64{20_000, 200_000, 2_000_000} {
			idx++
			if !rec.Mine(idx) {
				continue
			}
			c := memCase{Source: tpl.src, Mem: m, CPU: 2_000_000_000, Kind: "intercept", Name: tpl.name}
			rec.Eval()
			rec.Class("intercept:" + tpl.name[:strings.Index(tpl.name, "/")])
			rec.NonTrivial(fmt.Sprint(tpl.name, m))
			if msg := checkIntercept(c); msg != "" {
				rec.Violation("intercept", c, tpl.name+fmt.Sprintf(" under memory limit %d: ", m)+msg)
				return
			}
		}
	}
	// (2) amplification
	sizes := []uint64{1000, 1 << 20, 1 << 31, 1 << 40, 1<<60 + 1}
	if rec.Thorough() {
		sizes = []uint64{1000, 65536, 1 << 20, 1 << 31, 1 << 32, 1 << 40, 1<<62 + 1}
	}
	for _, tpl := range amplify {
		for _, N := range sizes {
			for _, m := range []uint64{10_000, 100_000, 1_000_000} {
				idx++
				if !rec.Mine(idx) {
					continue
				}
				c := memCase{Source: strings.ReplaceAll(tpl.src, "N", fmt.Sprint(N)), Mem: m, CPU: 500_000_000, Kind: "amplify", Name: tpl.name}
				rec.Eval()
				rec.Class("amplify:" + tpl.name)
				if N >= 1<<20 {
					rec.NonTrivial(fmt.Sprint(tpl.name, N, m))
				}
				rec.Sample(map[string]any{"template": tpl.name, "N": N, "mem": m})
				if msg := checkTemplate(c); msg != "" {
					rec.Violation("amplify", c, fmt.Sprintf("%s with N=%d under memory limit %d: %s", tpl.name, N, m, msg))
					return
				}
			}
		}
	}

	// the open context-stack finding of C07 as this property meets it (see C05)
	kfYield := CheckKnown(rec, "C06-yield-inside-protected-call-under-limit", func() bool {
		c := memCase{Source: `local co = coroutine.create(function() pcall(coroutine.yield, 1) end) coroutine.resume(co) local t = {} for i = 1, 1e7 do t[i] = {i} end`, Mem: 100000, CPU: 500_000_000, Kind: "demo", Name: "yield-inside-pcall-then-allocate"}
		return checkTemplate(c) != ""
	})

	// (1) generated programs
	ShrinkTime = "1ms"
	prof := luagen.General
	prof.Name, prof.Strings, prof.Closures, prof.Coroutines = "memory", 8, 8, 4
	RunRapid(rec, "C06/programs", rec.Pick(120, 2000), 0, func(t *rapid.T) {
		prog := luagen.Generate(t, prof)
		specs := progcheck.ArgSpecs(prog.Args)
		src, lines := mlua.Render(prog.Block, nil)
		if kfYield && progcheck.YieldsInsideProtectedCall(prog.Block, lines, specs, src) {
			rec.Discard("excluded-by-finding:C06-yield-inside-protected-call-under-limit")
			return
		}
		c := memCase{Source: src, Args: specs, Kind: "program", CPU: 500_000_000}
		ladder := []uint64{512, 2048, 8192, 32768, 131072, 524288, 2 << 20, 16 << 20}
		extra := uint64(rapid.IntRange(600, 400000).Draw(t, "M"))
		for i, m := range ladder {
			if extra < m {
				ladder = append(ladder[:i], append([]uint64{extra}, ladder[i:]...)...)
				break
			}
		}
		msg, killed, done := checkProgram(c, ladder)
		rec.EvalN(int64(len(ladder)))
		if killed > 0 && done > 0 {
			rec.NonTrivial(src + strings.Join(specs, ","))
			rec.Class("program:killed-and-completes")
		} else if killed == 0 {
			rec.Class("program:never-killed")
		}
		rec.Sample(map[string]any{"source": src, "args": specs, "killed_limits": killed, "done_limits": done})
		if msg != "" {
			FailCase(t, "program", c, "%s\n--- program ---\n%s--- args: %v", msg, progcheck.Numbered(src), specs)
		}
	})
}

func checkTemplate(c memCase) string {
	o, hung := runWatched(c, c.Mem, 90*time.Second)
	if hung {
		// slow or unstoppable? Work that is metered ends when the CPU budget
		// does: with a twentieth of the budget it must come back; only work
		// that no budget bounds is reported (wall-clock time alone is never
		// a verdict: the machine may be loaded)
		small := c
		small.CPU = c.CPU / 20
		if small.CPU == 0 {
			small.CPU = 1_000_000
		}
		if _, hung2 := runWatched(small, c.Mem, 90*time.Second); hung2 {
			return fmt.Sprintf("the call did not come back within 2 x 90 s, nor with a CPU budget of %d instead of %d: no budget bounds it", small.CPU, c.CPU)
		}
		return ""
	}
	if msg := basic(o, c.Mem); msg != "" {
		return msg
	}
	if c.Kind == "amplify" {
		bound := 40*float64(c.Mem)/(1<<20) + 48
		if o.allocMiB > bound {
			// re-measure once (another goroutine may have allocated)
			o2, hung := runWatched(c, c.Mem, 90*time.Second)
			if !hung && o2.allocMiB > bound {
				return fmt.Sprintf("the Go heap grew by %.0f MiB while running under a memory limit of %d bytes (bound %.0f MiB): allocation is not charged (before it happens)", o2.allocMiB, c.Mem, bound)
			}
		}
	}
	return ""
}
