package c16

import (
	"encoding/json"
	"fmt"
	"math"
	"sort"
	"strings"
	"testing"

	rt "github.com/arnodel/golua/runtime"
	"pgregory.net/rapid"

	"verif/internal/ev"
	"verif/internal/harness"
	"verif/internal/numref"
	. "verif/internal/pbt"
)

// C16 — numeric for loops iterate exactly the manual's sequence and terminate.

const c16Cap = 50

type c16Case struct {
	A, B, C Opnd
	Route   string // "args": operands are runtime values; "literal": spelled in the source
}

const c16Body = `
  local function id(i, x) emit("eval", i) return x end
  local n = 0
  for v = id(1,A), id(2,B), id(3,C) do
    emit(v)
    n = n + 1
    if n >= 50 then break end
    v = nil
  end
  emit("end", n)
`

// c16BodyLocals: the control expressions are bare local names; the variables
// are overwritten during the loop (directly and through an upvalue), which must
// not disturb it ("the three expressions are evaluated once").
const c16BodyLocals = `
  emit("eval", 1) emit("eval", 2) emit("eval", 3)
  local st, lim, stp = A, B, C
  local function clobber() lim, stp = nil, {} end
  local n = 0
  for v = st, lim, stp do
    emit(v)
    n = n + 1
    if n >= 50 then break end
    if n == 1 then st = "x" clobber() else st, lim, stp = 0, 0, 0 end
  end
  emit("end", n)
`

// c16BodyKept: bare local names that are not assigned: after the loop they
// still hold the original values (the loop's conversions are private).
const c16BodyKept = `
  emit("eval", 1) emit("eval", 2) emit("eval", 3)
  local st, lim, stp = A, B, C
  local function same(x, y) return rawequal(x, y) or (x ~= x and y ~= y) end
  local n = 0
  for v = st, lim, stp do
    emit(v)
    n = n + 1
    if n >= 50 then break end
  end
  if not (same(st, A) and same(lim, B) and same(stp, C) and math.type(st) == math.type(A) and math.type(lim) == math.type(B) and math.type(stp) == math.type(C)) then
    emit("the loop changed the variables it took its control values from")
  end
  emit("end", n)
`

var c16Bodies = map[string]string{"args": c16Body, "locals": c16BodyLocals, "kept": c16BodyKept}

func c16Lattice() []Opnd {
	p53 := int64(1) << 53
	two63 := math.Ldexp(1, 63)
	return []Opnd{
		OInt(0), OInt(1), OInt(-1), OInt(2), OInt(-2), OInt(3), OInt(p53), OInt(-p53), OInt(p53 + 1),
		OInt(math.MaxInt64 - 2), OInt(math.MaxInt64 - 1), OInt(math.MaxInt64),
		OInt(math.MinInt64), OInt(math.MinInt64 + 1), OInt(math.MinInt64 + 2),
		OFloat(0), OFloat(math.Copysign(0, -1)), OFloat(0.5), OFloat(-0.5), OFloat(1), OFloat(-1), OFloat(2.5),
		OFloat(float64(p53)), OFloat(-float64(p53)), OFloat(two63), OFloat(-two63), OFloat(two63 - 1024),
		OFloat(1e308), OFloat(math.Inf(1)), OFloat(math.Inf(-1)), OFloat(math.NaN()),
		OStr("1"), OStr("2.0"), OStr("0x10"), OStr(" 3 "),
		ONil, OStr("x"), OTable,
	}
}

type c16Runner struct {
	s   *harness.Session
	fns map[string]rt.Value
}

func (r *c16Runner) session() *harness.Session {
	if r.s == nil {
		r.s = harness.NewSession()
		r.fns = map[string]rt.Value{}
		for route, body := range c16Bodies {
			fn, err := r.s.Load("chunk", "return function(A,B,C)"+body+"end")
			if err != nil {
				panic(err)
			}
			r.fns[route] = fn
		}
	}
	return r.s
}

func (r *c16Runner) run(c c16Case) *harness.Trace {
	s := r.session()
	var tr *harness.Trace
	if c.Route == "literal" {
		src := fmt.Sprintf("return function() local A,B,C = %s, %s, %s\n%s end", c.A.Lua(), c.B.Lua(), c.C.Lua(), c16Body)
		fn, err := s.Load("chunk", src)
		if err != nil {
			return &harness.Trace{CompileErr: err.Error()}
		}
		tr = s.Call(fn, 1_000_000, 0)
	} else {
		tr = s.Call(r.fns[c.Route], 1_000_000, 0, c.A.Value(), c.B.Value(), c.C.Value())
	}
	if tr.Panic != "" {
		r.s = nil // poisoned
	}
	return tr
}

// c16Expect computes the acceptable observations. Returns the list of
// acceptable (values, truncated) outcomes, or expectErr.
type c16Outcome struct {
	err    bool
	values []string
	trunc  bool
}

func (o c16Outcome) String() string {
	if o.err {
		return "error before the first iteration"
	}
	s := fmt.Sprintf("%d iterations", len(o.values))
	if o.trunc {
		s += "+ (more than the cap)"
	}
	if len(o.values) > 6 {
		return s + ": " + strings.Join(o.values[:6], ", ") + ", …"
	}
	return s + ": " + strings.Join(o.values, ", ")
}

func c16Expect(c c16Case) (accept []c16Outcome, strOperand bool) {
	ops := [3]Opnd{c.A, c.B, c.C}
	var nums [3]numref.Num
	hasStr := false
	for i, o := range ops {
		switch o.Kind() {
		case 'i', 'f':
			nums[i], _ = o.Num()
		case 's':
			n, ok := numref.StringToNumber(o.Str())
			if !ok {
				return []c16Outcome{{err: true}}, false
			}
			// a numeric string is not an integer: it can only take part as a float
			nums[i] = numref.Float(n.AsFloat())
			hasStr = true
		default:
			return []c16Outcome{{err: true}}, false
		}
	}
	conv := func(vs []numref.Num, trunc bool) c16Outcome {
		o := c16Outcome{trunc: trunc}
		for _, v := range vs {
			o.values = append(o.values, EncNum(v))
		}
		return o
	}
	limits := []numref.Num{nums[1]}
	if c.B.Kind() == 's' {
		// a numeric string limit: converted to a float (reference implementation)
		// or taken as the number it denotes
		if n, _ := numref.StringToNumber(c.B.Str()); n.IsInt {
			limits = append(limits, n)
		}
	}
	for _, lim := range limits {
		res := numref.ForLoop(nums[0], lim, nums[2], c16Cap)
		if res.Err {
			accept = append(accept, c16Outcome{err: true})
		} else {
			accept = append(accept, conv(res.Values, res.Truncated))
			for _, alt := range res.Alt {
				accept = append(accept, conv(alt, len(alt) >= c16Cap))
			}
		}
	}
	if hasStr {
		// the manual does not say whether a numeric string is "a number" here:
		// raising is accepted as well (the reference implementation converts).
		accept = append(accept, c16Outcome{err: true})
	}
	return accept, hasStr
}

// c16Check compares; returns "" if the observation is acceptable.
func c16Check(c c16Case, tr *harness.Trace) string {
	accept, _ := c16Expect(c)
	if tr.Panic != "" {
		return "Go panic: " + tr.Panic
	}
	if tr.CompileErr != "" {
		return "compile error: " + tr.CompileErr
	}
	if tr.Killed {
		return "loop did not terminate within the CPU safety net"
	}
	// the three expressions are evaluated exactly once each, before the loop
	if len(tr.Events) < 3 {
		return fmt.Sprintf("expected 3 evaluation events first, got %v", tr.Events)
	}
	evals := append([]string{}, tr.Events[:3]...)
	sort.Strings(evals)
	if evals[0] != `s:"eval" i:1` || evals[1] != `s:"eval" i:2` || evals[2] != `s:"eval" i:3` {
		return fmt.Sprintf("the three control expressions were not evaluated exactly once each before the loop: %v", tr.Events[:3])
	}
	rest := tr.Events[3:]
	var got c16Outcome
	if tr.Err != "" {
		got.err = true
		if len(rest) != 0 {
			return fmt.Sprintf("error %s after %d body events", tr.Err, len(rest))
		}
	} else {
		if len(rest) == 0 || !strings.HasPrefix(rest[len(rest)-1], `s:"end" i:`) {
			return fmt.Sprintf("missing end event: %v", rest)
		}
		got.values = rest[:len(rest)-1]
		for _, e := range got.values {
			if strings.HasPrefix(e, `s:"eval"`) {
				return "a control expression was evaluated again during the loop"
			}
		}
		if want := fmt.Sprintf(`s:"end" i:%d`, len(got.values)); rest[len(rest)-1] != want {
			return fmt.Sprintf("iteration count event %s does not match %d body events", rest[len(rest)-1], len(got.values))
		}
		got.trunc = len(got.values) >= c16Cap
	}
	for _, a := range accept {
		if a.err != got.err {
			continue
		}
		if a.err {
			return ""
		}
		// the program stops counting at the cap: a loop of exactly c16Cap
		// iterations and a longer one look the same from outside
		if len(a.values) != len(got.values) || (len(got.values) < c16Cap && a.trunc != got.trunc) {
			continue
		}
		same := true
		for i := range a.values {
			if a.values[i] != got.values[i] {
				same = false
				break
			}
		}
		if same {
			return ""
		}
	}
	var sb strings.Builder
	fmt.Fprintf(&sb, "for v = %s, %s, %s (%s route): golua gave %s", c.A.Pretty(), c.B.Pretty(), c.C.Pretty(), c.Route, got)
	if got.err {
		fmt.Fprintf(&sb, " [%s]", tr.Err)
	}
	sb.WriteString("; acceptable:")
	for _, a := range accept {
		fmt.Fprintf(&sb, "\n    %s", a)
	}
	return sb.String()
}

// known-finding recognisers (narrow input classes)

// C16-string-int-loop: a numeric string as start or step is run as an integer loop.
func c16KFStringStartStep(c c16Case) bool {
	return c.A.Kind() == 's' || c.C.Kind() == 's'
}

// C16-float-nan-inf-step: float loop whose control variable becomes NaN/unordered
// never ends (start/limit/step with NaN, or inf start with opposite inf step).
func c16KFUnordered(c c16Case) bool {
	isF := func(o Opnd) (float64, bool) {
		n, ok := o.Num()
		if !ok {
			if o.Kind() == 's' {
				m, ok2 := numref.StringToNumber(o.Str())
				return m.AsFloat(), ok2
			}
			return 0, false
		}
		return n.AsFloat(), true
	}
	a, ok1 := isF(c.A)
	b, ok2 := isF(c.B)
	s, ok3 := isF(c.C)
	if !ok1 || !ok2 || !ok3 {
		return false
	}
	if a != a || b != b || s != s {
		return true
	}
	// inf + (-inf) = NaN after the first step
	if math.IsInf(a, 0) && math.IsInf(s, 0) && (a > 0) != (s > 0) {
		return true
	}
	return false
}

func c16NonTrivial(c c16Case, accept []c16Outcome) bool {
	kinds := map[byte]bool{c.A.Kind(): true, c.B.Kind(): true, c.C.Kind(): true}
	if len(kinds) > 1 {
		return true
	}
	for _, a := range accept {
		if a.err || len(a.values) >= 2 {
			return true
		}
	}
	for _, o := range []Opnd{c.A, c.B, c.C} {
		if o.Kind() == 'i' {
			if v := o.Int(); v > math.MaxInt64-1024 || v < math.MinInt64+1024 {
				return true
			}
		}
	}
	return false
}

func TestC16(t *testing.T) {
	rec := ev.New("C16")
	defer Finish(t, rec)
	rec.Rule("exhaustive (start,limit,step) triples over a 38-value lattice (ints around 0, 2^53, min/maxinteger; floats incl. ±0, ±2^63, ±inf, NaN; numeric strings; non-numbers), each run with runtime operands and with literal operands, body capped at 50 iterations and assigning to the loop variable; plus rapid-drawn triples near the boundaries. Oracle: big-integer/IEEE loop model (internal/numref.ForLoop). Non-trivial: operand kinds are mixed, or an error/clipping/overflow is involved, or the loop runs >= 2 iterations; distinct by (triple, route).")
	rec.Assume("float loops: the manual's 'arithmetic progression' admits accumulation (reference implementation) and multiplication; when they differ on the first 50 terms both are accepted")
	rec.Assume("NaN operands and numeric-string operands: the manual is silent; the reference implementation's behaviour and the reading 'zero iterations'/'error' are both accepted, termination is always required")
	run := &c16Runner{}

	if rec.Replay != "" {
		rf, err := rec.LoadReplay()
		if err != nil {
			t.Fatal(err)
		}
		var c c16Case
		if err := json.Unmarshal(rf.Case, &c); err != nil {
			t.Fatal(err)
		}
		rec.Eval()
		if msg := c16Check(c, run.run(c)); msg != "" {
			rec.Violation("triple", c, msg)
		}
		return
	}

	kfStr := CheckKnown(rec, "C16-string-int-loop", func() bool {
		return c16Check(c16Case{OStr("1"), OInt(2), OInt(1), "args"}, run.run(c16Case{OStr("1"), OInt(2), OInt(1), "args"})) != ""
	})
	kfNaN := CheckKnown(rec, "C16-unordered-float-loop", func() bool {
		c := c16Case{OFloat(math.Inf(1)), OFloat(math.Inf(-1)), OFloat(math.Inf(-1)), "args"}
		return c16Check(c, run.run(c)) != ""
	})
	excluded := func(c c16Case) bool {
		if kfStr && c16KFStringStartStep(c) {
			rec.Discard("excluded-by-finding:C16-string-int-loop")
			return true
		}
		if kfNaN && c16KFUnordered(c) {
			rec.Discard("excluded-by-finding:C16-unordered-float-loop")
			return true
		}
		return false
	}

	evalCase := func(c c16Case) string {
		if excluded(c) {
			return ""
		}
		tr := run.run(c)
		rec.Eval()
		accept, hasStr := c16Expect(c)
		if c16NonTrivial(c, accept) {
			rec.NonTrivial(fmt.Sprint(c))
		}
		switch {
		case accept[0].err:
			rec.Class("expect-error")
		case len(accept) > 1 && !hasStr:
			rec.Class("ambiguous(NaN/rounding)")
		case accept[0].trunc:
			rec.Class("runs-to-cap")
		case len(accept[0].values) == 0:
			rec.Class("zero-iterations")
		default:
			rec.Class("finite-iterations")
		}
		if hasStr {
			rec.Class("string-operand")
		}
		rec.Sample(map[string]any{"for": [3]string{c.A.Pretty(), c.B.Pretty(), c.C.Pretty()}, "route": c.Route, "expected": accept[0].String()})
		return c16Check(c, tr)
	}

	// 1. exhaustive lattice, both routes
	lat := c16Lattice()
	idx := 0
	nviol := 0
	for _, a := range lat {
		for _, b := range lat {
			for _, s := range lat {
				idx++
				if !rec.Mine(idx) {
					continue
				}
				for _, route := range []string{"args", "literal", "locals", "kept"} {
					c := c16Case{a, b, s, route}
					if msg := evalCase(c); msg != "" && nviol < 5 {
						nviol++
						rec.Violation("triple", c, msg)
					}
				}
			}
		}
	}
	rec.Exhaustive(true)
	rec.Set("lattice_size", len(lat))

	// 2. random triples near the boundaries
	if nviol > 0 {
		return
	}
	genInt := rapid.OneOf(
		rapid.Int64Range(-5, 5),
		rapid.Map(rapid.Int64Range(0, 70), func(d int64) int64 { return math.MaxInt64 - d }),
		rapid.Map(rapid.Int64Range(0, 70), func(d int64) int64 { return math.MinInt64 + d }),
		rapid.Map(rapid.Int64Range(-3, 3), func(d int64) int64 { return 1<<53 + d }),
		rapid.Map(rapid.Int64Range(1, 62), func(k int64) int64 { return 1 << uint(k) }),
		rapid.Map(rapid.Int64Range(1, 62), func(k int64) int64 { return -(1 << uint(k)) }),
		rapid.Int64(),
	)
	genFloat := rapid.OneOf(
		rapid.Map(rapid.Int64Range(-40, 40), func(d int64) float64 { return float64(d) / 4 }),
		rapid.Map(rapid.Int64Range(-3, 3), func(d int64) float64 { return math.Ldexp(1, 63) + float64(d)*1024 }),
		rapid.Map(rapid.Int64Range(-3, 3), func(d int64) float64 { return -math.Ldexp(1, 63) + float64(d)*1024 }),
		rapid.Map(rapid.Int64Range(-3, 3), func(d int64) float64 { return math.Ldexp(1, 53) + float64(d) }),
		rapid.SampledFrom([]float64{math.Inf(1), math.Inf(-1), math.NaN(), 1e308, -1e308, 5e-324, 0.1, 1e15, 1e16}),
		rapid.Float64(),
	)
	genOp := rapid.OneOf(
		rapid.Map(genInt, OInt), rapid.Map(genInt, OInt), rapid.Map(genFloat, OFloat),
		rapid.SampledFrom([]Opnd{OStr("10"), OStr("-1"), OStr("1e1"), OStr("0x7fffffffffffffff"), ONil, OStr("a"), OTable, OTrue}),
	)
	RunRapid(rec, "C16/random", rec.Pick(6000, 60000), 0, func(t *rapid.T) {
		c := c16Case{genOp.Draw(t, "start"), genOp.Draw(t, "limit"), genOp.Draw(t, "step"), rapid.SampledFrom([]string{"args", "literal", "locals", "kept"}).Draw(t, "route")}
		if msg := evalCase(c); msg != "" {
			FailCase(t, "triple", c, "%s", msg)
		}
	})
}
