package c11

import (
	"encoding/json"
	"fmt"
	"strings"
	"testing"

	"verif/internal/ev"
	"verif/internal/harness"
	"verif/internal/luagen"
	"verif/internal/luaref"
	. "verif/internal/pbt"
	"verif/internal/progcheck"
)

// C11 — errors reach exactly the nearest protected call, with their value intact.

func TestC11(t *testing.T) {
	rec := ev.New("C11")
	defer Finish(t, rec)
	rec.Rule("(1) exhaustive grid: 41 error sites (error(v) for v of every type incl. tables by identity, functions, nil, no argument; error(s, 0|1|2); every kind of runtime error; assert; failing __add/__index/__tostring/__close metamethods; failing iterator; error with a pending to-be-closed variable; error inside a coroutine via resume and via wrap) x 7 ways of reaching the site (directly, through 1 or 3 Lua frames, through a tail call, through a Go frame pcall(pcall, f), through a __call metamethod, through a generic-for iterator) x 6 protectors (pcall, xpcall with a transforming handler, coroutine.resume, pcall(coroutine.wrap f), nested pcall, pcall inside a coroutine), each followed by code that keeps using the same locals, tables, closures, a new coroutine and a second error; (2) rapid programs from the error-heavy generator profile in several renderings. Oracle: reference interpreter (which protector receives the value, identity of the value, chunk:line: prefix of level-1/2 messages and runtime errors, pcall/xpcall results, handler runs once at the point of the error, behaviour of everything after the catch). Non-trivial: the error crossed >= 1 function frame before being caught and code ran after the catch; distinct by program text.")
	rec.Assume("texts of runtime error messages are never compared; a position prefix is checked only where the manual's level semantics name a Lua call site on a single source line, otherwise any/optional prefix is accepted")
	rec.Assume("string errors crossing coroutine.wrap: the reference implementation prepends position information, the manual says 'propagates the error': any string is accepted there")
	progcheck.ApplyKnownFindings(rec)
	if rec.Replay != "" {
		if rf, err := rec.LoadReplay(); err == nil {
			var c progcheck.Case
			if json.Unmarshal(rf.Case, &c) == nil && strings.HasPrefix(c.Note, "stability:") {
				rec.Eval()
				if msg := checkStability(c); msg != "" {
					rec.Violation("stability", c, msg)
				}
				return
			}
		}
	}
	if progcheck.Replay(t, rec, harness.Opts{}) {
		return
	}
	// repetition stability of caught errors (metamorphic, no model)
	{
		idx := 0
		reps := rec.Pick(6, 1500)
		for _, sn := range stabilitySnippets {
			for _, inCo := range []bool{false, true} {
				idx++
				if !rec.Mine(idx) {
					continue
				}
				c := progcheck.Case{Source: stabilityProgram(sn.body, reps, inCo), Note: fmt.Sprintf("stability:%s co=%v n=%d", sn.name, inCo, reps)}
				rec.Eval()
				rec.Class("stability:" + sn.name)
				rec.NonTrivial(c.Note)
				if msg := checkStability(c); msg != "" {
					rec.Violation("stability", c, sn.name+": "+msg)
					return
				}
			}
		}
	}
	grid := luagen.ErrorGrid()
	rec.Set("grid_size", len(grid))
	n := progcheck.RunGrid(rec, grid, harness.Opts{}, func(gc luagen.GridCase, res luaref.Result) bool {
		parts := strings.Split(gc.Name, "/")
		rec.Class("site:" + parts[0])
		rec.Class("depth:" + parts[1])
		rec.Class("protector:" + parts[2])
		return parts[1] != "direct" && res.Feat["pcall-caught"]+res.Feat["xpcall-caught"]+res.Feat["coroutine-error-to-resumer"] > 0
	})
	rec.Exhaustive(true)
	if n > 0 {
		return
	}
	prof := luagen.General
	prof.Name, prof.Errors, prof.Close, prof.Coroutines, prof.Meta = "errors", 30, 6, 5, 6
	progcheck.RunRandom(rec, "C11/programs", prof, rec.Pick(400, 4500), rec.Pick(2, 3), harness.Opts{}, func(res luaref.Result) bool {
		caught := res.Feat["pcall-caught"] + res.Feat["xpcall-caught"] + res.Feat["coroutine-error-to-resumer"]
		if caught > 0 {
			rec.Class("random:error-caught")
		}
		if res.Feat["runtime-error"] > 0 {
			rec.Class("random:runtime-error")
		}
		if res.Feat["xpcall-handler-run"] > 0 {
			rec.Class("random:xpcall-handler")
		}
		return caught > 0 && len(res.Events) >= 2
	})
}
