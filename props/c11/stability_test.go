package c11

import (
	"fmt"
	"strings"

	"verif/internal/harness"
	"verif/internal/progcheck"
)

// Repetition stability: "after a caught error the program continues with ...
// the runtime itself in a consistent state (later calls, loops and coroutines
// work)". A snippet that raises and catches an error and returns a signature of
// what it observed (which may include how deep the implementation lets calls
// nest) is run N times in one runtime, from the main thread and from one
// long-lived coroutine: every repetition must observe what the first one did.
// Oracle: metamorphic (iteration i == iteration 1); nothing is assumed about
// the signature itself, so implementation limits are not guessed.

var stabilitySnippets = []struct{ name, body string }{
	{"pcall-nesting-until-overflow", `local function r(n) local ok, d = pcall(r, n + 1) if ok then return d end return n end return r(1)`},
	{"xpcall-nesting-until-overflow", `local function r(n) local ok, d = xpcall(r, function(m) return m end, n + 1) if ok then return d end return n end return r(1)`},
	{"index-metamethod-nesting", `local depth = 0 local t = setmetatable({}, {__index = function(t, k) depth = k return t[k + 1] end}) local ok = pcall(function() return t[1] end) return tostring(ok) .. depth`},
	{"call-metamethod-nesting", `local depth = 0 local t t = setmetatable({}, {__call = function(self, k) depth = k return 1 + t(k + 1) end}) local ok = pcall(t, 1) return tostring(ok) .. depth`},
	{"concat-metamethod-nesting", `local depth = 0 local mt = {} mt.__concat = function(a, b) depth = depth + 1 return setmetatable({}, mt) .. b end local ok = pcall(function() return setmetatable({}, mt) .. "x" end) return tostring(ok) .. depth`},
	{"sort-callback-nesting", `local depth = 0 local function s(n) depth = n table.sort({2, 1}, function(a, b) s(n + 1) return a < b end) end local ok = pcall(s, 1) return tostring(ok) .. depth`},
	{"gsub-callback-nesting", `local depth = 0 local function g(n) depth = n return (("a"):gsub("a", function() return g(n + 1) end)) end local ok = pcall(g, 1) return tostring(ok) .. depth`},
	{"tostring-metamethod-nesting", `local depth = 0 local mt = {} mt.__tostring = function(o) depth = depth + 1 return tostring(setmetatable({}, mt)) end local ok = pcall(tostring, setmetatable({}, mt)) return tostring(ok) .. depth`},
	{"lua-recursion-then-error", `local depth = 0 local function f(n) depth = n if n == 3000 then error({tag = "bottom"}) end return 1 + f(n + 1) end local ok, e = pcall(f, 1) return tostring(ok) .. depth .. tostring(type(e) == "table" and e.tag)`},
	{"coroutine-nesting", `local function nest(n) if n == 60 then error({tag = "bottom"}) end local ok, e = coroutine.resume(coroutine.create(nest), n + 1) if not ok then error(e, 0) end return e end local ok, e = pcall(nest, 1) return tostring(ok) .. type(e) .. tostring(type(e) == "table" and e.tag)`},
	{"error-values", `local t = {} local r = {} for i, v in ipairs({"s", 1, 1.5, true, t}) do local ok, e = pcall(error, v, 0) r[#r + 1] = tostring(ok) .. type(e) .. tostring(rawequal(e, v)) end r[#r + 1] = tostring(select("#", pcall(error))) return table.concat(r, ",")`},
	{"runtime-error-messages", `local r = {} for i, f in ipairs({function() local x return x.y end, function() return 1 + {} end, function() return #5 end, function() return {} < {} end, function() local x x() end, function() return ("a") .. {} end, function() for i = 1, "x" do end end, function() return 1 // 0 end}) do r[#r + 1] = tostring(select(2, pcall(f))) end return table.concat(r, "|")`},
	{"error-with-pending-close", `local log = {} local function closer(id) return setmetatable({}, {__close = function(_, e) log[#log + 1] = id .. tostring(e ~= nil) end}) end local ok, e = pcall(function() local a <close> = closer("a") local b <close> = closer("b") error("x", 0) end) return tostring(ok) .. tostring(e) .. table.concat(log, ",")`},
	{"error-in-close-handler", `local ok, e = pcall(function() local a <close> = setmetatable({}, {__close = function() error("from-close", 0) end}) return 1 end) return tostring(ok) .. tostring(e)`},
	{"error-in-xpcall-handler", `local ok, e = xpcall(error, function(m) error("again", 0) end, "x") return tostring(ok) .. type(e)`},
	{"error-through-wrap", `local w = coroutine.wrap(function() coroutine.yield(1) error({tag = "w"}) end) w() local ok, e = pcall(w) return tostring(ok) .. type(e) .. tostring(select(2, pcall(w)) ~= nil)`},
	{"error-in-coroutine-with-tbc", `local log = 0 local co = coroutine.create(function() local c <close> = setmetatable({}, {__close = function() log = log + 1 end}) error("in-co", 0) end) local ok, e = coroutine.resume(co) return tostring(ok) .. tostring(e) .. log .. coroutine.status(co)`},
	{"close-suspended-coroutine", `local log = 0 local co = coroutine.create(function() local c <close> = setmetatable({}, {__close = function() log = log + 1 error("close-err", 0) end}) coroutine.yield() end) coroutine.resume(co) local ok, e = coroutine.close(co) return tostring(ok) .. tostring(e) .. log .. coroutine.status(co)`},
	{"load-errors", `local r = {} for i, s in ipairs({"x = = 1", "return (", "goto nowhere", "break", "local x <close> = 1", "return 1 +"}) do local f, e = load(s, "=c") r[#r + 1] = tostring(f) .. tostring(e) end return table.concat(r, "|")`},
	{"limits-inside-context", `local ctx = runtime.callcontext({kill = {cpu = 5000}}, function() while true do end end) local ctx2 = runtime.callcontext({kill = {memory = 20000}}, function() local t = {} while true do t[#t + 1] = {} end end) return ctx.status .. ctx2.status`},
}

func stabilityProgram(body string, n int, inCoroutine bool) string {
	loop := fmt.Sprintf(`local function snippet() %s end
local function run()
  local first
  for i = 1, %d do
    local sig = tostring(snippet())
    if i == 1 then first = sig emit("first", (sig:gsub("0x%%x+", "ADDR")))
    elseif sig ~= first and (sig:gsub("0x%%x+", "ADDR")) ~= (first:gsub("0x%%x+", "ADDR")) then emit("differs-at", i, sig) return end
  end
  emit("stable")
end
`, body, n)
	if inCoroutine {
		return loop + `local co = coroutine.wrap(function() run() coroutine.yield("mid") run() end) emit("co", co()) emit("co", co())`
	}
	return loop + "run()"
}

// checkStability returns "" if every repetition observed the same.
func checkStability(c progcheck.Case) string {
	tr := progcheck.RunGolua(c, harness.Opts{CPU: 4_000_000_000})
	if tr.Panic != "" {
		return "Go panic: " + tr.Panic
	}
	if tr.Killed {
		return "" // the safety net, not a verdict
	}
	if tr.ErrTok != "" {
		return "the template itself raised: " + tr.ErrTok
	}
	stable := 0
	for _, e := range tr.Events {
		if strings.HasPrefix(e, `s:"differs-at"`) {
			return fmt.Sprintf("a repetition of the same error-and-catch snippet in the same runtime observed something else than the first one: %s (first: %s)", e, tr.Events[0])
		}
		if e == `s:"stable"` {
			stable++
		}
	}
	if stable == 0 {
		return fmt.Sprintf("the template did not finish: events %v", tr.Events)
	}
	return ""
}
