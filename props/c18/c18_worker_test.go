package c18

import (
	"bufio"
	"encoding/json"
	"fmt"
	"io"
	"os"
	"os/exec"
	"runtime"
	"strconv"
	"strings"
	"sync"
	"testing"
	"time"

	"github.com/arnodel/golua/lib"
	rt "github.com/arnodel/golua/runtime"
)

// Histories are executed in a worker subprocess (this same test binary, run
// with -test.run ^TestC18Worker$): a defect in the finaliser machinery can end
// in a Go fatal error (runtime.SetFinalizer: finalizer already set), which no
// recover() can stop; run in-process it would kill the shard instead of being
// reported as a violation with a replay file.

type request struct {
	Case  Case `json:"case"`
	Guard bool `json:"guard"` // skip re-marking in another GC-isolated context (open finding)
}

type response struct {
	Log   []string `json:"log"`
	Panic string   `json:"panic,omitempty"`
}

// ---------------------------------------------------------------------------
// worker side

type resource struct {
	id, own int64
	lg      *logger
}

// ReleaseResources makes *resource a runtime.UserDataResourceReleaser.
func (r *resource) ReleaseResources(d *rt.UserData) {
	r.lg.add("release " + strconv.FormatInt(r.id, 10))
}

type logger struct {
	mu      sync.Mutex
	entries []string
}

func (l *logger) add(s string) {
	l.mu.Lock()
	if len(l.entries) < 200000 {
		l.entries = append(l.entries, s)
	}
	l.mu.Unlock()
}

const allFlags = rt.ComplyCpuSafe | rt.ComplyMemSafe | rt.ComplyIoSafe | rt.ComplyTimeSafe

func goGC(n int) {
	for i := 0; i < n; i++ {
		runtime.GC()
		time.Sleep(150 * time.Microsecond) // lets Go's finaliser goroutine run; nothing depends on it
	}
}

func runHistory(req request) (resp response) {
	lg := &logger{}
	defer func() {
		if p := recover(); p != nil {
			resp.Panic = fmt.Sprint(p)
		}
		lg.mu.Lock()
		resp.Log = append([]string(nil), lg.entries...)
		lg.mu.Unlock()
	}()
	r := rt.New(io.Discard)
	cleanup := lib.LoadAll(r)
	env := r.GlobalEnv()
	r.SetEnvGoFunc(env, "log", func(t *rt.Thread, c *rt.GoCont) (rt.Cont, error) {
		var sb strings.Builder
		for i, v := range c.Etc() {
			if i > 0 {
				sb.WriteByte(' ')
			}
			s, ok := v.ToString()
			if !ok {
				s = v.TypeName()
			}
			sb.WriteString(s)
		}
		lg.add(sb.String())
		return c.Next(), nil
	}, 0, true).SolemnlyDeclareCompliance(allFlags)
	r.SetEnvGoFunc(env, "gc", func(t *rt.Thread, c *rt.GoCont) (rt.Cont, error) {
		t.CollectGarbage() // runtime.GC() + pending finalisers of the current context
		time.Sleep(150 * time.Microsecond)
		return c.Next(), nil
	}, 0, false).SolemnlyDeclareCompliance(allFlags)
	r.SetEnvGoFunc(env, "gogc", func(t *rt.Thread, c *rt.GoCont) (rt.Cont, error) {
		goGC(1) // Go's collector only: the runtime finds what is pending between two continuations
		return c.Next(), nil
	}, 0, false).SolemnlyDeclareCompliance(allFlags)
	r.SetEnvGoFunc(env, "newres", func(t *rt.Thread, c *rt.GoCont) (rt.Cont, error) {
		if err := c.CheckNArgs(2); err != nil {
			return nil, err
		}
		id, err := c.IntArg(0)
		if err != nil {
			return nil, err
		}
		own, err := c.IntArg(1)
		if err != nil {
			return nil, err
		}
		var meta *rt.Table
		if c.NArgs() > 2 {
			if meta, err = c.TableArg(2); err != nil {
				return nil, err
			}
		}
		u := t.NewUserDataValue(&resource{id: id, own: own, lg: lg}, meta)
		return c.PushingNext1(t.Runtime, u), nil
	}, 3, false).SolemnlyDeclareCompliance(allFlags)
	r.SetEnvGoFunc(env, "resinfo", func(t *rt.Thread, c *rt.GoCont) (rt.Cont, error) {
		if err := c.Check1Arg(); err != nil {
			return nil, err
		}
		u, err := c.UserDataArg(0)
		if err != nil {
			return nil, err
		}
		res, ok := u.Value().(*resource)
		if !ok {
			return nil, fmt.Errorf("not a resource")
		}
		next := c.Next()
		t.Push(next, rt.IntValue(res.id), rt.IntValue(res.own))
		return next, nil
	}, 1, false).SolemnlyDeclareCompliance(allFlags)

	runChunk := func(name, src string) {
		clos, err := r.CompileAndLoadLuaChunk(name, []byte(src), rt.TableValue(env))
		if err != nil {
			lg.add("chunkerr compile " + strings.ReplaceAll(err.Error(), "\n", " "))
			return
		}
		if err := rt.Call(r.MainThread(), rt.FunctionValue(clos), nil, rt.NewTerminationWith(nil, 0, false)); err != nil {
			lg.add("chunkerr run " + strings.ReplaceAll(err.Error(), "\n", " "))
		}
	}
	switch req.Case.Base {
	case "flags":
		r.PushContext(rt.RuntimeContextDef{RequiredFlags: rt.ComplyCpuSafe | rt.ComplyMemSafe})
	case "soft":
		r.PushContext(rt.RuntimeContextDef{SoftLimits: rt.RuntimeResources{Cpu: 1 << 40}})
	case "cpu":
		r.PushContext(rt.RuntimeContextDef{HardLimits: rt.RuntimeResources{Cpu: baseCPU}})
	}
	guard := "false"
	if req.Guard {
		guard = "true"
	}
	runChunk("prelude", "GUARD = "+guard+"\n"+prelude)
	if req.Case.Bulk > 0 {
		// the hand-over between Go's finaliser goroutine and the runtime needs
		// real parallelism to go wrong
		defer runtime.GOMAXPROCS(runtime.GOMAXPROCS(8))
		// many releasable values die per collection while the program keeps
		// running: Go's finaliser goroutine hands them to the pool while the
		// runtime extracts the pending ones between continuations
		runChunk("bulk", fmt.Sprintf(`
local id = 0
for round = 1, %d do
  for i = 1, %d do id = id + 1 local u = newres(id, 0) end
  gc()
  local x = 0
  for i = 1, 200000 do x = x + i %% 7 end
  gc()
  for i = 1, 100000 do x = x + i %% 5 end
end
log("bulk-created", id)
`, req.Case.BulkRounds, req.Case.Bulk))
		goGC(3)
		runChunk("bulk-tail", "local x = 0 for i = 1, 30000 do x = x + i % 3 end")
	}
	if req.Case.Mid != nil {
		runChunk("mid", req.Case.Mid.Program())
	}
	for i, s := range req.Case.Stmts {
		lg.add("step " + strconv.Itoa(i+1))
		switch s.Op {
		case "gogc":
			goGC(s.N)
		case "gocollect":
			for j := 0; j < s.N; j++ {
				r.MainThread().CollectGarbage()
				time.Sleep(150 * time.Microsecond)
			}
		default:
			runChunk("step"+strconv.Itoa(i+1), s.Lua())
		}
	}
	lg.add("close-begin")
	var cerr error
	r.Close(&cerr)
	if cerr != nil {
		lg.add("chunkerr close " + cerr.Error())
	}
	lg.add("close-end")
	cleanup()
	// anything that still fires after Close is a violation (the oracle sees it)
	goGC(1)
	lg.add("end")
	return
}

// TestC18Worker is the subprocess entry point; it is inert when run normally.
func TestC18Worker(t *testing.T) {
	if os.Getenv("C18_WORKER") != "1" {
		t.Skip("worker entry point")
	}
	in := bufio.NewReaderSize(os.NewFile(3, "req"), 1<<20)
	out := os.NewFile(4, "resp")
	for {
		line, err := in.ReadBytes('\n')
		if len(line) > 0 {
			var req request
			if jerr := json.Unmarshal(line, &req); jerr != nil {
				fmt.Fprintf(os.Stderr, "worker: bad request: %v\n", jerr)
				os.Exit(3)
			}
			resp := runHistory(req)
			b, _ := json.Marshal(resp)
			b = append(b, '\n')
			if _, werr := out.Write(b); werr != nil {
				os.Exit(0)
			}
		}
		if err != nil {
			os.Exit(0)
		}
	}
}

// ---------------------------------------------------------------------------
// parent side

type tailBuf struct {
	mu  sync.Mutex
	buf []byte
}

func (t *tailBuf) Write(p []byte) (int, error) {
	t.mu.Lock()
	t.buf = append(t.buf, p...)
	if len(t.buf) > 16000 {
		t.buf = t.buf[len(t.buf)-8000:]
	}
	t.mu.Unlock()
	return len(p), nil
}

func (t *tailBuf) String() string {
	t.mu.Lock()
	defer t.mu.Unlock()
	return string(t.buf)
}

// head returns the first lines of a Go crash report (the fatal error line and
// the top frames), which identify the cause.
func crashHead(s string) string {
	if i := strings.Index(s, "fatal error:"); i >= 0 {
		s = s[i:]
	} else if i := strings.Index(s, "panic:"); i >= 0 {
		s = s[i:]
	}
	lines := strings.Split(s, "\n")
	var keep []string
	for _, l := range lines {
		if strings.Contains(l, "fatal error") || strings.Contains(l, "panic:") || strings.Contains(l, "golua/") {
			keep = append(keep, strings.TrimSpace(l))
		}
		if len(keep) >= 8 {
			break
		}
	}
	return strings.Join(keep, " | ")
}

type worker struct {
	cmd    *exec.Cmd
	reqW   *os.File
	respR  *bufio.Reader
	respF  *os.File
	stderr *tailBuf
	served int
}

type pool struct {
	w       *worker
	started int
}

func startWorker(procs int) (*worker, error) {
	exe, err := os.Executable()
	if err != nil {
		exe = os.Args[0]
	}
	reqR, reqW, err := os.Pipe()
	if err != nil {
		return nil, err
	}
	respR, respW, err := os.Pipe()
	if err != nil {
		return nil, err
	}
	cmd := exec.Command(exe, "-test.run", "^TestC18Worker$", "-test.timeout", "0", "-test.count", "1")
	cmd.Env = append(os.Environ(), "C18_WORKER=1", "VERIF_OUT=", "VERIF_REPLAY=", "GOMAXPROCS="+strconv.Itoa(procs))
	cmd.ExtraFiles = []*os.File{reqR, respW}
	tb := &tailBuf{}
	cmd.Stderr = tb
	cmd.Stdout = tb
	if err := cmd.Start(); err != nil {
		return nil, err
	}
	reqR.Close()
	respW.Close()
	return &worker{cmd: cmd, reqW: reqW, respF: respR, respR: bufio.NewReaderSize(respR, 1<<20), stderr: tb}, nil
}

func (w *worker) stop() {
	w.reqW.Close()
	done := make(chan struct{})
	go func() { w.cmd.Wait(); close(done) }()
	select {
	case <-done:
	case <-time.After(5 * time.Second):
		w.cmd.Process.Kill()
		<-done
	}
	w.respF.Close()
}

type runResult struct {
	resp    *response
	crash   string // non-empty: the worker process died; head of its crash report
	timeout bool
}

const workerTimeout = 180 * time.Second

// run executes one history in the worker (starting or replacing it as needed).
func (p *pool) run(req request) runResult {
	if os.Getenv("C18_INPROC") == "1" { // developer knob (profiling); a fatal error then kills the test
		if !req.Guard {
			return runResult{crash: "not run in-process"}
		}
		resp := runHistory(req)
		return runResult{resp: &resp}
	}
	// A closed runtime whose marked values are still referenced from its globals
	// is never freed by Go (ClonePool leaves Go finalisers on values that sit in
	// a reference cycle through their __gc closure's environment), so the worker
	// heap - and with it the cost of every forced collection - grows with each
	// history: recycle the worker often.
	if p.w != nil && p.w.served >= 25 {
		p.w.stop()
		p.w = nil
	}
	if p.w == nil {
		// alternate between a single-threaded worker (Go's finaliser goroutine
		// only runs when the interpreter sleeps) and a parallel one (it runs
		// concurrently with the interpreter)
		p.started++
		w, err := startWorker(1 + 3*(p.started%2))
		if err != nil {
			panic("cannot start worker: " + err.Error())
		}
		p.w = w
	}
	w := p.w
	w.served++
	b, _ := json.Marshal(req)
	b = append(b, '\n')
	type rd struct {
		line []byte
		err  error
	}
	ch := make(chan rd, 1)
	go func() {
		if _, err := w.reqW.Write(b); err != nil {
			ch <- rd{nil, err}
			return
		}
		line, err := w.respR.ReadBytes('\n')
		ch <- rd{line, err}
	}()
	select {
	case r := <-ch:
		if r.err != nil || len(r.line) == 0 {
			w.cmd.Wait()
			crash := crashHead(w.stderr.String())
			if crash == "" {
				crash = "worker died: " + fmt.Sprint(r.err, " ", w.cmd.ProcessState)
			}
			w.reqW.Close()
			w.respF.Close()
			p.w = nil
			return runResult{crash: crash}
		}
		var resp response
		if err := json.Unmarshal(r.line, &resp); err != nil {
			panic("bad worker response: " + err.Error())
		}
		return runResult{resp: &resp}
	case <-time.After(workerTimeout):
		w.cmd.Process.Kill()
		w.cmd.Wait()
		w.reqW.Close()
		w.respF.Close()
		p.w = nil
		return runResult{timeout: true}
	}
}

func (p *pool) close() {
	if p.w != nil {
		p.w.stop()
		p.w = nil
	}
}
