package c18

import (
	"fmt"
	"sort"
	"strconv"
	"strings"
)

// The oracle replays the log of one history against a small model of the
// program state (which ids are reachable from the global slots / the
// resurrection and keep tables, which marking epochs are open in which
// GC-isolated context) and checks timing-independent invariants:
//
//  - a __gc call is only legal for an id with an open (marked, not yet
//    finalised) epoch in the context that is current: at most once per epoch,
//    never after its owning context ended, never in another context;
//  - outside the end phase of the owning context / Close, the finalised (or
//    released) id must not be reachable;
//  - when an isolated context ends without being killed (and at Close), every
//    epoch opened before the end phase was finalised exactly once; the
//    finalisers of the values still reachable at that point (which can only
//    have been run by the end-of-context sweep) ran in reverse marking order;
//  - when a context is killed its still-reachable marked values are not
//    finalised at all (killed while its finalisers run: only those after the
//    cut-off one are skipped);
//  - a resource is released exactly once per owning context, by the end of
//    that context whatever its status, and not before its pending finaliser
//    (unless finalisers were skipped by a kill);
//  - a finaliser sees the hard limits of the context the value was marked in,
//    the context's status is the one the history implies (a finaliser burning
//    more CPU than the limit kills that context and only it), and completed
//    CPU burns show up in the context's used CPU.
//
// Where the manual/quotas.md are silent nothing is asserted: re-marking before
// finalisation may keep the first or take the last marking position; marks
// made during an end phase create no obligation (manual 2.5.3: "these marks
// have no effect"); contexts without a hard limit of their own share their
// parent's pool.

type violation struct {
	Kind string
	Msg  string
}

type histStats struct {
	Pending      int // finalisers run during ordinary execution (Go's GC collected the value)
	AtEnd        int // run by the end-of-context sweep (value was still reachable)
	AtClose      int // run inside Runtime.Close
	EndOrPending int // run in an end phase for a value that was already garbage
	KillSkipped  int // epochs of killed contexts that were never finalised
	LostExempt   int // "never finalised" tolerated because of the open finding
	Releases     int
	ReleaseKill  int // releases performed for a killed context
	ReleaseEarly int // releases before the end phase (Go collected the resource)
	Guarded      int // re-marks skipped because of the open cross-context finding
	CtxDone      int
	CtxError     int
	CtxKilled    int
	KilledByFin  int // contexts killed by a finaliser in their end phase
	Marks        int
}

type epoch struct {
	pool      *poolM
	id        int
	kind      byte
	firstMark int
	lastMark  int
	confirmed bool
	variant   string
	arg       int
	path      []*ctxM
	count     int
	finAt     int
	done      bool
	inPhase   bool
	released  bool
}

type relEpoch struct {
	id        int
	markPos   int
	confirmed bool
	count     int
	relAt     int
}

type poolM struct {
	name   string
	fin    map[int]*epoch // latest epoch per id
	all    []*epoch
	rel    map[int]*relEpoch
	closed bool
}

func newPool(name string) *poolM {
	return &poolM{name: name, fin: map[int]*epoch{}, rel: map[int]*relEpoch{}}
}

type ctxM struct {
	def      *CtxDef // nil: root
	pool     *poolM
	ownsPool bool
	kc, km   int
	phase    string // "", bodyend, preerror, prekill, close
	phasePos int
	held     map[int]bool // reachable ids at phase start
	burn     int
	// popped: an event showed that golua has already popped this context; the
	// Lua code that logs "exit" runs a little later, and pending finalisers of
	// the parent may run in between.
	popped bool
	// entering: limits of the child context that is being entered (between
	// "preenter" and "enter" pending finalisers of a shared pool may already
	// run inside the child).
	entering *[2]int
}

func (c *ctxM) name() string {
	if c.def == nil {
		return "the root context"
	}
	return fmt.Sprintf("context %d (%s)", c.def.CID, c.def.Kind)
}

type oracle struct {
	c       Case
	ctxs    map[int]*CtxDef
	kfLost  bool
	slots   [nSlots + 1]int
	ref     map[int]int
	rz      map[int]bool
	kept    map[int]bool
	stack   []*ctxM
	pools   []*poolM
	running *epoch
	pending *epoch
	pendRel *relEpoch
	closed  bool
	st      histStats
	log     []string
}

func (o *oracle) top() *ctxM { return o.stack[len(o.stack)-1] }

// eff is the context golua is really in: the parent once top was popped.
func (o *oracle) eff() *ctxM {
	t := o.top()
	if t.popped {
		return o.stack[len(o.stack)-2]
	}
	return t
}

func (o *oracle) inWindow() bool {
	t := o.top()
	return t.def != nil && t.phase != "" && !t.popped
}

func (o *oracle) reachable() map[int]bool {
	seen := map[int]bool{}
	var work []int
	add := func(id int) {
		if id != 0 && !seen[id] {
			seen[id] = true
			work = append(work, id)
		}
	}
	for _, id := range o.slots {
		add(id)
	}
	for id := range o.rz {
		add(id)
	}
	for id := range o.kept {
		add(id)
	}
	for len(work) > 0 {
		id := work[len(work)-1]
		work = work[:len(work)-1]
		add(o.ref[id])
	}
	return seen
}

func atoi(s string) int {
	n, err := strconv.Atoi(s)
	if err != nil {
		return -999999
	}
	return n
}

func (o *oracle) where(pos int) string {
	lo := pos - 6
	if lo < 0 {
		lo = 0
	}
	hi := pos + 3
	if hi > len(o.log) {
		hi = len(o.log)
	}
	var sb strings.Builder
	for i := lo; i < hi; i++ {
		mark := "   "
		if i == pos {
			mark = " > "
		}
		fmt.Fprintf(&sb, "\n      %s[%d] %s", mark, i, o.log[i])
	}
	return sb.String()
}

func inPath(path []*ctxM, c *ctxM) bool {
	for _, p := range path {
		if p == c {
			return true
		}
	}
	return false
}

// checkLog returns the first violation (nil if none) and the statistics.
func checkLog(c Case, log []string, kfLost bool) (*violation, histStats) {
	o := &oracle{c: c, ctxs: c.contexts(), kfLost: kfLost, ref: map[int]int{}, rz: map[int]bool{}, kept: map[int]bool{}, log: log}
	rootPool := newPool("root")
	o.pools = append(o.pools, rootPool)
	root := &ctxM{pool: rootPool, ownsPool: true}
	if c.Base == "cpu" {
		root.kc = baseCPU
	}
	o.stack = []*ctxM{root}
	for pos, line := range log {
		if v := o.event(pos, strings.Fields(line)); v != nil {
			v.Msg += o.where(pos)
			return v, o.st
		}
	}
	if !o.closed {
		return &violation{"harness", "log has no close-end entry"}, o.st
	}
	return nil, o.st
}

func (o *oracle) event(pos int, f []string) *violation {
	if len(f) == 0 {
		return nil
	}
	top := o.top()
	bad := func(kind, format string, a ...any) *violation {
		return &violation{kind, fmt.Sprintf(format, a...)}
	}
	switch f[0] {
	case "step", "nop", "gogc", "end":
	case "chunkerr":
		return bad("chunk-error", "a chunk of the history failed: %s", strings.Join(f[1:], " "))
	case "notreached":
		return bad("not-killed", "context %s went on running after the action that must kill it", f[1])
	case "guarded":
		o.st.Guarded++
	case "set":
		o.slots[atoi(f[1])] = atoi(f[2])
	case "drop":
		o.slots[atoi(f[1])] = 0
	case "copy":
		o.slots[atoi(f[2])] = o.slots[atoi(f[1])]
	case "link":
		if a := o.slots[atoi(f[1])]; a != 0 {
			if b := o.slots[atoi(f[2])]; b != 0 {
				o.ref[a] = b
			} else {
				delete(o.ref, a)
			}
		}
	case "unlink":
		delete(o.ref, o.slots[atoi(f[1])])
	case "res":
		o.rz[atoi(f[1])] = true
	case "unres":
		delete(o.rz, atoi(f[1]))
	case "unresall":
		o.rz = map[int]bool{}
	case "keep":
		o.kept[atoi(f[1])] = true
	case "unkeepall":
		o.kept = map[int]bool{}

	case "mark": // mark id kind variant arg
		id, kind, variant, arg := atoi(f[1]), f[2][0], f[3], atoi(f[4])
		o.st.Marks++
		cur := o.eff()
		p := cur.pool
		o.pending, o.pendRel = nil, nil
		if variant != "none" {
			ep := p.fin[id]
			if ep == nil || ep.count > 0 {
				path := append([]*ctxM(nil), o.stack...)
				if top.popped {
					path = path[:len(path)-1]
				}
				ep = &epoch{pool: p, id: id, kind: kind, firstMark: pos, path: path, inPhase: cur.phase != ""}
				p.fin[id] = ep
				p.all = append(p.all, ep)
			}
			ep.lastMark, ep.variant, ep.arg = pos, variant, arg
			o.pending = ep
		}
		if kind == 'R' && p.rel[id] == nil {
			p.rel[id] = &relEpoch{id: id, markPos: pos}
			o.pendRel = p.rel[id]
		}
	case "marked":
		id := atoi(f[1])
		if o.pending != nil && o.pending.id == id {
			o.pending.confirmed = true
		}
		if o.pendRel != nil && o.pendRel.id == id {
			o.pendRel.confirmed = true
		}
		o.pending, o.pendRel = nil, nil

	case "gc": // gc id killcpu killmem
		id, kc, km := atoi(f[1]), atoi(f[2]), atoi(f[3])
		if o.closed {
			return bad("after-close", "finaliser of %d ran after Runtime.Close returned", id)
		}
		if o.inWindow() {
			// the context may already have been popped: the observed limits tell
			parent := o.stack[len(o.stack)-2]
			if (kc != top.kc || km != top.km) && kc == parent.kc && km == parent.km {
				top.popped = true
			}
		}
		top = o.eff()
		if e := top.entering; e != nil && e[0] == kc && e[1] == km {
			kc, km = top.kc, top.km // already inside the (pool-sharing) child being entered
		}
		p := top.pool
		ep := p.fin[id]
		if ep == nil {
			for _, q := range o.pools {
				if q != p && q.fin[id] != nil {
					return bad("wrong-context", "finaliser of %d ran in %s, but the value was marked in pool %s (closed=%v)", id, top.name(), q.name, q.closed)
				}
			}
			return bad("unmarked", "finaliser of %d ran although it was never marked", id)
		}
		if ep.count > 0 {
			return bad("double-finalise", "value %d finalised again (first at log[%d]) without having been marked again", id, ep.finAt)
		}
		if ep.released {
			return bad("finalise-after-release", "finaliser of resource %d ran after its release", id)
		}
		ep.count++
		ep.finAt = pos
		o.running = ep
		tolerant := (top.phase == "bodyend" || top.phase == "preerror" || top.phase == "close") && inPath(ep.path, top)
		reach := o.reachable()[id]
		switch {
		case top.phase == "close":
			o.st.AtClose++
		case tolerant && top.held[id]:
			o.st.AtEnd++
		case tolerant:
			o.st.EndOrPending++
		default:
			o.st.Pending++
		}
		if !tolerant && reach {
			extra := ""
			if top.phase == "prekill" {
				extra = " (its context is being killed: finalisers must be skipped)"
			}
			return bad("finalised-while-reachable", "value %d finalised in %s while the program can still reach it%s", id, top.name(), extra)
		}
		if kc != top.kc || km != top.km {
			return bad("finaliser-context", "finaliser of %d sees hard limits cpu=%d mem=%d, but it must run in %s whose limits are cpu=%d mem=%d", id, kc, km, top.name(), top.kc, top.km)
		}
	case "gcdone":
		id := atoi(f[1])
		if o.running != nil && o.running.id == id {
			o.running.done = true
			if o.running.variant == "burn" {
				for _, c := range o.stack {
					if c.popped {
						continue
					}
					if c.phase != "" && c.def != nil && !(c.ownsPool && o.running.pool == c.pool) {
						// between the end of the body and the "exit" entry golua may
						// already be back in the parent: only a finaliser of the
						// context's own pool is certainly charged to it
						continue
					}
					c.burn += o.running.arg
				}
			}
		}
		o.running = nil

	case "release":
		id := atoi(f[1])
		if o.closed {
			return bad("after-close", "resource %d released after Runtime.Close returned", id)
		}
		if o.inWindow() {
			if re := top.pool.rel[id]; re == nil || re.count > 0 {
				if o.stack[len(o.stack)-2].pool.rel[id] != nil {
					top.popped = true // a pending release of the parent's pool, after the pop
				}
			}
		}
		top = o.eff()
		p := top.pool
		re := p.rel[id]
		if re == nil {
			return bad("release-wrong-context", "resource %d released in %s, where it was not created/marked", id, top.name())
		}
		re.count++
		if re.count > 1 {
			return bad("double-release", "resource %d released twice (first at log[%d])", id, re.relAt)
		}
		re.relAt = pos
		o.st.Releases++
		inEnd := top.phase != "" && top.ownsPool
		if !inEnd {
			o.st.ReleaseEarly++
			if o.reachable()[id] {
				return bad("released-while-reachable", "resource %d released while the program can still reach it", id)
			}
		}
		if ep := p.fin[id]; ep != nil {
			if ep.count == 0 && ep.confirmed && !ep.inPhase {
				skippedByKill := inEnd && top.def != nil && o.exitStatus(pos, top.def.CID) == "killed"
				lost := o.kfLost && inEnd && !top.held[id]
				if !skippedByKill && !lost {
					return bad("release-before-finaliser", "resource %d released although its pending finaliser has not run", id)
				}
			}
			ep.released = true
		}

	case "preenter":
		want := "enter " + f[1] + " "
		for i := pos; i < len(o.log); i++ {
			if strings.HasPrefix(o.log[i], want) {
				g := strings.Fields(o.log[i])
				top.entering = &[2]int{atoi(g[2]), atoi(g[3])}
				break
			}
		}
	case "enter":
		top.entering = nil
		cid := atoi(f[1])
		def := o.ctxs[cid]
		if def == nil {
			return bad("harness", "unknown context %d", cid)
		}
		c := &ctxM{def: def, kc: atoi(f[2]), km: atoi(f[3])}
		if def.isolated() {
			c.pool = newPool(fmt.Sprintf("ctx%d", cid))
			c.ownsPool = true
			o.pools = append(o.pools, c.pool)
		} else {
			c.pool = top.pool
		}
		o.stack = append(o.stack, c)
	case "bodyend", "preerror", "prekill":
		if top.def == nil || top.def.CID != atoi(f[1]) {
			return bad("harness", "%s %s does not match the current context", f[0], f[1])
		}
		top.phase, top.phasePos, top.held = f[0], pos, o.reachable()
	case "exit": // exit cid status usedcpu usedmem
		cid, status, ucpu := atoi(f[1]), f[2], atoi(f[3])
		if top.def == nil || top.def.CID != cid {
			return bad("harness", "exit %d does not match the current context", cid)
		}
		if v := o.endOfContext(top, status, pos); v != nil {
			return v
		}
		if ucpu >= 0 && ucpu < top.burn {
			return bad("cpu-not-charged", "context %d reports used cpu %d, but finalisers that ran to completion inside it burnt at least %d loop iterations", cid, ucpu, top.burn)
		}
		o.stack = o.stack[:len(o.stack)-1]
	case "close-begin":
		if len(o.stack) != 1 {
			return bad("harness", "close with %d contexts open", len(o.stack)-1)
		}
		top.phase, top.phasePos, top.held = "close", pos, o.reachable()
	case "close-end":
		if v := o.endOfContext(top, "done", pos); v != nil {
			return v
		}
		o.closed = true
	default:
		return bad("harness", "unknown log entry %q", strings.Join(f, " "))
	}
	return nil
}

// exitStatus looks ahead for the status with which context cid ends.
func (o *oracle) exitStatus(from, cid int) string {
	want := "exit " + strconv.Itoa(cid) + " "
	for i := from; i < len(o.log); i++ {
		if strings.HasPrefix(o.log[i], want) {
			f := strings.Fields(o.log[i])
			return f[2]
		}
	}
	return ""
}

func (o *oracle) endOfContext(c *ctxM, status string, pos int) *violation {
	bad := func(kind, format string, a ...any) *violation {
		return &violation{kind, fmt.Sprintf(format, a...)}
	}
	p := c.pool
	// 1. the status the history implies
	if c.def != nil {
		exp := map[string]string{"normal": "done", "error": "error"}[c.def.End]
		if exp == "" {
			exp = "killed"
		}
		if exp != "killed" && c.ownsPool && c.phase != "" {
			for _, e := range p.all {
				if e.variant == "bigburn" && e.confirmed && !e.inPhase && (e.count == 0 || e.finAt > c.phasePos) {
					exp = "killed" // its finaliser burns more CPU than the context may use
				}
			}
		}
		if status != exp {
			return bad("status", "%s ended with status %q, the history implies %q", c.name(), status, exp)
		}
		switch status {
		case "done":
			o.st.CtxDone++
		case "error":
			o.st.CtxError++
		case "killed":
			o.st.CtxKilled++
		}
	}
	if !c.ownsPool {
		return nil
	}
	// 2. finalisers
	var cut *epoch
	killedAtEnd := status == "killed" && (c.phase == "bodyend" || c.phase == "preerror")
	if killedAtEnd {
		o.st.KilledByFin++
		for _, e := range p.all {
			if e.count > 0 && e.finAt > c.phasePos && !e.done && e.variant == "bigburn" {
				cut = e
			}
		}
		if cut == nil {
			return bad("status", "%s was killed while running its finalisers, but no finaliser was cut off", c.name())
		}
	}
	var batch []*epoch
	for _, e := range p.all {
		if !e.confirmed || e.inPhase {
			continue
		}
		held := c.held[e.id] && (e.count == 0 || e.finAt > c.phasePos)
		switch {
		case status != "killed":
			if e.count == 0 {
				if o.kfLost && !c.held[e.id] {
					o.st.LostExempt++
				} else {
					return bad("not-finalised", "value %d (marked at log[%d] in %s) was not finalised by the end of %s", e.id, e.firstMark, p.name, c.name())
				}
			}
		case killedAtEnd:
			if held && e != cut {
				if e.firstMark > cut.lastMark && e.count == 0 {
					return bad("not-finalised", "value %d was marked after %d, whose finaliser ran (and killed %s), but was itself not finalised", e.id, cut.id, c.name())
				}
				if e.lastMark < cut.firstMark && e.count > 0 {
					return bad("finalised-after-kill", "value %d was marked before %d, whose finaliser killed %s, yet its finaliser ran", e.id, cut.id, c.name())
				}
			}
			if e.count == 0 {
				o.st.KillSkipped++
			}
		default:
			if e.count == 0 {
				o.st.KillSkipped++
			}
		}
		if held && e.count > 0 && c.phase != "prekill" {
			batch = append(batch, e)
		}
	}
	// 3. reverse marking order among the values only the end sweep can have finalised
	sort.Slice(batch, func(i, j int) bool { return batch[i].finAt < batch[j].finAt })
	for i := 0; i < len(batch); i++ {
		for j := i + 1; j < len(batch); j++ {
			if batch[i].lastMark < batch[j].firstMark {
				return bad("order", "at the end of %s value %d (marked at log[%d..%d]) was finalised before value %d (marked later, at log[%d..%d]): not the reverse order of marking",
					c.name(), batch[i].id, batch[i].firstMark, batch[i].lastMark, batch[j].id, batch[j].firstMark, batch[j].lastMark)
			}
		}
	}
	// 4. releases: exactly once, whatever the status
	ids := make([]int, 0, len(p.rel))
	for id := range p.rel {
		ids = append(ids, id)
	}
	sort.Ints(ids)
	for _, id := range ids {
		re := p.rel[id]
		if !re.confirmed {
			continue
		}
		if re.count == 0 {
			return bad("not-released", "resource %d was not released by the end of %s (status %s)", id, c.name(), status)
		}
		if status == "killed" && re.relAt > c.phasePos && c.phase != "" {
			o.st.ReleaseKill++
		}
	}
	p.closed = true
	return nil
}
