package c18

import (
	"fmt"
	"strings"

	"pgregory.net/rapid"
)

// Mid-body kills: a limited context is killed in the MIDDLE of its body by a
// finaliser that a collection (not the end-of-context sweep) has triggered,
// while releasable values of the same context are pending too. The history
// generator of c18_case_test.go keeps a value with a CPU-burning finaliser
// reachable until its context ends (the reachability model needs to know when
// the kill happens); this family covers the other timing with an oracle that
// does not need to know it: whatever the collector did, by the time the killed
// context has been left every resource created in it has been released exactly
// once, no finaliser ran after the kill, and the killer did not run to its end.

type MidItem struct {
	Kind string `json:"kind"` // rel: releasable userdata without __gc; relgc: releasable userdata with a plain __gc; tgc: table with a plain __gc; killer: table whose __gc burns more CPU than the context may use
	Keep bool   `json:"keep,omitempty"`
}

type MidCase struct {
	Items  []MidItem `json:"items"`            // in creation (marking) order; exactly one killer, never kept
	Kind   string    `json:"kind"`             // cpu | both: the hard limits of the context
	Outer  string    `json:"outer,omitempty"`  // "", cpu (enclosing limited context), flags (enclosing pool-sharing context)
	HostGC bool      `json:"hostgc,omitempty"` // collections are plain runtime.GC() calls (the runtime finds the pending values between two continuations) instead of Thread.CollectGarbage
	Spread bool      `json:"spread,omitempty"` // the killer is dropped one collection later than the other values
}

const (
	midLimit = 300000
	midBurn  = 10000000
)

func genMid(t *rapid.T) *MidCase {
	m := &MidCase{
		Kind:   rapid.SampledFrom([]string{"cpu", "cpu", "both"}).Draw(t, "kind"),
		Outer:  rapid.SampledFrom([]string{"", "", "cpu", "flags"}).Draw(t, "outer"),
		HostGC: rapid.Bool().Draw(t, "hostgc"),
		Spread: rapid.IntRange(0, 3).Draw(t, "spread") == 0,
	}
	n := rapid.IntRange(1, 7).Draw(t, "nitems")
	killerAt := rapid.IntRange(0, n).Draw(t, "killerAt")
	for i := 0; i <= n; i++ {
		if i == killerAt {
			m.Items = append(m.Items, MidItem{Kind: "killer"})
			continue
		}
		k := rapid.SampledFrom([]string{"rel", "rel", "rel", "relgc", "relgc", "tgc"}).Draw(t, "item")
		m.Items = append(m.Items, MidItem{Kind: k, Keep: rapid.IntRange(0, 4).Draw(t, "keep") == 0})
	}
	return m
}

// Program renders the chunk (it uses log/newres of the prelude and the host
// functions gc and gogc).
func (m *MidCase) Program() string {
	var sb strings.Builder
	w := func(format string, a ...any) { fmt.Fprintf(&sb, format+"\n", a...) }
	def := fmt.Sprintf("{kill={cpu=%d}}", midLimit)
	if m.Kind == "both" {
		def = fmt.Sprintf("{kill={cpu=%d, memory=50000000}}", midLimit)
	}
	collect := "gc"
	if m.HostGC {
		collect = "gogc"
	}
	w("MK = {}")
	w("local function body()")
	w("  local late")
	w("  local ctx = runtime.callcontext(%s, function()", def)
	w("    log('mid-enter')")
	w("    do")
	w("      local o")
	for i, it := range m.Items {
		id := i + 1
		var mk string
		switch it.Kind {
		case "rel":
			mk = fmt.Sprintf("newres(%d, 0)", id)
		case "relgc":
			mk = fmt.Sprintf("newres(%d, 0, {__gc = function() log('mid-gc', %d) end})", id, id)
		case "tgc":
			mk = fmt.Sprintf("setmetatable({}, {__gc = function() log('mid-gc', %d) end})", id)
		case "killer":
			mk = fmt.Sprintf("setmetatable({}, {__gc = function() log('mid-kill-begin') for i = 1, %d do end log('mid-kill-end') end})", midBurn)
		}
		switch {
		case it.Kind == "killer" && m.Spread:
			w("      late = %s", mk)
		case it.Keep:
			w("      MK[%d] = %s", id, mk)
		default:
			w("      o = %s", mk)
		}
	}
	w("      o = nil")
	w("    end")
	w("    for i = 1, 300 do")
	w("      %s()", collect)
	w("      if i == 2 then late = nil end")
	w("      local x = 0 for j = 1, 20 do x = x + j end")
	w("    end")
	w("    log('mid-notkilled')")
	w("  end)")
	w("  log('mid-exit', ctx.status)")
	w("end")
	switch m.Outer {
	case "cpu":
		w("local octx = runtime.callcontext({kill={cpu=%d}}, body)", 20*midLimit)
		w("log('mid-outer-exit', octx.status)")
	case "flags":
		w("local octx = runtime.callcontext({flags='cpusafe'}, body)")
		w("log('mid-outer-exit', octx.status)")
	default:
		w("body()")
	}
	w("MK = {}")
	return sb.String()
}

// checkMid returns ("", "") when the property held, (reason, "") when the run
// decides nothing (the collector never delivered the killer), or ("", message)
// for a violation.
func checkMid(m *MidCase, log []string) (undecided, msg string) {
	pos := func(entry string) int {
		for i, l := range log {
			if l == entry {
				return i
			}
		}
		return -1
	}
	for _, l := range log {
		if strings.HasPrefix(l, "chunkerr") {
			return "", "the program failed: " + l
		}
	}
	exit := -1
	status := ""
	for i, l := range log {
		if strings.HasPrefix(l, "mid-exit ") {
			exit, status = i, strings.TrimPrefix(l, "mid-exit ")
		}
	}
	closeEnd := pos("close-end")
	if exit < 0 || closeEnd < 0 {
		return "", fmt.Sprintf("the program did not reach the end of the context (log tail %q)", tail(log, 6))
	}
	begin, end := pos("mid-kill-begin"), pos("mid-kill-end")
	if end >= 0 {
		return "", fmt.Sprintf("a finaliser that burns %d loop iterations ran to its end in a context whose CPU limit is %d: finalisers are not charged to their context", midBurn, midLimit)
	}
	if nk := pos("mid-notkilled"); nk >= 0 {
		if begin >= 0 && begin < nk {
			return "", "the killer's finaliser was cut off, yet the body of its context went on running"
		}
		return "killer-not-collected-during-the-body", ""
	}
	if begin < 0 {
		return "", fmt.Sprintf("the context ended early with status %s although the killer's finaliser never started", status)
	}
	if status != "killed" {
		return "", fmt.Sprintf("the context was cut off by a finaliser exceeding its CPU limit but reports status %q", status)
	}
	if m.Outer != "" {
		if o := pos("mid-outer-exit done"); o < 0 {
			return "", fmt.Sprintf("the enclosing context did not end normally (log tail %q)", tail(log, 6))
		}
	}
	// releases and finalisers
	rel := map[int][]int{}
	fin := map[int][]int{}
	for i, l := range log {
		var id int
		if n, _ := fmt.Sscanf(l, "release %d", &id); n == 1 {
			rel[id] = append(rel[id], i)
		}
		if n, _ := fmt.Sscanf(l, "mid-gc %d", &id); n == 1 {
			fin[id] = append(fin[id], i)
		}
	}
	for i, it := range m.Items {
		id := i + 1
		what := fmt.Sprintf("value %d (%s, created in the killed context)", id, it.Kind)
		if len(fin[id]) > 1 {
			return "", what + " was finalised more than once"
		}
		for _, p := range fin[id] {
			if p > begin {
				return "", what + " was finalised after the finaliser that killed its context had started: finalisers of a killed context must be skipped"
			}
			if it.Keep {
				return "", what + " was finalised while the program could still reach it"
			}
		}
		if it.Kind != "rel" && it.Kind != "relgc" {
			continue
		}
		switch {
		case len(rel[id]) == 0:
			return "", what + " was never released, not even by Runtime.Close (its context was killed by a finaliser while the release was pending)"
		case len(rel[id]) > 1:
			return "", what + " was released more than once"
		case rel[id][0] > exit:
			return "", what + " was not released by the time its (killed) context had been left, only later"
		}
		if it.Keep && rel[id][0] < begin {
			return "", what + " was released while the program could still reach it"
		}
		if it.Kind == "relgc" && len(fin[id]) == 1 && fin[id][0] > rel[id][0] {
			return "", what + " was released before its finaliser ran"
		}
	}
	return "", ""
}
