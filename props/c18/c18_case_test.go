package c18

import (
	"fmt"
	"strings"

	"pgregory.net/rapid"
)

// A history is a list of top-level statements. Each top-level statement is run
// as its own Lua chunk in ONE runtime (state lives in globals), except the
// Go-API statements (gogc, gocollect), which are performed by the host. The
// runtime is closed at the end of every history.

const nSlots = 6

// Stmt is one action. Only the fields of its Op are used.
type Stmt struct {
	Op  string  `json:"op"`
	K   int     `json:"k,omitempty"`   // slot
	K2  int     `json:"k2,omitempty"`  // second slot
	ID  int     `json:"id,omitempty"`  // object id (creation) or id argument
	Var string  `json:"var,omitempty"` // finaliser variant
	Arg int     `json:"arg,omitempty"` // argument of the variant
	GC  bool    `json:"gc,omitempty"`  // resource created with a __gc metatable
	N   int     `json:"n,omitempty"`   // repetition count
	Ctx *CtxDef `json:"ctx,omitempty"`
}

// CtxDef is a runtime.callcontext action.
type CtxDef struct {
	CID  int    `json:"cid"`
	Kind string `json:"kind"` // cpu, mem, both: hard limits (GC-isolated); soft, flags, empty: no hard limit of its own
	CPU  int    `json:"cpu,omitempty"`
	Mem  int    `json:"mem,omitempty"`
	End  string `json:"end"` // normal, error, killcpu, killmem, killfn, killmeth
	Body []Stmt `json:"body"`
}

func (c *CtxDef) isolated() bool { return c.Kind == "cpu" || c.Kind == "mem" || c.Kind == "both" }

// Case is one history.
type Case struct {
	// Base: context pushed with Runtime.PushContext right after the runtime is
	// created and still pushed when Runtime.Close is called ("": none; "flags",
	// "soft": no hard limit, shares the root pool; "cpu": hard CPU limit far
	// above what a history can use, GC-isolated).
	Base  string `json:"base,omitempty"`
	Stmts []Stmt `json:"stmts"`
	// Bulk > 0: instead of Stmts the worker runs BulkRounds rounds that each
	// create and drop Bulk releasable userdata while Lua keeps executing
	// (the release path under load; see checkBulk).
	Bulk       int `json:"bulk,omitempty"`
	BulkRounds int `json:"bulk_rounds,omitempty"`
	// Mid != nil: instead of Stmts the worker runs the mid-body-kill program
	// (see mid_test.go).
	Mid *MidCase `json:"mid,omitempty"`
}

const baseCPU = 500000000

func (c Case) count() int {
	var n func(ss []Stmt) int
	n = func(ss []Stmt) int {
		k := 0
		for _, s := range ss {
			k++
			if s.Ctx != nil {
				k += n(s.Ctx.Body)
			}
		}
		return k
	}
	return n(c.Stmts)
}

func (c Case) contexts() map[int]*CtxDef {
	m := map[int]*CtxDef{}
	var walk func(ss []Stmt)
	walk = func(ss []Stmt) {
		for _, s := range ss {
			if s.Ctx != nil {
				m[s.Ctx.CID] = s.Ctx
				walk(s.Ctx.Body)
			}
		}
	}
	walk(c.Stmts)
	return m
}

// ---------------------------------------------------------------------------
// Lua rendering

// prelude defines the helpers. log, gc, newres, resinfo are host functions.
const prelude = `
S = {}; Rz = {}; Kept = {}; CUR = 0; NEXTID = 100000
function info()
  local c = runtime.context()
  return c.kill.cpu or 0, c.kill.memory or 0
end
local function setgc(o, mt)
  if type(o) == "table" then setmetatable(o, mt) else debug.setmetatable(o, mt) end
end
function fin(id, kind, var, arg)
  return function(self)
    local kc, km = info()
    log("gc", id, kc, km)
    if var == "res" then
      log("res", id); Rz[id] = self
    elseif var == "spawn" then
      for i = 1, arg do
        local nid = NEXTID; NEXTID = NEXTID + 1
        log("mark", nid, "T", "plain", 0)
        local o = setmetatable({id = nid, own = CUR}, {__gc = fin(nid, "T", "plain", 0)})
        log("marked", nid)
        if i % 2 == 0 then log("keep", nid); Kept[nid] = o end
      end
    elseif var == "err" then
      error("finaliser error")
    elseif var == "burn" or var == "bigburn" then
      for i = 1, arg do end
    elseif var == "remark" then
      log("mark", id, kind, "plain", 0)
      setgc(self, {__gc = fin(id, kind, "plain", 0)})
      log("marked", id)
    end
    log("gcdone", id)
  end
end
function mkT(k, id, var, arg)
  log("mark", id, "T", var, arg)
  local o = setmetatable({id = id, own = CUR}, {__gc = fin(id, "T", var, arg)})
  log("marked", id)
  log("set", k, id); S[k] = o
end
function mkR(k, id, hasgc, var, arg)
  local o
  if hasgc then
    log("mark", id, "R", var, arg)
    o = newres(id, CUR, {__gc = fin(id, "R", var, arg)})
  else
    log("mark", id, "R", "none", 0)
    o = newres(id, CUR)
  end
  log("marked", id)
  log("set", k, id); S[k] = o
end
function remark(k, var, arg)
  local o = S[k]
  if o == nil then return end
  local id, own, kind
  if type(o) == "table" then id, own, kind = o.id, o.own, "T" else id, own = resinfo(o); kind = "R" end
  if GUARD and own ~= CUR then log("guarded", id) return end
  log("mark", id, kind, var, arg)
  setgc(o, {__gc = fin(id, kind, var, arg)})
  log("marked", id)
end
`

func renderStmts(sb *strings.Builder, ss []Stmt, ind string) {
	for _, s := range ss {
		renderStmt(sb, s, ind)
	}
}

func renderStmt(sb *strings.Builder, s Stmt, ind string) {
	w := func(format string, a ...any) {
		sb.WriteString(ind)
		fmt.Fprintf(sb, format, a...)
		sb.WriteByte('\n')
	}
	switch s.Op {
	case "newT":
		w("mkT(%d, %d, %q, %d)", s.K, s.ID, s.Var, s.Arg)
	case "newR":
		w("mkR(%d, %d, %v, %q, %d)", s.K, s.ID, s.GC, s.Var, s.Arg)
	case "drop":
		w("log('drop', %d); S[%d] = nil", s.K, s.K)
	case "copy":
		w("log('copy', %d, %d); S[%d] = S[%d]", s.K, s.K2, s.K2, s.K)
	case "link":
		w("if type(S[%d]) == 'table' then log('link', %d, %d); S[%d].ref = S[%d] end", s.K, s.K, s.K2, s.K, s.K2)
	case "unlink":
		w("if type(S[%d]) == 'table' then log('unlink', %d); S[%d].ref = nil end", s.K, s.K, s.K)
	case "remark":
		w("remark(%d, %q, %d)", s.K, s.Var, s.Arg)
	case "unres":
		w("log('unres', %d); Rz[%d] = nil", s.ID, s.ID)
	case "unresall":
		w("log('unresall'); Rz = {}")
	case "unkeepall":
		w("log('unkeepall'); Kept = {}")
	case "fromrz":
		w("if Rz[%d] ~= nil then log('set', %d, %d); S[%d] = Rz[%d] end", s.ID, s.K, s.ID, s.K, s.ID)
	case "gc":
		w("for i = 1, %d do gc() end", s.N)
	case "nop":
		w("for i = 1, %d do log('nop') end", s.N)
	case "ctx":
		c := s.Ctx
		var def string
		switch c.Kind {
		case "cpu":
			def = fmt.Sprintf("{kill={cpu=%d}}", c.CPU)
		case "mem":
			def = fmt.Sprintf("{kill={memory=%d}}", c.Mem)
		case "both":
			def = fmt.Sprintf("{kill={cpu=%d, memory=%d}}", c.CPU, c.Mem)
		case "soft":
			def = fmt.Sprintf("{stop={cpu=%d}}", c.CPU)
		case "flags":
			def = `{flags="cpusafe memsafe"}`
		default:
			def = "{}"
		}
		w("do")
		w("  local prev = CUR")
		if c.isolated() {
			w("  CUR = %d", c.CID)
		}
		w("  log('preenter', %d)", c.CID)
		w("  local ctx = runtime.callcontext(%s, function()", def)
		w("    local kc, km = info()")
		w("    log('enter', %d, kc, km)", c.CID)
		renderStmts(sb, c.Body, ind+"    ")
		switch c.End {
		case "normal":
			w("    log('bodyend', %d)", c.CID)
		case "error":
			w("    log('preerror', %d) error('boom')", c.CID)
		case "killcpu":
			w("    log('prekill', %d) for i = 1, 2000000 do end log('notreached', %d)", c.CID, c.CID)
		case "killmem":
			w("    log('prekill', %d) local s = string.rep('x', 100000000) log('notreached', %d)", c.CID, c.CID)
		case "killfn":
			w("    log('prekill', %d) runtime.killcontext() log('notreached', %d)", c.CID, c.CID)
		case "killmeth":
			w("    log('prekill', %d) runtime.context():killnow() log('notreached', %d)", c.CID, c.CID)
		}
		w("  end)")
		w("  CUR = prev")
		w("  log('exit', %d, ctx.status, ctx.used.cpu or -1, ctx.used.memory or -1)", c.CID)
		w("end")
	}
}

// Lua renders one top-level statement as a chunk ("" for host statements).
func (s Stmt) Lua() string {
	if s.Op == "gogc" || s.Op == "gocollect" {
		return ""
	}
	var sb strings.Builder
	renderStmt(&sb, s, "")
	return sb.String()
}

// Program renders the whole history for humans (samples, messages).
func (c Case) Program() string {
	var sb strings.Builder
	if c.Base != "" {
		fmt.Fprintf(&sb, "-- host: Runtime.PushContext(%s) (still pushed at Close)\n", c.Base)
	}
	for i, s := range c.Stmts {
		fmt.Fprintf(&sb, "-- step %d\n", i+1)
		switch s.Op {
		case "gogc":
			fmt.Fprintf(&sb, "-- host: %d x (runtime.GC(); short sleep)\n", s.N)
		case "gocollect":
			fmt.Fprintf(&sb, "-- host: %d x MainThread().CollectGarbage()\n", s.N)
		default:
			sb.WriteString(s.Lua())
		}
	}
	sb.WriteString("-- host: Runtime.Close\n")
	return sb.String()
}

// ---------------------------------------------------------------------------
// Generator (all random choices are rapid draws; construction, not rejection)

type slotInfo struct {
	full   bool
	kind   byte // 'T' or 'R'
	id     int  // id of the object last stored here (static approximation)
	locked int  // cid of the isolated context for whose duration the slot must stay untouched (0: free)
}

type gen struct {
	t       *rapid.T
	nextID  int
	nextCID int
	budget  int
	slots   [nSlots + 1]slotInfo
	resIDs  []int     // ids whose finaliser resurrects
	stack   []*CtxDef // enclosing contexts
}

type wopt struct {
	w int
	f func() Stmt
}

func (g *gen) pick(label string, opts []wopt) Stmt {
	total := 0
	for _, o := range opts {
		total += o.w
	}
	x := rapid.IntRange(0, total-1).Draw(g.t, label)
	for _, o := range opts {
		if x < o.w {
			return o.f()
		}
		x -= o.w
	}
	panic("unreachable")
}

// owner returns the innermost GC-isolated context (nil: root).
func (g *gen) owner() *CtxDef {
	for i := len(g.stack) - 1; i >= 0; i-- {
		if g.stack[i].isolated() {
			return g.stack[i]
		}
	}
	return nil
}

func (g *gen) freeSlots() (all, full []int) {
	for k := 1; k <= nSlots; k++ {
		if g.slots[k].locked == 0 {
			all = append(all, k)
			if g.slots[k].full {
				full = append(full, k)
			}
		}
	}
	return
}

func (g *gen) anyFull() []int {
	var out []int
	for k := 1; k <= nSlots; k++ {
		if g.slots[k].full {
			out = append(out, k)
		}
	}
	return out
}

func (g *gen) from(label string, xs []int) int {
	return xs[rapid.IntRange(0, len(xs)-1).Draw(g.t, label)]
}

// variant draws a finaliser variant. big: a CPU burn larger than every limit
// is allowed (only inside a context whose own CPU limit it will exceed).
func (g *gen) variant(label string, forRes, allowBig bool) (string, int) {
	type v struct {
		name string
		w    int
	}
	vs := []v{{"plain", 5}, {"res", 3}, {"err", 1}, {"burn", 2}, {"remark", 1}}
	if !forRes {
		vs = append(vs, v{"spawn", 2})
	}
	if allowBig {
		vs = append(vs, v{"bigburn", 2})
	}
	total := 0
	for _, x := range vs {
		total += x.w
	}
	r := rapid.IntRange(0, total-1).Draw(g.t, label)
	name := ""
	for _, x := range vs {
		if r < x.w {
			name = x.name
			break
		}
		r -= x.w
	}
	switch name {
	case "spawn":
		return name, rapid.IntRange(1, 3).Draw(g.t, "nspawn")
	case "burn":
		return name, rapid.IntRange(50, 300).Draw(g.t, "burn")
	case "bigburn":
		return name, 1000000
	}
	return name, 0
}

func (g *gen) stmt(depth int) Stmt {
	g.budget--
	free, freeFull := g.freeSlots()
	full := g.anyFull()
	own := g.owner()
	allowBig := own != nil && (own.Kind == "cpu" || own.Kind == "both")
	var opts []wopt
	if len(free) > 0 {
		opts = append(opts, wopt{6, func() Stmt {
			k := g.from("slot", free)
			vr, arg := g.variant("variant", false, allowBig)
			g.nextID++
			s := Stmt{Op: "newT", K: k, ID: g.nextID, Var: vr, Arg: arg}
			g.slots[k] = slotInfo{full: true, kind: 'T', id: s.ID}
			if vr == "bigburn" {
				g.slots[k].locked = own.CID
			}
			if vr == "res" {
				g.resIDs = append(g.resIDs, s.ID)
			}
			return s
		}})
		opts = append(opts, wopt{4, func() Stmt {
			k := g.from("slot", free)
			g.nextID++
			s := Stmt{Op: "newR", K: k, ID: g.nextID, GC: rapid.Bool().Draw(g.t, "hasgc"), Var: "none"}
			if s.GC {
				s.Var, s.Arg = g.variant("variant", true, allowBig)
			}
			g.slots[k] = slotInfo{full: true, kind: 'R', id: s.ID}
			if s.Var == "bigburn" {
				g.slots[k].locked = own.CID
			}
			if s.Var == "res" {
				g.resIDs = append(g.resIDs, s.ID)
			}
			return s
		}})
	}
	if len(freeFull) > 0 {
		opts = append(opts, wopt{6, func() Stmt {
			k := g.from("slot", freeFull)
			g.slots[k] = slotInfo{}
			return Stmt{Op: "drop", K: k}
		}})
		opts = append(opts, wopt{3, func() Stmt {
			k := g.from("slot", freeFull)
			kind := g.slots[k].kind
			vr, arg := g.variant("variant", kind == 'R', false)
			if vr == "res" && g.slots[k].id != 0 {
				g.resIDs = append(g.resIDs, g.slots[k].id)
			}
			return Stmt{Op: "remark", K: k, Var: vr, Arg: arg}
		}})
		if len(free) > 1 {
			opts = append(opts, wopt{1, func() Stmt {
				a := g.from("from", freeFull)
				b := g.from("to", free)
				g.slots[b] = slotInfo{full: true, kind: g.slots[a].kind, id: g.slots[a].id}
				return Stmt{Op: "copy", K: a, K2: b}
			}})
		}
	}
	if len(full) > 0 {
		opts = append(opts, wopt{1, func() Stmt {
			return Stmt{Op: "link", K: g.from("from", full), K2: rapid.IntRange(1, nSlots).Draw(g.t, "to")}
		}})
		opts = append(opts, wopt{1, func() Stmt {
			return Stmt{Op: "unlink", K: g.from("slot", full)}
		}})
	}
	if len(g.resIDs) > 0 {
		opts = append(opts, wopt{2, func() Stmt {
			return Stmt{Op: "unres", ID: g.from("resid", g.resIDs)}
		}})
		if len(free) > 0 {
			opts = append(opts, wopt{1, func() Stmt {
				k := g.from("slot", free)
				id := g.from("resid", g.resIDs)
				g.slots[k] = slotInfo{full: true, kind: 'T', id: id} // maybe; helpers tolerate an empty slot and either kind
				return Stmt{Op: "fromrz", ID: id, K: k}
			}})
		}
	}
	opts = append(opts, wopt{1, func() Stmt { return Stmt{Op: "unresall"} }})
	opts = append(opts, wopt{1, func() Stmt { return Stmt{Op: "unkeepall"} }})
	opts = append(opts, wopt{6, func() Stmt { return Stmt{Op: "gc", N: rapid.IntRange(1, 2).Draw(g.t, "n")} }})
	opts = append(opts, wopt{2, func() Stmt { return Stmt{Op: "nop", N: rapid.IntRange(1, 3).Draw(g.t, "n")} }})
	if depth == 0 {
		opts = append(opts, wopt{4, func() Stmt { return Stmt{Op: "gogc", N: rapid.IntRange(1, 2).Draw(g.t, "n")} }})
		opts = append(opts, wopt{2, func() Stmt { return Stmt{Op: "gocollect", N: rapid.IntRange(1, 2).Draw(g.t, "n")} }})
	}
	nctx := 0
	if len(g.stack) > 0 {
		for _, s := range g.stack[len(g.stack)-1].Body {
			if s.Op == "ctx" {
				nctx++
			}
		}
	}
	if depth < 2 && g.budget >= 1 && nctx < 3 {
		opts = append(opts, wopt{5, func() Stmt { return g.ctx(depth) }})
	}
	return g.pick("op", opts)
}

func (g *gen) ctx(depth int) Stmt {
	g.nextCID++
	c := &CtxDef{CID: g.nextCID}
	c.Kind = rapid.SampledFrom([]string{"cpu", "cpu", "cpu", "both", "both", "mem", "soft", "flags", "empty"}).Draw(g.t, "ctxkind")
	if depth == 0 {
		c.CPU, c.Mem = 1000000+c.CID, 4000000+c.CID
	} else {
		c.CPU, c.Mem = 150000+c.CID, 1000000+c.CID
	}
	if c.Kind == "soft" {
		c.CPU = 2000 + c.CID
	}
	ends := []string{"normal", "normal", "normal", "error", "killfn", "killmeth"}
	if c.Kind == "cpu" || c.Kind == "both" {
		ends = append(ends, "killcpu", "killcpu")
	}
	if c.Kind == "mem" || c.Kind == "both" {
		ends = append(ends, "killmem", "killmem")
	}
	c.End = rapid.SampledFrom(ends).Draw(g.t, "ctxend")
	maxBody := 8
	if g.budget < maxBody {
		maxBody = g.budget
	}
	n := rapid.IntRange(1, maxBody).Draw(g.t, "bodylen")
	g.stack = append(g.stack, c)
	for i := 0; i < n && g.budget > 0; i++ {
		c.Body = append(c.Body, g.stmt(depth+1))
	}
	g.stack = g.stack[:len(g.stack)-1]
	if c.isolated() {
		for k := range g.slots {
			if g.slots[k].locked == c.CID {
				g.slots[k].locked = 0
			}
		}
	}
	return Stmt{Op: "ctx", Ctx: c}
}

func genCase(t *rapid.T) Case {
	g := &gen{t: t}
	g.budget = rapid.IntRange(4, 40).Draw(t, "nactions")
	var c Case
	c.Base = rapid.SampledFrom([]string{"", "", "", "flags", "soft", "cpu"}).Draw(t, "base")
	for g.budget > 0 {
		c.Stmts = append(c.Stmts, g.stmt(0))
	}
	return c
}
