package c18

import (
	"encoding/json"
	"fmt"
	"strings"
	"testing"

	"pgregory.net/rapid"

	"verif/internal/ev"
	. "verif/internal/pbt"
)

// C18 — finalisers and resource release run exactly once, in order, inside
// their context.

const (
	kfLostID  = "C18-pending-finaliser-lost-at-close"
	kfCrashID = "C18-remark-in-other-context-fatal"
)

type runner struct {
	rec     *ev.Recorder
	pool    *pool
	kfLost  bool
	kfCrash bool
}

// check runs one history and returns a violation message ("" if the property
// held) and its kind.
func (r *runner) check(c Case, record bool) (kind, msg string) {
	res := r.pool.run(request{Case: c, Guard: r.kfCrash})
	if res.timeout {
		if record {
			r.rec.Discard("worker-timeout")
		}
		fmt.Printf("C18: worker timed out after %v on a history; discarded\n%s\n", workerTimeout, c.Program())
		return "", ""
	}
	if record {
		r.rec.Eval()
	}
	if res.crash != "" {
		return "process-crash", "the process running the history died: " + res.crash
	}
	if res.resp.Panic != "" {
		return "go-panic", "Go panic escaped from golua: " + res.resp.Panic
	}
	if c.Bulk > 0 {
		if msg := checkBulk(c, res.resp.Log); msg != "" {
			return "bulk-release", msg
		}
		return "", ""
	}
	if c.Mid != nil {
		und, msg := checkMid(c.Mid, res.resp.Log)
		if msg != "" {
			return "mid-body-kill", msg + "\n    program:\n" + indent(c.Mid.Program(), "      ") + "\n    log tail: " + strings.Join(tail(res.resp.Log, 14), " | ")
		}
		if record {
			if und != "" {
				r.rec.Discard("mid-body-kill:" + und)
			} else {
				r.rec.Class("mid-body-kill:decided")
				b, _ := json.Marshal(c)
				r.rec.NonTrivial(string(b))
				r.rec.Sample(map[string]any{"program": c.Mid.Program(), "log_tail": tail(res.resp.Log, 14)})
			}
		}
		return "", ""
	}
	v, st := checkLog(c, res.resp.Log, r.kfLost)
	if record {
		r.record(c, res.resp.Log, st, v == nil)
	}
	if v != nil {
		return v.Kind, v.Msg + "\n    program:\n" + indent(c.Program(), "      ")
	}
	return "", ""
}

func indent(s, ind string) string {
	return ind + strings.ReplaceAll(strings.TrimRight(s, "\n"), "\n", "\n"+ind)
}

func (r *runner) record(c Case, log []string, st histStats, ok bool) {
	rec := r.rec
	rec.ClassN("finaliser:before-close(Go collected the value)", int64(st.Pending))
	rec.ClassN("finaliser:at-context-end(value still reachable)", int64(st.AtEnd))
	rec.ClassN("finaliser:in-end-phase(value already garbage)", int64(st.EndOrPending))
	rec.ClassN("finaliser:at-Close", int64(st.AtClose))
	rec.ClassN("finaliser:skipped-by-kill", int64(st.KillSkipped))
	rec.ClassN("finaliser:never-run-tolerated-by-finding", int64(st.LostExempt))
	rec.ClassN("release:total", int64(st.Releases))
	rec.ClassN("release:before-end(Go collected the resource)", int64(st.ReleaseEarly))
	rec.ClassN("release:for-killed-context", int64(st.ReleaseKill))
	rec.ClassN("context:done", int64(st.CtxDone))
	rec.ClassN("context:error", int64(st.CtxError))
	rec.ClassN("context:killed", int64(st.CtxKilled))
	rec.ClassN("context:killed-by-its-finaliser", int64(st.KilledByFin))
	rec.ClassN("remark:skipped-by-finding-guard", int64(st.Guarded))
	rec.ClassN("marks", int64(st.Marks))
	for i := 0; i < st.Guarded; i++ {
		rec.Discard("excluded-by-finding:" + kfCrashID + "(one re-mark skipped, history still checked)")
	}
	for i := 0; i < st.LostExempt; i++ {
		rec.Discard("excluded-by-finding:" + kfLostID + "(one never-finalised garbage value tolerated, history still checked)")
	}
	before := st.Pending > 0
	atEnd := st.AtEnd+st.AtClose+st.EndOrPending > 0
	switch {
	case before && atEnd:
		rec.Class("history:finalisers-before-close-and-at-end")
	case before:
		rec.Class("history:finalisers-only-before-close")
	case atEnd:
		rec.Class("history:finalisers-only-at-end")
	default:
		rec.Class("history:no-finaliser-ran")
	}
	if st.KillSkipped > 0 {
		rec.Class("history:kill-skipped-finalisers")
	}
	if ok && ((before && atEnd) || st.KillSkipped > 0) {
		b, _ := json.Marshal(c)
		rec.NonTrivial(string(b))
	}
	rec.Sample(map[string]any{"program": c.Program(), "log_entries": len(log), "log_tail": tail(log, 25), "stats": st})
}

func tail(xs []string, n int) []string {
	if len(xs) > n {
		return xs[len(xs)-n:]
	}
	return xs
}

// fixed demonstration inputs of the two open findings

// demoLost: a value whose Go finaliser has run, but whose Lua finaliser has
// not been run yet when the runtime is closed, is never finalised.
var demoLost = Case{Stmts: []Stmt{
	{Op: "newT", K: 1, ID: 1, Var: "plain"},
	{Op: "drop", K: 1},
	{Op: "gogc", N: 3},
}}

// demoCrash: a value marked in a limited context and marked again outside.
var demoCrash = Case{Stmts: []Stmt{
	{Op: "ctx", Ctx: &CtxDef{CID: 1, Kind: "cpu", CPU: 1000001, End: "normal", Body: []Stmt{{Op: "newT", K: 1, ID: 1, Var: "plain"}}}},
	{Op: "remark", K: 1, Var: "plain"},
}}

func TestC18(t *testing.T) {
	rec := ev.New("C18")
	defer Finish(t, rec)
	rec.Rule("rapid state machine: histories of <= 40 actions driving ONE runtime chunk by chunk (create __gc tables / releasable userdata with finaliser variants plain, resurrect, spawn-marked-objects, error, CPU burn, re-mark-self; keep/drop/alias/link in 6 global slots; re-mark; forced collections from Lua and from Go; runtime.callcontext with cpu/memory/soft/flags/no limits, two levels, ending normally / by error / by CPU or memory limit / by killcontext / ctx:killnow; finally Runtime.Close). Oracle: invariants over the log of gc/release calls replayed against a reachability-and-epoch model (at most once per marking, never while reachable, exactly once by the end of the owning context or Close unless killed, reverse marking order among values finalised by the end sweep, release exactly once after the finaliser and also on kill, finaliser sees and is charged to its own context). Non-trivial: >= 1 finaliser ran before close (Go's GC really collected a value) AND >= 1 ran at a context end / Close, or a kill skipped >= 1 pending finaliser; distinct by action list. Plus a mid-body-kill family (rapid): a CPU-limited context (optionally nested in a limited or flags-only one) creates 1..7 releasable userdata / finalisable values (some kept reachable) and one value whose finaliser burns more CPU than the limit, drops them and collects (Thread.CollectGarbage or plain runtime.GC) until the finaliser kills the context in the middle of its body; oracle: status killed, the killer cut off, no finaliser after the kill, every resource released exactly once by the time the context has been left; non-trivial: the kill happened during the body (otherwise the case is discarded as undecided).")
	rec.Assume("no assertion depends on when or whether Go's collector runs; the classes finaliser:* report how often each timing occurred")
	rec.Assume("re-marking a value that is still marked may keep its first marking position (reference implementation) or take the last (golua): both orders are accepted")
	rec.Assume("marks made while an end-of-context/Close sweep runs create no obligation (manual 2.5.3: these marks have no effect)")
	rec.Assume("a context without a hard limit of its own (stop-only, flags-only, empty definition) shares its parent's pool (quotas.md only speaks of contexts with restricted resources): values marked in it are owed their finaliser by the end of the nearest enclosing limited context or Close")
	rec.Assume("runtime/internal/luagc cannot be imported from another module, so the UnsafePool selected by build tag safepool is not unit-driven here; the driver builds with tag verif only (ClonePool); the safepool build is exercised by C14's cross-build differential")
	rec.Assume("histories run in a worker subprocess so that a Go fatal error becomes a violation with a replay file instead of killing the shard")

	run := &runner{rec: rec, pool: &pool{}}
	defer run.pool.close()

	if rec.Replay != "" {
		rf, err := rec.LoadReplay()
		if err != nil {
			t.Fatal(err)
		}
		var c Case
		if err := json.Unmarshal(rf.Case, &c); err != nil {
			t.Fatal(err)
		}
		run.kfLost, run.kfCrash = ev.Open(kfLostID), ev.Open(kfCrashID)
		// Go's collector decides which path a history takes: try a few times
		for i := 0; i < 5; i++ {
			if kind, msg := run.check(c, i == 0); msg != "" {
				rec.Violation(kind, c, msg)
				fmt.Println(msg)
				break
			}
		}
		return
	}

	run.kfLost = CheckKnown(rec, kfLostID, func() bool {
		strict := &runner{rec: rec, pool: run.pool}
		for i := 0; i < 20; i++ {
			if kind, _ := strict.check(demoLost, false); kind == "not-finalised" {
				return true
			}
		}
		return false
	})
	run.kfCrash = CheckKnown(rec, kfCrashID, func() bool {
		strict := &runner{rec: rec, pool: run.pool}
		kind, _ := strict.check(demoCrash, false)
		return kind == "process-crash"
	})
	if run.kfLost {
		rec.Assume("open finding " + kfLostID + ": 'finalised exactly once by the end' is not asserted for values that were already unreachable when the end-of-context/Close sweep started (they may be finalised zero times); counted in class finaliser:never-run-tolerated-by-finding")
	}
	if run.kfCrash {
		rec.Assume("open finding " + kfCrashID + ": the generated programs skip a re-mark (setmetatable with __gc) of a value inside a GC-isolated context other than the one it was created in (counted in class remark:skipped-by-finding-guard)")
	}

	// release path under load: thousands of releasable values die per
	// collection while Lua keeps running (every one released exactly once by
	// the time the runtime is closed)
	for i, n := range []int{300, 3000, 3000, 8000} {
		if !rec.Mine(i) {
			continue
		}
		c := Case{Bulk: n, BulkRounds: 20}
		rec.Class("bulk-release")
		rec.NonTrivial(fmt.Sprint("bulk|", i, n))
		if kind, msg := run.check(c, true); msg != "" {
			rec.Violation(kind, c, msg)
			return
		}
	}

	// a context killed in the middle of its body by a collector-triggered
	// finaliser while releases of the same context are pending
	RunRapid(rec, "C18/mid-body-kill", rec.Pick(60, 600), 0, func(t *rapid.T) {
		c := Case{Mid: genMid(t)}
		if kind, msg := run.check(c, true); msg != "" {
			FailCase(t, kind, c, "%s", msg)
		}
	})

	RunRapid(rec, "C18/histories", rec.Pick(250, 3000), 0, func(t *rapid.T) {
		c := genCase(t)
		if kind, msg := run.check(c, true); msg != "" {
			FailCase(t, kind, c, "%s", msg)
		}
	})
}


// checkBulk: every resource the bulk program created is released exactly once
// by the end of the log.
func checkBulk(c Case, log []string) string {
	created := -1
	rel := map[string]int{}
	for _, l := range log {
		switch {
		case strings.HasPrefix(l, "bulk-created "):
			fmt.Sscanf(l, "bulk-created %d", &created)
		case strings.HasPrefix(l, "release "):
			rel[strings.TrimPrefix(l, "release ")]++
		case strings.HasPrefix(l, "chunkerr"):
			return "the bulk program failed: " + l
		}
	}
	if created != c.Bulk*c.BulkRounds {
		return fmt.Sprintf("the bulk program did not finish (created %d of %d)", created, c.Bulk*c.BulkRounds)
	}
	never, twice, example := 0, 0, ""
	for i := 1; i <= created; i++ {
		switch n := rel[fmt.Sprint(i)]; {
		case n == 0:
			never++
			if example == "" {
				example = fmt.Sprintf("resource %d was never released", i)
			}
		case n > 1:
			twice++
			if example == "" {
				example = fmt.Sprintf("resource %d was released %d times", i, n)
			}
		}
	}
	if never+twice > 0 {
		return fmt.Sprintf("%d rounds of %d releasable userdata created and dropped while Lua keeps running: by the time the runtime is closed %d were never released and %d more than once (e.g. %s)", c.BulkRounds, c.Bulk, never, twice, example)
	}
	return ""
}
