package c03

// Value specs, the reference model (a Go map with the manual's key
// normalisation), the traversal checker, and the pool of keys.

import (
	"fmt"
	"math"
	"sort"
	"strconv"
	"strings"

	rt "github.com/arnodel/golua/runtime"

	"verif/internal/harness"
)

// Sp is a JSON-serialisable value spec.
//
//	i:<decimal>  integer            f:<hex bits>  float by bit pattern
//	s:<text>     string             nil true false
//	T1..T3 tables, G1 G2 Go functions, L1..L3 closures of distinct function
//	expressions, P1a/P1b two closures of ONE function expression without
//	upvalues, Q1a/Q1b two closures of one function expression sharing their
//	upvalue (P*/Q* are used by the pairwise law only).
type Sp string

const (
	spNil   Sp = "nil"
	spTrue  Sp = "true"
	spFalse Sp = "false"
)

func spInt(i int64) Sp     { return Sp("i:" + strconv.FormatInt(i, 10)) }
func spFloat(f float64) Sp { return Sp("f:" + strconv.FormatUint(math.Float64bits(f), 16)) }
func spStr(s string) Sp    { return Sp("s:" + s) }

func (s Sp) kind() byte {
	switch {
	case strings.HasPrefix(string(s), "i:"):
		return 'i'
	case strings.HasPrefix(string(s), "f:"):
		return 'f'
	case strings.HasPrefix(string(s), "s:"):
		return 's'
	case s == spNil:
		return 'n'
	case s == spTrue || s == spFalse:
		return 'b'
	}
	return 'r'
}

func (s Sp) int() int64 {
	n, _ := strconv.ParseInt(string(s[2:]), 10, 64)
	return n
}

func (s Sp) float() float64 {
	if s == "f:nan" {
		return math.NaN()
	}
	b, _ := strconv.ParseUint(string(s[2:]), 16, 64)
	return math.Float64frombits(b)
}

func (s Sp) str() string { return string(s[2:]) }

func (s Sp) isNaN() bool {
	if s.kind() != 'f' {
		return false
	}
	f := s.float()
	return f != f
}

// floatIsInt: the float has an exact integer value representable as a Lua
// integer (manual §3.4.3 / §2.1: such a float key denotes the integer key).
func floatIsInt(f float64) (int64, bool) {
	if f != math.Trunc(f) { // false for NaN
		return 0, false
	}
	if f < -9223372036854775808.0 || f >= 9223372036854775808.0 { // also ±inf
		return 0, false
	}
	return int64(f), true
}

// norm is the manual's key normalisation: "any float with integral value used
// as a key is converted to its respective integer".
func norm(k Sp) Sp {
	if k.kind() == 'f' {
		if n, ok := floatIsInt(k.float()); ok {
			return spInt(n)
		}
	}
	return k
}

// canon makes all NaNs one value (for comparing stored VALUES).
func canon(v Sp) Sp {
	if v.isNaN() {
		return "f:nan"
	}
	return v
}

func (s Sp) posInt() (int64, bool) {
	n := norm(s)
	if n.kind() == 'i' && n.int() >= 1 {
		return n.int(), true
	}
	return 0, false
}

func (s Sp) pretty() string {
	switch s.kind() {
	case 'i':
		return string(s[2:])
	case 'f':
		f := s.float()
		return fmt.Sprintf("float(%s)", strconv.FormatFloat(f, 'g', -1, 64))
	case 's':
		return strconv.Quote(s.str())
	}
	return string(s)
}

// manualEqual is raw equality by the manual (§3.4.4): different basic types are
// different; numbers are compared by mathematical value; strings by content;
// tables and functions by reference. For two closures of one function
// expression the manual leaves the result open: open=true.
func manualEqual(a, b Sp) (eq bool, open bool) {
	ka, kb := a.kind(), b.kind()
	num := func(k byte) bool { return k == 'i' || k == 'f' }
	switch {
	case num(ka) && num(kb):
		if ka == 'i' && kb == 'i' {
			return a.int() == b.int(), false
		}
		if ka == 'f' && kb == 'f' {
			return a.float() == b.float(), false
		}
		i, f := a, b
		if ka == 'f' {
			i, f = b, a
		}
		n, ok := floatIsInt(f.float())
		return ok && n == i.int(), false
	case ka != kb:
		return false, false
	case ka == 's':
		return a.str() == b.str(), false
	case ka == 'r':
		if a == b {
			return true, false
		}
		if len(a) == 3 && len(b) == 3 && (a[0] == 'P' || a[0] == 'Q') && a[:2] == b[:2] {
			return false, true // same function expression: equality is open
		}
		return false, false
	}
	return a == b, false
}

// world holds the reference values (identity matters) of one process.
type world struct {
	s      *harness.Session
	refs   map[Sp]rt.Value
	names  map[any]Sp
	driver rt.Value
	flat   []rt.Value // observations: records of 3 values (tag, a, b)
	recs   [][]rt.Value
	tooBig bool
	// the pool as golua values (same order as poolKeys)
	poolVals []rt.Value
}

var refNames = []Sp{"T1", "T2", "T3", "G1", "G2", "L1", "L2", "L3"}

func newWorld() *world {
	w := &world{}
	w.init()
	return w
}

// init (re)creates the runtime and the reference values in place.
func (w *world) init() {
	*w = world{s: harness.NewSession(), refs: map[Sp]rt.Value{}, names: map[any]Sp{}}
	r := w.s.R
	r.SetEnvGoFunc(r.GlobalEnv(), "obs", func(t *rt.Thread, c *rt.GoCont) (rt.Cont, error) {
		if len(w.flat) >= 3*400000 {
			w.tooBig = true
			return nil, fmt.Errorf("too many observations")
		}
		etc := c.Etc()
		if len(etc) == 2 {
			// a buffer of records and its fill count
			if buf, ok := etc[0].TryTable(); ok {
				n, _ := etc[1].TryInt()
				for i := int64(1); i <= n; i++ {
					w.flat = append(w.flat, buf.Get(rt.IntValue(i)))
				}
				return c.Next(), nil
			}
		}
		// one record given directly
		for i := 0; i < 3; i++ {
			if i < len(etc) {
				w.flat = append(w.flat, etc[i])
			} else {
				w.flat = append(w.flat, rt.NilValue)
			}
		}
		return c.Next(), nil
	}, 0, true).SolemnlyDeclareCompliance(rt.ComplyCpuSafe | rt.ComplyMemSafe | rt.ComplyIoSafe | rt.ComplyTimeSafe)
	fns, err := w.s.Load("refs", `
		local function mk() return function() end end
		local u = {}
		local function mk2() return function() return u end end
		return {
			L1 = function() return 1 end,
			L2 = function() return 2 end,
			L3 = function(...) return ... end,
			P1a = mk(), P1b = mk(), Q1a = mk2(), Q1b = mk2(),
		}`)
	if err != nil {
		panic(err)
	}
	for _, n := range []string{"L1", "L2", "L3", "P1a", "P1b", "Q1a", "Q1b"} {
		v := fns.AsTable().Get(rt.StringValue(n))
		if v.Type() != rt.FunctionType {
			panic("closure " + n + " missing")
		}
		w.refs[Sp(n)] = v
	}
	for _, n := range []Sp{"T1", "T2", "T3"} {
		w.refs[n] = rt.TableValue(rt.NewTable())
	}
	for _, n := range []Sp{"G1", "G2"} {
		name := string(n)
		w.refs[n] = rt.FunctionValue(rt.NewGoFunction(func(t *rt.Thread, c *rt.GoCont) (rt.Cont, error) {
			return c.PushingNext1(t.Runtime, rt.StringValue(name)), nil
		}, name, 0, false))
	}
	for n, v := range w.refs {
		w.names[v.Interface()] = n
	}
	drv, err := w.s.Load("driver", luaDriver)
	if err != nil {
		panic(err)
	}
	w.driver = drv
	w.poolVals = w.poolVals[:0]
	for _, k := range poolKeys {
		w.poolVals = append(w.poolVals, w.val(k))
	}
}

// records returns the observations as records of 3 values.
func (w *world) records() [][]rt.Value {
	n := len(w.flat) / 3
	w.recs = w.recs[:0]
	for i := 0; i < n; i++ {
		w.recs = append(w.recs, w.flat[3*i:3*i+3])
	}
	return w.recs
}

func (w *world) val(s Sp) rt.Value {
	switch s.kind() {
	case 'i':
		return rt.IntValue(s.int())
	case 'f':
		return rt.FloatValue(s.float())
	case 's':
		return rt.StringValue(s.str())
	case 'b':
		return rt.BoolValue(s == spTrue)
	case 'n':
		return rt.NilValue
	}
	v, ok := w.refs[s]
	if !ok {
		panic("unknown ref " + string(s))
	}
	return v
}

// enc turns a golua value into a canonical spec (floats by bits, NaN as one
// value, references by the name they have in this world).
func (w *world) enc(v rt.Value) Sp {
	switch v.Type() {
	case rt.NilType:
		return spNil
	case rt.BoolType:
		if v.AsBool() {
			return spTrue
		}
		return spFalse
	case rt.IntType:
		return spInt(v.AsInt())
	case rt.FloatType:
		return canon(spFloat(v.AsFloat()))
	case rt.StringType:
		return spStr(v.AsString())
	}
	if n, ok := w.names[v.Interface()]; ok {
		return n
	}
	return Sp("?" + v.TypeName())
}

// matches reports whether golua value v is the value denoted by the canonical
// spec want, without building a spec (hot path of the per-step checks).
func (w *world) matches(v rt.Value, want Sp) bool {
	switch v.Type() {
	case rt.NilType:
		return want == spNil
	case rt.BoolType:
		return (want == spTrue && v.AsBool()) || (want == spFalse && !v.AsBool())
	case rt.IntType:
		return want.kind() == 'i' && want.int() == v.AsInt()
	case rt.FloatType:
		if want.kind() != 'f' {
			return false
		}
		f := v.AsFloat()
		if f != f {
			return want.isNaN()
		}
		return !want.isNaN() && math.Float64bits(want.float()) == math.Float64bits(f)
	case rt.StringType:
		return want.kind() == 's' && want.str() == v.AsString()
	}
	n, ok := w.names[v.Interface()]
	return ok && n == want
}

// ---------------------------------------------------------------- the pool

var (
	smallInts   = mkSmallInts()
	smallFloats = mkSmallFloats()
	otherKeys   = mkOtherKeys()
	// every key whose lookup is compared after every step
	poolKeys = append(append(append([]Sp{}, smallInts...), smallFloats...), otherKeys...)
	nanKey   = spFloat(math.NaN())
	poolNorm = mkPoolNorm()
)

func mkPoolNorm() (out []Sp) {
	for _, k := range poolKeys {
		out = append(out, norm(k))
	}
	return
}

func mkSmallInts() (out []Sp) {
	for i := int64(-2); i <= 70; i++ {
		out = append(out, spInt(i))
	}
	return
}

func mkSmallFloats() (out []Sp) {
	for i := int64(-2); i <= 70; i++ {
		out = append(out, spFloat(float64(i)))
	}
	return append(out, spFloat(math.Copysign(0, -1)))
}

func mkOtherKeys() []Sp {
	p53 := int64(1) << 53
	otherKeys := []Sp{
		// large integers
		spInt(1 << 31), spInt(1<<31 - 1), spInt(-(1 << 31)), spInt(p53), spInt(p53 + 1), spInt(1 << 62),
		spInt(math.MaxInt64), spInt(math.MaxInt64 - 1), spInt(math.MinInt64),
		// floats with an integer value far from the array part
		spFloat(math.Ldexp(1, 31)), spFloat(float64(p53)), spFloat(float64(p53 + 2)), spFloat(-math.Ldexp(1, 63)), spFloat(math.Ldexp(1, 62)),
		// floats that stay float keys
		spFloat(0.5), spFloat(-0.5), spFloat(1.5), spFloat(2.5), spFloat(69.5), spFloat(1e100), spFloat(math.Ldexp(1, 63)),
		spFloat(math.Inf(1)), spFloat(math.Inf(-1)), spFloat(5e-324), spFloat(1e15 + 0.5),
		// strings: length 0..12, 7- and 8-byte ones, NUL bytes, numeric-looking
		spStr(""), spStr("a"), spStr("b"), spStr("ab"), spStr("abc"), spStr("abcd"), spStr("abcde"), spStr("abcdef"),
		spStr("abcdefg"), spStr("abcdefh"), spStr("abcdefgh"), spStr("abcdefgi"), spStr("abcdefghi"), spStr("abcdefghijk"), spStr("abcdefghijkl"),
		spStr("\x00"), spStr("\x00\x00"), spStr("a\x00"), spStr("a\x00b"), spStr("\x00a"), spStr("\x00\x00\x00\x00\x00\x00\x00"),
		spStr("\x00\x00\x00\x00\x00\x00\x00\x00"), spStr("abcdef\x00"), spStr("abcdefg\x00"), spStr("\x01"), spStr("\x07"),
		spStr("1"), spStr("1.0"), spStr("0x10"), spStr("0"), spStr("true"), spStr("nil"), spStr("__index"), spStr("__newindex"),
		spTrue, spFalse,
	}
	return append(otherKeys, refNames...)
}

// ---------------------------------------------------------------- the model

type model struct {
	m       map[Sp]Sp // normalised key -> canonical value
	everPos bool      // a positive integer key was ever given a value
}

func newModel() *model { return &model{m: map[Sp]Sp{}} }

func (m *model) has(k Sp) bool {
	if k.isNaN() || k == spNil {
		return false
	}
	_, ok := m.m[norm(k)]
	return ok
}

func (m *model) get(k Sp) Sp {
	if k.isNaN() || k == spNil {
		return spNil
	}
	if v, ok := m.m[norm(k)]; ok {
		return v
	}
	return spNil
}

func (m *model) assign(k, v Sp) {
	nk := norm(k)
	if v == spNil {
		delete(m.m, nk)
		return
	}
	m.m[nk] = canon(v)
	if _, ok := nk.posInt(); ok {
		m.everPos = true
	}
}

func (m *model) keys() []Sp {
	ks := make([]Sp, 0, len(m.m))
	for k := range m.m {
		ks = append(ks, k)
	}
	sort.Slice(ks, func(i, j int) bool {
		a, b := ks[i], ks[j]
		if a.kind() == 'i' && b.kind() == 'i' {
			return a.int() < b.int()
		}
		if a.kind() != b.kind() {
			return a.kind() < b.kind()
		}
		return a < b
	})
	return ks
}

func (m *model) clone() *model {
	c := &model{m: make(map[Sp]Sp, len(m.m)), everPos: m.everPos}
	for k, v := range m.m {
		c.m[k] = v
	}
	return c
}

// firstBorder is the smallest border (manual §3.4.7).
func (m *model) firstBorder() int64 {
	n := int64(0)
	for m.has(spInt(n + 1)) {
		n++
	}
	return n
}

// checkLen: n must be a border: (n == 0 or t[n] ~= nil) and t[n+1] == nil.
func (m *model) checkLen(n int64) string {
	if n < 0 {
		return fmt.Sprintf("length %d is negative", n)
	}
	if n > 0 && !m.has(spInt(n)) {
		return fmt.Sprintf("length %d is not a border: t[%d] is nil", n, n)
	}
	if n < math.MaxInt64 && m.has(spInt(n+1)) {
		return fmt.Sprintf("length %d is not a border: t[%d] is not nil", n, n+1)
	}
	return ""
}

func (m *model) describe() string {
	ks := m.keys()
	var sb strings.Builder
	sb.WriteString("{")
	for i, k := range ks {
		if i > 0 {
			sb.WriteString(", ")
		}
		if i >= 40 {
			fmt.Fprintf(&sb, "… %d more", len(ks)-i)
			break
		}
		fmt.Fprintf(&sb, "[%s]=%s", k.pretty(), m.m[k].pretty())
	}
	sb.WriteString("}")
	return sb.String()
}

// upd is one assignment made during a traversal: when the traversal reaches key
// On, existing key K gets value V (nil clears it). By construction (see
// drawUpds) K is present when the update fires, whatever the traversal order:
// a key is cleared/assigned by at most one update, and a key that another
// key's update clears is never itself a trigger.
type upd struct {
	On  Sp     `json:"on"`
	K   Sp     `json:"k"`
	V   Sp     `json:"v"`
	Via string `json:"via"` // set | reset | rt | index
}

// scanCheck verifies one traversal against the model (manual §6.1 next).
type scanCheck struct {
	m     *model
	seen  map[Sp]bool
	upds  []upd
	n0    int
	count int
	fired int
}

func (m *model) beginScan(upds []upd) *scanCheck {
	return &scanCheck{m: m, seen: map[Sp]bool{}, upds: upds, n0: len(m.m)}
}

// visit checks one (key, value) returned by the traversal, applies to the
// model the updates that fire at this key and returns them.
func (sc *scanCheck) visit(k, v Sp) (fire []upd, msg string) {
	sc.count++
	if k.kind() == 'f' {
		if _, ok := floatIsInt(k.float()); ok {
			return nil, fmt.Sprintf("traversal returned the float key %s: a float key with an integer value must have been converted to the integer", k.pretty())
		}
	}
	if k.isNaN() || k == spNil {
		return nil, fmt.Sprintf("traversal returned the key %s", k.pretty())
	}
	if sc.seen[k] {
		return nil, fmt.Sprintf("traversal returned key %s twice", k.pretty())
	}
	if sc.count > sc.n0 {
		return nil, fmt.Sprintf("traversal returned more than the %d keys present at its start (key %s)", sc.n0, k.pretty())
	}
	cur, ok := sc.m.m[k]
	if !ok {
		return nil, fmt.Sprintf("traversal returned key %s (value %s), which is not in the table at that point", k.pretty(), v.pretty())
	}
	if cur != v {
		return nil, fmt.Sprintf("traversal returned %s for key %s, the table holds %s", v.pretty(), k.pretty(), cur.pretty())
	}
	sc.seen[k] = true
	for _, u := range sc.upds {
		if u.On == k {
			if !sc.m.has(u.K) {
				panic("harness: update of absent key " + string(u.K))
			}
			sc.m.assign(u.K, u.V)
			fire = append(fire, u)
			sc.fired++
		}
	}
	return fire, ""
}

// end: every key still present was visited (keys cannot have been inserted).
func (sc *scanCheck) end() string {
	missing := false
	for k := range sc.m.m {
		if !sc.seen[k] {
			missing = true
			break
		}
	}
	if !missing {
		return ""
	}
	for _, k := range sc.m.keys() {
		if !sc.seen[k] {
			return fmt.Sprintf("traversal ended after %d keys without returning key %s (value %s), which was present during the whole traversal", sc.count, k.pretty(), sc.m.m[k].pretty())
		}
	}
	return ""
}

// pow2ceil returns the smallest power of two >= k (k >= 1).
func pow2ceil(k int64) int64 {
	if k > 1<<62 {
		return math.MaxInt64
	}
	p := int64(1)
	for p < k {
		p <<= 1
	}
	return p
}

// hasIntIn reports whether an integer key j with lo < j <= hi is present.
func (m *model) hasIntIn(lo, hi int64) bool {
	for k := range m.m {
		if k.kind() == 'i' {
			if j := k.int(); lo < j && j <= hi {
				return true
			}
		}
	}
	return false
}
