package c03

import (
	"fmt"
	"strings"

	"pgregory.net/rapid"

	"verif/internal/harness"
)

// Chains of __index / __newindex: the metamethod of a table may be another
// table, which may have such a metamethod of its own, ending in nothing or in a
// function. At EVERY table of the chain the metamethod is consulted only when
// the raw key is absent there (manual 2.4: "the assignment/lookup is repeated
// on that value" - a regular one, not a raw one). The model below is that rule
// and nothing else.

type chainLevel struct {
	Raw      map[string]string `json:"raw"`      // initial raw contents: key -> value (Lua literals)
	NewIndex string            `json:"newindex"` // "none" | "next" | "func"
	Index    string            `json:"index"`    // "none" | "next" | "func"
}

type chainOp struct {
	Get bool   `json:"get,omitempty"`
	Key string `json:"key"`
	Val string `json:"val,omitempty"` // Lua literal ("nil" removes)
}

type chainCase struct {
	Levels []chainLevel `json:"levels"`
	Ops    []chainOp    `json:"ops"`
}

var chainKeys = []string{`"a"`, `"b"`, `"c"`, `1`, `2`, `9007199254740992`}
var chainVals = []string{`"v1"`, `"v2"`, `7`, `false`, `nil`, `nil`}

func genChain(t *rapid.T) chainCase {
	d := rapid.IntRange(2, 4).Draw(t, "depth")
	var c chainCase
	for i := 0; i < d; i++ {
		l := chainLevel{Raw: map[string]string{}}
		for _, k := range chainKeys {
			if rapid.IntRange(0, 2).Draw(t, "present") == 0 {
				l.Raw[k] = fmt.Sprintf(`"init%d"`, i+1)
			}
		}
		kinds := []string{"next", "next", "next", "none", "func"}
		if i == d-1 {
			kinds = []string{"none", "func", "func"}
		}
		l.NewIndex = rapid.SampledFrom(kinds).Draw(t, "newindex")
		l.Index = rapid.SampledFrom(kinds).Draw(t, "index")
		c.Levels = append(c.Levels, l)
	}
	n := rapid.IntRange(1, 10).Draw(t, "nops")
	for i := 0; i < n; i++ {
		op := chainOp{Key: rapid.SampledFrom(chainKeys).Draw(t, "key")}
		if rapid.IntRange(0, 2).Draw(t, "get") == 0 {
			op.Get = true
		} else {
			op.Val = rapid.SampledFrom(chainVals).Draw(t, "val")
		}
		c.Ops = append(c.Ops, op)
	}
	return c
}

func (c chainCase) program() string {
	var sb strings.Builder
	d := len(c.Levels)
	sb.WriteString("local L, lvl = {}, {}\n")
	fmt.Fprintf(&sb, "for i = 1, %d do L[i] = {} lvl[L[i]] = i end\n", d)
	for i, l := range c.Levels {
		for _, k := range chainKeys {
			if v, ok := l.Raw[k]; ok {
				fmt.Fprintf(&sb, "rawset(L[%d], %s, %s)\n", i+1, k, v)
			}
		}
	}
	for i, l := range c.Levels {
		var fields []string
		switch l.NewIndex {
		case "next":
			fields = append(fields, fmt.Sprintf("__newindex = L[%d]", i+2))
		case "func":
			fields = append(fields, `__newindex = function(t, k, v) emit("newindex-handler", lvl[t], k, v) end`)
		}
		switch l.Index {
		case "next":
			fields = append(fields, fmt.Sprintf("__index = L[%d]", i+2))
		case "func":
			fields = append(fields, `__index = function(t, k) emit("index-handler", lvl[t], k) return "dflt" end`)
		}
		if len(fields) > 0 {
			fmt.Fprintf(&sb, "setmetatable(L[%d], {%s})\n", i+1, strings.Join(fields, ", "))
		}
	}
	for _, op := range c.Ops {
		if op.Get {
			fmt.Fprintf(&sb, "emit(\"get\", %s, L[1][%s])\n", op.Key, op.Key)
		} else {
			fmt.Fprintf(&sb, "L[1][%s] = %s\n", op.Key, op.Val)
		}
	}
	fmt.Fprintf(&sb, "for i = 1, %d do emit(\"raw\", i", d)
	for _, k := range chainKeys {
		fmt.Fprintf(&sb, ", rawget(L[i], %s)", k)
	}
	sb.WriteString(") end\n")
	return sb.String()
}

// tokOf turns a Lua literal of the small vocabulary into the harness's token.
func tokOf(lit string) string {
	switch {
	case lit == "nil" || lit == "false" || lit == "true":
		return lit
	case strings.HasPrefix(lit, `"`):
		return "s:" + lit
	default:
		return "i:" + lit
	}
}

// expected computes the event list from the manual's rule.
func (c chainCase) expected() (events [][]string, consulted int) {
	d := len(c.Levels)
	raw := make([]map[string]string, d)
	for i, l := range c.Levels {
		raw[i] = map[string]string{}
		for k, v := range l.Raw {
			raw[i][k] = v
		}
	}
	for _, op := range c.Ops {
		if op.Get {
			res := "nil"
			for i := 0; ; i++ {
				if v, ok := raw[i][op.Key]; ok {
					res = tokOf(v)
					break
				}
				kind := c.Levels[i].Index
				if kind == "none" {
					break
				}
				consulted++
				if kind == "func" {
					events = append(events, []string{`s:"index-handler"`, fmt.Sprint("i:", i+1), tokOf(op.Key)})
					res = `s:"dflt"`
					break
				}
			}
			events = append(events, []string{`s:"get"`, tokOf(op.Key), res})
			continue
		}
		for i := 0; ; i++ {
			_, present := raw[i][op.Key]
			kind := c.Levels[i].NewIndex
			if present || kind == "none" {
				if op.Val == "nil" {
					delete(raw[i], op.Key)
				} else {
					raw[i][op.Key] = op.Val
				}
				break
			}
			consulted++
			if kind == "func" {
				events = append(events, []string{`s:"newindex-handler"`, fmt.Sprint("i:", i+1), tokOf(op.Key), tokOf(op.Val)})
				break
			}
		}
	}
	for i := 0; i < d; i++ {
		e := []string{`s:"raw"`, fmt.Sprint("i:", i+1)}
		for _, k := range chainKeys {
			if v, ok := raw[i][k]; ok {
				e = append(e, tokOf(v))
			} else {
				e = append(e, "nil")
			}
		}
		// trailing nils are dropped by a vararg call
		for len(e) > 2 && e[len(e)-1] == "nil" {
			e = e[:len(e)-1]
		}
		events = append(events, e)
	}
	return events, consulted
}

func checkChain(c chainCase) (msg string, consulted int) {
	want, consulted := c.expected()
	tr := harness.Run(c.program(), harness.Opts{CPU: 10_000_000, Mem: 100_000_000})
	if tr.Panic != "" {
		return "Go panic: " + tr.Panic, consulted
	}
	if tr.CompileErr != "" || tr.ErrTok != "" || tr.Killed {
		return fmt.Sprintf("the program failed: %s %s killed=%v", tr.CompileErr, tr.ErrTok, tr.Killed), consulted
	}
	got := tr.EventList
	for i := range got {
		for len(got[i]) > 2 && got[i][0] == `s:"raw"` && got[i][len(got[i])-1] == "nil" {
			got[i] = got[i][:len(got[i])-1]
		}
	}
	for i := 0; i < len(want) || i < len(got); i++ {
		var w, g string
		if i < len(want) {
			w = strings.Join(want[i], ", ")
		}
		if i < len(got) {
			g = strings.Join(got[i], ", ")
		}
		if w != g {
			return fmt.Sprintf("event %d differs (at every table of a chain the metamethod is consulted only when the raw key is absent there):\n   expected emit(%s)\n   golua    emit(%s)\n--- program ---\n%s", i, w, g, c.program()), consulted
		}
	}
	return "", consulted
}
