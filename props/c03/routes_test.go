package c03

// The two routes that execute a history: the Go API of *rt.Table and Lua code
// run through harness.Session. Both are checked against the model.

import (
	"fmt"
	"reflect"

	rt "github.com/arnodel/golua/runtime"
)

// prim is one fully resolved primitive step of a history.
type prim struct {
	Op    string `json:"op"`            // assign | get | len | scan | bad
	Via   string `json:"via,omitempty"` // assign: set | reset | rt | index ; get: get | raw | index
	K     Sp     `json:"k,omitempty"`
	V     Sp     `json:"v,omitempty"`
	Style string `json:"style,omitempty"` // scan: pairs | next
	Upd   []upd  `json:"upd,omitempty"`
	// exclusions decided from the model when the step was resolved
	NoScan   bool `json:"noscan,omitempty"`   // per-step full traversal excluded (open finding)
	ExclMeta bool `json:"exclmeta,omitempty"` // step left out of the logger-metatable replay (open finding)
}

// ------------------------------------------------------------- Go API route

type goRoute struct {
	w  *world
	t  *rt.Table
	m  *model
	th *rt.Thread

	// classification only (never used by the oracle)
	migrations, hashGrowths, arrayGrowths, effRemovals, scanUpdates int
	maxKeys                                                         int
}

func newGoRoute(w *world) *goRoute {
	return &goRoute{w: w, t: rt.NewTable(), m: newModel(), th: w.s.R.MainThread()}
}

// tableShape reads the sizes of the array part and of the hash part by
// reflection. It is used ONLY to classify histories (did a growth migrate keys
// from the hash part to the array part?), never to decide a verdict.
func tableShape(t *rt.Table) (arr, slots int, ok bool) {
	defer func() {
		if recover() != nil {
			ok = false
		}
	}()
	mt := reflect.ValueOf(t).Elem().FieldByName("mixedTable")
	if mt.IsNil() {
		return 0, 0, true
	}
	e := mt.Elem()
	if a := e.FieldByName("array"); !a.IsNil() {
		arr = a.Elem().FieldByName("values").Len()
	}
	if h := e.FieldByName("hashTable"); !h.IsNil() {
		slots = h.Elem().FieldByName("slots").Len()
	}
	return arr, slots, true
}

func guard(f func() string) (msg string) {
	defer func() {
		if p := recover(); p != nil {
			msg = fmt.Sprintf("Go panic: %v", p)
		}
	}()
	return f()
}

func (g *goRoute) rawAssign(via string, k, v Sp) string {
	kv, vv := g.w.val(k), g.w.val(v)
	present := g.m.has(k)
	switch via {
	case "set":
		g.t.Set(kv, vv)
	case "rt":
		if err := g.w.s.R.SetTableCheck(g.t, kv, vv); err != nil {
			return fmt.Sprintf("Runtime.SetTableCheck(t, %s, %s) failed: %v", k.pretty(), v.pretty(), err)
		}
	case "index":
		if err := rt.SetIndex(g.th, rt.TableValue(g.t), kv, vv); err != nil {
			return fmt.Sprintf("SetIndex(t, %s, %s) failed: %v", k.pretty(), v.pretty(), err)
		}
	case "reset":
		was := g.t.Reset(kv, vv)
		if was != present {
			return fmt.Sprintf("Table.Reset(%s, %s) returned %v but the key is %s", k.pretty(), v.pretty(), was, map[bool]string{true: "present", false: "absent"}[present])
		}
		if !present {
			return ""
		}
	default:
		panic("via " + via)
	}
	g.m.assign(k, v)
	return ""
}

func (g *goRoute) assign(via string, k, v Sp) string {
	arr0, slots0, ok0 := tableShape(g.t)
	wasPresent := g.m.has(k)
	msg := guard(func() string { return g.rawAssign(via, k, v) })
	if msg != "" {
		return msg
	}
	if v == spNil && wasPresent {
		g.effRemovals++
	}
	if arr1, slots1, ok1 := tableShape(g.t); ok0 && ok1 {
		if arr1 > arr0 {
			g.arrayGrowths++
			// a key other than the one just assigned moved from the hash part into the array part
			for mk := range g.m.m {
				if mk.kind() == 'i' && mk != norm(k) {
					if n := mk.int(); n > int64(arr0) && n <= int64(arr1) {
						g.migrations++
						break
					}
				}
			}
		}
		if slots1 > slots0 {
			g.hashGrowths++
		}
	}
	if len(g.m.m) > g.maxKeys {
		g.maxKeys = len(g.m.m)
	}
	return ""
}

func (g *goRoute) get(via string, k Sp) string {
	return guard(func() string {
		kv := g.w.val(k)
		var got rt.Value
		switch via {
		case "raw":
			got = rt.RawGet(g.t, kv)
		case "index":
			var err error
			got, err = rt.Index(g.th, rt.TableValue(g.t), kv)
			if err != nil {
				return fmt.Sprintf("Index(t, %s) failed: %v", k.pretty(), err)
			}
		default:
			got = g.t.Get(kv)
		}
		if e, want := g.w.enc(got), g.m.get(k); e != want {
			return fmt.Sprintf("t[%s] (%s) is %s, expected %s", k.pretty(), via, e.pretty(), want.pretty())
		}
		return ""
	})
}

func (g *goRoute) applyUpd(u upd) string {
	kv, vv := g.w.val(u.K), g.w.val(u.V)
	switch u.Via {
	case "set":
		g.t.Set(kv, vv)
	case "rt":
		g.w.s.R.SetTable(g.t, kv, vv)
	case "index":
		if err := rt.SetIndex(g.th, rt.TableValue(g.t), kv, vv); err != nil {
			return fmt.Sprintf("SetIndex(t, %s, %s) during a traversal failed: %v", u.K.pretty(), u.V.pretty(), err)
		}
	case "reset":
		if !g.t.Reset(kv, vv) {
			return fmt.Sprintf("Table.Reset(%s, %s) during a traversal returned false for a present key", u.K.pretty(), u.V.pretty())
		}
	default:
		panic("via " + u.Via)
	}
	return ""
}

// scan traverses with Next from nil, applying upds as their trigger keys are reached.
func (g *goRoute) scan(upds []upd) string {
	return guard(func() string {
		sc := g.m.beginScan(upds)
		k := rt.NilValue
		for {
			nk, nv, ok := g.t.Next(k)
			if !ok {
				return fmt.Sprintf("Next(%s) reported an invalid key after %d keys, although that key was returned by the previous Next and no key was inserted", g.w.enc(k).pretty(), sc.count)
			}
			if nk.IsNil() {
				break
			}
			fire, msg := sc.visit(g.w.enc(nk), g.w.enc(nv))
			if msg != "" {
				return msg
			}
			for _, u := range fire {
				if msg := g.applyUpd(u); msg != "" {
					return msg
				}
				g.scanUpdates++
			}
			k = nk
		}
		return sc.end()
	})
}

func (g *goRoute) bad() string {
	return guard(func() string {
		r := g.w.s.R
		nan := g.w.val(nanKey)
		one := rt.IntValue(1)
		if err := r.SetTableCheck(g.t, nan, one); err == nil {
			return "Runtime.SetTableCheck accepted a NaN key"
		}
		if err := r.SetTableCheck(g.t, rt.NilValue, one); err == nil {
			return "Runtime.SetTableCheck accepted a nil key"
		}
		if err := rt.SetIndex(g.th, rt.TableValue(g.t), nan, one); err == nil {
			return "SetIndex accepted a NaN key"
		}
		if err := rt.SetIndex(g.th, rt.TableValue(g.t), rt.NilValue, one); err == nil {
			return "SetIndex accepted a nil key"
		}
		if v := rt.RawGet(g.t, nan); !v.IsNil() {
			return "RawGet(t, NaN) is not nil"
		}
		if v := rt.RawGet(g.t, rt.NilValue); !v.IsNil() {
			return "RawGet(t, nil) is not nil"
		}
		if v, err := rt.Index(g.th, rt.TableValue(g.t), nan); err != nil || !v.IsNil() {
			return fmt.Sprintf("Index(t, NaN) is %v, %v", v, err)
		}
		return ""
	})
}

// stepCheck is the invariant after every step: internal invariants (hook),
// every pool key and every present key reads as in the model, Len is a border,
// a full traversal returns exactly the model's pairs.
func (g *goRoute) stepCheck(noScan bool) string {
	msg := guard(func() string {
		for i, kv := range g.w.poolVals {
			want, ok := g.m.m[poolNorm[i]]
			if !ok {
				want = spNil
			}
			if got := g.t.Get(kv); !g.w.matches(got, want) {
				return fmt.Sprintf("t[%s] is %s, expected %s", poolKeys[i].pretty(), g.w.enc(got).pretty(), want.pretty())
			}
		}
		if v := g.t.Get(g.w.val(nanKey)); !v.IsNil() {
			return "t[NaN] is not nil"
		}
		for k, want := range g.m.m {
			if got := g.t.Get(g.w.val(k)); !g.w.matches(got, want) {
				return fmt.Sprintf("t[%s] is %s, expected %s", k.pretty(), g.w.enc(got).pretty(), want.pretty())
			}
		}
		return g.m.checkLen(g.t.Len())
	})
	if msg == "" && !noScan {
		msg = g.scan(nil)
	}
	if msg != "" {
		return msg
	}
	// extra: the representation invariants of hashtable.go (hook, tag verif)
	return guard(func() string {
		if err := g.t.VerifCheckInvariants(); err != nil {
			return "VerifCheckInvariants: " + err.Error()
		}
		return ""
	})
}

// run executes one primitive step and the invariant after it.
func (g *goRoute) run(p prim) string {
	var msg string
	switch p.Op {
	case "assign":
		msg = g.assign(p.Via, p.K, p.V)
	case "get":
		msg = g.get(p.Via, p.K)
	case "len":
		msg = guard(func() string { return g.m.checkLen(g.t.Len()) })
	case "scan":
		msg = g.scan(p.Upd)
	case "bad":
		msg = g.bad()
	default:
		panic("op " + p.Op)
	}
	if msg != "" {
		return msg
	}
	return g.stepCheck(p.NoScan)
}

// ------------------------------------------------------------------ Lua route

// The driver receives the pool, then a flat list of step records. After each
// step it reports #t, optionally a full traversal and a lookup of every pool key.
const luaDriver = `
local flush, pcall, next, pairs, rawget, rawset, rawequal, setmetatable = obs, pcall, next, pairs, rawget, rawset, rawequal, setmetatable
-- observations are records (tag, a, b) written to a buffer that is handed to
-- the host once per step
local buf, nb = {}, 0
local function obs(tag, a, b)
  buf[nb + 1] = tag
  buf[nb + 2] = a
  buf[nb + 3] = b
  nb = nb + 3
  if nb >= 3000 then flush(buf, nb) nb = 0 end
end
local function run(meta, np, ...)
  local A = table.pack(...)
  local P = {}
  for j = 1, np do P[j] = A[j] end
  local NAN = A[np + 1]
  local t = {}
  if meta then
    setmetatable(t, {
      __index = function(tt, k) obs("mi", k) return "MISS" end,
      __newindex = function(tt, k, v) obs("mn", k, v) rawset(tt, k, v) end,
    })
  end
  local LIMIT = 3000
  local function fullscan()
    obs("B")
    local n = 0
    for k, v in pairs(t) do
      n = n + 1
      if n > LIMIT then obs("OVERRUN") break end
      obs("V", k, v)
    end
    obs("E")
  end
  local i = np + 2
  while i <= A.n do
    local op = A[i]
    if op == "assign" then
      local via, k, v = A[i+1], A[i+2], A[i+3]
      i = i + 4
      if via == "raw" then
        rawset(t, k, v)
      elseif via == "idx" then
        t[k] = v
      else
        if rawget(t, k) ~= nil then t[k] = v end
      end
    elseif op == "get" then
      local k = A[i+1]
      i = i + 2
      obs("g", rawget(t, k), t[k])
    elseif op == "len" then
      i = i + 1
      obs("l", #t)
    elseif op == "scan" then
      local style, nu = A[i+1], A[i+2]
      i = i + 3
      local U = {}
      for j = 1, nu do
        U[j] = { on = A[i], k = A[i+1], v = A[i+2], raw = A[i+3] }
        i = i + 4
      end
      local n = 0
      local function body(k, v)
        obs("V", k, v)
        for j = 1, nu do
          local u = U[j]
          if rawequal(u.on, k) then
            if u.raw then rawset(t, u.k, u.v) else t[u.k] = u.v end
          end
        end
      end
      obs("B")
      if style == "pairs" then
        for k, v in pairs(t) do
          n = n + 1
          if n > LIMIT then obs("OVERRUN") break end
          body(k, v)
        end
      else
        local k, v = next(t)
        while k ~= nil do
          n = n + 1
          if n > LIMIT then obs("OVERRUN") break end
          body(k, v)
          k, v = next(t, k)
        end
      end
      obs("E")
    elseif op == "bad" then
      i = i + 1
      obs("bad", (pcall(rawset, t, NAN, 1)), (pcall(rawset, t, nil, 1)))
      obs("badg", rawget(t, NAN), rawget(t, nil))
      if not meta then
        obs("bad2", (pcall(function() t[NAN] = 1 end)), (pcall(function() t[nil] = 1 end)))
        obs("bad2g", t[NAN], t[nil])
      end
    else
      error("bad op " .. tostring(op))
    end
    local flags = A[i]
    i = i + 1
    obs("L", #t)
    if flags & 1 ~= 0 then fullscan() end
    if flags & 2 ~= 0 then
      for j = 1, np do obs("G", rawget(t, P[j]), t[P[j]]) end
    end
    flush(buf, nb)
    nb = 0
  end
end
return function(...)
  nb = 0
  local ok, err = pcall(run, ...)
  if nb > 0 then flush(buf, nb) nb = 0 end
  if not ok then error(err, 0) end
end
`

// luaReplay runs the resolved steps as Lua code and checks what it observes
// against a fresh model. meta: the table has logging __index/__newindex.
func luaReplay(w *world, prims []prim, meta bool) (msg string, poisoned bool) {
	args := make([]rt.Value, 0, len(poolKeys)+8*len(prims)+8)
	args = append(args, rt.BoolValue(meta), rt.IntValue(int64(len(poolKeys))))
	for _, k := range poolKeys {
		args = append(args, w.val(k))
	}
	args = append(args, w.val(nanKey))
	str := rt.StringValue
	luaVia := func(via string) string {
		switch via {
		case "set", "rt":
			return "raw"
		case "index":
			return "idx"
		}
		return "reset"
	}
	var steps []prim
	for _, p := range prims {
		if meta && p.ExclMeta {
			continue
		}
		steps = append(steps, p)
	}
	for i, p := range steps {
		switch p.Op {
		case "assign":
			args = append(args, str("assign"), str(luaVia(p.Via)), w.val(p.K), w.val(p.V))
		case "get":
			args = append(args, str("get"), w.val(p.K))
		case "len":
			args = append(args, str("len"))
		case "scan":
			args = append(args, str("scan"), str(p.Style), rt.IntValue(int64(len(p.Upd))))
			for _, u := range p.Upd {
				args = append(args, w.val(u.On), w.val(u.K), w.val(u.V), rt.BoolValue(luaVia(u.Via) == "raw"))
			}
		case "bad":
			args = append(args, str("bad"))
		}
		flags := int64(0)
		if !p.NoScan {
			flags |= 1
		}
		if i%8 == 7 || i == len(steps)-1 {
			flags |= 2
		}
		args = append(args, rt.IntValue(flags))
	}
	w.flat = w.flat[:0]
	w.tooBig = false
	tr := w.s.Call(w.driver, 400_000_000, 0, args...)
	evs := w.records()
	mode := "plain table"
	if meta {
		mode = "table with logging __index/__newindex"
	}
	fail := func(step int, format string, a ...any) (string, bool) {
		where := "before the first step"
		if step >= 0 && step < len(steps) {
			where = fmt.Sprintf("at Lua step %d (%s)", step, primText(steps[step]))
		}
		return fmt.Sprintf("Lua route, %s, %s: %s", mode, where, fmt.Sprintf(format, a...)), tr.Panic != ""
	}

	// walk the observations alongside the model
	m := newModel()
	pos := 0
	tag := func() string {
		if pos >= len(evs) || len(evs[pos]) == 0 {
			return ""
		}
		s, _ := evs[pos][0].TryString()
		return s
	}
	arg := func(e []rt.Value, i int) Sp {
		if i < len(e) {
			return w.enc(e[i])
		}
		return spNil
	}
	// runFailure explains why the observations stop early
	runFailure := func() string {
		switch {
		case tr.Panic != "":
			return "Go panic: " + tr.Panic
		case tr.Killed:
			return "the run was killed by the CPU limit (non-termination)"
		case tr.Err != "":
			return "the run raised " + tr.Err
		}
		return "observations missing"
	}
	// expectRead checks the (rawget, index) pair observed for key k
	expectRead := func(step int, k Sp, e []rt.Value) (string, bool) {
		want := m.get(k)
		raw, idx := rt.NilValue, rt.NilValue
		if len(e) > 1 {
			raw = e[1]
		}
		if len(e) > 2 {
			idx = e[2]
		}
		if !w.matches(raw, want) {
			return fail(step, "rawget(t, %s) is %s, expected %s", k.pretty(), w.enc(raw).pretty(), want.pretty())
		}
		if meta && want == spNil {
			want = spStr("MISS")
		}
		if !w.matches(idx, want) {
			return fail(step, "t[%s] is %s, expected %s", k.pretty(), w.enc(idx).pretty(), want.pretty())
		}
		return "", false
	}
	// readEvent handles: optional "mi" event followed by the event carrying (raw, idx) at offsets 1,2
	readEvent := func(step int, k Sp, evTag string) (string, bool) {
		if tag() == "mi" {
			if !meta || m.has(k) {
				return fail(step, "__index was called for key %s, which is present (raw)", k.pretty())
			}
			if got := arg(evs[pos], 1); norm(got) != norm(k) && !(got.isNaN() && k.isNaN()) {
				return fail(step, "__index was called with key %s while reading key %s", got.pretty(), k.pretty())
			}
			pos++
		} else if meta && !m.has(k) && k != spNil && !k.isNaN() {
			if pos >= len(evs) {
				return fail(step, "%s", runFailure())
			}
			return fail(step, "__index was not called for the absent key %s", k.pretty())
		}
		if tag() != evTag {
			if pos >= len(evs) {
				return fail(step, "%s", runFailure())
			}
			return fail(step, "unexpected observation %q, expected %q", tag(), evTag)
		}
		e := evs[pos]
		pos++
		return expectRead(step, k, e)
	}
	scan := func(step int, upds []upd) (string, bool) {
		if tag() != "B" {
			if pos >= len(evs) {
				return fail(step, "%s", runFailure())
			}
			return fail(step, "unexpected observation %q before a traversal", tag())
		}
		pos++
		sc := m.beginScan(upds)
		for {
			switch tag() {
			case "V":
				e := evs[pos]
				pos++
				if _, msg := sc.visit(arg(e, 1), arg(e, 2)); msg != "" {
					return fail(step, "%s", msg)
				}
			case "E":
				pos++
				if msg := sc.end(); msg != "" {
					return fail(step, "%s", msg)
				}
				return "", false
			case "OVERRUN":
				return fail(step, "the traversal does not end (more than 3000 keys returned from a table of %d)", sc.n0)
			case "mn", "mi":
				return fail(step, "metamethod %s was called during a traversal that only assigns existing fields (key %s)", tag(), arg(evs[pos], 1).pretty())
			default:
				if pos >= len(evs) {
					return fail(step, "during a traversal after %d keys: %s", sc.count, runFailure())
				}
				return fail(step, "unexpected observation %q during a traversal", tag())
			}
		}
	}
	for si, p := range steps {
		switch p.Op {
		case "assign":
			present := m.has(p.K)
			lv := luaVia(p.Via)
			expectMM := meta && !present && lv == "idx"
			if tag() == "mn" {
				if !expectMM {
					return fail(si, "__newindex was called for key %s, which is %s (raw) — it must be consulted only when the raw key is absent", p.K.pretty(), map[bool]string{true: "present", false: "absent but assigned with rawset"}[present])
				}
				e := evs[pos]
				if gk, gv := arg(e, 1), arg(e, 2); norm(gk) != norm(p.K) || gv != canon(p.V) {
					return fail(si, "__newindex received (%s, %s), expected (%s, %s)", gk.pretty(), gv.pretty(), p.K.pretty(), p.V.pretty())
				}
				pos++
			} else if expectMM {
				if pos >= len(evs) {
					return fail(si, "%s", runFailure())
				}
				return fail(si, "__newindex was not called for the absent key %s", p.K.pretty())
			}
			if lv != "reset" || present {
				m.assign(p.K, p.V)
			}
		case "get":
			if msg, po := readEvent(si, p.K, "g"); msg != "" {
				return msg, po
			}
		case "len":
			if tag() != "l" {
				if pos >= len(evs) {
					return fail(si, "%s", runFailure())
				}
				return fail(si, "unexpected observation %q", tag())
			}
			n, _ := evs[pos][1].TryInt()
			pos++
			if msg := m.checkLen(n); msg != "" {
				return fail(si, "#t: %s", msg)
			}
		case "scan":
			if msg, po := scan(si, p.Upd); msg != "" {
				return msg, po
			}
		case "bad":
			if tag() != "bad" {
				if pos >= len(evs) {
					return fail(si, "%s", runFailure())
				}
				return fail(si, "unexpected observation %q", tag())
			}
			e := evs[pos]
			pos++
			if arg(e, 1) != spFalse || arg(e, 2) != spFalse {
				return fail(si, "rawset with a NaN/nil key did not raise an error (pcall results %s, %s)", arg(e, 1), arg(e, 2))
			}
			if tag() != "badg" {
				return fail(si, "unexpected observation %q", tag())
			}
			e = evs[pos]
			pos++
			if arg(e, 1) != spNil || arg(e, 2) != spNil {
				return fail(si, "rawget with a NaN/nil key is not nil")
			}
			if !meta {
				if tag() != "bad2" {
					if pos >= len(evs) {
						return fail(si, "%s", runFailure())
					}
					return fail(si, "unexpected observation %q", tag())
				}
				e := evs[pos]
				pos++
				if arg(e, 1) != spFalse || arg(e, 2) != spFalse {
					return fail(si, "t[NaN]=1 / t[nil]=1 did not raise an error (pcall results %s, %s)", arg(e, 1), arg(e, 2))
				}
				if tag() != "bad2g" {
					return fail(si, "unexpected observation %q", tag())
				}
				e = evs[pos]
				pos++
				if arg(e, 1) != spNil || arg(e, 2) != spNil {
					return fail(si, "t[NaN] / t[nil] is not nil")
				}
			}
		}
		// the per-step observations
		if tag() != "L" {
			if pos >= len(evs) {
				return fail(si, "%s", runFailure())
			}
			return fail(si, "unexpected observation %q (%s), expected the step's length report", tag(), arg(evs[pos], 1).pretty())
		}
		n, _ := evs[pos][1].TryInt()
		pos++
		if msg := m.checkLen(n); msg != "" {
			return fail(si, "#t: %s; model %s", msg, m.describe())
		}
		if !p.NoScan {
			if msg, po := scan(si, nil); msg != "" {
				return msg, po
			}
		}
		if si%8 == 7 || si == len(steps)-1 {
			for _, k := range poolKeys {
				if msg, po := readEvent(si, k, "G"); msg != "" {
					return msg, po
				}
			}
		}
	}
	if pos != len(evs) {
		return fail(len(steps)-1, "%d unexpected trailing observations (first %q)", len(evs)-pos, tag())
	}
	if tr.Panic != "" || tr.Killed || tr.Err != "" {
		return fail(len(steps)-1, "%s", runFailure())
	}
	return "", false
}

func primText(p prim) string {
	switch p.Op {
	case "assign":
		return fmt.Sprintf("%s t[%s]=%s", p.Via, p.K.pretty(), p.V.pretty())
	case "get":
		return fmt.Sprintf("get t[%s]", p.K.pretty())
	case "scan":
		s := fmt.Sprintf("traversal(%s) with %d updates", p.Style, len(p.Upd))
		for i, u := range p.Upd {
			if i >= 6 {
				s += " …"
				break
			}
			s += fmt.Sprintf("; at %s: %s t[%s]=%s", u.On.pretty(), u.Via, u.K.pretty(), u.V.pretty())
		}
		return s
	}
	return p.Op
}
