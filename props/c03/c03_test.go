package c03

import (
	"encoding/json"
	"flag"
	"fmt"
	"runtime/debug"
	"sort"
	"testing"
	"time"

	rt "github.com/arnodel/golua/runtime"
	"pgregory.net/rapid"

	"verif/internal/ev"
	"verif/internal/harness"
	. "verif/internal/pbt"
)

// C03 — tables behave as a map with normalised keys, a valid border and safe
// traversal.

const maxSteps = 200

// action is what the generator draws; it is resolved into primitive steps
// (prim) against the model when it is executed.
type action struct {
	Op    string `json:"op"` // set | setnil | reset | get | len | scan | scanupd | append | droptail | churn | bad
	Via   string `json:"via,omitempty"`
	K     Sp     `json:"k,omitempty"`
	V     Sp     `json:"v,omitempty"`
	N     int    `json:"n,omitempty"`
	M     int    `json:"m,omitempty"`
	Fam   string `json:"fam,omitempty"`
	Style string `json:"style,omitempty"`
	Upd   []upd  `json:"upd,omitempty"`
}

type histCase struct {
	Actions []action `json:"actions"`
	Lua     bool     `json:"lua"`  // also replayed as Lua code
	Meta    bool     `json:"meta"` // ... and on a table with logging metamethods
	Note    string   `json:"note,omitempty"`
}

type pairCase struct {
	A, B  Sp
	Route string // small | large | grown | lua-small | lua-large
}

// open known findings (true: listed open, class excluded)
type kfSet struct {
	nextClear, zeroKey, resetFloat, setInScan, closureKey bool
}

// stepper executes a history on the Go route, resolving actions into prims.
type stepper struct {
	w     *world
	g     *goRoute
	kf    kfSet
	rec   *ev.Recorder
	prims []prim
	// what the history contained (classification)
	scanUpdKept int
}

func newStepper(w *world, kf kfSet, rec *ev.Recorder) *stepper {
	return &stepper{w: w, g: newGoRoute(w), kf: kf, rec: rec}
}

func (s *stepper) full() bool { return len(s.prims) >= maxSteps }

// kfZeroScan: input class of finding C03-next-key-zero.
func (s *stepper) zeroClass() bool {
	return s.kf.zeroKey && s.g.m.everPos && s.g.m.has(spInt(0))
}

// do resolves exclusions for one primitive step, runs it on the Go route and
// records it for the Lua replay.
func (s *stepper) do(p prim) string {
	if s.full() {
		return ""
	}
	m := s.g.m
	switch p.Op {
	case "assign":
		// C03-reset-float-key: assigning a non-nil value through Reset / indexing
		// assignment with a float key whose integer value is present
		if p.V != spNil && p.K.kind() == 'f' && norm(p.K) != p.K && m.has(p.K) && s.kf.resetFloat {
			if p.Via == "reset" {
				s.rec.Discard("excluded-by-finding:C03-reset-float-key")
				return ""
			}
			if p.Via == "index" {
				s.rec.Discard("excluded-by-finding:C03-reset-float-key(logger replay only)")
				p.ExclMeta = true
			}
		}
	case "scan":
		if s.zeroClass() {
			s.rec.Discard("excluded-by-finding:C03-next-key-zero")
			return ""
		}
		p.Upd = s.filterUpds(p.Upd)
		if len(p.Upd) > 0 {
			s.scanUpdKept++
		}
	}
	// the step's own effect decides whether the full traversal after it is in the key-0 class
	has0, everPos := m.has(spInt(0)), m.everPos
	if p.Op == "assign" && (p.Via != "reset" || m.has(p.K)) {
		if norm(p.K) == spInt(0) {
			has0 = p.V != spNil
		}
		if _, pos := p.K.posInt(); pos && p.V != spNil {
			everPos = true
		}
	}
	if s.kf.zeroKey && everPos && has0 {
		p.NoScan = true
		s.rec.Discard("excluded-by-finding:C03-next-key-zero(per-step traversal)")
	}
	s.prims = append(s.prims, p)
	return s.g.run(p)
}

// filterUpds removes the updates that fall in the input class of an open finding.
func (s *stepper) filterUpds(upds []upd) []upd {
	if len(upds) == 0 {
		return upds
	}
	out := upds[:0:0]
	for _, u := range upds {
		// C03-set-existing-in-traversal: a non-nil assignment to an existing field
		// through Table.Set / Runtime.SetTable / rawset during a traversal
		if s.kf.setInScan && u.V != spNil && (u.Via == "set" || u.Via == "rt") {
			s.rec.Discard("excluded-by-finding:C03-set-existing-in-traversal")
			continue
		}
		out = append(out, u)
	}
	if !s.kf.nextClear {
		return out
	}
	// C03-next-after-clear: the traversal clears the positive integer key k it is
	// at, and when the traversal ends no integer key in (k, 2^ceil(log2 k)] is present.
	end := s.g.m.clone()
	for _, u := range out {
		end.assign(u.K, u.V)
	}
	var selfClears []int
	for i, u := range out {
		if u.V == spNil && u.On == u.K {
			if _, ok := u.K.posInt(); ok {
				selfClears = append(selfClears, i)
			}
		}
	}
	sort.Slice(selfClears, func(a, b int) bool {
		ka, _ := out[selfClears[a]].K.posInt()
		kb, _ := out[selfClears[b]].K.posInt()
		return ka > kb
	})
	drop := map[int]bool{}
	for _, i := range selfClears {
		k, _ := out[i].K.posInt()
		if !end.hasIntIn(k, pow2ceil(k)) {
			drop[i] = true
			end.assign(out[i].K, s.g.m.get(out[i].K)) // stays present
			s.rec.Discard("excluded-by-finding:C03-next-after-clear")
		}
	}
	if len(drop) == 0 {
		return out
	}
	kept := out[:0:0]
	for i, u := range out {
		if !drop[i] {
			kept = append(kept, u)
		}
	}
	return kept
}

func churnKey(fam string, i int) Sp {
	switch fam {
	case "str":
		return spStr(fmt.Sprintf("k%d", i))
	case "longstr":
		return spStr(fmt.Sprintf("churn-key-%04d", i))
	case "sparse":
		return spInt(int64(100 + 7*i))
	case "neg":
		return spInt(int64(-10 - i))
	case "frac":
		return spFloat(float64(i) + 0.25)
	case "refs": // booleans, tables, functions
		all := append([]Sp{spTrue, spFalse}, refNames...)
		if i < len(all) {
			return all[i]
		}
		return spStr(fmt.Sprintf("r%d", i))
	case "desc": // descending positive integers: they sit in the hash part until the array grows over them
		return spInt(int64(64 - i))
	}
	return spInt(int64(2*i + 2)) // "even": every other index
}

// step executes one action; returns a failure message or "".
func (s *stepper) step(a action) string {
	m := s.g.m
	switch a.Op {
	case "set", "setnil", "reset":
		return s.do(prim{Op: "assign", Via: a.Via, K: a.K, V: a.V})
	case "get":
		return s.do(prim{Op: "get", Via: a.Via, K: a.K})
	case "len":
		return s.do(prim{Op: "len"})
	case "scan", "scanupd":
		return s.do(prim{Op: "scan", Style: a.Style, Upd: a.Upd})
	case "bad":
		return s.do(prim{Op: "bad"})
	case "append":
		for i := 0; i < a.N; i++ {
			k := m.firstBorder() + 1
			if msg := s.do(prim{Op: "assign", Via: a.Via, K: spInt(k), V: spInt(int64(5000 + len(s.prims)))}); msg != "" {
				return msg
			}
		}
	case "droptail":
		for i := 0; i < a.N; i++ {
			k := m.firstBorder()
			if k == 0 {
				break
			}
			if msg := s.do(prim{Op: "assign", Via: a.Via, K: spInt(k), V: spNil}); msg != "" {
				return msg
			}
		}
	case "churn":
		// insert N keys of a family, remove a subset (M: 0 all, 1 every other, 2 first half), insert N/2 keys of the next block
		for i := 0; i < a.N; i++ {
			if msg := s.do(prim{Op: "assign", Via: a.Via, K: churnKey(a.Fam, i), V: spInt(int64(7000 + len(s.prims)))}); msg != "" {
				return msg
			}
		}
		for i := 0; i < a.N; i++ {
			if a.M == 1 && i%2 == 1 || a.M == 2 && i >= a.N/2 {
				continue
			}
			if msg := s.do(prim{Op: "assign", Via: a.Via, K: churnKey(a.Fam, i), V: spNil}); msg != "" {
				return msg
			}
		}
		for i := a.N; i < a.N+a.N/2; i++ {
			if msg := s.do(prim{Op: "assign", Via: a.Via, K: churnKey(a.Fam, i), V: spInt(int64(7000 + len(s.prims)))}); msg != "" {
				return msg
			}
		}
	default:
		panic("action " + a.Op)
	}
	return ""
}

// ------------------------------------------------------------- generators

var (
	genSmallInt   = rapid.SampledFrom(smallInts)
	genSmallFloat = rapid.SampledFrom(smallFloats)
	genOther      = rapid.SampledFrom(otherKeys)
	genLowInt     = rapid.Map(rapid.Int64Range(1, 20), spInt)
	genRefBool    = rapid.SampledFrom(append([]Sp{spTrue, spFalse}, refNames...))
	genKey        = rapid.OneOf(genSmallInt, genSmallInt, genLowInt, genLowInt, genSmallFloat, genOther, genOther, genRefBool)
	genSpecialVal = rapid.SampledFrom([]Sp{spFalse, spTrue, spStr(""), spStr("x"), spFloat(0.5), nanKey, spInt(0), spFloat(1), "T1", "L1", "G1"})
	genAssignVia  = rapid.SampledFrom([]string{"set", "rt", "index", "index"})
	genClearVia   = rapid.SampledFrom([]string{"set", "rt", "index", "index", "reset"})
	genUpdVia     = rapid.SampledFrom([]string{"set", "rt", "index", "index", "reset"})
	genStyle      = rapid.SampledFrom([]string{"pairs", "next"})
)

// alias spells a present (normalised) key possibly as its float alias.
func alias(t *rapid.T, k Sp) Sp {
	if k.kind() == 'i' {
		n := k.int()
		if f := float64(n); f < 9.2e18 && f > -9.2e18 && int64(f) == n && rapid.IntRange(0, 3).Draw(t, "floatAlias") == 0 {
			return spFloat(f)
		}
	}
	return k
}

func drawPresentOrAny(t *rapid.T, m *model) Sp {
	ks := m.keys()
	if len(ks) > 0 && rapid.IntRange(0, 9).Draw(t, "usePresent") < 7 {
		return alias(t, ks[rapid.IntRange(0, len(ks)-1).Draw(t, "presentIdx")])
	}
	return genKey.Draw(t, "key")
}

func drawValue(t *rapid.T, n int) Sp {
	if rapid.IntRange(0, 5).Draw(t, "specialValue") == 0 {
		return genSpecialVal.Draw(t, "value")
	}
	return spInt(int64(1000 + n))
}

// drawUpds builds the updates of a traversal (see type upd for the constraints
// that make every update hit an existing field whatever the traversal order).
func drawUpds(t *rapid.T, m *model, n int) []upd {
	keys := m.keys()
	if len(keys) == 0 {
		return nil
	}
	pattern := rapid.SampledFrom([]string{"clearall", "assignall", "random", "random", "random", "clearints"}).Draw(t, "pattern")
	var out []upd
	switch pattern {
	case "clearall", "clearints":
		via := genClearVia.Draw(t, "via")
		for _, k := range keys {
			if pattern == "clearints" && k.kind() != 'i' {
				continue
			}
			out = append(out, upd{On: k, K: k, V: spNil, Via: via})
		}
	case "assignall":
		via := genUpdVia.Draw(t, "via")
		for i, k := range keys {
			out = append(out, upd{On: k, K: k, V: spInt(int64(3000 + 10*n + i)), Via: via})
		}
	default:
		cnt := rapid.IntRange(1, 8).Draw(t, "nupd")
		targeted := map[Sp]bool{}
		otherCleared := map[Sp]bool{}
		trigger := map[Sp]bool{}
		for j := 0; j < cnt; j++ {
			tgt := keys[rapid.IntRange(0, len(keys)-1).Draw(t, "target")]
			on := keys[rapid.IntRange(0, len(keys)-1).Draw(t, "on")]
			self := rapid.Bool().Draw(t, "self")
			clear := rapid.Bool().Draw(t, "clear")
			via := genUpdVia.Draw(t, "via")
			if targeted[tgt] {
				continue
			}
			if self || on == tgt || otherCleared[on] || (clear && trigger[tgt]) {
				on = tgt
			}
			v := spNil
			if !clear {
				v = drawValue(t, 4000+10*n+j)
			}
			targeted[tgt] = true
			if on != tgt {
				trigger[on] = true
				if clear {
					otherCleared[tgt] = true
				}
			}
			out = append(out, upd{On: on, K: tgt, V: v, Via: via})
		}
	}
	return out
}

// drawAction draws the next action from the state.
func drawAction(t *rapid.T, op string, m *model, n int) action {
	switch op {
	case "set":
		return action{Op: "set", Via: genAssignVia.Draw(t, "via"), K: genKey.Draw(t, "key"), V: drawValue(t, n)}
	case "setnil":
		return action{Op: "setnil", Via: genClearVia.Draw(t, "via"), K: drawPresentOrAny(t, m), V: spNil}
	case "reset":
		return action{Op: "reset", Via: "reset", K: drawPresentOrAny(t, m), V: drawValue(t, n)}
	case "overwrite":
		return action{Op: "set", Via: genAssignVia.Draw(t, "via"), K: drawPresentOrAny(t, m), V: drawValue(t, n)}
	case "get":
		k := drawPresentOrAny(t, m)
		if rapid.IntRange(0, 9).Draw(t, "nanKey") == 0 {
			k = nanKey
		}
		return action{Op: "get", Via: rapid.SampledFrom([]string{"get", "raw", "index"}).Draw(t, "via"), K: k}
	case "len":
		return action{Op: "len"}
	case "scan":
		return action{Op: "scan", Style: genStyle.Draw(t, "style")}
	case "scanupd":
		return action{Op: "scanupd", Style: genStyle.Draw(t, "style"), Upd: drawUpds(t, m, n)}
	case "append":
		return action{Op: "append", Via: genAssignVia.Draw(t, "via"), N: rapid.IntRange(1, 40).Draw(t, "n")}
	case "droptail":
		return action{Op: "droptail", Via: genClearVia.Draw(t, "via"), N: rapid.IntRange(1, 20).Draw(t, "n")}
	case "churn":
		return action{Op: "churn", Via: genAssignVia.Draw(t, "via"),
			Fam: rapid.SampledFrom([]string{"str", "longstr", "sparse", "neg", "frac", "desc", "even", "refs"}).Draw(t, "family"),
			N:   rapid.IntRange(3, 24).Draw(t, "n"), M: rapid.IntRange(0, 2).Draw(t, "removeMode")}
	case "bad":
		return action{Op: "bad"}
	}
	panic("op " + op)
}

var actionNames = []string{"set", "set2:set", "overwrite", "setnil", "setnil2:setnil", "reset", "get", "len", "scan", "scanupd", "scanupd2:scanupd", "append", "droptail", "churn", "bad"}

// ------------------------------------------------------------ running a case

func finishHistory(w *world, s *stepper, lua, meta bool) (msg string, poisoned bool) {
	if !lua {
		return "", false
	}
	if msg, po := luaReplay(w, s.prims, false); msg != "" {
		return msg, po
	}
	if meta {
		if msg, po := luaReplay(w, s.prims, true); msg != "" {
			return msg, po
		}
	}
	return "", false
}

func classify(rec *ev.Recorder, s *stepper, c histCase) {
	g := s.g
	rec.ClassN("steps", int64(len(s.prims)))
	bucket := func(name string, n int) {
		switch {
		case n == 0:
			rec.Class(name + "=0")
		case n <= 2:
			rec.Class(name + "=1-2")
		default:
			rec.Class(name + ">=3")
		}
	}
	bucket("history:hash->array-migrations", g.migrations)
	bucket("history:hash-growths", g.hashGrowths)
	bucket("history:effective-removals", g.effRemovals)
	bucket("history:traversals-with-updates", s.scanUpdKept)
	switch {
	case g.maxKeys <= 8:
		rec.Class("history:max-keys<=8")
	case g.maxKeys <= 32:
		rec.Class("history:max-keys<=32")
	default:
		rec.Class("history:max-keys>32")
	}
	if c.Lua {
		rec.Class("history:also-replayed-as-Lua")
	}
	if c.Meta {
		rec.Class("history:also-replayed-with-logger-metatable")
	}
	for _, p := range s.prims {
		if p.Op == "assign" {
			k := p.K.kind()
			switch {
			case k == 'f' && norm(p.K) != p.K:
				rec.Class("key:float-with-integer-value")
			case k == 'f':
				rec.Class("key:float")
			case k == 'i':
				rec.Class("key:integer")
			case k == 's' && len(p.K.str()) <= 7:
				rec.Class("key:string<=7")
			case k == 's':
				rec.Class("key:string>=8")
			case k == 'b':
				rec.Class("key:boolean")
			default:
				rec.Class("key:table/function")
			}
		}
	}
	if g.migrations >= 1 && (g.effRemovals >= 1 || g.scanUpdates >= 1) {
		b, _ := json.Marshal(c.Actions)
		rec.NonTrivial(string(b))
		rec.Class("history:non-trivial")
	}
}

// runCase re-runs a recorded history without rapid.
func runCase(w *world, kf kfSet, rec *ev.Recorder, c histCase) string {
	s := newStepper(w, kf, rec)
	for i, a := range c.Actions {
		if msg := s.step(a); msg != "" {
			return fmt.Sprintf("Go API route, action %d (%s), step %d: %s\n  model before the failing check: %s", i, actionText(a), len(s.prims), msg, s.g.m.describe())
		}
	}
	msg, _ := finishHistory(w, s, c.Lua, c.Meta)
	return msg
}

func actionText(a action) string {
	b, _ := json.Marshal(a)
	if len(b) > 300 {
		return string(b[:300]) + "…"
	}
	return string(b)
}

// ---------------------------------------------------------- pairwise law (b)

func pairValues() []Sp {
	vs := append([]Sp{}, poolKeys...)
	vs = append(vs, nanKey, "P1a", "P1b", "Q1a", "Q1b")
	return vs
}

// keyTable builds the table in which key a is assigned x.
//
//	small: only a              (<= 8 hash slots: linear search)
//	large: 40 fillers, 1..10, then a  (hashed path, array part)
//	grown: a first, then the fillers  (a is re-hashed by growth)
func keyTable(w *world, a Sp, route string, x rt.Value) *rt.Table {
	t := rt.NewTable()
	fill := func() {
		for i := 0; i < 40; i++ {
			t.Set(rt.StringValue(fmt.Sprintf("filler-%d", i)), rt.IntValue(int64(i)))
		}
		for i := 1; i <= 10; i++ {
			if !(norm(a).kind() == 'i' && norm(a).int() == int64(i)) {
				t.Set(rt.IntValue(int64(i)), rt.IntValue(int64(-i)))
			}
		}
	}
	if route == "large" {
		fill()
	}
	t.Set(w.val(a), x)
	if route == "grown" {
		fill()
	}
	return t
}

const luaPairDriver = `
local obs, rawget, rawequal = obs, rawget, rawequal
return function(large, a, x, n, ...)
  local B = table.pack(...)
  local t = {}
  if large then for i = 1, 40 do t["filler-" .. i] = i end end
  t[a] = x
  for i = 1, n do
    local b = B[i]
    obs("p", (rawequal(a, b) and 1 or 0) + (a == b and 2 or 0) + (t[b] == x and 4 or 0) + (rawget(t, b) == x and 8 or 0))
  end
end
`

func checkPairs(rec *ev.Recorder, w *world, kf kfSet) {
	vals := pairValues()
	x := rt.StringValue("the-value")
	nviol := 0
	report := func(c pairCase, format string, a ...any) {
		if nviol < 5 {
			nviol++
			rec.Violation("pair", c, fmt.Sprintf(format, a...))
		}
	}
	luaFn, err := w.s.Load("pairdriver", luaPairDriver)
	if err != nil {
		panic(err)
	}
	for ai, a := range vals {
		if !rec.Mine(ai) {
			continue
		}
		if a.isNaN() {
			// NaN cannot be a key: nothing to assign
			continue
		}
		tables := map[string]*rt.Table{}
		for _, route := range []string{"small", "large", "grown"} {
			tables[route] = keyTable(w, a, route, x)
		}
		for _, b := range vals {
			want, open := manualEqual(a, b)
			if open && kf.closureKey {
				rec.Discard("excluded-by-finding:C03-closure-key-equality")
				continue
			}
			av, bv := w.val(a), w.val(b)
			eq, _ := rt.RawEqual(av, bv)
			if !open && eq != want {
				report(pairCase{a, b, "small"}, "rt.RawEqual(%s, %s) is %v, the manual's raw equality gives %v", a.pretty(), b.pretty(), eq, want)
				continue
			}
			for _, route := range []string{"small", "large", "grown"} {
				rec.Eval()
				got := w.enc(tables[route].Get(bv)) == w.enc(x)
				if got != eq {
					report(pairCase{a, b, route}, "%s table: after t[%s]=x, t[%s]==x is %v although rawequal(%s, %s) is %v (§2.1: a[i] and a[j] denote the same element iff i and j are raw equal)", route, a.pretty(), b.pretty(), got, a.pretty(), b.pretty(), eq)
				}
			}
			if (want && a != b) || a.kind() != b.kind() {
				rec.NonTrivial("pair:" + string(a) + "|" + string(b))
			}
		}
		// the same through Lua: t[a]=x ; t[b]==x, rawget, ==, rawequal
		for _, large := range []bool{false, true} {
			route := "lua-small"
			if large {
				route = "lua-large"
			}
			var bs []Sp
			for _, b := range vals {
				if _, open := manualEqual(a, b); open && kf.closureKey {
					continue
				}
				bs = append(bs, b)
			}
			args := []rt.Value{rt.BoolValue(large), w.val(a), x, rt.IntValue(int64(len(bs)))}
			for _, b := range bs {
				args = append(args, w.val(b))
			}
			w.flat = w.flat[:0]
			tr := w.s.Call(luaFn, 50_000_000, 0, args...)
			events := w.records()
			if tr.Panic != "" || tr.Err != "" || tr.Killed || len(events) != len(bs) {
				report(pairCase{a, a, route}, "Lua pair driver failed for a=%s: %s (%d observations for %d values)", a.pretty(), tr.String(), len(events), len(bs))
				continue
			}
			for i, b := range bs {
				rec.Eval()
				mask, _ := events[i][1].TryInt()
				want, open := manualEqual(a, b)
				re, eqop, idx, raw := mask&1 != 0, mask&2 != 0, mask&4 != 0, mask&8 != 0
				if !open && (re != want || eqop != want) {
					report(pairCase{a, b, route}, "Lua: rawequal(%s, %s) is %v and == is %v, the manual gives %v", a.pretty(), b.pretty(), re, eqop, want)
					continue
				}
				if re != eqop || idx != re || raw != re {
					report(pairCase{a, b, route}, "Lua %s: with a=%s, b=%s: rawequal(a,b)=%v, a==b is %v, but after t[a]=x: t[b]==x is %v, rawget(t,b)==x is %v", route, a.pretty(), b.pretty(), re, eqop, idx, raw)
				}
			}
		}
	}
}

// replayPair re-runs one pair.
func replayPair(w *world, c pairCase) string {
	x := rt.StringValue("the-value")
	want, open := manualEqual(c.A, c.B)
	eq, _ := rt.RawEqual(w.val(c.A), w.val(c.B))
	if !open && eq != want {
		return fmt.Sprintf("rt.RawEqual(%s, %s) is %v, the manual gives %v", c.A.pretty(), c.B.pretty(), eq, want)
	}
	routes := []string{c.Route}
	if len(c.Route) > 4 && c.Route[:4] == "lua-" {
		routes = []string{"small", "large", "grown"}
	}
	for _, route := range routes {
		t := keyTable(w, c.A, route, x)
		if got := w.enc(t.Get(w.val(c.B))) == w.enc(x); got != eq {
			return fmt.Sprintf("%s table: after t[%s]=x, t[%s]==x is %v although rawequal is %v", route, c.A.pretty(), c.B.pretty(), got, eq)
		}
	}
	return ""
}

// ---------------------------------------------------- known-finding demos

func demoNextClear() bool {
	tr := harness.Run(`local t = {1,2,3,4,5}; local n = 0; for k in pairs(t) do t[k] = nil; n = n + 1 end; return n`, harness.Opts{CPU: 1_000_000})
	return tr.Err != "" || tr.Killed || tr.Panic != "" || tr.Rets != "i:5"
}

func demoZeroKey() bool {
	tr := harness.Run(`local t = {}; for i = 1, 50 do t[i] = i end; t[0] = 0; local n = 0; for k in pairs(t) do n = n + 1 end; return n`, harness.Opts{CPU: 2_000_000})
	return tr.Err != "" || tr.Killed || tr.Panic != "" || tr.Rets != "i:51"
}

func demoResetFloat() bool {
	t := rt.NewTable()
	t.Set(rt.IntValue(100), rt.IntValue(1))
	return !t.Reset(rt.FloatValue(100), rt.IntValue(2)) || t.Get(rt.IntValue(100)) != rt.IntValue(2)
}

func demoSetInScan() bool {
	t := rt.NewTable()
	for _, k := range []string{"a", "b", "c", "d"} {
		t.Set(rt.StringValue(k), rt.IntValue(1))
	}
	n := 0
	k := rt.NilValue
	for n < 10 {
		nk, _, ok := t.Next(k)
		if !ok {
			return true
		}
		if nk.IsNil() {
			break
		}
		n++
		t.Set(nk, rt.IntValue(2)) // assign an existing field
		k = nk
	}
	return n != 4
}

func demoClosureKey(w *world) bool {
	a, b := w.val("P1a"), w.val("P1b")
	eq, _ := rt.RawEqual(a, b)
	for _, route := range []string{"small", "large", "grown"} {
		t := keyTable(w, "P1a", route, rt.IntValue(1))
		if (!t.Get(b).IsNil()) != eq {
			return true
		}
	}
	return false
}

// ---------------------------------------------------------------- the test

func TestC03(t *testing.T) {
	rec := ev.New("C03")
	defer Finish(t, rec)
	rec.Rule("rapid state machine (t.Repeat) of up to 200 primitive steps on one table: assignments/removals through Table.Set, Table.Reset, Runtime.SetTableCheck and SetIndex, lookups, Len, traversals with Next from nil, traversals whose body assigns or clears EXISTING fields, bulk append/remove-tail and insert-many-then-remove patterns, over a pool of 230 keys (ints -2..70, large ints, floats with integer value, other floats, NaN, strings of 0..14 bytes incl. 7/8-byte and NUL-containing ones, booleans, tables, Go functions, closures of distinct function expressions). Oracle: Go map with the manual's key normalisation; after EVERY step every pool key reads as in the model, Len is a border, a full traversal returns exactly the model's pairs once each, VerifCheckInvariants is nil. Every history is then replayed as Lua code (t[k]=v, rawset/rawget, next, pairs, #t; half of them also on a table with logging __index/__newindex) and checked against the same model. Plus the exhaustive pairwise law rawequal(a,b) <=> (t[a]=x makes t[b]==x) in small, large and grown tables, Go and Lua. Non-trivial history: at least one growth of the array part that migrates keys out of the hash part AND (at least one effective removal followed by a traversal, or a traversal with an update); distinct by hash of the action list. Non-trivial pair: equal values of different spelling, or values of different types. Plus rapid chains of 2-4 tables linked by __index/__newindex tables (ending in nothing or a logging function), keys raw-present or absent at each level, <= 10 reads/assignments/removals through the first table, against the manual's rule applied at every table of the chain; non-trivial: a metamethod was consulted at >= 2 tables.")
	rec.Assume("two closures created from one function expression may or may not be equal (manual §3.4.4); only the consistency of rawequal with table indexing is required for them, and they are never used as keys in histories")
	rec.Assume("a key cleared during a traversal before it is reached must not be returned (next returns an index of the table and its associated value)")
	rec.Assume("next is only ever called with nil or the key returned by the previous call; no key is inserted during a traversal")
	rec.Assume("iteration order depends on Go's per-process hash seed: chain shapes are sampled across shards/processes; the oracle never depends on order")

	// a Go panic that escapes (from golua while a runtime is created, or from this
	// harness) must never look like a pass
	defer func() {
		if p := recover(); p != nil {
			rec.Violation("panic", fmt.Sprint(p), fmt.Sprintf("Go panic outside a guarded call: %v\n%s", p, debug.Stack()))
		}
	}()
	w := newWorld()
	defer func() { w.s.Close() }()

	if rec.Replay != "" {
		rf, err := rec.LoadReplay()
		if err != nil {
			t.Fatal(err)
		}
		rec.Eval()
		switch rf.Kind {
		case "panic":
			// the panic happened while the runtime was created (above) or inside the
			// harness; reaching this point means a runtime can be created
		case "chain":
			var c chainCase
			if err := json.Unmarshal(rf.Case, &c); err != nil {
				t.Fatal(err)
			}
			if msg, _ := checkChain(c); msg != "" {
				rec.Violation("chain", c, msg)
			}
		case "pair":
			var c pairCase
			if err := json.Unmarshal(rf.Case, &c); err != nil {
				t.Fatal(err)
			}
			if msg := replayPair(w, c); msg != "" {
				rec.Violation("pair", c, msg)
			}
		default:
			var c histCase
			if err := json.Unmarshal(rf.Case, &c); err != nil {
				t.Fatal(err)
			}
			kf := kfSet{
				nextClear: ev.Open("C03-next-after-clear"), zeroKey: ev.Open("C03-next-key-zero"), resetFloat: ev.Open("C03-reset-float-key"),
				setInScan: ev.Open("C03-set-existing-in-traversal"), closureKey: ev.Open("C03-closure-key-equality"),
			}
			if msg := runCase(w, kf, rec, c); msg != "" {
				rec.Violation("history", c, msg)
			}
		}
		return
	}

	kf := kfSet{
		nextClear:  CheckKnown(rec, "C03-next-after-clear", demoNextClear),
		zeroKey:    CheckKnown(rec, "C03-next-key-zero", demoZeroKey),
		resetFloat: CheckKnown(rec, "C03-reset-float-key", demoResetFloat),
		setInScan:  CheckKnown(rec, "C03-set-existing-in-traversal", demoSetInScan),
		closureKey: CheckKnown(rec, "C03-closure-key-equality", func() bool { return demoClosureKey(w) }),
	}

	// (b) pairwise law, exhaustive over the pool
	t0 := time.Now()
	checkPairs(rec, w, kf)
	rec.Set("phase_pairs_seconds", time.Since(t0).Seconds())
	defer func(t1 time.Time) { rec.Set("phase_histories_seconds", time.Since(t1).Seconds()) }(time.Now())
	if rec.NViolations() > 0 {
		return
	}

	// (d) chains of __index/__newindex tables
	if !RunRapid(rec, "C03/metamethod-chains", rec.Pick(1500, 30000), 3, func(t *rapid.T) {
		c := genChain(t)
		msg, consulted := checkChain(c)
		rec.Eval()
		rec.Class("chain")
		if consulted >= 2 {
			rec.Class("chain:metamethod-consulted-at-2+-tables")
			rec.NonTrivial(fmt.Sprint("chain|", c))
		}
		if msg != "" {
			FailCase(t, "chain", c, "%s", msg)
		}
	}) {
		return
	}

	// (a)+(c) histories
	flag.Set("rapid.steps", "45")
	_, _, shapeOK := tableShape(rt.NewTable())
	if !shapeOK {
		rec.Assume("table shape not readable by reflection: histories cannot be classified as migrating")
	}
	RunRapid(rec, "C03/history", rec.Pick(750, 20000), 0, func(t *rapid.T) {
		lua := true
		if rec.Thorough() {
			lua = rapid.IntRange(0, 3).Draw(t, "alsoAsLua") == 0
		}
		meta := rapid.Bool().Draw(t, "alsoLoggerMetatable") && lua
		s := newStepper(w, kf, rec)
		c := histCase{Lua: lua, Meta: meta, Note: "traversal order depends on the process's hash seed; a replay in another process may take another order"}
		fail := func(msg string) {
			FailCase(t, "history", c, "%s", msg)
		}
		acts := map[string]func(*rapid.T){}
		for _, name := range actionNames {
			op := name
			for i := range name {
				if name[i] == ':' {
					op = name[i+1:]
				}
			}
			acts[name] = func(t *rapid.T) {
				if s.full() {
					return
				}
				a := drawAction(t, op, s.g.m, len(s.prims))
				c.Actions = append(c.Actions, a)
				if msg := s.step(a); msg != "" {
					fail(fmt.Sprintf("Go API route, action %d (%s), step %d: %s\n  model before the failing check: %s", len(c.Actions)-1, actionText(a), len(s.prims), msg, s.g.m.describe()))
				}
			}
		}
		acts[""] = func(t *rapid.T) {} // the invariant is checked after every primitive step inside step()
		t.Repeat(acts)
		msg, poisoned := finishHistory(w, s, lua, meta)
		if poisoned {
			w.s.Close()
			w.init()
		}
		if msg != "" {
			fail(msg)
		}
		rec.Eval()
		classify(rec, s, c)
		rec.Sample(map[string]any{"actions": len(c.Actions), "steps": len(s.prims), "migrations": s.g.migrations, "removals": s.g.effRemovals, "updates_in_traversals": s.g.scanUpdates, "max_keys": s.g.maxKeys, "first_actions": firstActions(c.Actions, 6)})
	})
}

func firstActions(as []action, n int) []string {
	var out []string
	for i, a := range as {
		if i >= n {
			break
		}
		out = append(out, actionText(a))
	}
	return out
}
