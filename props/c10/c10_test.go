package c10

import (
	"encoding/json"
	"strings"
	"testing"

	"pgregory.net/rapid"

	"verif/internal/ev"
	"verif/internal/harness"
	"verif/internal/luagen"
	"verif/internal/mlua"
	. "verif/internal/pbt"
	"verif/internal/progcheck"
)

// C10 — to-be-closed variables are closed exactly once, in reverse order, on
// every exit.

type rapidChooser struct{ t *rapid.T }

func (c rapidChooser) Choose(n int) int { return rapid.IntRange(0, n-1).Draw(c.t, "spelling") }

func TestC10(t *testing.T) {
	rec := ev.New("C10")
	defer Finish(t, rec)
	rec.Rule("(1) exhaustive grid: constructs {do, while, repeat, numeric for, generic for with a closing value, function, pcall, coroutine} nested to depth 2 (quick) / 3 (thorough), 0-1 to-be-closed declarations per outer level and 1-2 at the innermost, handler behaviours {plain, raises a string, raises a table, nil, false}, crossed with every exit kind at the innermost position {fall off, break, goto out, return, return values, return f() (tail-call suppression), error(string), error(table), runtime error, yield then coroutine.close, yield then abandon}; (2) rapid programs from the close-heavy generator profile in several renderings. Oracle: reference interpreter (each pending value closed exactly once, reverse order, with the in-flight error or nil, before the receiver of control runs; handler errors replace the error; non-closable values raise). Non-trivial: >= 2 close handlers ran and the scope was left by something other than falling off the end; distinct by program text.")
	rec.Assume("an error that kills a coroutine which still has pending to-be-closed variables: the manual (§3.3.8) says nothing is closed until coroutine.close; implementations closing at once differ observably, so these cases are discarded (counted)")
	progcheck.ApplyKnownFindings(rec)

	if rec.Replay != "" {
		rf, err := rec.LoadReplay()
		if err != nil {
			t.Fatal(err)
		}
		var c progcheck.Case
		if err := json.Unmarshal(rf.Case, &c); err != nil {
			t.Fatal(err)
		}
		rec.Eval()
		if msg := progcheck.Compare(c.Expected, progcheck.RunGolua(c, harness.Opts{})); msg != "" {
			rec.Violation("program", c, msg)
		}
		return
	}

	// (1) the grid
	grid := luagen.CloseGrid(rec.Pick(2, 3))
	nviol := 0
	for i, gc := range grid {
		if !rec.Mine(i) {
			continue
		}
		src, lines := mlua.Render(gc.Block, nil)
		res := progcheck.Model(gc.Block, lines, nil)
		if res.Unspecified != "" {
			rec.Discard("unspecified: " + res.Unspecified)
			continue
		}
		if res.Budget {
			rec.Discard("reference-budget")
			continue
		}
		c := progcheck.Case{Source: src, Expected: progcheck.ExpectedOf(res), Note: gc.Name}
		tr := progcheck.RunGolua(c, harness.Opts{})
		rec.Eval()
		exit := gc.Name[strings.LastIndex(gc.Name[:strings.Index(gc.Name, "/")], ">")+1 : strings.Index(gc.Name, "/")]
		rec.Class("exit:" + exit)
		if res.Feat["close-handler-run"] >= 2 && exit != "fall" {
			rec.NonTrivial(src)
		}
		if res.Feat["close-handler-raised"] > 0 {
			rec.Class("handler-raised")
		}
		rec.Sample(map[string]any{"case": gc.Name, "source": src, "events": len(res.Events)})
		if msg := progcheck.Compare(c.Expected, tr); msg != "" && nviol < 5 {
			nviol++
			red := progcheck.Reduce(gc.Block, nil, harness.Opts{}, 800)
			if m2, c2, def := progcheck.Check(red, nil, harness.Opts{}); def && m2 != "" {
				c2.Note = gc.Name
				rec.Violation("program", c2, m2+"\n--- grid case "+gc.Name+" (reduced) ---\n"+progcheck.Numbered(c2.Source))
			} else {
				rec.Violation("program", c, msg+"\n--- grid case "+gc.Name+" ---\n"+progcheck.Numbered(src))
			}
		}
	}
	rec.Set("grid_size", len(grid))
	rec.Exhaustive(true)
	if nviol > 0 {
		return
	}

	// (2) random close-heavy programs
	ShrinkTime = "1ms"
	prof := luagen.General
	prof.Name, prof.Close, prof.Errors, prof.Coroutines, prof.Goto = "close", 24, 8, 5, 6
	renderings := rec.Pick(2, 3)
	RunRapid(rec, "C10/programs", rec.Pick(300, 8000), 0, func(t *rapid.T) {
		prog := luagen.Generate(t, prof)
		specs := progcheck.ArgSpecs(prog.Args)
		for k := 0; k < renderings; k++ {
			var ch mlua.Chooser
			if k > 0 {
				ch = rapidChooser{t}
			}
			src, lines := mlua.Render(prog.Block, ch)
			res := progcheck.Model(prog.Block, lines, specs)
			if res.Unspecified != "" || res.Budget || res.OrderSensitive {
				rec.Discard("unspecified/budget (random part)")
				return
			}
			c := progcheck.Case{Source: src, Args: specs, Expected: progcheck.ExpectedOf(res)}
			tr := progcheck.RunGolua(c, harness.Opts{})
			rec.Eval()
			if k == 0 {
				if res.Feat["close-handler-run"] >= 2 {
					rec.Class("random:>=2-handlers")
					rec.NonTrivial(src + strings.Join(specs, ","))
				}
				if res.Feat["close-handler-run"] == 0 {
					rec.Class("random:no-handler")
				}
			}
			if msg := progcheck.Compare(c.Expected, tr); msg != "" {
				red := progcheck.Reduce(prog.Block, specs, harness.Opts{}, 1500)
				if m2, c2, def := progcheck.Check(red, specs, harness.Opts{}); def && m2 != "" {
					FailCase(t, "program", c2, "%s\n--- program (reduced) ---\n%s--- args: %v", m2, progcheck.Numbered(c2.Source), specs)
				}
				FailCase(t, "program", c, "%s\n--- program (rendering %d) ---\n%s--- args: %v", msg, k, progcheck.Numbered(src), specs)
			}
		}
	})
}
