package c04

import (
	"fmt"
	"os"
	"regexp"
	"runtime"
	"sort"
	"strconv"
	"strings"
	"time"

	rt "github.com/arnodel/golua/runtime"

	"verif/internal/ev"
	"verif/internal/harness"
)

// ---------------------------------------------------------------------------
// the edge-value pool
//
// Every pool value has a NAME (what a case stores) and a Lua expression that
// builds a FRESH value for every call (tables, coroutines and files are
// mutated by the functions under test).

type poolVal struct {
	name  string
	expr  string // Lua expression, evaluated inside the prelude (may use helpers)
	isStr bool
	str   string // value of string entries (for input-class recognisers)
}

func luaQuote(s string) string {
	var sb strings.Builder
	sb.WriteByte('"')
	for i := 0; i < len(s); i++ {
		c := s[i]
		switch {
		case c == '"' || c == '\\':
			sb.WriteByte('\\')
			sb.WriteByte(c)
		case c < 32 || c >= 127:
			fmt.Fprintf(&sb, "\\%03d", c)
		default:
			sb.WriteByte(c)
		}
	}
	sb.WriteByte('"')
	return sb.String()
}

func pv(name, expr string) poolVal { return poolVal{name: name, expr: expr} }
func ps(prefix, s string) poolVal {
	// names are stored in JSON replay files: keep them ASCII
	q := strconv.QuoteToASCII(s)
	return poolVal{name: prefix + ":" + q[1:len(q)-1], expr: luaQuote(s), isStr: true, str: s}
}
func pss(prefix string, ss ...string) []poolVal {
	var out []poolVal
	for _, s := range ss {
		out = append(out, ps(prefix, s))
	}
	return out
}

var kB = strings.Repeat("x", 1024)

var generalPool = []poolVal{
	pv("nil", "nil"), pv("true", "true"), pv("false", "false"),
	pv("0", "0"), pv("1", "1"), pv("-1", "-1"), pv("2", "2"), pv("2^31", "1 << 31"), pv("maxint", "math.maxinteger"), pv("minint", "math.mininteger"),
	pv("0.5", "0.5"), pv("-0.0", "-0.0"), pv("nan", "0/0"), pv("inf", "math.huge"), pv("-inf", "-math.huge"), pv("2^63", "2.0^63"), pv("2^53", "2.0^53"),
	ps("s", ""), ps("s", "a"), ps("s", "%"), ps("s", "["), ps("s", "%1"), {name: "s:1kB", expr: `string.rep("x", 1024)`, isStr: true, str: kB}, ps("s", "10"), ps("s", "abc\x00def"),
	pv("{}", "{}"), pv("{1,2,3}", "{1, 2, 3}"), pv("metaall", "H.metaall()"), pv("metaraise", "H.metaraise()"),
	pv("closure", "H.closure()"), pv("gofunction", "H.tostring"), pv("co-suspended", "H.cosusp()"), pv("co-dead", "H.codead()"),
	pv("file", "H.file()"), pv("closed-file", "H.closedfile()"),
}

// per-family, per-position extra values (position 0 = first argument)
type family struct {
	name   string
	match  func(path string) bool
	extras map[int][]poolVal
}

func pathIn(names ...string) func(string) bool {
	return func(p string) bool {
		for _, n := range names {
			if p == n {
				return true
			}
		}
		return false
	}
}

var patterns = pss("pat", "a", "%a+", "[", "[a", "[]", "[^]", "[%", "%", "(", ")", "()", "(()", "%b", "%bx", "%bxy", "%f", "%f[", "%f[a]", "^", "$", "^$", ".-", ".*", "a*", "a-", "a?", "[a-z]", "[z-a]", "[%a-z]", "[a-%a]", "%g", "%z",
	strings.Repeat("(", 33)+"a"+strings.Repeat(")", 33), strings.Repeat("(a)", 32), strings.Repeat("(a)", 33), "(a)(b)%3", "%0", "(a)%1", "(a%1)", "(%1)", "[[:alpha:]]", "\x00", "[\x00-\xff]", "%", "a%", "[a%", "[%a", "%f[^%z]",
	strings.Repeat("x?", 30)+strings.Repeat("x", 30), strings.Repeat(".-", 20)+"y", strings.Repeat("a*", 200), "()()()", "(x*)*", "^(.-)$", "%b()", "[^%s]+", "%w+%s*=%s*%w+", "(", "(((", "%((", "[]]", "[^]]", "[a-]", "[-a]", "x-", "-", "*", "?", "+")

var families = []family{
	{name: "format", match: pathIn("string.format"), extras: map[int][]poolVal{
		0: pss("fmt", "%", "%5", "%.", "%p", "%q", "%99d", "%100d", "%-+ #05.3d", "%d", "%s", "%5.2s", "%c", "%x", "%a", "%g", "%.99f", "%.100f", "%i", "%u", "%%", "%5%", "%q5", "%10q", "%ll", "%#x", "%-", "%0", "% d", "%d%", "%s%s%s", "%.3q", "%*d", "%$", "%99.99f", "%.0s", "%-99s", "%c%c", "%U", "%b", "%t", "%e", "%G", "%A", "%o", "%X", "%5.", "%.5", "%5.5", "x%", "%s%", "%s%5", "%p%p", "%s%p", "%d %p", "%%%", "%1$d", "%hd", "%ld", "%lld", "%Lf", "%n", "%v", "%T", "%+d", "%#o", "%08.3f", "%.14g", "%5c", "%-5c", "%05s", "%.20s", "%99s", "%099d", "%.99d", "%.99s", "%.99x", "%#.99x", "%+.99e", "%.99g", "%.99a"),
	}},
	{name: "pack", match: pathIn("string.pack", "string.packsize", "string.unpack"), extras: map[int][]poolVal{
		0: pss("pk", "i4", "<i8", ">I2", "!8", "i0", "i17", "i16", "I16", "z", "s1", "s", "s16", "s17", "c0", "c", "c10", "c99999999999999999999", "x", "X", "Xi4", "Xz", "Xs", "XX", "j", "J", "T", "f", "d", "n", "b", "B", "h", "H", "l", "L", "=", " ", "!", "!0", "!17", "!16", "<!4 i1 i8", "i4 i4 i4", "z z", "s4", "c4294967296", "i", "I", "bXi16", "!1 Xi8", "r", "i-1", "i 4", "c2147483648", "c9223372036854775807", "c9223372036854775808", "s8", "i1i2i3i4i5i6i7i8i9", "I9", "i9", "i16i16", ">i3<i3=i3", "!2i8", "!i", "Xd", "X!", "!X", "Xc1", "xxxxxxxx", "c1c1c1", "s2s2", "zzz", "b b b", "<", ">", "jjjjjjjj", "dddd", "i4x!8i8"),
		1: append(pss("pkd", "\x01\x00\x00\x00", "\xff\xff\xff\xff\xff\xff\xff\xff", "\x00\x00\x00\x00\x00\x00\x00\x80", "\x03abc", "abc\x00", "\xff\xff\xff\xff\xff\xff\xff\xff\xff\xff\xff\xff\xff\xff\xff\xff", "\x80\x00\x00\x00\x00\x00\x00\x00\x00"), pv("{1}", "{1}")),
		2: {pv("3", "3"), pv("-3", "-3"), pv("1025", "1025"), pv("1024", "1024")},
	}},
	{name: "date", match: pathIn("os.date"), extras: map[int][]poolVal{
		0: pss("dt", "%", "%E", "%Ox", "%c", "*t", "!*t", "!%c", "%Y-%m-%d", "%Ec", "%OS", "%E%", "%Q", "%5", "%%", "%a%A%b%B%c%d%H%I%j%m%M%p%S%U%w%W%x%X%y%Y%Z%%", "%z", "%G%g%V%u%n%t%e%D%F%h%r%R%T%C", "!%", "*", "!", "*t%", "%Ey", "%Od", "%EY%EC%Ex%EX", "%Oe%OH%OI%Om%OM%OS%Ou%OU%OV%Ow%OW%Oy", "%N", "%+", "%-d", "%_d", "%^a", "%#Z", "%10d", "%s", "%k%l%P", "%O", "%EO", "%OE", "%E5", "%Ea", "%Oa", "x%", "%c%", "%E\x00", "*tx", "!*tx", "!!", "%\xff", strings.Repeat("%c", 300), strings.Repeat("%Y", 1000)),
		1: {pv("1e18", "1000000000000000000"), pv("-1e18", "-1000000000000000000"), pv("2^55", "1 << 55"), pv("-2^55", "-(1 << 55)"), pv("253402300800", "253402300800"), pv("-62135596801", "-62135596801"), pv("1e300", "1e300"), pv("67768036191676800", "67768036191676800")},
	}},
	{name: "time", match: pathIn("os.time"), extras: map[int][]poolVal{
		0: {pv("t:2020", "{year=2020, month=1, day=1}"), pv("t:maxyear", "{year=math.maxinteger, month=1, day=1}"), pv("t:minmonth", "{year=2020, month=math.mininteger, day=math.maxinteger}"), pv("t:strs", `{year="2020", month="x", day=1}`), pv("t:nan", "{year=2020, month=1, day=1, hour=0/0}"), pv("t:1e300", "{year=1e300, month=1, day=1}"), pv("t:frac", "{year=2020, month=1.5, day=1}"), pv("t:maxsec", "{year=2020, month=1, day=1, sec=math.maxinteger, min=math.maxinteger, hour=math.maxinteger}"), pv("t:minall", "{year=math.mininteger, month=math.mininteger, day=math.mininteger}"), pv("t:isdst", `{year=2020, month=1, day=1, isdst="x"}`), pv("t:2^31year", "{year=1<<31, month=1, day=1}"), pv("t:meta", "setmetatable({}, {__index = function(_, k) return 1 end})")},
	}},
	{name: "pattern", match: pathIn("string.find", "string.match", "string.gmatch", "string.gsub"), extras: map[int][]poolVal{
		0: pss("subj", "abc", "(a)", "hello world from lua", strings.Repeat("x", 60), strings.Repeat("ab", 200), "a\x00b", "((()))"),
		1: patterns,
		2: append(pss("repl", "%", "%1", "%2", "%0", "%%", "%x", "%9", "x%", "%1%1%1", "%0%0"), pv("repl:table", `{a = "b", abc = true, x = false}`), pv("repl:func", `function(...) return ... end`), pv("repl:func-nil", `function() end`), pv("repl:func-tbl", `function() return {} end`), pv("3", "3"), pv("-3", "-3"), pv("1025", "1025")),
	}},
	{name: "io.open", match: pathIn("io.open", "io.lines", "io.input", "io.output", "loadfile", "dofile"), extras: map[int][]poolVal{
		0: pss("fname", "c04file.txt", "c04missing.txt", ".", "c04dir/x"),
		1: pss("mode", "r", "w", "a", "r+", "w+", "a+", "rb", "wb", "r+b", "rw", "x", "rr", "+", "b", "w+x", "r\x00", "rb+", "br", "wx", "R", " r", "r ", "n", "l", "L", "a", "*a", "*n", "*l", "*L", "*x", "nn"),
	}},
	{name: "file-method", match: func(p string) bool { return strings.HasPrefix(p, "<file-mt>") || strings.HasPrefix(p, "io.") }, extras: map[int][]poolVal{
		1: append(pss("rfmt", "n", "l", "L", "a", "*a", "*n", "*l", "*L", "*x", "nn", "set", "cur", "end", "no", "full", "line", "bogus"), pv("3", "3"), pv("1025", "1025")),
		2: {pv("3", "3"), pv("1025", "1025"), pv("-3", "-3")},
	}},
	{name: "load", match: pathIn("load"), extras: map[int][]poolVal{
		0: append(pss("chunk", "return 1", "return ...", "x =", "\x1bLua", "#!x\nreturn 1", "return [[]]", "return "+strings.Repeat("(", 200)+"1"+strings.Repeat(")", 200), "\xef\xbb\xbfreturn 1"),
			pv("chunk:dump", "string.dump(function(a) return a end)"), pv("chunk:pieces", `H.pieces("return ", "1", " + 2")`), pv("chunk:badpieces", `H.pieces("return ", 5, {})`), pv("chunk:errpieces", `function() error("piece") end`), pv("chunk:endless", `function() return "x = 1 " end`)),
		1: pss("cname", "=x", "@x", "x\x00y", "=", "@", "=[C]"),
		2: pss("lmode", "t", "b", "bt", "x", "tb", "T", "text"),
		3: {pv("env:_G", "H.G"), pv("env:meta", "H.metaall()")},
	}},
	{name: "utf8", match: func(p string) bool { return strings.HasPrefix(p, "utf8.") }, extras: map[int][]poolVal{
		0: append(pss("u8", "\xff", "\xc0\x80", "\xf4\x90\x80\x80", "é", "\xfd\xbf\xbf\xbf\xbf\xbf", "\xed\xa0\x80", "a\xe2\x82", "日本語", "\xf8\x88\x80\x80\x80"), pv("0x7FFFFFFF", "0x7FFFFFFF"), pv("0x80000000", "0x80000000"), pv("0x10FFFF", "0x10FFFF"), pv("0x110000", "0x110000"), pv("0xD800", "0xD800")),
		1: {pv("0x7FFFFFFF", "0x7FFFFFFF"), pv("0x80000000", "0x80000000"), pv("3", "3"), pv("-3", "-3"), pv("1025", "1025"), pv("1024", "1024")},
		2: {pv("3", "3"), pv("-3", "-3"), pv("1025", "1025")},
	}},
	{name: "table", match: func(p string) bool {
		return strings.HasPrefix(p, "table.") || p == "next" || p == "ipairs" || p == "rawlen" || p == "rawget" || p == "rawset" || p == "select"
	}, extras: map[int][]poolVal{
		0: {pv("tbl:proxy-huge", "H.proxy(math.maxinteger)"), pv("tbl:proxy-neg", "H.proxy(-5)"), pv("tbl:proxy-str", `H.proxy("x")`), pv("tbl:proxy-float", "H.proxy(2.5)"), pv("tbl:proxy-nan", "H.proxy(0/0)"), pv("tbl:n", "{n = 3}"), pv("tbl:holes", "{1, nil, 3, nil, nil, 6}"), pv("tbl:mixed", `{1, "b", 3.5, {}, false}`), pv("tbl:100", "H.seq(100)"), pv("tbl:strs", `{"c", "a", "b"}`), ps("s", "#")},
		1: {pv("3", "3"), pv("4", "4"), pv("-3", "-3"), pv("maxint-1", "math.maxinteger - 1"), pv("cmp:bad", "function(a, b) return true end"), pv("cmp:err", `function(a, b) error("cmp") end`), pv("cmp:num", "function(a, b) return 1 end")},
		2: {pv("3", "3"), pv("4", "4"), pv("-3", "-3"), pv("maxint-1", "math.maxinteger - 1")},
		3: {pv("3", "3"), pv("maxint-1", "math.maxinteger - 1")},
	}},
	{name: "string-int", match: pathIn("string.rep", "string.sub", "string.byte", "string.char", "string.len", "string.lower", "string.upper", "string.reverse", "string.dump"), extras: map[int][]poolVal{
		0: pss("subj", "abc", "hello world from lua"),
		1: {pv("3", "3"), pv("-3", "-3"), pv("255", "255"), pv("256", "256"), pv("1025", "1025"), pv("1<<40", "1 << 40")},
		2: {pv("3", "3"), pv("-3", "-3"), pv("1025", "1025"), pv("256", "256")},
	}},
	{name: "tonumber", match: pathIn("tonumber", "tostring", "math.tointeger", "math.type"), extras: map[int][]poolVal{
		0: pss("num", "10", "zz", "1e1", "0x", " 10 ", "1 0", "1\x00", "0x1p4", "1e", "-0x10", "- 1", "1e400", "0x"+strings.Repeat("f", 40), strings.Repeat("9", 400), "7fffffffffffffff", "-8000000000000000", "१"),
		1: {pv("36", "36"), pv("37", "37"), pv("16", "16"), pv("10", "10"), pv("35", "35")},
	}},
	{name: "collectgarbage", match: pathIn("collectgarbage"), extras: map[int][]poolVal{
		0: pss("gc", "collect", "count", "step", "isrunning", "incremental", "generational", "stop", "restart", "setpause", "setstepmul", "bogus"),
	}},
	{name: "package", match: func(p string) bool { return p == "require" || strings.HasPrefix(p, "package.") }, extras: map[int][]poolVal{
		0: pss("mod", "a.b", "..", "?", "string", "c04mod"),
		1: pss("ppath", "?.lua", "./?;?", ";;", "?", "./c04file.txt", "?;"+strings.Repeat("?/", 300)),
	}},
	{name: "debug", match: func(p string) bool { return strings.HasPrefix(p, "debug.") }, extras: map[int][]poolVal{
		0: {pv("3", "3"), pv("100", "100")},
		1: append(pss("what", "nSltufrL", ">f", ">", "x", "f", "S", "l", "n", "u", "t", "L", "r", ">S"), pv("3", "3"), pv("255", "255"), pv("256", "256")),
		2: {pv("3", "3"), pv("255", "255")},
	}},
	{name: "runtime", match: func(p string) bool { return strings.HasPrefix(p, "runtime.") }, extras: map[int][]poolVal{
		0: {pv("q:cpu1", "{kill = {cpu = 1}}"), pv("q:cpu1000", "{kill = {cpu = 1000}}"), pv("q:cpu0", "{kill = {cpu = 0}}"), pv("q:mem-1", "{kill = {memory = -1}}"), pv("q:mem1", "{kill = {memory = 1}}"), pv("q:stop1ms", "{stop = {millis = 1}}"), pv("q:flags", `{flags = "cpusafe memsafe"}`), pv("q:badflags", `{flags = "bogus"}`), pv("q:flagsnum", `{flags = 5}`), pv("q:cpu1e30", "{kill = {cpu = 1e30}}"), pv("q:cpustr", `{kill = {cpu = "x"}}`), pv("q:killstr", `{kill = "x"}`), pv("q:millis.5", "{kill = {millis = 0.5}}"), pv("q:secs", "{kill = {seconds = 1e300}}"), pv("q:secs-neg", "{kill = {seconds = -1}}"), pv("q:meta", "{kill = H.metaall()}"), pv("q:metaraise", "{kill = H.metaraise()}"), pv("q:all", "{kill = {cpu = 100000, memory = 100000, millis = 1000}, stop = {cpu = 10, memory = 10}}"), pv("ctx", "runtime.context()")},
		1: {pv("f:loop", "function() while true do end end"), pv("f:alloc", `function() local s = "x" while true do s = s .. s end end`), pv("f:nest", `function(...) return runtime.callcontext({kill = {cpu = 100}}, function() while true do end end) end`), pv("f:kill", "function() runtime.killcontext() end"), pv("f:stop", "function() runtime.stopcontext() return 1 end"), pv("f:err", `function() error("e") end`), pv("f:yield", "coroutine.yield")},
	}},
	{name: "ctx-method", match: func(p string) bool { return strings.HasPrefix(p, "<ctx-mt>") || strings.HasPrefix(p, "<res-mt>") }, extras: map[int][]poolVal{
		0: {pv("ctx", "runtime.context()"), pv("res", "runtime.context().kill"), pv("ctx-done", "(runtime.callcontext({}, function() end))"), pv("ctx-killed", "(runtime.callcontext({kill = {cpu = 10}}, function() while true do end end))")},
		1: pss("key", "kill", "stop", "used", "status", "parent", "flags", "due", "killnow", "stopnow", "cpu", "memory", "millis", "seconds", "x"),
	}},
	{name: "coroutine", match: func(p string) bool { return strings.HasPrefix(p, "coroutine.") }, extras: map[int][]poolVal{
		0: {pv("co:new", "coroutine.create(function(...) return ... end)"), pv("co:err", `coroutine.create(function() error("x") end)`), pv("co:wrapfn", "coroutine.wrap(function(...) coroutine.yield(...) end)"), pv("co:running", "coroutine.running()"), pv("co:closeerr", "H.cocloseerr()"), pv("co:yielder", "coroutine.yield")},
	}},
	{name: "base", match: pathIn("setmetatable", "getmetatable", "error", "assert", "select", "pcall", "xpcall", "print", "warn", "rawequal"), extras: map[int][]poolVal{
		0: {pv("tbl:protected", `setmetatable({}, {__metatable = "locked"})`), ps("s", "#"), ps("s", "@on"), ps("s", "@off"), pv("f:err", `function() error("e") end`), pv("f:errtbl", `function() error(setmetatable({}, {__tostring = function() error("tostring") end})) end`)},
		1: {pv("mt:gc", `{__gc = function() end, __close = function() end, __mode = "kv"}`), pv("mt:badmode", `{__mode = 5, __gc = 5, __close = 5, __name = 5, __metatable = false}`), pv("3", "3"), pv("f:errh", `function(e) error(e) end`)},
	}},
}

func poolFor(path string, pos int) []poolVal {
	out := append([]poolVal{}, generalPool...)
	seen := map[string]bool{}
	for _, p := range out {
		seen[p.name] = true
	}
	for _, f := range families {
		if f.match(path) {
			for _, p := range f.extras[pos] {
				if !seen[p.name] {
					seen[p.name] = true
					out = append(out, p)
				}
			}
		}
	}
	return out
}

func familyOf(path string) string {
	for _, f := range families {
		if f.match(path) {
			return f.name
		}
	}
	if i := strings.IndexByte(path, '.'); i > 0 {
		return path[:i]
	}
	return "base"
}

var poolIndex = func() map[string]poolVal {
	m := map[string]poolVal{}
	add := func(p poolVal) {
		if old, ok := m[p.name]; ok && old.expr != p.expr {
			panic("pool name clash: " + p.name)
		}
		m[p.name] = p
	}
	for _, p := range generalPool {
		add(p)
	}
	for _, f := range families {
		for _, ps := range f.extras {
			for _, p := range ps {
				add(p)
			}
		}
	}
	return m
}()

// ---------------------------------------------------------------------------
// the Lua side: helpers, pool constructors, function discovery, runner

const libHelpers = `
local H = {}
H.G = _G
H.tostring = tostring
local pcall, select, setmetatable, getmetatable, type, next, rawget, error = pcall, select, setmetatable, getmetatable, type, next, rawget, error
local tsort, tunpack = table.sort, table.unpack
local cocreate, coresume, coyield, coclose = coroutine.create, coroutine.resume, coroutine.yield, coroutine.close
local ioopen = io.open
local fclose = getmetatable(io.stdout).__index.close
local fwrite = getmetatable(io.stdout).__index.write
local fseek = getmetatable(io.stdout).__index.seek
local opened = {}
function H.metaall()
  local mt = {}
  for _, e in next, {"add", "sub", "mul", "div", "mod", "pow", "unm", "idiv", "band", "bor", "bxor", "shl", "shr", "bnot", "concat"} do
    mt["__" .. e] = function(a, b) return 1 end
  end
  mt.__len = function() return 3 end
  mt.__eq = function() return true end
  mt.__lt = function() return true end
  mt.__le = function() return false end
  mt.__index = function(_, k) return k end
  mt.__newindex = function() end
  mt.__call = function(self, ...) return ... end
  mt.__tostring = function() return "metaall" end
  mt.__name = "metaall"
  mt.__close = function() end
  mt.__gc = function() end
  mt.__pairs = function(t) return next, {10, 20}, nil end
  mt.__mode = "k"
  return setmetatable({}, mt)
end
function H.metaraise()
  local mt = {}
  for _, e in next, {"add", "sub", "mul", "div", "mod", "pow", "unm", "idiv", "band", "bor", "bxor", "shl", "shr", "bnot", "concat",
      "len", "eq", "lt", "le", "index", "newindex", "call", "tostring", "close", "gc", "pairs"} do
    mt["__" .. e] = function() error("raised by metamethod __" .. e) end
  end
  mt.__name = 5
  return setmetatable({}, mt)
end
function H.closure()
  local u, v = 0, "up"
  return function(...) u = u + 1 return ... end
end
function H.cosusp()
  local co = cocreate(function(...) local a = coyield(...) return a end)
  coresume(co, 1, 2)
  return co
end
function H.codead()
  local co = cocreate(function() return 1 end)
  coresume(co)
  return co
end
function H.cocloseerr()
  local co = cocreate(function()
    local x <close> = setmetatable({}, {__close = function() error("close") end})
    coyield()
  end)
  coresume(co)
  return co
end
function H.file()
  local f = ioopen("c04pool.txt", "w+")
  if f then
    fwrite(f, "line1\nline2\n3.5 0x10 -7\nrest")
    fseek(f, "set", 0)
    opened[#opened + 1] = f
  end
  return f
end
function H.closedfile()
  local f = ioopen("c04closed.txt", "w+")
  if f then fclose(f) end
  return f
end
function H.proxy(len)
  return setmetatable({}, {__len = function() return len end, __index = function(_, i) return i end, __newindex = function() end})
end
function H.seq(n)
  local t = {}
  for i = 1, n do t[i] = (i * 7919) % 101 end
  return t
end
function H.pieces(...)
  local p, i = {...}, 0
  return function() i = i + 1 return p[i] end
end
function H.cleanup()
  for i = #opened, 1, -1 do pcall(fclose, opened[i]) opened[i] = nil end
end
-- scratch files some calls expect
do
  local f = ioopen("c04file.txt", "w")
  if f then fwrite(f, "return 1\n") fclose(f) end
end

-- discovery of every function reachable from the library tables
local found, seen = {}, {}
local function walk(path, v, depth)
  if type(v) == "function" then
    if not seen[v] then seen[v] = true found[#found + 1] = {path, v} end
    return
  end
  if type(v) ~= "table" or seen[v] or depth > 5 then return end
  seen[v] = true
  local keys = {}
  for k in next, v do if type(k) == "string" then keys[#keys + 1] = k end end
  tsort(keys)
  for _, k in next, keys do
    if not (depth == 0 and (k == "package" or k == "H")) then
      walk(path == "" and k or (path .. "." .. k), rawget(v, k), depth + 1)
    end
  end
end
walk("", _G, 0)
walk("package", package, 1)
walk("<string-mt>", getmetatable(""), 1)
walk("<file-mt>", getmetatable(io.stdout), 1)
if runtime then
  local ctx = runtime.context()
  walk("<ctx-mt>", getmetatable(ctx), 1)
  walk("<res-mt>", getmetatable(ctx.kill), 1)
end
H.found = found
`

// libPrelude builds the chunk that returns (functions, pool constructors, runners).
func libPrelude() string {
	var sb strings.Builder
	sb.WriteString(libHelpers)
	sb.WriteString("local P = {}\n")
	names := make([]string, 0, len(poolIndex))
	for n := range poolIndex {
		names = append(names, n)
	}
	sort.Strings(names)
	for _, n := range names {
		fmt.Fprintf(&sb, "P[%s] = function() return (%s) end\n", luaQuote(n), poolIndex[n].expr)
	}
	sb.WriteString(`
local cleanup = H.cleanup
local function fin(ok, e, ...)
  cleanup()
  if ok then return true, select('#', ...) + (e ~= nil and 1 or 0), type(e) end
  if type(e) == "string" then return false, e end
  return false, "(error object is a " .. type(e) .. " value)"
end
local R = {}
R[0] = function(f) return fin(pcall(f)) end
R[1] = function(f, a) return fin(pcall(f, P[a]())) end
R[2] = function(f, a, b) return fin(pcall(f, P[a](), P[b]())) end
R[3] = function(f, a, b, c) return fin(pcall(f, P[a](), P[b](), P[c]())) end
R[4] = function(f, a, b, c, d) return fin(pcall(f, P[a](), P[b](), P[c](), P[d]())) end
return H.found, R
`)
	return sb.String()
}

type libFn struct {
	path string
	fn   rt.Value
}

type libSession struct {
	s       *harness.Session
	fns     []libFn
	byPath  map[string]rt.Value
	runners [5]rt.Value
}

func newLibSession() (*libSession, error) {
	s := harness.NewSession()
	clos, err := s.R.CompileAndLoadLuaChunk("libprelude", []byte(libPrelude()), rt.TableValue(s.R.GlobalEnv()))
	if err != nil {
		return nil, fmt.Errorf("prelude does not compile: %v", err)
	}
	term := rt.NewTerminationWith(nil, 2, false)
	if err := rt.Call(s.R.MainThread(), rt.FunctionValue(clos), nil, term); err != nil {
		return nil, fmt.Errorf("prelude failed: %v", err)
	}
	found, ok := term.Get(0).TryTable()
	if !ok {
		return nil, fmt.Errorf("prelude: no function list")
	}
	rtab, ok := term.Get(1).TryTable()
	if !ok {
		return nil, fmt.Errorf("prelude: no runners")
	}
	ls := &libSession{s: s, byPath: map[string]rt.Value{}}
	for i := int64(1); ; i++ {
		e, ok := found.Get(rt.IntValue(i)).TryTable()
		if !ok {
			break
		}
		p, _ := e.Get(rt.IntValue(1)).TryString()
		f := e.Get(rt.IntValue(2))
		ls.fns = append(ls.fns, libFn{path: p, fn: f})
		ls.byPath[p] = f
	}
	for i := 0; i <= 4; i++ {
		ls.runners[i] = rtab.Get(rt.IntValue(int64(i)))
	}
	return ls, nil
}

const (
	libCPU = 100_000
	libMem = 64 << 20
)

var argCheckRe = regexp.MustCompile(`#\d+ must be|bad argument|arguments? needed|value needed|missing flags|no value|got no value`)

// call runs f(args...) under pcall in a limited context.
func (ls *libSession) call(path string, args []string) Outcome {
	f, ok := ls.byPath[path]
	if !ok {
		return Outcome{Class: "error", Msg: "no such function in this build: " + path, Note: "missing"}
	}
	if len(args) > 4 {
		return Outcome{Class: "error", Msg: "arity > 4 unsupported", Note: "missing"}
	}
	av := make([]rt.Value, 0, 5)
	av = append(av, f)
	for _, a := range args {
		av = append(av, rt.StringValue(a))
	}
	tr := ls.s.Call(ls.runners[len(args)], libCPU, libMem, av...)
	switch {
	case tr.Panic != "":
		return Outcome{Class: "panic", Msg: tr.Panic, NonTrivial: true}
	case tr.Killed:
		return Outcome{Class: "killed", NonTrivial: true}
	case tr.Err != "":
		// the runner itself failed (a pool constructor raised): harness problem
		return Outcome{Class: "error", Msg: tr.Err, Note: "runner"}
	case strings.HasPrefix(tr.Rets, "true"):
		return Outcome{Class: "value", Rets: clip(tr.Rets, 100), NonTrivial: true}
	default:
		msg := strings.TrimPrefix(tr.Rets, "false ")
		o := Outcome{Class: "error", Msg: clip(msg, 200), NonTrivial: !argCheckRe.MatchString(msg)}
		if strings.Contains(msg, "limit of") && strings.Contains(msg, "exceeded") {
			o.Note = "limit-as-error" // pcall turned the context's kill into an error (C05's business)
		}
		return o
	}
}

// ---------------------------------------------------------------------------
// exclusions

// excludedByName returns a reason if the call must not be made at all.
func excludedByName(path string, args []string) string {
	first := ""
	if len(args) > 0 {
		first = args[0]
	}
	switch path {
	case "os.exit":
		return "os.exit: documented effect is process exit"
	case "golib.import":
		return "golib.import: shells out to the Go toolchain"
	case "io.read":
		return "io.read: reads stdin"
	case "debug.sethook":
		return "debug.sethook: changes the harness"
	case "io.lines", "dofile":
		if len(args) == 0 || first == "nil" {
			return path + " without a file name: reads stdin"
		}
	case "os.execute", "io.popen":
		// only non-strings (rejected or 'is a shell available') and the fixed command "true"
		if p, ok := poolIndex[first]; ok && (p.isStr || isNumberName(first)) && first != "cmd:true" {
			return path + " with a command other than 'true'"
		}
	}
	return ""
}

func isNumberName(n string) bool {
	switch n {
	case "0", "1", "-1", "2", "2^31", "maxint", "minint", "0.5", "-0.0", "nan", "inf", "-inf", "2^63", "2^53":
		return true
	}
	return false
}

func init() {
	// os.execute / io.popen get the harmless fixed command
	families = append(families, family{name: "shell", match: pathIn("os.execute", "io.popen"), extras: map[int][]poolVal{
		0: {{name: "cmd:true", expr: `"true"`, isStr: true, str: "true"}},
		1: pss("mode", "r", "w", "rw", "x"),
	}})
	poolIndex["cmd:true"] = poolVal{name: "cmd:true", expr: `"true"`, isStr: true, str: "true"}
	for _, p := range pss("mode", "r", "w", "rw", "x") {
		poolIndex[p.name] = p
	}
}

// formatClass models, from the manual's description of format directives
// ('%' flags width .precision conversion), where string.format's scan of fmtS
// ends when it is given nvals values: "trunc" if the string ends inside a
// directive that no value is left for, "p" if a %p directive is reached with
// no value left, "" otherwise.
func formatClass(fmtS string, nvals int) string {
	used := 0
	for i := 0; i < len(fmtS); i++ {
		if fmtS[i] != '%' {
			continue
		}
		i++
		width, prec, dot := 0, 0, false
		for i < len(fmtS) && strings.IndexByte("+-# .0123456789", fmtS[i]) >= 0 {
			c := fmtS[i]
			if c == '.' {
				dot = true
			} else if c >= '0' && c <= '9' {
				if dot {
					prec = prec*10 + int(c-'0')
				} else {
					width = width*10 + int(c-'0')
				}
				if prec >= 100 || width >= 100 {
					return "" // rejected: too long
				}
			}
			i++
		}
		if i >= len(fmtS) {
			if used >= nvals {
				return "trunc"
			}
			return ""
		}
		switch c := fmtS[i]; {
		case c == '%':
		case c == 'p':
			if used >= nvals {
				return "p"
			}
			used++
		case strings.IndexByte("cbdoxXUiuaAeEfFgGsqt", c) >= 0:
			if used >= nvals {
				return "" // "not enough values": ordinary error
			}
			used++
		default:
			return "" // invalid conversion: ordinary error
		}
	}
	return ""
}

// unpackLenClass: string.unpack whose format starts (after byte-order and
// alignment marks) with an 's[n]' option while the data's length prefix
// announces more bytes than the data holds.
func unpackLenClass(fmtS, data string) bool {
	i := 0
	big := false
	for i < len(fmtS) {
		switch fmtS[i] {
		case ' ', '=', '<':
			if fmtS[i] != ' ' {
				big = false
			}
			i++
			continue
		case '>':
			big = true
			i++
			continue
		case '!':
			i++
			for i < len(fmtS) && fmtS[i] >= '0' && fmtS[i] <= '9' {
				i++
			}
			continue
		}
		break
	}
	if i >= len(fmtS) || fmtS[i] != 's' {
		return false
	}
	i++
	n := 0
	digits := 0
	for i < len(fmtS) && fmtS[i] >= '0' && fmtS[i] <= '9' {
		n = n*10 + int(fmtS[i]-'0')
		digits++
		i++
		if n > 16 {
			return false
		}
	}
	if digits == 0 {
		n = 8
	}
	if n < 1 || len(data) < n {
		return false
	}
	// announced length, saturating
	var l uint64
	over := false
	for k := 0; k < n; k++ {
		b := data[k]
		if !big {
			b = data[n-1-k]
		}
		if l>>56 != 0 {
			over = true
		}
		l = l<<8 | uint64(b)
	}
	return over || l > uint64(len(data)-n)
}

func hugeCountName(n string) bool { return n == "2^31" || n == "maxint" || n == "2^53" }

// intName gives the integer a pool name denotes when used as an integer argument.
func intName(n string) (int64, bool) {
	switch n {
	case "0", "-0.0":
		return 0, true
	case "1", "true-1":
		return 1, true
	case "-1":
		return -1, true
	case "2":
		return 2, true
	case "3":
		return 3, true
	case "-3":
		return -3, true
	case "4":
		return 4, true
	case "1025":
		return 1025, true
	case "1024":
		return 1024, true
	case "2^31":
		return 1 << 31, true
	case "2^53":
		return 1 << 53, true
	case "maxint":
		return 1<<63 - 1, true
	case "minint":
		return -1 << 63, true
	case "s:10":
		return 10, true
	}
	return 0, false
}

// subjectLen gives bounds of the length of the string a pool value becomes
// when used as a string argument (numbers are converted).
func subjectLen(n string) (lo, hi int, ok bool) {
	p, found := poolIndex[n]
	if !found {
		return 0, 0, false
	}
	if p.isStr {
		return len(p.str), len(p.str), true
	}
	if isNumberName(n) {
		return 1, 24, true
	}
	return 0, 0, false
}

// excludedByFinding returns the id of an open finding whose input class
// contains this call.
func excludedByFinding(known func(string) bool, path string, args []string) string {
	if path == "string.unpack" && len(args) >= 2 && known(kfUnpackLen) {
		f, okf := poolIndex[args[0]]
		d, okd := poolIndex[args[1]]
		if okf && okd && f.isStr && d.isStr && unpackLenClass(f.str, d.str) {
			return kfUnpackLen
		}
	}
	if path == "string.match" && len(args) >= 3 && known(kfMatchInit) {
		// init beyond the end of the subject
		lo, _, okS := subjectLen(args[0])
		_, _, okP := subjectLen(args[1])
		if init, okI := intName(args[2]); okS && okP && okI && init > int64(lo)+1 {
			return kfMatchInit
		}
	}
	if path == "<file-mt>.__index.setvbuf" && len(args) >= 3 && known(kfSetvbuf) && (args[0] == "file" || args[0] == "closed-file") &&
		(args[1] == "rfmt:full" || args[1] == "rfmt:line") && hugeCountName(args[2]) {
		return kfSetvbuf
	}
	if path == "<file-mt>.__index.read" && len(args) >= 2 && known(kfReadHuge) && (args[0] == "file") {
		for _, a := range args[1:] {
			if hugeCountName(a) {
				return kfReadHuge
			}
		}
	}
	if path == "string.format" && len(args) >= 1 {
		if p, ok := poolIndex[args[0]]; ok {
			s, isS := p.str, p.isStr
			if !isS && isNumberName(p.name) {
				return "" // numbers are converted to strings without '%'
			}
			if isS {
				switch formatClass(s, len(args)-1) {
				case "trunc":
					if known(kfFormatTrunc) {
						return kfFormatTrunc
					}
				case "p":
					if known(kfFormatP) {
						return kfFormatP
					}
				}
			}
		}
	}
	return ""
}

// ---------------------------------------------------------------------------
// enumeration

// tuples calls visit for every tuple of arity 0..maxArity over the
// per-position pools of path, in a fixed order; visit returns false to stop.
func tuples(path string, maxArity int, visit func(t int, args []string) bool) {
	t := 0
	if !visit(t, nil) {
		return
	}
	t++
	pools := make([][]poolVal, maxArity)
	for i := range pools {
		pools[i] = poolFor(path, i)
	}
	for ar := 1; ar <= maxArity; ar++ {
		idx := make([]int, ar)
		args := make([]string, ar)
		for {
			for i := 0; i < ar; i++ {
				args[i] = pools[i][idx[i]].name
			}
			if !visit(t, args) {
				return
			}
			t++
			k := ar - 1
			for k >= 0 {
				idx[k]++
				if idx[k] < len(pools[k]) {
					break
				}
				idx[k] = 0
				k--
			}
			if k < 0 {
				break
			}
		}
	}
}

func libArity(path string, maxArity int) int {
	// os.tmpname/io.tmpfile create a file per call: arity <= 1 is plenty
	switch path {
	case "os.tmpname", "io.tmpfile":
		if maxArity > 1 {
			return 1
		}
	}
	return maxArity
}

// workLib sweeps this shard's functions.
func workLib(w *worker) {
	ls, err := newLibSession()
	if err != nil {
		panic(err)
	}
	fns := ls.fns
	ls.s.Close()
	paths := make([]string, len(fns))
	for i, f := range fns {
		paths[i] = f.path
	}
	w.rec.Set("lib_functions", len(paths))
	nviol := 0
	for fi, path := range paths {
		if !w.rec.Mine(fi) || fi < w.job.FromFn {
			continue
		}
		if nviol >= 20 {
			break
		}
		fam := familyOf(path)
		ls, err := newLibSession()
		if err != nil {
			panic(err)
		}
		fviol := 0
		var history [][]string
		tuples(path, libArity(path, w.job.Arity), func(t int, args []string) bool {
			if fi == w.job.FromFn && t < w.job.FromT {
				return true
			}
			if r := excludedByName(path, args); r != "" {
				w.rec.Discard("excluded-by-name: " + r)
				return true
			}
			if id := excludedByFinding(w.known, path, args); id != "" {
				w.rec.Discard("excluded-by-finding:" + id)
				return true
			}
			c := Case{Kind: "lib", Fn: path, Args: append([]string{}, args...)}
			w.mark(c, fi, t)
			o := ls.call(path, args)
			w.rec.Eval()
			w.rec.Class("lib-outcome:" + o.Class)
			w.rec.Class("lib-family:" + fam)
			if o.Note == "runner" {
				w.rec.Class("lib-runner-error")
			}
			if o.Note == "limit-as-error" {
				w.rec.Class("lib-error-is-cpu-or-memory-limit")
			}
			if o.NonTrivial {
				w.nonTrivial(c.Key())
				w.rec.Class("lib-nontrivial")
			} else if o.Class == "error" {
				w.rec.Class("lib-error-from-argument-check")
			}
			w.rec.Sample(map[string]any{"kind": "lib", "fn": path, "args": c.Args, "outcome": o.Class, "msg": clip(o.Msg, 120)})
			if o.Class == "panic" {
				// reproduce alone in a fresh session, so that the replay is one call
				ls.s.Close()
				ls, err = newLibSession()
				if err != nil {
					panic(err)
				}
				alone := ls.call(path, args)
				if alone.Class == "panic" {
					w.rec.Violation("lib", c, fmt.Sprintf("Go panic reached the host in pcall(%s, %s): %s", path, strings.Join(args, ", "), alone.Msg))
					ls.s.Close()
					ls, _ = newLibSession()
				} else {
					c.UpTo, c.Arity = t+1, w.job.Arity
					w.rec.Violation("lib", c, fmt.Sprintf("Go panic reached the host in pcall(%s, %s) after the %d preceding calls of the enumeration in the same runtime: %s", path, strings.Join(args, ", "), t, o.Msg))
				}
				fviol++
				nviol++
				if fviol >= 3 {
					return false
				}
			}
			_ = history
			return true
		})
		ls.s.Close()
		w.flush(false)
		// unfinished coroutines of the pool stay behind as blocked goroutines:
		// hand the rest to a fresh process before this one grows large
		var ms runtime.MemStats
		runtime.ReadMemStats(&ms)
		if ms.Sys > 1500<<20 && fi+1 < len(paths) {
			w.rec.Finish()
			writeResult(w.job, Result{NT: w.ntKeys(), Partial: os.Getenv("VERIF_OUT"), NextFn: fi + 1})
			os.Exit(0)
		}
	}
}

// execLibCase replays one library case in this process.
func execLibCase(w *worker, c Case) Outcome {
	ls, err := newLibSession()
	if err != nil {
		return Outcome{Class: "panic", Msg: "harness: " + err.Error()}
	}
	defer ls.s.Close()
	if c.UpTo > 0 {
		var last Outcome
		tuples(c.Fn, libArity(c.Fn, c.Arity), func(t int, args []string) bool {
			if t >= c.UpTo {
				return false
			}
			if excludedByName(c.Fn, args) != "" {
				return true
			}
			last = ls.call(c.Fn, args)
			return last.Class != "panic"
		})
		return last
	}
	if r := excludedByName(c.Fn, c.Args); r != "" {
		return Outcome{Class: "error", Msg: "not run: " + r}
	}
	return ls.call(c.Fn, c.Args)
}

// superviseLib runs the library sweep in worker children, restarting after a
// case that killed or hung the worker. A death is only a violation if it can
// be reproduced in a fresh child (alone, or with the calls that preceded it in
// the same runtime): the long-lived worker itself accumulates garbage.
func superviseLib(rec *ev.Recorder, known map[string]bool) {
	arity := rec.Pick(2, 3)
	fromFn, fromT := 0, 0
	deaths := 0
	for deaths < 25 {
		x := runChild(Job{Mode: "lib", Arity: arity, FromFn: fromFn, FromT: fromT, Known: known, HangS: 60}, 90*time.Minute)
		mergePartial(rec, x.res)
		fmt.Printf("lib worker: %.1fs\n", x.wall.Seconds())
		if x.res != nil && x.res.Done {
			return
		}
		if x.res != nil && x.res.NextFn > 0 && x.fatal == "" && !x.timeout && !x.hang {
			fromFn, fromT = x.res.NextFn, 0
			continue
		}
		deaths++
		if x.inflight == nil {
			if x.fatal != "" {
				rec.Violation("lib", Case{Kind: "lib"}, "library worker died before its first case: "+x.fatal)
			} else {
				rec.Discard("child-timeout")
			}
			return
		}
		c := x.inflight.Case
		switch {
		case x.timeout || x.hang:
			rec.Discard("child-timeout")
			fmt.Printf("lib: pcall(%s, %s) did not finish in time (inconclusive)\n", c.Fn, strings.Join(c.Args, ", "))
		case x.fatal != "":
			r := runCaseChild(c, known, false, 4*time.Minute)
			if r.msg == "" && !r.inconclusive {
				c.UpTo, c.Arity = x.inflight.T+1, arity
				r = runCaseChild(c, known, false, 20*time.Minute)
			}
			if r.msg != "" {
				rec.Violation("lib", c, fmt.Sprintf("pcall(%s, %s): %s", c.Fn, strings.Join(c.Args, ", "), r.msg))
			} else {
				rec.Discard("worker-death-not-reproduced-in-a-fresh-child")
				fmt.Printf("lib: worker died in pcall(%s, %s) but the case is fine in a fresh child (worker's own memory): %s\n", c.Fn, strings.Join(c.Args, ", "), clip(x.fatal, 200))
			}
		}
		fromFn, fromT = x.inflight.Fn, x.inflight.T+1
	}
}
