package c04

import (
	"fmt"
	"regexp"
	"strconv"
	"strings"

	"verif/internal/harness"
)

// ---------------------------------------------------------------------------
// implementation-limit templates
//
// Every template renders a program of size n together with the canonical
// encoding of what it must return (computed here, in Go). The acceptable
// outcomes are: a compile error, a killed context, or exactly that value.

type limitTmpl struct {
	name  string
	what  string
	limit int   // sizes above it are beyond the encoding limit (non-trivial)
	quick []int // sizes of the quick tier: below / at / above
	more  []int // additional sizes of the thorough tier
	gen   func(n int) (src string, want string)
}

func wi(n int) string { return "i:" + strconv.Itoa(n) }

func nestFamily(name string) bool { return strings.HasPrefix(name, "nest-") }

var nestQuick = []int{100, 10_000, 1_000_000}
var nestMore = []int{1_000, 100_000, 200_000, 300_000, 500_000}

var limitTmpls = []limitTmpl{
	{
		name: "locals", what: "n local variables in one function", limit: 255,
		quick: []int{200, 255, 300}, more: []int{100, 240, 250, 254, 256, 257, 1000, 100_000},
		gen: func(n int) (string, string) {
			var sb strings.Builder
			for i := 1; i <= n; i++ {
				fmt.Fprintf(&sb, "local a%d = %d\n", i, i)
			}
			m := (n + 1) / 2
			fmt.Fprintf(&sb, "return a1, a%d, a%d, a1 + a%d + a%d\n", m, n, m, n)
			return sb.String(), strings.Join([]string{wi(1), wi(m), wi(n), wi(1 + m + n)}, " ")
		},
	},
	{
		name: "locals-one-stat", what: "local a1,...,an = 1,...,n", limit: 255,
		quick: []int{200, 255, 300}, more: []int{250, 254, 256, 1000, 70_000},
		gen: func(n int) (string, string) {
			var names, vals []string
			for i := 1; i <= n; i++ {
				names = append(names, "a"+strconv.Itoa(i))
				vals = append(vals, strconv.Itoa(i))
			}
			m := (n + 1) / 2
			src := "local " + strings.Join(names, ",") + " = " + strings.Join(vals, ",") + "\n" +
				fmt.Sprintf("return a1, a%d, a%d\n", m, n)
			return src, strings.Join([]string{wi(1), wi(m), wi(n)}, " ")
		},
	},
	{
		name: "params", what: "function with n parameters called with n arguments", limit: 255,
		quick: []int{200, 255, 300}, more: []int{250, 254, 256, 1000},
		gen: func(n int) (string, string) {
			var names, vals []string
			for i := 1; i <= n; i++ {
				names = append(names, "p"+strconv.Itoa(i))
				vals = append(vals, strconv.Itoa(i))
			}
			src := "local function f(" + strings.Join(names, ",") + ") return p1, p" + strconv.Itoa(n) + " end\n" +
				"return f(" + strings.Join(vals, ",") + ")\n"
			return src, wi(1) + " " + wi(n)
		},
	},
	{
		name: "ctor-multi", what: "{1,...,n, f()}: n positional items followed by a multi-value call", limit: 255,
		quick: []int{200, 255, 300}, more: []int{250, 254, 256, 257, 511, 512, 1000, 70_000},
		gen: func(n int) (string, string) {
			var sb strings.Builder
			sb.WriteString("local function f() return 7, 8 end\nlocal t = {")
			for i := 1; i <= n; i++ {
				sb.WriteString(strconv.Itoa(i))
				sb.WriteString(",")
			}
			fmt.Fprintf(&sb, "f()}\nreturn #t, t[1], t[%d], t[%d], t[%d]\n", n, n+1, n+2)
			return sb.String(), strings.Join([]string{wi(n + 2), wi(1), wi(n), wi(7), wi(8)}, " ")
		},
	},
	{
		name: "ctor-vararg", what: "{1,...,n, ...}: n positional items followed by the varargs", limit: 255,
		quick: []int{200, 255, 300}, more: []int{254, 256, 1000},
		gen: func(n int) (string, string) {
			var sb strings.Builder
			sb.WriteString("local function g(...)\nlocal t = {")
			for i := 1; i <= n; i++ {
				sb.WriteString(strconv.Itoa(i))
				sb.WriteString(",")
			}
			fmt.Fprintf(&sb, "...}\nreturn #t, t[%d], t[%d], t[%d]\nend\nreturn g(7, 8)\n", n, n+1, n+2)
			return sb.String(), strings.Join([]string{wi(n + 2), wi(n), wi(7), wi(8)}, " ")
		},
	},
	{
		name: "ctor-plain", what: "table constructor with n positional items", limit: 255,
		quick: []int{255, 256, 70_000}, more: []int{1000, 65_535, 65_536, 300_000},
		gen: func(n int) (string, string) {
			var sb strings.Builder
			sb.WriteString("local t = {")
			for i := 1; i <= n; i++ {
				sb.WriteString(strconv.Itoa(i + 1_000_000))
				sb.WriteString(",")
			}
			fmt.Fprintf(&sb, "}\nreturn #t, t[1], t[%d]\n", n)
			return sb.String(), strings.Join([]string{wi(n), wi(1_000_001), wi(n + 1_000_000)}, " ")
		},
	},
	{
		name: "vararg-select", what: "local function g(...) local a1,...,an = ... end: n-th vararg lookup", limit: 255,
		quick: []int{200, 250, 253}, more: []int{100, 240, 252},
		gen: func(n int) (string, string) {
			var names, vals []string
			for i := 1; i <= n; i++ {
				names = append(names, "a"+strconv.Itoa(i))
				vals = append(vals, strconv.Itoa(i))
			}
			src := "local function g(...)\nlocal " + strings.Join(names, ",") + " = ...\nreturn a1, a" + strconv.Itoa(n) + "\nend\n" +
				"return g(" + strings.Join(vals, ",") + ")\n"
			return src, wi(1) + " " + wi(n)
		},
	},
	{
		name: "assign-varargs", what: "g1,...,gn = ... : assignment of n globals from the varargs", limit: 255,
		quick: []int{200, 256, 300}, more: []int{255, 257, 1000, 70_000},
		gen: func(n int) (string, string) {
			var names, vals []string
			for i := 1; i <= n; i++ {
				names = append(names, "g"+strconv.Itoa(i))
				vals = append(vals, strconv.Itoa(i))
			}
			src := "local function g(...)\n" + strings.Join(names, ",") + " = ...\nreturn g1, g" + strconv.Itoa(n) + "\nend\n" +
				"return g(" + strings.Join(vals, ",") + ")\n"
			return src, wi(1) + " " + wi(n)
		},
	},
	{
		name: "call-args", what: "call with n arguments / n results", limit: 255,
		quick: []int{255, 256, 70_000}, more: []int{250, 1000, 65_536, 300_000},
		gen: func(n int) (string, string) {
			var vals []string
			for i := 1; i <= n; i++ {
				vals = append(vals, strconv.Itoa(i))
			}
			l := strings.Join(vals, ",")
			src := "local function cnt(...) return select('#', ...), (select(-1, ...)) end\n" +
				"local function many() return " + l + " end\n" +
				"local a, b = cnt(" + l + ")\nlocal c, d = cnt(many())\nreturn a, b, c, d\n"
			return src, strings.Join([]string{wi(n), wi(n), wi(n), wi(n)}, " ")
		},
	},
	{
		name: "constants", what: "n distinct constants in one chunk, spread over functions of 400 constants each", limit: 65_535,
		quick: []int{60_000, 65_500, 70_000}, more: []int{65_000, 65_535, 65_536, 66_000, 131_072, 300_000},
		gen: func(n int) (string, string) {
			var sb strings.Builder
			total := 0
			nf := 0
			sb.WriteString("local fs = {}\n")
			for i := 0; i < n; {
				nf++
				fmt.Fprintf(&sb, "fs[%d] = function()\nlocal s = 0\n", nf)
				for j := 0; j < 400 && i < n; j++ {
					k := 1_000_000 + i
					fmt.Fprintf(&sb, "s = s + %d\n", k)
					total += k % 1000
					i++
				}
				sb.WriteString("return s % 1000 + 0\nend\n")
			}
			// each function returns (sum of its constants) mod 1000; checksum: sum of those
			sb.WriteString("local sum = 0\nfor i = 1, #fs do sum = sum + fs[i]() end\nreturn #fs, sum\n")
			// expected: sum over functions of (sum of constants mod 1000)
			want := 0
			for i := 0; i < n; i += 400 {
				s := 0
				for j := i; j < i+400 && j < n; j++ {
					s += 1_000_000 + j
				}
				want += s % 1000
			}
			_ = total
			return sb.String(), wi(nf) + " " + wi(want)
		},
	},
	{
		name: "string-constants", what: "n distinct string constants in one chunk", limit: 65_535,
		quick: []int{60_000, 65_500, 70_000}, more: []int{65_535, 65_536, 131_072},
		gen: func(n int) (string, string) {
			var sb strings.Builder
			nf := 0
			sb.WriteString("local fs = {}\n")
			for i := 0; i < n; {
				nf++
				fmt.Fprintf(&sb, "fs[%d] = function()\nlocal s = 0\n", nf)
				for j := 0; j < 400 && i < n; j++ {
					fmt.Fprintf(&sb, "s = s + #\"k%d\"\n", i)
					i++
				}
				sb.WriteString("return s\nend\n")
			}
			sb.WriteString("local sum = 0\nfor i = 1, #fs do sum = sum + fs[i]() end\nreturn #fs, sum\n")
			want := 0
			for i := 0; i < n; i++ {
				want += 1 + len(strconv.Itoa(i))
			}
			return sb.String(), wi(nf) + " " + wi(want)
		},
	},
	{
		name: "opcodes", what: "function body of n statements 'a = a + 1' (more than 32767 opcodes beyond n=16383)", limit: 16_383,
		quick: []int{8_000, 16_000, 40_000}, more: []int{10_000, 16_380, 16_383, 16_384, 16_390, 17_000, 32_767, 32_768, 33_000, 65_536, 70_000, 140_000},
		gen: func(n int) (string, string) {
			var sb strings.Builder
			sb.WriteString("local a = 0\n")
			for i := 0; i < n; i++ {
				sb.WriteString("a = a + 1\n")
			}
			sb.WriteString("return a\n")
			return sb.String(), wi(n)
		},
	},
	{
		name: "jump-forward", what: "if-block of n statements that must be skipped, then taken", limit: 16_383,
		quick: []int{8_000, 16_000, 40_000}, more: []int{16_380, 16_384, 17_000, 33_000, 70_000},
		gen: func(n int) (string, string) {
			var sb strings.Builder
			sb.WriteString("local function f(c)\nlocal a = 0\nif c then\n")
			for i := 0; i < n; i++ {
				sb.WriteString("a = a + 1\n")
			}
			sb.WriteString("end\nreturn a\nend\nreturn f(false), f(true)\n")
			return sb.String(), wi(0) + " " + wi(n)
		},
	},
	{
		name: "jump-else", what: "if/else with two blocks of n statements", limit: 16_383,
		quick: []int{8_000, 16_000, 40_000}, more: []int{16_384, 17_000, 33_000},
		gen: func(n int) (string, string) {
			var sb strings.Builder
			sb.WriteString("local function f(c)\nlocal a = 0\nif c then\n")
			for i := 0; i < n; i++ {
				sb.WriteString("a = a + 1\n")
			}
			sb.WriteString("else\n")
			for i := 0; i < n; i++ {
				sb.WriteString("a = a + 2\n")
			}
			sb.WriteString("end\nreturn a\nend\nreturn f(false), f(true)\n")
			return sb.String(), wi(2*n) + " " + wi(n)
		},
	},
	{
		name: "jump-backward", what: "while loop whose body has n statements, run twice", limit: 16_383,
		quick: []int{8_000, 16_000, 40_000}, more: []int{16_380, 16_384, 17_000, 33_000, 70_000},
		gen: func(n int) (string, string) {
			var sb strings.Builder
			sb.WriteString("local a, k = 0, 0\nwhile k < 2 do\nk = k + 1\n")
			for i := 0; i < n; i++ {
				sb.WriteString("a = a + 1\n")
			}
			sb.WriteString("end\nreturn a, k\n")
			return sb.String(), wi(2*n) + " " + wi(2)
		},
	},
	{
		name: "jump-for", what: "numeric for loop whose body has n statements, 3 iterations, with a break past the body", limit: 16_383,
		quick: []int{8_000, 16_000, 40_000}, more: []int{16_384, 17_000, 33_000},
		gen: func(n int) (string, string) {
			var sb strings.Builder
			sb.WriteString("local a = 0\nfor i = 1, 5 do\nif i == 4 then break end\n")
			for i := 0; i < n; i++ {
				sb.WriteString("a = a + 1\n")
			}
			sb.WriteString("end\nreturn a\n")
			return sb.String(), wi(3 * n)
		},
	},
	{
		name: "goto-far", what: "goto over n statements (forward) and a backward goto loop", limit: 16_383,
		quick: []int{8_000, 16_000, 40_000}, more: []int{16_384, 17_000, 33_000},
		gen: func(n int) (string, string) {
			var sb strings.Builder
			sb.WriteString("local a, k = 0, 0\n::top::\nk = k + 1\nif k > 2 then goto done end\n")
			for i := 0; i < n; i++ {
				sb.WriteString("a = a + 1\n")
			}
			sb.WriteString("goto top\n::done::\nreturn a, k\n")
			return sb.String(), wi(2*n) + " " + wi(3)
		},
	},
	{
		name: "elseif-chain", what: "if with n elseif branches, the last one taken", limit: 16_383,
		quick: []int{1_000, 10_000, 100_000}, more: []int{5_000, 20_000, 40_000},
		gen: func(n int) (string, string) {
			var sb strings.Builder
			fmt.Fprintf(&sb, "local function f(x)\nif x == 0 then return -1\n")
			for i := 1; i <= n; i++ {
				fmt.Fprintf(&sb, "elseif x == %d then return %d\n", i, i+5)
			}
			fmt.Fprintf(&sb, "else return -2 end\nend\nreturn f(1), f(%d), f(%d), f(%d)\n", (n+1)/2, n, n+1)
			return sb.String(), strings.Join([]string{wi(6), wi((n+1)/2 + 5), wi(n + 5), wi(-2)}, " ")
		},
	},
	{
		name: "upvalues", what: "innermost function referring to n upvalues (200 locals per enclosing function)", limit: 255,
		quick: []int{200, 400, 1_000}, more: []int{255, 256, 10_000, 65_600},
		gen: func(n int) (string, string) {
			var sb strings.Builder
			levels := (n + 199) / 200
			cnt := 0
			for l := 0; l < levels; l++ {
				fmt.Fprintf(&sb, "local function L%d()\n", l)
				for i := 0; i < 200 && cnt < n; i++ {
					cnt++
					fmt.Fprintf(&sb, "local u%d = %d\n", cnt, cnt)
				}
			}
			sb.WriteString("return function()\nlocal s = 0\n")
			for i := 1; i <= n; i++ {
				fmt.Fprintf(&sb, "s = s + u%d\n", i)
			}
			sb.WriteString("return s\nend\n")
			for l := levels - 1; l >= 0; l-- {
				sb.WriteString("end\n")
				if l > 0 {
					fmt.Fprintf(&sb, "return L%d()\n", l)
				}
			}
			sb.WriteString("return L0()()\n")
			return sb.String(), wi(n * (n + 1) / 2)
		},
	},
	{
		name: "string-literal", what: "string literal of n bytes (short and long form)", limit: 65_535,
		quick: []int{65_536, 1 << 20, 1 << 22}, more: []int{65_535, 1 << 24},
		gen: func(n int) (string, string) {
			s := strings.Repeat("a", n-1) + "z"
			src := "local s, l = \"" + s + "\", [[" + s + "]]\nreturn #s, #l, s == l, s:sub(-2)\n"
			return src, wi(n) + " " + wi(n) + " true " + harness.EncString(s[len(s)-2:])
		},
	},
	{
		name: "lines", what: "n empty lines before the first statement (line numbers)", limit: 65_535,
		quick: []int{65_536, 100_000, 3_000_000}, more: []int{32_768, 1 << 24},
		gen: func(n int) (string, string) {
			return strings.Repeat("\n", n) + "return 1\n", wi(1)
		},
	},
	// ---- nesting depth: no encoding limit is involved, the Go stack is ----
	{
		name: "nest-paren", what: "n nested parentheses", limit: 200, quick: nestQuick, more: nestMore,
		gen: func(n int) (string, string) {
			return "return " + strings.Repeat("(", n) + "1" + strings.Repeat(")", n) + "\n", wi(1)
		},
	},
	{
		name: "nest-table", what: "n nested table constructors", limit: 200, quick: nestQuick, more: nestMore,
		gen: func(n int) (string, string) {
			return "local t = " + strings.Repeat("{", n) + strings.Repeat("}", n) +
				"\nlocal d = 0\nwhile t do d = d + 1; t = t[1] end\nreturn d\n", wi(n)
		},
	},
	{
		name: "nest-do", what: "n nested do-blocks", limit: 200, quick: nestQuick, more: nestMore,
		gen: func(n int) (string, string) {
			return "local x = 0\n" + strings.Repeat("do ", n) + "x = x + 1 " + strings.Repeat("end ", n) + "\nreturn x\n", wi(1)
		},
	},
	{
		name: "nest-function", what: "n nested function expressions, each calling the next", limit: 200, quick: nestQuick, more: nestMore,
		gen: func(n int) (string, string) {
			return "return " + strings.Repeat("(function() return ", n) + "42" + strings.Repeat(" end)()", n) + "\n", wi(42)
		},
	},
	{
		name: "nest-not", what: "n prefix 'not' operators", limit: 200, quick: nestQuick, more: nestMore,
		gen: func(n int) (string, string) {
			want := "true"
			if n%2 == 1 {
				want = "false"
			}
			return "return " + strings.Repeat("not ", n) + "true\n", want
		},
	},
	{
		name: "nest-minus", what: "n prefix '-' operators", limit: 200, quick: nestQuick, more: nestMore,
		gen: func(n int) (string, string) {
			want := wi(1)
			if n%2 == 1 {
				want = wi(-1)
			}
			return "local one = 1\nreturn " + strings.Repeat("- ", n) + "one\n", want
		},
	},
	{
		name: "nest-concat", what: "chain of n '..' operators (right associative)", limit: 200, quick: nestQuick, more: nestMore,
		gen: func(n int) (string, string) {
			return "local a = 'a'\nreturn #(a" + strings.Repeat(" .. a", n) + ")\n", wi(n + 1)
		},
	},
	{
		name: "nest-pow", what: "chain of n '^' operators (right associative)", limit: 200, quick: nestQuick, more: nestMore,
		gen: func(n int) (string, string) {
			return "local a = 1\nreturn a" + strings.Repeat(" ^ a", n) + "\n", harness.EncFloat(1)
		},
	},
	{
		name: "nest-add", what: "chain of n '+' operators (left associative)", limit: 200, quick: nestQuick, more: nestMore,
		gen: func(n int) (string, string) {
			return "local a = 1\nreturn a" + strings.Repeat(" + a", n) + "\n", wi(n + 1)
		},
	},
	{
		name: "nest-and", what: "chain of n 'and' operators", limit: 200, quick: nestQuick, more: nestMore,
		gen: func(n int) (string, string) {
			return "local a = 1\nreturn a" + strings.Repeat(" and a", n) + " and 7\n", wi(7)
		},
	},
	{
		name: "nest-index", what: "chain of n '.b' index suffixes", limit: 200, quick: nestQuick, more: nestMore,
		gen: func(n int) (string, string) {
			return "local a = {}\na.b = a\nreturn a" + strings.Repeat(".b", n) + " == a\n", "true"
		},
	},
	{
		name: "nest-call", what: "n nested calls f(f(f(...)))", limit: 200, quick: nestQuick, more: nestMore,
		gen: func(n int) (string, string) {
			return "local function f(x) return x + 1 end\nreturn " + strings.Repeat("f(", n) + "0" + strings.Repeat(")", n) + "\n", wi(n)
		},
	},
	{
		name: "nest-callchain", what: "n call suffixes f()()()...", limit: 200, quick: nestQuick, more: nestMore,
		gen: func(n int) (string, string) {
			return "local k = 0\nlocal function f() k = k + 1 return f end\nlocal g = f" + strings.Repeat("()", n) + "\nreturn k, g == f\n", wi(n) + " true"
		},
	},
	{
		name: "nest-if", what: "n nested if statements", limit: 200, quick: nestQuick, more: nestMore,
		gen: func(n int) (string, string) {
			return "local x = 0\n" + strings.Repeat("if x == 0 then ", n) + "x = 5 " + strings.Repeat("end ", n) + "\nreturn x\n", wi(5)
		},
	},
	{
		name: "nest-while", what: "n nested while loops, each broken out of", limit: 200, quick: nestQuick, more: nestMore,
		gen: func(n int) (string, string) {
			return "local x = 0\n" + strings.Repeat("while true do ", n) + "x = x + 1 " + strings.Repeat("break end ", n) + "\nreturn x\n", wi(1)
		},
	},
	{
		name: "nest-funcstat", what: "n nested local function statements", limit: 200, quick: nestQuick, more: nestMore,
		gen: func(n int) (string, string) {
			return strings.Repeat("local function f() ", n) + "return 9 " + strings.Repeat("end return f() ", n) + "\n", wi(9)
		},
	},
}

func init() {
	// depth spread over two dimensions: 60 function expressions nested in one
	// another (under the parser's limit), each the head of a suffix chain of
	// n/60 items (parsed iteratively): the chains are ancestors of one
	// another in the tree, so the recursion of the later compiler passes
	// grows with the product unless their depth limit counts across functions
	for _, suffix := range []struct{ name, item string }{{"index", ".b"}, {"call", "()"}} {
		item := suffix.item
		limitTmpls = append(limitTmpls, limitTmpl{
			name: "nest-functions-x-" + suffix.name + "-chains", what: "60 nested function expressions, each the head of a chain of n/60 '" + item + "' suffixes",
			limit: 200, quick: []int{6_000, 1_500_000}, more: []int{60_000, 600_000, 1_900_000},
			gen: func(n int) (string, string) {
				m := n / 60
				e := "a" + strings.Repeat(item, m)
				for k := 0; k < 60; k++ {
					e = "(function() return " + e + " end)" + strings.Repeat(item, m)
				}
				// compiled, never executed (a function value has no fields)
				return "local a = {}\nif a.never then return " + e + " end\nreturn true\n", "true"
			},
		})
	}
}

func findLimitTmpl(name string) *limitTmpl {
	for i := range limitTmpls {
		if limitTmpls[i].name == name {
			return &limitTmpls[i]
		}
	}
	return nil
}

var limitErrRe = regexp.MustCompile(`(?i)too many|overflow|limit|memory|too large|too long|too big`)

const (
	limitCPU = 20_000_000_000
	limitMem = 1_500_000_000
)

func execLimit(c Case) Outcome {
	tm := findLimitTmpl(c.Tmpl)
	if tm == nil {
		return Outcome{Class: "panic", Msg: "unknown limit template " + c.Tmpl}
	}
	src, want := tm.gen(c.N)
	mem := c.Mem
	if mem == 0 {
		mem = limitMem
	}
	tr := harness.Run(src, harness.Opts{CPU: limitCPU, Mem: mem})
	o := Outcome{NonTrivial: c.N > tm.limit}
	switch {
	case tr.Panic != "":
		o.Class, o.Msg = "panic", tr.Panic
	case tr.Killed:
		o.Class = "killed"
		o.Msg = fmt.Sprintf("cpu=%d mem=%d", tr.UsedCPU, tr.UsedMem)
	case tr.CompileErr != "":
		o.Class, o.Msg = "compile-error", clip(tr.CompileErr, 300)
	case tr.Err != "":
		o.Class, o.Msg = "error", clip(tr.Err, 300)
		// none of the templates can raise when executed correctly; an error that
		// reports a limit ("too many ...", "stack overflow") is an ordinary
		// way of refusing the program, anything else is wrong code
		if !limitErrRe.MatchString(tr.Err) {
			o.Wrong = "run-time error " + clip(tr.Err, 200) + " from a program that cannot raise; expected " + clip(want, 100)
		}
	default:
		o.Class, o.Rets = "value", clip(tr.Rets, 300)
		if tr.Rets != want {
			o.Wrong = "returned " + clip(tr.Rets, 200) + ", expected " + clip(want, 200)
		}
	}
	return o
}
