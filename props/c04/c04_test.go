// Package c04 checks property C04: no Lua source text and no Lua program can
// crash the embedding Go process.
//
// The oracle is one predicate over what the host observes: compile+run ends
// in a value, a Lua error, or a killed resource-limited context. A Go panic
// that reaches the host's recover, or a process that dies with a Go fatal
// error (stack exhaustion, out of memory, unrecoverable panic in another
// goroutine), violates the property.
//
// Fatal errors cannot be recovered in-process, so golua is only ever run in
// CHILD processes: the test binary re-executes itself with
// `-test.run ^TestC04Child$`; the shard process (TestC04) only generates
// jobs, supervises children and merges their evidence.
//
//	sources : rapid byte strings, token soups and structure-aware corruption of
//	          the repo's Lua files -> CompileLuaChunkOrExp + CompileAndLoadLuaChunk
//	          + run with a small CPU budget           (sources_test.go)
//	limits  : templates with a size parameter swept across each encoding limit,
//	          each with a checksum computed in Go      (limits_test.go)
//	lib     : every function reachable from _G/package.loaded/metatables x every
//	          tuple from an edge pool + directive-aware strings (lib_test.go)
//	recur   : recursion templates                      (recur_test.go)
//
// Manual fuzzing campaign (not run by ./check: a test binary cannot run
// `go test -fuzz` on itself):
//
//	cd /verif && GOFLAGS=-mod=mod go test -tags verif -ldflags=-checklinkname=0 \
//	    -run '^$' -fuzz '^FuzzCompile$' -fuzztime 8m ./props/c04/
package c04

import (
	"bytes"
	"context"
	"encoding/json"
	"fmt"
	"os"
	"os/exec"
	"path/filepath"
	"regexp"
	"runtime/debug"
	"strings"
	"sync"
	"sync/atomic"
	"syscall"
	"testing"
	"time"

	"verif/internal/ev"
	. "verif/internal/pbt"
)

// Case is one replayable case of any of the four generators.
type Case struct {
	Kind string `json:"kind"` // "source" | "lib" | "limit" | "recur"

	// source
	Src  []byte `json:"src,omitempty"`  // the chunk (base64 in JSON)
	Text string `json:"text,omitempty"` // Go-quoted prefix of Src, for humans only
	Gen  string `json:"gen,omitempty"`  // which generator made it (informational)

	// lib
	Fn   string   `json:"fn,omitempty"`   // path of the function, e.g. "string.format"
	Args []string `json:"args,omitempty"` // names of pool values
	// UpTo > 0: run the function's whole enumeration up to and including tuple
	// number UpTo-1 in one session (a failure that needs accumulated state)
	UpTo  int `json:"upto,omitempty"`
	Arity int `json:"arity,omitempty"`

	// limit, recur
	Tmpl string `json:"tmpl,omitempty"`
	N    int    `json:"n,omitempty"`
	Mem  uint64 `json:"mem,omitempty"` // memory limit of the context (0: default)
	// MaxStack > 0: Go's maximal goroutine stack in the child (only used by the
	// demonstrations of known findings, to reach the fatal error sooner)
	MaxStack int `json:"max_stack,omitempty"`
}

func (c Case) Key() string {
	switch c.Kind {
	case "source":
		return "source:" + fmt.Sprintf("%016x", ev.Hash(string(c.Src)))
	case "lib":
		return "lib:" + c.Fn + "(" + strings.Join(c.Args, ",") + ")"
	default:
		return fmt.Sprintf("%s:%s:%d:%d", c.Kind, c.Tmpl, c.N, c.Mem)
	}
}

// Outcome is what the host observed for one case run in-process.
type Outcome struct {
	// Class: "value", "error" (Lua error), "compile-error", "killed", or "panic"
	// (a Go panic reached the host's recover: always a violation).
	Class string `json:"class"`
	Msg   string `json:"msg,omitempty"`  // error / panic text
	Rets  string `json:"rets,omitempty"` // canonical return values
	// Wrong is set when the outcome is ordinary but contradicts the template's
	// checksum (silently wrong code)
	Wrong string `json:"wrong,omitempty"`
	// NonTrivial by the rule of the case's kind
	NonTrivial bool    `json:"nontrivial,omitempty"`
	Note       string  `json:"note,omitempty"`
	Secs       float64 `json:"secs,omitempty"` // wall time of the case inside the child
}

// Job is what a child process is asked to do.
type Job struct {
	Mode  string `json:"mode"` // "case" | "cases" | "sources" | "lib"
	Case  *Case  `json:"case,omitempty"`
	Cases []Case `json:"cases,omitempty"` // "cases": run from index FromT on
	Quick bool   `json:"quick,omitempty"` // smaller resource budgets for recursion templates

	Stream int `json:"stream,omitempty"` // sources: rapid stream number
	Checks int `json:"checks,omitempty"` // sources: number of cases

	Arity  int `json:"arity,omitempty"`   // lib: maximal arity
	FromFn int `json:"from_fn,omitempty"` // lib: resume at this function index ...
	FromT  int `json:"from_t,omitempty"`  // ... and this tuple index

	Known map[string]bool `json:"known,omitempty"` // open known findings (exclude their classes)

	Out      string `json:"out"`      // result file
	Inflight string `json:"inflight"` // in-flight marker file
	HangS    int    `json:"hang_s"`   // per-case watchdog
}

// Result is what a child hands back (file Job.Out).
type Result struct {
	Done    bool     `json:"done"`
	Hang    bool     `json:"hang,omitempty"`
	Outcome *Outcome `json:"outcome,omitempty"`
	// "cases" mode: outcomes of cases FromT, FromT+1, ... in order
	Outcomes []Outcome `json:"outcomes,omitempty"`
	NT       []string  `json:"nt,omitempty"`      // non-trivial keys (hashed)
	Partial  string    `json:"partial,omitempty"` // path of the child's ev.Partial
	NFns     int       `json:"n_fns,omitempty"`
	// lib: the worker stopped early (its heap grew); resume at this function
	NextFn int `json:"next_fn,omitempty"`
}

// Inflight is the marker a worker writes before every case.
type Inflight struct {
	Case Case `json:"case"`
	Fn   int  `json:"fn,omitempty"`
	T    int  `json:"t,omitempty"`
	Seq  int  `json:"seq"`
}

// ---------------------------------------------------------------------------
// supervisor side

type childExit struct {
	res      *Result
	inflight *Inflight
	fatal    string // non-empty: the child died with a fatal error / panic / signal
	timeout  bool
	hang     bool // the child's own watchdog ended it: the in-flight case did not finish in time
	stderr   string
	wall     time.Duration
}

var (
	childSem  chan struct{}
	jobSeq    int64
	fatalRe   = regexp.MustCompile(`(?m)^(fatal error: .*|panic: .*|runtime: goroutine stack exceeds.*|runtime: out of memory.*|SIG[A-Z]+: .*)$`)
	scratchMu sync.Mutex
	scratchD  string
)

func scratchDir() string {
	scratchMu.Lock()
	defer scratchMu.Unlock()
	if scratchD != "" {
		return scratchD
	}
	base := os.Getenv("VERIF_SCRATCH")
	if base == "" {
		base = os.TempDir()
	}
	d, err := os.MkdirTemp(base, fmt.Sprintf("c04-s%s-", os.Getenv("VERIF_SHARD")))
	if err != nil {
		panic(err)
	}
	scratchD = d
	return d
}

func selfBinary() string {
	if b := os.Getenv("VERIF_BIN"); b != "" {
		if _, err := os.Stat(b); err == nil {
			return b
		}
	}
	return os.Args[0]
}

// runChild runs one job in a child process and classifies how it ended.
func runChild(job Job, timeout time.Duration) childExit {
	childSem <- struct{}{}
	defer func() { <-childSem }()
	n := atomic.AddInt64(&jobSeq, 1)
	dir := filepath.Join(scratchDir(), fmt.Sprintf("job%05d", n))
	os.MkdirAll(filepath.Join(dir, "cwd"), 0o755)
	job.Out = filepath.Join(dir, "result.json")
	job.Inflight = filepath.Join(dir, "inflight.json")
	jb, _ := json.Marshal(job)
	jobFile := filepath.Join(dir, "job.json")
	os.WriteFile(jobFile, jb, 0o644)
	errFile, _ := os.Create(filepath.Join(dir, "stderr.txt"))
	outFile, _ := os.Create(filepath.Join(dir, "stdout.txt"))
	defer errFile.Close()
	defer outFile.Close()

	ctx, cancel := context.WithTimeout(context.Background(), timeout)
	defer cancel()
	cmd := exec.CommandContext(ctx, selfBinary(), "-test.run", "^TestC04Child$", "-test.timeout", "0", "-test.count", "1")
	cmd.Dir = filepath.Join(dir, "cwd") // relative file names used by library calls land here
	cmd.Stdout = outFile
	cmd.Stderr = errFile
	cmd.SysProcAttr = &syscall.SysProcAttr{Setpgid: true}
	cmd.Cancel = func() error { return syscall.Kill(-cmd.Process.Pid, syscall.SIGKILL) }
	var env []string
	for _, e := range os.Environ() {
		k := e[:strings.IndexByte(e+"=", '=')]
		switch k {
		case "VERIF_OUT", "VERIF_REPLAY", "C04_JOB", "GOTRACEBACK", "GOGC", "GOMEMLIMIT", "TMPDIR":
			continue
		}
		env = append(env, e)
	}
	os.MkdirAll(filepath.Join(dir, "tmp"), 0o755)
	env = append(env, "TMPDIR="+filepath.Join(dir, "tmp")) // os.tmpname/io.tmpfile land in the scratch dir
	env = append(env, "C04_JOB="+jobFile, "VERIF_OUT="+filepath.Join(dir, "partial.json"), "GOTRACEBACK=single")
	cmd.Env = env
	start := time.Now()
	runErr := cmd.Run()
	x := childExit{wall: time.Since(start)}
	if b, err := os.ReadFile(job.Out); err == nil {
		var r Result
		if json.Unmarshal(b, &r) == nil {
			x.res = &r
		}
	}
	if b, err := os.ReadFile(job.Inflight); err == nil {
		var f Inflight
		if i := bytes.IndexByte(b, '\n'); i >= 0 {
			b = b[:i]
		}
		if json.Unmarshal(bytes.TrimRight(b, " \n\x00"), &f) == nil {
			x.inflight = &f
		}
	}
	if b, err := os.ReadFile(errFile.Name()); err == nil {
		if len(b) > 1<<20 {
			b = b[:1<<20]
		}
		x.stderr = string(b)
	}
	if ctx.Err() != nil {
		x.timeout = true
		return x
	}
	if _, err := os.Stat(job.Out + ".hang"); err == nil || (x.res != nil && x.res.Hang) {
		x.hang = true
		return x
	}
	if x.res != nil && (x.res.Done || x.res.NextFn > 0) && runErr == nil {
		return x
	}
	// abnormal end
	if m := fatalRe.FindAllString(x.stderr, 3); len(m) > 0 {
		x.fatal = strings.Join(m, "; ")
	} else if ee, ok := runErr.(*exec.ExitError); ok {
		if ws, ok := ee.Sys().(syscall.WaitStatus); ok && ws.Signaled() {
			x.fatal = "killed by signal " + ws.Signal().String()
		} else if x.res != nil && x.res.Done {
			return x // finished its work; non-zero exit only from the test framework
		} else {
			x.fatal = fmt.Sprintf("child exited with %v without a result", runErr)
		}
	} else if runErr != nil {
		x.fatal = "cannot run child: " + runErr.Error()
	} else {
		x.fatal = "child exited 0 without a result"
	}
	if x.fatal != "" {
		x.fatal += "\n" + tailLines(x.stderr, 90)
	}
	return x
}

func tailLines(s string, n int) string {
	lines := strings.Split(strings.TrimRight(s, "\n"), "\n")
	// the interesting part of a Go crash is at the top
	if len(lines) > n {
		lines = lines[:n]
	}
	return strings.Join(lines, "\n")
}

// mergePartial merges a child's evidence into the shard's recorder.
func mergePartial(rec *ev.Recorder, res *Result) {
	if res == nil {
		return
	}
	for _, k := range res.NT {
		rec.NonTrivial(k)
	}
	if res.Partial == "" {
		return
	}
	b, err := os.ReadFile(res.Partial)
	if err != nil {
		return
	}
	var p ev.Partial
	if json.Unmarshal(b, &p) != nil {
		return
	}
	rec.EvalN(p.Evaluations)
	for k, v := range p.Classes {
		rec.ClassN(k, v)
	}
	for k, v := range p.Discards {
		for i := int64(0); i < v; i++ {
			rec.Discard(k)
		}
	}
	for _, s := range p.Samples {
		rec.Sample(s)
	}
	for k, v := range p.Extra {
		rec.Set(k, v)
	}
	for _, v := range p.Violations {
		rb, err := os.ReadFile(v.Replay)
		if err != nil {
			rec.Violation("child", v.Replay, v.Msg)
			continue
		}
		var rf ev.ReplayFile
		if json.Unmarshal(rb, &rf) != nil {
			rec.Violation("child", v.Replay, v.Msg)
			continue
		}
		rec.Violation(rf.Kind, rf.Case, rf.Msg)
	}
}

// caseResult is the verdict for one case run in a child.
type caseResult struct {
	msg          string   // violation message, "" if the outcome is ordinary
	out          *Outcome // the outcome if the child reported one
	inconclusive bool     // the child timed out
}

func judgeOutcome(o *Outcome) caseResult {
	switch {
	case o.Class == "panic":
		return caseResult{msg: "Go panic reached the host: " + o.Msg, out: o}
	case o.Wrong != "":
		return caseResult{msg: "ordinary outcome but wrong result (silently wrong code): " + o.Wrong, out: o}
	}
	return caseResult{out: o}
}

// runCases runs the cases one after the other in a child process, restarting
// after a case that killed or hung the child; each(i, r) is called for every case.
func runCases(cases []Case, known map[string]bool, quick bool, perCase time.Duration, each func(i int, r caseResult)) {
	runCasesUntil(cases, known, quick, perCase, nil, each)
}

// runCasesUntil: as runCases, but gives up (silently) once stop() is true; used
// by families in which one defect can make thousands of cases kill their child.
func runCasesUntil(cases []Case, known map[string]bool, quick bool, perCase time.Duration, stop func() bool, each func(i int, r caseResult)) {
	from := 0
	for from < len(cases) {
		if stop != nil && stop() {
			return
		}
		x := runChild(Job{Mode: "cases", Cases: cases, FromT: from, Known: known, Quick: quick, HangS: int(perCase / time.Second)},
			time.Duration(len(cases)-from)*perCase+time.Minute)
		n := 0
		if x.res != nil {
			for k := range x.res.Outcomes {
				if from+k < len(cases) {
					each(from+k, judgeOutcome(&x.res.Outcomes[k]))
					n++
				}
			}
		}
		from += n
		if from >= len(cases) {
			return
		}
		// the child ended early: case number `from` is the culprit
		switch {
		case x.timeout || x.hang:
			each(from, caseResult{inconclusive: true})
		case x.fatal != "":
			each(from, caseResult{msg: "child process died: " + x.fatal})
		default:
			each(from, caseResult{msg: "child process ended without an outcome for this case"})
		}
		from++
	}
}

// runCaseChild runs one case alone in a child.
func runCaseChild(c Case, known map[string]bool, quick bool, timeout time.Duration) (r caseResult) {
	runCases([]Case{c}, known, quick, timeout, func(_ int, cr caseResult) { r = cr })
	return r
}

func caseTimeout(rec *ev.Recorder) time.Duration {
	return time.Duration(rec.Pick(90, 240)) * time.Second
}

var quickBudget bool // child: use the quick tier's budgets for recursion templates

func TestC04(t *testing.T) {
	rec := ev.New("C04")
	defer Finish(t, rec)
	rec.Rule("One predicate over five generators (random sources, library argument grid, limit templates, recursion templates, and vandalised library state: every pair of ~190 places the library or VM reads a value it expects to have a certain shape - fields of package, of the string/file metatables, of type-wide metatables set with debug.setmetatable, every metamethod slot of an object incl. self-referential ones - x 37 wrong-typed values, followed by ~165 probing operations under pcall, with and, for the functions that refuse to run under a limit, without a CPU limit), all run in child processes (RLIMIT_AS 6 GiB): the outcome of compile+run is a value, a Lua error or a killed context; a Go panic reaching the host's recover, a child dying with 'fatal error:'/'panic:'/a signal (a death of a long-lived worker is confirmed by re-running the in-flight case in a fresh child), or a limit template returning anything but a compile error or its Go-computed checksum is a violation; a child timeout is inconclusive (discarded). Non-trivial: source - the chunk compiles or its error position lies after the first non-blank byte (scanner and parser accepted at least one token); library - the call returned, or raised something that is not an argument-count/type/flag complaint; limit - size parameter beyond the encoding limit of its template; recursion - every template. Distinct by hash of (source bytes | function+argument names | template+size).")
	rec.Assume("text chunks only: the bytes generators use CompileAndLoadLuaChunk/CompileLuaChunkOrExp, and load() is only given text or genuine string.dump output (the manual allows malicious binary chunks to crash the interpreter)")
	rec.Assume("excluded by name: os.exit (documented effect is process exit), golib.import (shells out to the Go toolchain), io.read and io.lines without a file name (stdin), debug.sethook (changes the harness), os.execute/io.popen unless the command is the fixed string 'true' or not a string; file names are relative to a per-child scratch directory")
	rec.Assume("accepted random sources are run with dangerous os/io functions replaced by a function that raises an error, a budget of 200k CPU ticks and 64 MB")
	rec.Assume("a child that exceeds its time limit is inconclusive for that case, not a violation")
	rec.Assume("native fuzzing (FuzzCompile) cannot be started from inside a test binary; the thorough tier instead runs many more rapid cases, FuzzCompile is for manual campaigns")

	nsh := rec.NShards()
	par := 8 / nsh
	if par < 1 {
		par = 1
	}
	if rec.Replay != "" {
		par = 1
	}
	childSem = make(chan struct{}, par)
	defer func() {
		if os.Getenv("C04_KEEP") == "" && scratchD != "" {
			os.RemoveAll(scratchD)
		}
	}()

	if rec.Replay != "" {
		rf, err := rec.LoadReplay()
		if err != nil {
			t.Fatal(err)
		}
		var c Case
		if err := json.Unmarshal(rf.Case, &c); err != nil {
			t.Fatal(err)
		}
		rec.Eval()
		r := runCaseChild(c, nil, false, 4*time.Minute)
		if r.out != nil {
			ob, _ := json.Marshal(r.out)
			fmt.Printf("replay outcome: %s\n", ob)
		}
		if r.inconclusive {
			fmt.Printf("replay: child timed out (inconclusive)\n")
			rec.Discard("child-timeout")
		}
		if r.msg != "" {
			fmt.Printf("replay: %s\n", r.msg)
			rec.Violation(c.Kind, c, r.msg)
		}
		return
	}

	known := checkKnownFindings(rec)

	var wg sync.WaitGroup
	t0 := time.Now()
	run := func(name string, f func()) {
		wg.Add(1)
		go func() {
			defer wg.Done()
			f()
			fmt.Printf("[%6.1fs] %s finished\n", time.Since(t0).Seconds(), name)
		}()
	}
	only := os.Getenv("C04_ONLY") // development aid: run one generator only
	if only == "" || strings.Contains(only, "sources") {
		run("sources", func() { superviseSources(rec, known) })
	}
	if only == "" || strings.Contains(only, "lib") {
		run("lib", func() { superviseLib(rec, known) })
	}
	if only == "" || strings.Contains(only, "templates") {
		run("templates", func() { superviseTemplates(rec, known) })
	}
	if only == "" || strings.Contains(only, "vandal") {
		run("vandal", func() { superviseVandal(rec, known) })
	}
	wg.Wait()
	if knownWG != nil {
		knownWG.Wait()
	}
	fmt.Printf("[%6.1fs] known-finding demonstrations finished\n", time.Since(t0).Seconds())
}

// TestC04Child is the entry point of every child process.
func TestC04Child(t *testing.T) {
	jobFile := os.Getenv("C04_JOB")
	if jobFile == "" {
		t.Skip("not a child")
	}
	b, err := os.ReadFile(jobFile)
	if err != nil {
		t.Fatal(err)
	}
	var job Job
	if err := json.Unmarshal(b, &job); err != nil {
		t.Fatal(err)
	}
	// address-space limit: a runaway allocation kills this child, not the machine
	lim := syscall.Rlimit{Cur: 6 << 30, Max: 6 << 30}
	syscall.Setrlimit(syscall.RLIMIT_AS, &lim)
	debug.SetMemoryLimit(4 << 30) // collect harder before hitting the wall
	childMain(job)
}

func writeResult(job Job, r Result) {
	b, _ := json.Marshal(r)
	tmp := job.Out + ".tmp"
	os.WriteFile(tmp, b, 0o644)
	os.Rename(tmp, job.Out)
}
