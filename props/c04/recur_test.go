package c04

import (
	"fmt"
	"strings"

	rt "github.com/arnodel/golua/runtime"

	"verif/internal/harness"
)

// ---------------------------------------------------------------------------
// recursion templates: programs whose recursion goes through the host.
// Acceptable: a value, a Lua error ("stack overflow"-like) or a killed
// context; never a Go panic or a fatal Go stack exhaustion.

type recurTmpl struct {
	name string
	// vmMeta: the recursion re-enters Lua from a metamethod called by the VM
	// itself (input class of finding C04-metamethod-recursion-go-stack)
	vmMeta bool
	// deepSource: the program load()s a source nested 10^6 deep (input class of
	// finding C04-syntax-nesting-go-stack)
	deepSource bool
	// handlerReentry: an xpcall message handler raises an error inside a
	// nested call made by the VM (input class of finding
	// C04-message-handler-reentry)
	handlerReentry bool
	// finding: id of another open finding whose input class contains the template
	finding string
	// hangs: the template never finishes on the current golua (no crash, no CPU
	// budget consumed): by the timeout rule it is inconclusive, so the quick
	// tier does not spend its time limit on it
	hangs string
	src   string
}

// metaRec builds "metamethod mm whose handler performs the same operation on
// the same operands".
func metaRec(mm, params, body string) string {
	return fmt.Sprintf(`
local mt = {}
local t, u = setmetatable({}, mt), setmetatable({}, mt)
mt.%s = function(%s) %s end
local ok, err = pcall(function(a, b) %s end, t, u)
return ok, type(err)
`, mm, params, body, body)
}

var recurTmpls = []recurTmpl{
	{name: "index-function", vmMeta: true, src: metaRec("__index", "a, b", "return a[b]")},
	{name: "newindex-function", vmMeta: true, src: metaRec("__newindex", "a, b", "a[b] = 1")},
	{name: "eq", vmMeta: true, src: metaRec("__eq", "a, b", "return a == b")},
	{name: "lt", vmMeta: true, src: metaRec("__lt", "a, b", "return a < b")},
	{name: "le", vmMeta: true, src: metaRec("__le", "a, b", "return a <= b")},
	{name: "concat", vmMeta: true, src: metaRec("__concat", "a, b", "return a .. b")},
	{name: "len", vmMeta: true, src: metaRec("__len", "a", "return #a")},
	{name: "unm", vmMeta: true, src: metaRec("__unm", "a", "return -a")},
	{name: "add", vmMeta: true, src: metaRec("__add", "a, b", "return a + b")},
	{name: "idiv", vmMeta: true, src: metaRec("__idiv", "a, b", "return a // b")},
	{name: "band", vmMeta: true, src: metaRec("__band", "a, b", "return a & b")},
	{name: "bnot", vmMeta: true, src: metaRec("__bnot", "a", "return ~a")},
	{name: "call-function-nontail", src: `
local t = setmetatable({}, {__call = function(self, ...) return 1 + self(...) end})
local ok, err = pcall(t, 1, 2)
return ok, type(err)`},
	{name: "call-function-tail", src: `
local n = 0
local t = setmetatable({}, {__call = function(self, ...) n = n + 1 if n > 3000000 then return n end return self(...) end})
return pcall(t, 1, 2)`},
	// a __call metamethod that is itself a table with a __call metamethod ...
	{name: "call-table-chain", src: `
local t = {}
setmetatable(t, {__call = t})
local ok, err = pcall(t)
return ok, type(err)`},
	{name: "call-table-chain-100", src: `
local f = function(...) return select('#', ...) end
for i = 1, 100 do f = setmetatable({}, {__call = f}) end
return pcall(f)`},
	{name: "index-table-cycle", src: `
local a, b = {}, {}
setmetatable(a, {__index = b}) setmetatable(b, {__index = a})
local ok, err = pcall(function() return a.x end)
local ok2, err2 = pcall(function() a.x = 1 end)
return ok, type(err), ok2`},
	{name: "newindex-table-cycle", src: `
local a, b = {}, {}
setmetatable(a, {__newindex = b}) setmetatable(b, {__newindex = a})
local ok, err = pcall(function() a.x = 1 end)
return ok, type(err)`},
	{name: "tostring", src: `
local t = setmetatable({}, {__tostring = function(t) return "x" .. tostring(t) end})
local ok, err = pcall(tostring, t)
return ok, type(err)`},
	{name: "tostring-print", src: `
local t
t = setmetatable({}, {__tostring = function() print(t) return "x" end})
local ok, err = pcall(print, t)
return ok, type(err)`},
	{name: "name-error-object", src: `
local t = setmetatable({}, {__tostring = function(t) error(t) end})
local ok, err = pcall(error, t)
local ok2, err2 = pcall(tostring, t)
error(t)`},
	{name: "close", vmMeta: true, src: `
local function f(n)
  local x <close> = setmetatable({}, {__close = function() f(n + 1) end})
  return n
end
local ok, err = pcall(f, 1)
return ok, type(err)`},
	{name: "close-error-chain", src: `
local function f(n)
  local x <close> = setmetatable({}, {__close = function(_, e) error(e or "first") end})
  if n > 0 then f(n - 1) end
  error("x")
end
local ok, err = pcall(f, 10000)
return ok, type(err)`},
	{name: "gc", src: `
local n = 0
local function mk()
  setmetatable({}, {__gc = function() n = n + 1 mk() collectgarbage() end})
end
mk()
collectgarbage() collectgarbage()
return n > 0`},
	{name: "gc-across-contexts", finding: kfGCContexts, src: `
local t = setmetatable({}, {__gc = function() end})
return runtime.callcontext({kill = {cpu = 100000}}, function()
  setmetatable(t, {__gc = function() end})
  return 1
end)`},
	{name: "gmatch-init-beyond-end", finding: kfMatchInit, src: `
local n = 0
for w in string.gmatch("abc", "^", 10) do n = n + 1 end
return n, pcall(string.match, "", "^", 2)`},
	{name: "gc-error", src: `
for i = 1, 1000 do setmetatable({}, {__gc = function() error("in gc " .. i) end}) end
collectgarbage()
return 1`},
	{name: "xpcall-handler-fails", src: `
local function h(e) error(e) end
local ok, err = xpcall(error, h, "x")
return ok, type(err)`},
	{name: "xpcall-handler-recurses", src: `
local function h(e) return select(2, xpcall(error, h, e)) end
local ok, err = xpcall(error, h, "x")
return ok, type(err)`},
	{name: "xpcall-handler-error-in-metamethod", handlerReentry: true, src: `
return xpcall(error, function(e)
  local t = setmetatable({}, {__index = function() error("in index") end})
  return t.x
end, "x")`},
	{name: "xpcall-handler-string-arith", handlerReentry: true, src: `
return xpcall(error, function(e) return ("x" .. e) + 1 end, "x")`},
	{name: "xpcall-nested", handlerReentry: true, src: `
local function f(n) return xpcall(f, f, n + 1) end
return pcall(f, 1)`},
	{name: "pcall-nested", src: `
local function f(n) return pcall(f, n + 1) end
local ok = f(1)
return ok`},
	{name: "pcall-of-pcall", src: `
local args = {}
for i = 1, 200000 do args[i] = pcall end
args[#args + 1] = error
return (pcall(table.unpack(args)))`},
	{name: "gsub-callback", src: `
local function f(s) return (string.gsub(s, ".", f)) end
local ok, err = pcall(f, "abc")
return ok, type(err)`},
	{name: "gsub-table-index", vmMeta: true, src: `
local t
t = setmetatable({}, {__index = function(_, k) return (string.gsub(k, ".", t)) end})
local ok, err = pcall(string.gsub, "abc", ".", t)
return ok, type(err)`},
	{name: "sort-comparator", src: `
local t = {3, 1, 2}
local function cmp(a, b) table.sort({3, 1, 2}, cmp) return a < b end
local ok, err = pcall(table.sort, t, cmp)
return ok, type(err)`},
	{name: "load-recursive", src: `
local function f() return load(f) end
local ok, err = pcall(f)
local src = "return load(...)(...)"
local ok2, err2 = pcall(load(src), src)
return ok, ok2, type(err2)`},
	{name: "require-recursive", src: `
package.preload.m = function() return require("m") end
local ok, err = pcall(require, "m")
table.insert(package.searchers, 1, function(n) return function() return require(n .. "x") end end)
local ok2, err2 = pcall(require, "q")
return ok, ok2, type(err2)`},
	{name: "coroutine-nest-10000", src: `
local function nest(n)
  if n == 0 then return 0 end
  return 1 + coroutine.wrap(nest)(n - 1)
end
return pcall(nest, 10000)`},
	{name: "coroutine-nest-unbounded", src: `
local function nest(n)
  return 1 + coroutine.wrap(nest)(n + 1)
end
local ok, err = pcall(nest, 1)
return ok, type(err)`},
	// a limit hit inside a __close handler that runs because its coroutine dies
	{name: "close-handler-killed-at-coroutine-close", src: `
local c = coroutine.create(function() local x <close> = setmetatable({}, {__close = function() while true do end end}) coroutine.yield() end)
coroutine.resume(c)
return runtime.callcontext({kill = {cpu = 10000}}, function() coroutine.close(c) end)`},
	{name: "close-handler-killed-at-coroutine-error", src: `
local c = coroutine.wrap(function() local x <close> = setmetatable({}, {__close = function() local t = {} while true do t[#t + 1] = ("x"):rep(1000) .. #t end end}) error("e") end)
return runtime.callcontext({kill = {memory = 1000000}}, function() return pcall(c) end)`},
	{name: "close-handler-uses-coroutines-at-coroutine-close", src: `
local c = coroutine.create(function() local x <close> = setmetatable({}, {__close = function()
  local i = coroutine.wrap(function() coroutine.yield(1) return 2 end)
  return i() + i()
end}) coroutine.yield() end)
coroutine.resume(c)
return coroutine.close(c)`},
	{name: "coroutine-resume-self", src: `
local co
co = coroutine.create(function() return coroutine.resume(co) end)
local a, b, c = coroutine.resume(co)
local w
w = coroutine.wrap(function() return w() end)
local ok, err = pcall(w)
return a, b, ok`},
	{name: "coroutine-close-chain", src: `
local function mk(n)
  return coroutine.create(function()
    local x <close> = setmetatable({}, {__close = function() if n > 0 then local c = mk(n - 1) coroutine.resume(c) coroutine.close(c) end end})
    coroutine.yield()
  end)
end
local c = mk(3)
coroutine.resume(c)
return coroutine.close(c)`},
	{name: "lua-recursion-nontail", src: `
local function f(n) return 1 + f(n + 1) end
local ok, err = pcall(f, 1)
return ok, type(err)`},
	{name: "lua-recursion-10e5", src: `
local function f(n) if n == 0 then return 0 end return 1 + f(n - 1) end
return f(100000)`},
	{name: "lua-recursion-10e6", src: `
local function f(n) if n == 0 then return 0 end return 1 + f(n - 1) end
return f(1000000)`},
	{name: "lua-recursion-10e7", src: `
local function f(n) if n == 0 then return 0 end return 1 + f(n - 1) end
return f(10000000)`},
	{name: "lua-recursion-error-traceback", src: `
local function f(n) if n == 0 then error("deep") end return 1 + f(n - 1) end
local ok, err = xpcall(f, debug.traceback, 200000)
return ok, #err > 0`},
	{name: "vararg-recursion", src: `
local function f(...) return f(1, ...) end
local ok, err = pcall(f)
return ok, type(err)`},
	{name: "load-deep-paren", deepSource: true, src: `
local n = 1000000
local f, err = load("return " .. string.rep("(", n) .. "1" .. string.rep(")", n))
return f and f() or type(err)`},
	{name: "load-deep-rep-call", deepSource: true, src: `
local n = 1000000
local f, err = load("local function f(x) return x end return " .. string.rep("f(", n) .. "1" .. string.rep(")", n))
return f and f() or type(err)`},
	{name: "load-in-load", src: `
local src = "return 1"
for i = 1, 20 do src = "return load(" .. string.format("%q", src) .. ")()" end
return load(src)()`},
	{name: "deep-table-tostring-concat", src: `
local t = {}
for i = 1, 200000 do t = {t} end
local d = 0
while t[1] do t = t[1] d = d + 1 end
return d`},
	{name: "select-unpack-huge", src: `
local t = {}
local ok, err = pcall(function() return select('#', table.unpack(t, 1, 1e7)) end)
local ok2, err2 = pcall(function() return select('#', table.unpack(t, 1, 2^31)) end)
local ok3, err3 = pcall(function() return select('#', table.unpack(t, math.mininteger, math.maxinteger)) end)
return ok, ok2, ok3`},
	{name: "string-rep-huge", src: `
local ok, err = pcall(string.rep, "x", 1 << 40)
local ok2, err2 = pcall(string.rep, "abc", math.maxinteger, ",")
local ok3, err3 = pcall(string.rep, "", math.maxinteger)
return ok, ok2, ok3`},
	{name: "concat-doubling", src: `
local s = "x"
for i = 1, 60 do s = s .. s end
return #s`},
	{name: "table-concat-huge", src: `
local ok, err = pcall(table.concat, {}, "", 1, math.maxinteger)
local ok2, err2 = pcall(table.concat, setmetatable({}, {__index = function() return "x" end}), ",", 1, 1 << 40)
return ok, ok2`},
	{name: "pairs-metamethod-recursion", src: `
local t
t = setmetatable({}, {__pairs = function(x) return pairs(x) end})
local ok, err = pcall(pairs, t)
return ok, type(err)`},
	{name: "format-tostring-recursion", src: `
local t
t = setmetatable({}, {__tostring = function(x) return string.format("%s", x) end})
local ok, err = pcall(string.format, "%s", t)
return ok, type(err)`},
}

func findRecurTmpl(name string) *recurTmpl {
	for i := range recurTmpls {
		if recurTmpls[i].name == name {
			return &recurTmpls[i]
		}
	}
	return nil
}

// budgets of the recursion templates (quick tier: a tenth of the CPU)
const (
	recurCPU      = 1_000_000_000
	recurCPUQuick = 20_000_000
	recurMem      = 256_000_000
	recurMemQuick = 128_000_000
)

func execRecur(c Case) Outcome {
	tm := findRecurTmpl(c.Tmpl)
	if tm == nil {
		return Outcome{Class: "panic", Msg: "unknown recursion template " + c.Tmpl}
	}
	cpu, mem := uint64(recurCPU), uint64(recurMem)
	if quickBudget {
		cpu, mem = recurCPUQuick, recurMemQuick
	}
	if c.Mem != 0 {
		mem = c.Mem
	}
	tr := harness.Run(strings.TrimSpace(tm.src)+"\n", harness.Opts{CPU: cpu, Mem: mem, Setup: func(r *rt.Runtime, env *rt.Table, _ *harness.Trace, _ *harness.Canon) {
		// collectgarbage declares no compliance flags, so it is refused inside a
		// limited context; the templates get a host function that collects
		r.SetEnvGoFunc(env, "collectgarbage", func(t *rt.Thread, c *rt.GoCont) (rt.Cont, error) {
			t.CollectGarbage()
			return c.Next(), nil
		}, 0, true).SolemnlyDeclareCompliance(rt.ComplyCpuSafe | rt.ComplyMemSafe | rt.ComplyIoSafe | rt.ComplyTimeSafe)
	}})
	o := Outcome{NonTrivial: true}
	switch {
	case tr.Panic != "":
		o.Class, o.Msg = "panic", tr.Panic
	case tr.Killed:
		o.Class = "killed"
		o.Msg = fmt.Sprintf("cpu=%d mem=%d", tr.UsedCPU, tr.UsedMem)
	case tr.CompileErr != "":
		// the templates are valid Lua: they must compile
		o.Class, o.Msg = "compile-error", clip(tr.CompileErr, 300)
		o.Wrong = "valid program rejected: " + clip(tr.CompileErr, 200)
	case tr.Err != "":
		o.Class, o.Msg = "error", clip(tr.Err, 300)
	default:
		o.Class, o.Rets = "value", clip(tr.Rets, 300)
	}
	return o
}
