package c04

import (
	"fmt"
	"strings"
	"sync"
	"time"

	"verif/internal/ev"
	. "verif/internal/pbt"
)

// ids of the known findings (see /verif/known_findings.d/C04.json)
const (
	kfFormatTrunc = "C04-format-truncated-directive"
	kfFormatP     = "C04-format-p-without-value"
	kfParserDepth = "C04-syntax-nesting-go-stack"
	kfCodeSize    = "C04-function-over-32767-opcodes"
	kfLimitPanics = "C04-compile-limit-bare-panic"
	kfMetaRecur   = "C04-metamethod-recursion-go-stack"
	kfUnpackLen   = "C04-unpack-string-length-prefix"
	kfReadHuge    = "C04-file-read-huge-count"
	kfHandler     = "C04-message-handler-reentry"
	kfGCContexts  = "C04-gc-finalizer-across-contexts"
	kfMatchInit   = "C04-match-init-beyond-end"
	kfSetvbuf     = "C04-file-setvbuf-huge-size"
)

// demonstrations: fixed inputs, independent of the generators
var kfDemo = map[string]Case{
	kfFormatTrunc: {Kind: "lib", Fn: "string.format", Args: []string{"fmt:%5"}},
	kfFormatP:     {Kind: "lib", Fn: "string.format", Args: []string{"fmt:%p"}},
	kfParserDepth: {Kind: "limit", Tmpl: "nest-paren", N: 1_000_000},
	kfCodeSize:    {Kind: "limit", Tmpl: "opcodes", N: 40_000},
	kfLimitPanics: {Kind: "limit", Tmpl: "ctor-multi", N: 300},
	kfMetaRecur:   {Kind: "recur", Tmpl: "index-function"},
	kfUnpackLen:   {Kind: "lib", Fn: "string.unpack", Args: []string{"pk:s", `pkd:\xff\xff\xff\xff\xff\xff\xff\xff`}},
	kfHandler:     {Kind: "recur", Tmpl: "xpcall-handler-error-in-metamethod"},
	kfGCContexts:  {Kind: "recur", Tmpl: "gc-across-contexts"},
	kfMatchInit:   {Kind: "lib", Fn: "string.match", Args: []string{"s:", "pat:^", "2"}},
	kfSetvbuf:     {Kind: "lib", Fn: "<file-mt>.__index.setvbuf", Args: []string{"file", "rfmt:full", "maxint"}},
	kfReadHuge:    {Kind: "lib", Fn: "<file-mt>.__index.read", Args: []string{"file", "maxint"}},
}

// nest templates whose depth-n programs exhaust the Go stack in the parser or
// the compilers (input class of kfParserDepth): every nesting template from
// this depth on, and the recursion templates that load() such a source.
const kfParserDepthFrom = 150_000

// input classes of the open findings over limit and recursion templates
func templateExcluded(known map[string]bool, c Case) string {
	switch c.Kind {
	case "limit":
		switch {
		case known[kfParserDepth] && nestFamily(c.Tmpl) && c.N >= kfParserDepthFrom:
			return kfParserDepth
		case known[kfLimitPanics] && kfLimitPanicClass(c):
			return kfLimitPanics
		case known[kfCodeSize] && kfCodeSizeClass(c):
			return kfCodeSize
		}
	case "recur":
		tm := findRecurTmpl(c.Tmpl)
		if tm == nil {
			return ""
		}
		if tm.vmMeta && known[kfMetaRecur] && (c.Mem == 0 || c.Mem > 16<<20) {
			return kfMetaRecur
		}
		if tm.deepSource && known[kfParserDepth] {
			return kfParserDepth
		}
		if tm.handlerReentry && known[kfHandler] {
			return kfHandler
		}
		if tm.finding != "" && known[tm.finding] {
			return tm.finding
		}
	}
	return ""
}

// opcodeModel: number of opcodes the template of size n puts into ONE
// function: slope*n + intercept, measured once on golua's disassembly of the
// templates at n=20 and n=40 (three opcodes per 'a = a + 1'). Only templates
// whose code is sequential in one function are listed; the others fail by
// "not enough registers" first or spread their code over many functions.
var opcodeModel = map[string][2]int{
	"opcodes": {3, 4}, "jump-forward": {3, 20}, "jump-backward": {3, 13}, "jump-for": {3, 16}, "goto-far": {3, 14},
	"jump-else": {6, 21}, "elseif-chain": {7, 41}, "call-args": {2, 20}, "ctor-plain": {3, 11},
	"nest-add": {1, 4}, "nest-and": {2, 8}, "nest-callchain": {3, 16}, "nest-concat": {1, 5}, "nest-if": {3, 6},
	"nest-index": {2, 9}, "nest-minus": {1, 4}, "nest-not": {1, 4}, "nest-pow": {1, 4}, "nest-while": {4, 7},
}

// kfCodeSizeClass: templates that put more than 32767 opcodes into one function.
func kfCodeSizeClass(c Case) bool {
	m, ok := opcodeModel[c.Tmpl]
	return ok && m[0]*c.N+m[1] > 32_767
}

// kfLimitPanicClass: templates that exceed an 8-bit/16-bit operand field which
// the code generator reports with a bare panic: a FillTable index >= 256, or
// a constant index > 65535 (the constants templates add one constant per
// function of 400 statements, plus a handful).
func kfLimitPanicClass(c Case) bool {
	switch c.Tmpl {
	case "ctor-multi", "ctor-vararg":
		return c.N >= 255
	case "constants", "string-constants":
		return c.N+(c.N+399)/400+16 > 65_535
	case "ctor-plain", "nest-function", "nest-funcstat": // one constant per item / per nested function
		return c.N+16 > 65_535
	}
	return false
}

func checkKnownFindings(rec *ev.Recorder) map[string]bool {
	known := map[string]bool{}
	ids := []string{kfFormatTrunc, kfFormatP, kfParserDepth, kfCodeSize, kfLimitPanics, kfMetaRecur, kfUnpackLen, kfReadHuge, kfHandler, kfGCContexts, kfMatchInit, kfSetvbuf}
	var open []string
	for _, id := range ids {
		if ev.Open(id) {
			known[id] = true
			open = append(open, id)
		}
	}
	// the demonstrations run in children; only shard 0 needs to report them
	// (every shard excludes the classes)
	if rec.Shard() != 0 || len(open) == 0 {
		return known
	}
	var wg sync.WaitGroup
	// those that die with a fatal error get a child of their own and a smaller
	// maximal Go stack, so that they die sooner; the others share one child
	var cheap []string
	for _, id := range open {
		id := id
		if id != kfParserDepth && id != kfMetaRecur && id != kfHandler && id != kfGCContexts {
			cheap = append(cheap, id)
			continue
		}
		wg.Add(1)
		go func() {
			defer wg.Done()
			c := kfDemo[id]
			c.MaxStack = 128 << 20
			CheckKnown(rec, id, func() bool {
				r := runCaseChild(c, nil, true, caseTimeout(rec))
				secs := 0.0
				if r.out != nil {
					secs = r.out.Secs
				}
				fmt.Printf("known finding %s: demonstration (%.1fs) gives: %s\n", id, secs, clip(strings.ReplaceAll(r.msg, "\n", " | "), 200))
				return r.msg != ""
			})
		}()
	}
	wg.Add(1)
	go func() {
		defer wg.Done()
		var cs []Case
		for _, id := range cheap {
			cs = append(cs, kfDemo[id])
		}
		fails := map[string]bool{}
		runCases(cs, nil, true, caseTimeout(rec), func(i int, r caseResult) {
			fmt.Printf("known finding %s: demonstration gives: %s\n", cheap[i], clip(strings.ReplaceAll(r.msg, "\n", " | "), 200))
			fails[cheap[i]] = r.msg != ""
		})
		for _, id := range cheap {
			id := id
			CheckKnown(rec, id, func() bool { return fails[id] })
		}
	}()
	knownWG = &wg
	return known
}

var knownWG *sync.WaitGroup

var tplStart = time.Now()

// superviseTemplates runs the limit and recursion templates in children.
func superviseTemplates(rec *ev.Recorder, known map[string]bool) {
	var cases []Case
	for _, tm := range limitTmpls {
		sizes := append([]int{}, tm.quick...)
		if rec.Thorough() {
			sizes = append(sizes, tm.more...)
		}
		for _, n := range sizes {
			cases = append(cases, Case{Kind: "limit", Tmpl: tm.name, N: n})
		}
	}
	nsmall := 0
	for _, tm := range recurTmpls {
		cases = append(cases, Case{Kind: "recur", Tmpl: tm.name})
		if rec.Thorough() || (tm.vmMeta && nsmall < 4) {
			// the same under a small memory limit: the context must die first
			cases = append(cases, Case{Kind: "recur", Tmpl: tm.name, Mem: 8 << 20})
			nsmall++
		}
	}
	var mine []Case
	for i, c := range cases {
		if !rec.Mine(i) {
			continue
		}
		if id := templateExcluded(known, c); id != "" {
			rec.Discard("excluded-by-finding:" + id)
			continue
		}
		if tm := findRecurTmpl(c.Tmpl); c.Kind == "recur" && tm != nil && tm.hangs != "" && !rec.Thorough() {
			// it would cost the whole time limit and then be discarded as inconclusive
			rec.Discard("skipped-in-quick (never finishes; inconclusive by the timeout rule): " + c.Tmpl + ": " + tm.hangs)
			continue
		}
		mine = append(mine, c)
	}
	// a few batches side by side; a case that kills its child costs a restart
	nb := cap(childSem)
	if nb > 3 {
		nb = 3
	}
	batches := make([][]Case, nb)
	for i, c := range mine {
		batches[i%nb] = append(batches[i%nb], c)
	}
	var wg sync.WaitGroup
	var mu sync.Mutex
	for _, b := range batches {
		b := b
		wg.Add(1)
		go func() {
			defer wg.Done()
			runCases(b, known, !rec.Thorough(), caseTimeout(rec), func(i int, r caseResult) {
				mu.Lock()
				defer mu.Unlock()
				c := b[i]
				if r.inconclusive {
					rec.Discard("child-timeout")
					fmt.Printf("%-6s %-28s n=%-8d mem=%-9d child timed out (inconclusive)\n", c.Kind, c.Tmpl, c.N, c.Mem)
					return
				}
				rec.Eval()
				rec.Class(c.Kind + "-template")
				cls, o := "died", Outcome{}
				if r.out != nil {
					cls, o = r.out.Class, *r.out
				}
				rec.Class(c.Kind + "-outcome:" + cls)
				nt := c.Kind == "recur"
				if tm := findLimitTmpl(c.Tmpl); c.Kind == "limit" && tm != nil && c.N > tm.limit {
					nt = true
				}
				if nt {
					rec.NonTrivial(c.Key())
				}
				rec.Sample(map[string]any{"kind": c.Kind, "template": c.Tmpl, "n": c.N, "mem": c.Mem, "outcome": cls, "msg": clip(o.Msg, 120), "rets": clip(o.Rets, 80)})
				fmt.Printf("[%6.1fs] %-6s %-28s n=%-8d mem=%-9d %-13s %6.2fs %s\n", time.Since(tplStart).Seconds(), c.Kind, c.Tmpl, c.N, c.Mem, cls, o.Secs, clip(strings.ReplaceAll(o.Msg+o.Rets, "\n", " "), 100))
				if r.msg != "" {
					rec.Violation(c.Kind, c, fmt.Sprintf("%s template %s n=%d mem=%d: %s", c.Kind, c.Tmpl, c.N, c.Mem, r.msg))
				}
			})
		}()
	}
	wg.Wait()
}
