package c04

import (
	"testing"

	rt "github.com/arnodel/golua/runtime"
	"pgregory.net/rapid"

	"verif/internal/ev"
)

// FuzzCompile is the native fuzz target for manual campaigns (./check cannot
// start `go test -fuzz` from inside a test binary):
//
//	cd /verif && GOFLAGS=-mod=mod go test -tags verif -ldflags=-checklinkname=0 \
//	    -run '^$' -fuzz '^FuzzCompile$' -fuzztime 8m ./props/c04/
//
// Seeds: the repository's Lua files, the hostile tokens of the rapid
// generator, and testdata/fuzz/FuzzCompile. A crash is a Go panic reaching
// the host; a fatal error kills the fuzz worker, which go test reports too.
func FuzzCompile(f *testing.F) {
	loadSeeds()
	for _, s := range seedSrc {
		if len(s) < 8000 {
			f.Add([]byte(s))
		}
	}
	for _, h := range hostile {
		f.Add([]byte("return " + h))
		f.Add([]byte("local x = " + h + "\nreturn x"))
	}
	f.Fuzz(func(t *testing.T, src []byte) {
		if len(src) > 100_000 || rt.HasMarshalPrefix(src) {
			t.Skip()
		}
		if sourceExcluded(ev.Open, src) != "" {
			t.Skip() // input classes of the open findings
		}
		if o := execSource(src); o.Class == "panic" {
			t.Fatalf("Go panic reached the host: %s", o.Msg)
		}
	})
}

// FuzzCompileStructured drives the structure-aware rapid generator from the
// fuzzer's byte stream (rapid.MakeFuzz).
func FuzzCompileStructured(f *testing.F) {
	f.Fuzz(rapid.MakeFuzz(func(t *rapid.T) {
		c := genSource(t)
		if sourceExcluded(ev.Open, c.Src) != "" {
			return
		}
		if o := execSource(c.Src); o.Class == "panic" {
			t.Fatalf("Go panic reached the host for %s: %s", c.Text, o.Msg)
		}
	}))
}
