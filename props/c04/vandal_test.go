package c04

import (
	"fmt"
	"strings"
	"sync"

	"pgregory.net/rapid"

	"verif/internal/ev"
)

// ---------------------------------------------------------------------------
// Vandalised library state: programs that store a wrong-typed (or
// self-referential) value where the library or the VM later reads a value it
// expects to have a certain shape - a field of `package`, of the string / file
// metatable, of a type-wide metatable set with debug.setmetatable, or a
// metamethod slot of an object - and then use the operations that consult that
// place, each under pcall. Nothing here is an invalid program: the outcome
// must be a value or a Lua error, never a Go panic or a dead process.
//
// Exhaustive part: every (place, value) pair with ALL probes (split in chunks);
// rapid part (generator "vandal" of genSource): two places vandalised at once
// and a random probe selection.

type vandalPlace struct{ name, stmt string }

var metaNames = []string{"__name", "__tostring", "__metatable", "__index", "__newindex", "__call", "__len", "__eq", "__lt", "__le", "__concat", "__unm", "__add", "__idiv", "__band", "__shl", "__bnot", "__pairs", "__close", "__gc", "__mode"}

var vandalPlaces = func() []vandalPlace {
	ps := []vandalPlace{
		{"package.preload", `package.preload = V`},
		{"package.loaded", `package.loaded = V`},
		{"package.searchers", `package.searchers = V`},
		{"package.path", `package.path = V`},
		{"package.config", `package.config = V`},
		{"package.searchers[1]", `package.searchers[1] = V`},
		{"package.searchers[2]", `package.searchers[2] = V`},
		{"package.searchers[3]", `package.searchers[3] = V`},
		{"package.preload.mod", `package.preload.vandal_mod = V`},
		{"package.loaded.mod", `package.loaded.vandal_mod = V`},
		{"package.loaded.string", `package.loaded.string = V`},
		{"package.loaded._G", `package.loaded._G = V`},
		{"package-itself", `package = V`},
		{"_G.tostring", `tostring = V`},
		{"_G.string", `string = V`},
		{"_G.require-env", `_G._G = V`},
		{"string.format", `string.format = V`},
		{"io.stdout", `io.stdout = V`},
		{"io.stdin", `io.stdin = V`},
		{"io.stderr", `io.stderr = V`},
		{"io.output()", `pcall(io.output, V)`},
		{"io.input()", `pcall(io.input, V)`},
		{"globals-metatable.__index", `setmetatable(_G, {__index = V})`},
		{"globals-metatable.__newindex", `setmetatable(_G, {__newindex = V})`},
	}
	for _, mm := range metaNames {
		ps = append(ps,
			vandalPlace{"object." + mm, fmt.Sprintf(`OBJ = setmetatable({}, {%s = V})`, mm)},
			vandalPlace{"self-metatable." + mm, fmt.Sprintf(`local m = {} m.%s = V OBJ = setmetatable(m, m)`, mm)},
			vandalPlace{"self-as-" + mm, fmt.Sprintf(`local m = {} m.%s = m OBJ = setmetatable(m, m)`, mm)},
			vandalPlace{"sibling-as-" + mm, fmt.Sprintf(`local m = {} OBJ = setmetatable({}, m) m.%s = setmetatable({}, m)`, mm)},
		)
		if mm != "__gc" { // re-marking a file handle inside a limited context is the input class of an open finding
			ps = append(ps,
				vandalPlace{"string-metatable." + mm, fmt.Sprintf(`getmetatable("").%s = V`, mm)},
				vandalPlace{"file-metatable." + mm, fmt.Sprintf(`getmetatable(io.stdout).%s = V`, mm)},
			)
		}
		for _, ty := range []struct{ n, e string }{{"number", "0"}, {"nil", "nil"}, {"boolean", "true"}, {"function", "print"}, {"thread", "coroutine.create(print)"}} {
			ps = append(ps, vandalPlace{ty.n + "-metatable." + mm, fmt.Sprintf(`debug.setmetatable(%s, {%s = V})`, ty.e, mm)})
		}
	}
	return ps
}()

var vandalValues = []struct{ name, expr string }{
	{"nil", `nil`}, {"one", `1`}, {"float", `1.5`}, {"minus", `-1`}, {"huge", `math.huge`}, {"nan", `0/0`}, {"big", `2^53`},
	{"str", `"x"`}, {"empty", `""`}, {"nul", `"\0"`}, {"numstr", `"10"`}, {"true", `true`}, {"false", `false`},
	{"table", `{}`}, {"array", `{1, 2, 3}`}, {"gofn", `print`}, {"fn-nothing", `function() end`}, {"fn-error", `function() error("vandal") end`},
	{"fn-error-table", `function() error({}) end`}, {"fn-identity", `function(...) return ... end`}, {"fn-self", `function(a) return a end`},
	{"fn-table", `function() return {} end`}, {"fn-number", `function() return 1 end`}, {"fn-string", `function() return "s" end`}, {"fn-true", `function() return true end`},
	{"thread", `coroutine.create(print)`}, {"file", `io.stderr`}, {"lib", `string`}, {"globals", `_G`},
	{"erroring-index", `setmetatable({}, {__index = function() error("idx") end})`},
	{"bad-call", `setmetatable({}, {__call = 1})`},
	{"callable-table", `setmetatable({}, {__call = function(...) return ... end})`},
	{"named-by-table", `setmetatable({}, {__name = {}})`},
	{"tostring-number", `setmetatable({}, {__tostring = function() return 1 end})`},
	{"tostring-self", `setmetatable({}, {__tostring = function(s) return s end})`},
	{"mode-k", `"k"`}, {"mode-kv", `"kv"`},
}

var vandalProbes = []string{
	`require("vandal_mod")`, `require("string")`, `require("vandal_other")`, `package.searchpath("vandal_mod", "./?.lua")`, `package.searchpath("vandal_mod", V)`,
	`tostring(OBJ)`, `print(OBJ)`, `string.format("%s", OBJ)`, `string.format("%d", OBJ)`, `error(OBJ)`, `error(OBJ, 2)`, `assert(false, OBJ)`, `assert(nil, OBJ)`,
	`return OBJ < OBJ`, `return OBJ <= 1`, `return 1 < OBJ`, `return OBJ == setmetatable({}, getmetatable(OBJ))`, `return OBJ .. "x"`, `return "x" .. OBJ`, `return #OBJ`, `return -OBJ`, `return OBJ + 1`, `return 1 // OBJ`, `return OBJ & 1`, `return OBJ << 1`, `return ~OBJ`,
	`return OBJ()`, `return OBJ(1, 2)`, `return OBJ.k`, `OBJ.k = 1`, `return OBJ[OBJ]`, `OBJ[OBJ] = OBJ`,
	`for k in pairs(OBJ) do break end`, `for i in ipairs(OBJ) do break end`, `for x in OBJ do break end`, `return next(OBJ)`,
	`return table.concat({OBJ})`, `return table.concat(OBJ, ",", 1, 2)`, `table.sort({OBJ, OBJ, OBJ})`, `table.sort(OBJ)`, `return table.unpack(OBJ, 1, 2)`, `table.insert(OBJ, 1)`, `return table.remove(OBJ)`, `return table.move(OBJ, 1, 2, 3)`, `return table.pack(OBJ).n`,
	`do local c <close> = OBJ end`, `local c <close> = OBJ error("x")`, `local keep = OBJ OBJ = nil collectgarbage() OBJ = keep`, `return setmetatable(OBJ, nil)`, `return setmetatable(OBJ, {})`, `return getmetatable(OBJ)`, `return type(OBJ)`, `return select("#", OBJ)`, `return select(OBJ, 1)`, `return rawlen(OBJ)`, `return rawequal(OBJ, OBJ)`, `return rawget(OBJ, 1)`,
	`return string.rep(OBJ, 2)`, `return string.len(OBJ)`, `return string.byte(OBJ)`, `return string.upper(OBJ)`, `return string.find("x", OBJ)`, `return string.gsub("x", "x", OBJ)`, `return string.format(OBJ)`, `return tonumber(OBJ)`, `return tonumber("10", OBJ)`, `return math.floor(OBJ)`, `return math.max(OBJ, 1)`, `return utf8.char(OBJ)`, `return utf8.len(OBJ)`,
	`return ("x"):upper()`, `return ("x").y`, `return ("x") + 1`, `return "10" + 1`, `return "10" // "3"`, `return "a" .. 1`, `return #"abc"`, `return ("x")()`, `return -"2"`, `return "a" < "b"`, `return "a" == "a"`, `return ("x"):rep(2)`, `return ("%d"):format(1)`, `return ~"3"`, `return "3" & 1`,
	`return 1 < 2`, `return (1).x`, `return (1)()`, `return 1 .. 2`, `return #1`, `return -(1)`, `return 1 + 1`, `return 1 == 1`,
	`return nil .. "x"`, `return (nil).x`, `return (nil)()`, `return nil == nil`, `return #nil`, `return (true).x`, `return print.x`, `return #print`, `return print .. "x"`, `return print < print`,
	`print(1, nil, true, print)`, `return tostring(nil)`, `return tostring(1)`, `return tostring(true)`, `return tostring(print)`, `return tostring(coroutine.create(print))`, `return tostring("s")`, `return tostring(io.stdout)`,
	`return io.write("x")`, `return io.write(OBJ)`, `return io.read()`, `return io.lines()`, `return io.output():write("x")`, `return io.input()`, `return io.close()`, `return io.stdout:write("x")`, `return io.type(OBJ)`, `return io.type(io.stdout)`, `return io.stdout:seek("cur")`, `return io.stdout:setvbuf("no")`, `io.stdout:flush()`, `do local f <close> = io.stdout end`,
	`return coroutine.wrap(function() error(OBJ) end)()`, `return coroutine.close(coroutine.create(print))`, `return coroutine.resume(coroutine.create(function() return OBJ .. 1 end))`, `return coroutine.status(OBJ)`, `return coroutine.resume(OBJ)`, `return coroutine.wrap(OBJ)()`,
	`return load("return 1", OBJ)`, `return load(OBJ)`, `return load("return 1", "n", "t", OBJ)`, `return string.dump(print)`, `return string.dump(OBJ)`, `warn("@on") warn(OBJ)`, `return os.date(OBJ)`, `return os.time(OBJ)`, `return os.getenv(OBJ)`, `return os.clock()`,
	`return xpcall(error, OBJ, 1)`, `return xpcall(error, print, OBJ)`, `return pcall(OBJ)`, `return pcall(pcall, OBJ)`, `return collectgarbage(OBJ)`, `return collectgarbage("count")`, `return collectgarbage("step", OBJ)`,
	`return runtime.callcontext(OBJ, print)`, `return runtime.callcontext({kill = OBJ}, print)`, `return runtime.callcontext({flags = OBJ}, print)`, `return runtime.callcontext({kill = {cpu = OBJ}}, print)`, `return tostring(runtime.context())`, `return runtime.context().kill`,
	`return debug.getinfo(OBJ)`, `return debug.getinfo(1, OBJ)`, `return debug.traceback(OBJ)`, `return debug.traceback(coroutine.create(print), OBJ)`, `return debug.upvalueid(print, 1)`, `return debug.getmetatable(OBJ)`, // (not on userdata: giving a file handle made outside the running limited context a metatable again is the input class of the open finding C18-remark-in-other-context-fatal)
	`if type(OBJ) ~= "userdata" then return debug.setmetatable(OBJ, nil) end`,
}

// vandalUnlimitedProbes: the probes that involve library functions which
// refuse to run in a context with a hard limit (they are not declared
// CPU-safe); load(OBJ) is left out (an endless reader is only bounded by a limit).
var vandalUnlimitedProbes = func() []string {
	var out []string
	for _, p := range vandalProbes {
		if strings.Contains(p, "load(OBJ") {
			continue
		}
		for _, key := range []string{"require", "package.", "io.", "os.", "print(", "warn(", "debug.", "collectgarbage", "load(", "string.dump", "runtime."} {
			if strings.Contains(p, key) {
				out = append(out, p)
				break
			}
		}
	}
	return out
}()

// vandalProgram: V is the value, OBJ defaults to V (places that build an
// object overwrite it). Every probe runs under pcall; the program returns how
// many probes came back without / with an error.
func vandalProgram(places []vandalPlace, value string, probes []string, uncaught bool) string {
	var sb strings.Builder
	fmt.Fprintf(&sb, "local V = %s\nOBJ = V\n", value)
	for _, p := range places {
		// installing may itself be refused (e.g. a protected metatable): that is fine
		fmt.Fprintf(&sb, "pcall(function() %s end)\n", p.stmt)
	}
	sb.WriteString("local okn, errn = 0, 0\nlocal function probe(f) if pcall(f) then okn = okn + 1 else errn = errn + 1 end end\n")
	for _, p := range probes {
		fmt.Fprintf(&sb, "probe(function() %s end)\n", p)
	}
	if uncaught {
		// the error value reaches the host, which formats it
		sb.WriteString("error(OBJ)\n")
	}
	sb.WriteString("return okn, errn\n")
	return sb.String()
}

func vandalCases(chunk int) []Case {
	var out []Case
	for _, pl := range vandalPlaces {
		for _, v := range vandalValues {
			for i := 0; i < len(vandalProbes); i += chunk {
				j := i + chunk
				if j > len(vandalProbes) {
					j = len(vandalProbes)
				}
				src := vandalProgram([]vandalPlace{pl}, v.expr, vandalProbes[i:j], false)
				out = append(out, Case{Kind: "source", Src: []byte(src), Text: fmt.Sprintf("%s <- %s, probes %d..%d", pl.name, v.name, i, j-1), Gen: "vandal"})
			}
			src := vandalProgram([]vandalPlace{pl}, v.expr, nil, true)
			out = append(out, Case{Kind: "source", Src: []byte(src), Text: fmt.Sprintf("%s <- %s, uncaught error(OBJ)", pl.name, v.name), Gen: "vandal"})
			// the probes that use functions not declared CPU-safe, without a limit
			src = vandalProgram([]vandalPlace{pl}, v.expr, vandalUnlimitedProbes, false)
			out = append(out, Case{Kind: "source", Src: []byte(src), Text: fmt.Sprintf("%s <- %s, unlimited probes", pl.name, v.name), Gen: "vandal-unlimited"})
		}
	}
	return out
}

// vandalSource is the rapid form: two places, random probes.
func vandalSource(t *rapid.T) string {
	n := rapid.IntRange(1, 2).Draw(t, "nplaces")
	var pls []vandalPlace
	for i := 0; i < n; i++ {
		pls = append(pls, vandalPlaces[rapid.IntRange(0, len(vandalPlaces)-1).Draw(t, "place")])
	}
	v := vandalValues[rapid.IntRange(0, len(vandalValues)-1).Draw(t, "value")]
	probes := rapid.SliceOfN(rapid.SampledFrom(vandalProbes), 1, 8).Draw(t, "probes")
	return vandalProgram(pls, v.expr, probes, rapid.IntRange(0, 5).Draw(t, "uncaught") == 0)
}

// superviseVandal runs the exhaustive part in children.
func superviseVandal(rec *ev.Recorder, known map[string]bool) {
	chunk := rec.Pick(40, 20)
	var mine []Case
	for i, c := range vandalCases(chunk) {
		if rec.Mine(i) {
			mine = append(mine, c)
		}
	}
	nb := cap(childSem)
	if nb > 3 {
		nb = 3
	}
	batches := make([][]Case, nb)
	for i, c := range mine {
		batches[i%nb] = append(batches[i%nb], c)
	}
	var wg sync.WaitGroup
	var mu sync.Mutex
	nviol := 0
	for _, whole := range batches {
		whole := whole
		wg.Add(1)
		go func() {
			defer wg.Done()
			// in slices, so that a tree on which many programs kill their child
			// (each costs a restart) is reported after the first few
			for len(whole) > 0 {
				mu.Lock()
				stop := nviol >= 3
				mu.Unlock()
				if stop {
					return
				}
				n := 200
				if n > len(whole) {
					n = len(whole)
				}
				b := whole[:n]
				whole = whole[n:]
				vandalSlice(rec, known, b, &mu, &nviol)
			}
		}()
	}
	wg.Wait()
}

func vandalSlice(rec *ev.Recorder, known map[string]bool, b []Case, mu *sync.Mutex, nviolp *int) {
	{
		{
			stop := func() bool {
				mu.Lock()
				defer mu.Unlock()
				return *nviolp >= 3
			}
			runCasesUntil(b, known, !rec.Thorough(), caseTimeout(rec), stop, func(i int, r caseResult) {
				mu.Lock()
				defer mu.Unlock()
				c := b[i]
				if r.inconclusive {
					rec.Discard("child-timeout")
					return
				}
				rec.Eval()
				rec.Class("vandal-program")
				cls := "died"
				if r.out != nil {
					cls = r.out.Class
				}
				rec.Class("vandal-outcome:" + cls)
				if cls == "value" || cls == "error" {
					rec.NonTrivial(c.Key())
				}
				if i%97 == 0 && r.out != nil {
					rec.Sample(map[string]any{"kind": "vandal", "what": c.Text, "outcome": cls, "rets": clip(r.out.Rets, 60), "msg": clip(r.out.Msg, 100)})
				}
				if r.msg != "" && *nviolp < 8 {
					*nviolp++
					rec.Violation("source", c, fmt.Sprintf("vandalised state (%s): %s\n--- program ---\n%s", c.Text, r.msg, string(c.Src)))
				}
			})
		}
	}
}
