package c04

import (
	"encoding/json"
	"fmt"
	"os"
	"runtime/debug"
	"sync"
	"sync/atomic"
	"syscall"
	"time"

	"verif/internal/ev"
)

// ---------------------------------------------------------------------------
// child side

type worker struct {
	job      Job
	rec      *ev.Recorder
	inflight *os.File
	seq      int
	markMap  []byte
	lastMark atomic.Int64 // unix nanos of the last in-flight mark
	ntMu     sync.Mutex
	nt       map[string]struct{}
	kf       map[string]bool
}

func (w *worker) known(id string) bool { return w.kf[id] }

// mark records the case about to be run, so that the supervisor knows what
// killed the process if it dies.
func (w *worker) mark(c Case, fn, t int) {
	w.seq++
	b, _ := json.Marshal(Inflight{Case: c, Fn: fn, T: t, Seq: w.seq})
	// the marker file is mapped into memory (MAP_SHARED): no system call per
	// case, and the kernel keeps the pages when the process dies
	if w.markMap != nil && len(b)+1 <= len(w.markMap) {
		n := copy(w.markMap, b)
		w.markMap[n] = '\n'
	} else if w.inflight != nil {
		w.inflight.WriteAt(append(b, '\n'), 0)
	}
	w.lastMark.Store(time.Now().UnixNano())
}

func (w *worker) nonTrivial(key string) {
	h := fmt.Sprintf("%016x", ev.Hash(key))
	w.ntMu.Lock()
	w.nt[h] = struct{}{}
	w.ntMu.Unlock()
}

func (w *worker) ntKeys() []string {
	w.ntMu.Lock()
	defer w.ntMu.Unlock()
	out := make([]string, 0, len(w.nt))
	for k := range w.nt {
		out = append(out, k)
	}
	return out
}

// flush writes the evidence gathered so far (cumulative).
func (w *worker) flush(done bool) {
	w.rec.Finish()
	writeResult(w.job, Result{Done: done, NT: w.ntKeys(), Partial: os.Getenv("VERIF_OUT")})
}

// watchdog ends the process when one case does not finish in time: that case
// is inconclusive, the supervisor restarts after it.
func (w *worker) watchdog() {
	limit := time.Duration(w.job.HangS) * time.Second
	if limit <= 0 {
		limit = 90 * time.Second
	}
	w.lastMark.Store(time.Now().UnixNano())
	go func() {
		for {
			time.Sleep(500 * time.Millisecond)
			if time.Since(time.Unix(0, w.lastMark.Load())) > limit {
				if w.job.Mode == "cases" {
					// the outcomes written so far stay in the result file; the
					// marker tells the supervisor that the next case hung
					os.WriteFile(w.job.Out+".hang", []byte("hang\n"), 0o644)
					os.Exit(0)
				}
				w.rec.Finish()
				writeResult(w.job, Result{Hang: true, NT: w.ntKeys(), Partial: os.Getenv("VERIF_OUT")})
				os.WriteFile(w.job.Out+".hang", []byte("hang\n"), 0o644)
				os.Exit(0)
			}
		}
	}()
}

func childMain(job Job) {
	w := &worker{job: job, nt: map[string]struct{}{}, kf: job.Known}
	if w.kf == nil {
		w.kf = map[string]bool{}
	}
	w.rec = ev.New("C04")
	f, err := os.OpenFile(job.Inflight, os.O_CREATE|os.O_RDWR, 0o644)
	if err == nil {
		w.inflight = f
		const sz = 1 << 20
		if f.Truncate(sz) == nil {
			if m, err := syscall.Mmap(int(f.Fd()), 0, sz, syscall.PROT_READ|syscall.PROT_WRITE, syscall.MAP_SHARED); err == nil {
				w.markMap = m
			}
		}
	}
	w.watchdog()
	switch job.Mode {
	case "cases":
		quickBudget = job.Quick
		var outs []Outcome
		for i := job.FromT; i < len(job.Cases); i++ {
			c := job.Cases[i]
			w.mark(c, 0, i)
			if c.MaxStack > 0 {
				debug.SetMaxStack(c.MaxStack)
			}
			t0 := time.Now()
			o := execCase(w, c)
			o.Secs = float64(time.Since(t0).Milliseconds()) / 1000
			outs = append(outs, o)
			writeResult(job, Result{Done: i == len(job.Cases)-1, Outcomes: outs})
		}
		if len(job.Cases) == job.FromT {
			writeResult(job, Result{Done: true})
		}
	case "sources":
		workSources(w)
		w.flush(true)
	case "lib":
		workLib(w)
		w.flush(true)
	default:
		panic("unknown job mode " + job.Mode)
	}
}

// execCase runs one case in this process.
func execCase(w *worker, c Case) Outcome {
	switch c.Kind {
	case "source":
		return execSourceGen(c.Src, c.Gen)
	case "lib":
		return execLibCase(w, c)
	case "limit":
		return execLimit(c)
	case "recur":
		return execRecur(c)
	}
	return Outcome{Class: "panic", Msg: "unknown case kind " + c.Kind}
}
