package c04

import (
	"bytes"
	"fmt"
	"io/fs"
	"os"
	"path/filepath"
	"regexp"
	"runtime/debug"
	"sort"
	"strconv"
	"strings"
	"sync"
	"time"

	"github.com/arnodel/golua/lib"
	rt "github.com/arnodel/golua/runtime"
	"pgregory.net/rapid"

	"verif/internal/ev"
	"verif/internal/harness"
	. "verif/internal/pbt"
)

// ---------------------------------------------------------------------------
// running one source

const (
	srcCompileCPU = 100_000_000
	srcCompileMem = 512 << 20
	srcRunCPU     = 200_000
	srcRunMem     = 64 << 20
)

// sanitize replaces functions with effects outside the process by a function
// that raises an error (random programs must not delete files or exit).
const sanitize = `
local function deny() error("denied in C04 source runs", 2) end
for _, k in ipairs{"exit", "execute", "remove", "rename", "tmpname", "setlocale"} do os[k] = deny end
for _, k in ipairs{"popen", "open", "lines", "read", "tmpfile", "input", "output", "close"} do io[k] = deny end
io.stdin, io.stdout, io.stderr = nil, nil, nil
dofile, loadfile, require = deny, deny, deny
golib = nil
package.loaded.golib = nil
package.searchpath = deny
if debug then debug.sethook = deny end
`

var srcErrPos = regexp.MustCompile(`^[^:]*:(\d+):(\d+):`)

func panicText(p any) string {
	st := string(debug.Stack())
	// keep the frames below the panic
	if i := strings.Index(st, "panic("); i >= 0 {
		st = st[i:]
	}
	if len(st) > 1800 {
		st = st[:1800] + "…"
	}
	return fmt.Sprintf("%v\n%s", p, st)
}

// compileRT is a long-lived runtime used for the compile-only steps (the
// compilers do not depend on the runtime's state); it is replaced after a panic.
var compileRT *rt.Runtime

func inCtx(r *rt.Runtime, cpu, mem uint64, f func() error) (killed bool, err error) {
	ctx, err := r.MainThread().CallContext(rt.RuntimeContextDef{
		HardLimits: rt.RuntimeResources{Cpu: cpu, Memory: mem},
	}, f)
	if ctx != nil && ctx.Status() == rt.StatusKilled {
		return true, nil
	}
	return false, err
}

// execSource compiles src with both compile entry points and, if it is an
// acceptable chunk, runs it in a fresh runtime for a bounded number of ticks.
func execSource(src []byte) Outcome { return execSourceGen(src, "") }

// sanitizeVandal: the programs of the "vandal" generator come from a fixed
// grammar (vandal_test.go) that touches nothing outside the process, so they
// keep the real require, io.write/read and package functions.
const sanitizeVandal = `
local function deny() error("denied in C04 source runs", 2) end
for _, k in ipairs{"exit", "execute", "remove", "rename", "tmpname", "setlocale"} do os[k] = deny end
for _, k in ipairs{"popen", "open", "tmpfile"} do io[k] = deny end
dofile, loadfile = deny, deny
golib = nil
package.loaded.golib = nil
if debug then debug.sethook = deny end
`

func execSourceGen(src []byte, gen string) (o Outcome) {
	stage := "setup"
	defer func() {
		if p := recover(); p != nil {
			compileRT = nil
			o = Outcome{Class: "panic", Msg: "during " + stage + ": " + panicText(p), NonTrivial: true}
		}
	}()
	if compileRT == nil {
		compileRT = rt.New(&bytes.Buffer{})
	}
	cr := compileRT

	// 1. chunk-or-expression entry point (used by the REPL)
	stage = "CompileLuaChunkOrExp"
	orexp := "ok"
	killed, err := inCtx(cr, srcCompileCPU, srcCompileMem, func() error {
		_, _, err := cr.CompileLuaChunkOrExp("chunk", src)
		return err
	})
	if killed {
		orexp = "killed"
	} else if err != nil {
		orexp = "error"
	}
	o.Note = "orexp=" + orexp

	// 2. chunk entry point
	stage = "CompileLuaChunk"
	killed, err = inCtx(cr, srcCompileCPU, srcCompileMem, func() error {
		_, _, err := cr.CompileLuaChunk("chunk", src)
		return err
	})
	if killed {
		return Outcome{Class: "killed", Msg: "while compiling", NonTrivial: true, Note: o.Note}
	}
	if err != nil {
		msg := err.Error()
		return Outcome{Class: "compile-error", Msg: clip(msg, 300), NonTrivial: pastFirstToken(src, msg), Note: o.Note}
	}

	// 3. accepted: load and run it in a fresh runtime
	stage = "setup of the run"
	stdout := &bytes.Buffer{}
	r := rt.New(stdout)
	cleanup := lib.LoadAll(r)
	defer func() {
		stage = "Runtime.Close"
		cleanup()
		var err error
		r.Close(&err)
	}()
	env := rt.TableValue(r.GlobalEnv())
	prelude := sanitize
	if strings.HasPrefix(gen, "vandal") {
		prelude = sanitizeVandal
	}
	if clos, err := r.CompileAndLoadLuaChunk("sanitize", []byte(prelude), env); err != nil {
		panic("sanitize prelude: " + err.Error())
	} else if err := rt.Call(r.MainThread(), rt.FunctionValue(clos), nil, rt.NewTerminationWith(nil, 0, false)); err != nil {
		panic("sanitize prelude: " + err.Error())
	}
	stage = "CompileAndLoadLuaChunk"
	var clos *rt.Closure
	killed, err = inCtx(r, srcCompileCPU, srcCompileMem, func() error {
		var err error
		clos, err = r.CompileAndLoadLuaChunk("chunk", src, env)
		return err
	})
	if killed || err != nil {
		return Outcome{Class: "compile-error", Msg: "second compilation failed: " + fmt.Sprint(err), NonTrivial: true, Note: o.Note}
	}
	stage = "run"
	term := rt.NewTerminationWith(nil, 0, true)
	if strings.HasPrefix(gen, "vandal-unlimited") {
		// functions that are not declared CPU-safe (require, io, os, debug ...)
		// refuse to run under a limit: these fixed-grammar programs run without
		// one (the child's watchdog bounds them)
		killed, err = false, rt.Call(r.MainThread(), rt.FunctionValue(clos), nil, term)
	} else {
		killed, err = inCtx(r, srcRunCPU, srcRunMem, func() error {
			return rt.Call(r.MainThread(), rt.FunctionValue(clos), nil, term)
		})
	}
	o.NonTrivial = true
	switch {
	case killed:
		o.Class = "killed"
	case err != nil:
		o.Class = "error"
		o.Msg = clip(err.Error(), 300)
	default:
		o.Class = "value"
		o.Rets = clip(harness.NewCanon().EncValues(term.Etc()), 300)
	}
	return o
}

func clip(s string, n int) string {
	if len(s) > n {
		return s[:n] + "…"
	}
	return s
}

// pastFirstToken decides the non-trivial rule for a rejected source: the
// error carries a position after the first non-blank byte, or no position at
// all (raised after parsing).
func pastFirstToken(src []byte, msg string) bool {
	m := srcErrPos.FindStringSubmatch(msg)
	if m == nil {
		return true
	}
	el, _ := strconv.Atoi(m[1])
	ec, _ := strconv.Atoi(m[2])
	line, col := 1, 1
scan:
	for _, b := range src {
		switch b {
		case '\n':
			line++
			col = 1
		case ' ', '\t', '\r', '\v', '\f':
			col++
		default:
			break scan
		}
	}
	return el > line || (el == line && ec > col)
}

// ---------------------------------------------------------------------------
// seeds: the Lua files of the repository

func repoDir() string {
	b, err := os.ReadFile(filepath.Join(ev.VerifDir(), "go.mod"))
	if err == nil {
		for _, l := range strings.Split(string(b), "\n") {
			l = strings.TrimSpace(l)
			if strings.HasPrefix(l, "replace github.com/arnodel/golua =>") {
				return strings.TrimSpace(strings.TrimPrefix(l, "replace github.com/arnodel/golua =>"))
			}
		}
	}
	return "/repo"
}

var (
	seedOnce sync.Once
	seedSrc  []string
	seedToks [][]string
)

func loadSeeds() {
	seedOnce.Do(func() {
		var names []string
		filepath.WalkDir(repoDir(), func(p string, d fs.DirEntry, err error) error {
			if err != nil {
				return nil
			}
			if d.IsDir() && d.Name() == ".git" {
				return filepath.SkipDir
			}
			if !d.IsDir() && strings.HasSuffix(p, ".lua") {
				names = append(names, p)
			}
			return nil
		})
		sort.Strings(names)
		for _, n := range names {
			b, err := os.ReadFile(n)
			if err != nil || len(b) == 0 || len(b) > 60_000 {
				continue
			}
			seedSrc = append(seedSrc, string(b))
		}
		if len(seedSrc) == 0 {
			seedSrc = []string{"local t = {1, 2, 3}\nfor i, v in ipairs(t) do print(i, v) end\nreturn #t\n"}
		}
		for _, s := range seedSrc {
			seedToks = append(seedToks, lexLua(s))
		}
	})
}

// lexLua splits Lua source into tokens and trivia (blank runs, comments); it
// is only used to find places to corrupt, so it is approximate on purpose.
func lexLua(s string) []string {
	var out []string
	i := 0
	isAl := func(c byte) bool { return c == '_' || c >= 'a' && c <= 'z' || c >= 'A' && c <= 'Z' || c >= 0x80 }
	isDig := func(c byte) bool { return c >= '0' && c <= '9' }
	longBracket := func(j int) int { // s[j]=='[': returns end index of a long bracket or -1
		k := j + 1
		for k < len(s) && s[k] == '=' {
			k++
		}
		if k >= len(s) || s[k] != '[' {
			return -1
		}
		closer := "]" + strings.Repeat("=", k-j-1) + "]"
		e := strings.Index(s[k+1:], closer)
		if e < 0 {
			return len(s)
		}
		return k + 1 + e + len(closer)
	}
	for i < len(s) {
		c := s[i]
		j := i
		switch {
		case c == ' ' || c == '\t' || c == '\n' || c == '\r' || c == '\v' || c == '\f':
			for j < len(s) && (s[j] == ' ' || s[j] == '\t' || s[j] == '\n' || s[j] == '\r' || s[j] == '\v' || s[j] == '\f') {
				j++
			}
		case c == '-' && i+1 < len(s) && s[i+1] == '-':
			if i+2 < len(s) && s[i+2] == '[' {
				if e := longBracket(i + 2); e >= 0 {
					j = e
					break
				}
			}
			for j < len(s) && s[j] != '\n' {
				j++
			}
		case c == '[' && longBracket(i) >= 0:
			j = longBracket(i)
		case c == '"' || c == '\'':
			j++
			for j < len(s) && s[j] != c && s[j] != '\n' {
				if s[j] == '\\' {
					j++
				}
				j++
			}
			if j < len(s) {
				j++
			}
			if j > len(s) {
				j = len(s)
			}
		case isAl(c):
			for j < len(s) && (isAl(s[j]) || isDig(s[j])) {
				j++
			}
		case isDig(c) || (c == '.' && i+1 < len(s) && isDig(s[i+1])):
			for j < len(s) {
				d := s[j]
				if isDig(d) || isAl(d) || d == '.' {
					j++
				} else if (d == '+' || d == '-') && j > i && strings.IndexByte("eEpP", s[j-1]) >= 0 {
					j++
				} else {
					break
				}
			}
		default:
			j++
			for _, op := range []string{"...", "<<", ">>", "//", "==", "~=", "<=", ">=", "::", ".."} {
				if strings.HasPrefix(s[i:], op) {
					j = i + len(op)
					break
				}
			}
		}
		out = append(out, s[i:j])
		i = j
	}
	return out
}

func isTrivia(tok string) bool {
	if tok == "" {
		return true
	}
	switch tok[0] {
	case ' ', '\t', '\n', '\r', '\v', '\f':
		return true
	}
	return strings.HasPrefix(tok, "--")
}

// ---------------------------------------------------------------------------
// generators

var luaAlphabet = []string{
	"and", "break", "do", "else", "elseif", "end", "false", "for", "function", "goto", "if", "in",
	"local", "nil", "not", "or", "repeat", "return", "then", "true", "until", "while",
	"+", "-", "*", "/", "%", "^", "#", "&", "~", "|", "<<", ">>", "//", "==", "~=", "<=", ">=", "<", ">", "=",
	"(", ")", "{", "}", "[", "]", "::", ";", ":", ",", ".", "..", "...",
	"a", "b", "x", "_ENV", "_G", "f", "t", "self", "print", "string", "math", "pcall", "error", "setmetatable", "coroutine",
	"0", "1", "2", "0.5", "1e3", "0x10", "0xA.8p1", "3", "255", "256", "9007199254740993", "9223372036854775807",
	`""`, `"a"`, `'b'`, `"\n"`, `"%d"`, "[[x]]", "[=[y]=]", `"\65\066"`, `"\x41"`, `"\u{48}"`, `"\z  a"`,
	"<const>", "<close>", "::l::", "goto l", "-- c\n", "--[[ c ]]", "\n", "\n",
	"function() end", "function(...) return ... end", "{1,2,3}", "{a=1}", "t[1]", "t.x", "f()", "a.b:c(1)", "local a <const> = 1",
	"for i=1,3 do", "for k,v in pairs(t) do", "while true do", "repeat", "until x", "if x then", "return f(...)",
}

var hostile = func() []string {
	d300 := strings.Repeat("1234567890", 30)
	return []string{
		"[[", "[==[", "[=[ x", "[===[ x ]==]", "[=[ x ]] ]==]", "--[[", "--[==[ x", "--[=[ x ]]",
		"[[]]", "[==[]==]", "[=[]=]", "[===[]===]", "[[\n]]", "[[\r\n]]", "[[\n\r]]", "[==[\n]==]", "[[]", "[=]", "[=",
		`"\u{7FFFFFFF}"`, `"\u{80000000}"`, `"\u{FFFFFFFFFF}"`, `"\u{}"`, `"\u{110000}"`, `"\u{D800}"`, `"\u{10FFFF}"`, `"\u{0}"`, `"\u{`, `"\u{41"`, `"\u41"`, `"\u{ 41}"`,
		`"\256"`, `"\300"`, `"\999"`, `"\255"`, `"\0"`, `"\00a"`, `"\2555"`,
		`"\x4"`, `"\xZZ"`, `"\x"`, `"\xfF"`, `"\q"`, `"\`, `"\z`, "\"\\z  \n  a\"", "\"\\\n\"", "\"\\\r\n\"", "\"\\\r\"", "\"a\nb\"", `"abc`, `'`, `"`, `'\''`, `"\\"`,
		d300, d300 + "." + d300, "0x" + strings.Repeat("abcdef0123", 30), "." + d300, d300 + "e" + d300, "0x" + d300 + "p" + d300,
		"1e99999", "1e-99999", "0x1p99999", "0x1p-99999", "0x.p1", "0x", "0xp", "0x.", "1e", "1e+", "1e-", "3..2", "1..", "1...", "0x1.8p+", ".5e", "1e1e1", "1.2.3", "0x1pp", "0xep1", "08", "0b1", "1_000", "1f", "0x1g", "1e5.5",
		"9223372036854775807", "9223372036854775808", "-9223372036854775808", "0xffffffffffffffffff", "0x7fffffffffffffff", "1e308", "1e309", "5e-324", "2.5e-324", "0x1p-1075",
		"\x00", "\x00\x00", "\xff\xfe", "\xc0\x80", "\xed\xa0\x80", "\xf8\x88\x80\x80\x80", "\xef\xbb\xbf", "\xef\xbb", "#!shebang\n", "#", "\x1b", "\x7f",
		"::", "::a::", "::a", "goto", "goto a", "goto 1", "<const>", "<close>", "<foo>", "<", "local x <const>", "local x <close> = nil", "...", "//", ">>", "<<", "~", "~=", "\\", "`", "$", "@", "?", "!", "!=", "&&", "||", "+=", "->",
		"\r", "\n\r", "\r\n", "\v", "\f", "\r\r", "\n\n\n",
		"break", "return", "return return", "end", "end end end", "until", "else", "elseif", "then", "do", "in", "function", "function f", "local function", "local", "=", ",", ";;", "(", ")", "((", "))", "{", "}", "{{", "[", "]", "[[[", "a.", "a:", "a:b", ":b()", "..", "a..", "not", "- -", "--", "---", "--[", "--[=",
		"f{}", "f''", `f""`, "f[[]]", "f[[x]]", "a.b.c.d", "a[b][c]", "(a)()", "('')", "{} {}", "{;}", "{,}", "{1,}", "{[1]=1, 2; x=3}", "{...}", "{f()}", "{(f())}",
		"function(a, ...) end", "function(..., a) end", "function(a a) end", "function(a,) end", "function f.g.h:i() end", "function f:g.h() end",
		"for i=1 do end", "for i=1,2,3,4 do end", "for a,b,c,d,e in f do end", "for in x do end", "for i do end", "for 1=1,2 do end",
		"x, y = 1", "x, y.z, w[1] = f()", "(x) = 1", "f() = 1", "x = = 1", "local x, y <const>, z <close> = 1", "local function f.g() end", "local x.y = 1",
	}
}()

var luaKeywords = map[string]bool{"and": true, "break": true, "do": true, "else": true, "elseif": true, "end": true, "false": true, "for": true, "function": true, "goto": true, "if": true, "in": true,
	"local": true, "nil": true, "not": true, "or": true, "repeat": true, "return": true, "then": true, "true": true, "until": true, "while": true}

var binops = []string{"+", "-", "*", "/", "//", "%", "^", "..", "<<", ">>", "&", "|", "~", "==", "~=", "<", "<=", ">", ">=", "and", "or"}

var numberLits = []string{"0", "1", "-1", "2", "255", "256", "0.5", "1e308", "1e309", "5e-324", "0x7fffffffffffffff", "0xffffffffffffffff", "9223372036854775807", "9223372036854775808", "0x1p-1074", "0x1p1023", "0x1p1024",
	"1e99999", "0x.1p4", "3.0", "2^53", "(0/0)", "(1/0)", "(-1/0)", "math.mininteger", "math.maxinteger", "(-0.0)", "1e15", "1e16", "123456789012345678901234567890", strings.Repeat("9", 310), "0x" + strings.Repeat("f", 40), "1e-400", "0xA", "1E2", "0x1P2", ".5", "5."}

var stringLits = []string{`""`, `"a"`, `"%"`, `"%d"`, `"%s%s"`, `"[a"`, `"%1"`, `"\0"`, `"\255"`, `"\u{10FFFF}"`, `"\u{7FFFFFFF}"`, `"\xff\xfe"`, "[[]]", "[==[]==]", "[[\n]]", "[=[\n\nx]=]", `"\z   x"`, `'\''`, `"10"`, `"0x10"`, `" 5 "`, `"1e1"`, `"nan"`, `"inf"`,
	`"__index"`, `"__gc"`, `"__close"`, `"__mode"`, `"k"`, `"n"`, `"a.b"`, `"?"`, `("x"):rep(1000)`, `("x"):rep(100000)`, `"*a"`, `"r"`, `"\\"`, `"\n"`, `"\r\n"`}

func tokKind(tok string) string {
	if tok == "" {
		return "other"
	}
	c := tok[0]
	switch {
	case c >= '0' && c <= '9', c == '.' && len(tok) > 1 && tok[1] >= '0' && tok[1] <= '9':
		return "number"
	case c == '"' || c == '\'', c == '[' && len(tok) > 1 && (tok[1] == '[' || tok[1] == '='):
		return "string"
	case c == '_' || c >= 'a' && c <= 'z' || c >= 'A' && c <= 'Z':
		if tok == "and" || tok == "or" {
			return "binop"
		}
		if luaKeywords[tok] {
			return "keyword"
		}
		return "name"
	}
	for _, b := range binops {
		if tok == b {
			return "binop"
		}
	}
	return "other"
}

func drawPos(t *rapid.T, n int, label string) int {
	if n <= 0 {
		return 0
	}
	return rapid.IntRange(0, n-1).Draw(t, label)
}

// mutateTokens applies one structure-aware corruption.
func mutateTokens(t *rapid.T, toks []string, other []string) ([]string, string) {
	// indexes of real tokens
	var idx []int
	for i, tk := range toks {
		if !isTrivia(tk) {
			idx = append(idx, i)
		}
	}
	if len(idx) == 0 {
		return append(toks, rapid.SampledFrom(hostile).Draw(t, "hostile")), "insert-hostile"
	}
	op := rapid.SampledFrom([]string{"delete", "duplicate", "swap", "truncate", "splice", "insert-hostile", "replace-hostile", "replace-token", "delete-range",
		"same-kind", "same-kind", "same-kind", "same-kind", "same-kind", "swap-same-kind", "swap-same-kind"}).Draw(t, "op")
	out := append([]string{}, toks...)
	p := idx[drawPos(t, len(idx), "pos")]
	switch op {
	case "delete":
		out = append(out[:p], out[p+1:]...)
	case "duplicate":
		out = append(out[:p+1], append([]string{" ", toks[p]}, out[p+1:]...)...)
	case "swap":
		q := idx[drawPos(t, len(idx), "pos2")]
		out[p], out[q] = out[q], out[p]
	case "truncate":
		out = out[:p]
	case "delete-range":
		q := idx[drawPos(t, len(idx), "pos2")]
		if q < p {
			p, q = q, p
		}
		out = append(out[:p], out[q:]...)
	case "splice":
		var oidx []int
		for i, tk := range other {
			if !isTrivia(tk) {
				oidx = append(oidx, i)
			}
		}
		if len(oidx) > 0 {
			q := oidx[drawPos(t, len(oidx), "pos2")]
			out = append(out[:p], append([]string{" "}, other[q:]...)...)
		}
	case "insert-hostile":
		h := rapid.SampledFrom(hostile).Draw(t, "hostile")
		sep := rapid.SampledFrom([]string{" ", "", "\n"}).Draw(t, "sep")
		out = append(out[:p], append([]string{h, sep}, out[p:]...)...)
	case "replace-hostile":
		out[p] = rapid.SampledFrom(hostile).Draw(t, "hostile")
	case "replace-token":
		out[p] = rapid.SampledFrom(luaAlphabet).Draw(t, "tok")
	case "same-kind":
		// keep the program syntactically plausible: a literal becomes another
		// (hostile) literal, an operator another operator, a name another name
		switch k := tokKind(toks[p]); k {
		case "number":
			out[p] = rapid.SampledFrom(numberLits).Draw(t, "num")
		case "string":
			out[p] = rapid.SampledFrom(stringLits).Draw(t, "str")
		case "binop":
			out[p] = rapid.SampledFrom(binops).Draw(t, "binop")
		case "name":
			q := idx[drawPos(t, len(idx), "pos2")]
			if tokKind(toks[q]) == "name" {
				out[p] = toks[q]
			} else {
				out[p] = rapid.SampledFrom([]string{"nil", "true", "_ENV", "x", "math.huge", "(0/0)", "math.mininteger", "{}", "(function(...) return ... end)"}).Draw(t, "name")
			}
		default:
			out[p] = rapid.SampledFrom(luaAlphabet).Draw(t, "tok")
		}
	case "swap-same-kind":
		k := tokKind(toks[p])
		var same []int
		for _, q := range idx {
			if q != p && tokKind(toks[q]) == k {
				same = append(same, q)
			}
		}
		if len(same) > 0 {
			q := same[drawPos(t, len(same), "pos2")]
			out[p], out[q] = out[q], out[p]
		}
	}
	return out, op
}

// mutateBenign applies one kind-preserving replacement.
func mutateBenign(t *rapid.T, toks []string) ([]string, string) {
	var idx []int
	for i, tk := range toks {
		switch tokKind(tk) {
		case "number", "string", "binop", "name":
			if !isTrivia(tk) {
				idx = append(idx, i)
			}
		}
	}
	if len(idx) == 0 {
		return toks, "none"
	}
	out := append([]string{}, toks...)
	p := idx[drawPos(t, len(idx), "pos")]
	k := tokKind(toks[p])
	switch k {
	case "number":
		out[p] = rapid.SampledFrom(numberLits).Draw(t, "num")
	case "string":
		out[p] = rapid.SampledFrom(stringLits).Draw(t, "str")
	case "binop":
		out[p] = rapid.SampledFrom(binops).Draw(t, "binop")
	default:
		q := idx[drawPos(t, len(idx), "pos2")]
		if tokKind(toks[q]) == "name" {
			out[p] = toks[q]
		} else {
			out[p] = rapid.SampledFrom([]string{"nil", "true", "_ENV", "x", "math.huge", "(0/0)", "math.mininteger", "{}", "(function(...) return ... end)"}).Draw(t, "name")
		}
	}
	return out, "benign-" + k
}

// mutateBytes applies one byte-level corruption.
func mutateBytes(t *rapid.T, s string) (string, string) {
	op := rapid.SampledFrom([]string{"nul", "bad-utf8", "crlf", "cut", "byte-flip"}).Draw(t, "bop")
	if len(s) == 0 {
		return s, op
	}
	p := drawPos(t, len(s)+1, "bpos")
	switch op {
	case "nul":
		return s[:p] + "\x00" + s[p:], op
	case "bad-utf8":
		bad := rapid.SampledFrom([]string{"\xff", "\xc0\x80", "\xed\xa0\x80", "\xf4\x90\x80\x80", "\x80", "\xe2\x82"}).Draw(t, "bad")
		return s[:p] + bad + s[p:], op
	case "crlf":
		styles := rapid.SliceOfN(rapid.SampledFrom([]string{"\r\n", "\r", "\n\r", "\n", "\r\r\n"}), 1, 4).Draw(t, "eol")
		var sb strings.Builder
		k := 0
		for i := 0; i < len(s); i++ {
			if s[i] == '\n' {
				sb.WriteString(styles[k%len(styles)])
				k++
			} else {
				sb.WriteByte(s[i])
			}
		}
		return sb.String(), op
	case "cut":
		return s[:p], op
	default:
		if p >= len(s) {
			p = len(s) - 1
		}
		b := rapid.Byte().Draw(t, "byte")
		return s[:p] + string([]byte{b}) + s[p+1:], op
	}
}

// genSource draws one source case.
func genSource(t *rapid.T) Case {
	loadSeeds()
	gen := rapid.SampledFrom([]string{"bytes", "soup", "hostile-soup", "mutate", "mutate", "mutate-window", "mutate-benign", "mutate-benign", "mutate-benign", "mutate-benign", "directive-soup", "directive-soup", "directive-soup", "vandal", "vandal", "vandal"}).Draw(t, "gen")
	var src string
	switch gen {
	case "vandal":
		src = vandalSource(t)
	case "directive-soup":
		var lang string
		src, lang = directiveSoup(t)
		gen += "(" + lang + ")"
	case "bytes":
		prefix := rapid.SampledFrom([]string{"", "", "return ", "x=", "local a = ", "--", "f(", "return '", "return [[", "return 0x", "x = \"\\"}).Draw(t, "prefix")
		src = prefix + string(rapid.SliceOfN(rapid.Byte(), 0, 80).Draw(t, "bytes"))
	case "soup", "hostile-soup":
		alpha := luaAlphabet
		if gen == "hostile-soup" {
			alpha = append(append([]string{}, luaAlphabet...), hostile...)
		}
		toks := rapid.SliceOfN(rapid.SampledFrom(alpha), 1, 40).Draw(t, "toks")
		sep := rapid.SampledFrom([]string{" ", " ", "\n", "", "\t", "\r\n"}).Draw(t, "sep")
		src = strings.Join(toks, sep)
	default:
		si := rapid.IntRange(0, len(seedToks)-1).Draw(t, "seed")
		toks := seedToks[si]
		if gen == "mutate-window" && len(toks) > 40 {
			a := drawPos(t, len(toks)-20, "wstart")
			n := rapid.IntRange(20, 300).Draw(t, "wlen")
			if a+n > len(toks) {
				n = len(toks) - a
			}
			toks = toks[a : a+n]
		}
		other := seedToks[rapid.IntRange(0, len(seedToks)-1).Draw(t, "seed2")]
		nmut := rapid.IntRange(1, 4).Draw(t, "nmut")
		var ops []string
		for i := 0; i < nmut; i++ {
			if gen == "mutate-benign" {
				// literal-for-literal, operator-for-operator, name-for-name: the
				// result usually still compiles, so that it is also RUN
				var op string
				toks, op = mutateBenign(t, toks)
				ops = append(ops, op)
			} else if rapid.IntRange(0, 3).Draw(t, "level") == 0 {
				s, op := mutateBytes(t, strings.Join(toks, ""))
				toks = lexLua(s)
				ops = append(ops, op)
			} else {
				var op string
				toks, op = mutateTokens(t, toks, other)
				ops = append(ops, op)
			}
		}
		src = strings.Join(toks, "")
		gen += "(" + strings.Join(ops, ",") + ")"
	}
	if len(src) > 100_000 {
		src = src[:100_000]
	}
	// never hand a binary chunk signature to anything (text chunks only)
	if rt.HasMarshalPrefix([]byte(src)) {
		src = " " + src
	}
	return Case{Kind: "source", Src: []byte(src), Text: clip(strconv.Quote(src), 400), Gen: gen}
}

// Directive soups: programs that hand token concatenations of the string
// library's little languages (patterns, gsub replacements, format, pack and
// date directives) to the functions that interpret them, all under pcall.
var (
	patTokens  = []string{"a", "b", ".", "%a", "%d", "%s", "%w", "%A", "[ab]", "[^a]", "[a-c]", "[%a_]", "[]]", "[^]]", "()", "(", ")", "%1", "%2", "%3", "%0", "%b()", "%bxy", "%f[a]", "%f[^%z]", "*", "+", "-", "?", "^", "$", "%", "%%", "[", "]", "%(", "\\x00", "x", " "}
	subjTokens = []string{"a", "b", "ab", "(", ")", "()", " ", "x", "aa", "\\x00", "1", "_", "%", "xy", "ba"}
	replTokens = []string{"%0", "%1", "%2", "%9", "%%", "x", "%", "%a", " "}
	fmtTokens  = []string{"%", "%", "d", "s", "q", "c", "x", "a", "g", "f", "i", "u", "5", ".", "3", "-", "+", " ", "#", "0", "99", "%%", "e", "o", "p", "X", "G", "E", "A", "l", "*", "$", "z"}
	packTokens = []string{"i", "I", "1", "2", "3", "4", "8", "9", "16", "17", "0", "<", ">", "=", "!", "z", "s", "c", "x", "X", "j", "J", "T", "f", "d", "n", "b", "B", "h", "H", "l", "L", " ", "-", "r"}
	dateTokens = []string{"%", "%", "E", "O", "a", "A", "c", "d", "Y", "y", "x", "X", "*t", "!", "z", "Z", "5", "-", "\\x00", "H", "M", "S", "p", "j", "U", "%%", "G", "s"}
	soupArgs   = []string{"1", "-1", "0", "1.5", "'s'", "nil", "{}", "math.huge", "math.mininteger", "math.maxinteger", "'10'", "-0.0", "0/0", "true", "'\\0'", "2^53", "255", "256", "-129"}
)

func soupOf(t *rapid.T, toks []string, max int, label string) string {
	return strings.Join(rapid.SliceOfN(rapid.SampledFrom(toks), 0, max).Draw(t, label), "")
}

func directiveSoup(t *rapid.T) (src, lang string) {
	lang = rapid.SampledFrom([]string{"pattern", "pattern", "pattern", "format", "pack", "date"}).Draw(t, "lang")
	q := func(s string) string { return `"` + s + `"` } // tokens are already Lua-escaped
	args := func(n int) string {
		return strings.Join(rapid.SliceOfN(rapid.SampledFrom(soupArgs), 0, n).Draw(t, "args"), ", ")
	}
	var sb strings.Builder
	switch lang {
	case "pattern":
		fmt.Fprintf(&sb, "local s, p, r = %s, %s, %s\n", q(soupOf(t, subjTokens, 6, "subj")), q(soupOf(t, patTokens, 7, "pat")), q(soupOf(t, replTokens, 3, "repl")))
		fmt.Fprintf(&sb, "local i = %d\n", rapid.IntRange(-3, 8).Draw(t, "init"))
		sb.WriteString("local out = {}\n")
		sb.WriteString("out[1] = {pcall(string.find, s, p)}\n")
		sb.WriteString("out[2] = {pcall(string.find, s, p, i)}\n")
		sb.WriteString("out[3] = {pcall(string.match, s, p, i)}\n")
		sb.WriteString("out[4] = {pcall(function() local n = 0 for a, b in string.gmatch(s, p) do n = n + 1 if n > 20 then break end end return n end)}\n")
		sb.WriteString("out[5] = {pcall(string.gsub, s, p, r)}\n")
		sb.WriteString("out[6] = {pcall(string.gsub, s, p, function(...) return (...) end, 3)}\n")
		sb.WriteString("out[7] = {pcall(string.gsub, s, p, {a = 'A', [''] = 1, ab = false})}\n")
		sb.WriteString("return #out\n")
	case "format":
		fmt.Fprintf(&sb, "return pcall(string.format, %s", q(soupOf(t, fmtTokens, 8, "fmt")))
		if a := args(4); a != "" {
			sb.WriteString(", " + a)
		}
		sb.WriteString(")\n")
	case "pack":
		f := q(soupOf(t, packTokens, 8, "fmt"))
		fmt.Fprintf(&sb, "local f = %s\nlocal out = {}\n", f)
		fmt.Fprintf(&sb, "out[1] = {pcall(string.packsize, f)}\n")
		a := args(4)
		if a != "" {
			a = ", " + a
		}
		fmt.Fprintf(&sb, "out[2] = {pcall(string.pack, f%s)}\n", a)
		fmt.Fprintf(&sb, "out[3] = {pcall(string.unpack, f, %s, %d)}\n", q(soupOf(t, []string{"\\x00", "\\xff", "\\x01", "a", "\\x80", "\\x03"}, 24, "data")), rapid.IntRange(-2, 6).Draw(t, "pos"))
		sb.WriteString("if out[2][1] and type(out[2][2]) == 'string' then out[4] = {pcall(string.unpack, f, out[2][2])} end\n")
		sb.WriteString("return #out\n")
	case "date":
		fmt.Fprintf(&sb, "return pcall(os.date, %s, %s)\n", q(soupOf(t, dateTokens, 8, "fmt")), rapid.SampledFrom([]string{"0", "1", "-1", "86400 * 366", "1 << 40", "-(1 << 40)", "1e15", "nil"}).Draw(t, "time"))
	}
	return sb.String(), lang
}

// kfSourceFormat: input class of the open string.format findings, for whole
// programs: the text mentions format and a '%'.
func kfSourceFormat(src []byte) bool {
	return bytes.Contains(src, []byte("format")) && bytes.Contains(src, []byte("%"))
}

// sourceExcluded: input classes of the open findings for whole programs, by
// what the program text mentions.
func sourceExcluded(known func(string) bool, src []byte) string {
	has := func(s string) bool { return bytes.Contains(src, []byte(s)) }
	switch {
	case (known(kfFormatTrunc) || known(kfFormatP)) && kfSourceFormat(src):
		return kfFormatTrunc + "/" + kfFormatP + "(program text has 'format' and '%')"
	case known(kfGCContexts) && has("__gc") && has("callcontext"):
		return kfGCContexts + "(program text has '__gc' and 'callcontext')"
	case known(kfUnpackLen) && (has("string.unpack") || has(":unpack")):
		return kfUnpackLen + "(program text has string.unpack)"
	case known(kfMatchInit) && (has("match")):
		return kfMatchInit + "(program text has 'match')"
	}
	return ""
}

func sourceProp(w *worker) func(t *rapid.T) {
	return func(t *rapid.T) {
		c := genSource(t)
		if why := sourceExcluded(w.known, c.Src); why != "" {
			w.rec.Discard("excluded-by-finding:" + why)
			return
		}
		w.mark(c, 0, 0)
		o := execSourceGen(c.Src, c.Gen)
		w.rec.Eval()
		g := c.Gen
		if i := strings.IndexByte(g, '('); i >= 0 {
			g = g[:i]
		}
		w.rec.Class("source-gen:" + g)
		w.rec.Class("source-outcome:" + o.Class)
		w.rec.Class("source-" + o.Note)
		if o.NonTrivial {
			w.nonTrivial(c.Key())
			w.rec.Class("source-nontrivial")
		}
		w.rec.Sample(map[string]any{"kind": "source", "gen": c.Gen, "text": clip(c.Text, 200), "outcome": o.Class, "msg": clip(o.Msg, 120)})
		if o.Class == "panic" {
			FailCase(t, "source", c, "Go panic reached the host for source %s: %s", clip(c.Text, 300), o.Msg)
		}
	}
}

func workSources(w *worker) {
	loadSeeds()
	RunRapid(w.rec, fmt.Sprintf("sources-%d", w.job.Stream), w.job.Checks, w.job.Stream, sourceProp(w))
}

// superviseSources runs the source generator in worker children.
func superviseSources(rec *ev.Recorder, known map[string]bool) {
	total := rec.Pick(20_000, 16*50_000) / rec.NShards()
	per := 5_000
	stream := 100
	fatal := 0
	for done := 0; done < total && fatal < 3; {
		n := per
		if total-done < n {
			n = total - done
		}
		x := runChild(Job{Mode: "sources", Stream: stream, Checks: n, Known: known, HangS: 90}, 40*time.Minute)
		stream++
		done += n
		fmt.Printf("sources worker: %d cases in %.1fs\n", n, x.wall.Seconds())
		mergePartial(rec, x.res)
		switch {
		case x.timeout || x.hang:
			rec.Discard("child-timeout")
			if x.inflight != nil {
				fmt.Printf("sources: a case did not finish in time (inconclusive): %s\n", clip(x.inflight.Case.Text, 300))
			}
		case x.fatal != "":
			fatal++
			if x.inflight != nil {
				// confirm in a fresh child (the worker has run thousands of cases)
				c := x.inflight.Case
				if r := runCaseChild(c, known, false, 4*time.Minute); r.msg != "" {
					rec.Violation("source", c, "source "+clip(c.Text, 300)+": "+r.msg)
				} else {
					fatal--
					rec.Discard("worker-death-not-reproduced-in-a-fresh-child")
					fmt.Printf("sources: worker died but the case is fine in a fresh child: %s\n", clip(x.fatal, 200))
				}
			} else {
				rec.Violation("source", Case{Kind: "source"}, "sources worker died before its first case: "+x.fatal)
			}
		}
	}
}
