package c08

import (
	"fmt"
	"strings"
)

// Repeated refusals: "calling any Go function that has not declared all of
// them fails with an ordinary Lua error ... and the context keeps running". A
// refusal must leave nothing behind: the N-th refused call in one thread of
// one runtime is answered exactly like the first, other functions still work
// inside the context, and after the context has ended the host thread can
// call Go functions as before. (Every other section uses a fresh runtime per
// case, so state that builds up over many refusals would not show there.)

type repeatCase struct {
	Flags string `json:"flags"`
	Call  string `json:"call"`  // a call that is refused under Flags
	Probe string `json:"probe"` // a call that is allowed under Flags and returns a value
	N     int    `json:"n"`
	InCo  bool   `json:"in_coroutine"`
}

var repeatCases = []struct{ flags, call, probe string }{
	{"iosafe", `io.open(S .. "/exist.txt")`, `string.rep("x", 3)`},
	{"iosafe", `dofile(S .. "/mod.lua")`, `select("#", 1, 2, 3)`},
	{"iosafe", `require("mod")`, `math.max(1, 2)`},
	{"cpusafe", `collectgarbage("count")`, `string.rep("x", 3)`},
	{"memsafe", `collectgarbage("count")`, `tostring(12)`},
	{"timesafe", `io.write("")`, `string.len("abc")`},
	{"iosafe cpusafe memsafe timesafe", `collectgarbage("count")`, `math.abs(-3)`},
	{"iosafe", `loadfile(S .. "/mod.lua")`, `table.concat({"a", "b"})`},
}

func repeatProgram(c repeatCase) string {
	body := fmt.Sprintf(`
  local first
  for i = 1, %d do
    local ok, e = pcall(function() return %s end)
    local sig = tostring(ok) .. "|" .. tostring(e)
    if i == 1 then first = sig emit("first", sig)
    elseif sig ~= first then emit("refusal-differs", i, sig) return end
  end
  emit("refusals-stable")
  emit("probe-inside", pcall(function() return %s end))
`, c.N, c.Call, c.Probe)
	run := "local function run()" + body + "end\n"
	inner := "run()"
	if c.InCo {
		inner = `local co = coroutine.wrap(function() run() coroutine.yield("mid") run() end) emit("co", co()) emit("co", co())`
	}
	return "local S, G = ...\npackage.path = S .. '/?.lua'\n" + run +
		fmt.Sprintf("local ctx, cerr = runtime.callcontext({flags = %q}, function() %s end)\n", c.Flags, inner) +
		"emit('ctx', ctx.status, cerr)\n" +
		fmt.Sprintf("emit('probe-after', pcall(function() return %s end))\n", c.Probe) +
		"emit('host-after', pcall(print))\n"
}

func (ck *checker) checkRepeat(c repeatCase) string {
	o := &obs{}
	ck.w.runLua(repeatProgram(c), o, nil)
	desc := fmt.Sprintf("%d refused calls of %s in one thread (flags %q, in a coroutine: %v)", c.N, c.Call, c.Flags, c.InCo)
	if o.Panic != "" {
		return desc + ": Go panic: " + o.Panic
	}
	if o.CompileErr != "" || o.Err != "" {
		return desc + ": the template failed: " + o.CompileErr + o.Err
	}
	var first, inside, after string
	stable := 0
	for _, e := range o.Events {
		switch {
		case strings.HasPrefix(e, `s:"refusal-differs"`):
			return fmt.Sprintf("%s: a later refusal is answered differently from the first: %s (first: %s)", desc, e, first)
		case strings.HasPrefix(e, `s:"first"`):
			if first == "" {
				first = e
			}
		case e == `s:"refusals-stable"`:
			stable++
		case strings.HasPrefix(e, `s:"probe-inside"`):
			if inside == "" {
				inside = e
			} else if e != inside {
				return fmt.Sprintf("%s: an allowed function answers differently after the refusals: %s vs %s", desc, e, inside)
			}
		case strings.HasPrefix(e, `s:"probe-after"`):
			after = e
		case strings.HasPrefix(e, `s:"host-after"`):
			if !strings.HasPrefix(e, `s:"host-after" true`) {
				return fmt.Sprintf("%s: after the context has ended the host thread cannot call a Go function any more: %s", desc, e)
			}
		}
	}
	// refused at the flag gate ("missing flags") or by the function's own guard
	// (io.* under iosafe: "safeio: operation not allowed")
	if !strings.Contains(first, `s:"false|`) {
		return fmt.Sprintf("%s: the call is expected to be refused, got %s", desc, first)
	}
	if stable == 0 {
		return fmt.Sprintf("%s: the template did not finish: %v", desc, o.Events)
	}
	if !strings.HasPrefix(inside, `s:"probe-inside" true`) {
		return fmt.Sprintf("%s: an allowed function fails inside the context after the refusals: %s", desc, inside)
	}
	if strings.TrimPrefix(inside, `s:"probe-inside"`) != strings.TrimPrefix(after, `s:"probe-after"`) {
		return fmt.Sprintf("%s: the same call answers %s inside the context and %s after it", desc, inside, after)
	}
	return ""
}
