package c08

// The "outside world" observed by the C08 check: a sentinel directory (which is
// also the process's working directory and contains TMPDIR), a grant
// directory holding the one file whose open handle is handed to restricted
// code, the set of child processes and the set of open file descriptors.

import (
	"crypto/sha256"
	"fmt"
	"io/fs"
	"os"
	"path/filepath"
	"regexp"
	"sort"
	"strconv"
	"strings"
	"syscall"
	"time"
)

const (
	secretExist = "c08-SECRET-exist-7f3a9e51"
	secretMod   = "c08-SECRET-module-b1d4c2aa"
	secretInner = "c08-SECRET-inner-09e8f7d6"
	secretEnv   = "c08-ENVSECRET-5c5c1a2b"
	grantToken  = "c08-granted-content-33aa"
	envName     = "VERIF_C08_ENVSECRET"
)

var sentinelSecrets = []string{secretExist, secretMod, secretInner}

type world struct {
	root     string // scratch root of this process
	S        string // sentinel directory (cwd, contains tmp/ = TMPDIR)
	G        string // grant directory
	pristine map[string]string
	gprist   map[string]string
	devnull  *os.File
}

var safePath = regexp.MustCompile(`^[A-Za-z0-9_./-]+$`)

func newWorld() (*world, error) {
	base := os.Getenv("VERIF_SCRATCH")
	if base == "" || !safePath.MatchString(base) {
		base = os.TempDir()
	}
	root, err := os.MkdirTemp(base, "c08w-")
	if err != nil {
		root, err = os.MkdirTemp(os.TempDir(), "c08w-")
		if err != nil {
			return nil, err
		}
	}
	if !safePath.MatchString(root) {
		os.RemoveAll(root)
		return nil, fmt.Errorf("scratch path %q is not shell-safe", root)
	}
	w := &world{root: root, S: filepath.Join(root, "s"), G: filepath.Join(root, "g")}
	w.devnull, err = os.OpenFile(os.DevNull, os.O_RDWR, 0)
	if err != nil {
		return nil, err
	}
	// golua's loadfile()/dofile()/io.read() read the process's stdin: make it empty.
	os.Stdin = w.devnull
	if err := w.rebuild(); err != nil {
		return nil, err
	}
	if err := os.Chdir(w.S); err != nil {
		return nil, err
	}
	os.Setenv("TMPDIR", filepath.Join(w.S, "tmp"))
	os.Setenv(envName, secretEnv)
	return w, nil
}

func (w *world) close() {
	os.Chdir("/")
	os.RemoveAll(w.root)
}

// rebuild recreates sentinel and grant directories in their pristine state.
func (w *world) rebuild() error {
	// keep the directory inode of S (it is the cwd): empty it instead of removing it
	for _, d := range []string{w.S, w.G} {
		if err := os.MkdirAll(d, 0o755); err != nil {
			return err
		}
		ents, _ := os.ReadDir(d)
		for _, e := range ents {
			p := filepath.Join(d, e.Name())
			os.Chmod(p, 0o755)
			if err := os.RemoveAll(p); err != nil {
				return err
			}
		}
	}
	files := map[string]string{
		filepath.Join(w.S, "exist.txt"):        "first " + secretExist + "\nsecond line\n",
		filepath.Join(w.S, "mod.lua"):          "return \"" + secretMod + "\"\n",
		filepath.Join(w.S, "sub", "inner.txt"): "inner " + secretInner + "\n",
		filepath.Join(w.G, "granted.txt"):      "granted " + grantToken + "\nsecond granted line\n",
	}
	for _, d := range []string{"sub", "emptydir", "tmp"} {
		if err := os.MkdirAll(filepath.Join(w.S, d), 0o755); err != nil {
			return err
		}
	}
	for p, c := range files {
		if err := os.WriteFile(p, []byte(c), 0o644); err != nil {
			return err
		}
	}
	w.pristine = snapDir(w.S)
	w.gprist = snapDir(w.G)
	return nil
}

// snapDir maps every path below root to a description: kind, size, mtime and
// content hash.
func snapDir(root string) map[string]string {
	m := map[string]string{}
	filepath.WalkDir(root, func(p string, d fs.DirEntry, err error) error {
		rel := strings.TrimPrefix(p, root)
		if rel == "" {
			rel = "/"
		}
		if err != nil {
			m[rel] = "err " + err.Error()
			return nil
		}
		info, err := os.Lstat(p)
		if err != nil {
			m[rel] = "gone"
			return nil
		}
		switch {
		case info.IsDir():
			m[rel] = fmt.Sprintf("dir mode=%o mtime=%d", info.Mode().Perm(), info.ModTime().UnixNano())
		case info.Mode().IsRegular():
			data, _ := os.ReadFile(p)
			m[rel] = fmt.Sprintf("file mode=%o size=%d mtime=%d sha=%x", info.Mode().Perm(), info.Size(), info.ModTime().UnixNano(), sha256.Sum256(data))
		default:
			m[rel] = "other " + info.Mode().String()
		}
		return nil
	})
	return m
}

func diffSnap(a, b map[string]string) []string {
	var out []string
	for k, v := range a {
		if w, ok := b[k]; !ok {
			out = append(out, "removed "+k)
		} else if w != v {
			out = append(out, "changed "+k+" ("+kindOf(v)+" -> "+kindOf(w)+")")
		}
	}
	for k := range b {
		if _, ok := a[k]; !ok {
			out = append(out, "created "+k)
		}
	}
	sort.Strings(out)
	return out
}

func kindOf(s string) string {
	f := strings.Fields(s)
	if len(f) >= 3 && f[0] == "file" {
		return f[2]
	}
	if len(f) > 0 {
		return f[0]
	}
	return s
}

// snapFds lists the open file descriptors of this process.
func snapFds() map[int]string {
	m := map[int]string{}
	ents, err := os.ReadDir("/proc/self/fd")
	if err != nil {
		return m
	}
	self := "/proc/" + strconv.Itoa(os.Getpid()) + "/fd"
	for _, e := range ents {
		n, err := strconv.Atoi(e.Name())
		if err != nil {
			continue
		}
		t, err := os.Readlink("/proc/self/fd/" + e.Name())
		if err != nil || t == self {
			continue
		}
		// the Go runtime's own poller descriptors, created lazily
		if strings.HasPrefix(t, "anon_inode:[eventpoll]") || strings.HasPrefix(t, "anon_inode:[eventfd]") {
			continue
		}
		m[n] = t
	}
	return m
}

func newFds(before, after map[int]string) []string {
	var out []string
	for n, t := range after {
		if b, ok := before[n]; !ok || b != t {
			out = append(out, fmt.Sprintf("fd %d -> %s", n, t))
		}
	}
	sort.Strings(out)
	return out
}

// snapChildren lists the direct children (running or zombie) of this process.
func snapChildren() []int {
	m := map[int]bool{}
	tasks, _ := filepath.Glob("/proc/self/task/*/children")
	for _, f := range tasks {
		b, err := os.ReadFile(f)
		if err != nil {
			continue
		}
		for _, s := range strings.Fields(string(b)) {
			if n, err := strconv.Atoi(s); err == nil {
				m[n] = true
			}
		}
	}
	var out []int
	for p := range m {
		out = append(out, p)
	}
	sort.Ints(out)
	return out
}

func procCmdline(pid int) string {
	b, _ := os.ReadFile("/proc/" + strconv.Itoa(pid) + "/cmdline")
	return strings.TrimSpace(strings.ReplaceAll(string(b), "\x00", " "))
}

// The check process has no children of its own between runs (the os.exit
// probes are waited for synchronously), so "a process was started and is
// still a child (running or zombie)" is observable with one wait4 call:
// ECHILD means there is no child at all.

// clearChildren collects whatever children are left (none expected).
func clearChildren() {
	collectChildren(0)
}

// collectChildren reports and collects all current children, waiting for
// running ones to end (bounded; they only run touch/cat). With wait > 0 and
// no child present it first waits that long for a late one to appear.
func collectChildren(wait time.Duration) []string {
	var out []string
	deadline := time.Now().Add(3 * time.Second)
	waited := false
	named := map[int]bool{}
	for {
		var ws syscall.WaitStatus
		pid, err := syscall.Wait4(-1, &ws, syscall.WNOHANG, nil)
		switch {
		case err == syscall.EINTR:
			continue
		case err != nil: // ECHILD: no children
			if wait > 0 && !waited && len(out) == 0 {
				waited = true
				time.Sleep(wait)
				continue
			}
			return out
		case pid > 0:
			out = append(out, fmt.Sprintf("pid %d (ended, %s)", pid, describeWS(ws)))
		default:
			// children exist and are still running: name them, then wait for them
			for _, p := range snapChildren() {
				if !named[p] {
					named[p] = true
					out = append(out, fmt.Sprintf("pid %d [%s] (running)", p, procCmdline(p)))
				}
				if time.Now().After(deadline) {
					syscall.Kill(p, syscall.SIGKILL)
				}
			}
			time.Sleep(time.Millisecond)
		}
	}
}

func describeWS(ws syscall.WaitStatus) string {
	if ws.Exited() {
		return fmt.Sprintf("exit status %d", ws.ExitStatus())
	}
	if ws.Signaled() {
		return "signal " + ws.Signal().String()
	}
	return "?"
}

// grantChanged: cheap test whether the granted file differs from its pristine state.
func (w *world) grantChanged() bool {
	ents, err := os.ReadDir(w.G)
	if err != nil || len(ents) != 1 {
		return true
	}
	info, err := os.Lstat(filepath.Join(w.G, "granted.txt"))
	if err != nil {
		return true
	}
	want := w.gprist["/granted.txt"]
	return !strings.HasPrefix(want, fmt.Sprintf("file mode=%o size=%d mtime=%d ", info.Mode().Perm(), info.Size(), info.ModTime().UnixNano()))
}

// runCaseAbsent runs the case in a sentinel directory from which every
// sentinel file has been removed (directories stay), then restores the
// pristine world. Used by the outside-independence relation.
func (w *world) runCaseAbsent(c c08Case, settle bool) *obs {
	for _, f := range []string{"exist.txt", "mod.lua", filepath.Join("sub", "inner.txt")} {
		os.Remove(filepath.Join(w.S, f))
	}
	os.Remove(filepath.Join(w.S, "emptydir"))
	w.pristine = snapDir(w.S)
	o := w.runCase(c, settle)
	if err := w.rebuild(); err != nil {
		o.Panic = "harness: cannot rebuild sentinel: " + err.Error()
	}
	return o
}
