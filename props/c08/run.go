package c08

// Lua program generation and the observation of one run.

import (
	"bytes"
	"fmt"
	"os"
	"strings"
	"time"

	"github.com/arnodel/golua/lib"
	rt "github.com/arnodel/golua/runtime"

	"verif/internal/harness"
)

const (
	flagMem = 1 << iota
	flagCPU
	flagTime
	flagIO
	flagAll = flagMem | flagCPU | flagTime | flagIO
)

var flagNames = []string{"memsafe", "cpusafe", "timesafe", "iosafe"}

func flagString(m int) string {
	var out []string
	for i, n := range flagNames {
		if m&(1<<i) != 0 {
			out = append(out, n)
		}
	}
	return strings.Join(out, " ")
}

func flagSet(m int) string {
	if m == 0 {
		return "{}"
	}
	return "{" + strings.ReplaceAll(flagString(m), " ", ",") + "}"
}

// A call is one function with one argument tuple and one call spelling.
type c08Call struct {
	Fn    string `json:"fn"`    // stable path name, e.g. io.open
	Fetch string `json:"fetch"` // Lua expression evaluated OUTSIDE the restricted context yielding the function
	Args  string `json:"args"`  // Lua source of the argument list (may use S, G, H, CTX)
	Spell string `json:"spell"`
}

// c08Case: calls made one after the other in ONE child context requiring Flags.
type c08Case struct {
	Flags int       `json:"flags"`
	Calls []c08Call `json:"calls"`
}

func (c c08Case) key() string {
	var sb strings.Builder
	fmt.Fprintf(&sb, "S=%d", c.Flags)
	for _, k := range c.Calls {
		fmt.Fprintf(&sb, "|%s(%s)@%s", k.Fn, k.Args, k.Spell)
	}
	return sb.String()
}

var allSpellings = []string{
	"pcall", "direct", "xpcall", "mm-call", "mm-index", "mm-concat", "mm-wrap",
	"coroutine", "co-body", "co-wrap", "co-outer", "load", "gsub", "gsub-fn",
}

// helper functions (by discovery name) that a spelling uses INSIDE the
// restricted context, besides the common ones.
var spellHelpers = map[string][]string{
	"direct":    {},
	"pcall":     {"pcall"},
	"xpcall":    {"xpcall"},
	"mm-call":   {"pcall", "setmetatable"},
	"mm-index":  {"pcall", "setmetatable"},
	"mm-concat": {"pcall", "setmetatable"},
	"mm-wrap":   {"pcall", "setmetatable"},
	"coroutine": {"coroutine.create", "coroutine.resume"},
	"co-body":   {"coroutine.create", "coroutine.resume"},
	"co-wrap":   {"coroutine.wrap", "pcall"},
	"co-outer":  {"coroutine.resume"},
	"load":      {"load", "pcall"},
	"gsub":      {"string.gsub", "pcall"},
	"gsub-fn":   {"string.gsub", "pcall"},
}

var commonHelpers = []string{"pcall", "type", "runtime.context", "ctxmt.__index"}

func firstArg(args string) string {
	// the argument sources used here never contain a top-level comma inside the
	// first argument except within (), {} or quotes
	depth := 0
	inq := byte(0)
	for i := 0; i < len(args); i++ {
		ch := args[i]
		if inq != 0 {
			if ch == '\\' {
				i++
			} else if ch == inq {
				inq = 0
			}
			continue
		}
		switch ch {
		case '"', '\'':
			inq = ch
		case '(', '{':
			depth++
		case ')', '}':
			depth--
		case ',':
			if depth == 0 {
				return strings.TrimSpace(args[:i])
			}
		}
	}
	return strings.TrimSpace(args)
}

// luaBody returns the statements performing call k (index i) inside the
// restricted context. F<i> and W<i> are defined outside.
// noRead: reading from a handle made by io.popen(cmd, "w") blocks for ever in
// golua (its reader is a pipe nobody writes to), so such handles are only closed.
func noRead(k c08Call) string {
	if shellFamily.MatchString(k.Fn) && strings.Contains(k.Args, `"w"`) {
		return "true"
	}
	return "false"
}

func luaBody(i int, k c08Call) string {
	F := fmt.Sprintf("F%d", i)
	W := fmt.Sprintf("W%d", i)
	a1 := firstArg(k.Args)
	if a1 == "" {
		a1 = "nil"
	}
	var expr string
	wrapper := false
	switch k.Spell {
	case "direct":
		return fmt.Sprintf("do local q = {%s(%s)}; emit('res', %d, true, q[1], q[2], q[3]); follow(q, %s) end\n", F, k.Args, i, noRead(k))
	case "pcall":
		if k.Args == "" {
			expr = fmt.Sprintf("pcall(%s)", F)
		} else {
			expr = fmt.Sprintf("pcall(%s, %s)", F, k.Args)
		}
	case "xpcall":
		if k.Args == "" {
			expr = fmt.Sprintf("xpcall(%s, function(e) return e end)", F)
		} else {
			expr = fmt.Sprintf("xpcall(%s, function(e) return e end, %s)", F, k.Args)
		}
	case "mm-call":
		expr = fmt.Sprintf("pcall(function() local o = setmetatable({}, {__call = %s}); return o(%s) end)", F, k.Args)
	case "mm-index":
		expr = fmt.Sprintf("pcall(function() local o = setmetatable({}, {__index = %s}); return o[%s] end)", F, a1)
	case "mm-concat":
		expr = fmt.Sprintf("pcall(function() local o = setmetatable({}, {__concat = %s}); local a = %s; if type(a) ~= 'string' then a = o end; return a .. o end)", F, a1)
	case "mm-wrap":
		wrapper = true
		expr = fmt.Sprintf("pcall(function() local o = setmetatable({}, {__index = function() return %s() end}); return o.k end)", W)
	case "coroutine":
		wrapper = true
		expr = fmt.Sprintf("coroutine.resume(coroutine.create(%s))", W)
	case "co-body":
		if k.Args == "" {
			expr = fmt.Sprintf("coroutine.resume(coroutine.create(%s))", F)
		} else {
			expr = fmt.Sprintf("coroutine.resume(coroutine.create(%s), %s)", F, k.Args)
		}
	case "co-wrap":
		wrapper = true
		expr = fmt.Sprintf("pcall(coroutine.wrap(%s))", W)
	case "co-outer":
		wrapper = true
		expr = fmt.Sprintf("coroutine.resume(CO%d)", i)
	case "load":
		wrapper = true
		src := fmt.Sprintf("local F, S, G, H, CTX, follow = ... local q = {F(%s)} emit('inner', %d, q[1], q[2], q[3]) follow(q, %s) return q[1], q[2], q[3]", k.Args, i, noRead(k))
		expr = fmt.Sprintf("pcall(load(%q), %s, S, G, H, CTX, follow)", src, F)
	case "gsub":
		wrapper = true
		expr = fmt.Sprintf("pcall(string.gsub, 'x', 'x', function() %s() return 'y' end)", W)
	case "gsub-fn":
		expr = fmt.Sprintf("pcall(function() local a = %s; if type(a) ~= 'string' then a = 'x' end; return string.gsub(a, '^.*$', %s, 1) end)", a1, F)
	default:
		panic("unknown spelling " + k.Spell)
	}
	s := fmt.Sprintf("do local r = {%s}; emit('res', %d, r[1], r[2], r[3], r[4]);", expr, i)
	if !wrapper {
		s += " if r[1] then follow({r[2], r[3], r[4]}, " + noRead(k) + ") end"
	}
	return s + " end\n"
}

// guards: hard limits that may be added without changing the required flags
// (a hard cpu limit implies cpusafe, a hard memory limit implies memsafe).
const (
	guardCPU = 20_000_000
	// No memory guard: with a hard memory limit golua's memory accounting can
	// panic with "Too much mem released" on a coroutine's goroutine (e.g.
	// loadfile() inside coroutine.wrap), which cannot be recovered and kills the
	// whole check process. That defect belongs to the memory-accounting
	// properties; memory use is bounded here by the pools.
)

// developer switch to reproduce the crash described above
var guardMem = func() int {
	if os.Getenv("VERIF_C08_GUARDMEM") != "" {
		return 400_000_000
	}
	return 0
}()

func luaProgram(c c08Case) string {
	var sb strings.Builder
	sb.WriteString("local S, G = ...\n")
	sb.WriteString("package.path = S .. '/?.lua'\n")
	sb.WriteString("local H = io.open(G .. '/granted.txt', 'r+')\n")
	sb.WriteString("local CTX = runtime.context()\n")
	sb.WriteString(`local function follow(r, noread)
  for i = 1, 3 do
    local v = r[i]
    if type(v) == 'function' then
      emit('follow-fn', pcall(v))
    elseif type(v) == 'userdata' and v ~= H and v ~= CTX and v ~= io.stdout and v ~= io.stderr and v ~= io.stdin then
      emit('follow-ud', pcall(function() local s = nil; if not noread then s = v:read('a') end; v:close(); return s end))
    end
  end
end
`)
	for i, k := range c.Calls {
		fmt.Fprintf(&sb, "local F%d = %s\n", i, k.Fetch)
		switch k.Spell {
		case "mm-wrap", "coroutine", "co-wrap", "co-outer", "gsub":
		default:
			continue
		}
		fmt.Fprintf(&sb, "local function W%d() local q = {F%d(%s)}; emit('inner', %d, q[1], q[2], q[3]); follow(q, %s); return q[1], q[2], q[3] end\n", i, i, k.Args, i, noRead(k))
		if k.Spell == "co-outer" {
			fmt.Fprintf(&sb, "local CO%d = coroutine.create(W%d)\n", i, i)
		}
	}
	def := fmt.Sprintf("flags = %q", flagString(c.Flags))
	var kill []string
	if c.Flags&flagCPU != 0 {
		kill = append(kill, fmt.Sprintf("cpu = %d", guardCPU))
	}
	if c.Flags&flagMem != 0 && guardMem > 0 {
		kill = append(kill, fmt.Sprintf("memory = %d", guardMem))
	}
	if len(kill) > 0 {
		def += ", kill = {" + strings.Join(kill, ", ") + "}"
	}
	fmt.Fprintf(&sb, "local ctx, cerr = runtime.callcontext({%s}, function()\n", def)
	sb.WriteString("emit('start', runtime.context().flags)\n")
	for i, k := range c.Calls {
		sb.WriteString(luaBody(i, k))
	}
	sb.WriteString("emit('live', runtime.context().status)\n")
	sb.WriteString("emit('after', pcall(type, 1))\n")
	sb.WriteString("end)\n")
	sb.WriteString("emit('ctx', ctx.status, cerr)\n")
	return sb.String()
}

// obs is what the host observed for one run.
type obs struct {
	Events      []string `json:"events"`
	Err         string   `json:"err,omitempty"`
	CompileErr  string   `json:"compile_err,omitempty"`
	Panic       string   `json:"panic,omitempty"`
	OuterStatus string   `json:"outer_status,omitempty"`
	Sentinel    []string `json:"sentinel_diff,omitempty"`
	NewFds      []string `json:"new_fds,omitempty"`
	NewKids     []string `json:"new_children,omitempty"`
}

func (o *obs) String() string {
	var sb strings.Builder
	for _, e := range o.Events {
		if len(e) > 300 {
			e = e[:300] + "…"
		}
		fmt.Fprintf(&sb, "    %s\n", e)
	}
	if o.CompileErr != "" {
		fmt.Fprintf(&sb, "    compile error: %s\n", o.CompileErr)
	}
	if o.Err != "" {
		fmt.Fprintf(&sb, "    chunk error: %s\n", o.Err)
	}
	if o.Panic != "" {
		fmt.Fprintf(&sb, "    GO PANIC: %s\n", o.Panic)
	}
	if len(o.Sentinel) > 0 {
		fmt.Fprintf(&sb, "    sentinel: %s\n", strings.Join(o.Sentinel, "; "))
	}
	if len(o.NewFds) > 0 {
		fmt.Fprintf(&sb, "    new fds: %s\n", strings.Join(o.NewFds, "; "))
	}
	if len(o.NewKids) > 0 {
		fmt.Fprintf(&sb, "    new child processes: %s\n", strings.Join(o.NewKids, "; "))
	}
	return sb.String()
}

// cumulative wall time per phase (developer information, reported as evidence extras)
var phaseNS = map[string]int64{}

func tick(name string, t0 time.Time) { phaseNS[name] += int64(time.Since(t0)) }

var allFlagsRT = rt.ComplyCpuSafe | rt.ComplyMemSafe | rt.ComplyIoSafe | rt.ComplyTimeSafe

// runLua runs src in a fresh runtime inside an outer context WITHOUT limits
// and WITHOUT flags (so that nothing but the case's own callcontext adds
// required flags). Returns events etc.; world effects are measured by runCase.
func (w *world) runLua(src string, o *obs, mid func()) {
	canon := harness.NewCanon()
	stdout := &bytes.Buffer{}
	var r *rt.Runtime
	var cleanup func()
	func() {
		defer func() {
			if p := recover(); p != nil {
				o.Panic = fmt.Sprint(p)
			}
		}()
		// iolib captures os.Stdout/os.Stderr when loaded: give it /dev/null so that
		// io.write/io.stderr:write under test do not pollute the test log
		t0 := time.Now()
		so, se := os.Stdout, os.Stderr
		os.Stdout, os.Stderr = w.devnull, w.devnull
		r = rt.New(stdout)
		cleanup = lib.LoadAll(r)
		os.Stdout, os.Stderr = so, se
		tick("new+loadlibs", t0)
		r.SetEnvGoFunc(r.GlobalEnv(), "emit", func(t *rt.Thread, c *rt.GoCont) (rt.Cont, error) {
			if len(o.Events) >= 10000 {
				return nil, fmt.Errorf("too many events")
			}
			o.Events = append(o.Events, canon.EncValues(c.Etc()))
			return c.Next(), nil
		}, 0, true).SolemnlyDeclareCompliance(allFlagsRT)
		t0 = time.Now()
		clos, err := r.CompileAndLoadLuaChunk("case", []byte(src), rt.TableValue(r.GlobalEnv()))
		tick("compile", t0)
		if err != nil {
			o.CompileErr = err.Error()
			return
		}
		t0 = time.Now()
		defer func() { tick("call", t0) }()
		args := []rt.Value{rt.StringValue(w.S), rt.StringValue(w.G)}
		ctx, err := r.MainThread().CallContext(rt.RuntimeContextDef{}, func() error {
			return rt.Call(r.MainThread(), rt.FunctionValue(clos), args, rt.NewTerminationWith(nil, 0, true))
		})
		if ctx != nil {
			o.OuterStatus = ctx.Status().String()
		}
		if err != nil {
			o.Err = err.Error()
		}
	}()
	if mid != nil {
		mid()
	}
	t1 := time.Now()
	defer func() { tick("close", t1) }()
	func() {
		defer func() { recover() }()
		if cleanup != nil {
			so, se := os.Stdout, os.Stderr
			os.Stdout, os.Stderr = w.devnull, w.devnull
			cleanup()
			os.Stdout, os.Stderr = so, se
		}
		if r != nil {
			var err error
			r.Close(&err)
		}
	}()
}

// runCase runs the case and measures the world before and after.
// settle: wait for spawned commands (used where a process may have been
// started, or where it must be shown that none was).
func (w *world) runCase(c c08Case, settle bool) *obs {
	o := &obs{}
	t0 := time.Now()
	defer func() { tick("runCase-total", t0) }()
	before := w.pristine // every run leaves the world pristine (see the end of this function)
	fds0 := snapFds()
	clearChildren()
	w.runLua(luaProgram(c), o, func() {
		// measured while the runtime (and any handle it holds) is still alive
		for _, d := range newFds(fds0, snapFds()) {
			// the granted handle H, opened by the case's unrestricted prologue
			if !strings.HasSuffix(d, "-> "+w.G+"/granted.txt") {
				o.NewFds = append(o.NewFds, d)
			}
		}
		o.NewKids = collectChildren(0)
	})
	if len(o.NewKids) == 0 && settle {
		o.NewKids = collectChildren(50 * time.Millisecond)
	}
	t1 := time.Now()
	after := snapDir(w.S)
	o.Sentinel = diffSnap(before, after)
	if len(o.Sentinel) > 0 || w.grantChanged() {
		if err := w.rebuild(); err != nil {
			o.Panic = "harness: cannot rebuild sentinel: " + err.Error()
		}
	}
	tick("snapshot", t1)
	return o
}
