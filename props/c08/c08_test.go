package c08

import (
	"encoding/json"
	"fmt"
	"os"
	"os/exec"
	"regexp"
	"runtime"
	"sort"
	"strconv"
	"strings"
	"testing"
	"time"

	"pgregory.net/rapid"

	"verif/internal/ev"
	. "verif/internal/pbt"
)

// C08 — compliance flags gate every Go function; iosafe means no access to
// the outside.

// ---------------------------------------------------------------- discovery

type fnSpec struct {
	Name  string
	Fetch string
	What  string
}

const discoverySrc = `
local S, G = ...
package.path = S .. '/?.lua'
local H = io.open(G .. '/granted.txt', 'r+')
local seen, queue, qi = {}, {}, 1
local function visit(v, name, expr)
  if type(v) == 'function' then
    if not seen[v] then seen[v] = true; emit('fn', name, expr, (debug.getinfo(v, 'S').source == '[Go]') and 'Go' or 'Lua') end
  elseif type(v) == 'table' then
    if not seen[v] then seen[v] = true; queue[#queue + 1] = {v, name, expr} end
  end
end
local function drain()
  while qi <= #queue do
    local t, name, expr = queue[qi][1], queue[qi][2], queue[qi][3]
    qi = qi + 1
    local keys = {}
    for k in pairs(t) do
      if type(k) == 'string' or math.type(k) == 'integer' then keys[#keys + 1] = k end
    end
    table.sort(keys, function(a, b)
      if type(a) ~= type(b) then return type(a) < type(b) end
      return a < b
    end)
    for _, k in ipairs(keys) do
      local v = rawget(t, k)
      local kn, ke
      if type(k) == 'string' then
        kn = (name == '' and k or name .. '.' .. k)
        ke = expr .. string.format('[%q]', k)
      else
        kn = name .. '[' .. k .. ']'
        ke = expr .. '[' .. k .. ']'
      end
      if not (t == _G and k == 'emit') then visit(v, kn, ke) end
    end
  end
end
seen[_G] = true
queue[1] = {_G, '', '_G'}
drain()
local roots = {
  {'stringmt', "getmetatable('')"},
  {'filemt', 'getmetatable(io.stdout)'},
  {'tmpfilemt', 'getmetatable(H)'},
  {'ctxmt', 'getmetatable(runtime.context())'},
  {'resmt', 'getmetatable(runtime.context().used)'},
  {'ctx.killnow', 'runtime.context().killnow'},
  {'ctx.stopnow', 'runtime.context().stopnow'},
  {'iter:string.gmatch', "(string.gmatch('a b c', '%a+'))"},
  {'iter:pairs', '(pairs({}))'},
  {'iter:ipairs', '(ipairs({}))'},
  {'iter:io.lines', "(io.lines(G .. '/granted.txt'))"},
  {'iter:file:lines', '(H:lines())'},
  {'iter:coroutine.wrap', '(coroutine.wrap(function(...) while true do coroutine.yield(...) end end))'},
  {'iter:utf8.codes', "(utf8.codes('ab'))"},
  {'ret:package.searchers[2]', "(package.searchers[2]('mod'))"},
}
for _, r in ipairs(roots) do
  local f = load('local S, G, H = ... return ' .. r[2])
  local ok, v = pcall(f, S, G, H)
  if ok then visit(v, r[1], r[2]); drain() else emit('root-error', r[1], v) end
end
emit('done')
`

// fields splits a canonical event into its values.
func fields(e string) []string {
	var out []string
	i := 0
	for i < len(e) {
		if e[i] == ' ' {
			i++
			continue
		}
		if strings.HasPrefix(e[i:], `s:"`) {
			j := i + 3
			for j < len(e) {
				if e[j] == '\\' {
					j += 2
					continue
				}
				if e[j] == '"' {
					break
				}
				j++
			}
			if j >= len(e) {
				j = len(e) - 1
			}
			out = append(out, e[i:j+1])
			i = j + 1
			continue
		}
		j := strings.IndexByte(e[i:], ' ')
		if j < 0 {
			j = len(e) - i
		}
		out = append(out, e[i:i+j])
		i += j
	}
	return out
}

func unq(f string) string {
	if strings.HasPrefix(f, "s:") {
		if s, err := strconv.Unquote(f[2:]); err == nil {
			return s
		}
		return f[2:]
	}
	return f
}

func (w *world) discover() ([]fnSpec, error) {
	o := &obs{}
	w.runLua(discoverySrc, o, nil)
	w.rebuild()
	if o.Panic != "" || o.CompileErr != "" || o.Err != "" {
		return nil, fmt.Errorf("discovery failed: %s", o)
	}
	var fns []fnSpec
	done := false
	for _, e := range o.Events {
		f := fields(e)
		if len(f) == 0 {
			continue
		}
		switch unq(f[0]) {
		case "fn":
			if len(f) >= 4 {
				fns = append(fns, fnSpec{Name: unq(f[1]), Fetch: unq(f[2]), What: unq(f[3])})
			}
		case "root-error":
			return nil, fmt.Errorf("discovery root failed: %s", e)
		case "done":
			done = true
		}
	}
	if !done {
		return nil, fmt.Errorf("discovery did not finish: %s", o)
	}
	return fns, nil
}

// ---------------------------------------------------------------- pools

// effectful argument tuples (Lua source; S sentinel dir, G grant dir, H granted handle)
var effTuples = []string{
	// paths inside the sentinel, with modes
	`S .. "/exist.txt"`,
	`S .. "/exist.txt", "r"`,
	`S .. "/exist.txt", "w"`,
	`S .. "/exist.txt", "a"`,
	`S .. "/exist.txt", "r+"`,
	`S .. "/exist.txt", "l"`,
	`S .. "/new.txt"`,
	`S .. "/new.txt", "w"`,
	`S .. "/new.txt", "a"`,
	`S .. "/new.txt", "r+"`,
	`S .. "/sub"`,
	`S .. "/emptydir"`,
	`S .. "/sub/inner.txt"`,
	`S .. "/sub/created.txt", "w"`,
	`S .. "/exist.txt", S .. "/renamed.txt"`,
	`S .. "/exist.txt", S .. "/sub/moved.txt"`,
	`S .. "/emptydir", S .. "/renamed-dir"`,
	`S .. "/mod.lua"`,
	`S .. "/mod.lua", "t"`,
	`S .. "/mod.lua", "t", {}`,
	`"exist.txt"`,
	`"exist.txt", "w"`,
	`"new-relative.txt", "w"`,
	`"sub/inner.txt"`,
	// modules resolving into the sentinel (package.path = S/?.lua)
	`"mod"`,
	`"mod", S .. "/?.lua"`,
	`"mod", S .. "/mod.lua"`,
	`"sub.inner", S .. "/?.txt"`,
	// shell commands whose only effect is creating a file in the sentinel, or reading one
	`"touch " .. S .. "/pwned-1"`,
	`"touch " .. S .. "/pwned-2", "r"`,
	`"touch " .. S .. "/pwned-3", "w"`,
	`"cat " .. S .. "/exist.txt"`,
	`"cat " .. S .. "/exist.txt", "r"`,
	// environment, locale, time
	`"` + envName + `"`,
	`"C"`,
	`"%c"`,
	`"*t"`,
	`"!%Y-%m-%d", 0`,
	// the granted handle
	`H`,
	`H, "a"`,
	`H, "l"`,
	`H, "some data"`,
	`H, "set", 0`,
	`H, "no"`,
}

var edgeSingles = []string{
	`nil`, `true`, `0`, `1`, `-1`, `255`, `1.5`, `""`, `"x"`, `"%d"`, `"r"`, `{}`, `{1, 2, 3}`,
	`function() end`, `coroutine.create(function() end)`, `H`, `CTX`, `io.stdout`,
}

func edgeTuples() []string {
	out := append([]string{}, edgeSingles...)
	a := []string{`"x"`, `1`, `{}`, `function() end`, `H`, `nil`}
	b := []string{`"x"`, `1`, `{}`, `function() end`, `"r"`}
	for _, x := range a {
		for _, y := range b {
			out = append(out, x+", "+y)
		}
	}
	out = append(out,
		`"x", "x", "x"`, `"x", 1, 1`, `{1, 2, 3}, 1, 255`, `{}, "x", 1`, `function() end, "x", 1`, `"x", "%d", function() end`,
	)
	return out
}

var ioFamily = regexp.MustCompile(`^(io\.|os\.|filemt|tmpfilemt|package\.|require$|dofile$|loadfile$|load$|iter:io|iter:file|ret:package|golib)`)
var shellFamily = regexp.MustCompile(`popen|execute`)
var cmdArg = regexp.MustCompile(`^"(touch|cat) " \.\. S`)
var stringyArg = regexp.MustCompile(`^(["']|S \.\.|G \.\.)`)

// killers end the context they run in (documented effect)
func isKiller(name string) bool {
	return name == "runtime.killcontext" || name == "ctx.killnow"
}

// argument restrictions for the harness's own safety; returns a discard reason
func unsafeCombo(name, args, spell string) string {
	a1 := firstArg(args)
	// spelled gsub-fn, the function receives the subject string: the first
	// argument if it is a string, else "x"
	strFirst := stringyArg.MatchString(a1) || spell == "gsub-fn"
	switch {
	case name == "os.exit":
		return "os.exit: documented effect is process exit; probed in a child process only"
	case name == "golib.import" && strFirst:
		return "golib.import with a package name would run the Go toolchain"
	case shellFamily.MatchString(name) && strFirst && !cmdArg.MatchString(a1):
		return "shell function with an arbitrary string: only touch/cat commands on the sentinel are run"
	case name == "debug.sethook" && (args != "" || strings.HasPrefix(spell, "mm-") && spell != "mm-wrap" || spell == "gsub-fn"):
		return "debug.sethook with arguments would install hooks in the harness"
	case isKiller(name) && strings.Contains(args, "CTX"):
		return "killing the harness's own outer context"
	}
	return ""
}

// ---------------------------------------------------------------- checker

type effect struct {
	Changes bool
	Reads   bool
}

type checker struct {
	rec       *ev.Recorder
	w         *world
	fns       []fnSpec
	byName    map[string]fnSpec
	declared  map[string]int // by fetch expression: mask of declared flags (inferred)
	refMsg    map[string]string
	effects   map[string]*effect
	kfPopen   bool
	kfFileArg bool
	kfUnpack  bool
	kfSetMT   bool
	runs      int
	nsamp     int
}

func (ck *checker) run(c c08Case) *obs {
	settle := false
	if c.Flags != 0 {
		for _, k := range c.Calls {
			if shellFamily.MatchString(k.Name()) {
				settle = true
			}
		}
	}
	ck.runs++
	if f := os.Getenv("VERIF_C08_TRACE"); f != "" {
		// developer aid: the case being run, for crashes that kill the process
		os.WriteFile(fmt.Sprintf("%s.%d", f, ck.rec.Shard()), []byte(c.key()+"\n"+luaProgram(c)), 0o644)
	}
	return ck.w.runCase(c, settle)
}

func (k c08Call) Name() string { return k.Fn }

type callRes struct {
	seen    bool
	ok      bool
	refused bool
	msg     string // text from "missing flags:" on
	text    string
}

type parsed struct {
	start, after bool
	startFlags   string
	live         string
	afterOK      bool
	ctxStatus    string
	ctxErr       string
	calls        []callRes
}

func refusalText(s string) (string, bool) {
	i := strings.Index(s, "missing flags:")
	if i < 0 {
		return "", false
	}
	return s[i:], true
}

func parseObs(o *obs, n int) parsed {
	p := parsed{calls: make([]callRes, n)}
	for _, e := range o.Events {
		f := fields(e)
		if len(f) == 0 {
			continue
		}
		switch unq(f[0]) {
		case "start":
			p.start = true
			if len(f) > 1 {
				p.startFlags = unq(f[1])
			}
		case "live":
			if len(f) > 1 {
				p.live = unq(f[1])
			}
		case "after":
			p.after = true
			p.afterOK = len(f) >= 3 && f[1] == "true" && unq(f[2]) == "number"
		case "ctx":
			if len(f) > 1 {
				p.ctxStatus = unq(f[1])
			}
			if len(f) > 2 {
				p.ctxErr = unq(f[2])
			}
		case "res":
			if len(f) < 3 || !strings.HasPrefix(f[1], "i:") {
				continue
			}
			i, err := strconv.Atoi(f[1][2:])
			if err != nil || i < 0 || i >= n {
				continue
			}
			r := &p.calls[i]
			r.seen = true
			r.ok = f[2] == "true"
			r.text = strings.Join(f[2:], " ")
			if !r.ok && len(f) > 3 {
				r.msg, r.refused = refusalText(unq(f[3]))
			}
		}
	}
	return p
}

func hasSecret(o *obs, secrets ...string) string {
	for _, e := range o.Events {
		for _, s := range secrets {
			if strings.Contains(e, s) {
				return s
			}
		}
	}
	return ""
}

// verdict of one run
type verdict struct {
	msg     string // non-empty: violation
	kind    string
	guard   bool // the harness's guard limit ended the context: not judged
	refused []bool
	refMsgs []string
}

func (ck *checker) declaredOf(k c08Call) int {
	if m, ok := ck.declared[k.Fetch]; ok {
		return m
	}
	// infer: call with no arguments in a context requiring only X
	m := 0
	for i := range flagNames {
		x := 1 << i
		c := c08Case{Flags: x, Calls: []c08Call{{Fn: k.Fn, Fetch: k.Fetch, Args: "", Spell: "pcall"}}}
		o := ck.run(c)
		p := parseObs(o, 1)
		if !(p.calls[0].seen && p.calls[0].refused) {
			m |= x
		}
	}
	ck.declared[k.Fetch] = m
	return m
}

func (ck *checker) judge(c c08Case, o *obs) verdict {
	v := verdict{refused: make([]bool, len(c.Calls)), refMsgs: make([]string, len(c.Calls))}
	fail := func(kind, format string, a ...any) verdict {
		v.kind = kind
		v.msg = fmt.Sprintf(format, a...) + fmt.Sprintf("\n  context flags %s; calls:", flagSet(c.Flags))
		for _, k := range c.Calls {
			v.msg += fmt.Sprintf("\n    %s(%s) spelled %s", k.Fn, k.Args, k.Spell)
		}
		v.msg += "\n  observed:\n" + o.String()
		return v
	}
	if o.Panic != "" {
		return fail("panic", "Go panic: %s", o.Panic)
	}
	if o.CompileErr != "" {
		return fail("harness", "harness: generated program does not compile: %s", o.CompileErr)
	}
	p := parseObs(o, len(c.Calls))
	if !p.start {
		return fail("harness", "harness: the restricted context never started (chunk error %q, outer status %s)", o.Err, o.OuterStatus)
	}
	if p.startFlags != "" {
		// the context requires exactly the flags asked for (plus nothing else)
		want := strings.Fields(flagString(c.Flags))
		got := strings.Fields(p.startFlags)
		sort.Strings(want)
		sort.Strings(got)
		if strings.Join(want, " ") != strings.Join(got, " ") {
			return fail("flags", "context asked to require %q reports flags %q", flagString(c.Flags), p.startFlags)
		}
	}
	allRefused := true
	killed := false
	aborted := false // a direct-spelled call raised: the rest of the body did not run
	for i, k := range c.Calls {
		exp := c.Flags&^ck.declaredOf(k) != 0
		r := p.calls[i]
		if killed || aborted {
			allRefused = allRefused && exp
			continue
		}
		var got bool
		var msg string
		if r.seen {
			got, msg = r.refused, r.msg
		} else if p.ctxStatus == "error" {
			msg, got = refusalText(p.ctxErr)
			aborted = true
		} else if p.ctxStatus == "killed" {
			killed = true
		} else {
			return fail("harness", "harness: call %d reported nothing although the context ended with status %q", i, p.ctxStatus)
		}
		v.refused[i], v.refMsgs[i] = got, msg
		if !exp {
			allRefused = false
		}
		if exp && !got {
			return fail("not-refused", "%s has not declared %s (inferred from a no-argument call in a context requiring only that flag) but the call was NOT refused in a context requiring %s",
				k.Fn, flagSet(c.Flags&^ck.declaredOf(k)), flagSet(c.Flags))
		}
		if !exp && got {
			return fail("refused", "%s declares %s, which covers the required %s, but the call was refused: %s", k.Fn, flagSet(ck.declaredOf(k)), flagSet(c.Flags), msg)
		}
		if killed && !isKiller(k.Fn) {
			if c.Flags&(flagCPU|flagMem) != 0 {
				v.guard = true
				return v
			}
			return fail("killed", "the context was killed by %s although it has no hard limits", k.Fn)
		}
		if exp {
			// an ordinary error
			if r.seen && r.ok {
				return fail("refusal-not-error", "refusal of %s was not reported as an error", k.Fn)
			}
		}
	}
	if !killed && !aborted {
		if p.live != "live" || !p.after || !p.afterOK || p.ctxStatus != "done" {
			return fail("not-running", "after the calls the context did not keep running normally: status inside %q, later code ran: %v (pcall(type,1) ok: %v), final status %q", p.live, p.after, p.afterOK, p.ctxStatus)
		}
	}
	if aborted && p.ctxStatus != "error" {
		return fail("not-running", "a directly spelled failing call must end the context with status error, got %q", p.ctxStatus)
	}
	if o.OuterStatus != "done" && o.OuterStatus != "error" {
		return fail("outer", "the enclosing unrestricted context ended with status %q", o.OuterStatus)
	}
	// world
	if allRefused || c.Flags&flagIO != 0 {
		why := "every call was refused"
		kind := "effect-after-refusal"
		if c.Flags&flagIO != 0 {
			why = "the context requires iosafe"
			kind = "iosafe-outside-access"
		}
		if len(o.Sentinel) > 0 {
			return fail(kind, "%s, but the sentinel directory changed: %s", why, strings.Join(o.Sentinel, "; "))
		}
		if len(o.NewKids) > 0 {
			return fail(kind, "%s, but a process was started: %s", why, strings.Join(o.NewKids, "; "))
		}
		if len(o.NewFds) > 0 {
			return fail(kind, "%s, but new file descriptors are open afterwards: %s", why, strings.Join(o.NewFds, "; "))
		}
		if s := hasSecret(o, sentinelSecrets...); s != "" {
			return fail(kind, "%s, but the content of a sentinel file (%s) reached Lua", why, s)
		}
	}
	return v
}

func (ck *checker) isKF(c c08Case) string {
	for _, k := range c.Calls {
		if ck.kfPopen && ck.popenIosafe(k, c.Flags) {
			return "C08-popen-iosafe"
		}
		if ck.kfFileArg && fileArgNonFile(k) {
			return "C08-file-arg-nonfile-userdata-panic"
		}
		if ck.kfUnpack && unpackSFormat(k) {
			return "C08-unpack-s-length-panic"
		}
		if ck.kfSetMT && c.Flags&flagCPU != 0 && setmetatableOnFile(k) {
			return "C08-debug-setmetatable-file-fatal"
		}
	}
	return ""
}

// recogniser of C08-debug-setmetatable-file-fatal: debug.setmetatable whose
// first argument is a file handle made outside (a userdata that already has a
// finalizer in the enclosing context's pool), called in a context with a hard
// limit (here: the cpu guard of contexts requiring cpusafe).
func setmetatableOnFile(k c08Call) bool {
	if k.Fn != "debug.setmetatable" {
		return false
	}
	switch k.Spell {
	case "mm-call", "mm-index", "mm-concat", "gsub-fn":
		return false // the handle is not the first argument the function receives
	}
	a := firstArg(k.Args)
	return a == "H" || a == "io.stdout"
}

// recogniser of C08-unpack-s-length-panic: string.unpack whose format string
// starts with the option 's' (a string preceded by its length, which is then
// read from the data argument).
func unpackSFormat(k c08Call) bool {
	return k.Fn == "string.unpack" && strings.HasPrefix(firstArg(k.Args), `"s`)
}

// recogniser of C08-file-arg-nonfile-userdata-panic: a function of the io
// library that expects a file as its first argument is given the context
// object (the only non-file userdata of the pools) there.
func fileArgNonFile(k c08Call) bool {
	switch k.Fn {
	case "io.close", "io.input", "io.output", "io.type":
	default:
		if !strings.HasPrefix(k.Fn, "filemt.") {
			return false
		}
	}
	return firstArg(k.Args) == "CTX"
}

// recogniser of C08-popen-iosafe: io.popen with a command string in a context
// that requires iosafe and in which io.popen is not refused for another flag.
func (ck *checker) popenIosafe(k c08Call, flags int) bool {
	if k.Fn != "io.popen" || flags&flagIO == 0 {
		return false
	}
	if !stringyArg.MatchString(firstArg(k.Args)) && !(k.Spell == "gsub-fn") {
		return false
	}
	return flags&^ck.declaredOf(k) == 0
}

func (ck *checker) usable(spell string, flags int) bool {
	for _, h := range append(append([]string{}, commonHelpers...), spellHelpers[spell]...) {
		f, ok := ck.byName[h]
		if !ok {
			return false
		}
		if flags&^ck.declaredOf(c08Call{Fn: f.Name, Fetch: f.Fetch}) != 0 {
			return false
		}
	}
	return true
}

// check runs one case completely (self-contained: used by enumeration, rapid
// and replay). Returns kind and message of a violation, or "".
func (ck *checker) check(c c08Case) (kind, msg string) {
	rec := ck.rec
	t0 := time.Now()
	defer func() { tick("check-total", t0) }()
	for _, k := range c.Calls {
		if r := unsafeCombo(k.Fn, k.Args, k.Spell); r != "" {
			rec.Discard("excluded: " + r)
			return "", ""
		}
		if !ck.usable(k.Spell, c.Flags) {
			rec.Discard("spelling's helper functions are refused in this context")
			return "", ""
		}
	}
	if id := ck.isKF(c); id != "" {
		rec.Discard("excluded-by-finding:" + id)
		return "", ""
	}
	o := ck.run(c)
	v := ck.judge(c, o)
	if v.guard {
		rec.Discard("guard limit ended the context (not judged)")
		return "", ""
	}
	rec.Eval()
	// classes
	nref := 0
	for _, r := range v.refused {
		if r {
			nref++
		}
	}
	switch {
	case len(c.Calls) > 1:
		rec.Class(fmt.Sprintf("sequence/refused=%d-of-%d", nref, len(c.Calls)))
	case nref == 1:
		rec.Class("single/refused")
	case c.Flags&flagIO != 0:
		rec.Class("single/allowed-under-iosafe")
	case c.Flags == 0:
		rec.Class("single/unrestricted")
	default:
		rec.Class("single/allowed")
	}
	if c.Flags&flagIO != 0 && hasSecret(o, secretEnv) != "" {
		rec.Class("note/os.getenv-returns-the-environment-under-iosafe")
	}
	if v.msg != "" {
		return v.kind, v.msg
	}
	// outside-independence: what a context requiring iosafe lets Lua observe
	// must not depend on the state of the sentinel directory
	if c.Flags&flagIO != 0 && nref < len(c.Calls) {
		if msg := ck.outsideIndependence(c, o); msg != "" {
			return "iosafe-outside-dependence", msg
		}
	}
	// non-trivial: some call's tuple is effectful when unrestricted
	nontrivial := false
	if c.Flags != 0 {
		nt := false
		for _, k := range c.Calls {
			e := ck.calibrate(k)
			if e != nil && (e.Changes || e.Reads) {
				nt = true
			}
		}
		nontrivial = nt
		if nt {
			rec.NonTrivial(c.key())
			rec.Class("nontrivial/" + map[bool]string{true: "refused", false: "allowed"}[nref > 0] + map[bool]string{true: "+iosafe", false: ""}[c.Flags&flagIO != 0])
		}
	} else if len(c.Calls) == 1 {
		e := effectOf(o)
		ck.effects[calKey(c.Calls[0])] = &e
	}
	// spelling identity (single calls): same refusal as the pcall spelling
	if len(c.Calls) == 1 && c.Calls[0].Spell != "pcall" && ck.usable("pcall", c.Flags) {
		k := c.Calls[0]
		rk := fmt.Sprintf("%d|%s|%s", c.Flags, k.Fetch, k.Args)
		ref, ok := ck.refMsg[rk]
		if !ok {
			twin := c08Case{Flags: c.Flags, Calls: []c08Call{{Fn: k.Fn, Fetch: k.Fetch, Args: k.Args, Spell: "pcall"}}}
			if ck.isKF(twin) == "" && unsafeCombo(k.Fn, k.Args, k.Spell) == "" {
				to := ck.run(twin)
				tv := ck.judge(twin, to)
				if tv.msg == "" && !tv.guard {
					ref = "allowed"
					if tv.refused[0] {
						ref = tv.refMsgs[0]
					}
					ck.refMsg[rk] = ref
					ok = true
				}
			}
		}
		if ok {
			got := "allowed"
			if v.refused[0] {
				got = v.refMsgs[0]
			}
			if got != ref {
				return "spelling", fmt.Sprintf("%s(%s) in a context requiring %s: spelled with pcall the outcome is [%s], spelled %s it is [%s]\n  observed:\n%s",
					k.Fn, k.Args, flagSet(c.Flags), ref, k.Spell, got, o.String())
			}
		}
	} else if len(c.Calls) == 1 {
		k := c.Calls[0]
		ref := "allowed"
		if v.refused[0] {
			ref = v.refMsgs[0]
		}
		ck.refMsg[fmt.Sprintf("%d|%s|%s", c.Flags, k.Fetch, k.Args)] = ref
	}
	ck.nsamp++
	if ck.nsamp%211 == 0 || len(c.Calls) > 1 && ck.nsamp%17 == 0 || nontrivial && ck.nsamp%29 == 0 {
		rec.Sample(map[string]any{"flags": flagSet(c.Flags), "calls": c.Calls, "refused": v.refused, "events": trimEvents(o.Events)})
	}
	return "", ""
}

// obsLua is everything the Lua side of a run could observe.
func obsLua(o *obs) string {
	return strings.Join(o.Events, "\n") + "\nerr=" + o.Err + "\nouter=" + o.OuterStatus + "\npanic=" + o.Panic
}

// outsideIndependence re-runs an iosafe case with every sentinel file removed:
// code that has no access to the outside cannot tell the difference. A
// difference is only reported when both worlds reproduce their own outcome on
// a second run (clock values, addresses and random names vary by themselves).
func (ck *checker) outsideIndependence(c c08Case, o *obs) string {
	for _, k := range c.Calls {
		// this function value is fetched by the case's unrestricted prologue
		// from the sentinel directory itself: the prologue, not the context,
		// would see the difference
		if strings.Contains(k.Fetch, "searchers[2](") {
			ck.rec.Class("relation/outside-independence/not-applicable-prologue-reads-sentinel")
			return ""
		}
	}
	a1 :=ck.w.runCaseAbsent(c, false)
	ck.rec.Class("relation/outside-independence/compared")
	if obsLua(a1) == obsLua(o) {
		return ""
	}
	p2 := ck.run(c)
	a2 := ck.w.runCaseAbsent(c, false)
	if obsLua(p2) != obsLua(o) || obsLua(a2) != obsLua(a1) {
		ck.rec.Class("relation/outside-independence/varies-by-itself-not-judged")
		return ""
	}
	msg := fmt.Sprintf("the context requires iosafe, yet what Lua observes depends on whether the sentinel files exist\n  context flags %s; calls:", flagSet(c.Flags))
	for _, k := range c.Calls {
		msg += fmt.Sprintf("\n    %s(%s) spelled %s", k.Fn, k.Args, k.Spell)
	}
	return msg + "\n  observed with the files present:\n" + o.String() + "  observed with the files removed:\n" + a1.String()
}

func trimEvents(ev []string) []string {
	out := make([]string, 0, len(ev))
	for _, e := range ev {
		if len(e) > 160 {
			e = e[:160] + "…"
		}
		out = append(out, e)
	}
	return out
}

func calKey(k c08Call) string { return k.Fetch + "|" + k.Args + "|" + k.Spell }

func effectOf(o *obs) effect {
	return effect{
		Changes: len(o.Sentinel) > 0 || len(o.NewKids) > 0,
		Reads:   hasSecret(o, sentinelSecrets...) != "",
	}
}

// calibrate: does this call, in an UNRESTRICTED context, change or read the sentinel?
func (ck *checker) calibrate(k c08Call) *effect {
	if e, ok := ck.effects[calKey(k)]; ok {
		return e
	}
	if unsafeCombo(k.Fn, k.Args, k.Spell) != "" {
		return nil
	}
	o := ck.run(c08Case{Flags: 0, Calls: []c08Call{k}})
	e := effectOf(o)
	ck.effects[calKey(k)] = &e
	return &e
}

// ---------------------------------------------------------------- os.exit in a child process

const childEnv = "VERIF_C08_CHILD"

func childMain(spec string) {
	// spec: exit:<mask> or case:<json of a c08Case>
	w, err := newWorld()
	if err != nil {
		fmt.Println("C08CHILD harness-error", err)
		return
	}
	defer w.close()
	if strings.HasPrefix(spec, "case:") {
		var c c08Case
		if err := json.Unmarshal([]byte(strings.TrimPrefix(spec, "case:")), &c); err != nil {
			fmt.Println("C08CHILD harness-error", err)
			return
		}
		o := w.runCase(c, false)
		fmt.Printf("C08CHILD ran panic=%q events=%d\n", o.Panic, len(o.Events))
		return
	}
	mask, _ := strconv.Atoi(strings.TrimPrefix(spec, "exit:"))
	src := fmt.Sprintf(`local ctx, cerr = runtime.callcontext({flags = %q}, function()
  emit('res', 0, pcall(os.exit, 7))
end)
emit('ctx', ctx.status, cerr)`, flagString(mask))
	o := &obs{}
	w.runLua(src, o, nil)
	p := parseObs(o, 1)
	fmt.Printf("C08CHILD returned seen=%v refused=%v msg=%q panic=%q err=%q\n", p.calls[0].seen, p.calls[0].refused, p.calls[0].msg, o.Panic, o.Err)
}

// crashesInChild runs the case in a child process and reports whether the
// process died (fatal runtime error, unrecovered panic) instead of finishing.
func crashesInChild(c c08Case) (bool, string) {
	bin := os.Getenv("VERIF_BIN")
	if bin == "" {
		bin = os.Args[0]
	}
	b, _ := json.Marshal(c)
	cmd := exec.Command(bin, "-test.run", "^TestC08$", "-test.count", "1")
	cmd.Env = append(os.Environ(), childEnv+"=case:"+string(b), "VERIF_OUT=", "VERIF_REPLAY=")
	out, _ := cmd.CombinedOutput()
	for _, l := range strings.Split(string(out), "\n") {
		if strings.HasPrefix(l, "C08CHILD ran") {
			return !strings.Contains(l, `panic=""`), l
		}
	}
	desc := string(out)
	if i := strings.Index(desc, "fatal error"); i >= 0 {
		desc = desc[i:]
	}
	if len(desc) > 300 {
		desc = desc[:300]
	}
	return true, desc
}

// exitProbe runs os.exit(7) under the flag mask in a child process. Returns
// executed (process exited with 7), refused, and a description.
func exitProbe(mask int) (executed, refused bool, desc string) {
	bin := os.Getenv("VERIF_BIN")
	if bin == "" {
		bin = os.Args[0]
	}
	cmd := exec.Command(bin, "-test.run", "^TestC08$", "-test.count", "1")
	cmd.Env = append(os.Environ(), childEnv+"=exit:"+strconv.Itoa(mask), "VERIF_OUT=", "VERIF_REPLAY=")
	out, err := cmd.CombinedOutput()
	desc = strings.TrimSpace(string(out))
	for _, l := range strings.Split(desc, "\n") {
		if strings.HasPrefix(l, "C08CHILD returned") {
			return false, strings.Contains(l, "refused=true"), l
		}
	}
	// The child ended before printing its verdict. golua's os.exit maps any true
	// argument to exit status 0, so the status does not identify the call; a
	// process that ended silently (no crash report) was ended by os.exit.
	if strings.Contains(desc, "unexpected call to os.Exit") {
		return true, false, "the process was ended by os.exit"
	}
	if strings.Contains(desc, "fatal error") || strings.Contains(desc, "panic:") || strings.Contains(desc, "C08CHILD harness-error") {
		return false, false, "child crashed: " + desc
	}
	return true, false, fmt.Sprintf("the process was ended by os.exit (%v)", err)
}

// ---------------------------------------------------------------- the test

func TestC08(t *testing.T) {
	if spec := os.Getenv(childEnv); spec != "" {
		childMain(spec)
		return
	}
	if f := os.Getenv("VERIF_C08_LUA"); f != "" {
		// developer aid: run one Lua file (arguments S, G) through the harness
		src, err := os.ReadFile(f)
		if err != nil {
			t.Fatal(err)
		}
		w, err := newWorld()
		if err != nil {
			t.Fatal(err)
		}
		defer w.close()
		o := &obs{}
		w.runLua(string(src), o, nil)
		o.Sentinel = diffSnap(w.pristine, snapDir(w.S))
		fmt.Printf("C08LUA outer=%s\n%s", o.OuterStatus, o)
		return
	}
	rec := ev.New("C08")
	defer Finish(t, rec)
	defer func() {
		ms := map[string]int64{}
		for k, v := range phaseNS {
			ms[k] = v / 1e6
		}
		rec.Set(fmt.Sprintf("phase_ms_shard%d", rec.Shard()), ms)
	}()
	rec.Rule("every function reachable from _G, package.loaded, the string/file/context metatables and the iterators returned by library calls (discovered at run time) x subsets of {memsafe,cpusafe,timesafe,iosafe} x argument tuples (none, edge pool, effectful: sentinel paths x modes, touch/cat commands, modules resolving into the sentinel, the granted handle) x 14 call spellings, each in a fresh runtime and a fresh child context made by runtime.callcontext; plus rapid-drawn single calls and sequences of 2-5 calls in one context. Oracle: (a) declared flags inferred from no-argument calls in single-flag contexts, then refusal iff an undeclared flag is required, refusal is an ordinary error, identical across spellings, without any effect; (b) with iosafe required: sentinel directory (names, sizes, mtimes, hashes), child processes, open fds unchanged and no sentinel file content reaches Lua. Non-trivial: the context requires at least one flag and some call's tuple, run alone in an unrestricted context with the same spelling, changes the sentinel/starts a process or returns sentinel content; distinct by (flags, function, tuple, spelling) sequence.")
	rec.Assume("the property's last clause (all static call paths in the source from a function declared iosafe to an operating-system primitive) is a call-graph statement and is NOT checked by this technique; only behaviour reachable with the generated arguments is observed")
	rec.Assume("hard cpu/memory limits imply cpusafe/memsafe (quotas.md, PushContext), so a cpu limit guard is only added to contexts that already require cpusafe; the other contexts run without limits and the pools are bounded by construction. No hard memory limit is used: with one, golua's memory accounting can panic ('Too much mem released') on a coroutine goroutine, which would kill the check process (a defect of the memory-accounting properties, reported separately)")
	rec.Assume("a file handle or iterator created by unrestricted code and handed to restricted code is a granted capability (lib/iolib/lua/safeio.quotas.lua: 'functions operating on open files still work'); the granted file lives outside the sentinel; the same holds for the standard streams and for print/io.write to them")
	rec.Assume("os.getenv returning the process environment under iosafe is counted (class note/...) but not judged: the property's list (files, directories, processes, plugins, network) does not name the environment")
	rec.Assume("os.exit is never called in-process: its refusal is probed in child processes for the 15 non-empty flag sets; golib.import is only called with arguments that cannot reach the Go toolchain; debug.sethook only without arguments; stdin is /dev/null")

	// one case runs at a time (coroutines hand over control); more Ps only add
	// garbage-collector and scheduler overhead to the thousands of short runs
	runtime.GOMAXPROCS(2)
	tStart := time.Now()
	w, err := newWorld()
	if err != nil {
		t.Fatalf("cannot create the sentinel world: %v", err)
	}
	defer w.close()
	fns, err := w.discover()
	if err != nil {
		t.Fatal(err)
	}
	ck := &checker{rec: rec, w: w, fns: fns, byName: map[string]fnSpec{}, declared: map[string]int{}, refMsg: map[string]string{}, effects: map[string]*effect{}}
	for _, f := range fns {
		ck.byName[f.Name] = f
	}
	for _, h := range []string{"pcall", "type", "setmetatable", "io.popen", "io.open", "os.remove", "os.exit", "loadfile", "require", "runtime.killcontext", "ctx.killnow", "ctxmt.__index", "string.gsub", "coroutine.wrap", "load", "xpcall"} {
		if _, ok := ck.byName[h]; !ok {
			t.Fatalf("discovery did not find %s (found %d functions)", h, len(fns))
		}
	}
	single := func(f fnSpec, flags int, args, spell string) c08Case {
		return c08Case{Flags: flags, Calls: []c08Call{{Fn: f.Name, Fetch: f.Fetch, Args: args, Spell: spell}}}
	}

	if rec.Replay != "" {
		rf, err := rec.LoadReplay()
		if err != nil {
			t.Fatal(err)
		}
		if rf.Kind == "os.exit" {
			var mask int
			json.Unmarshal(rf.Case, &mask)
			rec.Eval()
			if ex, refused, desc := exitProbe(mask); ex || !refused {
				rec.Violation("os.exit", mask, "os.exit in a context requiring "+flagSet(mask)+": "+desc)
			}
			return
		}
		if rf.Kind == "repeat" {
			var c repeatCase
			if err := json.Unmarshal(rf.Case, &c); err != nil {
				t.Fatal(err)
			}
			rec.Eval()
			if msg := ck.checkRepeat(c); msg != "" {
				rec.Violation("repeat", c, msg)
			}
			return
		}
		var c c08Case
		if err := json.Unmarshal(rf.Case, &c); err != nil {
			t.Fatal(err)
		}
		if kind, msg := ck.check(c); msg != "" {
			rec.Violation(kind, c, msg)
		}
		return
	}

	popen := ck.byName["io.popen"]
	ck.kfPopen = CheckKnown(rec, "C08-popen-iosafe", func() bool {
		c := single(popen, flagIO, `"touch " .. S .. "/pwned-kf"`, "pcall")
		return ck.judge(c, ck.run(c)).msg != ""
	})

	ck.kfFileArg = CheckKnown(rec, "C08-file-arg-nonfile-userdata-panic", func() bool {
		c := single(ck.byName["io.close"], 0, `CTX`, "direct")
		return ck.judge(c, ck.run(c)).msg != ""
	})

	ck.kfUnpack = CheckKnown(rec, "C08-unpack-s-length-panic", func() bool {
		c := single(ck.byName["string.unpack"], 0, `"s", S .. "/exist.txt"`, "pcall")
		return ck.judge(c, ck.run(c)).msg != ""
	})

	ck.kfSetMT = CheckKnown(rec, "C08-debug-setmetatable-file-fatal", func() bool {
		// the defect kills the process: demonstrate it in a child
		crashed, _ := crashesInChild(single(ck.byName["debug.setmetatable"], flagCPU, `H, {}`, "pcall"))
		return crashed
	})

	nviol := 0
	report := func(kind string, c c08Case, msg string) {
		if msg == "" {
			return
		}
		if nviol < 8 {
			rec.Violation(kind, c, msg)
		}
		nviol++
	}

	// functions that can be called in-process
	var callable []fnSpec
	for _, f := range fns {
		rec.Class("discovered/" + f.What)
		if f.Name == "os.exit" {
			continue
		}
		callable = append(callable, f)
	}
	rec.Set("functions_discovered", len(fns))

	// 0. inference for every function (every shard needs it; evaluated by the owner)
	for _, f := range callable {
		ck.declaredOf(c08Call{Fn: f.Name, Fetch: f.Fetch})
	}
	decl := map[string]int{}
	for _, f := range callable {
		decl[flagSet(ck.declared[f.Fetch])]++
	}
	rec.Set("declared_flag_sets", decl)

	subsets := []int{0, flagIO, flagCPU, flagMem, flagTime, flagAll}
	if rec.Thorough() {
		subsets = subsets[:0]
		for s := 0; s < 16; s++ {
			subsets = append(subsets, s)
		}
	}
	item := 0
	// quick tier: every spelling under {} (the calibration) and {iosafe}; the
	// other single-flag contexts and all-four only with the pcall and direct spellings
	grid := func(f fnSpec, args string, spells []string, subsets []int) {
		for _, sp := range spells {
			for _, s := range subsets {
				if !rec.Thorough() && s != 0 && s != flagIO && sp != "pcall" && sp != "direct" {
					continue
				}
				kind, msg := ck.check(single(f, s, args, sp))
				report(kind, single(f, s, args, sp), msg)
			}
		}
	}
	fewSubsets := subsets
	if !rec.Thorough() {
		fewSubsets = []int{flagIO, flagAll}
	}

	phase := func(name string) {
		fmt.Printf("[c08 shard %d] %6.1fs runs=%d phase %s\n", rec.Shard(), time.Since(tStart).Seconds(), ck.runs, name)
	}
	phase("1 no-arg grid")
	// 1. no-argument calls: every function x subsets x every spelling
	for _, f := range callable {
		item++
		if !rec.Mine(item) {
			continue
		}
		grid(f, "", allSpellings, subsets)
	}

	phase("2 effectful grid")
	// 2. io family x effectful tuples; all spellings where the tuple is effectful
	for _, f := range callable {
		if !ioFamily.MatchString(f.Name) {
			continue
		}
		for _, args := range effTuples {
			item++
			if !rec.Mine(item) {
				continue
			}
			if unsafeCombo(f.Name, args, "pcall") != "" {
				rec.Discard("excluded: " + unsafeCombo(f.Name, args, "pcall"))
				continue
			}
			e := ck.calibrate(c08Call{Fn: f.Name, Fetch: f.Fetch, Args: args, Spell: "pcall"})
			if e != nil && (e.Changes || e.Reads) {
				rec.Class("calibration/effectful")
				grid(f, args, allSpellings, subsets)
			} else {
				rec.Class("calibration/no-effect")
				grid(f, args, []string{"pcall"}, fewSubsets)
			}
		}
	}

	phase("3 edge grid")
	// 3. all functions x edge tuples (thorough); other families x effectful tuples
	if rec.Thorough() {
		edges := edgeTuples()
		for _, f := range callable {
			for _, args := range edges {
				item++
				if !rec.Mine(item) {
					continue
				}
				grid(f, args, []string{"pcall"}, subsets)
			}
			if !ioFamily.MatchString(f.Name) {
				for _, args := range effTuples {
					item++
					if !rec.Mine(item) {
						continue
					}
					grid(f, args, []string{"pcall"}, subsets)
				}
			}
		}
	}

	phase("4 os.exit")
	// 4. os.exit, in child processes, for the 15 non-empty flag sets
	if rec.Shard() == 0 {
		exitDeclared := 0
		for i := range flagNames {
			ex, _, _ := exitProbe(1 << i)
			if ex {
				exitDeclared |= 1 << i
			}
		}
		for s := 1; s < 16; s++ {
			ex, refused, desc := exitProbe(s)
			rec.Eval()
			rec.Class("os.exit-in-child/" + map[bool]string{true: "executed", false: "refused"}[ex])
			exp := s&^exitDeclared != 0
			if exp && (ex || !refused) || !exp && !ex {
				nviol++
				rec.Violation("os.exit", s, fmt.Sprintf("os.exit (inferred declared flags %s) in a context requiring %s: %s", flagSet(exitDeclared), flagSet(s), desc))
			}
		}
	}
	if nviol > 0 {
		return
	}

	phase("5 rapid")
	defer phase("end")
	// 5. random single calls and sequences
	var ioFns, seqFns []fnSpec
	for _, f := range callable {
		if ioFamily.MatchString(f.Name) {
			ioFns = append(ioFns, f)
		}
		if !isKiller(f.Name) {
			seqFns = append(seqFns, f)
		}
	}
	valuePool := append([]string{}, edgeSingles...)
	valuePool = append(valuePool,
		`S .. "/exist.txt"`, `S .. "/new.txt"`, `S .. "/sub"`, `S .. "/emptydir"`, `S .. "/mod.lua"`, `S .. "/sub/inner.txt"`,
		`"exist.txt"`, `"mod"`, `S .. "/?.lua"`, `"w"`, `"a"`, `"r+"`, `"r"`, `"l"`, `"`+envName+`"`,
		`"touch " .. S .. "/pwned-r"`, `"cat " .. S .. "/exist.txt"`, `"some data"`, `"set"`,
	)
	genArgs := rapid.Custom(func(t *rapid.T) string {
		n := rapid.IntRange(0, 3).Draw(t, "nargs")
		var a []string
		for i := 0; i < n; i++ {
			a = append(a, rapid.SampledFrom(valuePool).Draw(t, "arg"))
		}
		return strings.Join(a, ", ")
	})
	safeArgs := func(t *rapid.T, f fnSpec) string {
		args := genArgs.Draw(t, "args")
		if unsafeCombo(f.Name, args, "pcall") != "" {
			// construction: replace the first argument by a safe one
			rest := ""
			if i := len(firstArg(args)); i < len(args) {
				rest = args[i:]
			}
			first := rapid.SampledFrom([]string{`"touch " .. S .. "/pwned-r"`, `"cat " .. S .. "/exist.txt"`, `nil`, `{}`, `1`}).Draw(t, "safe-first")
			if f.Name == "golib.import" || f.Name == "debug.sethook" || isKiller(f.Name) {
				return ""
			}
			args = first + rest
		}
		if ck.kfSetMT && setmetatableOnFile(c08Call{Fn: f.Name, Args: args}) {
			// construction around the open finding: a table instead of the file handle
			args = "{}" + args[len(firstArg(args)):]
		}
		if ck.kfUnpack && unpackSFormat(c08Call{Fn: f.Name, Args: args}) {
			// construction around the open finding: a format that is not a counted string
			args = `"z"` + args[len(firstArg(args)):]
		}
		if ck.kfFileArg && fileArgNonFile(c08Call{Fn: f.Name, Args: args}) {
			// construction around the open finding: the granted handle instead of the context object
			args = "H" + args[len("CTX"):]
		}
		return args
	}
	genFn := func(t *rapid.T, pool1, pool2 []fnSpec, flags int) fnSpec {
		for {
			var f fnSpec
			if rapid.Bool().Draw(t, "io-family") {
				f = rapid.SampledFrom(pool1).Draw(t, "fn")
			} else {
				f = rapid.SampledFrom(pool2).Draw(t, "fn")
			}
			// construction around the open finding: under iosafe io.popen is replaced by io.open
			if ck.kfPopen && f.Name == "io.popen" && flags&flagIO != 0 {
				f = ck.byName["io.open"]
			}
			return f
		}
	}
	var seqIO []fnSpec
	for _, f := range ioFns {
		if !isKiller(f.Name) {
			seqIO = append(seqIO, f)
		}
	}
	// repeated refusals in one thread of one runtime
	{
		ridx := 0
		for _, rc := range repeatCases {
			for _, inCo := range []bool{false, true} {
				ridx++
				if !rec.Mine(ridx) {
					continue
				}
				c := repeatCase{Flags: rc.flags, Call: rc.call, Probe: rc.probe, N: rec.Pick(1500, 6000), InCo: inCo}
				rec.Eval()
				rec.Class("repeated-refusals")
				rec.NonTrivial(fmt.Sprint("repeat|", c))
				if msg := ck.checkRepeat(c); msg != "" {
					rec.Violation("repeat", c, msg)
					return
				}
			}
		}
	}
	RunRapid(rec, "C08/random-single", rec.Pick(800, 5000), 0, func(t *rapid.T) {
		flags := rapid.IntRange(0, 15).Draw(t, "flags")
		f := genFn(t, ioFns, callable, flags)
		c := single(f, flags, safeArgs(t, f), rapid.SampledFrom(allSpellings).Draw(t, "spelling"))
		if kind, msg := ck.check(c); msg != "" {
			FailCase(t, kind, c, "%s", msg)
		}
	})
	var seqSpells []string // not "direct": a raising direct call ends the body
	for _, sp := range allSpellings {
		if sp != "direct" {
			seqSpells = append(seqSpells, sp)
		}
	}
	RunRapid(rec, "C08/random-sequence", rec.Pick(300, 2500), 1, func(t *rapid.T) {
		flags := rapid.IntRange(1, 15).Draw(t, "flags")
		n := rapid.IntRange(2, 5).Draw(t, "ncalls")
		c := c08Case{Flags: flags}
		for i := 0; i < n; i++ {
			f := genFn(t, seqIO, seqFns, flags)
			c.Calls = append(c.Calls, c08Call{Fn: f.Name, Fetch: f.Fetch, Args: safeArgs(t, f), Spell: rapid.SampledFrom(seqSpells).Draw(t, "spelling")})
		}
		if kind, msg := ck.check(c); msg != "" {
			FailCase(t, kind, c, "%s", msg)
		}
	})
}
