package c09

import (
	"encoding/json"
	"fmt"
	"os"
	"runtime"
	"strconv"
	"strings"
	"testing"
	"time"

	"pgregory.net/rapid"

	"verif/internal/ev"
	"verif/internal/harness"
	"verif/internal/luagen"
	"verif/internal/mlua"
	. "verif/internal/pbt"
	"verif/internal/progcheck"
)

// C09 — coroutines: exact value transfer, legal status transitions, one
// thread at a time (race detector), no deadlock, no leaked goroutine.
// This package is built with -race by the driver.

const watchdog = 60 * time.Second

// runWatched runs golua on c with a watchdog: a run that does not come back
// is a deadlock (control never returned to the resumer).
func runWatched(c progcheck.Case, o harness.Opts) (tr *harness.Trace, hung bool) {
	done := make(chan *harness.Trace, 1)
	go func() { done <- progcheck.RunGolua(c, o) }()
	select {
	case tr = <-done:
		return tr, false
	case <-time.After(watchdog):
		// confirm on a (hopefully) idle moment: give it as long again
		select {
		case tr = <-done:
			return tr, false
		case <-time.After(watchdog):
			return nil, true
		}
	}
}

// residentBytes reads the process's resident set size (the race detector's
// shadow memory is not part of Go's own statistics).
func residentBytes() uint64 {
	b, err := os.ReadFile("/proc/self/statm")
	if err != nil {
		return 0
	}
	f := strings.Fields(string(b))
	if len(f) < 2 {
		return 0
	}
	pages, _ := strconv.ParseUint(f[1], 10, 64)
	return pages * uint64(os.Getpagesize())
}

// settle waits for goroutines of finished coroutines to exit; returns the
// number of goroutines above the baseline that remain.
func settle(base int) int {
	deadline := time.Now().Add(5 * time.Second)
	for {
		n := runtime.NumGoroutine()
		if n <= base || time.Now().After(deadline) {
			return n - base
		}
		runtime.Gosched()
		time.Sleep(time.Millisecond)
	}
}

type checker struct {
	rec       *ev.Recorder
	raceSeen  int
	poisoned  bool // a hung run leaves goroutines behind: stop judging leaks
	baseGorou int
}

// check runs one case fully (trace, race, deadlock, leak). allEnded: every
// coroutine of the program is dead at the end (then no goroutine may remain).
func (k *checker) check(c progcheck.Case, o harness.Opts, allEnded bool) string {
	tr, hung := runWatched(c, o)
	if hung {
		k.poisoned = true
		return fmt.Sprintf("deadlock: golua did not return within %v (control never came back to the resumer)", 2*watchdog)
	}
	if msg := progcheck.Compare(c.Expected, tr); msg != "" {
		return msg
	}
	if log := RaceLog(); len(log) > k.raceSeen {
		report := log[k.raceSeen:]
		k.raceSeen = len(log)
		if len(report) > 6000 {
			report = report[:6000] + "…"
		}
		return "data race reported by the Go race detector while running this program:\n" + report
	}
	if allEnded && !k.poisoned {
		if extra := settle(k.baseGorou); extra > 0 {
			// re-measure the baseline once (other runtime goroutines may have appeared)
			time.Sleep(200 * time.Millisecond)
			if extra = settle(k.baseGorou); extra > 0 {
				k.baseGorou += extra // do not report the same leak again
				return fmt.Sprintf("%d goroutine(s) left behind although every coroutine has finished, failed or been closed", extra)
			}
		}
	}
	return ""
}

// checkLiveness runs a script whose values the manual does not determine and
// checks only what holds regardless: golua returns (no deadlock), no Go panic,
// no race report, every status the main thread reads of a coroutine while no
// coroutine is running is "suspended" or "dead" ("normal"/"running" would mean
// a resumer that never got control back), and when the final statuses are all
// "dead" no goroutine is left.
func (k *checker) checkLiveness(c progcheck.Case) string {
	tr, hung := runWatched(c, harness.Opts{})
	if hung {
		k.poisoned = true
		return fmt.Sprintf("deadlock: golua did not return within %v (control never came back to the resumer)", 2*watchdog)
	}
	if tr.Panic != "" {
		return "Go panic: " + tr.Panic
	}
	if log := RaceLog(); len(log) > k.raceSeen {
		report := log[k.raceSeen:]
		k.raceSeen = len(log)
		if len(report) > 6000 {
			report = report[:6000] + "…"
		}
		return "data race reported by the Go race detector while running this program:\n" + report
	}
	allDead := false
	for _, e := range tr.Events {
		// the main program's status probes: emit("sN", status(A), status(B))
		if len(e) > 5 && strings.HasPrefix(e, `s:"s`) && e[4] >= '0' && e[4] <= '9' && e[5] == '"' {
			if strings.Contains(e, `s:"normal"`) || strings.Contains(e, `s:"running"`) {
				return "the main thread, with no coroutine running, reads the status of a coroutine as normal/running: a resumer never got control back: " + e
			}
			allDead = !strings.Contains(e, `s:"suspended"`)
		}
	}
	if allDead && !k.poisoned {
		if extra := settle(k.baseGorou); extra > 0 {
			time.Sleep(200 * time.Millisecond)
			if extra = settle(k.baseGorou); extra > 0 {
				k.baseGorou += extra
				return fmt.Sprintf("%d goroutine(s) left behind although every coroutine is dead", extra)
			}
		}
	} else if !allDead {
		// coroutines that stay suspended keep their goroutines: they become
		// part of the baseline (after the finished ones have had time to go)
		deadline := time.Now().Add(300 * time.Millisecond)
		for runtime.NumGoroutine() > k.baseGorou && time.Now().Before(deadline) {
			time.Sleep(2 * time.Millisecond)
		}
		if n := runtime.NumGoroutine(); n > k.baseGorou {
			k.baseGorou = n
		}
	}
	return ""
}

// kill templates: termination by quota inside a coroutine.
var killTemplates = []struct {
	name, src string
	cpu, mem  uint64
}{
	{"cpu-kill-in-coroutine", `local co = coroutine.wrap(function() emit("in") while true do end end) emit("before") co() emit("unreachable")`, 20000, 0},
	{"cpu-kill-nested-coroutines", `local inner = coroutine.wrap(function() coroutine.yield(1) while true do end end)
local outer = coroutine.wrap(function() emit("o", inner()) inner() end) emit("before") outer() emit("unreachable")`, 20000, 0},
	{"mem-kill-in-coroutine", `local co = coroutine.wrap(function() local t = {} for i = 1, 1e9 do t[i] = ("x"):rep(100) .. i end end) emit("before") co() emit("unreachable")`, 0, 3000000},
	{"cpu-kill-with-suspended-others", `local cos = {} for i = 1, 20 do cos[i] = coroutine.wrap(function() coroutine.yield(i) coroutine.yield(i) end) cos[i]() end
emit("suspended", #cos) local co = coroutine.wrap(function() while true do end end) co()`, 50000, 0},
	{"cpu-kill-in-coroutine-in-pcall", `emit(pcall(function() local co = coroutine.wrap(function() pcall(function() while true do end end) end) co() end)) emit("unreachable")`, 20000, 0},
	{"cpu-kill-with-pending-close", `local co = coroutine.wrap(function() local c <close> = setmetatable({}, {__close = function() emit("closer-must-not-run") end}) while true do end end) co()`, 20000, 0},
}

func TestC09(t *testing.T) {
	rec := ev.New("C09")
	defer Finish(t, rec)
	rec.Rule("(1) exhaustive scripts over two coroutines: A's body is every sequence of <= 2 (quick) / 3 (thorough) actions, B's every sequence of <= 2, from {yield, resume the peer, resume self, read statuses/isyieldable, error, close the peer, yield inside pcall, declare a to-be-closed variable, coroutine.running, yield inside a pcall that holds a to-be-closed variable, a to-be-closed variable whose handler creates/resumes/wraps/closes coroutines, one whose handler yields}; scripts whose values the manual leaves open are run all the same and judged on the model-free clauses only (liveness-only); driven by a main program that resumes each up to three times with values, reads statuses, yields from main, closes both and resumes a dead one; (2) rapid programs from the coroutine-heavy profile (generators, wrap, nested coroutines, yield across pcall, close with pending handlers, errors inside coroutines) in several renderings; (3) kill-by-quota templates inside coroutines; (4) a coroutine suspended INSIDE a callback: 30 places where the library or the VM calls back into Lua (order functions, replacement functions and tables, readers, __tostring/__index/__newindex/arithmetic/comparison/__close/__call handlers, iterators, message handlers) x {direct, in pcall, in a nested function, in a pcall holding a to-be-closed variable} x {closed while suspended there, resumed to the end, resumed and the callback raises, closed after its own resumer was closed}, expected traces written out from the manual (they do not depend on the place). The thorough tier visits the 3-action grid in a seeded random order and stops when the shard's share of 1500 scripts, its resident memory (2 GiB) or 12 minutes are used up (sampling budget, no verdict depends on it; reported under grid_stopped). Oracle: reference interpreter for values/status/errors; Go race detector (the binary is built with -race; any report attributed to the running program is a violation); a watchdog for deadlock; goroutine count back to baseline when every coroutine has ended. GOMAXPROCS is varied. Non-trivial: both coroutines were resumed and at least one of {nested resume, error delivered to a resumer, close of a suspended started coroutine, kill} occurred; distinct by program text.")
	rec.Assume("schedules inside Go's runtime are sampled (GOMAXPROCS, repetition), not enumerated; the race detector reports a conflicting pair whenever both accesses execute without happens-before, independent of timing")
	rec.Assume("a wall-clock watchdog (2 x 60 s) is used only to call a run that never returns a deadlock")
	progcheck.ApplyKnownFindings(rec)

	procs := []int{4}
	if rec.Thorough() {
		procs = []int{1, 2, 4, 16}
	}
	k := &checker{rec: rec}
	// warm up so that lazily started runtime goroutines are in the baseline
	runWatched(progcheck.Case{Source: "local co = coroutine.wrap(function() coroutine.yield(1) end) co() co()"}, harness.Opts{})
	time.Sleep(100 * time.Millisecond)
	k.baseGorou = runtime.NumGoroutine()
	k.raceSeen = len(RaceLog())

	if rec.Replay != "" {
		rf, err := rec.LoadReplay()
		if err != nil {
			t.Fatal(err)
		}
		var c progcheck.Case
		if err := json.Unmarshal(rf.Case, &c); err != nil {
			t.Fatal(err)
		}
		rec.Eval()
		if strings.HasPrefix(c.Note, "liveness:") {
			if msg := k.checkLiveness(c); msg != "" {
				rec.Violation("program", c, msg)
			}
			return
		}
		for i := 0; i < 5; i++ { // schedule-dependent failures: a few attempts
			if msg := k.check(c, harness.Opts{}, false); msg != "" {
				rec.Violation("program", c, msg)
				break
			}
		}
		return
	}

	// (1) exhaustive scripts
	const gridShare = 1500 // thorough: scripts per shard
	var grid []luagen.GridCase
	if !rec.Thorough() {
		grid = luagen.CoroutineScripts(2)
	} else {
		// size of the full grid without building it
		grid = luagen.CoroutineScriptsWhere(3, func(int) bool { return false })
	}
	rec.Set("grid_size", len(grid))
	nviol := 0
	// The thorough grid (A's sequences up to 3 actions) is far larger than what
	// one pass can run: never-finished coroutines keep their goroutines, and
	// under the race detector every script costs memory that is not given
	// back. The thorough tier therefore visits the grid in a seeded
	// pseudo-random order and stops, without any verdict depending on it, when
	// the shard's resident memory or its share of the time is used up; the
	// quick tier's grid (<= 2 actions each) is always enumerated completely.
	order := make([]int, len(grid))
	for i := range order {
		order[i] = i
	}
	gridStart, gridDone, gridStopped := time.Now(), 0, ""
	if rec.Thorough() {
		x := rec.BaseSeed()*0x9E3779B97F4A7C15 + 77 // the same order in every shard
		for i := len(order) - 1; i > 0; i-- {
			x = x*6364136223846793005 + 1442695040888963407
			j := int((x >> 33) % uint64(i+1))
			order[i], order[j] = order[j], order[i]
		}
		// build only the scripts this shard can reach
		mine, want := 0, map[int]bool{}
		for pos, i := range order {
			if rec.Mine(pos) && mine < gridShare {
				want[i] = true
				mine++
			}
		}
		grid = luagen.CoroutineScriptsWhere(3, func(i int) bool { return want[i] })
	}
	for pos, i := range order {
		gc := grid[i]
		if !rec.Mine(pos) || nviol >= 5 {
			continue
		}
		if rec.Thorough() && gridDone%100 == 0 {
			if gridDone >= gridShare {
				gridStopped = fmt.Sprint(gridShare, " scripts")
			} else if rss := residentBytes(); rss > 2000<<20 {
				gridStopped = fmt.Sprintf("resident memory %d MiB", rss>>20)
			} else if time.Since(gridStart) > 12*time.Minute {
				gridStopped = "12 minutes"
			}
			if gridStopped != "" {
				break
			}
		}
		gridDone++
		runtime.GOMAXPROCS(procs[i%len(procs)])
		src, lines := mlua.Render(gc.Block, nil)
		res := progcheck.Model(gc.Block, lines, nil)
		if res.Unspecified != "" || res.Budget {
			rec.Discard("unspecified: " + res.Unspecified)
			if res.Unspecified != "" {
				// the values are not determined by the manual, but the
				// model-free clauses still are: control comes back, no race,
				// legal statuses seen from the main thread, no goroutine left
				// when every coroutine is dead
				lc := progcheck.Case{Source: src, Note: "liveness:" + gc.Name}
				rec.Class("script:liveness-only")
				if msg := k.checkLiveness(lc); msg != "" {
					nviol++
					rec.Violation("program", lc, msg+"\n--- script "+gc.Name+" (values unspecified; liveness only) ---\n"+progcheck.Numbered(src))
					if strings.HasPrefix(msg, "deadlock") {
						nviol = 5
					}
				}
			}
			continue
		}
		c := progcheck.Case{Source: src, Expected: progcheck.ExpectedOf(res), Note: gc.Name}
		rec.Eval()
		f := res.Feat
		if f["resume"] >= 2 && (f["coroutine-error-to-resumer"] > 0 || f["close-suspended-started"] > 0 || f["resume-non-suspended"] > 0 || strings.Contains(gc.Name, "resume-peer")) {
			rec.NonTrivial(src)
		}
		for _, name := range []string{"coroutine-error-to-resumer", "close-suspended-started", "resume-non-suspended", "yield", "close-handler-run"} {
			if f[name] > 0 {
				rec.Class("script:" + name)
			}
		}
		rec.Sample(map[string]any{"script": gc.Name, "events": len(res.Events)})
		if msg := k.check(c, harness.Opts{}, true); msg != "" {
			nviol++
			if strings.HasPrefix(msg, "data race") || strings.HasPrefix(msg, "deadlock") {
				// the reducer re-runs golua without a watchdog: do not hand it a program that hangs
				rec.Violation("program", c, msg+"\n--- script "+gc.Name+" ---\n"+progcheck.Numbered(src))
				if strings.HasPrefix(msg, "deadlock") {
					nviol = 5 // every further hang costs two watchdog periods
				}
				continue
			}
			red := progcheck.Reduce(gc.Block, nil, harness.Opts{}, 300)
			if m2, c2, def := progcheck.Check(red, nil, harness.Opts{}); def && m2 != "" {
				c2.Note = gc.Name
				rec.Violation("program", c2, m2+"\n--- script "+gc.Name+" (reduced) ---\n"+progcheck.Numbered(c2.Source))
			} else {
				rec.Violation("program", c, msg+"\n--- script "+gc.Name+" ---\n"+progcheck.Numbered(src))
			}
		}
	}
	rec.Exhaustive(gridStopped == "")
	rec.Set("grid_scripts_run_by_this_shard", gridDone)
	if gridStopped != "" {
		rec.Set("grid_stopped", "after "+fmt.Sprint(gridDone)+" scripts of this shard's share (seeded random order): "+gridStopped)
		fmt.Printf("C09: grid stopped after %d scripts (%s)\n", gridDone, gridStopped)
	}
	if nviol > 0 {
		return
	}

	// (4) coroutines suspended inside a callback of the library / the VM
	for i, cc := range callbackCases() {
		if !rec.Mine(i) {
			continue
		}
		runtime.GOMAXPROCS(procs[i%len(procs)])
		c := cc.progCase()
		rec.Eval()
		rec.Class("callback:" + cc.name[:strings.Index(cc.name, ":")])
		rec.NonTrivial(cc.src)
		if msg := k.check(c, harness.Opts{}, true); msg != "" {
			rec.Violation("program", c, cc.name+": "+msg+"\n--- program ---\n"+progcheck.Numbered(cc.src))
			nviol++
			if strings.HasPrefix(msg, "deadlock") || nviol >= 5 {
				return
			}
		}
	}
	if nviol > 0 {
		return
	}

	// (3) kill templates
	for i, tpl := range killTemplates {
		if !rec.Mine(i) {
			continue
		}
		for _, p := range procs {
			runtime.GOMAXPROCS(p)
			c := progcheck.Case{Source: tpl.src, Note: tpl.name}
			tr, hung := runWatched(c, harness.Opts{CPU: tpl.cpu, Mem: tpl.mem})
			rec.Eval()
			rec.Class("kill-template")
			rec.NonTrivial(tpl.name + fmt.Sprint(p))
			msg := ""
			switch {
			case hung:
				msg = "deadlock: the context was not terminated / control did not come back"
				k.poisoned = true
			case tr.Panic != "":
				msg = "Go panic: " + tr.Panic
			case !tr.Killed:
				msg = fmt.Sprintf("expected the context to be killed, got status %q error %q events %v", tr.Status, tr.ErrTok, tr.Events)
			default:
				for _, e := range tr.Events {
					if strings.Contains(e, "unreachable") || strings.Contains(e, "must-not-run") {
						msg = "code ran after the kill: " + e
					}
				}
				if log := RaceLog(); msg == "" && len(log) > k.raceSeen {
					msg = "data race reported by the Go race detector:\n" + log[k.raceSeen:]
					k.raceSeen = len(log)
				}
				// coroutines that are merely suspended (never finished, failed or
				// closed) are outside the property's no-leak clause
				if msg == "" && !k.poisoned && !strings.Contains(tpl.name, "suspended-others") {
					if extra := settle(k.baseGorou); extra > 0 {
						k.baseGorou += extra
						msg = fmt.Sprintf("%d goroutine(s) left behind after the context was killed and the runtime closed", extra)
					}
				}
			}
			if msg != "" {
				rec.Violation("kill-template", map[string]any{"name": tpl.name, "source": tpl.src, "cpu": tpl.cpu, "mem": tpl.mem, "gomaxprocs": p}, tpl.name+": "+msg)
				return
			}
			if strings.Contains(tpl.name, "suspended-others") {
				time.Sleep(50 * time.Millisecond)
				k.baseGorou = runtime.NumGoroutine() // the suspended coroutines' goroutines stay
			}
		}
	}

	// (2) random coroutine-heavy programs
	ShrinkTime = "1ms"
	prof := luagen.General
	prof.Name, prof.Coroutines, prof.Close, prof.Errors = "coroutines", 30, 6, 6
	renderings := 2
	n := 0
	overBudget := false
	RunRapid(rec, "C09/programs", rec.Pick(120, 400), 0, func(t *rapid.T) {
		n++
		runtime.GOMAXPROCS(procs[n%len(procs)])
		prog := luagen.Generate(t, prof)
		if overBudget = overBudget || (n%20 == 0 && residentBytes() > 3000<<20); overBudget {
			// sampling budget (see the grid): no verdict depends on it
			rec.Discard("memory-budget (random part)")
			return
		}
		specs := progcheck.ArgSpecs(prog.Args)
		for r := 0; r < renderings; r++ {
			var ch mlua.Chooser
			if r > 0 {
				ch = progcheck.RapidChooser{T: t}
			}
			src, lines := mlua.Render(prog.Block, ch)
			res := progcheck.Model(prog.Block, lines, specs)
			if r == 0 {
				progcheck.ClassifyGen(rec, prog, res)
			}
			if res.Unspecified != "" || res.Budget || res.OrderSensitive {
				rec.Discard("unspecified/budget (random part)")
				return
			}
			c := progcheck.Case{Source: src, Args: specs, Expected: progcheck.ExpectedOf(res)}
			rec.Eval()
			if r == 0 && res.Feat["yield"] > 0 {
				rec.Class("random:yields")
				if res.Feat["coroutine-error-to-resumer"]+res.Feat["close-suspended-started"]+res.Feat["coroutine-error-through-wrap"] > 0 {
					rec.NonTrivial(src + strings.Join(specs, ","))
				}
			}
			if msg := k.check(c, harness.Opts{}, false); msg != "" {
				if strings.HasPrefix(msg, "data race") || strings.HasPrefix(msg, "deadlock") {
					FailCase(t, "program", c, "%s\n--- program ---\n%s", msg, progcheck.Numbered(src))
				}
				red := progcheck.Reduce(prog.Block, specs, harness.Opts{}, 600)
				if m2, c2, def := progcheck.Check(red, specs, harness.Opts{}); def && m2 != "" {
					FailCase(t, "program", c2, "%s\n--- program (reduced) ---\n%s--- args: %v", m2, progcheck.Numbered(c2.Source), specs)
				}
				FailCase(t, "program", c, "%s\n--- program ---\n%s--- args: %v", msg, progcheck.Numbered(src), specs)
			}
		}
	})
}
