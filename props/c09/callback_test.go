package c09

import (
	"strings"

	"verif/internal/progcheck"
)

// Coroutines suspended INSIDE a callback: golua lets Lua code yield from every
// place where the library or the VM calls back into Lua (order functions,
// replacement functions, metamethods, iterators, readers, handlers). What the
// resumer and a later coroutine.close / resume observe does not depend on the
// place: the yield's values arrive, the status is "suspended", close runs the
// pending to-be-closed variables with no error, leaves the coroutine dead and
// returns true, and nothing of the body runs afterwards; a resume delivers its
// values to the yield and the body goes on. The expected traces below are
// written out from that (they are the same for every site).

// callbackSites: CB is replaced by the callback.
var callbackSites = []struct {
	name, call string
	protects   bool // the site catches an error of its callback itself
}{
	{"sort-cmp", `table.sort({3, 2, 1}, CB)`, false},
	{"sort-lt", `local o = setmetatable({}, {__lt = CB}) table.sort({o, o, o})`, false},
	{"sort-index", `table.sort(setmetatable({}, {__index = CB, __len = function() return 3 end}))`, false},
	{"gsub-fn", `string.gsub("abc", ".", CB)`, false},
	{"gsub-table-index", `string.gsub("abc", ".", setmetatable({}, {__index = CB}))`, false},
	{"load-reader", `load(CB)`, true},
	{"tostring", `tostring(setmetatable({}, {__tostring = CB}))`, false},
	{"format-s", `string.format("%s", setmetatable({}, {__tostring = CB}))`, false},
	{"print", `print(setmetatable({}, {__tostring = CB}))`, false},
	{"concat-index", `table.concat(setmetatable({}, {__index = CB}), ",", 1, 3)`, false},
	{"insert-newindex", `table.insert(setmetatable({}, {__newindex = CB}), 1)`, false},
	{"unpack-index", `table.unpack(setmetatable({}, {__index = CB}), 1, 3)`, false},
	{"move-index", `table.move(setmetatable({}, {__index = CB}), 1, 3, 2, {})`, false},
	{"ipairs-index", `for _ in ipairs(setmetatable({}, {__index = CB})) do end`, false},
	{"pairs-metamethod", `for _ in pairs(setmetatable({}, {__pairs = CB})) do end`, false},
	{"index", `local _ = setmetatable({}, {__index = CB}).k`, false},
	{"newindex", `setmetatable({}, {__newindex = CB}).k = 1`, false},
	{"call", `setmetatable({}, {__call = CB})()`, false},
	{"arith", `local _ = setmetatable({}, {__add = CB}) + 1`, false},
	{"concat", `local _ = setmetatable({}, {__concat = CB}) .. "x"`, false},
	{"len", `local _ = #setmetatable({}, {__len = CB})`, false},
	{"eq", `local m = {__eq = CB} local _ = setmetatable({}, m) == setmetatable({}, m)`, false},
	{"lt", `local _ = setmetatable({}, {__lt = CB}) < 1`, false},
	{"unm", `local _ = -setmetatable({}, {__unm = CB})`, false},
	{"close-handler", `do local cl <close> = setmetatable({}, {__close = CB}) end`, false},
	{"xpcall-handler", `xpcall(error, CB, "x")`, true},
	{"for-iterator", `for _ in CB do end`, false},
	{"select-after-call", `select(2, (CB)())`, false},
	{"pcall-direct", `pcall(CB)`, true},
	{"next-via-pairs-body", `for k in pairs({1}) do CB() end`, false},
}

var callbackWrappers = []struct{ name, src string }{
	{"direct", `SITE`},
	{"in-pcall", `pcall(function() SITE end)`},
	{"in-function", `;(function() SITE return 1 end)()`},
	{"in-pcall-with-tbc", `pcall(function() local inner <close> = setmetatable({}, {__close = function(_, e) emit("inner-closed", e == nil) end}) SITE end)`},
}

const cbPrelude = `local first = true
local function CB(...)
  if first then
    first = false
    emit("callback-resumed", coroutine.yield("in-callback"))
    AFTER
  end
  return nil
end
local co = coroutine.create(function()
  local guard <close> = setmetatable({}, {__close = function(_, e) emit("guard-closed", e == nil) end})
  WRAPPED
  emit("body-went-on")
  return "ret"
end)
`

type cbCase struct {
	name   string
	src    string
	events [][]string
}

func q(s string) string { return `s:"` + s + `"` }

func callbackCases() []cbCase {
	var out []cbCase
	deadResume := []string{q("r-dead"), "false"}
	for _, s := range callbackSites {
		for _, w := range callbackWrappers {
			wrapped := strings.ReplaceAll(w.src, "SITE", s.call)
			pre := strings.ReplaceAll(cbPrelude, "WRAPPED", wrapped)
			tbc := w.name == "in-pcall-with-tbc"
			// (a) closed while suspended inside the callback
			{
				src := strings.ReplaceAll(pre, "AFTER", "") + `emit("r1", coroutine.resume(co))
emit("st1", coroutine.status(co))
emit("close", coroutine.close(co))
emit("st2", coroutine.status(co))
emit("r-dead", (coroutine.resume(co)))
`
				ev := [][]string{{q("r1"), "true", q("in-callback")}, {q("st1"), q("suspended")}}
				if tbc {
					ev = append(ev, []string{q("inner-closed"), "true"})
				}
				ev = append(ev, []string{q("guard-closed"), "true"}, []string{q("close"), "true"}, []string{q("st2"), q("dead")}, deadResume)
				out = append(out, cbCase{"closed-in-callback:" + s.name + "/" + w.name, src, ev})
			}
			// (b) resumed: the callback returns, the site finishes somehow (inside a
			// pcall, so that a site that dislikes the callback's nil cannot end the body)
			if w.name == "in-pcall" || tbc {
				// (whether the site then fails, and so whether the inner variable is
				// closed with an error, depends on the site)
				src := strings.ReplaceAll(strings.ReplaceAll(pre, `emit("inner-closed", e == nil)`, `emit("inner-closed", true)`), "AFTER", "") + `emit("r1", coroutine.resume(co))
emit("st1", coroutine.status(co))
emit("r2", coroutine.resume(co, 42))
emit("st2", coroutine.status(co))
emit("r-dead", (coroutine.resume(co)))
`
				ev := [][]string{{q("r1"), "true", q("in-callback")}, {q("st1"), q("suspended")}, {q("callback-resumed"), "i:42"}}
				if tbc {
					ev = append(ev, []string{q("inner-closed"), "true"})
				}
				ev = append(ev, []string{q("body-went-on")}, []string{q("guard-closed"), "true"}, []string{q("r2"), "true", q("ret")}, []string{q("st2"), q("dead")}, deadResume)
				out = append(out, cbCase{"resumed-in-callback:" + s.name + "/" + w.name, src, ev})
			}
			// (c) resumed and the callback raises: the error reaches the resumer
			if (w.name == "direct" || w.name == "in-function") && !s.protects {
				src := strings.ReplaceAll(pre, "AFTER", `error("boom", 0)`) + `emit("r1", coroutine.resume(co))
emit("r2", (coroutine.resume(co, 42)))
emit("st2", coroutine.status(co))
emit("r-dead", (coroutine.resume(co)))
`
				ev := [][]string{{q("r1"), "true", q("in-callback")}, {q("callback-resumed"), "i:42"}, {q("guard-closed"), "false"}, {q("r2"), "false"}, {q("st2"), q("dead")}, deadResume}
				out = append(out, cbCase{"error-after-callback-yield:" + s.name + "/" + w.name, src, ev})
			}
		}
		// (d) nested: the resumer of the coroutine suspended in the callback is
		// itself closed first
		{
			pre := strings.ReplaceAll(cbPrelude, "WRAPPED", s.call)
			src := strings.ReplaceAll(pre, "AFTER", "") + `local outer = coroutine.create(function()
  local og <close> = setmetatable({}, {__close = function(_, e) emit("outer-guard-closed", e == nil) end})
  emit("inner-r1", coroutine.resume(co))
  coroutine.yield("outer-yield")
  emit("outer-went-on")
end)
emit("o1", coroutine.resume(outer))
emit("st", coroutine.status(outer), coroutine.status(co))
emit("close-outer", coroutine.close(outer))
emit("st", coroutine.status(outer), coroutine.status(co))
emit("close-inner", coroutine.close(co))
emit("st", coroutine.status(outer), coroutine.status(co))
emit("r-dead", (coroutine.resume(co)))
`
			ev := [][]string{{q("inner-r1"), "true", q("in-callback")}, {q("o1"), "true", q("outer-yield")}, {q("st"), q("suspended"), q("suspended")},
				{q("outer-guard-closed"), "true"}, {q("close-outer"), "true"}, {q("st"), q("dead"), q("suspended")},
				{q("guard-closed"), "true"}, {q("close-inner"), "true"}, {q("st"), q("dead"), q("dead")}, deadResume}
			out = append(out, cbCase{"closed-in-callback-after-resumer-closed:" + s.name, src, ev})
		}
	}
	return out
}

func (c cbCase) progCase() progcheck.Case {
	return progcheck.Case{Source: c.src, Expected: progcheck.Expected{Events: c.events}, Note: "callback:" + c.name}
}
