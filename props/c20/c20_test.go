package c20

import (
	"bytes"
	"encoding/json"
	"fmt"
	"runtime"
	"strings"
	"sync"
	"testing"

	"github.com/arnodel/golua/lib"
	rt "github.com/arnodel/golua/runtime"
	"pgregory.net/rapid"

	"verif/internal/ev"
	"verif/internal/harness"
	. "verif/internal/pbt"
)

// C20 — independent runtimes are isolated, also when used from different
// goroutines. Built with -race by the driver.

// A program is a list of statements over globals only; each statement is
// compiled and run as its own chunk, so that several runtimes can be
// interleaved at statement granularity.
type program []string

type c20Case struct {
	Programs []program `json:"programs"`
	Schedule []int     `json:"schedule,omitempty"` // index of the runtime that runs its next statement
	Mode     string    `json:"mode"`               // "interleaved" | "concurrent"
	Procs    int       `json:"gomaxprocs,omitempty"`
}

type world struct {
	r      *rt.Runtime
	canon  *harness.Canon
	events []string
	clean  func()
}

func newWorld() *world {
	w := &world{canon: harness.NewCanon()}
	w.r = rt.New(&bytes.Buffer{})
	w.clean = lib.LoadAll(w.r)
	w.r.SetEnvGoFunc(w.r.GlobalEnv(), "emit", func(t *rt.Thread, c *rt.GoCont) (rt.Cont, error) {
		w.events = append(w.events, w.canon.EncValues(c.Etc()))
		return c.Next(), nil
	}, 0, true)
	return w
}

func (w *world) close() {
	defer func() { recover() }()
	w.clean()
	var err error
	w.r.Close(&err)
}

// step runs one statement; the outcome is appended to the event list.
func (w *world) step(stmt string) {
	defer func() {
		if p := recover(); p != nil {
			w.events = append(w.events, fmt.Sprintf("GO PANIC: %v", p))
		}
	}()
	clos, err := w.r.CompileAndLoadLuaChunk("stmt", []byte(stmt), rt.TableValue(w.r.GlobalEnv()))
	if err != nil {
		w.events = append(w.events, "compile error: "+err.Error())
		return
	}
	term := rt.NewTerminationWith(nil, 0, true)
	if err := rt.Call(w.r.MainThread(), rt.FunctionValue(clos), nil, term); err != nil {
		w.events = append(w.events, "error: "+w.canon.EncValue(rt.ErrorValue(err)))
		return
	}
	w.events = append(w.events, "ok "+w.canon.EncValues(term.Etc()))
}

func solo(p program) []string {
	w := newWorld()
	defer w.close()
	for _, s := range p {
		w.step(s)
	}
	return w.events
}

func diff(want, got []string) string {
	n := len(want)
	if len(got) < n {
		n = len(got)
	}
	for i := 0; i < n; i++ {
		if want[i] != got[i] {
			return fmt.Sprintf("observation %d differs:\n   alone:    %s\n   together: %s", i, want[i], got[i])
		}
	}
	if len(want) != len(got) {
		return fmt.Sprintf("number of observations differs: alone %d, together %d", len(want), len(got))
	}
	return ""
}

// check returns "" when every runtime behaves as it does alone.
func check(c c20Case, raceSeen *int) string {
	want := make([][]string, len(c.Programs))
	for i, p := range c.Programs {
		want[i] = solo(p)
		for _, e := range want[i] {
			if strings.HasPrefix(e, "GO PANIC") {
				return fmt.Sprintf("runtime %d alone: %s", i, e)
			}
		}
	}
	got := make([][]string, len(c.Programs))
	switch c.Mode {
	case "interleaved":
		ws := make([]*world, len(c.Programs))
		next := make([]int, len(c.Programs))
		for i := range ws {
			ws[i] = newWorld()
		}
		for _, who := range c.Schedule {
			if next[who] < len(c.Programs[who]) {
				ws[who].step(c.Programs[who][next[who]])
				next[who]++
			}
		}
		for i, w := range ws {
			for ; next[i] < len(c.Programs[i]); next[i]++ {
				w.step(c.Programs[i][next[i]])
			}
			got[i] = w.events
			w.close()
		}
	default:
		if c.Procs > 0 {
			runtime.GOMAXPROCS(c.Procs)
		}
		var wg sync.WaitGroup
		start := make(chan struct{})
		for i := range c.Programs {
			wg.Add(1)
			go func(i int) {
				defer wg.Done()
				<-start
				got[i] = solo(c.Programs[i]) // creates its own runtime on this goroutine
			}(i)
		}
		close(start)
		wg.Wait()
	}
	for i := range c.Programs {
		if d := diff(want[i], got[i]); d != "" {
			return fmt.Sprintf("runtime %d of %d (%s): %s", i, len(c.Programs), c.Mode, d)
		}
	}
	if log := RaceLog(); len(log) > *raceSeen {
		report := log[*raceSeen:]
		*raceSeen = len(log)
		if len(report) > 6000 {
			report = report[:6000] + "…"
		}
		return "data race reported by the Go race detector:\n" + report
	}
	return ""
}

// ---- statement templates ($K is a drawn small integer)

var templates = []string{
	`x = (x or 0) + $K emit("x", x)`,
	`t = t or {} t[#t + 1] = $K emit("t", #t, t[#t])`,
	`newglobal$K = {$K} emit("newglobal", newglobal$K[1], rawget(_G, "newglobal" .. ($K + 1)))`,
	`string.upper = function(s) return "U$K" .. s end emit(("a"):upper(), string.upper("b"))`,
	`emit(("abc"):upper(), ("x"):rep(3), #("hello"))`,
	`getmetatable("").__index = function(s, k) return k .. "$K" end emit(("a").foo, ("a").len)`,
	`getmetatable("").__unm = function(s) return "neg$K" .. s end emit(-"str")`,
	`emit(pcall(function() return ("a"):upper() end))`,
	`math.randomseed($K) emit("rnd", math.random(1000), math.random(1000), math.random())`,
	`math.randomseed($K, $K) local a = math.random(100) emit("rnd2", a)`,
	`math.randomseed($K) emit("rnd-forms", math.random(0), math.random(3, 7), math.random(-10, 10), math.random(1 << 40), math.random(math.maxinteger))`,
	`math.randomseed($K) emit("rnd-wide", math.random(math.mininteger, math.maxinteger), math.random(-10, math.maxinteger), math.random(math.mininteger, 10), math.random(math.mininteger, -1), math.random(0, math.maxinteger))`,
	`math.randomseed($K) local t = {} for i = 1, 20 do t[i] = math.random(math.mininteger, math.maxinteger) % 1000 end emit("rnd-wide-run", table.concat(t, ","))`,
	`math.randomseed(1.5 * $K) emit("rnd-float-seed", math.random(100)) emit("rnd-noarg-seed", select("#", math.randomseed()))`,
	`tostring = nil emit(type(tostring), pcall(print))`,
	`table.insert = nil emit(type(table.insert), type(table.remove))`,
	`emit(type(tostring), type(table.insert), type(string.upper), type(math.floor))`,
	`setmetatable(_G, {__index = function(_, k) return "dflt$K-" .. k end}) emit(undefinedvar$K)`,
	`emit(rawget(_G, "undefinedvar$K"), getmetatable(_G) ~= nil)`,
	`package.preload["m$K"] = function() return {v = $K} end emit(require("m$K").v, package.loaded["m$K"] ~= nil)`,
	`emit(package.loaded["m$K"] ~= nil, pcall(require, "nosuchmodule$K"))`,
	`package.loaded.string.extra = $K emit(string.extra)`,
	`emit(string.extra, package.path ~= nil)`,
	`debug.setmetatable(0, {__index = function(n, k) return k .. $K end}) emit((5).foo)`,
	`emit(pcall(function() return (5).foo end))`,
	`debug.setmetatable(nil, {__call = function() return "called-nil-$K" end}) emit(pcall(function() return undefinednil() end))`,
	`emit(runtime.callcontext({kill = {cpu = 1000}}, function() while true do end end))`,
	`emit(pcall(runtime.callcontext, {kill = {memory = 2000}}, function() local t = {} for i = 1, 1e6 do t[i] = {} end end))`,
	`error({code = $K})`,
	`error("plain error $K")`,
	`local ok, e = pcall(error, "e$K") emit(ok, e)`,
	`co = coroutine.wrap(function() for i = 1, 100 do coroutine.yield(i * $K) end end) emit(co(), co())`,
	`emit(pcall(function() return co() end))`,
	`collectgarbage("stop") emit(collectgarbage("isrunning"))`,
	`collectgarbage("restart") emit(collectgarbage("isrunning"))`,
	`emit(collectgarbage("isrunning"), type(collectgarbage("count")))`,
	`collectgarbage("setpause", $K * 10) emit("pause-set")`,
	`collectgarbage() collectgarbage("step") emit("collected")`,
	`emit(os.setlocale(), os.setlocale("C"))`,
	`emit(pcall(function() return io.output():setvbuf("no") end))`,
	`io.write("to-stdout-$K") emit("wrote")`,
	`emit(next({}), type(next), select("#", ipairs({})))`,
	`local s = 0 for i, v in ipairs({$K, 2, 3}) do s = s + i * v end emit("ipairs", s)`,
	`emit(string.format("%d-%s-%5.2f", $K, "s", 1.5), utf8.char(72, 228), #utf8.char(8364))`,
	`emit(tostring($K), tonumber("$K") + 1, math.type($K), $K // 3, $K % 3)`,
	`setmetatable(t or {}, {__len = function() return $K end}) emit(#(t or {}))`,
	`emit(select("#", table.unpack({1, 2, 3})), table.concat({1, 2, $K}, ","))`,
	`local f = load("return $K + (x or 0)") emit(f())`,
	`emit(string.dump(function() return $K end) ~= nil)`,
	`warn("@on") warn("w$K") emit("warned")`,
	`emit(os.time{year = 2020, month = 1, day = $K % 28 + 1, hour = 0}, os.date("!%Y-%m-%d", 86400 * $K))`,
	`gcs = gcs or {} setmetatable(gcs, {__gc = function() end}) emit("gc-marked")`,
	`local c <close> = setmetatable({}, {__close = function() emit("closed$K") end}) emit("in-scope")`,
	`goto done emit("skipped") ::done:: emit("after-goto$K")`,
}

// libObjects: values the library hands out whose metatable a program can
// reach with getmetatable (a metatable built once per process instead of once
// per runtime would be mutable state shared by all runtimes).
const libObjects = `local objs = {{"string", ""}, {"stdout", io.stdout}, {"stderr", io.stderr}, {"context", runtime.context()}, {"used", runtime.context().used}, {"kill", runtime.context().kill}, {"ended-context", (runtime.callcontext({}, function() end))}, {"ended-used", (runtime.callcontext({kill = {cpu = 1000}}, function() end)).used}} `

func init() {
	// each statement first observes every object's metatable, then leaves its mark on it
	observe := `for _, p in ipairs(objs) do local name, o = p[1], p[2] local mt = getmetatable(o) emit("libobj", name, type(o), type(mt), type(mt) == "table" and tostring(rawget(mt, "mark")), type(mt) == "table" and type(rawget(mt, "__index")), (pcall(tostring, o)), (tostring(o):gsub("0x%x+", "PTR"))) `
	for _, mutate := range []string{
		`if type(mt) == "table" then rawset(mt, "mark", $K) end end`,
		`if type(mt) == "table" then rawset(mt, "__tostring", function() return name .. "-hijacked-$K" end) end end`,
		`if type(mt) == "table" then rawset(mt, "__index", function(_, k) return "idx$K-" .. tostring(k) end) end end emit(pcall(function() return io.stdout.nosuchfield end))`,
		`if type(mt) == "table" then rawset(mt, "__name", "named$K") end end`,
		`if type(mt) == "table" and name ~= "string" then rawset(mt, "__metatable", "locked$K") end end`,
	} {
		templates = append(templates, libObjects+observe+mutate)
	}
}

func TestC20(t *testing.T) {
	rec := ev.New("C20")
	defer Finish(t, rec)
	rec.Rule("sets of 2-4 programs, each a rapid-drawn sequence of 4-14 statements over globals from 59 templates that touch state a runtime could wrongly share (globals, library tables, the string/number/nil metatables, the metatables of values the library hands out - strings, files, context and resource objects - each observed and then marked, the random generator after an explicit seed, collectgarbage options, package.loaded/preload, locale, stdout buffering, quotas, errors, coroutines, warn), each statement compiled and run as its own chunk. Oracle: every runtime's observation list (results, errors, host events) when (a) interleaved with the others at statement granularity in one goroutine following a drawn schedule and (b) created and run concurrently on its own goroutine (GOMAXPROCS varied) equals its observation list when run alone; the binary is built with -race and any race report is a violation. Non-trivial: >= 2 runtimes each execute >= 1 statement from the shared-state suspect templates and, for (a), their statements really alternate; distinct by (programs, schedule, mode).")
	rec.Assume("math.random values are only observed after an explicit math.randomseed in the same statement")
	rec.Assume("races are found when both conflicting accesses execute; interleavings inside Go's scheduler are sampled (GOMAXPROCS 2/4/16)")

	raceSeen := len(RaceLog())
	if rec.Replay != "" {
		rf, err := rec.LoadReplay()
		if err != nil {
			t.Fatal(err)
		}
		var c c20Case
		if err := json.Unmarshal(rf.Case, &c); err != nil {
			t.Fatal(err)
		}
		rec.Eval()
		for i := 0; i < 5; i++ {
			if msg := check(c, &raceSeen); msg != "" {
				rec.Violation("set", c, msg)
				break
			}
		}
		return
	}

	kfRandom := CheckKnown(rec, "C20-shared-random-generator", func() bool {
		c := c20Case{Mode: "interleaved", Schedule: []int{0, 1, 0, 1},
			Programs: []program{{`math.randomseed(1)`, `emit(math.random(1000))`}, {`math.randomseed(2)`, `emit(math.random(1000))`}}}
		return check(c, &raceSeen) != ""
	})
	kfGC := CheckKnown(rec, "C20-shared-gc-settings", func() bool {
		c := c20Case{Mode: "interleaved", Schedule: []int{0, 1, 0, 1},
			Programs: []program{{`collectgarbage("stop")`, `emit(collectgarbage("isrunning"))`}, {`collectgarbage("restart")`, `emit(collectgarbage("isrunning"))`}}}
		return check(c, &raceSeen) != ""
	})
	_ = kfRandom

	// an open finding's input class is excluded by construction (and counted)
	pool := templates
	if kfGC {
		pool = nil
		for _, tpl := range templates {
			if strings.Contains(tpl, "collectgarbage(\"") && !strings.Contains(tpl, "count") && !strings.Contains(tpl, "step") {
				rec.Discard("template excluded-by-finding:C20-shared-gc-settings")
				continue
			}
			pool = append(pool, tpl)
		}
	}
	genStmt := rapid.Custom(func(t *rapid.T) string {
		tpl := rapid.SampledFrom(pool).Draw(t, "template")
		k := rapid.IntRange(1, 9).Draw(t, "K")
		return strings.ReplaceAll(tpl, "$K", fmt.Sprint(k))
	})
	genProg := rapid.Custom(func(t *rapid.T) program {
		return program(rapid.SliceOfN(genStmt, 4, 14).Draw(t, "program"))
	})
	excluded := func(progs []program) bool {
		for _, p := range progs {
			for _, s := range p {
				if kfGC && strings.Contains(s, "collectgarbage(\"") && !strings.Contains(s, "count") && !strings.Contains(s, "step") {
					rec.Discard("excluded-by-finding:C20-shared-gc-settings")
					return true
				}
			}
		}
		return false
	}
	procs := []int{2, 4, 16}
	n := 0
	RunRapid(rec, "C20/sets", rec.Pick(150, 3000), 0, func(t *rapid.T) {
		n++
		progs := rapid.SliceOfN(genProg, 2, 4).Draw(t, "programs")
		if excluded(progs) {
			return
		}
		total := 0
		for _, p := range progs {
			total += len(p)
		}
		sched := rapid.SliceOfN(rapid.IntRange(0, len(progs)-1), total, total*2).Draw(t, "schedule")
		alternations := 0
		for i := 1; i < len(sched); i++ {
			if sched[i] != sched[i-1] {
				alternations++
			}
		}
		for _, mode := range []string{"interleaved", "concurrent"} {
			c := c20Case{Programs: progs, Mode: mode}
			if mode == "interleaved" {
				c.Schedule = sched
			} else {
				c.Procs = procs[n%len(procs)]
			}
			rec.Eval()
			rec.Class("mode:" + mode)
			if alternations >= 3 || mode == "concurrent" {
				rec.NonTrivial(fmt.Sprint(progs, c.Schedule, mode))
			}
			rec.Sample(c)
			if msg := check(c, &raceSeen); msg != "" {
				FailCase(t, "set", c, "%s", msg)
			}
		}
	})
}
