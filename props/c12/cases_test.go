package c12

import (
	"fmt"
	"math/big"
	"strconv"
	"strings"

	"verif/internal/exprgen"
	"verif/internal/harness"
)

// ------------------------------------------------------------ multi-valued lists

// One element of an expression list and the values it yields when it is NOT
// the last element (exactly one value) and when it is (§3.4.12: "If a multires
// expression is used as the last element of a list of expressions, all results
// enter the list. ... Any expression enclosed in parentheses always results
// in only one value").
type mElem struct {
	text  string
	vals  []string // all its values (canonical encodings)
	multi bool     // a multires expression (not parenthesised)
}

const multiPrelude = `local function f(...) return 1, 2, 3 end
local function z() end
local o = {m = function(self) return 4, 5 end, e = function(self, ...) emit(...) end}
--ctx
`

func mElems() []mElem {
	srcs := []struct {
		text string
		vals []string
	}{
		{"f()", []string{"i:1", "i:2", "i:3"}},
		{"...", []string{"i:7", "i:8", "i:9"}},
		{"z()", nil},
		{"o:m()", []string{"i:4", "i:5"}},
		{"f{}", []string{"i:1", "i:2", "i:3"}},
		{`f"s"`, []string{"i:1", "i:2", "i:3"}},
	}
	es := []mElem{{text: "10", vals: []string{"i:10"}}, {text: "nil", vals: []string{"nil"}}}
	for _, s := range srcs {
		es = append(es, mElem{text: s.text, vals: s.vals, multi: true})
		es = append(es, mElem{text: "(" + s.text + ")", vals: first(s.vals)})
	}
	es = append(es, mElem{text: "((f()))", vals: []string{"i:1"}})
	es = append(es, mElem{text: "( ... )", vals: []string{"i:7"}})
	return es
}

func first(vs []string) []string {
	if len(vs) == 0 {
		return []string{"nil"}
	}
	return vs[:1]
}

// expand gives the values of an expression list.
func expand(list []mElem) []string {
	var out []string
	for i, e := range list {
		if i == len(list)-1 && e.multi {
			out = append(out, e.vals...)
		} else {
			out = append(out, first(e.vals)...)
		}
	}
	return out
}

// truncAll: every element yields exactly one value (the list is followed by
// another field/expression, so none of its elements is last).
func truncAll(list []mElem) []string {
	var out []string
	for _, e := range list {
		out = append(out, first(e.vals)...)
	}
	return out
}

func adjust(vs []string, n int) []string {
	out := append([]string{}, vs...)
	for len(out) < n {
		out = append(out, "nil")
	}
	return out[:n]
}

func nonNil(vs []string) int {
	n := 0
	for _, v := range vs {
		if v != "nil" {
			n++
		}
	}
	return n
}

// multiCases enumerates the lists of 1, 2 and 3 elements in every context.
// full: all 16^3 triples; otherwise the first two elements of a triple come
// from a representative subset (they are truncated wherever they come from).
func multiCases(full bool) []c12Case {
	es := mElems()
	head := es
	if !full {
		head = nil
		for _, e := range es {
			switch e.text {
			case "10", "f()", "(f())", "...", "z()", "(...)":
				head = append(head, e)
			}
		}
	}
	var lists [][]mElem
	for _, a := range es {
		lists = append(lists, []mElem{a})
		for _, b := range es {
			lists = append(lists, []mElem{b, a})
		}
	}
	for _, a := range head {
		for _, b := range head {
			for _, c := range es {
				lists = append(lists, []mElem{a, b, c})
			}
		}
	}
	var out []c12Case
	add := func(ctx, body string, events []string, list []mElem) {
		note := ctx
		for _, e := range list {
			if e.multi {
				note = ctx + " multi"
				break
			}
		}
		// input class of finding C12-paren-vararg: a parenthesised "..." in the
		// position where an unparenthesised one would be expanded
		if last := list[len(list)-1].text; ctx != "table-key-last" && strings.HasPrefix(last, "(") && strings.Contains(last, "...") {
			note += " paren-vararg-last"
		}
		out = append(out, c12Case{Sub: "multi", Texts: []string{multiPrelude + body + "\n"}, Want: strings.Join(events, "\n"), Note: note})
	}
	slots := "t[1], t[2], t[3], t[4], t[5], t[6], t[7]"
	count := "local n = 0 for _ in pairs(t) do n = n + 1 end emit(n)"
	for _, l := range lists {
		var texts []string
		for _, e := range l {
			texts = append(texts, e.text)
		}
		lt := strings.Join(texts, ", ")
		vals := expand(l)
		enc := func(vs []string) string { return strings.Join(vs, " ") }
		// function arguments
		add("args", "emit("+lt+")", []string{enc(vals)}, l)
		// method arguments
		add("method-args", "o:e("+lt+")", []string{enc(vals)}, l)
		// return list (with and without the optional semicolon)
		add("return", "local function r(...) return "+lt+" end emit(r(...))", []string{enc(vals)}, l)
		add("return;", "local function r(...) return "+lt+"; end emit(r(...))", []string{enc(vals)}, l)
		// table constructor: the list alone, with a trailing separator, with ';'
		add("table", "local t = {"+lt+"} emit("+slots+") "+count, []string{enc(adjust(vals, 7)), "i:" + strconv.Itoa(nonNil(vals))}, l)
		add("table,", "local t = {"+strings.Join(texts, "; ")+",} emit("+slots+") "+count, []string{enc(adjust(vals, 7)), "i:" + strconv.Itoa(nonNil(vals))}, l)
		// a keyed field before the list does not change which field is last
		add("table-key-first", "local t = {x = 0, "+lt+"} emit("+slots+") t.x = nil "+count, []string{enc(adjust(vals, 7)), "i:" + strconv.Itoa(nonNil(vals))}, l)
		// a keyed field after it does: "If the last field in the list has the form exp ..."
		tv := truncAll(l)
		add("table-key-last", "local t = {"+lt+", [100] = 0} emit("+slots+") t[100] = nil "+count, []string{enc(adjust(tv, 7)), "i:" + strconv.Itoa(nonNil(tv))}, l)
		// local declaration and assignment adjust to the number of variables
		add("local", "local a, b, c, d, e, g = "+lt+" emit(a, b, c, d, e, g)", []string{enc(adjust(vals, 6))}, l)
		add("assign", "local a, b, c, d, e, g a, b, c, d, e, g = "+lt+" emit(a, b, c, d, e, g)", []string{enc(adjust(vals, 6))}, l)
		add("assign-2", "local a, b = 0, 0 a, b = "+lt+" emit(a, b)", []string{enc(adjust(vals, 2))}, l)
		// global assignment through _ENV
		add("assign-global", "ga, gb, gc, gd = "+lt+" emit(ga, gb, gc, gd) ga, gb, gc, gd = nil", []string{enc(adjust(vals, 4))}, l)
	}
	return out
}

// --------------------------------------------------------------- fixed literals

func numCase(lit, class string) c12Case {
	c := c12Case{Sub: "num", Src: []byte(lit), Show: lit, Note: class}
	if w, _, ok := numExpect(lit); ok {
		c.Want = w
	}
	return c
}

func strCase(lit string, bytes []byte, class string) c12Case {
	return c12Case{Sub: "str", Src: []byte(lit), Show: strconv.Quote(lit), Want: harness.EncString(string(bytes)), Note: class}
}

func badCase(lit, why string) c12Case {
	return c12Case{Sub: "badlit", Src: []byte(lit), Show: strconv.Quote(lit), Want: "compile error", Note: why}
}

var hexFloatBoundaries = []string{
	"0x.1p-1074", "0xA.8p0", "0x1p63", "0X1P+4", "0x1p-1074", "0x1p-1075", "0x1.8p-1075", "0x1.0000000000001p-1075", "0x1p-1076",
	"0x1p1023", "0x1p1024", "0x1.fffffffffffffp1023", "0x1.fffffffffffff8p1023", "0x1.fffffffffffff7p1023", "0x1.fffffffffffff7fffffffffp1023",
	"0x1.00000000000008p0", "0x1.00000000000018p0", "0x1.000000000000081p0", "0x1.00000000000007fffp0", "0x.8", "0x8.", "0x1.8", "0xA.", "0x.0p0", "0x0.0",
	"0x10p-4", "0x0000000000000000000001p0", "0x1p+0", "0x1P-0", "0xffffffffffffffffp0", "0x8000000000000000p0", "0x7fffffffffffffffp0",
	"0x7ffffffffffffc00p0", "0x7ffffffffffffdffp0", "0x7ffffffffffffe00p0", "0x.00000000000000000001p80", "0x1p99999", "0x1p-99999", "0x0p99999",
	"0xep1", "0xEP1", "0xe.ep-1", "0x1e1", "0x.fp0", "0xf.P00004", "0x1.p1",
}

var decFloatBoundaries = []string{
	"3.", ".5", "3e2", "3E-2", "0.1", "1e309", "1e-400", "1e308", "1.7976931348623157e308", "1.7976931348623158e308", "1.7976931348623159e308",
	"179769313486231580793728971405303415079934132710037826936173778980444968292764750946649017977587207096330286416692887910946555547851940402630657488671505820681908902000708383676273854845817711531764475730270069855571366959622842914819860834936475292719074168444365510704342711559699508093042880177904174497791.9999999999999999999999999999999999999999999999999999999999",
	"4.9e-324", "5e-324", "2.4703282292062327e-324", "2.4703282292062328e-324", "2.47032822920623272088284396434110686182e-324", "2.47032822920623272088284396434110686183e-324",
	"2.2250738585072011e-308", "2.2250738585072014e-308", "2.2250738585072012e-308",
	"9007199254740993.0", "9007199254740992.5", "9007199254740993.000000000000000000000000000001", "9007199254740992.99999999999999999999",
	"0.3", "1e23", "8.5e22", "123456789012345678901234567890.0", "1e22", "1e-5", "0e0", "0.0", ".0", "0.", "00.5", "007.5e01", "1e+2", "1E+02", "1e0000000002",
	"9223372036854775807.0", "9223372036854775808.0", "18446744073709551616e0", "9223372036854775808e0",
	"0.000000000000000000000000000000000000000000000000000000000000000000000000000000000000000000000000001e100", "1e99999", "1e-99999", "0e99999",
}

func fixedLiterals() []c12Case {
	var out []c12Case
	// decimal integers around 2^53, 2^63, 2^64, 10^19 (overflow -> float)
	for _, base := range []*big.Int{
		new(big.Int).Lsh(big.NewInt(1), 53), new(big.Int).Lsh(big.NewInt(1), 63), new(big.Int).Lsh(big.NewInt(1), 64),
		new(big.Int).Exp(big.NewInt(10), big.NewInt(19), nil), new(big.Int).Lsh(big.NewInt(1), 62),
		new(big.Int).Add(new(big.Int).Lsh(big.NewInt(1), 63), big.NewInt(1024)), new(big.Int).Add(new(big.Int).Lsh(big.NewInt(1), 63), big.NewInt(1536)),
		new(big.Int).Lsh(big.NewInt(1), 100),
	} {
		for d := int64(-3); d <= 3; d++ {
			v := new(big.Int).Add(base, big.NewInt(d))
			out = append(out, numCase(v.String(), "dec-int-boundary"))
			out = append(out, numCase("000"+v.String(), "dec-int-boundary"))
		}
	}
	for _, s := range []string{"0", "00", "1", "9", "10", "123456789", "99999999999999999999", "340282366920938463463374607431768211456"} {
		out = append(out, numCase(s, "dec-int"))
	}
	// hexadecimal integers with 1..20 digits: all f, leading 8, leading 7, 1 followed by zeros
	for n := 1; n <= 20; n++ {
		for _, s := range []string{strings.Repeat("f", n), "8" + strings.Repeat("0", n-1), "7" + strings.Repeat("f", n-1), "1" + strings.Repeat("0", n-1), strings.Repeat("A5", n)[:n]} {
			out = append(out, numCase("0x"+s, "hex-int"))
			out = append(out, numCase("0X"+strings.ToUpper(s), "hex-int"))
		}
	}
	for _, s := range decFloatBoundaries {
		out = append(out, numCase(s, "dec-float-boundary"))
	}
	for _, s := range hexFloatBoundaries {
		out = append(out, numCase(s, "hex-float-boundary"))
	}
	// strings: every escape on its own, in both quotes
	escapes := [][2]string{{`\a`, "\a"}, {`\b`, "\b"}, {`\f`, "\f"}, {`\n`, "\n"}, {`\r`, "\r"}, {`\t`, "\t"}, {`\v`, "\v"}, {`\\`, "\\"}, {`\"`, "\""}, {`\'`, "'"},
		{"\\\n", "\n"}, {"\\\r", "\n"}, {"\\\r\n", "\n"}, {"\\\n\r", "\n"}, {`\z`, ""}, {"\\z \t\n\r\f\v \r\n \n\r", ""}, {`\x00`, "\x00"}, {`\xff`, "\xff"}, {`\xFF`, "\xff"}, {`\x7F`, "\x7f"}, {`\xaB`, "\xab"},
		{`\0`, "\x00"}, {`\00`, "\x00"}, {`\000`, "\x00"}, {`\255`, "\xff"}, {`\1`, "\x01"}, {`\12`, "\x0c"}, {`\0001`, "\x001"}, {`\2550`, "\xff0"}, {`\128`, "\x80"}, {`\099`, "c"},
		{`\u{0}`, "\x00"}, {`\u{7F}`, "\x7f"}, {`\u{80}`, "\xc2\x80"}, {`\u{7FF}`, "\xdf\xbf"}, {`\u{800}`, "\xe0\xa0\x80"}, {`\u{D800}`, "\xed\xa0\x80"}, {`\u{FFFF}`, "\xef\xbf\xbf"},
		{`\u{10000}`, "\xf0\x90\x80\x80"}, {`\u{10FFFF}`, "\xf4\x8f\xbf\xbf"}, {`\u{110000}`, "\xf4\x90\x80\x80"}, {`\u{1FFFFF}`, "\xf7\xbf\xbf\xbf"},
		{`\u{200000}`, "\xf8\x88\x80\x80\x80"}, {`\u{3FFFFFF}`, "\xfb\xbf\xbf\xbf\xbf"}, {`\u{4000000}`, "\xfc\x84\x80\x80\x80\x80"}, {`\u{7FFFFFFF}`, "\xfd\xbf\xbf\xbf\xbf\xbf"},
		{`\u{000000000000041}`, "A"}, {`\u{7fffffff}`, "\xfd\xbf\xbf\xbf\xbf\xbf"}, {"\x00", "\x00"}, {"\xff\xfe", "\xff\xfe"}, {"--x", "--x"}, {"[[x]]", "[[x]]"}, {"--[[x]]", "--[[x]]"}}
	for _, q := range []string{`"`, `'`} {
		for _, eb := range escapes {
			esc, b := eb[0], eb[1]
			for _, ctx := range [][2]string{{"", ""}, {"a", "b"}, {"1", "2"}} {
				shortDec := len(esc) > 1 && len(esc) < 4 && esc[0] == '\\' && esc[1] >= '0' && esc[1] <= '9'
				if shortDec && ctx[1] == "2" {
					continue // \1 followed by a digit is a different escape
				}
				out = append(out, strCase(q+ctx[0]+esc+ctx[1]+q, []byte(ctx[0]+b+ctx[1]), "escape"))
			}
		}
	}
	// long brackets: levels 0..4, empty, first line break skipped (every kind), closers of other levels inside
	for lv := 0; lv <= 4; lv++ {
		eq := strings.Repeat("=", lv)
		op, cl := "["+eq+"[", "]"+eq+"]"
		bodies := [][2]string{
			{"", ""}, {"\n", ""}, {"\r", ""}, {"\r\n", ""}, {"\n\r", ""}, {"\n\n", "\n"}, {"\r\r", "\n"}, {"\r\n\r\n", "\n"}, {"\n\r\n\r", "\n"}, {"\n\r\n", "\n"}, {"\r\n\r", "\n"},
			{"a", "a"}, {"\na", "a"}, {"a\n", "a\n"}, {"a\rb", "a\nb"}, {"a\r\nb", "a\nb"}, {"a\n\rb", "a\nb"}, {"a\r\rb", "a\n\nb"}, {"a\n\nb", "a\n\nb"}, {"a\r\n\n\rb", "a\n\nb"},
			{"\\n\\z\\", "\\n\\z\\"}, {"--x", "--x"}, {"\x00", "\x00"}, {"\x00\n\x00", "\x00\n\x00"}, {"]", "]"}, {"[", "["}, {"[[", "[["}, {"]=", "]="}, {" ]" + eq + "x]", " ]" + eq + "x]"},
			{"]" + eq + "=]", "]" + eq + "=]"}, {"\xff\xfe\x80", "\xff\xfe\x80"}, {"\"'", "\"'"},
		}
		for _, bw := range bodies {
			body, want := bw[0], bw[1]
			if strings.Index(body+cl, cl) != len(body) {
				continue
			}
			out = append(out, strCase(op+body+cl, []byte(want), "long-bracket"))
		}
		if lv > 0 {
			lower := "]" + strings.Repeat("=", lv-1) + "]"
			out = append(out, strCase(op+lower+cl, []byte(lower), "long-bracket"))
			out = append(out, strCase(op+"x"+lower+lower+"y"+cl, []byte("x"+lower+lower+"y"), "long-bracket"))
		}
	}
	// malformed literals
	bads := [][2]string{
		{`'\400'`, "decimal escape above 255"}, {`"\256"`, "decimal escape above 255"}, {`"\999"`, "decimal escape above 255"}, {`'\xZZ'`, "\\x without hex digits"}, {`'\x4'`, "\\x with one hex digit"}, {`'\x4G'`, "\\x with one hex digit"},
		{`'\u{80000000}'`, "\\u above 2^31-1"}, {`'\u{FFFFFFFFFFFF}'`, "\\u above 2^31-1"}, {`'\u{}'`, "\\u{} without digits"}, {`'\u{41'`, "\\u without }"}, {`'\u41'`, "\\u without {"}, {`'\u{4G}'`, "\\u with a non-hex digit"},
		{`'\q'`, "unknown escape"}, {`'\X41'`, "unknown escape"}, {`'\U{41}'`, "unknown escape"}, {`'\ '`, "unknown escape"}, {`'\-'`, "unknown escape"}, {`'\c'`, "unknown escape"}, {`'\?'`, "unknown escape"},
		{`'abc`, "unterminated"}, {`"abc`, "unterminated"}, {`"abc'`, "unterminated"}, {`'abc\'`, "unterminated"}, {"\"abc\ndef\"", "line break in short string"}, {"'abc\rdef'", "line break in short string"},
		{`"\`, "unterminated"}, {`[[abc`, "unterminated long string"}, {`[==[abc]=]`, "unterminated long string"}, {`[==[abc]]`, "unterminated long string"}, {`[=abc`, "invalid long bracket"}, {`[==`, "invalid long bracket"},
		{"'\\z\n\n", "unterminated"}, {"'a\\\n", "unterminated"},
		{"3x", "malformed number"}, {"0x", "malformed number"}, {"1e", "malformed number"}, {"1e+", "malformed number"}, {"0x1p", "malformed number"}, {"0x.p1", "malformed number"}, {"1..2", "malformed number"},
		{"12abc", "malformed number"}, {"0xg", "malformed number"}, {"1.2.3", "malformed number"}, {"0x1p1.5", "malformed number"}, {"1_000", "malformed number"}, {"1e5x", "malformed number"}, {".5.", "malformed number"},
	}
	for _, lw := range bads {
		out = append(out, badCase(lw[0], lw[1]))
	}
	return out
}

// -------------------------------------------------------------- random numerals

func digits(ch exprgen.Chooser, n int, set string) string {
	b := make([]byte, n)
	for i := range b {
		b[i] = set[ch.Intn(len(set))]
	}
	return string(b)
}

const decSet = "0123456789"
const hexSet = "0123456789abcdefABCDEF"

func genNumeral(ch exprgen.Chooser) (string, string) {
	switch ch.Intn(9) {
	case 0:
		return digits(ch, 1+ch.Intn(25), decSet), "dec-int"
	case 1: // around a power of two or ten
		var base *big.Int
		if ch.Intn(2) == 0 {
			base = new(big.Int).Lsh(big.NewInt(1), uint(50+ch.Intn(20)))
		} else {
			base = new(big.Int).Exp(big.NewInt(10), big.NewInt(int64(15+ch.Intn(8))), nil)
		}
		v := new(big.Int).Add(base, big.NewInt(int64(ch.Intn(2049)-1024)))
		return v.String(), "dec-int-boundary"
	case 2:
		return []string{"0x", "0X"}[ch.Intn(2)] + digits(ch, 1+ch.Intn(20), hexSet), "hex-int"
	case 3:
		n := 14 + ch.Intn(7)
		s := []string{"f", "7", "8", "0", "1"}[ch.Intn(5)] + strings.Repeat([]string{"f", "0", "F"}[ch.Intn(3)], n-2) + digits(ch, 1, hexSet)
		return "0x" + s, "hex-int-boundary"
	case 4, 5: // decimal float
		ip := digits(ch, ch.Intn(21), decSet)
		fp := ""
		dot := ch.Intn(3) != 0
		if dot {
			fp = digits(ch, ch.Intn(21), decSet)
		}
		if ip == "" && fp == "" {
			ip = digits(ch, 1, decSet)
		}
		s := ip
		if dot {
			s += "." + fp
		}
		if !dot || ch.Intn(2) == 0 {
			s += []string{"e", "E"}[ch.Intn(2)] + []string{"", "+", "-"}[ch.Intn(3)] + digits(ch, 1+ch.Intn(3), decSet)
		}
		return s, "dec-float"
	case 6: // decimal float near a boundary: perturb the last digits of a boundary numeral
		b := decFloatBoundaries[ch.Intn(len(decFloatBoundaries))]
		if i := strings.IndexAny(b, "eE"); i > 2 && ch.Intn(2) == 0 {
			b = b[:i-1] + digits(ch, 1+ch.Intn(3), decSet) + b[i:]
		}
		return b, "dec-float-boundary"
	case 7: // hexadecimal float
		ip := digits(ch, ch.Intn(19), hexSet)
		fp := ""
		dot := ch.Intn(3) != 0
		if dot {
			fp = digits(ch, ch.Intn(19), hexSet)
		}
		if ip == "" && fp == "" {
			ip = digits(ch, 1, hexSet)
		}
		s := []string{"0x", "0X"}[ch.Intn(2)] + ip
		if dot {
			s += "." + fp
		}
		if !dot || ch.Intn(3) != 0 {
			s += []string{"p", "P"}[ch.Intn(2)] + []string{"", "+", "-"}[ch.Intn(3)] + digits(ch, 1+ch.Intn(4), decSet)
		}
		return s, "hex-float"
	}
	// hexadecimal float near the double's limits: 1.<13 hex digits><extra>p<e>
	e := []int{-1080, -1075, -1074, -1073, -1023, -1022, -1, 0, 1, 52, 53, 63, 64, 1022, 1023, 1024}[ch.Intn(16)] + ch.Intn(3) - 1
	s := fmt.Sprintf("0x%s.%s%sp%d", []string{"1", "0", "f", "3"}[ch.Intn(4)], digits(ch, 13, "0f8"), []string{"", "8", "80", "7f", "81", "0001", "8000000000000000000001"}[ch.Intn(7)], e)
	return s, "hex-float-boundary"
}

// --------------------------------------------------------------- random strings

var cpBoundaries = []uint32{0, 0x41, 0x7F, 0x80, 0x7FF, 0x800, 0xD800, 0xDFFF, 0xFFFF, 0x10000, 0x10FFFF, 0x110000, 0x1FFFFF, 0x200000, 0x3FFFFFF, 0x4000000, 0x7FFFFFFF, 10, 13, 0x22, 0x27, 0x5C}

func genUnits(ch exprgen.Chooser) []exprgen.StrUnit {
	n := ch.Intn(12)
	if ch.Intn(8) == 0 {
		n = 0
	}
	us := make([]exprgen.StrUnit, 0, n)
	for i := 0; i < n; i++ {
		switch k := ch.Intn(20); {
		case k < 6:
			us = append(us, exprgen.StrUnit{Kind: 'b', B: byte(32 + ch.Intn(95))})
		case k < 8:
			us = append(us, exprgen.StrUnit{Kind: 'b', B: "\"'\\]["[ch.Intn(5)]})
		case k < 10:
			us = append(us, exprgen.StrUnit{Kind: 'b', B: byte(ch.Intn(32))})
		case k < 12:
			us = append(us, exprgen.StrUnit{Kind: 'b', B: byte(128 + ch.Intn(128))})
		case k == 12:
			us = append(us, exprgen.StrUnit{Kind: 'b', B: "0123456789 \t="[ch.Intn(13)]})
		case k < 16:
			cp := cpBoundaries[ch.Intn(len(cpBoundaries))]
			if ch.Intn(3) == 0 {
				cp = uint32(ch.Intn(1<<31 - 1))
				cp >>= uint(ch.Intn(31))
			}
			us = append(us, exprgen.StrUnit{Kind: 'u', CP: cp})
		case k < 18:
			us = append(us, exprgen.StrUnit{Kind: 'n'})
		default:
			us = append(us, exprgen.StrUnit{Kind: 'z'})
		}
	}
	return us
}

func genStringCase(ch exprgen.Chooser) c12Case {
	us := genUnits(ch)
	if ch.Intn(3) == 0 {
		// prefer something a long bracket can hold
		var keep []exprgen.StrUnit
		for _, u := range us {
			if exprgen.LongSpellable([]exprgen.StrUnit{u}) {
				keep = append(keep, u)
			}
		}
		if t, ok := exprgen.SpellLong(keep, ch.Intn(5), ch); ok {
			return strCase(t, exprgen.UnitsBytes(keep), fmt.Sprintf("long-bracket"))
		}
		us = keep
	}
	q := "'\""[ch.Intn(2)]
	return strCase(exprgen.SpellShort(us, q, ch), exprgen.UnitsBytes(us), "short")
}

func genBadLiteral(ch exprgen.Chooser) c12Case {
	q := []string{`"`, `'`}[ch.Intn(2)]
	pre := []string{"", "a", "\\n", "\\65", " "}[ch.Intn(5)]
	post := []string{"", "b", "0", " "}[ch.Intn(4)]
	switch ch.Intn(9) {
	case 0:
		return badCase(q+pre+fmt.Sprintf("\\%d", 256+ch.Intn(744))+post+q, "decimal escape above 255")
	case 1:
		bad := "ghGHzZ_ .-\\"[ch.Intn(11)]
		s := []string{string([]byte{bad, 'a'}), string([]byte{'a', bad}), string([]byte{bad, bad})}[ch.Intn(3)]
		return badCase(q+pre+"\\x"+s+post+q, "\\x without two hex digits")
	case 2:
		h := digits(ch, 1, "89abcdefABCDEF") + digits(ch, 7, hexSet)
		if ch.Intn(2) == 0 {
			h = digits(ch, 1, "123456789abcdef") + digits(ch, 8+ch.Intn(6), hexSet)
		}
		return badCase(q+pre+"\\u{"+h+"}"+post+q, "\\u of at least 2^31")
	case 3:
		const unknown = "cdeghijklmopqswyABCDEFGHIJKLMNOPQRSTUVWXYZ!#$%&()*+,-./:;<=>?@[]^_`{|}~ "
		c := unknown[ch.Intn(len(unknown))]
		return badCase(q+pre+"\\"+string([]byte{c})+post+q, "unknown escape")
	case 4:
		return badCase(q+pre+[]string{"\\u{}", "\\u{12", "\\u12", "\\u{g}", "\\u{1 }", "\\u"}[ch.Intn(6)]+post+q, "malformed \\u")
	case 5:
		return badCase(q+pre+"abc"+[]string{"", "\\" + q, "\\\\\\" + q}[ch.Intn(3)]+post, "unterminated short string")
	case 6:
		return badCase(q+pre+"abc"+[]string{"\n", "\r", "\r\n"}[ch.Intn(3)]+"def"+q, "line break in short string")
	case 7:
		lv := ch.Intn(4)
		wrong := ch.Intn(4)
		if wrong == lv {
			wrong = lv + 1
		}
		return badCase("["+strings.Repeat("=", lv)+"["+pre+"abc]"+strings.Repeat("=", wrong)+"]"+post, "unterminated long string")
	}
	return badCase(digits(ch, 1+ch.Intn(3), decSet)+[]string{"x", "e", "e+", "abc", "..2", "_0", "p1", "e1x", "g"}[ch.Intn(9)], "malformed number")
}

// ------------------------------------------------------------------ corruptions

type corruption struct {
	class string
	line  string
}

var corruptions = []corruption{
	{"illegal-char", "x = 1 $ 2"}, {"illegal-char", "@"}, {"illegal-char", "x = !y"}, {"illegal-char", "f(?)"}, {"illegal-char", "`"}, {"illegal-char", "x = 1 \\ 2"}, {"illegal-char", "$x = 1"}, {"illegal-char", "x = a != b"},
	{"stray-bracket", ")"}, {"stray-bracket", "]"}, {"stray-bracket", "}"}, {"stray-bracket", ") x = 1"}, {"stray-bracket", "] = 2"}, {"stray-bracket", "};"},
	{"unterminated-string", `x = "abc`}, {"unterminated-string", `x = 'abc`}, {"unterminated-string", `f("abc)`}, {"unterminated-string", `x = "abc\"`},
	{"double-assign", "x = = 1"}, {"double-assign", "local y = = 2"}, {"double-assign", "x , y = = 1"},
	{"keyword-as-expression", "x = end"}, {"keyword-as-expression", "x = 1 + then"}, {"keyword-as-expression", "f(until)"}, {"keyword-as-expression", "x = {do}"}, {"keyword-as-expression", "x = not in"}, {"keyword-as-expression", "local z = else"}, {"keyword-as-expression", "x = y[while]"},
	{"bad-escape", `x = "\q"`}, {"bad-escape", `x = '\xZZ'`}, {"bad-escape", `x = "\x4"`}, {"bad-escape", `x = "\u{zz}"`}, {"bad-escape", `x = "\u123"`}, {"bad-escape", `x = "\u{12"`},
	{"escape-range", `x = "\400"`}, {"escape-range", `x = '\256'`}, {"escape-range", `x = "ab\999"`}, {"escape-range", `x = "\u{80000000}"`}, {"escape-range", `x = "\u{FFFFFFFFF}"`},
	{"malformed-number", "x = 3x"}, {"malformed-number", "x = 0x"}, {"malformed-number", "x = 1e"}, {"malformed-number", "x = 1..2"}, {"malformed-number", "x = 0x1p"}, {"malformed-number", "x = 1e+"}, {"malformed-number", "x = 12abc"}, {"malformed-number", "x = 0xg"},
	{"stray-keyword", "then"}, {"stray-keyword", "in"}, {"stray-keyword", "then x = 1"},
	{"stray-until", "until x"}, {"stray-until", "until x"},
	{"truncate", ""}, {"truncate", ""}, {"truncate", ""},
}

var nlStyles = []string{"\n", "\n", "\r\n", "\r", "\n\r"}

// corrupt inserts one corruption at a drawn insertion point of the plain
// rendering. It returns the case, or the id of the open finding whose input
// class the drawn corruption falls in.
func corrupt(ch exprgen.Chooser, plain string, marks []pmark, kfEsc, kfIf, kfCR bool) (c12Case, string) {
	// insertion points: the start of the text, every mark, the end
	points := append([]pmark{{off: 0, kind: bkChunk, dep: 0}}, marks...)
	points = append(points, pmark{off: len(plain), kind: bkChunk, dep: 0})
	var cor corruption
	var pt pmark
	for {
		cor = corruptions[ch.Intn(len(corruptions))]
		pt = points[ch.Intn(len(points))]
		if cor.class == "stray-until" && pt.kind == bkRepeat {
			continue // there "until" is not an error
		}
		if cor.class == "truncate" && (pt.dep == 0 || pt.off == 0) {
			continue // cutting at chunk level leaves a valid program
		}
		break
	}
	if kfEsc && cor.class == "escape-range" {
		return c12Case{}, "C12-escape-range-no-line"
	}
	// where a then-block must be closed: after its return statement any token
	// but end/else/elseif is the offending one; elsewhere in it until and <eof> are
	if kfIf && pt.kind == bkThen && (cor.class == "stray-until" || cor.class == "truncate" || pt.ret) {
		return c12Case{}, "C12-if-block-error-line"
	}
	var text string
	var line int
	if cor.class == "truncate" {
		text = strings.TrimSuffix(plain[:pt.off], "\n")
		line = 1 + strings.Count(text, "\n")
	} else {
		text = plain[:pt.off] + cor.line + "\n" + plain[pt.off:]
		line = 1 + strings.Count(plain[:pt.off], "\n")
	}
	if ch.Intn(4) == 0 && cor.class != "truncate" {
		// no line break at the very end
		text = strings.TrimSuffix(text, "\n")
	}
	style := nlStyles[ch.Intn(len(nlStyles))]
	if kfCR && cor.class == "unterminated-string" && strings.Contains(style, "\r") && strings.Contains(text, cor.line+"\n") {
		// the offending token (the string up to and including the line break) contains a carriage return
		return c12Case{}, "C12-cr-in-error-token"
	}
	text = strings.ReplaceAll(text, "\n", style)
	note := cor.class
	if cor.line != "" {
		note += ": " + cor.line
	}
	return c12Case{Sub: "errpos", Src: []byte(text), Show: text, Line: line, Note: note}, ""
}
