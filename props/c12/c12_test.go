package c12

import (
	"encoding/json"
	"fmt"
	"math/big"
	"regexp"
	"runtime"
	"strconv"
	"strings"
	"testing"
	"time"

	rt "github.com/arnodel/golua/runtime"
	"pgregory.net/rapid"

	"verif/internal/ev"
	"verif/internal/exprgen"
	"verif/internal/harness"
	"verif/internal/numref"
	. "verif/internal/pbt"
)

// C12 — the front end accepts Lua 5.4 syntax and decodes it faithfully.
//
// Sub-checks (one recorder):
//   expr    precedence / associativity: value of `return <rendering>` == value of the TREE
//   num     numerals of §3.1 denote what the big-number model says
//   str     string literals denote the bytes they were spelled from
//   badlit  malformed literals are compile errors (no panic, no acceptance)
//   multi   multiple results / varargs in every list position (§3.4.12)
//   prog    every statement form of §3.3 is accepted (compile only)
//   errpos  a single-token corruption is reported on its own line

type c12Case struct {
	Sub   string        `json:"sub"`
	Tree  *exprgen.Expr `json:"tree,omitempty"`
	Texts []string      `json:"texts,omitempty"` // renderings / program texts (valid UTF-8)
	Src   []byte        `json:"src,omitempty"`   // literal or program bytes (any bytes)
	Show  string        `json:"show,omitempty"`  // Src, quoted for the reader
	Want  string        `json:"want,omitempty"`
	Line  int           `json:"line,omitempty"`
	Note  string        `json:"note,omitempty"`
}

// ------------------------------------------------------------------- running

const runnerSrc = `return function(mode, src, ...)
  local f, msg = load(src, "=chunk", "t")
  if not f then emit("CE", msg) return end
  if mode == "c" then emit("OK") return end
  return f(...)
end`

type runner struct {
	s  *harness.Session
	fn rt.Value
}

type outcome struct {
	Kind   string // value | error | compile-error | panic | killed
	Rets   string
	Events []string
	Msg    string
}

func (o outcome) String() string {
	switch o.Kind {
	case "value":
		if len(o.Events) > 0 {
			return fmt.Sprintf("events %q, returns %s", o.Events, o.Rets)
		}
		return "value " + o.Rets
	}
	return o.Kind + ": " + o.Msg
}

// key is what must agree between renderings of one program.
func (o outcome) key() string {
	if o.Kind == "value" {
		return "value " + o.Rets + " | " + strings.Join(o.Events, "\n")
	}
	return o.Kind
}

func (r *runner) session() *harness.Session {
	if r.s == nil {
		r.s = harness.NewSession()
		fn, err := r.s.Load("runner", runnerSrc)
		if err != nil {
			panic(err)
		}
		r.fn = fn
	}
	return r.s
}

func (r *runner) run(mode string, src string, args ...rt.Value) outcome {
	s := r.session()
	all := append([]rt.Value{rt.StringValue(mode), rt.StringValue(src)}, args...)
	tr := s.Call(r.fn, 50_000_000, 0, all...)
	switch {
	case tr.Panic != "":
		r.s = nil // poisoned
		return outcome{Kind: "panic", Msg: tr.Panic}
	case tr.Killed:
		return outcome{Kind: "killed", Msg: "cpu limit"}
	case tr.Err != "":
		return outcome{Kind: "error", Msg: tr.Err}
	}
	if len(tr.Events) > 0 && strings.HasPrefix(tr.Events[0], `s:"CE"`) {
		return outcome{Kind: "compile-error", Msg: strings.TrimPrefix(tr.Events[0], `s:"CE" `)}
	}
	return outcome{Kind: "value", Rets: tr.Rets, Events: tr.Events}
}

// ------------------------------------------------------------- known findings

// C12-dec-int-wrap: a decimal integer numeral with 2^63 <= value < 2^64.
func kfDecIntWrap(lit string) bool {
	if lit == "" || len(lit) > 40 {
		return false
	}
	for _, c := range lit {
		if c < '0' || c > '9' {
			return false
		}
	}
	v, _ := new(big.Int).SetString(lit, 10)
	lo := new(big.Int).Lsh(big.NewInt(1), 63)
	hi := new(big.Int).Lsh(big.NewInt(1), 64)
	return v.Cmp(lo) >= 0 && v.Cmp(hi) < 0
}

// C12-empty-long-string: isEmptyLong (proggen_test.go).

// C12-comment-bracket-eol: a short comment whose whole text is "[" "="* .
var bareBracketComment = regexp.MustCompile(`--\[(=*)(\r|\n)`)

// sanitizeGaps rewrites that comment class into an ordinary short comment.
func sanitizeGaps(text string) (string, bool) {
	if !exprgen.HasBareBracketLineComment(text) {
		return text, false
	}
	return bareBracketComment.ReplaceAllString(text, "--[${1}x${2}"), true
}

// C12-escape-range-no-line: the corruption is a \ddd escape above 255 or a
// \u{...} escape of 2^31 or more.
// C12-if-block-error-line: the offending token (until / <eof>) comes where a
// then-block should be closed.

// ---------------------------------------------------------------- expr check

func checkExpr(run *runner, c c12Case) string {
	res := exprgen.Eval(c.Tree)
	var outs []outcome
	for i, text := range c.Texts {
		o := run.run("r", "return "+text+"\n")
		outs = append(outs, o)
		label := []string{"fully parenthesised", "minimal parentheses", "redundant parentheses/white space/comments"}[i%3]
		switch o.Kind {
		case "panic":
			return fmt.Sprintf("Go panic on %s rendering %q: %s", label, text, o.Msg)
		case "compile-error":
			return fmt.Sprintf("%s rendering %q is rejected: %s", label, text, o.Msg)
		case "killed":
			return fmt.Sprintf("%s rendering %q does not terminate", label, text)
		}
		if res.Soft != "" {
			continue
		}
		if res.Err != "" {
			if o.Kind != "error" {
				return fmt.Sprintf("%s rendering %q: the tree raises (%s) but golua gives %s", label, text, res.Err, o)
			}
			continue
		}
		if o.Kind != "value" || o.Rets != res.V.Enc() {
			return fmt.Sprintf("%s rendering %q: tree value %s, golua gives %s", label, text, res.V.Enc(), o)
		}
	}
	for i := 1; i < len(outs); i++ {
		if outs[i].key() != outs[0].key() {
			return fmt.Sprintf("renderings of one tree disagree: %q gives %s but %q gives %s", c.Texts[0], outs[0], c.Texts[i], outs[i])
		}
	}
	return ""
}

// renderings builds full / minimal / random texts of a tree.
func renderings(tree *exprgen.Expr, ch exprgen.Chooser) []string {
	full := exprgen.Join(tree.Tokens(exprgen.FullParens), exprgen.MinGap)
	min := exprgen.Join(tree.Tokens(exprgen.MinParens), exprgen.MinGap)
	rnd := exprgen.Join(tree.Tokens(exprgen.RandomParens(ch)), exprgen.RandomGap(ch))
	return []string{full, min, rnd}
}

// leavesDenote checks that every respelled leaf denotes its value according
// to the number model (a self-check of the generator).
func leavesDenote(tree *exprgen.Expr) string {
	for _, l := range tree.Leaves() {
		if l.Sp == "" {
			continue
		}
		v := l.LeafValue()
		if v.K == 'i' || v.K == 'f' {
			n, ok := numref.Numeral(l.Sp)
			if !ok || !numref.Same(n, map[bool]numref.Num{true: numref.Int(v.I), false: numref.Float(v.F)}[v.K == 'i']) {
				return fmt.Sprintf("spelling %q does not denote %s", l.Sp, v.Enc())
			}
		}
	}
	return ""
}

// ------------------------------------------------------------- literal checks

func numExpect(lit string) (string, string, bool) {
	n, ok := numref.Numeral(lit)
	if !ok {
		return "", "", false
	}
	return EncNum(n), EncNum(numref.Unm(n)), true
}

func checkNum(run *runner, c c12Case) string {
	lit := string(c.Src)
	want, wantNeg, ok := numExpect(lit)
	if !ok {
		return "self-check: the generator produced a numeral the model does not read: " + lit
	}
	// a second, independent reading of decimal floats
	if !strings.HasPrefix(strings.ToLower(lit), "0x") && strings.ContainsAny(lit, ".eE") {
		if f, ok := exprgen.DecFloatRat(lit); !ok || EncNum(numref.Float(f)) != want {
			return fmt.Sprintf("self-check: two readings of %s differ: %s vs %v", lit, want, f)
		}
	}
	for _, v := range []struct{ src, want string }{{"return " + lit, want}, {"return -" + lit, wantNeg}, {"return(" + lit + ")", want}} {
		o := run.run("r", v.src)
		if o.Kind != "value" || o.Rets != v.want {
			return fmt.Sprintf("%q: the numeral denotes %s, golua gives %s", v.src, v.want, o)
		}
	}
	return ""
}

func checkStr(run *runner, c c12Case) string {
	for _, pre := range []string{"return ", "return#", "local s <const> = "} {
		src := pre + string(c.Src)
		want := c.Want
		switch pre {
		case "return#":
			// the length of the denoted string
			s, _ := strconv.Unquote(strings.TrimPrefix(c.Want, "s:"))
			want = "i:" + strconv.Itoa(len(s))
		case "local s <const> = ":
			src += " return s"
		}
		o := run.run("r", src)
		if o.Kind != "value" || o.Rets != want {
			return fmt.Sprintf("%q: the literal denotes %s, golua gives %s", src, want, o)
		}
	}
	return ""
}

func checkBadLit(run *runner, c c12Case) string {
	o := run.run("r", "return "+string(c.Src))
	switch o.Kind {
	case "compile-error":
		return ""
	case "panic":
		return fmt.Sprintf("Go panic on malformed literal %q: %s", c.Src, o.Msg)
	}
	return fmt.Sprintf("malformed literal %q (%s) is not a compile error: %s", c.Src, c.Note, o)
}

// --------------------------------------------------------------- multi check

func checkMulti(run *runner, c c12Case) string {
	o := run.run("r", c.Texts[0], rt.IntValue(7), rt.IntValue(8), rt.IntValue(9))
	if o.Kind != "value" {
		return fmt.Sprintf("program\n%s\nexpected events %q, golua: %s", c.Texts[0], c.Want, o)
	}
	if got := strings.Join(o.Events, "\n"); got != c.Want {
		return fmt.Sprintf("program\n%s\nexpected events %q, golua emitted %q", c.Texts[0], c.Want, got)
	}
	return ""
}

// ---------------------------------------------------------------- prog check

func checkProg(run *runner, c c12Case) string {
	for i, text := range c.Texts {
		o := run.run("c", text)
		if o.Kind != "value" || len(o.Events) != 1 || o.Events[0] != `s:"OK"` {
			return fmt.Sprintf("valid program (rendering %d) is not accepted: %s\n%s", i, o, text)
		}
	}
	return ""
}

// -------------------------------------------------------------- errpos check

var errLine = regexp.MustCompile(`^s:"=?chunk:(\d+):`)

func checkErrPos(run *runner, c c12Case) string {
	o := run.run("c", string(c.Src))
	switch o.Kind {
	case "compile-error":
	case "value":
		return fmt.Sprintf("corrupted program (%s on line %d) is accepted:\n%s", c.Note, c.Line, c.Show)
	default:
		return fmt.Sprintf("corrupted program (%s on line %d): %s\n%s", c.Note, c.Line, o, c.Show)
	}
	m := errLine.FindStringSubmatch(o.Msg)
	if m == nil {
		return fmt.Sprintf("corrupted program (%s on line %d): the message has no chunk:line: prefix: %s\n%s", c.Note, c.Line, o.Msg, c.Show)
	}
	if m[1] != strconv.Itoa(c.Line) {
		return fmt.Sprintf("corrupted program (%s on line %d): error reported on line %s: %s\n%s", c.Note, c.Line, m[1], o.Msg, c.Show)
	}
	return ""
}

func checkCase(run *runner, c c12Case) string {
	switch c.Sub {
	case "expr":
		return checkExpr(run, c)
	case "num":
		return checkNum(run, c)
	case "str":
		return checkStr(run, c)
	case "badlit":
		return checkBadLit(run, c)
	case "multi":
		return checkMulti(run, c)
	case "prog":
		return checkProg(run, c)
	case "errpos":
		return checkErrPos(run, c)
	case "size":
		msg, _ := checkSizeCase(run, c.Note, 0)
		return msg
	}
	return "unknown sub-check " + c.Sub
}

// rch draws every choice from rapid.
type rch struct{ t *rapid.T }

func (r rch) Intn(n int) int {
	if n <= 1 {
		return 0
	}
	return rapid.IntRange(0, n-1).Draw(r.t, "c")
}

// ---------------------------------------------------------------------- test

func TestC12(t *testing.T) {
	// the work is sequential; many GC workers only cost system time on a loaded machine
	runtime.GOMAXPROCS(2)
	rec := ev.New("C12")
	defer Finish(t, rec)
	rec.Rule("expr: exhaustive flat operator sequences (all pairs and triples of the 21 binary and 4 unary operators) and rapid-drawn trees of depth <= 5 with typed constant leaves; each tree is printed fully parenthesised, with the minimal parentheses computed from the precedence table of §3.4.8, and with random redundant parentheses/blanks/line breaks/comments/literal spellings; golua's value of `return <text>` must equal the value of the TREE (manual semantics, numbers by internal/numref), typed and exact, and all renderings must agree. num/str: every numeral and string form of §3.1 with boundary values, expectation from the big-number model / the bytes the spelling was produced from; malformed literals must be compile errors. multi: f()/.../zero-result calls in every position of every kind of expression list, with and without parentheses, expectation by §3.4.12. prog: grammar-generated programs covering every statement form of §3.3 must compile. errpos: one single-token corruption inserted on a drawn line of such a program must be reported on that line. Non-trivial: expr — the minimal rendering omits parentheses somewhere where precedence/associativity decides; num/str — the spelling is not the canonical one; multi — the list contains a multi-valued expression; prog — at least 3 distinct statement forms; errpos — the corruption is not on line 1. Distinct by rendered text.")
	rec.Assume("float->string conversion by '..', the accuracy of '^' on inexact cases and numeric-string operands of bitwise operators are implementation matters outside the front end: on such trees only the agreement of all renderings is required (class expr-soft)")
	rec.Assume("string ordering uses ASCII letters/digits only, where every locale is byte order")
	rec.Assume("the chunk name \"=chunk\" may appear in messages as chunk or =chunk; only the line number is checked")
	rec.Assume("a label name is reused only in disjoint blocks (the manual's 'visible in the entire block' makes reuse in a nested earlier block debatable)")
	run := &runner{}

	if rec.Replay != "" {
		rf, err := rec.LoadReplay()
		if err != nil {
			t.Fatal(err)
		}
		var c c12Case
		if err := json.Unmarshal(rf.Case, &c); err != nil {
			t.Fatal(err)
		}
		rec.Eval()
		if msg := checkCase(run, c); msg != "" {
			rec.Violation(c.Sub, c, msg)
		}
		return
	}

	// ---- known findings: fixed demonstrations
	kfWrap := CheckKnown(rec, "C12-dec-int-wrap", func() bool {
		return checkNum(run, c12Case{Sub: "num", Src: []byte("9223372036854775808")}) != ""
	})
	kfEmptyLong := CheckKnown(rec, "C12-empty-long-string", func() bool {
		return checkStr(run, c12Case{Sub: "str", Src: []byte("[[]]"), Want: `s:""`}) != ""
	})
	kfComment := CheckKnown(rec, "C12-comment-bracket-eol", func() bool {
		tree := &exprgen.Expr{Op: "+", L: exprgen.LeafOf(exprgen.Int(1)), R: exprgen.LeafOf(exprgen.Int(1))}
		return checkExpr(run, c12Case{Sub: "expr", Tree: tree, Texts: []string{"1 --[\n+ 1"}}) != ""
	})
	kfEscLine := CheckKnown(rec, "C12-escape-range-no-line", func() bool {
		return checkErrPos(run, c12Case{Sub: "errpos", Src: []byte("x = 1\nx = '\\400'\n"), Line: 2, Note: "demo"}) != ""
	})
	kfIfLine := CheckKnown(rec, "C12-if-block-error-line", func() bool {
		return checkErrPos(run, c12Case{Sub: "errpos", Src: []byte("if x then\n  y = 1\n  until z\nend\n"), Line: 3, Note: "demo"}) != ""
	})

	kfParenVararg := CheckKnown(rec, "C12-paren-vararg", func() bool {
		return checkMulti(run, c12Case{Sub: "multi", Texts: []string{"emit((...))"}, Want: "i:7"}) != ""
	})

	kfEndLabel := CheckKnown(rec, "C12-function-end-label", func() bool {
		return checkProg(run, c12Case{Sub: "prog", Texts: []string{"goto continue\nlocal a\n::continue::\n"}}) != ""
	})

	kfCRToken := CheckKnown(rec, "C12-cr-in-error-token", func() bool {
		return checkErrPos(run, c12Case{Sub: "errpos", Src: []byte("x = 1\r\nx = \"abc\r\ny = 2\r\n"), Line: 2, Note: "demo"}) != ""
	})

	phaseStart := time.Now()
	phase := func(name string) {
		rec.Set("t_"+name+"_s", float64(int(time.Since(phaseStart).Seconds()*10))/10)
		phaseStart = time.Now()
	}

	nviol := 0
	report := func(c c12Case, msg string) {
		if nviol < 8 {
			rec.Violation(c.Sub, c, msg)
		}
		nviol++
	}

	// evalExpr runs one expression case (texts already rendered).
	evalExpr := func(c c12Case, origin string) string {
		for i, tx := range c.Texts {
			if kfComment {
				if s, changed := sanitizeGaps(tx); changed {
					c.Texts[i] = s
					rec.Discard("excluded-by-finding:C12-comment-bracket-eol")
				}
			}
		}
		if msg := leavesDenote(c.Tree); msg != "" {
			return "self-check: " + msg
		}
		res := exprgen.Eval(c.Tree)
		rec.Eval()
		switch {
		case res.Soft != "":
			rec.Class("expr-soft")
		case res.Err != "":
			rec.Class("expr-raises")
		default:
			rec.Class("expr-value-" + string(res.V.K))
		}
		rec.Class(origin)
		if exprgen.PrecedenceDecides(c.Tree) {
			rec.NonTrivial("expr|" + c.Texts[1] + "|" + c.Texts[len(c.Texts)-1])
		}
		rec.Sample(map[string]any{"sub": "expr", "minimal": c.Texts[1], "random": c.Texts[len(c.Texts)-1], "expected": res.String()})
		return checkExpr(run, c)
	}

	// ================================================================ (0) size sweeps
	{
		sidx := 0
		for ti := range c12Sizes {
			tpl := &c12Sizes[ti]
			sweep := c12FlatSweep
			if tpl.nest {
				sweep = c12NestSweep
			}
			if rec.Thorough() && !tpl.nest {
				sweep = append(append([]int{}, sweep...), 20000, 65535, 65536, 100000)
			}
			// one shard handles a whole template (monotonicity is judged per template)
			sidx++
			if !rec.Mine(sidx) {
				continue
			}
			rejectedAt := 0
			for _, n := range sweep {
				if n > tpl.max {
					continue
				}
				note := tpl.name + ":" + strconv.Itoa(n)
				rec.Eval()
				rec.Class("size:" + map[bool]string{true: "nest", false: "flat"}[tpl.nest])
				if n >= 100 {
					rec.NonTrivial("size|" + note)
				}
				msg, rejected := checkSizeCase(run, note, rejectedAt)
				if rejected && rejectedAt == 0 {
					rejectedAt = n
				}
				if msg != "" {
					src, _, _, _ := c12SizeGen(note)
					if len(src) > 400 {
						src = src[:200] + " … " + src[len(src)-200:]
					}
					report(c12Case{Sub: "size", Note: note, Show: src}, fmt.Sprintf("size sweep %s: %s", note, msg))
					break
				}
			}
		}
		phase("size")
	}

	// ================================================================ (a) exhaustive flat sequences
	variants := rec.Pick(2, 4)
	shapeIdx := 0
	nShapes := 0
	doShape := func(items []string, class string) {
		shapeIdx++
		if !rec.Mine(shapeIdx) || nviol > 0 {
			return
		}
		nShapes++
		nv := variants
		if class == "shape:a.b.c.d" {
			nv = (variants + 1) / 2
		}
		for v := 0; v < nv; v++ {
			lcg := &exprgen.LCG{S: rec.BaseSeed()*1000003 + uint64(shapeIdx)*31 + uint64(v)}
			tree := exprgen.ParseFlat(items)
			exprgen.AssignLeaves(tree, exprgen.WAny, lcg)
			flat := exprgen.Join(exprgen.FlatTokens(items, tree.Leaves()), exprgen.MinGap)
			texts := renderings(tree, lcg)
			c := c12Case{Sub: "expr", Tree: tree, Texts: texts, Note: class}
			if texts[1] != flat {
				report(c, fmt.Sprintf("self-check: the minimal rendering %q of the tree parsed from the flat sequence %q has parentheses: the printer and the flat parser (both from the manual's table) disagree", texts[1], flat))
				continue
			}
			if msg := evalExpr(c, class); msg != "" {
				report(c, msg)
			}
		}
	}
	bin, un := exprgen.BinOps, exprgen.UnOps
	for _, o1 := range bin {
		for _, o2 := range bin {
			doShape([]string{"$", o1, "$", o2, "$"}, "shape:a.b.c")
		}
	}
	for _, u := range un {
		for _, o := range bin {
			doShape([]string{u, "$", o, "$"}, "shape:-a.b")
			doShape([]string{"$", o, u, "$"}, "shape:a.-b")
		}
		for _, u2 := range un {
			doShape([]string{u, u2, "$"}, "shape:--a")
			for _, o := range bin {
				doShape([]string{u, u2, "$", o, "$"}, "shape:--a.b")
				doShape([]string{"$", o, u, u2, "$"}, "shape:a.--b")
				doShape([]string{u, "$", o, u2, "$"}, "shape:-a.-b")
			}
		}
	}
	for _, o1 := range bin {
		for _, o2 := range bin {
			for _, o3 := range bin {
				doShape([]string{"$", o1, "$", o2, "$", o3, "$"}, "shape:a.b.c.d")
			}
			for _, u := range un {
				doShape([]string{u, "$", o1, "$", o2, "$"}, "shape:-a.b.c")
				doShape([]string{"$", o1, u, "$", o2, "$"}, "shape:a.-b.c")
				doShape([]string{"$", o1, "$", o2, u, "$"}, "shape:a.b.-c")
			}
		}
	}
	phase("shapes")
	rec.Set("n_flat_shapes", float64(nShapes))
	rec.Set("flat_shapes_total", shapeIdx)

	// ================================================================ (c) multi-valued contexts
	if nviol == 0 {
		for i, c := range multiCases(rec.Thorough()) {
			if !rec.Mine(i) || nviol > 0 {
				continue
			}
			if kfParenVararg && strings.Contains(c.Note, "paren-vararg-last") {
				rec.Discard("excluded-by-finding:C12-paren-vararg")
				continue
			}
			rec.Eval()
			rec.Class("multi:" + strings.Fields(c.Note)[0])
			if strings.Contains(c.Note, "multi") {
				rec.NonTrivial("multi|" + c.Texts[0])
			}
			if i%97 == 0 {
				rec.Sample(map[string]any{"sub": "multi", "context": c.Note, "program": c.Texts[0][strings.Index(c.Texts[0], "--ctx\n")+6:], "expected": c.Want})
			}
			if msg := checkMulti(run, c); msg != "" {
				report(c, msg)
			}
		}
	}

	phase("multi")
	// ================================================================ (b) fixed literal lists
	evalLit := func(c c12Case) string {
		lit := string(c.Src)
		switch c.Sub {
		case "num":
			if kfWrap && kfDecIntWrap(lit) {
				rec.Discard("excluded-by-finding:C12-dec-int-wrap")
				return ""
			}
			rec.Class("num:" + c.Note)
			if n, ok := numref.Numeral(lit); ok && canonNumeral(n) != lit {
				rec.NonTrivial("num|" + lit)
			}
		case "str":
			if kfEmptyLong && isEmptyLong(lit) {
				rec.Discard("excluded-by-finding:C12-empty-long-string")
				return ""
			}
			rec.Class("str:" + c.Note)
			if s, err := strconv.Unquote(strings.TrimPrefix(c.Want, "s:")); err == nil && exprgen.CanonString(s) != lit {
				rec.NonTrivial("str|" + lit)
			}
		case "badlit":
			rec.Class("badlit:" + c.Note)
			rec.NonTrivial("badlit|" + lit)
		}
		rec.Eval()
		rec.Sample(map[string]any{"sub": c.Sub, "literal": c.Show, "class": c.Note, "expected": c.Want})
		return checkCase(run, c)
	}
	if nviol == 0 {
		for i, c := range fixedLiterals() {
			if !rec.Mine(i) {
				continue
			}
			if msg := evalLit(c); msg != "" {
				report(c, msg)
			}
		}
	}
	rec.Exhaustive(true)
	if nviol > 0 {
		return
	}

	// ================================================================ (a) random deeper trees
	wants := []exprgen.Want{exprgen.WAny, exprgen.WAny, exprgen.WNum, exprgen.WInt, exprgen.WStr, exprgen.WBool, exprgen.WCat, exprgen.WArith}
	ok := RunRapid(rec, "C12/expr-random", rec.Pick(5000, 60000), 1, func(t *rapid.T) {
		ch := rch{t}
		tree := exprgen.GenTree(ch, 2+ch.Intn(4), wants[ch.Intn(len(wants))])
		exprgen.RespellLeaves(tree, ch)
		c := c12Case{Sub: "expr", Tree: tree, Texts: renderings(tree, ch), Note: "random"}
		if msg := evalExpr(c, fmt.Sprintf("random-ops:%d", min(tree.Size(), 12))); msg != "" {
			FailCase(t, "expr", c, "%s", msg)
		}
	})
	if !ok {
		return
	}

	phase("random_trees")
	// ================================================================ (b) random literals
	ok = RunRapid(rec, "C12/numerals", rec.Pick(3000, 30000), 2, func(t *rapid.T) {
		lit, class := genNumeral(rch{t})
		c := c12Case{Sub: "num", Src: []byte(lit), Show: lit, Note: class}
		if w, _, ok := numExpect(lit); ok {
			c.Want = w
		}
		if msg := evalLit(c); msg != "" {
			FailCase(t, "num", c, "%s", msg)
		}
	})
	if !ok {
		return
	}
	ok = RunRapid(rec, "C12/strings", rec.Pick(4000, 40000), 3, func(t *rapid.T) {
		c := genStringCase(rch{t})
		if msg := evalLit(c); msg != "" {
			FailCase(t, "str", c, "%s", msg)
		}
	})
	if !ok {
		return
	}
	ok = RunRapid(rec, "C12/bad-literals", rec.Pick(600, 6000), 4, func(t *rapid.T) {
		c := genBadLiteral(rch{t})
		if msg := evalLit(c); msg != "" {
			FailCase(t, "badlit", c, "%s", msg)
		}
	})
	if !ok {
		return
	}

	phase("literals")
	// ================================================================ (d) statement forms
	genProg := func(ch exprgen.Chooser) *pg {
		p := newPG(ch, 4+ch.Intn(22))
		p.noEmptyLong = kfEmptyLong
		p.noLocalAfterGotoEnd = kfEndLabel
		p.chunk()
		if p.avoidedLocal > 0 {
			rec.Discard("excluded-by-finding:C12-function-end-label")
		}
		for ; p.droppedEmpty > 0; p.droppedEmpty-- {
			rec.Discard("excluded-by-finding:C12-empty-long-string")
		}
		return p
	}
	ok = RunRapid(rec, "C12/programs", rec.Pick(1500, 10000), 5, func(t *rapid.T) {
		ch := rch{t}
		p := genProg(ch)
		gap := exprgen.RandomGap(ch)
		rnd := exprgen.Join(tokStrings(p.toks), gap)
		if len(p.toks) > 0 {
			// white space and comments before the first and after the last token;
			// the last comment may be ended by the end of the text
			rnd = gap("", p.toks[0].s) + rnd + gap(p.toks[len(p.toks)-1].s, "") +
				[]string{"", "", "\n", "--x", " --[[ ]]", "\n--[==[\n]==]", " -- c\r", " --[", " --[=[ ]=]--", "\f"}[ch.Intn(10)]
		}
		if kfComment {
			if s, changed := sanitizeGaps(rnd); changed {
				rnd = s
				rec.Discard("excluded-by-finding:C12-comment-bracket-eol")
			}
		}
		plain, _ := renderPlain(p.toks)
		c := c12Case{Sub: "prog", Texts: []string{rnd, plain}}
		rec.Eval()
		for f, n := range p.forms {
			rec.ClassN("form:"+f, int64(n))
		}
		if len(p.forms) >= 3 {
			rec.NonTrivial("prog|" + rnd)
		}
		rec.Sample(map[string]any{"sub": "prog", "program": plain})
		if msg := checkProg(run, c); msg != "" {
			FailCase(t, "prog", c, "%s", msg)
		}
	})
	if !ok {
		return
	}

	phase("programs")
	// ================================================================ (e) error position
	defer phase("errpos")
	RunRapid(rec, "C12/error-position", rec.Pick(3000, 20000), 6, func(t *rapid.T) {
		ch := rch{t}
		p := genProg(ch)
		plain, marks := renderPlain(p.toks)
		c, excl := corrupt(ch, plain, marks, kfEscLine, kfIfLine, kfCRToken)
		if excl != "" {
			rec.Discard("excluded-by-finding:" + excl)
			return
		}
		rec.Eval()
		rec.Class("corruption:" + c.Note)
		if c.Line > 1 {
			rec.NonTrivial("errpos|" + string(c.Src))
		}
		rec.Sample(map[string]any{"sub": "errpos", "corruption": c.Note, "line": c.Line, "program": c.Show})
		if msg := checkErrPos(run, c); msg != "" {
			FailCase(t, "errpos", c, "%s", msg)
		}
	})
}

func min(a, b int) int {
	if a < b {
		return a
	}
	return b
}

// canonNumeral is the canonical spelling of a number (for the non-trivial rule).
func canonNumeral(n numref.Num) string {
	if n.IsInt {
		return strconv.FormatInt(n.I, 10)
	}
	if n.F != n.F || n.F > 1.7e308 || n.F < 0 {
		return "?"
	}
	return exprgen.CanonFloat(n.F)
}
