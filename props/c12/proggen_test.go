package c12

import (
	"fmt"
	"strings"

	"verif/internal/exprgen"
)

// Grammar-based generator of syntactically valid Lua 5.4 programs (manual §9
// "The Complete Syntax of Lua") that also respect the static rules a compiler
// checks: a goto has a visible label and does not jump into the scope of a
// local, labels are not repeated where visible, break only inside loops,
// "..." only inside vararg functions, <const>/<close> variables are never
// assigned, at most one <close> per local statement. The programs are NOT
// meant to run: only `load` must accept them.

type ptok struct {
	s    string
	line bool // a source line may start before this token (statement boundary or block keyword)
	kind byte // innermost block kind at a line start: see block kinds
	dep  int  // block depth at a line start (0: chunk level)
	ret  bool // the line follows a return statement of the block it closes
}

// block kinds
const (
	bkChunk  = 'c'
	bkFunc   = 'f'
	bkLoop   = 'l' // while / for bodies
	bkDo     = 'd'
	bkThen   = 't' // then-block of if / elseif
	bkElse   = 'e'
	bkRepeat = 'r'
)

type pg struct {
	ch     exprgen.Chooser
	toks   []ptok
	budget int
	depth  int // number of enclosing blocks (chunk block = 1)
	kinds  []byte
	labels []string // labels a goto may name at this point
	vararg bool
	inLoop bool
	nK     int
	forms  map[string]int
	// noEmptyLong: do not produce long strings with an empty body (finding C12-empty-long-string open)
	noEmptyLong  bool
	droppedEmpty int
	nextLine     bool
	// noLocalAfterGotoEnd: in a function body or the main chunk, declare no
	// local after a goto to the label at the end of that block (finding
	// C12-function-end-label open)
	noLocalAfterGotoEnd bool
	avoidedLocal        int
	used                map[string]bool // labels some goto names
	lastRet             bool            // the block generated last ended with a return statement
}

func newPG(ch exprgen.Chooser, budget int) *pg {
	return &pg{ch: ch, budget: budget, forms: map[string]int{}, vararg: true, used: map[string]bool{}}
}

func (p *pg) n(k int) int { return p.ch.Intn(k) }

func (p *pg) ln() { p.nextLine = true }

func (p *pg) t(ss ...string) {
	for _, s := range ss {
		tk := ptok{s: s}
		if p.nextLine {
			tk.line = true
			tk.kind = p.kinds[len(p.kinds)-1]
			tk.dep = len(p.kinds) - 1
			p.nextLine = false
		}
		p.toks = append(p.toks, tk)
	}
}

// closer writes a token that ends a nested block of the given kind on a line
// of its own; the insertion point before it still belongs to that block.
func (p *pg) closer(kind byte, tok string) {
	p.toks = append(p.toks, ptok{s: tok, line: true, kind: kind, dep: len(p.kinds), ret: p.lastRet})
	p.nextLine = false
	p.lastRet = false
}

func (p *pg) form(name string) { p.forms[name]++ }

var pgNames = []string{"a", "b", "c", "x", "y", "t", "f", "g", "self", "_", "_ENV", "i", "k", "v", "s", "obj", "Foo", "x1", "_1",
	"nill", "andy", "orr", "notx", "iff", "functio", "local_", "endd", "goto_", "continue", "until_", "whil", "thenn", "elsee",
	"elseiff", "doo", "inn", "forr", "repeatt", "returnn", "breakk", "truee", "falsee", "If", "END", "Nil", "o0", "e1", "E", "p", "P2", "xff"}

var pgLabelBases = []string{"continue", "done", "L", "_", "End", "gotoo", "nil_", "a1", "break_", "top"}

func (p *pg) name() string { return pgNames[p.n(len(pgNames))] }

func (p *pg) chunk() {
	p.block(bkChunk)
}

// block generates the statements of a block (without the enclosing keywords).
func (p *pg) block(kind byte) {
	p.depth++
	p.kinds = append(p.kinds, kind)
	savedLabels := len(p.labels)
	nlab := 0
	newLabel := func() string {
		b := pgLabelBases[nlab%len(pgLabelBases)]
		if nlab >= len(pgLabelBases) {
			b += fmt.Sprint(nlab / len(pgLabelBases))
		}
		nlab++
		// names are unique per nesting depth: blocks nested in each other never
		// share a label name, disjoint blocks may
		return b + strings.Repeat("_", p.depth-1)
	}
	cont := ""
	if kind != bkRepeat && p.n(4) == 0 {
		// a label at the very end of the block ("continue" idiom): visible to
		// every goto in the block even past local declarations, because "this
		// restriction does not apply to a label at the end of a block"
		cont = newLabel()
		p.labels = append(p.labels, cont)
		p.used[cont] = false
	}
	// input class of finding C12-function-end-label
	avoid := func() int {
		if p.noLocalAfterGotoEnd && (kind == bkChunk || kind == bkFunc) && cont != "" && p.used[cont] {
			return 2
		}
		return 0
	}
	n := p.n(5)
	if kind == bkChunk {
		n += 3
	}
	for i := 0; i < n && p.budget > 0; i++ {
		switch p.n(12) {
		case 0: // a label that later statements may jump back to
			l := newLabel()
			p.ln()
			p.t("::", l, "::")
			p.form("label")
			p.labels = append(p.labels, l)
		case 1: // forward jump over statements that declare no local at this level
			l := newLabel()
			p.ln()
			p.t("goto", l)
			p.form("goto-forward")
			p.labels = append(p.labels, l)
			for k := 1 + p.n(2); k > 0 && p.budget > 0; k-- {
				p.statement(1)
			}
			p.ln()
			p.t("::", l, "::")
			p.form("label")
		default:
			p.statement(avoid())
		}
	}
	ret := false
	switch {
	case cont != "":
		p.ln()
		p.t("::", cont, "::")
		p.form("label-at-block-end")
		for k := p.n(3); k > 0; k-- {
			p.t(";")
		}
	case p.n(4) == 0:
		p.ln()
		p.t("return")
		p.form("return")
		ret = true
		if p.n(4) != 0 {
			p.explist(1 + p.n(3))
		}
		if p.n(2) == 0 {
			p.t(";")
		}
	}
	p.labels = p.labels[:savedLabels]
	p.kinds = p.kinds[:len(p.kinds)-1]
	p.depth--
	p.lastRet = ret
}

func (p *pg) nested(kind byte) {
	p.lastRet = false
	if p.depth >= 5 || p.budget <= 0 {
		// keep it shallow: an empty or one-statement block
		p.depth++
		p.kinds = append(p.kinds, kind)
		if p.n(2) == 0 {
			p.ln()
			p.t(";")
		}
		p.kinds = p.kinds[:len(p.kinds)-1]
		p.depth--
		return
	}
	p.block(kind)
}

func (p *pg) statement(noLocal int) { // 0: any statement; 1: no local (forward jump in progress); 2: no local (open finding)
	p.budget--
	p.ln()
	for {
		switch p.n(17) {
		case 0:
			p.t(";")
			p.form("empty")
		case 1, 2:
			p.assignment()
		case 3, 4:
			p.callStat()
		case 5:
			p.t("do")
			p.form("do")
			p.nested(bkDo)
			p.closer(bkDo, "end")
		case 6:
			p.t("while")
			p.form("while")
			p.exp(2)
			p.t("do")
			p.loopBody()
			p.closer(bkLoop, "end")
		case 7:
			p.t("repeat")
			p.form("repeat")
			saved := p.inLoop
			p.inLoop = true
			p.nested(bkRepeat)
			p.inLoop = saved
			p.closer(bkRepeat, "until")
			p.exp(2)
		case 8:
			p.t("if")
			p.form("if")
			p.exp(2)
			p.t("then")
			p.nested(bkThen)
			for k := p.n(3); k > 0; k-- {
				p.closer(bkThen, "elseif")
				p.form("elseif")
				p.exp(2)
				p.t("then")
				p.nested(bkThen)
			}
			last := byte(bkThen)
			if p.n(2) == 0 {
				p.closer(bkThen, "else")
				p.form("else")
				p.nested(bkElse)
				last = bkElse
			}
			p.closer(last, "end")
		case 9:
			p.t("for", p.name(), "=")
			p.form("for-num")
			p.exp(1)
			p.t(",")
			p.exp(1)
			if p.n(2) == 0 {
				p.t(",")
				p.exp(1)
			}
			p.t("do")
			p.loopBody()
			p.closer(bkLoop, "end")
		case 10:
			p.t("for", p.name())
			p.form("for-in")
			for k := p.n(3); k > 0; k-- {
				p.t(",", p.name())
			}
			p.t("in")
			p.explist(1 + p.n(3))
			p.t("do")
			p.loopBody()
			p.closer(bkLoop, "end")
		case 11:
			p.t("function", p.name())
			p.form("function")
			for k := p.n(3); k > 0; k-- {
				p.t(".", p.name())
			}
			if p.n(3) == 0 {
				p.t(":", p.name())
				p.form("function-method")
			}
			p.funcBody()
		case 12:
			if noLocal != 0 {
				if noLocal == 2 {
					p.avoidedLocal++
				}
				continue
			}
			p.t("local", "function", p.name())
			p.form("local-function")
			p.funcBody()
		case 13:
			if noLocal != 0 {
				if noLocal == 2 {
					p.avoidedLocal++
				}
				continue
			}
			p.local()
		case 14:
			if !p.inLoop {
				continue
			}
			p.t("break")
			p.form("break")
		case 15:
			if len(p.labels) == 0 {
				continue
			}
			l := p.labels[p.n(len(p.labels))]
			p.used[l] = true
			p.t("goto", l)
			p.form("goto")
		case 16:
			// call with sugar / method call statements
			p.t(p.name())
			switch p.n(4) {
			case 0:
				p.t(p.stringLit())
				p.form("call-string-sugar")
			case 1:
				p.table(1)
				p.form("call-table-sugar")
			case 2:
				p.t(":", p.name())
				p.args(1)
				p.form("method-call")
			default:
				p.t(".", p.name(), ":", p.name(), p.stringLit())
				p.form("method-call")
			}
		}
		return
	}
}

func (p *pg) loopBody() {
	saved := p.inLoop
	p.inLoop = true
	p.nested(bkLoop)
	p.inLoop = saved
}

func (p *pg) funcBody() {
	p.t("(")
	va := false
	switch p.n(5) {
	case 0:
	case 1:
		p.t("...")
		va = true
	case 2:
		p.t(p.name())
	case 3:
		p.t(p.name(), ",", p.name())
	default:
		p.t(p.name(), ",", p.name(), ",", "...")
		va = true
	}
	p.t(")")
	sv, sl, slab := p.vararg, p.inLoop, p.labels
	p.vararg, p.inLoop, p.labels = va, false, nil
	p.nested(bkFunc)
	p.vararg, p.inLoop, p.labels = sv, sl, slab
	p.closer(bkFunc, "end")
}

func (p *pg) local() {
	p.t("local")
	p.form("local")
	n := 1 + p.n(3)
	closed := false
	for i := 0; i < n; i++ {
		if i > 0 {
			p.t(",")
		}
		switch k := p.n(6); {
		case k == 0:
			p.nK++
			p.t(fmt.Sprintf("K%d", p.nK), "<", "const", ">")
			p.form("attrib-const")
		case k == 1 && !closed:
			closed = true
			p.nK++
			p.t(fmt.Sprintf("C%d", p.nK), "<", "close", ">")
			p.form("attrib-close")
		default:
			p.t(p.name())
		}
	}
	if p.n(4) != 0 {
		p.t("=")
		p.explist(1 + p.n(3))
	}
}

// variable: Name | prefixexp '[' exp ']' | prefixexp '.' Name
func (p *pg) variable() {
	if p.n(2) == 0 {
		p.t(p.name())
		return
	}
	p.prefixHead()
	p.suffixes(p.n(3), false)
	if p.n(2) == 0 {
		p.t(".", p.name())
	} else {
		p.t("[")
		p.exp(1)
		p.t("]")
	}
}

func (p *pg) assignment() {
	p.form("assignment")
	// a statement must not begin with '(' right after another statement: it
	// would be read as a call of the previous expression
	start := len(p.toks)
	p.variable()
	for k := p.n(3); k > 0; k-- {
		p.t(",")
		p.variable()
	}
	p.t("=")
	p.explist(1 + p.n(3))
	p.guardParen(start)
}

func (p *pg) callStat() {
	p.form("call")
	start := len(p.toks)
	p.prefixHead()
	p.suffixes(p.n(3), false)
	p.callSuffix()
	p.guardParen(start)
}

// guardParen inserts ';' before a statement that starts with '('.
func (p *pg) guardParen(start int) {
	if p.toks[start].s != "(" {
		return
	}
	semi := ptok{s: ";", line: p.toks[start].line, kind: p.toks[start].kind, dep: p.toks[start].dep}
	p.toks[start].line = false
	p.toks = append(p.toks, ptok{})
	copy(p.toks[start+1:], p.toks[start:])
	p.toks[start] = semi
	p.form("paren-statement")
}

func (p *pg) prefixHead() {
	if p.n(5) == 0 {
		p.t("(")
		p.exp(1)
		p.t(")")
		return
	}
	p.t(p.name())
}

func (p *pg) callSuffix() {
	switch p.n(6) {
	case 0:
		p.t(p.stringLit())
	case 1:
		p.table(1)
	case 2:
		p.t(":", p.name())
		p.args(1)
	default:
		p.args(1)
	}
}

func (p *pg) suffixes(n int, _ bool) {
	for ; n > 0; n-- {
		switch p.n(5) {
		case 0, 1:
			p.t(".", p.name())
		case 2:
			p.t("[")
			p.exp(1)
			p.t("]")
		default:
			p.callSuffix()
		}
	}
}

func (p *pg) args(d int) {
	p.t("(")
	if k := p.n(4); k > 0 {
		p.explist2(k, d)
	}
	p.t(")")
}

func (p *pg) explist(n int) { p.explist2(n, 2) }

func (p *pg) explist2(n, d int) {
	for i := 0; i < n; i++ {
		if i > 0 {
			p.t(",")
		}
		p.exp(d)
	}
}

var pgBinOps = exprgen.BinOps
var pgUnOps = []string{"not", "#", "-", "~"}

func (p *pg) exp(d int) {
	k := p.n(20)
	if d <= 0 && k >= 7 {
		k = p.n(7)
	}
	switch {
	case k < 7:
		p.simple()
	case k < 11:
		p.exp(d - 1)
		p.t(pgBinOps[p.n(len(pgBinOps))])
		p.exp(d - 1)
	case k < 13:
		p.t(pgUnOps[p.n(4)])
		p.exp(d - 1)
	case k < 16:
		p.prefixHead()
		p.suffixes(1+p.n(3), false)
	case k == 16:
		p.t("function")
		p.form("function-expression")
		if p.budget > 0 && p.depth < 4 {
			p.funcBody()
		} else {
			p.t("(", ")", "end")
		}
	case k < 19:
		p.table(d - 1)
	default:
		p.t("(")
		p.exp(d - 1)
		p.t(")")
	}
}

func (p *pg) simple() {
	switch p.n(9) {
	case 0:
		p.t("nil")
	case 1:
		p.t([]string{"true", "false"}[p.n(2)])
	case 2, 3:
		p.t(p.numeral())
	case 4, 5:
		p.t(p.stringLit())
	case 6:
		if p.vararg {
			p.t("...")
			return
		}
		p.t(p.name())
	default:
		p.t(p.name())
	}
}

var pgNumerals = []string{"0", "1", "42", "007", "3.", ".5", "3.25", "1e2", "1E-2", "5e+3", "0x10", "0XfF", "0x.8", "0xA.8p1", "0x1p-2", "0X1P+4",
	"9223372036854775807", "0xffffffffffffffff", "1e308", "0x7fffffffffffffff", "3.e1", ".0", "0e0", "123456789012"}

func (p *pg) numeral() string { return pgNumerals[p.n(len(pgNumerals))] }

var pgStrings = []string{`""`, `''`, `"a"`, `'b'`, `"it's"`, `'say "x"'`, `"\n\t\\"`, `'\65\066\x41\u{48}'`, `"\z   x"`, `"a\z
   b"`, `"line\
break"`, `[[long]]`, `[[
first newline skipped]]`, `[==[ ]] ]=] ]==]`, `[=[two
lines]=]`, `[[]]`, `[==[]==]`, `"--not a comment"`, `'[[not long]]'`, `[[ -- no comment ]]`, `"\0\00\000"`, `'\u{7FFFFFFF}'`, `"end"`, `[[x]]`}

func (p *pg) stringLit() string {
	s := pgStrings[p.n(len(pgStrings))]
	if p.noEmptyLong && isEmptyLong(s) {
		p.droppedEmpty++
		return "[[ ]]"
	}
	return s
}

// isEmptyLong recognises a long string literal with nothing between the
// brackets (input class of finding C12-empty-long-string).
func isEmptyLong(s string) bool {
	if len(s) < 4 || s[0] != '[' {
		return false
	}
	i := 1
	for i < len(s) && s[i] == '=' {
		i++
	}
	if i >= len(s) || s[i] != '[' {
		return false
	}
	return len(s) == 2*(i+1)
}

func (p *pg) table(d int) {
	p.t("{")
	n := p.n(5)
	for i := 0; i < n; i++ {
		switch p.n(4) {
		case 0:
			p.t(p.name(), "=")
			p.exp(d)
		case 1:
			p.t("[")
			p.exp(d)
			p.t("]", "=")
			p.exp(d)
		default:
			p.exp(d)
		}
		if i < n-1 || p.n(3) == 0 {
			p.t([]string{",", ";"}[p.n(2)])
		}
	}
	p.t("}")
}

// renderPlain writes one line per statement boundary, one blank between the
// other tokens. It returns the text (LF line ends) and the byte offsets at
// which a new line may be inserted (the start of every line but the first),
// with the block kind and depth there.
type pmark struct {
	off  int
	kind byte
	dep  int
	ret  bool
}

func renderPlain(toks []ptok) (string, []pmark) {
	var sb strings.Builder
	var marks []pmark
	for i, t := range toks {
		if i > 0 {
			if t.line {
				sb.WriteByte('\n')
				marks = append(marks, pmark{off: sb.Len(), kind: t.kind, dep: t.dep, ret: t.ret})
			} else {
				sb.WriteByte(' ')
			}
		}
		sb.WriteString(t.s)
	}
	sb.WriteByte('\n')
	return sb.String(), marks
}

func tokStrings(toks []ptok) []string {
	out := make([]string, len(toks))
	for i, t := range toks {
		out[i] = t.s
	}
	return out
}
