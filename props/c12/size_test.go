package c12

import (
	"fmt"
	"strconv"
	"strings"
)

// Size sweeps for C12: chunks built by construction whose size along one
// syntactic dimension is n. "flat" dimensions (repetition at one nesting
// level) have no limit a front end may legitimately impose at these sizes:
// the chunk must be accepted and denote the value computed here. "nest"
// dimensions may hit the implementation's nesting limit: the chunk must be
// accepted up to n = 90 (the reference implementation allows 200 levels and a
// construct may cost two), a
// rejection must say that a limit was exceeded, and acceptance must be
// monotone in n (rejected at n implies rejected at every larger n tried).
// A case is identified by "template:n"; the replay regenerates the source.

type c12Size struct {
	name string
	nest bool
	max  int
	gen  func(n int) (src string, want string)
}

func rp(s string, n int) string { return strings.Repeat(s, n) }

func sq(n int, f func(i int) string, sep string) string {
	parts := make([]string, n)
	for i := range parts {
		parts[i] = f(i + 1)
	}
	return strings.Join(parts, sep)
}

func iv(n int) string { return "i:" + strconv.Itoa(n) }

var c12Sizes = []c12Size{
	// ---- flat
	{"statements", false, 20000, func(n int) (string, string) {
		return "local x = 0 " + rp("x = x + 1 ", n) + "return x", iv(n)
	}},
	{"unary-minus-statements", false, 20000, func(n int) (string, string) {
		return "local a, s = 1, 0 " + rp("s = s + -a ", n) + "return s", iv(-n)
	}},
	{"unary-not-statements", false, 20000, func(n int) (string, string) {
		return "local a, c = false, 0 " + rp("if not a then c = c + 1 end ", n) + "return c", iv(n)
	}},
	{"unary-len-statements", false, 20000, func(n int) (string, string) {
		return "local a, s = 'xy', 0 " + rp("s = s + #a ", n) + "return s", iv(2 * n)
	}},
	{"unary-bnot-statements", false, 20000, func(n int) (string, string) {
		return "local a, s = 0, 0 " + rp("s = s + ~a ", n) + "return s", iv(-n)
	}},
	{"unary-in-table-items", false, 20000, func(n int) (string, string) {
		return "local a = 1 local t = {" + sq(n, func(i int) string { return "-a" }, ",") + "} return #t, t[#t]", iv(n) + " i:-1"
	}},
	{"unary-in-arguments", false, 100, func(n int) (string, string) {
		return "local a = 1 return select('#', " + sq(n, func(i int) string { return "-a" }, ",") + ")", iv(n)
	}},
	{"addition-chain", false, 20000, func(n int) (string, string) {
		return "local a = 1 return a" + rp(" + a", n), iv(n + 1)
	}},
	{"subtraction-chain", false, 20000, func(n int) (string, string) {
		return "local a = 1 return 0" + rp(" - a", n), iv(-n)
	}},
	{"and-chain", false, 20000, func(n int) (string, string) {
		return "local a = 1 return a" + rp(" and a", n), iv(1)
	}},
	{"or-chain", false, 20000, func(n int) (string, string) {
		return "local a = false return a" + rp(" or a", n) + " or 7", iv(7)
	}},
	{"comparison-chain", false, 20000, func(n int) (string, string) {
		return "return (1 < 2)" + rp(" == true", n), "true"
	}},
	{"table-items", false, 20000, func(n int) (string, string) {
		return "local t = {" + sq(n, func(i int) string { return strconv.Itoa(i) }, ",") + "} return #t, t[#t]", iv(n) + " " + iv(n)
	}},
	{"table-named-fields", false, 20000, func(n int) (string, string) {
		return "local t = {" + sq(n, func(i int) string { return "f" + strconv.Itoa(i) + "=" + strconv.Itoa(i) }, ";") + "} return t.f1, t.f" + strconv.Itoa(n), iv(1) + " " + iv(n)
	}},
	{"table-computed-fields", false, 20000, func(n int) (string, string) {
		return "local t = {" + sq(n, func(i int) string { return "[" + strconv.Itoa(i) + "*2]=" + strconv.Itoa(i) }, ",") + "} return t[2], t[" + strconv.Itoa(2*n) + "]", iv(1) + " " + iv(n)
	}},
	{"local-functions", false, 5000, func(n int) (string, string) {
		return "local r " + sq(n, func(i int) string { return "do local function f() return " + strconv.Itoa(i) + " end r = f() end" }, " ") + " return r", iv(n)
	}},
	{"function-statements", false, 20000, func(n int) (string, string) {
		return "local M = {} " + sq(n, func(i int) string { return "function M.f" + strconv.Itoa(i) + "(x) return x + " + strconv.Itoa(i) + " end" }, " ") + " return M.f" + strconv.Itoa(n) + "(1)", iv(n + 1)
	}},
	{"elseif-chain", false, 5000, func(n int) (string, string) {
		return "local v, r = " + strconv.Itoa(n) + " if v == 0 then r = 0 " + sq(n, func(i int) string { return "elseif v == " + strconv.Itoa(i) + " then r = " + strconv.Itoa(i*2) }, " ") + " else r = -1 end return r", iv(2 * n)
	}},
	{"method-call-chain", false, 5000, func(n int) (string, string) {
		return "local c = 0 local o = {} function o:m() c = c + 1 return self end o" + rp(":m()", n) + " return c", iv(n)
	}},
	{"index-chain", false, 20000, func(n int) (string, string) {
		return "local t = {} t.a = t return t" + rp(".a", n) + " == t", "true"
	}},
	{"bracket-index-chain", false, 20000, func(n int) (string, string) {
		return "local t = {} t[1] = t return t" + rp("[1]", n) + " == t", "true"
	}},
	{"call-chain", false, 5000, func(n int) (string, string) {
		return "local c = 0 local function f() c = c + 1 return f end f" + rp("()", n) + " return c", iv(n)
	}},
	{"string-call-chain", false, 5000, func(n int) (string, string) {
		return "local c = 0 local function f(s) c = c + #s return f end f" + rp("'ab'", n) + " return c", iv(2 * n)
	}},
	{"semicolons", false, 20000, func(n int) (string, string) {
		return rp(";", n) + "return 1" + rp(";", 1), iv(1)
	}},
	{"labels-and-gotos", false, 5000, func(n int) (string, string) {
		return "local c = 0 " + sq(n, func(i int) string { s := strconv.Itoa(i); return "goto l" + s + " c = c - 1000000 ::l" + s + ":: c = c + 1" }, " ") + " return c", iv(n)
	}},
	{"do-blocks-in-sequence", false, 20000, func(n int) (string, string) {
		return "local c = 0 " + rp("do local x = 1 c = c + x end ", n) + "return c", iv(n)
	}},
	{"loops-in-sequence", false, 5000, func(n int) (string, string) {
		return "local c = 0 " + rp("for i = 1, 1 do c = c + i end while false do end repeat c = c + 1 until true ", n) + "return c", iv(2 * n)
	}},
	{"long-comment", false, 1 << 20, func(n int) (string, string) {
		return "--[==[" + rp("x]]\n", n) + "]==] return 5", iv(5)
	}},
	{"line-comments", false, 20000, func(n int) (string, string) {
		return rp("-- c\n", n) + "return 6", iv(6)
	}},
	{"blank-lines", false, 100000, func(n int) (string, string) {
		return rp("\n", n) + "return 7", iv(7)
	}},
	{"long-line", false, 1 << 20, func(n int) (string, string) {
		return rp(" ", n) + "return 8", iv(8)
	}},
	{"long-name", false, 100000, func(n int) (string, string) {
		name := "v" + rp("a", n)
		return "local " + name + " = 9 return " + name, iv(9)
	}},
	{"long-string-escapes", false, 100000, func(n int) (string, string) {
		return `return #"` + rp(`\65\x41\u{41}A\z   `, n) + `"`, iv(4 * n)
	}},
	{"long-bracket-level", false, 5000, func(n int) (string, string) {
		return "return #[" + rp("=", n) + "[ab]" + rp("=", n-1) + "]x]" + rp("=", n) + "]", iv(2 + 1 + n + 1)
	}},
	{"numerals", false, 20000, func(n int) (string, string) {
		return "return 0" + sq(n, func(i int) string { return []string{" + 1", " + 0x1", " + 1.0 // 1", " + 1e0 // 1", " + 0x.8p1 // 1"}[i%5] }, "") + " == " + strconv.Itoa(n), "true"
	}},
	{"multiple-assignment-targets", false, 50, func(n int) (string, string) {
		return "local t = {} " + sq(n, func(i int) string { return "t[" + strconv.Itoa(i) + "]" }, ",") + " = " + sq(n, func(i int) string { return strconv.Itoa(i) }, ",") + " return #t, t[#t]", iv(n) + " " + iv(n)
	}},
	{"return-list", false, 100, func(n int) (string, string) {
		return "local function f() return " + sq(n, func(i int) string { return strconv.Itoa(i) }, ",") + " end return select('#', f())", iv(n)
	}},
	// ---- nest
	{"nested-parentheses", true, 400, func(n int) (string, string) { return "return " + rp("(", n) + "1" + rp(")", n), iv(1) }},
	{"nested-unary-minus", true, 400, func(n int) (string, string) {
		return "local a = 1 return " + rp("- ", n) + "a", iv(1 - 2*(n%2))
	}},
	{"nested-not", true, 400, func(n int) (string, string) {
		return "return " + rp("not ", n) + "true", map[bool]string{true: "true", false: "false"}[n%2 == 0]
	}},
	{"nested-tables", true, 400, func(n int) (string, string) {
		return "local t = " + rp("{", n) + "1" + rp("}", n) + " local d = 0 while type(t) == 'table' do t = t[1] d = d + 1 end return d", iv(n)
	}},
	{"nested-functions", true, 400, func(n int) (string, string) {
		return "local f = " + rp("function() return ", n) + "1" + rp(" end", n) + " local d = 0 while type(f) == 'function' do f = f() d = d + 1 end return d", iv(n)
	}},
	{"nested-do-blocks", true, 400, func(n int) (string, string) {
		return "local c = 0 " + rp("do c = c + 1 ", n) + rp("end ", n) + "return c", iv(n)
	}},
	{"nested-if", true, 400, func(n int) (string, string) {
		return "local c = 0 " + rp("if true then c = c + 1 ", n) + rp("end ", n) + "return c", iv(n)
	}},
	{"nested-while", true, 400, func(n int) (string, string) {
		return "local c = 0 " + rp("while true do c = c + 1 ", n) + "do return c end " + rp("end ", n), iv(n)
	}},
	{"nested-calls", true, 400, func(n int) (string, string) {
		return "local function f(x) return x + 1 end return " + rp("f(", n) + "0" + rp(")", n), iv(n)
	}},
	{"nested-index", true, 400, func(n int) (string, string) {
		return "local t = {1} return " + rp("t[", n) + "1" + rp("]", n), iv(1)
	}},
	{"concat-chain", true, 20000, func(n int) (string, string) {
		return "local a = 'x' return #(a" + rp(" .. a", n) + ")", iv(n + 1)
	}},
	{"power-chain", true, 20000, func(n int) (string, string) {
		return "local a = 1 return a" + rp(" ^ a", n), "f:3ff0000000000000(1)"
	}},
}

var c12FlatSweep = []int{1, 2, 3, 10, 100, 199, 200, 201, 255, 256, 257, 400, 1000, 5000}
var c12NestSweep = []int{1, 2, 3, 10, 50, 90, 99, 100, 101, 150, 190, 199, 200, 201, 250, 399}

func c12SizeGen(note string) (src, want string, tpl *c12Size, n int) {
	parts := strings.SplitN(note, ":", 2)
	if len(parts) != 2 {
		return
	}
	n, _ = strconv.Atoi(parts[1])
	for i := range c12Sizes {
		if c12Sizes[i].name == parts[0] {
			tpl = &c12Sizes[i]
			src, want = tpl.gen(n)
		}
	}
	return
}

var limitWords = []string{"too many", "limit", "overflow", "levels", "too deep", "nested too", "too complex", "too large", "not enough registers", "too long", "out of range"}

// checkSizeCase judges one (template, n). rejectedBelow: the smallest n of the
// same template that was rejected so far (0 if none), for monotonicity.
func checkSizeCase(run *runner, note string, rejectedBelow int) (msg string, rejected bool) {
	src, want, tpl, n := c12SizeGen(note)
	if tpl == nil {
		return "unknown size template " + note, false
	}
	o := run.run("r", src)
	switch o.Kind {
	case "panic":
		return "Go panic: " + o.Msg, false
	case "killed":
		return "", false // the CPU safety net: inconclusive for this size
	case "compile-error":
		// a function has a size limit too (opcodes, jump distances, constants):
		// from 1000 repetitions on a flat dimension may meet it
		if !tpl.nest && n < 1000 {
			return fmt.Sprintf("a valid chunk (%d repetitions at one nesting level) is rejected: %s", n, o.Msg), true
		}
		if tpl.nest && n <= 90 {
			return fmt.Sprintf("a valid chunk with only %d nested levels is rejected: %s", n, o.Msg), true
		}
		low := strings.ToLower(o.Msg)
		for _, w := range limitWords {
			if strings.Contains(low, w) {
				return "", true
			}
		}
		return fmt.Sprintf("size %d is rejected with a message that does not name a limit: %s", n, o.Msg), true
	case "error":
		return fmt.Sprintf("the chunk compiles but raises: %s", o.Msg), false
	}
	if rejectedBelow > 0 && n > rejectedBelow {
		return fmt.Sprintf("accepted with n=%d although the same construct was rejected with n=%d (the limit is not a limit on this construct)", n, rejectedBelow), false
	}
	if o.Rets != want {
		return fmt.Sprintf("the chunk denotes %s, golua returns %s", want, o.Rets), false
	}
	return "", false
}
