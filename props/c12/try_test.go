package c12

import (
	"fmt"
	"os"
	"strings"
	"testing"

	"verif/internal/harness"
)

// TestC12Try is a developer aid: C12_TRY=<file with Lua chunks separated by
// lines "----"> prints what golua does with each. Skipped otherwise.
func TestC12Try(t *testing.T) {
	f := os.Getenv("C12_TRY")
	if f == "" {
		t.Skip("developer aid")
	}
	b, err := os.ReadFile(f)
	if err != nil {
		t.Fatal(err)
	}
	for _, src := range strings.Split(string(b), "\n----\n") {
		src = strings.ReplaceAll(src, "<CR>", "\r")
		src = strings.ReplaceAll(src, "<NUL>", "\x00")
		tr := harness.Run(src, harness.Opts{CPU: 10_000_000, NoContext: os.Getenv("C12_NOCTX") != ""})
		fmt.Printf("=== %q\n%s", src, tr)
	}
}
