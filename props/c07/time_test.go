package c07

import (
	"bytes"
	"fmt"
	"time"

	rt "github.com/arnodel/golua/runtime"
)

// Time budgets, one-sided and therefore independent of the machine's speed:
// "a child context can never have more hard ... time budget than its parent
// has left at the moment of creation". Inside a context limited to L ms the
// harness sleeps d ms (so at least d ms of the budget are gone, however little
// CPU was charged) and then pushes a child; whatever the child's definition,
// its hard time budget must be <= L - d. Only a lower bound of the elapsed time
// is used, so a slow or loaded machine cannot make the check fail.

type timeCase struct {
	LimitMs int    `json:"limit_ms"`
	SleepMs int    `json:"sleep_ms"`
	Child   string `json:"child"` // "empty" | "cpu" | "mem" | "millis-bigger" | "pcall"
	Depth   int    `json:"depth"` // nesting levels, sleeping at each
}

func checkTimeBudget(c timeCase) (msg string) {
	defer func() {
		if p := recover(); p != nil {
			msg = fmt.Sprintf("Go panic: %v", p)
		}
	}()
	r := rt.New(&bytes.Buffer{})
	var report string
	childDef := func() rt.RuntimeContextDef {
		switch c.Child {
		case "cpu":
			return rt.RuntimeContextDef{HardLimits: rt.RuntimeResources{Cpu: 1 << 40}}
		case "mem":
			return rt.RuntimeContextDef{HardLimits: rt.RuntimeResources{Memory: 1 << 40}}
		case "millis-bigger":
			return rt.RuntimeContextDef{HardLimits: rt.RuntimeResources{Millis: uint64(c.LimitMs) * 10}}
		}
		return rt.RuntimeContextDef{}
	}
	var level func(depth int, budget uint64) error
	level = func(depth int, budget uint64) error {
		time.Sleep(time.Duration(c.SleepMs) * time.Millisecond)
		_, err := r.MainThread().CallContext(childDef(), func() error {
			got := r.HardLimits().Millis
			max := budget - uint64(c.SleepMs)
			if got == 0 || got > max {
				report = fmt.Sprintf("at nesting level %d the enclosing context had a time budget of at most %d ms when it was entered and at least %d ms have passed in it since, yet the child context pushed now (definition %q) has a hard time budget of %d ms (0 = none): more than its parent has left", depth, budget, c.SleepMs, c.Child, got)
				return nil
			}
			if depth < c.Depth {
				return level(depth+1, got)
			}
			return nil
		})
		return err
	}
	_, err := r.MainThread().CallContext(rt.RuntimeContextDef{HardLimits: rt.RuntimeResources{Millis: uint64(c.LimitMs)}}, func() error {
		return level(1, uint64(c.LimitMs))
	})
	if report != "" {
		return report
	}
	if err != nil {
		return "unexpected error: " + err.Error()
	}
	return ""
}
