package c07

import (
	"fmt"
	"runtime"
	"sort"
	"strconv"
	"strings"
	"time"

	rt "github.com/arnodel/golua/runtime"
	"pgregory.net/rapid"

	"verif/internal/harness"
)

// ---------------------------------------------------------------------------
// Lua level: generated nestings of runtime.callcontext / pcall / coroutines
// ---------------------------------------------------------------------------

// LNode is one statement of a generated program.
//
//	ctx    runtime.callcontext(def, function() Body; End end), reported before/inside/after
//	pcall  pcall(function() Body; End end)  (pcall runs its function in a context of its own)
//	co     a coroutine: Body; yield("mid"); Body2; yield("last"). Cross: the first
//	       resume happens inside a fresh callcontext (the node's own context), the rest
//	       in the enclosing context. CrossEnd: the coroutine returns inside that context.
//	burn   for i=1,N do tick() end          mburn  N table allocations
//	stop   runtime.stopcontext()            yield  coroutine.yield() (only generated
//	       inside a context opened by the coroutine itself)
type LNode struct {
	K        string   `json:"k"`
	ID       int      `json:"id"`
	KillCPU  int64    `json:"kill_cpu,omitempty"`
	KillMem  int64    `json:"kill_mem,omitempty"`
	StopCPU  int64    `json:"stop_cpu,omitempty"`
	StopMem  int64    `json:"stop_mem,omitempty"`
	KillTime bool     `json:"kill_time,omitempty"`
	StopTime bool     `json:"stop_time,omitempty"`
	Flags    []string `json:"flags,omitempty"`
	End      string   `json:"end,omitempty"` // ret err xcpu xmem kill bcpu bmem
	N        int      `json:"n,omitempty"`
	Cross    bool     `json:"cross,omitempty"`
	CrossEnd bool     `json:"cross_end,omitempty"`
	FinStop  bool     `json:"fin_stop,omitempty"`
	FinKill  bool     `json:"fin_kill,omitempty"`
	Body     []LNode  `json:"body,omitempty"`
	Body2    []LNode  `json:"body2,omitempty"`
}

type LProg struct {
	Body []LNode `json:"body"`
}

const (
	sessCPU  = 50_000_000
	sessMem  = 500_000_000
	ampleCPU = 3_000_000
	ampleMem = 50_000_000
	memSlack = 8192 // memory can be given back (call frames): relations on memory allow this much
)

type nodeInfo struct {
	n       *LNode
	owner   int  // context in which the node's statement runs (0 = the session context)
	isCtx   bool // the node has a context of its own (ctx, pcall, cross co)
	sure    bool // own context and all enclosing ones have ample budgets
	ownSure bool // the owner is sure
}

type rendered struct {
	src           string
	info          map[int]*nodeInfo
	ctxParent     map[int]int
	hasCrossYield bool
	hasFinKill    bool
	hasCrossEnd   bool
	hasCo         bool
	depth         int
	nctx          int
}

const luaPrelude = `
COS = {}
local function rep(tag, node, owner, c, live)
  local u1, m1 = c.used.cpu or 0, c.used.memory or 0
  local due = c.due
  local cd = nil
  if live then cd = runtime.contextdue() end
  local u2, m2 = c.used.cpu or 0, c.used.memory or 0
  emit(tag, node, owner, c.status, c.kill.cpu, c.kill.memory, c.kill.millis, c.stop.cpu, c.stop.memory, c.stop.millis, u1, m1, u2, m2, due, c.flags, cd)
end
local function drain(co, n)
  for i = 1, 8 do
    local ok, v = coroutine.resume(co)
    emit("drain", n, ok, v)
    if not ok or v == "last" then break end
  end
end
`

func assignIDs(nodes []LNode, next *int) {
	for i := range nodes {
		*next++
		nodes[i].ID = *next
		assignIDs(nodes[i].Body, next)
		assignIDs(nodes[i].Body2, next)
	}
}

func isAmple(n *LNode) bool {
	return (n.KillCPU == 0 || n.KillCPU >= ampleCPU) && (n.KillMem == 0 || n.KillMem >= ampleMem)
}

func luaDef(n *LNode) string {
	var parts []string
	tbl := func(cpu, mem int64, tm bool, secs string) string {
		var f []string
		if cpu > 0 {
			f = append(f, fmt.Sprintf("cpu=%d", cpu))
		}
		if mem > 0 {
			f = append(f, fmt.Sprintf("memory=%d", mem))
		}
		if tm {
			f = append(f, "seconds="+secs)
		}
		return "{" + strings.Join(f, ",") + "}"
	}
	if n.KillCPU > 0 || n.KillMem > 0 || n.KillTime {
		parts = append(parts, "kill="+tbl(n.KillCPU, n.KillMem, n.KillTime, "1e9"))
	}
	if n.StopCPU > 0 || n.StopMem > 0 || n.StopTime {
		parts = append(parts, "stop="+tbl(n.StopCPU, n.StopMem, n.StopTime, "5e8"))
	}
	if len(n.Flags) > 0 {
		parts = append(parts, fmt.Sprintf("flags=%q", strings.Join(n.Flags, " ")))
	}
	return "{" + strings.Join(parts, ",") + "}"
}

type renderer struct {
	sb  strings.Builder
	out *rendered
}

func (r *renderer) f(format string, args ...any) { fmt.Fprintf(&r.sb, format+"\n", args...) }

func (r *renderer) ending(n *LNode) {
	switch n.End {
	case "ret":
		r.f(`return "r", %d`, n.ID)
	case "err":
		r.f(`error("e%d", 0)`, n.ID)
	case "xcpu":
		r.f(`while true do tick(%d) end`, n.ID)
	case "xmem":
		r.f(`local t = {} while true do t[#t+1] = {} tick(%d) end`, n.ID)
	case "kill":
		r.f(`runtime.killcontext()`)
	case "bcpu": // one request of 40000 cpu units: beyond every tight or medium budget
		r.f(`local s = string.rep("", 40000, "") return "r", %d`, n.ID)
	case "bmem": // one request of 1e6 bytes
		r.f(`local s = string.rep("x", 1000000) return "r", %d`, n.ID)
	}
}

// nodes renders a statement list. owner: id of the context they run in;
// sure: that context is sure; depth: nesting; ctxInCo: number of contexts
// opened by the enclosing coroutine around this position (-1: not in a coroutine).
func (r *renderer) nodes(ns []LNode, owner int, sure bool, depth, ctxInCo int) {
	if depth > r.out.depth {
		r.out.depth = depth
	}
	for i := range ns {
		n := &ns[i]
		inf := &nodeInfo{n: n, owner: owner, ownSure: sure}
		r.out.info[n.ID] = inf
		switch n.K {
		case "burn":
			r.f(`for i = 1, %d do tick(%d) end`, n.N, owner)
		case "mburn":
			r.f(`do local t = {} for i = 1, %d do t[i] = {} end end`, n.N)
		case "stop":
			r.f(`emit("stopping", %d, %d) runtime.stopcontext() emit("stopped", %d, %d, runtime.contextdue(), runtime.context().due)`, n.ID, owner, n.ID, owner)
		case "yield":
			if ctxInCo > 0 {
				r.out.hasCrossYield = true
			}
			r.f(`emit("y", %d) coroutine.yield("y") emit("yr", %d)`, n.ID, n.ID)
		case "ctx":
			inf.isCtx, inf.sure = true, sure && isAmple(n) && n.End != "xcpu" && n.End != "xmem"
			r.out.ctxParent[n.ID] = owner
			r.out.nctx++
			r.f(`rep("pre", %d, %d, runtime.context(), true)`, n.ID, owner)
			r.f(`do local c, a, b = runtime.callcontext(%s, function()`, luaDef(n))
			r.f(`rep("in", %d, %d, runtime.context(), true)`, n.ID, n.ID)
			cic := ctxInCo
			if cic >= 0 {
				cic++
			}
			r.nodes(n.Body, n.ID, inf.sure, depth+1, cic)
			r.f(`rep("end", %d, %d, runtime.context(), true)`, n.ID, n.ID)
			r.ending(n)
			r.f(`end)`)
			r.f(`rep("fin", %d, %d, c, false) emit("ret", %d, a, b)`, n.ID, n.ID, n.ID)
			if n.FinStop {
				r.f(`c:stopnow() emit("finstop", %d, c.due)`, n.ID)
			}
			if n.FinKill {
				r.out.hasFinKill = true
				r.f(`emit("finkill", %d) c:killnow() emit("afterfinkill", %d)`, n.ID, n.ID)
			}
			r.f(`rep("post", %d, %d, runtime.context(), true) end`, n.ID, owner)
		case "pcall":
			inf.isCtx, inf.sure = true, sure
			r.out.ctxParent[n.ID] = owner
			r.out.nctx++
			r.f(`rep("pre", %d, %d, runtime.context(), true)`, n.ID, owner)
			r.f(`do local ok, a, b = pcall(function()`)
			r.f(`rep("in", %d, %d, runtime.context(), true)`, n.ID, n.ID)
			cic := ctxInCo
			if cic >= 0 {
				cic++
			}
			r.nodes(n.Body, n.ID, sure, depth+1, cic)
			r.f(`rep("end", %d, %d, runtime.context(), true)`, n.ID, n.ID)
			r.ending(n)
			r.f(`end)`)
			r.f(`emit("pret", %d, ok, a, b)`, n.ID)
			r.f(`rep("post", %d, %d, runtime.context(), true) end`, n.ID, owner)
		case "co":
			r.out.hasCo = true
			bodyOwner, bodySure := owner, sure
			if n.Cross {
				inf.isCtx, inf.sure = true, sure && isAmple(n)
				r.out.ctxParent[n.ID] = owner
				r.out.nctx++
				bodyOwner, bodySure = n.ID, inf.sure
			}
			r.f(`do local co = coroutine.create(function()`)
			r.nodes(n.Body, bodyOwner, bodySure, depth+1, 0)
			if n.Cross && n.CrossEnd {
				r.out.hasCrossEnd = true
				r.f(`return 2 end)`)
			} else {
				r.f(`coroutine.yield("mid")`)
				r.nodes(n.Body2, owner, sure, depth+1, 0)
				r.f(`coroutine.yield("last") end)`)
				r.f(`COS[#COS+1] = co`)
			}
			if n.Cross {
				r.f(`rep("pre", %d, %d, runtime.context(), true)`, n.ID, owner)
				r.f(`local c, a, b = runtime.callcontext(%s, function()`, luaDef(n))
				r.f(`rep("in", %d, %d, runtime.context(), true)`, n.ID, n.ID)
				r.f(`emit("co1", %d, coroutine.resume(co))`, n.ID)
				r.f(`rep("end", %d, %d, runtime.context(), true)`, n.ID, n.ID)
				r.f(`return "r", %d end)`, n.ID)
				r.f(`rep("fin", %d, %d, c, false) emit("ret", %d, a, b)`, n.ID, n.ID, n.ID)
				r.f(`rep("post", %d, %d, runtime.context(), true)`, n.ID, owner)
			} else {
				r.f(`emit("co1", %d, coroutine.resume(co))`, n.ID)
			}
			if !(n.Cross && n.CrossEnd) {
				r.f(`drain(co, %d)`, n.ID)
			}
			r.f(`end`)
		default:
			panic("bad node kind " + n.K)
		}
	}
}

func renderProg(p *LProg) *rendered {
	next := 0
	assignIDs(p.Body, &next)
	out := &rendered{info: map[int]*nodeInfo{}, ctxParent: map[int]int{}}
	r := &renderer{out: out}
	r.sb.WriteString("return function()\n")
	r.sb.WriteString(luaPrelude)
	r.nodes(p.Body, 0, true, 0, -1)
	r.f(`emit("done-all")`)
	r.f(`end`)
	out.src = r.sb.String()
	return out
}

// ---------------------------------------------------------------------------
// generator
// ---------------------------------------------------------------------------

type lgen struct {
	t         *rapid.T
	left      int // node budget
	wantYield bool
	wantFK    bool
	wantCE    bool
}

func (g *lgen) pick(label string, weights ...int) int {
	total := 0
	for _, w := range weights {
		total += w
	}
	x := rapid.IntRange(0, total-1).Draw(g.t, label)
	for i, w := range weights {
		if x < w {
			return i
		}
		x -= w
	}
	return len(weights) - 1
}

func (g *lgen) i64(label string, lo, hi int64) int64 {
	return rapid.Int64Range(lo, hi).Draw(g.t, label)
}

func (g *lgen) tightCPU() int64 {
	switch g.pick("tightcpu", 2, 3, 3) {
	case 0:
		return g.i64("v", 1, 3)
	case 1:
		return g.i64("v", 4, 80)
	default:
		return g.i64("v", 100, 1500)
	}
}

func (g *lgen) tightMem() int64 {
	switch g.pick("tightmem", 1, 3, 3) {
	case 0:
		return g.i64("v", 1, 10)
	case 1:
		return g.i64("v", 50, 600)
	default:
		return g.i64("v", 600, 4000)
	}
}

func (g *lgen) stopVal(label string, ample int64) int64 {
	switch g.pick(label, 6, 2, 2, 1) {
	case 0:
		return 0
	case 1:
		return g.i64("v", 1, 200)
	case 2:
		return g.i64("v", 1000, 20000)
	default:
		return g.i64("v", ample, 2*ample)
	}
}

func (g *lgen) flags() []string {
	if g.pick("hasflags", 7, 3) == 0 {
		return nil
	}
	var out []string
	for _, f := range []string{"iosafe", "timesafe", "cpusafe", "memsafe"} {
		if rapid.Bool().Draw(g.t, f) {
			out = append(out, f)
		}
	}
	return out
}

func (g *lgen) body(depth int, sure, inCo bool, ctxInCo int) []LNode {
	n := rapid.IntRange(0, 4).Draw(g.t, "len")
	var out []LNode
	for i := 0; i < n && g.left > 0; i++ {
		out = append(out, g.node(depth, sure, inCo, ctxInCo))
	}
	return out
}

func (g *lgen) node(depth int, sure, inCo bool, ctxInCo int) LNode {
	g.left--
	wCtx, wPcall, wCo, wYield := 5, 1, 0, 0
	if depth >= 4 {
		wCtx, wPcall = 0, 0
	}
	if depth < 3 && sure && !inCo {
		wCo = 1
	}
	if g.wantYield && inCo && ctxInCo > 0 {
		wYield = 3
	}
	switch g.pick("kind", 3, 1, wCtx, wPcall, wCo, 1, wYield) {
	case 0:
		return LNode{K: "burn", N: rapid.IntRange(1, 300).Draw(g.t, "n")}
	case 1:
		return LNode{K: "mburn", N: rapid.IntRange(1, 60).Draw(g.t, "n")}
	case 2:
		n := LNode{K: "ctx"}
		n.End = []string{"ret", "err", "xcpu", "xmem", "kill", "bcpu", "bmem"}[g.pick("end", 5, 2, 2, 1, 1, 2, 2)]
		switch n.End {
		case "xcpu":
			if g.pick("b", 1, 1) == 0 {
				n.KillCPU = g.i64("v", 3000, 15000)
			} else {
				n.KillCPU = g.tightCPU()
			}
		case "xmem":
			if g.pick("b", 1, 1) == 0 {
				n.KillMem = g.i64("v", 30000, 120000)
			} else {
				n.KillMem = g.tightMem()
			}
		default:
			switch g.pick("cpu", 2, 1, 1) {
			case 1:
				n.KillCPU = g.i64("v", ampleCPU, 2*ampleCPU)
			case 2:
				n.KillCPU = g.tightCPU()
			}
			switch g.pick("mem", 3, 1, 1) {
			case 1:
				n.KillMem = g.i64("v", ampleMem, 2*ampleMem)
			case 2:
				n.KillMem = g.tightMem()
			}
		}
		n.StopCPU = g.stopVal("stopcpu", ampleCPU)
		n.StopMem = g.stopVal("stopmem", ampleMem)
		n.KillTime = g.pick("kt", 9, 1) == 1
		n.StopTime = g.pick("st", 9, 1) == 1
		n.Flags = g.flags()
		n.FinStop = g.pick("fs", 9, 1) == 1
		childSure := sure && isAmple(&n) && n.End != "xcpu" && n.End != "xmem"
		if g.wantFK && sure {
			n.FinKill, g.wantFK = true, false
		}
		cic := ctxInCo
		if inCo {
			cic++
		}
		n.Body = g.body(depth+1, childSure, inCo, cic)
		return n
	case 3:
		n := LNode{K: "pcall", End: []string{"ret", "err", "bcpu", "bmem"}[g.pick("end", 2, 1, 1, 1)]}
		cic := ctxInCo
		if inCo {
			cic++
		}
		n.Body = g.body(depth+1, sure, inCo, cic)
		return n
	case 4:
		n := LNode{K: "co", Cross: rapid.Bool().Draw(g.t, "cross"), End: "ret"}
		if n.Cross {
			if g.pick("cpu", 1, 1) == 1 {
				n.KillCPU = g.i64("v", ampleCPU, 2*ampleCPU)
			}
			if g.pick("mem", 1, 1) == 1 {
				n.KillMem = g.i64("v", ampleMem, 2*ampleMem)
			}
			n.StopCPU = g.stopVal("stopcpu", ampleCPU)
			n.Flags = g.flags()
			if g.wantCE {
				n.CrossEnd, g.wantCE = true, false
			}
		}
		n.Body = g.body(depth+1, sure, true, 0)
		if !n.CrossEnd {
			n.Body2 = g.body(depth+1, sure, true, 0)
		}
		return n
	case 5:
		return LNode{K: "stop"}
	default:
		return LNode{K: "yield"}
	}
}

func genProg() *rapid.Generator[*LProg] {
	return rapid.Custom(func(t *rapid.T) *LProg {
		g := &lgen{t: t, left: 22}
		switch rapid.IntRange(0, 39).Draw(t, "special") {
		case 13:
			g.wantFK = true
		case 17, 18, 19:
			g.wantCE = true
		case 21, 22:
			g.wantYield = true
		}
		p := &LProg{}
		n := rapid.IntRange(1, 5).Draw(t, "toplen")
		for i := 0; i < n && g.left > 0; i++ {
			p.Body = append(p.Body, g.node(0, true, false, -1))
		}
		return p
	})
}

// ---------------------------------------------------------------------------
// running
// ---------------------------------------------------------------------------

type luaRunner struct {
	base   int // number of goroutines when no coroutine of a case is alive
	s      *harness.Session
	ticks  map[int]int64
	closer rt.Value
}

func (l *luaRunner) session() *harness.Session {
	if l.s == nil {
		l.s = harness.NewSession()
		r := l.s.R
		r.SetEnvGoFunc(r.GlobalEnv(), "tick", func(t *rt.Thread, c *rt.GoCont) (rt.Cont, error) {
			if c.NArgs() > 0 {
				if n, ok := c.Arg(0).TryInt(); ok {
					l.ticks[int(n)]++
				}
			}
			return c.Next(), nil
		}, 1, false).SolemnlyDeclareCompliance(rt.ComplyCpuSafe | rt.ComplyMemSafe | rt.ComplyIoSafe | rt.ComplyTimeSafe)
		cl, err := l.s.Load("closer", `return function() local cos = COS COS = nil if cos then for _, co in ipairs(cos) do pcall(coroutine.close, co) end end end`)
		if err != nil {
			panic(err)
		}
		l.closer = cl
	}
	return l.s
}

type luaRun struct {
	renewed     bool
	waitTimeout bool
	tr          *harness.Trace
	ticks       map[int]int64
	rootOK      bool
	loadErr     string
}

// run executes the program in the long-lived session. Suspended coroutines
// are closed afterwards at the root context (where releasing memory is a
// no-op) and their goroutines are awaited, so that nothing of one case can
// touch the accounting of the next.
func (l *luaRunner) run(rd *rendered) *luaRun {
	res := &luaRun{renewed: l.s == nil}
	s := l.session()
	l.ticks = map[int]int64{}
	fn, err := s.Load("prog", rd.src)
	if err != nil {
		res.loadErr = err.Error()
		return res
	}
	if n := runtime.NumGoroutine(); l.base == 0 || n < l.base {
		l.base = n
	}
	base := l.base
	res.tr = s.Call(fn, sessCPU, sessMem)
	res.ticks = l.ticks
	p := s.R.Parent()
	res.rootOK = p == nil || isNilCtx(p)
	poisoned := res.tr.Panic != "" || !res.rootOK || rd.hasCrossYield
	if !poisoned && rd.hasCo {
		func() {
			defer func() {
				if recover() != nil {
					poisoned = true
				}
			}()
			if err := rt.Call(s.R.MainThread(), l.closer, nil, rt.NewTerminationWith(nil, 0, false)); err != nil {
				poisoned = true
			}
		}()
		deadline := time.Now().Add(3 * time.Second)
		for runtime.NumGoroutine() > base && time.Now().Before(deadline) {
			runtime.Gosched()
			time.Sleep(20 * time.Microsecond)
		}
		if runtime.NumGoroutine() > base {
			poisoned, res.waitTimeout = true, true
		}
	}
	if poisoned {
		l.s = nil  // leave it to the garbage collector; never reuse
		l.base = 0 // goroutines may have been leaked: take a new baseline
	}
	return res
}

// ---------------------------------------------------------------------------
// event parsing
// ---------------------------------------------------------------------------

type lval struct {
	k byte // 'i' 'f' 's' 'n' 'b' '?'
	i int64
	f float64
	s string
	b bool
}

func parseEvent(e string) []lval {
	var out []lval
	for i := 0; i < len(e); {
		if e[i] == ' ' {
			i++
			continue
		}
		j := i
		if strings.HasPrefix(e[i:], `s:"`) {
			j = i + 3
			for j < len(e) && e[j] != '"' {
				if e[j] == '\\' {
					j++
				}
				j++
			}
			j++
			s, err := strconv.Unquote(e[i+2 : j])
			if err != nil {
				s = e[i+2 : j]
			}
			out = append(out, lval{k: 's', s: s})
			i = j
			continue
		}
		for j < len(e) && e[j] != ' ' {
			j++
		}
		tok := e[i:j]
		switch {
		case tok == "nil":
			out = append(out, lval{k: 'n'})
		case tok == "true" || tok == "false":
			out = append(out, lval{k: 'b', b: tok == "true"})
		case strings.HasPrefix(tok, "i:"):
			n, _ := strconv.ParseInt(tok[2:], 10, 64)
			out = append(out, lval{k: 'i', i: n})
		case strings.HasPrefix(tok, "f:"):
			v := lval{k: 'f'}
			if a, b := strings.IndexByte(tok, '('), strings.LastIndexByte(tok, ')'); a >= 0 && b > a {
				v.f, _ = strconv.ParseFloat(tok[a+1:b], 64)
			}
			out = append(out, v)
		default:
			out = append(out, lval{k: '?', s: tok})
		}
		i = j
	}
	return out
}

type olim struct {
	set bool
	v   int64
}

func (l olim) String() string {
	if !l.set {
		return "nil"
	}
	return strconv.FormatInt(l.v, 10)
}

type obs struct {
	tag            string
	node, owner    int
	status         string
	killCPU        olim
	killMem        olim
	killMs         lval
	stopCPU        olim
	stopMem        olim
	stopMs         lval
	u1, m1, u2, m2 int64
	due            bool
	flags          []string
	cd             lval
	idx            int
}

func toLim(v lval) olim {
	if v.k == 'i' {
		return olim{true, v.i}
	}
	return olim{}
}

func parseObs(vs []lval, idx int) (*obs, bool) {
	if len(vs) != 17 || vs[0].k != 's' || vs[1].k != 'i' || vs[2].k != 'i' || vs[3].k != 's' || vs[14].k != 'b' || vs[15].k != 's' {
		return nil, false
	}
	for _, k := range []int{10, 11, 12, 13} {
		if vs[k].k != 'i' {
			return nil, false
		}
	}
	o := &obs{tag: vs[0].s, node: int(vs[1].i), owner: int(vs[2].i), status: vs[3].s,
		killCPU: toLim(vs[4]), killMem: toLim(vs[5]), killMs: vs[6],
		stopCPU: toLim(vs[7]), stopMem: toLim(vs[8]), stopMs: vs[9],
		u1: vs[10].i, m1: vs[11].i, u2: vs[12].i, m2: vs[13].i, due: vs[14].b, cd: vs[16], idx: idx}
	o.flags = strings.Fields(vs[15].s)
	sort.Strings(o.flags)
	return o, true
}

func minLim(a olim, b olim) olim {
	switch {
	case !a.set:
		return b
	case !b.set:
		return a
	case a.v <= b.v:
		return a
	}
	return b
}

func reqLim(v int64) olim {
	if v > 0 {
		return olim{true, v}
	}
	return olim{}
}

func max64(a, b int64) int64 {
	if a > b {
		return a
	}
	return b
}
func min64(a, b int64) int64 {
	if a < b {
		return a
	}
	return b
}

// ---------------------------------------------------------------------------
// oracle
// ---------------------------------------------------------------------------

type luaVerdict struct {
	kind, msg string
	nt        bool
	classes   []string
}

// luaCheck applies the relations of the property to the trace of one program.
func luaCheck(rd *rendered, run *luaRun) (v luaVerdict) {
	fail := func(kind, format string, args ...any) {
		if v.msg == "" {
			v.kind, v.msg = kind, fmt.Sprintf(format, args...)
		}
	}
	if run.loadErr != "" {
		fail("lua-harness", "generated program does not compile: %s", run.loadErr)
		return
	}
	tr := run.tr
	if tr.Panic != "" {
		fail("lua-go-panic", "Go panic: %s", tr.Panic)
		return
	}
	lenient := rd.hasCrossYield
	byNode := map[int]map[string]*obs{}
	raw := map[string]map[int][]lval{} // other events by tag and node
	stopState := map[int]int{}         // owner -> 0 none, 1 stopping seen, 2 stopped seen
	inhStop := map[int]bool{}
	var all []*obs
	for idx, e := range tr.Events {
		vs := parseEvent(e)
		if len(vs) == 0 || vs[0].k != 's' {
			fail("lua-harness", "unparsable event %q", e)
			return
		}
		tag := vs[0].s
		switch tag {
		case "pre", "in", "end", "fin", "post":
			o, ok := parseObs(vs, idx)
			if !ok {
				fail("lua-report", "malformed context report %q", e)
				return
			}
			if byNode[o.node] == nil {
				byNode[o.node] = map[string]*obs{}
			}
			if byNode[o.node][tag] != nil && !lenient {
				fail("lua-repeat", "event %q for node %d appears twice", tag, o.node)
				return
			}
			byNode[o.node][tag] = o
			all = append(all, o)
			if tag == "in" || tag == "pre" {
				for a := o.node; ; {
					p, ok := rd.ctxParent[a]
					if !ok {
						break
					}
					if stopState[p] > 0 {
						inhStop[o.node] = true
					}
					a = p
				}
			}
			// live reports: due against what is visible at that moment
			if tag != "fin" && !lenient {
				own := o.owner
				switch {
				case o.stopCPU.set && o.u1 >= o.stopCPU.v, stopState[own] == 2,
					o.stopMem.set && min64(o.m1, o.m2) >= o.stopMem.v+memSlack:
					if !o.due {
						fail("lua-due", "node %d %q: live context of %d reports due=false although a soft limit is reached or a stop was requested (used cpu %d..%d, stop.cpu %s, used mem %d/%d, stop.memory %s)",
							o.node, tag, own, o.u1, o.u2, o.stopCPU, o.m1, o.m2, o.stopMem)
					}
				case stopState[own] == 0 && !inhStop[own] &&
					(!o.stopCPU.set || o.u2 < o.stopCPU.v) && (!o.stopMem.set || max64(o.m1, o.m2)+memSlack < o.stopMem.v):
					if o.due {
						fail("lua-due", "node %d %q: live context of %d reports due=true although no soft limit is reached and no stop was requested (used cpu %d..%d, stop.cpu %s, used mem %d/%d, stop.memory %s)",
							o.node, tag, own, o.u1, o.u2, o.stopCPU, o.m1, o.m2, o.stopMem)
					}
				}
			}
		case "stopping":
			if len(vs) >= 3 && stopState[int(vs[2].i)] < 1 {
				stopState[int(vs[2].i)] = 1
			}
		case "stopped":
			if len(vs) >= 5 {
				stopState[int(vs[2].i)] = 2
				if !lenient && (vs[3].k != 'b' || !vs[3].b || vs[4].k != 'b' || !vs[4].b) {
					fail("lua-due", "after runtime.stopcontext() in context %d: runtime.contextdue()/ctx.due are not both true: %q", vs[2].i, e)
				}
			}
		default:
			if len(vs) >= 2 && vs[1].k == 'i' {
				if raw[tag] == nil {
					raw[tag] = map[int][]lval{}
				}
				raw[tag][int(vs[1].i)] = vs
			} else if raw[tag] == nil {
				raw[tag] = map[int][]lval{0: vs}
			}
		}
	}

	// R5: used never reaches kill (every report)
	for _, o := range all {
		if o.killCPU.set && o.u2 >= o.killCPU.v {
			fail("lua-used-kill", "node %d %q: used.cpu %d reaches kill.cpu %d", o.node, o.tag, o.u2, o.killCPU.v)
		}
		if o.killMem.set && max64(o.m1, o.m2) >= o.killMem.v {
			fail("lua-used-kill", "node %d %q: used.memory %d reaches kill.memory %d", o.node, o.tag, max64(o.m1, o.m2), o.killMem.v)
		}
		for _, p := range [][2]olim{{o.stopCPU, o.killCPU}, {o.stopMem, o.killMem}} {
			if p[1].set && (!p[0].set || p[0].v > p[1].v) {
				fail("lua-soft-hard", "node %d %q: a soft limit (%s) exceeds the hard limit (%s)", o.node, o.tag, p[0], p[1])
			}
		}
		if o.killMs.k == 'f' && (o.stopMs.k != 'f' || o.stopMs.f > o.killMs.f) {
			fail("lua-soft-hard", "node %d %q: stop.millis exceeds kill.millis", o.node, o.tag)
		}
	}

	// the session context is sure: the program must run to its end
	if !tr.Killed && tr.Err == "" && raw["done-all"] == nil && !rd.hasFinKill && !lenient {
		fail("lua-silent-stop", "the chunk stopped silently before its last statement, without error and without being killed")
	}
	if tr.Killed && !lenient {
		fail("lua-session-killed", "the session context (cpu %d, memory %d) was killed after using cpu %d, memory %d", sessCPU, sessMem, tr.UsedCPU, tr.UsedMem)
	}
	if tr.Err != "" && !lenient {
		fail("lua-error", "unexpected error at the top level: %s", tr.Err)
	}
	if !run.rootOK {
		fail("lua-stack", "after the outermost CallContext returned the runtime is not back at its root context")
	}

	ids := make([]int, 0, len(rd.info))
	for id := range rd.info {
		ids = append(ids, id)
	}
	sort.Ints(ids)
	for _, id := range ids {
		if n := rd.info[id].n; n.K == "ctx" && n.FinKill && raw["finkill"][id] != nil && raw["afterfinkill"][id] == nil {
			if !tr.Killed && tr.Err == "" {
				fail("lua-killnow-finished", "node %d: ctx:killnow() on the finished context returned by runtime.callcontext made the calling code stop silently (no error, nothing killed); it must be a no-op or raise an error", id)
			}
		}
	}
	setOf := func(fs []string) map[string]bool {
		m := map[string]bool{}
		for _, f := range fs {
			m[f] = true
		}
		return m
	}
	sameLim := func(a, b olim) bool { return a == b }
	for _, id := range ids {
		inf := rd.info[id]
		n := inf.n
		ev := byNode[id]
		pre, in, end, fin, post := ev["pre"], ev["in"], ev["end"], ev["fin"], ev["post"]
		if !inf.isCtx {
			continue
		}
		// R9: the parent has its own context back after the child ended
		if pre != nil && post != nil {
			if !sameLim(pre.killCPU, post.killCPU) || !sameLim(pre.killMem, post.killMem) || !sameLim(pre.stopCPU, post.stopCPU) ||
				!sameLim(pre.stopMem, post.stopMem) || strings.Join(pre.flags, " ") != strings.Join(post.flags, " ") || post.status != "live" {
				fail("lua-parent-restored", "node %d: after the call returned, runtime.context() in the caller is not the caller's context any more: before kill={cpu=%s,memory=%s} stop={cpu=%s,memory=%s} flags=%v; after kill={cpu=%s,memory=%s} stop={cpu=%s,memory=%s} flags=%v status=%s",
					id, pre.killCPU, pre.killMem, pre.stopCPU, pre.stopMem, pre.flags, post.killCPU, post.killMem, post.stopCPU, post.stopMem, post.flags, post.status)
			}
		}
		if lenient {
			continue
		}
		if inf.ownSure && pre != nil && post == nil {
			fail("lua-parent-continues", "node %d: the enclosing context (ample budget) did not continue after the call", id)
		}
		isCC := n.K == "ctx" || (n.K == "co" && n.Cross)
		var reqKillCPU, reqKillMem, reqStopCPU, reqStopMem olim
		var reqFlags []string
		if isCC {
			reqKillCPU, reqKillMem, reqStopCPU, reqStopMem = reqLim(n.KillCPU), reqLim(n.KillMem), reqLim(n.StopCPU), reqLim(n.StopMem)
			reqFlags = append(reqFlags, n.Flags...)
			if n.KillCPU > 0 {
				reqFlags = append(reqFlags, "cpusafe")
			}
			if n.KillMem > 0 {
				reqFlags = append(reqFlags, "memsafe")
			}
			if n.KillTime {
				reqFlags = append(reqFlags, "timesafe")
			}
		}
		if pre != nil && in != nil {
			// R1: child budget
			if !pre.killCPU.set || !pre.killMem.set {
				fail("lua-harness", "node %d: the enclosing context has no kill limits", id)
				continue
			}
			if !in.killCPU.set || in.killCPU.v > pre.killCPU.v-pre.u1 {
				fail("lua-child-budget", "node %d: child kill.cpu=%s but the parent had at most %d-%d=%d left", id, in.killCPU, pre.killCPU.v, pre.u1, pre.killCPU.v-pre.u1)
			}
			if reqKillCPU.set && in.killCPU.v > reqKillCPU.v {
				fail("lua-child-budget", "node %d: child kill.cpu=%s exceeds the requested %d", id, in.killCPU, reqKillCPU.v)
			}
			if !in.killMem.set || in.killMem.v > pre.killMem.v-min64(pre.m1, pre.m2)+memSlack {
				fail("lua-child-budget", "node %d: child kill.memory=%s but the parent had about %d-%d left", id, in.killMem, pre.killMem.v, min64(pre.m1, pre.m2))
			}
			if reqKillMem.set && in.killMem.v > reqKillMem.v {
				fail("lua-child-budget", "node %d: child kill.memory=%s exceeds the requested %d", id, in.killMem, reqKillMem.v)
			}
			if fin != nil && post != nil {
				// the parent's consumption when the child was created is at most post.used - child.used
				lo := minLim(reqKillCPU, olim{true, pre.killCPU.v - (post.u1 - fin.u1)})
				if in.killCPU.v < lo.v {
					fail("lua-child-budget", "node %d: child kill.cpu=%d is less than min(requested, parent's remaining)=%d", id, in.killCPU.v, lo.v)
				}
			}
			if isCC && n.KillTime || pre.killMs.k == 'f' {
				if in.killMs.k != 'f' || (pre.killMs.k == 'f' && in.killMs.f > pre.killMs.f) || (isCC && n.KillTime && in.killMs.f > 1e12) {
					fail("lua-child-budget", "node %d: child kill.millis=%v (parent %v, requested time limit %v)", id, in.killMs, pre.killMs, n.KillTime)
				}
			} else if in.killMs.k != 'n' {
				fail("lua-child-budget", "node %d: child has a time limit nobody asked for", id)
			}
			// R2: soft limits
			wantStopCPU := minLim(minLim(in.killCPU, pre.stopCPU), reqStopCPU)
			if !sameLim(in.stopCPU, wantStopCPU) {
				fail("lua-soft", "node %d: child stop.cpu=%s, expected min(kill.cpu=%s, parent stop.cpu=%s, requested=%s)", id, in.stopCPU, in.killCPU, pre.stopCPU, reqStopCPU)
			}
			wantStopMem := minLim(minLim(in.killMem, pre.stopMem), reqStopMem)
			if !sameLim(in.stopMem, wantStopMem) {
				fail("lua-soft", "node %d: child stop.memory=%s, expected min(kill.memory=%s, parent stop.memory=%s, requested=%s)", id, in.stopMem, in.killMem, pre.stopMem, reqStopMem)
			}
			// R3: flags
			want := setOf(append(append([]string{}, pre.flags...), reqFlags...))
			got := setOf(in.flags)
			for f := range want {
				if !got[f] {
					fail("lua-flags", "node %d: child flags %v lack %q (parent %v, requested %v)", id, in.flags, f, pre.flags, reqFlags)
				}
			}
			for f := range got {
				if !want[f] {
					fail("lua-flags", "node %d: child flags %v contain %q that neither the parent (%v) nor the request (%v) has", id, in.flags, f, pre.flags, reqFlags)
				}
			}
		}
		// R4: the returned context is the one that ran
		if in != nil && fin != nil {
			if !sameLim(in.killCPU, fin.killCPU) || !sameLim(in.killMem, fin.killMem) || !sameLim(in.stopCPU, fin.stopCPU) || !sameLim(in.stopMem, fin.stopMem) ||
				strings.Join(in.flags, " ") != strings.Join(fin.flags, " ") {
				fail("lua-returned-ctx", "node %d: the context returned by callcontext (kill cpu=%s mem=%s, flags %v) is not the one the function ran in (kill cpu=%s mem=%s, flags %v)",
					id, fin.killCPU, fin.killMem, fin.flags, in.killCPU, in.killMem, in.flags)
			}
			last := in
			if end != nil {
				last = end
			}
			if fin.u1 < last.u2 {
				fail("lua-conservation", "node %d: returned context used.cpu=%d is less than what it had used while running (%d)", id, fin.u1, last.u2)
			}
		}
		// R6: conservation
		if pre != nil && post != nil {
			childUsed, childMem := int64(0), int64(0)
			switch {
			case fin != nil:
				childUsed, childMem = fin.u1, fin.m1
			case end != nil:
				childUsed = end.u2
			case in != nil:
				childUsed = in.u2
			}
			if post.u1 < pre.u2+childUsed {
				fail("lua-conservation", "node %d: parent used.cpu after the call (%d) < before (%d) + child's used (%d)", id, post.u1, pre.u2, childUsed)
			}
			if post.m1+memSlack < min64(pre.m1, pre.m2)+childMem {
				fail("lua-conservation", "node %d: parent used.memory after the call (%d) < before (%d) + child's used (%d)", id, post.m1, min64(pre.m1, pre.m2), childMem)
			}
			v.classes = append(v.classes, "lua:conservation-checked")
		}
		// R7/R10: status and results
		expected := map[string]string{"ret": "done", "err": "error", "xcpu": "killed", "xmem": "killed", "kill": "killed", "bcpu": "done", "bmem": "done"}[n.End]
		if isCC && fin != nil {
			st := fin.status
			v.classes = append(v.classes, "lua:status-"+st)
			ret := raw["ret"][id]
			okStatus := st == expected || (!inf.sure && st == "killed")
			if !okStatus {
				fail("lua-status", "node %d: body ends by %q so the context must report %q, got %q (ret %v)", id, n.End, expected, st, ret)
			}
			if end == nil && st != "killed" {
				fail("lua-status", "node %d: the body did not reach its end but the context reports %q (ret %v)", id, st, ret)
			}
			if inf.sure && (in == nil || end == nil) {
				fail("lua-status", "node %d: context with ample budget did not run its body to the end", id)
			}
			if st == "killed" && pre != nil {
				if rd.ctxParent[id] != 0 {
					v.nt = true
				}
			}
			// a context terminated by a limit it merely inherited does not come
			// back from callcontext: the termination reaches the owner of the limit
			if st == "killed" && !(n.End == "kill" && end != nil) {
				ownCPU := reqKillCPU.set && fin.killCPU.set && fin.killCPU.v == reqKillCPU.v
				ownMem := reqKillMem.set && fin.killMem.set && fin.killMem.v == reqKillMem.v
				if !ownCPU && !ownMem {
					fail("lua-propagation", "node %d: callcontext returned a context killed by a limit although none of its limits is its own (kill cpu=%s requested %s, memory=%s requested %s): the enclosing context owns the limit and must be terminated instead",
						id, fin.killCPU, reqKillCPU, fin.killMem, reqKillMem)
				}
				v.classes = append(v.classes, "lua:killed-by-own-limit")
			}
			if len(ret) >= 4 {
				switch st {
				case "done":
					if ret[2].k != 's' || ret[2].s != "r" || ret[3].k != 'i' || int(ret[3].i) != id {
						fail("lua-results", "node %d: status done but callcontext returned %v instead of the function's results", id, ret)
					}
				case "error":
					if ret[2].k != 's' || ret[2].s != fmt.Sprintf("e%d", id) {
						fail("lua-results", "node %d: status error but callcontext returned %v instead of the error value", id, ret)
					}
				case "killed":
					if ret[2].k != 'n' || ret[3].k != 'n' {
						fail("lua-results", "node %d: status killed but callcontext returned extra values %v", id, ret)
					}
				}
			}
			// R8: due of the finished context
			reached := (fin.stopCPU.set && fin.u1 >= fin.stopCPU.v) || (fin.stopMem.set && fin.m1 >= fin.stopMem.v)
			switch {
			case reached || stopState[id] == 2:
				if !fin.due {
					fail("lua-due", "node %d: finished context has used cpu=%d mem=%d, stop cpu=%s mem=%s, stop requested=%v, but due=false", id, fin.u1, fin.m1, fin.stopCPU, fin.stopMem, stopState[id] == 2)
				}
				v.classes = append(v.classes, "lua:due-true")
			case stopState[id] == 1 || inhStop[id]:
			default:
				if fin.due {
					fail("lua-due", "node %d: finished context has used cpu=%d mem=%d, stop cpu=%s mem=%s, no stop requested, but due=true", id, fin.u1, fin.m1, fin.stopCPU, fin.stopMem)
				}
			}
			if fs := raw["finstop"][id]; fs != nil && (len(fs) < 3 || fs[2].k != 'b' || !fs[2].b) {
				fail("lua-due", "node %d: after ctx:stopnow() on the finished context ctx.due is not true", id)
			}
		}
		if n.K == "pcall" {
			if pr := raw["pret"][id]; pr != nil && len(pr) >= 4 {
				ok := pr[2].k == 'b' && pr[2].b
				switch {
				case n.End != "err" && ok && pr[3].k == 's' && pr[3].s == "r":
				case n.End == "err" && !ok && pr[3].k == 's' && pr[3].s == fmt.Sprintf("e%d", id):
				default:
					// in particular pcall never returns false for a limit: its context
					// has no limit of its own, the termination reaches the owner
					fail("lua-pcall", "node %d: pcall of a body ending by %q returned %v", id, n.End, pr)
				}
			}
		}
		// a call that never came back (its context was terminated by an inherited
		// limit): the enclosing context must have been terminated as well
		if returned := (isCC && fin != nil) || (n.K == "pcall" && raw["pret"][id] != nil); in != nil && !returned {
			v.classes = append(v.classes, "lua:termination-propagated")
			v.nt = true
			switch owner := rd.ctxParent[id]; {
			case owner == 0:
				if !tr.Killed {
					fail("lua-propagation", "node %d: the call never returned but the session context was not terminated", id)
				}
			default:
				on := rd.info[owner].n
				if ofin := byNode[owner]["fin"]; ofin != nil && ofin.status != "killed" {
					fail("lua-propagation", "node %d: the call never returned (terminated by an inherited limit) but the enclosing context %d reports %q", id, owner, ofin.status)
				}
				if on.K == "pcall" && raw["pret"][owner] != nil {
					fail("lua-propagation", "node %d: the call never returned (terminated by an inherited limit) but the enclosing pcall %d returned %v", id, owner, raw["pret"][owner])
				}
			}
		}
		// R11: iterations executed inside the context and its descendants
		if in != nil && in.killCPU.set {
			total := int64(0)
			for owner, c := range run.ticks {
				for a := owner; ; {
					if a == id {
						total += c
						break
					}
					p, ok := rd.ctxParent[a]
					if !ok {
						break
					}
					a = p
				}
			}
			if total >= in.killCPU.v {
				fail("lua-more-work", "node %d: %d loop iterations were executed inside a context whose kill.cpu is %d", id, total, in.killCPU.v)
			}
			if n.End == "xcpu" && total > 0 {
				v.classes = append(v.classes, "lua:cpu-exhausted-by-loop")
			}
		}
	}
	if !lenient {
		total := int64(0)
		for _, c := range run.ticks {
			total += c
		}
		if total >= sessCPU {
			fail("lua-more-work", "%d loop iterations were executed under a session limit of %d", total, sessCPU)
		}
		if tr.UsedCPU >= sessCPU || tr.UsedMem >= sessMem {
			fail("lua-used-kill", "session context used cpu=%d mem=%d, limits %d/%d", tr.UsedCPU, tr.UsedMem, sessCPU, sessMem)
		}
	}
	return
}
