package c07

import (
	"fmt"
	"strconv"
	"strings"

	"verif/internal/harness"
)

// Work done while a context is being left: finalisers of values created in a
// limited context run when it is left, close handlers when an error unwinds
// its body. That work belongs to the context like any other: it cannot take
// "used" past "kill", it cannot do more than the tightest enclosing limit
// allows, and a context cut off there reports "killed" - whatever way the body
// ended before.

type exitCase struct {
	Carrier string `json:"carrier"` // gc: garbage table with __gc; gc-kept: the same, still referenced by a local when the body ends; close: to-be-closed variable
	End     string `json:"end"`     // ret | err | err-table | pcall-err-then-ret
	Limit   int    `json:"limit"`   // kill.cpu of the context
	Outer   int    `json:"outer"`   // kill.cpu of an enclosing context (0: none)
	Work    string `json:"work"`    // loop: a counting loop of 2e6 iterations; bulk: one library call that requests 4e6 units at once
}

const (
	exitLoop = 2_000_000
	exitBulk = 4_000_000
)

func (c exitCase) program() string {
	work := fmt.Sprintf(`for i = 1, %d do n = n + 1 end`, exitLoop)
	if c.Work == "bulk" {
		work = fmt.Sprintf(`local s = string.rep("", %d, "")`, exitBulk)
	}
	handler := fmt.Sprintf(`function() emit("exit-work-start") %s emit("exit-work-completed") end`, work)
	var carrier string
	switch c.Carrier {
	case "gc":
		carrier = fmt.Sprintf(`setmetatable({}, {__gc = %s})`, handler)
	case "gc-kept":
		carrier = fmt.Sprintf(`local kept = setmetatable({}, {__gc = %s})`, handler)
	case "close":
		carrier = fmt.Sprintf(`local cv <close> = setmetatable({}, {__close = %s})`, handler)
	}
	var end string
	switch c.End {
	case "ret":
		end = `return "r"`
	case "err":
		end = `error("boom")`
	case "err-table":
		end = `error({})`
	case "pcall-err-then-ret":
		end = `pcall(error, "inner boom") return "r"`
	}
	inner := fmt.Sprintf(`local ctx = runtime.callcontext({kill = {cpu = %d}}, function()
    %s
    %s
  end)
  emit("inner", ctx.status, ctx.used.cpu, ctx.kill.cpu)`, c.Limit, carrier, end)
	if c.Outer == 0 {
		return "local n = 0\n" + inner + "\nemit(\"count\", n)\n"
	}
	return fmt.Sprintf(`local n = 0
local octx = runtime.callcontext({kill = {cpu = %d}}, function()
  %s
end)
emit("outer", octx.status, octx.used.cpu, octx.kill.cpu)
emit("count", n)
`, c.Outer, inner)
}

func exitCases() []exitCase {
	var out []exitCase
	for _, carrier := range []string{"gc", "gc-kept", "close"} {
		for _, end := range []string{"ret", "err", "err-table", "pcall-err-then-ret"} {
			for _, limit := range []int{3000, 50000} {
				for _, outer := range []int{0, 1_000_000, 2000} {
					for _, work := range []string{"loop", "bulk"} {
						out = append(out, exitCase{carrier, end, limit, outer, work})
					}
				}
			}
		}
	}
	return out
}

func tokInt(tok string) (int64, bool) {
	if !strings.HasPrefix(tok, "i:") {
		return 0, false
	}
	n, err := strconv.ParseInt(tok[2:], 10, 64)
	return n, err == nil
}

func checkExit(c exitCase) string {
	tr := harness.Run(c.program(), harness.Opts{CPU: 100_000_000, Mem: 500_000_000})
	if tr.Panic != "" {
		return "Go panic: " + tr.Panic
	}
	if tr.CompileErr != "" {
		return "harness: " + tr.CompileErr
	}
	if tr.Killed || tr.ErrTok != "" {
		return fmt.Sprintf("the program around the contexts did not finish: killed=%v error=%s events=%v", tr.Killed, tr.ErrTok, tr.EventList)
	}
	var inner, outer []string
	count := int64(-1)
	started, completed := false, false
	for _, e := range tr.EventList {
		switch e[0] {
		case `s:"inner"`:
			inner = e
		case `s:"outer"`:
			outer = e
		case `s:"count"`:
			count, _ = tokInt(e[1])
		case `s:"exit-work-start"`:
			started = true
		case `s:"exit-work-completed"`:
			completed = true
		}
	}
	binding := int64(c.Limit)
	outerBinds := c.Outer != 0 && c.Outer <= c.Limit
	if outerBinds {
		binding = int64(c.Outer)
	}
	if !started {
		return fmt.Sprintf("the %s handler never started although its context was left: events %v", c.Carrier, tr.EventList)
	}
	if completed {
		return fmt.Sprintf("work done while the context was being left (%s handler, body ended by %s) ran to its end although it needs far more than the tightest limit (%d cpu units): events %v", c.Carrier, c.End, binding, tr.EventList)
	}
	if c.Work == "loop" && count > binding {
		return fmt.Sprintf("the handler's loop ran %d iterations under a limit of %d cpu units", count, binding)
	}
	if outerBinds {
		// the enclosing context's limit is the one that is hit: it ends too
		if inner != nil {
			return fmt.Sprintf("the enclosing context (kill.cpu=%d, the tightest limit) went on after the limit was hit: %v", c.Outer, inner)
		}
		if outer == nil || outer[1] != `s:"killed"` {
			return fmt.Sprintf("the enclosing context (kill.cpu=%d, the tightest limit) does not report killed: %v", c.Outer, outer)
		}
	} else {
		if inner == nil {
			return fmt.Sprintf("no report for the context: events %v", tr.EventList)
		}
		if inner[1] != `s:"killed"` {
			return fmt.Sprintf("the context was cut off at its CPU limit while it was being left (%s handler, body ended by %s) but reports status %s", c.Carrier, c.End, inner[1])
		}
		if c.Outer != 0 && (outer == nil || outer[1] != `s:"done"`) {
			return fmt.Sprintf("the enclosing context (ample budget) does not report done: %v", outer)
		}
	}
	for _, rep := range [][]string{inner, outer} {
		if rep == nil {
			continue
		}
		used, ok1 := tokInt(rep[2])
		kill, ok2 := tokInt(rep[3])
		if !ok1 || !ok2 {
			return fmt.Sprintf("unreadable report %v", rep)
		}
		if used > kill {
			return fmt.Sprintf("context report %v: used.cpu %d exceeds kill.cpu %d", rep, used, kill)
		}
	}
	if inner != nil && outer != nil {
		iu, _ := tokInt(inner[2])
		ou, _ := tokInt(outer[2])
		if ou < iu {
			return fmt.Sprintf("the enclosing context reports used.cpu %d, less than the %d its child used", ou, iu)
		}
	}
	return ""
}
