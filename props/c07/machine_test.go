package c07

import (
	"encoding/json"
	"errors"
	"fmt"
	"math/big"
	"reflect"

	rt "github.com/arnodel/golua/runtime"

	"verif/internal/ctxref"
)

// ---------------------------------------------------------------------------
// Actions: Spec (symbolic, state-relative) is what generators produce; Act
// (concrete numbers) is what was executed and what a replay file stores.
// ---------------------------------------------------------------------------

// VSpec is a symbolic amount or limit. Kinds:
//
//	abs   the value P
//	rem   (hard remaining of the current context) + P - 2   [P in 1..3]
//	srem  (soft remaining of the current context) + P - 2
//	hard  (the hard limit just resolved for the same resource) + P - 2
//	tomax 2^64-1 - used
//	used  used - P (for releases)
//	over  used + P (for releases: more than this context has required)
//	chain (memory used by this context and all enclosing ones) + P - 2
type VSpec struct {
	K string
	P uint64
}

type DefSpec struct {
	Hard, Soft [3]VSpec
	Flags      uint8
}

type Spec struct {
	Op   string // push pop cpu mem rel stop kill call
	Def  DefSpec
	Amt  VSpec
	Body []Spec
	Err  bool // call: the function returns an error
}

type Act struct {
	Op   string      `json:"op"`
	Def  *ctxref.Def `json:"def,omitempty"`
	N    uint64      `json:"n,omitempty"`
	Body []Act       `json:"body,omitempty"`
	Err  bool        `json:"err,omitempty"`
}

func abs(p uint64) VSpec { return VSpec{"abs", p} }

// actsToSpecs turns a concrete log back into (absolute) specs for a replay.
func actsToSpecs(as []Act) []Spec {
	var out []Spec
	for _, a := range as {
		s := Spec{Op: a.Op, Amt: abs(a.N), Err: a.Err, Body: actsToSpecs(a.Body)}
		if a.Def != nil {
			for r := 0; r < 3; r++ {
				s.Def.Hard[r] = abs(a.Def.Hard[r])
				s.Def.Soft[r] = abs(a.Def.Soft[r])
			}
			s.Def.Flags = uint8(a.Def.Flags)
		}
		out = append(out, s)
	}
	return out
}

const (
	maxDepth  = 7
	timeFloor = uint64(1) << 40 // finite time limits are never below ~34 years: time never kills
)

var (
	two63 = new(big.Int).Lsh(big.NewInt(1), 63)
	two64 = new(big.Int).Lsh(big.NewInt(1), 64)
)

func clampU(x *big.Int) uint64 {
	if x.Sign() < 0 {
		return 0
	}
	if x.Cmp(ctxref.MaxU) > 0 {
		return ^uint64(0)
	}
	return x.Uint64()
}

func offset(base *big.Int, p uint64) uint64 {
	return clampU(new(big.Int).Add(base, big.NewInt(int64(p)-2)))
}

// nearPow reports whether a is within 2 of 2^63 or of 2^64.
func nearPow(a uint64) bool {
	x := new(big.Int).SetUint64(a)
	for _, p := range []*big.Int{two63, two64} {
		d := new(big.Int).Sub(x, p)
		if d.Abs(d).Cmp(big.NewInt(2)) <= 0 {
			return true
		}
	}
	return false
}

// ---------------------------------------------------------------------------
// flag translation (explicit, so that the model does not depend on golua's
// bit assignment)
// ---------------------------------------------------------------------------

var flagPairs = []struct {
	m ctxref.Flags
	g rt.ComplianceFlags
}{
	{ctxref.MemSafe, rt.ComplyMemSafe},
	{ctxref.CPUSafe, rt.ComplyCpuSafe},
	{ctxref.IOSafe, rt.ComplyIoSafe},
	{ctxref.TimeSafe, rt.ComplyTimeSafe},
}

func toRTFlags(f ctxref.Flags) (g rt.ComplianceFlags) {
	for _, p := range flagPairs {
		if f&p.m != 0 {
			g |= p.g
		}
	}
	return
}

func fromRTFlags(g rt.ComplianceFlags) (f ctxref.Flags, unknown rt.ComplianceFlags) {
	for _, p := range flagPairs {
		if g&p.g != 0 {
			f |= p.m
			g &^= p.g
		}
	}
	return f, g
}

func toRTDef(d ctxref.Def) rt.RuntimeContextDef {
	res := func(a [ctxref.NRes]uint64) rt.RuntimeResources {
		return rt.RuntimeResources{Cpu: a[ctxref.CPU], Memory: a[ctxref.Mem], Millis: a[ctxref.Time]}
	}
	return rt.RuntimeContextDef{HardLimits: res(d.Hard), SoftLimits: res(d.Soft), RequiredFlags: toRTFlags(d.Flags)}
}

func resArr(r rt.RuntimeResources) [ctxref.NRes]uint64 {
	return [ctxref.NRes]uint64{ctxref.CPU: r.Cpu, ctxref.Mem: r.Memory, ctxref.Time: r.Millis}
}

var statusMap = map[rt.RuntimeContextStatus]ctxref.Status{
	rt.StatusLive: ctxref.Live, rt.StatusDone: ctxref.Done, rt.StatusError: ctxref.Error, rt.StatusKilled: ctxref.Killed,
}

// ---------------------------------------------------------------------------
// the machine: golua runtime + model, stepped together
// ---------------------------------------------------------------------------

type frame struct {
	raw    int  // contexts pushed with PushContext in this frame and not yet popped
	isCall bool // frame is the body of a Thread.CallContext
}

type machine struct {
	r  *rt.Runtime
	th *rt.Thread
	m  *ctxref.Stack

	frames []*frame
	// acc[d-1] = what golua granted (net of releases) since the context at
	// depth d was created, including everything granted in its descendants
	acc [][2]*big.Int

	kfWrap, kfRel bool // open known findings: exclude their input classes
	base          bool // the model's root is a base context pushed on the runtime's root

	failKind, failMsg string
	aborted           bool // entered an excluded class at a point that cannot be skipped
	discards          map[string]int
	classes           map[string]int
	nt                bool
	steps             int
}

var errBody = errors.New("body error")

func newMachine(r *rt.Runtime, kfWrap, kfRel bool) *machine {
	return &machine{
		r: r, th: r.MainThread(), m: ctxref.New(),
		frames: []*frame{{}}, kfWrap: kfWrap, kfRel: kfRel,
		discards: map[string]int{}, classes: map[string]int{},
	}
}

func (x *machine) stop() bool { return x.failMsg != "" || x.aborted }

func (x *machine) failf(kind, format string, args ...any) {
	if x.failMsg == "" {
		x.failKind, x.failMsg = kind, fmt.Sprintf(format, args...)
	}
}

func (x *machine) top() *frame { return x.frames[len(x.frames)-1] }

// guard runs one golua call; a ContextTerminationError panic is reported as
// killed (with the panic value, to re-raise it where CallContext expects it),
// any other panic is a violation.
func (x *machine) guard(what string, f func()) (killed bool, pv any) {
	defer func() {
		if p := recover(); p != nil {
			if _, ok := p.(rt.ContextTerminationError); ok {
				killed, pv = true, p
				return
			}
			x.failf("go-panic", "%s: Go panic: %v", what, p)
		}
	}()
	f()
	return
}

func (x *machine) resolveLim(v VSpec, r ctxref.Res, hardJust uint64) uint64 {
	c := x.m.Cur
	var out uint64
	fallback := v.P + 3
	switch v.K {
	case "abs":
		out = v.P
	case "rem":
		if rem := c.Remaining(r); rem.IsInf() {
			out = fallback
		} else {
			out = offset(rem.Big(), v.P)
		}
	case "srem":
		if c.Soft[r].IsInf() {
			out = fallback
		} else {
			out = offset(c.Soft[r].Big(), v.P)
		}
	case "hard":
		if hardJust == 0 {
			out = fallback
		} else {
			out = offset(new(big.Int).SetUint64(hardJust), v.P)
		}
	default:
		panic("bad limit kind " + v.K)
	}
	if r == ctxref.Time && out != 0 && out < timeFloor {
		out += timeFloor
	}
	return out
}

func (x *machine) resolveDef(s DefSpec) ctxref.Def {
	var d ctxref.Def
	for r := ctxref.Res(0); r < ctxref.NRes; r++ {
		d.Hard[r] = x.resolveLim(s.Hard[r], r, 0)
		eff := ctxref.Min(x.m.Cur.Remaining(r), ctxref.L(d.Hard[r])).U64()
		d.Soft[r] = x.resolveLim(s.Soft[r], r, eff)
	}
	d.Flags = ctxref.Flags(s.Flags) & ctxref.AllFlags
	return d
}

func (x *machine) resolveAmt(v VSpec, r ctxref.Res) uint64 {
	c := x.m.Cur
	switch v.K {
	case "abs":
		return v.P
	case "rem":
		if rem := c.Remaining(r); !rem.IsInf() {
			return offset(rem.Big(), v.P)
		}
		return v.P + 3
	case "srem":
		if rem := c.SoftRemaining(r); !rem.IsInf() {
			return offset(rem.Big(), v.P)
		}
		return v.P + 3
	case "tomax":
		return clampU(new(big.Int).Sub(ctxref.MaxU, c.Used[r]))
	case "used":
		return clampU(new(big.Int).Sub(c.Used[r], new(big.Int).SetUint64(v.P)))
	case "over":
		return clampU(new(big.Int).Add(c.Used[r], new(big.Int).SetUint64(v.P)))
	case "chain":
		return offset(x.m.ChainUsed(r), v.P)
	}
	panic("bad amount kind " + v.K)
}

func (x *machine) pushAcc() {
	x.acc = append(x.acc, [2]*big.Int{new(big.Int), new(big.Int)})
}

func (x *machine) addAcc(r ctxref.Res, a uint64, sign int) {
	d := new(big.Int).SetUint64(a)
	if sign < 0 {
		d.Neg(d)
	}
	for i := range x.acc {
		x.acc[i][r].Add(x.acc[i][r], d)
	}
}

// step executes one action at the current nesting level and appends what was
// actually executed to out.
func (x *machine) step(s Spec, out *[]Act) {
	if x.stop() {
		return
	}
	x.steps++
	fr := x.top()
	c := x.m.Cur
	switch s.Op {
	case "push":
		if c.Depth >= maxDepth {
			x.classes["skip:max-depth"]++
			return
		}
		def := x.resolveDef(s.Def)
		*out = append(*out, Act{Op: "push", Def: &def})
		x.classes["op:push"]++
		if killed, _ := x.guard("PushContext", func() { x.r.PushContext(toRTDef(def)) }); killed {
			x.failf("push-killed", "PushContext(%+v) terminated a context", def)
			return
		}
		x.afterPush(def)
		fr.raw++
		x.checkAll("after push")

	case "pop":
		if fr.raw == 0 {
			if fr.isCall {
				x.classes["skip:pop-of-callcontext"]++
				return
			}
			if x.base {
				x.classes["skip:pop-at-root-on-shared-runtime"]++
				return
			}
			*out = append(*out, Act{Op: "pop"})
			x.classes["op:pop-at-root"]++
			var got rt.RuntimeContext
			x.guard("PopContext at root", func() { got = x.r.PopContext() })
			if got != nil && !isNilCtx(got) {
				x.failf("pop-root", "PopContext on the root context returned a context")
			}
			x.checkAll("after pop at root")
			return
		}
		*out = append(*out, Act{Op: "pop"})
		x.rawPop()

	case "cpu", "mem":
		r := ctxref.CPU
		if s.Op == "mem" {
			r = ctxref.Mem
		}
		a := x.resolveAmt(s.Amt, r)
		if c.Tracked(r) && x.m.WouldOverflow(r, a) {
			x.classes["class:require-overflows-uint64"]++
			if x.kfWrap {
				x.discards["excluded-by-finding:C07-require-wraps-uint64"]++
				return
			}
		}
		*out = append(*out, Act{Op: s.Op, N: a})
		x.classes["op:"+s.Op]++
		if nearPow(a) {
			x.nt = true
			x.classes["nt:amount-near-2^63/2^64"]++
		}
		killed, pv := x.guard("Require", func() {
			if r == ctxref.CPU {
				x.r.RequireCPU(a)
			} else {
				x.r.RequireMem(a)
			}
		})
		if x.failMsg != "" {
			return
		}
		o := x.m.Require(r, a)
		if !c.Tracked(r) {
			// no limit of any kind on r: nothing can be observed
			if killed {
				x.failf("kill-unlimited", "Require(%s, %d) terminated a context without any %s limit", r, a, r)
			}
			x.checkAll("after require")
			return
		}
		if killed != o.Killed {
			if killed {
				x.failf("require", "depth %d: Require(%s, %d) with used=%s hard=%s terminated the context, but used+amount stays below the limit",
					c.Depth, r, a, c.Used[r], c.Hard[r])
			} else {
				x.failf("require", "depth %d: Require(%s, %d) with used=%s hard=%s was granted, but used+amount reaches the hard limit (the context must be terminated)",
					c.Depth, r, a, c.Used[r], c.Hard[r])
			}
			return
		}
		if !killed {
			x.addAcc(r, a, +1)
			x.checkAll("after require")
			return
		}
		x.classes["kill:limit"]++
		x.unwind(pv)

	case "rel":
		a := x.resolveAmt(s.Amt, ctxref.Mem)
		// excluded class: some of the release lands in a context that has only a
		// soft memory limit
		rest := new(big.Int).SetUint64(a)
		softOnly, over := false, false
		for lc := c; lc != nil && rest.Sign() > 0; lc = lc.Parent {
			d := new(big.Int).Set(rest)
			if d.Cmp(lc.Used[ctxref.Mem]) > 0 {
				d.Set(lc.Used[ctxref.Mem])
			}
			if d.Sign() > 0 && lc.Hard[ctxref.Mem].IsInf() && !lc.Soft[ctxref.Mem].IsInf() {
				softOnly = true
			}
			if lc != c && d.Sign() > 0 {
				over = true
			}
			rest.Sub(rest, d)
		}
		if softOnly {
			x.classes["class:release-under-soft-only-limit"]++
			if x.kfRel {
				x.discards["excluded-by-finding:C07-releasemem-soft-only"]++
				return
			}
		}
		*out = append(*out, Act{Op: "rel", N: a})
		x.classes["op:rel"]++
		if over {
			x.classes["rel:reaches-enclosing-contexts"]++
		}
		if killed, _ := x.guard("ReleaseMem", func() { x.r.ReleaseMem(a) }); killed {
			x.failf("release-killed", "ReleaseMem(%d) terminated a context", a)
			return
		}
		if x.failMsg != "" {
			return
		}
		delta := x.m.Release(a)
		// what was given back at depth k was granted in the contexts at depth <= k
		for k, d := range delta {
			for i := 0; i < k && i < len(x.acc); i++ {
				x.acc[i][ctxref.Mem].Sub(x.acc[i][ctxref.Mem], d)
			}
		}
		x.checkAll("after release")

	case "stop":
		*out = append(*out, Act{Op: "stop"})
		x.classes["op:stop"]++
		if killed, _ := x.guard("SetStopLevel(SoftStop)", func() { x.r.SetStopLevel(rt.SoftStop) }); killed {
			x.failf("stop-killed", "SetStopLevel(SoftStop) terminated a context")
			return
		}
		x.m.StopSoft()
		x.checkAll("after soft stop")

	case "kill":
		if c.Depth == 0 {
			x.classes["skip:kill-root"]++
			return
		}
		*out = append(*out, Act{Op: "kill"})
		x.classes["op:kill"]++
		killed, pv := x.guard("SetStopLevel(HardStop)", func() { x.r.SetStopLevel(rt.HardStop) })
		if x.failMsg != "" {
			return
		}
		if !killed {
			x.failf("hardstop", "depth %d: SetStopLevel(HardStop) on the live current context did not terminate it", c.Depth)
			return
		}
		x.m.StopHard()
		x.classes["kill:hardstop"]++
		x.unwind(pv)

	case "call":
		if c.Depth >= maxDepth {
			x.classes["skip:max-depth"]++
			return
		}
		x.call(s, out)

	default:
		panic("bad op " + s.Op)
	}
}

func isNilCtx(c rt.RuntimeContext) bool {
	if c == nil {
		return true
	}
	// Parent() of the root returns a typed nil pointer wrapped in the interface
	v := reflect.ValueOf(c)
	return v.Kind() == reflect.Ptr && v.IsNil()
}

// atRoot reports whether the runtime's current context is its root context.
func atRoot(r *rt.Runtime) bool { return isNilCtx(r.Parent()) }

// useBase makes the machine run above a base context pushed with an empty
// definition (it stands for the model's root), so that a runtime can serve
// many histories.
func (x *machine) useBase() {
	x.base = true
	x.r.PushContext(rt.RuntimeContextDef{})
}

func (x *machine) afterPush(def ctxref.Def) {
	var pm uint64
	if p := x.r.Parent(); p != nil && !isNilCtx(p) {
		pm = p.UsedResources().Millis
	}
	x.m.Push(def, pm)
	x.pushAcc()
	if err := x.m.CheckInvariants(); err != nil {
		panic(err)
	}
}

// unwind is called when the current context has just been terminated: the
// state is compared, then the termination travels to whoever owns the context:
// the harness for a PushContext context (it pops it, as CallContext would),
// golua's CallContext otherwise (the panic is re-raised).
func (x *machine) unwind(pv any) {
	if x.m.Cur.Depth >= 2 {
		x.nt = true
		x.classes["nt:kill-at-depth>=2"]++
	}
	x.checkAll("after termination")
	if x.failMsg != "" {
		return
	}
	fr := x.top()
	if fr.raw > 0 {
		x.rawPop()
		return
	}
	if !fr.isCall {
		x.failf("harness", "root context terminated")
		return
	}
	// golua's CallContext will now end this context: same excluded class as in rawPop
	x.popOverflowExcluded()
	panic(pv)
}

// popOverflowExcluded reports whether ending the current context falls in the
// class of the open finding (charging the parent overflows 64 bits).
func (x *machine) popOverflowExcluded() bool {
	p := x.m.Cur.Parent
	if p == nil {
		return false
	}
	o := x.m.PopWouldOverflow()
	hit := false
	for _, r := range []ctxref.Res{ctxref.CPU, ctxref.Mem} {
		if o[r] && p.Tracked(r) {
			hit = true
		}
	}
	if !hit {
		return false
	}
	x.classes["class:pop-overflows-uint64"]++
	if x.kfWrap {
		x.discards["excluded-by-finding:C07-require-wraps-uint64"]++
		x.aborted = true
		return true
	}
	return false
}

func (x *machine) notePop(res *ctxref.PopResult) {
	p := res.Ctx.Parent
	for _, r := range []ctxref.Res{ctxref.CPU, ctxref.Mem} {
		if !p.Hard[r].IsInf() && res.Ctx.Used[r].Sign() > 0 {
			left := new(big.Int).Sub(p.Hard[r].Big(), p.Used[r])
			if left.Cmp(big.NewInt(2)) <= 0 {
				x.nt = true
				x.classes["nt:pop-recharges-parent-within-2-of-limit"]++
			}
		}
	}
	x.classes["status:"+res.Ctx.Status.String()]++
}

func (x *machine) rawPop() {
	if x.popOverflowExcluded() {
		return
	}
	x.classes["op:pop"]++
	var got rt.RuntimeContext
	killed, _ := x.guard("PopContext", func() { got = x.r.PopContext() })
	if x.failMsg != "" {
		return
	}
	res := x.m.Pop(false)
	x.top().raw--
	x.acc = x.acc[:len(x.acc)-1]
	if killed || res.ParentKilled {
		if killed != res.ParentKilled {
			x.failf("pop-kill", "PopContext terminated the parent=%v, expected %v (child used %v)", killed, res.ParentKilled, res.Ctx.Used)
		}
		// never predicted by the model: child.used < child.hard <= parent remaining
		x.aborted = true
		return
	}
	x.notePop(res)
	if got == nil || isNilCtx(got) {
		x.failf("pop-nil", "PopContext returned nil for a pushed context")
		return
	}
	x.compareCtx(got, res.Ctx, func() string { return "context returned by PopContext" })
	x.checkAll("after pop")
}

func (x *machine) call(s Spec, out *[]Act) {
	def := x.resolveDef(s.Def)
	idx := len(*out)
	*out = append(*out, Act{Op: "call", Def: &def, Err: s.Err})
	x.classes["op:call"]++
	var body []Act
	fr := &frame{isCall: true}
	nframes := len(x.frames)
	var (
		ctx     rt.RuntimeContext
		err     error
		entered bool
		retErr  bool
	)
	var (
		propagated bool
		pv         any
	)
	func() {
		defer func() {
			if p := recover(); p != nil {
				if _, ok := p.(rt.ContextTerminationError); ok && entered {
					// CallContext ended its context and terminated the enclosing one too
					propagated, pv = true, p
					return
				}
				x.failf("go-panic", "CallContext: Go panic: %v", p)
			}
		}()
		ctx, err = x.th.CallContext(toRTDef(def), func() error {
			entered = true
			x.afterPush(def)
			x.frames = append(x.frames, fr)
			x.checkAll("at CallContext entry")
			for _, b := range s.Body {
				if x.stop() {
					break
				}
				x.step(b, &body)
			}
			for fr.raw > 0 && !x.stop() {
				body = append(body, Act{Op: "pop"})
				x.rawPop()
			}
			if x.stop() || x.popOverflowExcluded() {
				return nil
			}
			if s.Err {
				retErr = true
				x.m.SetError()
				return errBody
			}
			return nil
		})
	}()
	(*out)[idx].Body = body
	x.frames = x.frames[:nframes]
	if x.stop() {
		return
	}
	if !entered {
		x.failf("call", "CallContext did not call the function")
		return
	}
	res := x.m.Pop(true)
	x.acc = x.acc[:len(x.acc)-1]
	if res.ParentKilled {
		x.aborted = true
		return
	}
	x.notePop(res)
	if propagated != res.Propagated {
		k := res.Ctx
		if propagated {
			x.failf("propagation", "CallContext ended a context (status %s, terminated by limit=%v on %s, limit inherited=%v) and terminated the enclosing context too: only the termination by an inherited limit may do that",
				k.Status, k.KillByLimit, k.KillRes, k.KillInh)
		} else {
			x.failf("propagation", "CallContext returned normally for a context terminated by the %s limit it had inherited from the enclosing context (hard=%s): the enclosing context, which owns the limit, must be terminated as well",
				k.KillRes, k.Hard[k.KillRes])
		}
		return
	}
	if propagated {
		// the enclosing context is now current and terminated: the termination
		// travels on to whoever owns that context
		x.classes["kill:propagated-to-enclosing-context"]++
		x.unwind(pv)
		return
	}
	if ctx == nil || isNilCtx(ctx) {
		x.failf("call", "CallContext returned a nil context")
		return
	}
	x.compareCtx(ctx, res.Ctx, func() string { return "context returned by CallContext" })
	switch res.Ctx.Status {
	case ctxref.Killed:
		if _, ok := err.(rt.ContextTerminationError); !ok {
			x.failf("call-err", "CallContext whose context was terminated returned error %v (%T), want a ContextTerminationError", err, err)
		}
	case ctxref.Error:
		if !retErr || err != errBody {
			x.failf("call-err", "CallContext whose function returned an error gave back %v", err)
		}
		x.classes["call:error"]++
	case ctxref.Done:
		if err != nil {
			x.failf("call-err", "CallContext whose function returned nil gave back error %v", err)
		}
	}
	x.checkAll("after CallContext")
}

// finish closes every context still open at the top level.
func (x *machine) finish(out *[]Act) {
	for x.top().raw > 0 && !x.stop() {
		*out = append(*out, Act{Op: "pop"})
		x.rawPop()
	}
	if x.stop() {
		return
	}
	if x.base {
		x.guard("PopContext of the base context", func() { x.r.PopContext() })
	}
	if !atRoot(x.r) {
		x.failf("depth", "after closing every context the runtime is not back at its root context")
	}
}

// observed chain, current context first
func (x *machine) chain() []rt.RuntimeContext {
	var out []rt.RuntimeContext
	var c rt.RuntimeContext = x.r.RuntimeContext()
	for c != nil && !isNilCtx(c) {
		out = append(out, c)
		if len(out) > maxDepth+4 {
			break
		}
		c = c.Parent()
	}
	if x.base && len(out) > 0 {
		out = out[:len(out)-1] // the runtime's real root, below the base context
	}
	return out
}

func (x *machine) checkAll(where string) {
	if x.stop() {
		return
	}
	obs := x.chain()
	if len(obs) != x.m.Depth()+1 {
		x.failf("depth", "%s: %d contexts on golua's stack, %d expected", where, len(obs), x.m.Depth()+1)
		return
	}
	mc := x.m.Cur
	for i, o := range obs {
		depthNow := mc.Depth
		x.compareCtx(o, mc, func() string { return fmt.Sprintf("%s: context at depth %d", where, depthNow) })
		if x.failMsg != "" {
			return
		}
		// statements of the property on the observed values alone
		h, u := resArr(o.HardLimits()), resArr(o.UsedResources())
		if i+1 < len(obs) {
			p := obs[i+1]
			ph, pu := resArr(p.HardLimits()), resArr(p.UsedResources())
			for r := ctxref.Res(0); r < ctxref.NRes; r++ {
				if ph[r] != 0 && (h[r] == 0 || pu[r] >= ph[r] || h[r] > ph[r]-pu[r]) {
					x.failf("prop-child-budget", "%s: depth %d has hard %s=%d but its parent had only %d-%d left when it was created",
						where, mc.Depth, r, h[r], ph[r], pu[r])
					return
				}
			}
			pf, cf := p.RequiredFlags(), o.RequiredFlags()
			if cf&pf != pf {
				x.failf("prop-flags", "%s: depth %d flags %v do not include its parent's %v", where, mc.Depth, cf.Names(), pf.Names())
				return
			}
		}
		if d := mc.Depth; d >= 1 {
			for _, r := range []ctxref.Res{ctxref.CPU, ctxref.Mem} {
				if h[r] != 0 && x.acc[d-1][r].Cmp(new(big.Int).SetUint64(h[r])) >= 0 {
					x.failf("prop-total-work", "%s: the context at depth %d has hard %s=%d, but golua granted a net total of %s %s units in it and its descendants",
						where, d, r, h[r], x.acc[d-1][r], r)
					return
				}
			}
		}
		_ = u
		mc = mc.Parent
	}
}

// compareCtx compares one observed context with its model.
func (x *machine) compareCtx(o rt.RuntimeContext, mc *ctxref.Ctx, loc whereFn) {
	if x.failMsg != "" {
		return
	}
	where := lazyWhere{loc}
	h, s, u := resArr(o.HardLimits()), resArr(o.SoftLimits()), resArr(o.UsedResources())
	for r := ctxref.Res(0); r < ctxref.NRes; r++ {
		if h[r] != mc.Hard[r].U64() {
			x.failf("hard", "%s: hard %s limit is %d, expected %s (min of the parent's remaining budget and the request; 0=unlimited)", where, r, h[r], mc.Hard[r])
			return
		}
		if s[r] != mc.Soft[r].U64() {
			x.failf("soft", "%s: soft %s limit is %d, expected %s (min of own hard limit, parent's soft limit, request)", where, r, s[r], mc.Soft[r])
			return
		}
		if h[r] != 0 && (s[r] == 0 || s[r] > h[r]) {
			x.failf("prop-soft-le-hard", "%s: soft %s limit %d exceeds hard limit %d", where, r, s[r], h[r])
			return
		}
		if r == ctxref.Time {
			continue
		}
		if h[r] != 0 && u[r] >= h[r] {
			x.failf("prop-used-lt-hard", "%s: used %s=%d reaches the hard limit %d", where, r, u[r], h[r])
			return
		}
		if mc.Tracked(r) && new(big.Int).SetUint64(u[r]).Cmp(mc.Used[r]) != 0 {
			x.failf("used", "%s: used %s is %d, expected %s", where, r, u[r], mc.Used[r])
			return
		}
	}
	gf, unk := fromRTFlags(o.RequiredFlags())
	if unk != 0 || gf != mc.Flags {
		x.failf("flags", "%s: required flags %v, expected %v", where, o.RequiredFlags().Names(), toRTFlags(mc.Flags).Names())
		return
	}
	if st, ok := statusMap[o.Status()]; !ok || st != mc.Status {
		x.failf("status", "%s: status %q, expected %q", where, o.Status().String(), mc.Status)
		return
	}
	due, either := mc.Due(u[ctxref.Time])
	if !either && o.Due() != due {
		x.failf("due", "%s: Due()=%v, expected %v (soft=%v used=%v stop requested=%v)", where, o.Due(), due, mc.Soft, mc.Used, mc.SoftStop)
		return
	}
	if due && !either {
		x.classes["due:true"]++
	}
}

func (x *machine) key(log []Act) string {
	b, _ := json.Marshal(log)
	return string(b)
}

// runSpecs runs a whole history on a fresh machine.
func runSpecs(r *rt.Runtime, specs []Spec, kfWrap, kfRel, base bool) (x *machine, log []Act) {
	x = newMachine(r, kfWrap, kfRel)
	if base {
		x.useBase()
	}
	defer x.unwindToRoot()
	defer func() {
		if p := recover(); p != nil {
			x.failf("go-panic", "Go panic: %v", p)
		}
	}()
	x.checkAll("initially")
	for _, s := range specs {
		if x.stop() {
			break
		}
		x.step(s, &log)
	}
	x.finish(&log)
	return
}

// unwindToRoot brings a runtime whose history was cut short (excluded class)
// back to its root context so that it can serve the next history. Nothing is
// compared here; the root context has no limits, so nothing carries over.
func (x *machine) unwindToRoot() {
	if x.failMsg != "" {
		return
	}
	for i := 0; i < 4*maxDepth && !atRoot(x.r); i++ {
		x.guard("unwind", func() { x.r.PopContext() })
	}
}

type whereFn func() string

// lazyWhere formats the location only when a failure message is built.
type lazyWhere struct{ f whereFn }

func (l lazyWhere) String() string { return l.f() }
