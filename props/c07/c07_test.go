package c07

import (
	"encoding/json"
	"fmt"
	"os"
	"os/exec"
	"runtime/debug"
	"strings"
	"testing"
	"time"

	"github.com/arnodel/golua/lib"
	rt "github.com/arnodel/golua/runtime"
	"pgregory.net/rapid"

	"verif/internal/ev"
	"verif/internal/harness"
	. "verif/internal/pbt"
)

// C07 — nested execution contexts conserve budgets and report status truthfully.
//
// (a) a rapid state machine over golua's Go API (PushContext, PopContext,
//     RequireCPU, RequireMem, ReleaseMem, SetStopLevel, Thread.CallContext)
//     stepped together with the independent model internal/ctxref;
// (b) the same machine enumerated exhaustively over a reduced alphabet;
// (c) generated Lua programs nesting runtime.callcontext / pcall / coroutines,
//     checked through relations between what ctx.kill/stop/used/status/due/flags
//     report before, inside and after each call.

// c07Case is what a replay file stores.
type c07Case struct {
	Kind string `json:"kind"` // "machine" or "lua"
	Acts []Act  `json:"acts,omitempty"`
	Lua  *LProg `json:"lua,omitempty"`
	Src  string `json:"src,omitempty"` // rendered program, for the reader only
}

var bigVals = []uint64{1<<63 - 2, 1<<63 - 1, 1 << 63, 1<<63 + 1, 1<<63 + 2, ^uint64(0) - 2, ^uint64(0) - 1, ^uint64(0)}

func pickW(t *rapid.T, label string, weights ...int) int {
	total := 0
	for _, w := range weights {
		total += w
	}
	x := rapid.IntRange(0, total-1).Draw(t, label)
	for i, w := range weights {
		if x < w {
			return i
		}
		x -= w
	}
	return len(weights) - 1
}

func genHard(t *rapid.T, r int) VSpec {
	if r == 2 { // time: only as data, never small enough to matter
		switch pickW(t, "tk", 9, 1, 1, 1) {
		case 0:
			return abs(0)
		case 1:
			return VSpec{"rem", uint64(rapid.IntRange(1, 3).Draw(t, "p"))}
		case 2:
			return abs(rapid.SampledFrom(bigVals).Draw(t, "big"))
		default:
			return abs(timeFloor + uint64(rapid.IntRange(0, 1000).Draw(t, "ms")))
		}
	}
	switch pickW(t, "hk", 4, 1, 1, 2, 3, 1, 1) {
	case 0:
		return abs(0)
	case 1:
		return abs(1)
	case 2:
		return abs(2)
	case 3:
		return abs(uint64(rapid.IntRange(3, 40).Draw(t, "small")))
	case 4:
		return VSpec{"rem", uint64(rapid.IntRange(1, 3).Draw(t, "p"))}
	case 5:
		return abs(rapid.SampledFrom(bigVals).Draw(t, "big"))
	default:
		return abs(uint64(rapid.IntRange(41, 400).Draw(t, "medium")))
	}
}

func genSoft(t *rapid.T, r int) VSpec {
	if r == 2 {
		switch pickW(t, "tk", 9, 1, 1, 1) {
		case 0:
			return abs(0)
		case 1:
			return VSpec{"hard", uint64(rapid.IntRange(1, 3).Draw(t, "p"))}
		case 2:
			return abs(rapid.SampledFrom(bigVals).Draw(t, "big"))
		default:
			return abs(timeFloor + uint64(rapid.IntRange(0, 1000).Draw(t, "ms")))
		}
	}
	switch pickW(t, "sk", 4, 1, 1, 2, 2, 1, 1, 1) {
	case 0:
		return abs(0)
	case 1:
		return abs(1)
	case 2:
		return abs(2)
	case 3:
		return abs(uint64(rapid.IntRange(3, 40).Draw(t, "small")))
	case 4:
		return VSpec{"hard", uint64(rapid.IntRange(1, 3).Draw(t, "p"))}
	case 5:
		return VSpec{"srem", uint64(rapid.IntRange(1, 3).Draw(t, "p"))}
	case 6:
		return VSpec{"rem", uint64(rapid.IntRange(1, 3).Draw(t, "p"))}
	default:
		return abs(rapid.SampledFrom(bigVals).Draw(t, "big"))
	}
}

func genDefSpec(t *rapid.T) DefSpec {
	var d DefSpec
	for r := 0; r < 3; r++ {
		d.Hard[r] = genHard(t, r)
		d.Soft[r] = genSoft(t, r)
	}
	if pickW(t, "hasflags", 2, 1) == 1 {
		d.Flags = rapid.Uint8Range(0, 15).Draw(t, "flags")
	}
	return d
}

func genAmt(t *rapid.T) VSpec {
	switch pickW(t, "ak", 1, 2, 3, 4, 2, 1, 1, 1) {
	case 0:
		return abs(0)
	case 1:
		return abs(1)
	case 2:
		return abs(uint64(rapid.IntRange(2, 20).Draw(t, "small")))
	case 3:
		return VSpec{"rem", uint64(rapid.IntRange(1, 3).Draw(t, "p"))}
	case 4:
		return VSpec{"srem", uint64(rapid.IntRange(1, 3).Draw(t, "p"))}
	case 5:
		return VSpec{"tomax", 0}
	case 6:
		return abs(rapid.SampledFrom(bigVals).Draw(t, "big"))
	default:
		return abs(^uint64(0))
	}
}

func genRel(t *rapid.T) VSpec {
	switch pickW(t, "rk", 3, 1, 2, 2, 2, 1) {
	case 4:
		return VSpec{"over", uint64(rapid.IntRange(1, 6).Draw(t, "p"))}
	case 5:
		return VSpec{"chain", uint64(rapid.IntRange(1, 3).Draw(t, "p"))}
	case 0:
		return VSpec{"used", uint64(rapid.IntRange(0, 3).Draw(t, "p"))}
	case 1:
		return abs(0)
	case 2:
		return abs(1)
	default:
		return abs(uint64(rapid.IntRange(2, 20).Draw(t, "small")))
	}
}

func genSpec(t *rapid.T, depth int) Spec {
	wCall := 3
	if depth <= 0 {
		wCall = 0
	}
	switch pickW(t, "op", 3, 3, 5, 5, 2, 1, 1, wCall) {
	case 0:
		return Spec{Op: "push", Def: genDefSpec(t)}
	case 1:
		return Spec{Op: "pop"}
	case 2:
		return Spec{Op: "cpu", Amt: genAmt(t)}
	case 3:
		return Spec{Op: "mem", Amt: genAmt(t)}
	case 4:
		return Spec{Op: "rel", Amt: genRel(t)}
	case 5:
		return Spec{Op: "stop"}
	case 6:
		return Spec{Op: "kill"}
	default:
		return genCall(t, depth)
	}
}

func genCall(t *rapid.T, depth int) Spec {
	s := Spec{Op: "call", Def: genDefSpec(t), Err: rapid.Bool().Draw(t, "err")}
	n := rapid.IntRange(0, 6).Draw(t, "bodylen")
	for i := 0; i < n; i++ {
		s.Body = append(s.Body, genSpec(t, depth-1))
	}
	return s
}

// ---------------------------------------------------------------------------
// enumeration alphabet
// ---------------------------------------------------------------------------

type tok struct {
	name string
	spec Spec
	kind int // 0 plain, 1 open call, 2 close returning nil, 3 close returning an error
}

func defOf(hc, hm, ht, sc, sm VSpec, flags uint8) DefSpec {
	return DefSpec{Hard: [3]VSpec{hc, hm, ht}, Soft: [3]VSpec{sc, sm, abs(0)}, Flags: flags}
}

func alphabet() []tok {
	z := abs(0)
	max := ^uint64(0)
	rem := func(p uint64) VSpec { return VSpec{"rem", p} }
	return []tok{
		{"push{}", Spec{Op: "push", Def: defOf(z, z, z, z, z, 0)}, 0},
		{"push{cpu=10,mem=10}", Spec{Op: "push", Def: defOf(abs(10), abs(10), z, z, z, 0)}, 0},
		{"push{cpu=rem,mem=rem-1}", Spec{Op: "push", Def: defOf(rem(2), rem(1), z, z, z, 0)}, 0},
		{"push{cpu=rem+1,soft cpu=hard+1}", Spec{Op: "push", Def: defOf(rem(3), z, z, VSpec{"hard", 3}, z, 0)}, 0},
		{"push{soft cpu=3,soft mem=3}", Spec{Op: "push", Def: defOf(z, z, z, abs(3), abs(3), 0)}, 0},
		{"push{cpu=2^64-1,mem=2^63,iosafe}", Spec{Op: "push", Def: defOf(abs(max), abs(1<<63), z, z, abs(1<<63+1), 4)}, 0},
		{"push{time=2^40,mem=2}", Spec{Op: "push", Def: defOf(z, abs(2), abs(timeFloor), z, z, 0)}, 0},
		{"pop", Spec{Op: "pop"}, 0},
		{"cpu 1", Spec{Op: "cpu", Amt: abs(1)}, 0},
		{"cpu rem-1", Spec{Op: "cpu", Amt: rem(1)}, 0},
		{"cpu rem", Spec{Op: "cpu", Amt: rem(2)}, 0},
		{"cpu 2^64-1-used", Spec{Op: "cpu", Amt: VSpec{"tomax", 0}}, 0},
		{"cpu 2^64-1", Spec{Op: "cpu", Amt: abs(max)}, 0},
		{"mem 1", Spec{Op: "mem", Amt: abs(1)}, 0},
		{"mem rem-1", Spec{Op: "mem", Amt: rem(1)}, 0},
		{"mem rem", Spec{Op: "mem", Amt: rem(2)}, 0},
		{"mem 2^63", Spec{Op: "mem", Amt: abs(1 << 63)}, 0},
		{"rel 1", Spec{Op: "rel", Amt: abs(1)}, 0},
		{"rel all", Spec{Op: "rel", Amt: VSpec{"used", 0}}, 0},
		{"rel used+2", Spec{Op: "rel", Amt: VSpec{"over", 2}}, 0},
		{"stop", Spec{Op: "stop"}, 0},
		{"kill", Spec{Op: "kill"}, 0},
		{"call{cpu=10,mem=10}(", Spec{Op: "call", Def: defOf(abs(10), abs(10), z, z, z, 0)}, 1},
		{"call{}(", Spec{Op: "call", Def: defOf(z, z, z, z, z, 0)}, 1},
		{"call{cpu=rem,soft mem=2,cpusafe}(", Spec{Op: "call", Def: defOf(rem(2), z, z, z, abs(2), 2)}, 1},
		{")nil", Spec{}, 2},
		{")err", Spec{}, 3},
	}
}

// parseToks turns a token sequence into a tree; ok=false for a close without an open.
func parseToks(seq []tok) (specs []Spec, ok bool) {
	type open struct {
		spec Spec
		body []Spec
	}
	var stack []*open
	add := func(s Spec) {
		if len(stack) == 0 {
			specs = append(specs, s)
		} else {
			top := stack[len(stack)-1]
			top.body = append(top.body, s)
		}
	}
	closeTop := func(err bool) {
		top := stack[len(stack)-1]
		stack = stack[:len(stack)-1]
		s := top.spec
		s.Body, s.Err = top.body, err
		add(s)
	}
	for _, t := range seq {
		switch t.kind {
		case 0:
			add(t.spec)
		case 1:
			stack = append(stack, &open{spec: t.spec})
		default:
			if len(stack) == 0 {
				return nil, false
			}
			closeTop(t.kind == 3)
		}
	}
	for len(stack) > 0 {
		closeTop(false)
	}
	return specs, true
}

// ---------------------------------------------------------------------------
// known findings: fixed demonstrations
// ---------------------------------------------------------------------------

func demoWrap() bool {
	// hard cpu 10, used 5: requiring 2^64-1 more must terminate the context
	specs := []Spec{
		{Op: "push", Def: defOf(abs(10), abs(0), abs(0), abs(0), abs(0), 0)},
		{Op: "cpu", Amt: abs(5)},
		{Op: "cpu", Amt: abs(^uint64(0))},
	}
	x, _ := runSpecs(rt.New(nil), specs, false, false, false)
	return x.failMsg != ""
}

func demoRelease() bool {
	// only a soft memory limit: require 10, release 10 -> used must be 0 again
	specs := []Spec{
		{Op: "push", Def: defOf(abs(0), abs(0), abs(0), abs(0), abs(100), 0)},
		{Op: "mem", Amt: abs(10)},
		{Op: "rel", Amt: abs(10)},
	}
	x, _ := runSpecs(rt.New(nil), specs, false, false, false)
	return x.failMsg != ""
}

const demoKillFinishedSrc = `
local c = runtime.callcontext({}, function() end)
emit("before")
c:killnow()
emit("after")
`

func demoKillFinished() bool {
	tr := harness.Run(demoKillFinishedSrc, harness.Opts{CPU: 1_000_000, Mem: 10_000_000})
	return tr.Panic == "" && tr.Err == "" && !tr.Killed && len(tr.Events) == 1
}

const demoYieldSrc = `
local before = runtime.context().kill.cpu
local ctx = runtime.callcontext({kill={cpu=2000}}, function()
  coroutine.wrap(function() pcall(coroutine.yield) end)()
end)
emit(before, runtime.context().kill.cpu)
`

func demoYield() bool {
	tr := harness.Run(demoYieldSrc, harness.Opts{CPU: 1_000_000, Mem: 10_000_000})
	return !(tr.Panic == "" && len(tr.Events) == 1 && tr.Events[0] == "i:1000000 i:1000000")
}

const demoCoEndSrc = `
local co = coroutine.wrap(function() return 1 end)
runtime.callcontext({}, co)
`

// demoCoEnd runs the demonstration in a child process: the failure is a Go
// panic in another goroutine, which cannot be recovered.
func demoCoEnd() bool {
	exe, err := os.Executable()
	if err != nil {
		return true
	}
	cmd := exec.Command(exe, "-test.run", "^TestC07$", "-test.count", "1")
	cmd.Env = append(os.Environ(), "C07_CHILD=coend", "VERIF_OUT=", "VERIF_REPLAY=")
	out, err := cmd.CombinedOutput()
	if err == nil && strings.Contains(string(out), "C07-CHILD-OK") {
		return false
	}
	return true
}

// ---------------------------------------------------------------------------

func machineClassFlush(rec *ev.Recorder, x *machine) {
	for k, n := range x.classes {
		rec.ClassN(k, int64(n))
	}
	for k, n := range x.discards {
		for i := 0; i < n; i++ {
			rec.Discard(k)
		}
	}
}

func TestC07(t *testing.T) {
	if os.Getenv("C07_CHILD") == "coend" {
		tr := harness.Run(demoCoEndSrc, harness.Opts{CPU: 1_000_000, Mem: 10_000_000})
		if tr.Panic == "" {
			fmt.Println("C07-CHILD-OK")
		}
		return
	}
	rec := ev.New("C07")
	defer Finish(t, rec)
	debug.SetGCPercent(400)
	rec.Rule("(a) rapid state machine over golua's Go context API (PushContext/PopContext/RequireCPU/RequireMem/ReleaseMem/SetStopLevel/Thread.CallContext with nested bodies), limits and amounts drawn from {0=unlimited, 1, 2, small, parent-remaining-1/+0/+1, soft-remaining±1, 2^63±2, 2^64-3..2^64-1}, flag subsets, huge-or-zero time limits; after every step the whole Parent() chain is compared with the big-integer model internal/ctxref (hard, soft, used, flags, status, Due) and the property's statements are checked on the observed values (child hard <= parent remaining, soft <= hard, flags superset, used < hard, net granted work under every finite limit < limit). (b) all action sequences up to a depth bound over a 27-token alphabet. (c) generated Lua programs (nesting depth <= 4) of runtime.callcontext/pcall/coroutines with tight, medium and ample budgets, checked by relations between context reports taken before/inside/after each call. (d) work done while a limited context is being left: {finaliser of a garbage / still referenced value, close handler} x body ended by {return, error, error with a table, caught error then return} x own limit {3000, 50000} x enclosing limit {none, ample, tighter} x {counting loop, one bulk request}: the work is cut off, the context whose limit is hit reports killed, used <= kill everywhere, the loop count stays under the tightest limit, the parent's usage covers the child's. Non-trivial: a context is terminated at depth >= 2, or ending a context re-charges a parent to within 2 units of its hard limit, or an amount is within 2 of 2^63 or 2^64 (machine); a kill inside a nested context (Lua); distinct by hash of the executed action list / program.")
	rec.Assume("a hard limit counts as the context's own only if it was requested and is strictly smaller than what the enclosing context had left; a context terminated by a limit it inherited is ended by Thread.CallContext (pcall, runtime.callcontext) together with every enclosing context up to and including the owner of the limit; contexts pushed with PushContext by the embedder are ended by the embedder (the harness), which terminates nothing else; forced kills (killcontext, HardStop) end one context only")
	rec.Assume("ReleaseMem of more than the current context has used gives the rest back in the enclosing contexts, saturating at 0 at each level")
	rec.Assume("time limits are data only: finite time limits are >= 2^40 ms so the clock never terminates anything; the parent's clock consumption at push time is read from golua and fed to the model as an input")
	rec.Assume("a resource without any finite hard or soft limit in a context is not observable: its 'used' figure is not compared")
	rec.Assume("a soft stop requested on a context before a child is created: the child may or may not be due for that reason alone (documentation silent); golua inherits it")
	rec.Assume("child.soft = min(child.hard, parent.soft, requested): quotas.md 'soft limits cannot exceed hard limits and cannot be increased from the parent's soft limits'")
	rec.Assume("Lua level: one loop iteration calling a Go function costs at least 1 cpu unit; relations on memory allow 8192 bytes of slack because call frames are given back; 'sure' contexts (cpu >= 3e6, memory >= 5e7 or inherited, all ancestors alike) must run their generated body (<= 22 nodes, <= 300 iterations each) to the end")

	if rec.Replay != "" {
		rf, err := rec.LoadReplay()
		if err != nil {
			t.Fatal(err)
		}
		if rf.Kind == "time" {
			var tc timeCase
			if err := json.Unmarshal(rf.Case, &tc); err != nil {
				t.Fatal(err)
			}
			rec.Eval()
			if msg := checkTimeBudget(tc); msg != "" {
				rec.Violation("time", tc, msg)
			}
			return
		}
		if rf.Kind == "exit" {
			var xc exitCase
			if err := json.Unmarshal(rf.Case, &xc); err != nil {
				t.Fatal(err)
			}
			rec.Eval()
			if msg := checkExit(xc); msg != "" {
				rec.Violation("exit", xc, msg)
			}
			return
		}
		var c c07Case
		if err := json.Unmarshal(rf.Case, &c); err != nil {
			t.Fatal(err)
		}
		rec.Eval()
		switch c.Kind {
		case "machine":
			r := rt.New(nil)
			lib.LoadAll(r)
			x, _ := runSpecs(r, actsToSpecs(c.Acts), false, false, false)
			if x.failMsg != "" {
				rec.Violation(x.failKind, c, x.failMsg)
			}
		case "lua":
			rd := renderProg(c.Lua)
			lr := &luaRunner{}
			v := luaCheck(rd, lr.run(rd))
			if v.msg != "" {
				rec.Violation(v.kind, c, v.msg)
			}
		default:
			t.Fatalf("unknown case kind %q", c.Kind)
		}
		return
	}

	// time budgets (one-sided: only a lower bound of the elapsed time is used)
	{
		tidx := 0
		for _, child := range []string{"empty", "cpu", "mem", "millis-bigger"} {
			for _, sl := range []int{25, 70} {
				for _, depth := range []int{1, 3} {
					tidx++
					if !rec.Mine(tidx) {
						continue
					}
					tc := timeCase{LimitMs: 600_000, SleepMs: sl, Child: child, Depth: depth}
					rec.Eval()
					rec.Class("time-budget")
					rec.NonTrivial(fmt.Sprint("time|", tc))
					if msg := checkTimeBudget(tc); msg != "" {
						rec.Violation("time", tc, msg)
						return
					}
				}
			}
		}
	}

	// work done while a limited context is being left (finalisers, close handlers)
	for i, xc := range exitCases() {
		if !rec.Mine(i) {
			continue
		}
		rec.Eval()
		rec.Class("exit-work:" + xc.Carrier + "/" + xc.End)
		rec.NonTrivial(fmt.Sprint("exit|", xc))
		if msg := checkExit(xc); msg != "" {
			rec.Violation("exit", xc, msg+"\n--- program ---\n"+xc.program())
			return
		}
	}

	tKnown := time.Now()
	kfWrap := CheckKnown(rec, "C07-require-wraps-uint64", demoWrap)
	kfRel := CheckKnown(rec, "C07-releasemem-soft-only", demoRelease)
	kfKillFin := CheckKnown(rec, "C07-killnow-finished-ctx", demoKillFinished)
	kfYield := CheckKnown(rec, "C07-yield-leaves-context-pushed", demoYield)
	kfCoEnd := CheckKnown(rec, "C07-coroutine-end-in-other-context", demoCoEnd)

	rec.Set(fmt.Sprintf("wall_known_shard%d", rec.Shard()), time.Since(tKnown).Seconds())

	evalMachine := func(x *machine, log []Act) {
		rec.Eval()
		machineClassFlush(rec, x)
		rec.ClassN("machine-steps", int64(x.steps))
		if x.aborted {
			rec.Class("history-cut-at-excluded-class")
		}
		if x.nt {
			rec.NonTrivial(x.key(log))
		}
		rec.Sample(map[string]any{"kind": "machine", "acts": log})
	}

	// developer switch (sensitivity tests): C07_ONLY=enum|machine|lua runs one part
	only := os.Getenv("C07_ONLY")
	part := func(name string) bool { return only == "" || only == name }

	// (b) exhaustive enumeration
	alpha := alphabet()
	depth := rec.Pick(3, 4)
	if !part("enum") {
		depth = 0
	}
	idx, nviol := 0, 0
	seq := make([]tok, 0, depth)
	var enumRT *rt.Runtime
	var enum func(d int)
	enum = func(d int) {
		if len(seq) > 0 {
			idx++
			if rec.Mine(idx) && nviol < 5 {
				specs, ok := parseToks(seq)
				if !ok {
					rec.Class("enum:unbalanced-close-skipped")
				} else {
					hasPop := false
					for _, tk := range seq {
						hasPop = hasPop || tk.spec.Op == "pop"
					}
					var x *machine
					var log []Act
					if hasPop {
						// PopContext on the root context needs a runtime of its own
						x, log = runSpecs(rt.New(nil), specs, kfWrap, kfRel, false)
					} else {
						if enumRT == nil || !atRoot(enumRT) {
							enumRT = rt.New(nil)
						}
						x, log = runSpecs(enumRT, specs, kfWrap, kfRel, true)
						if x.failMsg != "" {
							enumRT = nil
						}
					}
					evalMachine(x, log)
					if x.failMsg != "" {
						nviol++
						names := make([]string, len(seq))
						for i, tk := range seq {
							names[i] = tk.name
						}
						rec.Violation(x.failKind, c07Case{Kind: "machine", Acts: log}, fmt.Sprintf("[%s] %s", strings.Join(names, " ; "), x.failMsg))
					}
				}
			}
		}
		if d == 0 {
			return
		}
		for _, tk := range alpha {
			seq = append(seq, tk)
			enum(d - 1)
			seq = seq[:len(seq)-1]
		}
	}
	tPhase := time.Now()
	enum(depth)
	rec.Set(fmt.Sprintf("wall_enum_shard%d", rec.Shard()), time.Since(tPhase).Seconds())
	tPhase = time.Now()
	rec.Exhaustive(true)
	rec.Set("enum_alphabet", len(alpha))
	rec.Set("enum_depth", depth)
	rec.Set("enum_sequences", idx)
	if nviol > 0 {
		return
	}

	// (a) rapid state machine
	// one runtime (rt.New + lib.LoadAll) serves all histories: each history runs
	// above a base context pushed with an empty definition, which stands for the
	// model's root; a runtime that saw a violation is never reused.
	var shared *rt.Runtime
	nMachine, nLua := rec.Pick(5000, 60000), rec.Pick(1500, 8000)
	if !part("machine") {
		nMachine = 1
	}
	if !part("lua") {
		nLua = 1
	}
	_ = nMachine
	okA := !part("machine") || RunRapid(rec, "C07/machine", nMachine, 0, func(t *rapid.T) {
		var x *machine
		if rapid.IntRange(0, 9).Draw(t, "own-runtime") == 0 {
			// a runtime of its own, no base context: PopContext on the root is reachable
			x = newMachine(rt.New(nil), kfWrap, kfRel)
		} else {
			if shared == nil || !atRoot(shared) {
				shared = rt.New(nil)
				lib.LoadAll(shared)
				rec.Class("machine:runtime-created")
			}
			x = newMachine(shared, kfWrap, kfRel)
			x.useBase()
		}
		var log []Act
		failIf := func() {
			if x.failMsg != "" {
				shared = nil
				FailCase(t, x.failKind, c07Case{Kind: "machine", Acts: log}, "%s", x.failMsg)
			}
		}
		do := func(s Spec) {
			func() {
				defer func() {
					if p := recover(); p != nil {
						x.failf("go-panic", "Go panic: %v", p)
					}
				}()
				x.step(s, &log)
			}()
			failIf()
		}
		x.checkAll("initially")
		failIf()
		t.Repeat(map[string]func(*rapid.T){
			"push":  func(t *rapid.T) { do(Spec{Op: "push", Def: genDefSpec(t)}) },
			"pop":   func(t *rapid.T) { do(Spec{Op: "pop"}) },
			"cpu":   func(t *rapid.T) { do(Spec{Op: "cpu", Amt: genAmt(t)}) },
			"cpu2":  func(t *rapid.T) { do(Spec{Op: "cpu", Amt: genAmt(t)}) },
			"mem":   func(t *rapid.T) { do(Spec{Op: "mem", Amt: genAmt(t)}) },
			"mem2":  func(t *rapid.T) { do(Spec{Op: "mem", Amt: genAmt(t)}) },
			"rel":   func(t *rapid.T) { do(Spec{Op: "rel", Amt: genRel(t)}) },
			"stop":  func(t *rapid.T) { do(Spec{Op: "stop"}) },
			"kill":  func(t *rapid.T) { do(Spec{Op: "kill"}) },
			"call":  func(t *rapid.T) { do(genCall(t, 3)) },
			"call2": func(t *rapid.T) { do(genCall(t, 2)) },
			"": func(t *rapid.T) {
				x.checkAll("invariant")
				failIf()
			},
		})
		func() {
			defer func() {
				if p := recover(); p != nil {
					x.failf("go-panic", "Go panic: %v", p)
				}
			}()
			x.finish(&log)
		}()
		failIf()
		x.unwindToRoot()
		evalMachine(x, log)
	})
	rec.Set(fmt.Sprintf("wall_machine_shard%d", rec.Shard()), time.Since(tPhase).Seconds())
	tPhase = time.Now()
	defer func() { rec.Set(fmt.Sprintf("wall_lua_shard%d", rec.Shard()), time.Since(tPhase).Seconds()) }()
	if !okA {
		return
	}

	// (c) Lua level
	lr := &luaRunner{}
	gen := genProg()
	RunRapid(rec, "C07/lua", nLua, 1, func(t *rapid.T) {
		p := gen.Draw(t, "prog")
		rd := renderProg(p)
		switch {
		case rd.hasCrossEnd:
			rec.Class("lua:class-coroutine-ends-in-other-context")
			if kfCoEnd {
				rec.Discard("excluded-by-finding:C07-coroutine-end-in-other-context")
				return
			}
		case rd.hasCrossYield:
			rec.Class("lua:class-yield-inside-context-opened-by-coroutine")
			if kfYield {
				rec.Discard("excluded-by-finding:C07-yield-leaves-context-pushed")
				return
			}
		case rd.hasFinKill:
			rec.Class("lua:class-killnow-on-finished-context")
			if kfKillFin {
				rec.Discard("excluded-by-finding:C07-killnow-finished-ctx")
				return
			}
		}
		run := lr.run(rd)
		v := luaCheck(rd, run)
		rec.Eval()
		if run.renewed {
			rec.Class("lua:session-created")
		}
		if run.waitTimeout {
			rec.Class("lua:goroutine-wait-timeout")
		}
		for _, c := range v.classes {
			rec.Class(c)
		}
		rec.Class(fmt.Sprintf("lua:nesting-depth-%d", rd.depth))
		if rd.hasCo {
			rec.Class("lua:has-coroutine")
		}
		c := c07Case{Kind: "lua", Lua: p, Src: rd.src}
		if v.nt {
			b, _ := json.Marshal(p)
			rec.NonTrivial("lua:" + string(b))
		}
		trace := ""
		if run.tr != nil {
			trace = run.tr.String()
			rec.Sample(map[string]any{"kind": "lua", "src": rd.src, "events": len(run.tr.Events)})
		}
		if v.msg != "" {
			FailCase(t, v.kind, c, "%s\n--- program ---\n%s--- trace ---\n%s", v.msg, rd.src, trace)
		}
	})
}
