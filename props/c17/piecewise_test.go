package c17

import (
	"fmt"
	"strings"

	rt "github.com/arnodel/golua/runtime"
	"pgregory.net/rapid"

	"verif/internal/packref"
)

// Piecewise unpacking (metamorphic, no model): string.unpack returns the
// position after the last item so that reading can go on from there. For
// s = pack(f1 .. f2, v...) reading f1 from the start and then f2 (with the
// byte-order and alignment settings f1 left in force restated) from the
// position the first call returned must give what one call with f1 .. f2
// gives, including the final position. Alignment is relative to the start of
// the packed string whatever the initial position (it is what makes the two
// readings agree, and what the reference implementation does).

func init() {
	helpers["piecewise"] = `return function(whole, f1, f2, ...)
  local ok, s = pcall(string.pack, whole, ...)
  if not ok then emit("piecewise", "pack-failed", s) return end
  local a = table.pack(pcall(string.unpack, whole, s))
  local r1 = table.pack(pcall(string.unpack, f1, s))
  if not a[1] or not r1[1] then emit("piecewise", "unpack-failed", a[2], r1[2]) return end
  local p = r1[r1.n]
  local r2 = table.pack(pcall(string.unpack, f2, s, p))
  if not r2[1] then emit("piecewise", "second-part-failed", r2[2], p) return end
  local got = {}
  for i = 2, r1.n - 1 do got[#got + 1] = r1[i] end
  for i = 2, r2.n do got[#got + 1] = r2[i] end
  if #got ~= a.n - 1 then emit("piecewise", "count-differs", #got, a.n - 1, p) return end
  for i = 1, #got do
    local x, y = got[i], a[i + 1]
    if not (x == y or (x ~= x and y ~= y)) or math.type(x) ~= math.type(y) then emit("piecewise", "differs-at", i, x, y, p) return end
  end
  emit("piecewise", "same", #got)
end`
}

type pieceCase struct {
	Whole string        `json:"whole"`
	F1    string        `json:"f1"`
	F2    string        `json:"f2"`
	Vals  []packref.Val `json:"vals"`
}

// genPieceCase draws a valid format, splits it between two value options and
// restates in the second part the settings the first part leaves in force.
func genPieceCase(t *rapid.T, nat packref.Native) (pieceCase, bool) {
	toks := genTokens(t, nat)
	var takes []int
	for i, tk := range toks {
		if tk.Takes {
			takes = append(takes, i)
		}
	}
	if len(takes) < 2 {
		return pieceCase{}, false
	}
	// the second part starts right after the k-th value option
	k := takes[rapid.IntRange(0, len(takes)-2).Draw(t, "split")] + 1
	endian, bang := "", ""
	for _, tk := range toks[:k] {
		switch {
		case tk.Text == "<" || tk.Text == ">" || tk.Text == "=":
			endian = tk.Text
		case strings.HasPrefix(tk.Text, "!"):
			bang = tk.Text
		}
	}
	c := pieceCase{Whole: joinToks(toks), F1: joinToks(toks[:k]), F2: endian + bang + " " + joinToks(toks[k:])}
	f, err := packref.Parse(c.Whole, nat)
	if err != nil {
		panic(err)
	}
	for i, e := range f.Elems {
		if e.Takes() {
			c.Vals = append(c.Vals, genValFor(t, e, fmt.Sprintf("v%d", i)))
		}
	}
	return c, true
}

func (ck *checker) checkPiecewise(c pieceCase) string {
	args := []rt.Value{rt.StringValue(c.Whole), rt.StringValue(c.F1), rt.StringValue(c.F2)}
	for _, v := range c.Vals {
		args = append(args, toValue(v))
	}
	tr := ck.run.call("piecewise", args...)
	ck.rec.Eval()
	if m := broken(tr); m != "" {
		return fmt.Sprintf("piecewise unpack of %q as %q then %q: %s", c.Whole, c.F1, c.F2, m)
	}
	ev, _ := event(tr, "piecewise")
	switch {
	case strings.HasPrefix(ev, `s:"same"`):
		ck.rec.Class("piecewise:same")
		if strings.Contains(c.Whole, "!") {
			ck.rec.NonTrivial("piecewise|" + c.Whole + "|" + c.F1 + "|" + valsText(c.Vals))
		}
		return ""
	case strings.HasPrefix(ev, `s:"pack-failed"`), strings.HasPrefix(ev, `s:"unpack-failed"`):
		// the round-trip section judges those
		ck.rec.Class("piecewise:whole-does-not-round-trip")
		return ""
	}
	return fmt.Sprintf("string.unpack(%q, s) and string.unpack(%q, s) followed by string.unpack(%q, s, next) disagree for s = string.pack(%q, %s): %s", c.Whole, c.F1, c.F2, c.Whole, valsText(c.Vals), ev)
}
