package c17

import (
	"bytes"
	"encoding/binary"
	"encoding/json"
	"fmt"
	"math"
	"sort"
	"strconv"
	"strings"
	"testing"
	"unicode"
	"unicode/utf8"

	rt "github.com/arnodel/golua/runtime"
	"pgregory.net/rapid"

	"verif/internal/ev"
	"verif/internal/harness"
	"verif/internal/numref"
	"verif/internal/packref"
	. "verif/internal/pbt"
)

// C17 — value serialisation round trips: string.pack/unpack/packsize,
// string.format %q, tostring/tonumber, integer and string directives of
// string.format.

const (
	cpuLimit = 50_000_000
	memLimit = 200_000_000
)

// ---------------------------------------------------------------------------
// running Lua

var helpers = map[string]string{
	// pack, then unpack what was packed, then packsize
	"pack": `return function(fmt, ...)
  local r = table.pack(pcall(string.pack, fmt, ...))
  if r[1] then
    emit("pack", true, r[2])
    emit("unpack", pcall(string.unpack, fmt, r[2]))
  else
    emit("pack", false, r[2])
  end
  emit("packsize", pcall(string.packsize, fmt))
end`,
	"unpack": `return function(fmt, data, init)
  if init then
    emit("unpack", pcall(string.unpack, fmt, data, init))
  else
    emit("unpack", pcall(string.unpack, fmt, data))
  end
  emit("packsize", pcall(string.packsize, fmt))
end`,
	"quote": `return function(v)
  local ok, q = pcall(string.format, "%q", v)
  if not ok then emit("format-error", q) return end
  emit("q", q)
  local f, err = load("return " .. q)
  if not f then emit("load-error", err) return end
  local ok2, r = pcall(f)
  if not ok2 then emit("run-error", r) return end
  emit("value", r, type(r) == "number" and math.type(r) or type(r))
end`,
	"tostring": `return function(n)
  local s = tostring(n)
  local r = tonumber(s)
  emit("tostring", s, r, r == n, type(r) == "number" and math.type(r) or type(r))
end`,
	"format": `return function(f, ...)
  emit("format", pcall(string.format, f, ...))
end`,
	"probe": `return function()
  emit(string.packsize("h"), string.packsize("i"), string.packsize("l"), string.packsize("j"),
       string.packsize("T"), string.packsize("f"), string.packsize("d"), string.packsize("n"),
       string.packsize("!bi16"), string.pack("=I2", 1))
end`,
}

type runner struct {
	s   *harness.Session
	fns map[string]rt.Value
}

func (r *runner) call(name string, args ...rt.Value) *harness.Trace {
	if r.s == nil {
		r.s = harness.NewSession()
		r.fns = map[string]rt.Value{}
		names := make([]string, 0, len(helpers))
		for n := range helpers {
			names = append(names, n)
		}
		sort.Strings(names)
		for _, n := range names {
			fn, err := r.s.Load(n, helpers[n])
			if err != nil {
				panic(fmt.Sprintf("helper %s: %v", n, err))
			}
			r.fns[n] = fn
		}
	}
	tr := r.s.Call(r.fns[name], cpuLimit, memLimit, args...)
	if tr.Panic != "" || tr.Killed {
		r.s.Close()
		r.s = nil
	}
	return tr
}

func toValue(v packref.Val) rt.Value {
	switch v.K {
	case 'i':
		return rt.IntValue(v.I)
	case 'f':
		return rt.FloatValue(v.Float())
	case 's':
		return rt.StringValue(string(v.S))
	}
	return rt.NilValue
}

func encVal(v packref.Val) string {
	switch v.K {
	case 'i':
		return harness.EncInt(v.I)
	case 'f':
		return harness.EncFloat(v.Float())
	case 's':
		return harness.EncString(string(v.S))
	}
	return "nil"
}

func valsText(vs []packref.Val) string {
	var sb strings.Builder
	for i, v := range vs {
		if i > 0 {
			sb.WriteString(", ")
		}
		sb.WriteString(v.String())
	}
	return sb.String()
}

// event returns the event whose first value is the string tag.
func event(tr *harness.Trace, tag string) (string, bool) {
	p := harness.EncString(tag)
	for _, e := range tr.Events {
		if e == p {
			return "", true
		}
		if strings.HasPrefix(e, p+" ") {
			return e[len(p)+1:], true
		}
	}
	return "", false
}

func broken(tr *harness.Trace) string {
	if tr.Panic != "" {
		return "Go panic: " + tr.Panic
	}
	if tr.Killed {
		return "the limited context was killed (cpu/memory) where a result or a Lua error is expected"
	}
	if tr.Err != "" {
		return "helper raised: " + tr.Err
	}
	return ""
}

func isErr(ev string) bool { return strings.HasPrefix(ev, "false") }

// ---------------------------------------------------------------------------
// platform parameters

func probeNative(run *runner) (packref.Native, string) {
	tr := run.call("probe")
	if m := broken(tr); m != "" {
		return packref.Native{}, m
	}
	if len(tr.Events) != 1 {
		return packref.Native{}, fmt.Sprintf("probe: %v", tr.Events)
	}
	f := strings.Fields(tr.Events[0])
	if len(f) != 10 {
		return packref.Native{}, "probe: " + tr.Events[0]
	}
	num := func(s string) int {
		n, err := strconv.Atoi(strings.TrimPrefix(s, "i:"))
		if err != nil {
			return -1
		}
		return n
	}
	nat := packref.Native{Short: num(f[0]), Int: num(f[1]), Long: num(f[2]), LuaInt: num(f[3]), SizeT: num(f[4]),
		Float: num(f[5]), Double: num(f[6]), LuaNum: num(f[7])}
	switch num(f[8]) {
	case 17:
		nat.MaxAlign = 1
	case 18:
		nat.MaxAlign = 2
	case 20:
		nat.MaxAlign = 4
	case 24:
		nat.MaxAlign = 8
	case 32:
		nat.MaxAlign = 16
	}
	switch f[9] {
	case `s:"\x01\x00"`:
		nat.Little = true
	case `s:"\x00\x01"`:
		nat.Little = false
	default:
		return nat, "probe: native endianness: " + f[9]
	}
	hostLittle := binary.NativeEndian.Uint16([]byte{1, 0}) == 1
	if nat.Little != hostLittle {
		return nat, fmt.Sprintf("native endianness reported little=%v on a little=%v host", nat.Little, hostLittle)
	}
	in := func(n int, set ...int) bool {
		for _, s := range set {
			if n == s {
				return true
			}
		}
		return false
	}
	if nat.Short != 2 || !in(nat.Int, 4, 8) || !in(nat.Long, 4, 8) || nat.LuaInt != 8 || !in(nat.SizeT, 4, 8) ||
		nat.Float != 4 || nat.Double != 8 || nat.LuaNum != 8 || nat.MaxAlign == 0 {
		return nat, fmt.Sprintf("implausible native sizes: %+v (%s)", nat, tr.Events[0])
	}
	return nat, ""
}

// ---------------------------------------------------------------------------
// (a) pack / unpack / packsize

type packCase struct {
	Fmt  string        `json:"fmt"`
	Vals []packref.Val `json:"vals,omitempty"`
	// unpack of constructed data
	Data    []byte `json:"data,omitempty"`
	Init    int64  `json:"init,omitempty"`
	HasInit bool   `json:"has_init,omitempty"`
}

func (c packCase) key() string {
	return fmt.Sprintf("%q|%s|%x|%d", c.Fmt, valsText(c.Vals), c.Data, c.Init)
}

// known-finding switches (true: the finding is listed open, its class is excluded)
type known struct {
	packUnsignedNeg, packFloatNaN, packC0, unpackAlign, unpackSLen bool
	packsizeXs, packsizeXEnd                                       bool
	qUnicode, qIntegralFloat, qMinInt                              bool
	fmtSharpXZero, fmtOctNeg, fmtSignPrec0, fmtSharpOPrec0         bool
	fmtStrRunes, fmtSharpZeroWidth, fmtIncomplete                  bool
}

type checker struct {
	rec *ev.Recorder
	run *runner
	nat packref.Native
	kf  known
}

// numericString: a string given where a number is expected is converted by
// Lua's coercion rules; those cases are not part of this property.
func coerces(e packref.Elem, v packref.Val) bool {
	switch e.Kind {
	case packref.KInt, packref.KUint, packref.KFloat, packref.KDouble:
		if v.K == 's' {
			_, ok := numref.StringToNumber(string(v.S))
			return ok
		}
	default:
		return v.K == 'i' || v.K == 'f'
	}
	return false
}

// expectUnpacked gives what unpack must return for value v packed under e.
func expectUnpacked(e packref.Elem, v packref.Val) packref.Val {
	switch e.Kind {
	case packref.KInt, packref.KUint:
		if v.K == 'f' {
			return packref.IntVal(int64(v.Float()))
		}
		return v
	case packref.KFloat:
		f := v.Float()
		if v.K == 'i' {
			f = float64(v.I)
		}
		return packref.FloatVal(float64(float32(f)))
	case packref.KDouble:
		if v.K == 'i' {
			return packref.FloatVal(float64(v.I))
		}
		return v
	case packref.KStrFix:
		b := append([]byte{}, v.S...)
		b = append(b, make([]byte, e.Size-len(v.S))...)
		return packref.StrVal(b)
	}
	return v
}

func boundaryVal(e packref.Elem, v packref.Val) bool {
	switch e.Kind {
	case packref.KInt:
		if v.K != 'i' {
			return false
		}
		if e.Size >= 8 {
			return v.I == math.MinInt64 || v.I == math.MaxInt64
		}
		h := int64(1) << (8*uint(e.Size) - 1)
		return v.I == -h || v.I == h-1
	case packref.KUint:
		if v.K != 'i' {
			return false
		}
		if e.Size >= 8 {
			return v.I == -1 || v.I == math.MinInt64 || v.I == math.MaxInt64
		}
		return v.I == int64(1)<<(8*uint(e.Size))-1
	case packref.KFloat, packref.KDouble:
		if v.K != 'f' {
			return false
		}
		f := v.Float()
		return f != f || math.IsInf(f, 0) || (f == 0 && math.Signbit(f)) || math.Abs(f) == math.MaxFloat32 || math.Abs(f) == math.MaxFloat64 || (f != 0 && math.Abs(f) < 2.3e-308)
	case packref.KStrLen:
		return e.Size < 8 && len(v.S) == 1<<(8*uint(e.Size))-1 || bytes.IndexByte(v.S, 0) >= 0
	}
	return false
}

// hasXs: the format has an alignment item "Xs[n]".
func hasXs(f *packref.Format) bool {
	for _, e := range f.Elems {
		if e.Kind == packref.KAlign && strings.HasPrefix(e.Text, "Xs") {
			return true
		}
	}
	return false
}

func oddWidth(e packref.Elem) bool {
	switch e.Kind {
	case packref.KInt, packref.KUint, packref.KStrLen:
		return e.Size != 1 && e.Size != 2 && e.Size != 4 && e.Size != 8
	}
	return false
}

func (ck *checker) packNonTrivial(f *packref.Format, c packCase) bool {
	n, odd := 0, false
	vi := 0
	for _, e := range f.Elems {
		if e.Takes() {
			n++
			if vi < len(c.Vals) && boundaryVal(e, c.Vals[vi]) {
				return true
			}
			vi++
		}
		if oddWidth(e) {
			odd = true
		}
	}
	return n >= 2 && (odd || f.NeedsAlignment())
}

// packExcluded applies the recognisers of open findings to a pack case.
func (ck *checker) packExcluded(f *packref.Format, c packCase) string {
	vi := 0
	for _, e := range f.Elems {
		if !e.Takes() {
			continue
		}
		if vi >= len(c.Vals) {
			break
		}
		v := c.Vals[vi]
		vi++
		if ck.kf.packUnsignedNeg && e.Kind == packref.KUint && e.Size == 8 && (v.K == 'i' && v.I < 0 || v.K == 'f' && v.Float() < 0) {
			return "C17-pack-unsigned-negative"
		}
		if ck.kf.packFloatNaN && e.Kind == packref.KFloat && v.K == 'f' && v.Float() != v.Float() {
			return "C17-pack-f-nan"
		}
		if ck.kf.packC0 && e.Kind == packref.KStrFix && e.Size == 0 && v.K == 's' && len(v.S) > 0 {
			return "C17-pack-c0-overlong"
		}
	}
	return ""
}

// checkPack: pack the values, compare the bytes with the reference encoder,
// unpack them again, compare with the values, compare packsize. It covers
// valid and invalid (format or value) cases: the reference decides which.
func (ck *checker) checkPack(c packCase) string {
	rec := ck.rec
	f, perr := packref.Parse(c.Fmt, ck.nat)
	if perr == nil {
		if f.Unclear {
			// no expectation; still must not panic
			args := []rt.Value{rt.StringValue(c.Fmt)}
			for _, v := range c.Vals {
				args = append(args, toValue(v))
			}
			tr := ck.run.call("pack", args...)
			rec.Discard("unclear:X-before-unaligned-option")
			if tr.Panic != "" {
				return "Go panic: " + tr.Panic
			}
			return ""
		}
		vi := 0
		for _, e := range f.Elems {
			if e.Takes() && vi < len(c.Vals) {
				if coerces(e, c.Vals[vi]) {
					rec.Discard("unclear:string/number-coercion-in-pack")
					return ""
				}
				vi++
			}
		}
		if id := ck.packExcluded(f, c); id != "" {
			rec.Discard("excluded-by-finding:" + id)
			return ""
		}
	}
	args := []rt.Value{rt.StringValue(c.Fmt)}
	for _, v := range c.Vals {
		args = append(args, toValue(v))
	}
	tr := ck.run.call("pack", args...)
	rec.Eval()
	if m := broken(tr); m != "" {
		return fmt.Sprintf("string.pack(%q, %s): %s", c.Fmt, valsText(c.Vals), m)
	}
	pk, _ := event(tr, "pack")
	ps, _ := event(tr, "packsize")
	desc := fmt.Sprintf("string.pack(%q, %s)", c.Fmt, valsText(c.Vals))
	if perr != nil {
		rec.Class("pack:malformed-format")
		rec.NonTrivial("pack|" + c.key())
		if !isErr(pk) {
			return fmt.Sprintf("%s: malformed format (%v) must raise, got %s", desc, perr, pk)
		}
		if ck.kf.packsizeXEnd && strings.HasSuffix(c.Fmt, "X") {
			rec.Discard("excluded-by-finding:C17-packsize-X-at-end(packsize observation only)")
		} else if !isErr(ps) {
			return fmt.Sprintf("string.packsize(%q): malformed format (%v) must raise, got %s", c.Fmt, perr, ps)
		}
		// unpack must reject it too, whatever the data
		tr2 := ck.run.call("unpack", rt.StringValue(c.Fmt), rt.StringValue(strings.Repeat("\x00", 160)))
		if m := broken(tr2); m != "" {
			return fmt.Sprintf("string.unpack(%q, 160 zero bytes): %s", c.Fmt, m)
		}
		if up, _ := event(tr2, "unpack"); !isErr(up) {
			return fmt.Sprintf("string.unpack(%q, 160 zero bytes): malformed format (%v) must raise, got %s", c.Fmt, perr, up)
		}
		return ""
	}
	if ck.packNonTrivial(f, c) {
		rec.NonTrivial("pack|" + c.key())
	}
	// packsize
	sz, serr := f.Size()
	switch {
	case ck.kf.packsizeXs && hasXs(f) && !f.HasVar():
		rec.Discard("excluded-by-finding:C17-packsize-X-before-s(packsize observation only)")
	case serr != nil && !isErr(ps):
		return fmt.Sprintf("string.packsize(%q) must raise (%v), got %s", c.Fmt, serr, ps)
	case serr == nil && ps != "true "+harness.EncInt(int64(sz)):
		return fmt.Sprintf("string.packsize(%q) = %s, expected %d", c.Fmt, ps, sz)
	}
	want, fo, eerr := f.Encode(c.Vals)
	if eerr != nil {
		rec.Class("pack:must-raise")
		rec.NonTrivial("pack|" + c.key())
		if !isErr(pk) {
			return fmt.Sprintf("%s must raise (%v), got %s", desc, eerr, pk)
		}
		if eerr == packref.ErrAlign {
			// the same format must be rejected by unpack when it gets that far
			return ck.checkUnpack(packCase{Fmt: c.Fmt, Data: make([]byte, 200)})
		}
		return ""
	}
	if fo == packref.FloatOverflow {
		rec.Class("pack:float-overflow(either)")
		if isErr(pk) {
			return ""
		}
	}
	if f.NeedsAlignment() {
		rec.Class("pack:ok-aligned")
	} else {
		rec.Class("pack:ok-unaligned")
	}
	if pk != "true "+harness.EncString(string(want)) {
		return fmt.Sprintf("%s = %s, expected %q", desc, pk, want)
	}
	if serr == nil && sz != len(want) {
		return fmt.Sprintf("harness: reference size %d != reference encoding length %d for %q", sz, len(want), c.Fmt)
	}
	// round trip
	var exp []string
	exp = append(exp, "true")
	vi := 0
	var expVals []packref.Val
	for _, e := range f.Elems {
		if e.Takes() {
			ev := expectUnpacked(e, c.Vals[vi])
			expVals = append(expVals, ev)
			exp = append(exp, encVal(ev))
			vi++
		}
	}
	exp = append(exp, harness.EncInt(int64(len(want)+1)))
	up, _ := event(tr, "unpack")
	if up != strings.Join(exp, " ") {
		return fmt.Sprintf("string.unpack(%q, %s) = %s, expected %s", c.Fmt, desc, up, strings.Join(exp, " "))
	}
	// self-consistency of the reference decoder
	dv, dn, derr := f.Decode(want, 0)
	if derr != nil || dn != len(want) || len(dv) != len(expVals) {
		return fmt.Sprintf("harness: reference decoder disagrees with the reference encoder on %s: %v", desc, derr)
	}
	for i := range dv {
		if encVal(dv[i]) != encVal(expVals[i]) {
			return fmt.Sprintf("harness: reference decoder disagrees with the reference encoder on %s: value %d", desc, i+1)
		}
	}
	return ""
}

// sLenHuge reports whether decoding reaches an 's' item whose length prefix
// exceeds the remaining data by more than a megabyte (class of finding
// C17-unpack-s-length-unchecked).
func sLenHuge(f *packref.Format, data []byte, pos int) bool {
	for _, e := range f.Elems {
		pad, err := e.Padding(pos)
		if err != nil {
			return false
		}
		pos += pad
		if pos > len(data) {
			return false
		}
		switch e.Kind {
		case packref.KAlign:
		case packref.KStrZ:
			i := bytes.IndexByte(data[pos:], 0)
			if i < 0 {
				return false
			}
			pos += i + 1
		case packref.KStrLen:
			if pos+e.Size > len(data) {
				return false
			}
			b := append([]byte{}, data[pos:pos+e.Size]...)
			if e.Little {
				for i, j := 0, len(b)-1; i < j; i, j = i+1, j-1 {
					b[i], b[j] = b[j], b[i]
				}
			}
			pos += e.Size
			// value as big-endian bytes
			var hi bool
			var n uint64
			for i, x := range b {
				if len(b)-i > 8 {
					if x != 0 {
						hi = true
					}
					continue
				}
				n = n<<8 | uint64(x)
			}
			rest := uint64(len(data) - pos)
			if hi || n > rest+1<<20 {
				return true
			}
			if n > rest {
				return false
			}
			pos += int(n)
		default:
			pos += e.Size
			if pos > len(data) {
				return false
			}
		}
	}
	return false
}

func alignErrorReached(f *packref.Format, data []byte, pos int) bool {
	_, _, err := f.Decode(data, pos)
	return err == packref.ErrAlign
}

// checkUnpack: unpack constructed data (arbitrary padding bytes, wide
// integers, truncation, initial position) against the reference decoder.
func (ck *checker) checkUnpack(c packCase) string {
	rec := ck.rec
	f, perr := packref.Parse(c.Fmt, ck.nat)
	desc := fmt.Sprintf("string.unpack(%q, %q", c.Fmt, c.Data)
	if c.HasInit {
		desc += fmt.Sprintf(", %d", c.Init)
	}
	desc += ")"
	pos := 0
	if c.HasInit {
		n := int64(len(c.Data))
		switch {
		case c.Init > 0:
			if c.Init-1 > n {
				pos = -1 // out of bounds: must raise
			} else {
				pos = int(c.Init - 1)
			}
		case c.Init < 0 && -c.Init <= n:
			pos = int(n + c.Init)
		default:
			rec.Discard("unclear:init-0-or-before-start")
			return ""
		}
	}
	if perr == nil {
		if f.Unclear {
			rec.Discard("unclear:X-before-unaligned-option")
			if tr := ck.run.call("unpack", rt.StringValue(c.Fmt), rt.StringValue(string(c.Data))); tr.Panic != "" {
				return desc + ": Go panic: " + tr.Panic
			}
			return ""
		}
		if pos > 0 && f.NeedsAlignment() && pos%16 != 0 {
			rec.Discard("unclear:alignment-relative-to-init")
			return ""
		}
		if pos >= 0 {
			if ck.kf.unpackSLen && sLenHuge(f, c.Data, pos) {
				rec.Discard("excluded-by-finding:C17-unpack-s-length-unchecked")
				return ""
			}
			if ck.kf.unpackAlign && alignErrorReached(f, c.Data, pos) {
				rec.Discard("excluded-by-finding:C17-unpack-align-not-pow2")
				return ""
			}
		}
	}
	args := []rt.Value{rt.StringValue(c.Fmt), rt.StringValue(string(c.Data))}
	if c.HasInit {
		args = append(args, rt.IntValue(c.Init))
	}
	tr := ck.run.call("unpack", args...)
	rec.Eval()
	if m := broken(tr); m != "" {
		return desc + ": " + m
	}
	up, _ := event(tr, "unpack")
	if perr != nil {
		rec.Class("unpack:malformed-format")
		if !isErr(up) {
			return fmt.Sprintf("%s: malformed format (%v) must raise, got %s", desc, perr, up)
		}
		return ""
	}
	if pos < 0 {
		rec.Class("unpack:init-out-of-bounds")
		rec.NonTrivial("unpack|" + c.key())
		if !isErr(up) {
			return fmt.Sprintf("%s: initial position out of the string must raise, got %s", desc, up)
		}
		return ""
	}
	vals, next, derr := f.Decode(c.Data, pos)
	if derr != nil {
		rec.Class("unpack:must-raise:" + derr.Error())
		rec.NonTrivial("unpack|" + c.key())
		if !isErr(up) {
			return fmt.Sprintf("%s must raise (%v), got %s", desc, derr, up)
		}
		return ""
	}
	rec.Class("unpack:ok")
	odd := false
	for _, e := range f.Elems {
		if oddWidth(e) {
			odd = true
		}
	}
	if len(vals) >= 2 && (odd || f.NeedsAlignment()) {
		rec.NonTrivial("unpack|" + c.key())
	}
	exp := []string{"true"}
	for _, v := range vals {
		exp = append(exp, encVal(v))
	}
	exp = append(exp, harness.EncInt(int64(next+1)))
	if up != strings.Join(exp, " ") {
		return fmt.Sprintf("%s = %s, expected %s", desc, up, strings.Join(exp, " "))
	}
	return ""
}

// --- generators for (a)

type tok struct {
	Text  string
	Takes bool
}

type fmtGen struct {
	t        *rapid.T
	nat      packref.Native
	maxAlign int
	toks     []tok
}

func (g *fmtGen) okAlign(size int) bool {
	a := size
	if a > g.maxAlign {
		a = g.maxAlign
	}
	return a <= 1 || a&(a-1) == 0
}

func (g *fmtGen) widths() []int {
	var w []int
	for n := 1; n <= 16; n++ {
		if g.okAlign(n) {
			w = append(w, n)
		}
	}
	return w
}

var optKinds = []string{"b", "B", "h", "H", "i", "I", "iN", "IN", "iN", "IN", "iN", "IN", "l", "L", "j", "J", "T", "f", "d", "n", "s", "sN", "sN", "z", "cN"}
var alignKinds = []string{"b", "h", "H", "i", "iN", "IN", "iN", "l", "j", "J", "T", "f", "d", "n", "s", "sN"}

// option draws one value option (text) valid under the current maximum alignment.
func (g *fmtGen) option(kinds []string, label string) string {
	k := rapid.SampledFrom(kinds).Draw(g.t, label)
	size := 1
	switch k {
	case "h", "H":
		size = g.nat.Short
	case "i", "I":
		size = g.nat.Int
	case "l", "L":
		size = g.nat.Long
	case "j", "J", "d", "n":
		size = 8
	case "T", "s":
		size = g.nat.SizeT
	case "f":
		size = 4
	}
	if !g.okAlign(size) {
		k = "iN"
		if size%2 == 0 {
			k = "IN"
		}
	}
	switch k {
	case "iN", "IN", "sN":
		n := rapid.SampledFrom(g.widths()).Draw(g.t, label+"-width")
		return k[:1] + strconv.Itoa(n)
	case "cN":
		return "c" + strconv.Itoa(rapid.IntRange(0, 20).Draw(g.t, label+"-len"))
	}
	return k
}

func (g *fmtGen) config() {
	switch rapid.IntRange(0, 9).Draw(g.t, "config") {
	case 0, 1:
		g.toks = append(g.toks, tok{Text: " "})
	case 2:
		g.toks = append(g.toks, tok{Text: rapid.SampledFrom([]string{"<", ">", "="}).Draw(g.t, "endian")})
	case 3:
		g.bang()
	case 4:
		g.toks = append(g.toks, tok{Text: "x"})
	case 5:
		g.toks = append(g.toks, tok{Text: "X" + g.option(alignKinds, "xop")})
	}
}

func (g *fmtGen) bang() {
	n := rapid.SampledFrom([]int{1, 2, 2, 4, 4, 4, 8, 8, 8, 16, 16, 0, 3, 5, 6, 7, 12}).Draw(g.t, "maxalign")
	if n == 0 {
		g.toks = append(g.toks, tok{Text: "!"})
		g.maxAlign = g.nat.MaxAlign
		return
	}
	g.toks = append(g.toks, tok{Text: "!" + strconv.Itoa(n)})
	g.maxAlign = n
}

// genTokens draws a valid format as a token list.
func genTokens(t *rapid.T, nat packref.Native) []tok {
	g := &fmtGen{t: t, nat: nat, maxAlign: 1}
	if rapid.IntRange(0, 2).Draw(t, "has-endian") > 0 {
		g.toks = append(g.toks, tok{Text: rapid.SampledFrom([]string{"<", ">", "="}).Draw(t, "endian0")})
	}
	if rapid.IntRange(0, 2).Draw(t, "has-bang") > 0 {
		g.bang()
	}
	n := rapid.IntRange(1, 8).Draw(t, "nitems")
	for i := 0; i < n; i++ {
		g.config()
		g.toks = append(g.toks, tok{Text: g.option(optKinds, "opt"), Takes: true})
	}
	if rapid.IntRange(0, 5).Draw(t, "trail") == 0 {
		g.config()
	}
	return g.toks
}

func joinToks(ts []tok) string {
	var sb strings.Builder
	for _, t := range ts {
		sb.WriteString(t.Text)
	}
	return sb.String()
}

var strAlphabet = []byte{0, 0, 'a', 'b', 'Z', '0', '9', ' ', '\n', 0xff, 0x80, 0xc3, 0xa9, 1, 0x7f, '%', '"', '\\'}

func genBytes(t *rapid.T, label string, maxLen int, noNul bool) []byte {
	n := rapid.IntRange(0, maxLen).Draw(t, label+"-len")
	b := make([]byte, n)
	for i := range b {
		c := rapid.SampledFrom(strAlphabet).Draw(t, label)
		if noNul && c == 0 {
			c = 'n'
		}
		b[i] = c
	}
	return b
}

func genIntFor(t *rapid.T, e packref.Elem, label string) int64 {
	signed := e.Kind == packref.KInt
	if e.Size >= 8 {
		mask := int64(-1)
		if !signed && rapid.IntRange(0, 3).Draw(t, label+"-high-bit") != 3 {
			mask = math.MaxInt64 // most unsigned values below 2^63
		}
		return mask & rapid.OneOf(
			rapid.SampledFrom([]int64{0, 1, -1, math.MinInt64, math.MaxInt64, math.MinInt64 + 1, math.MaxInt64 - 1, 255, 256, -256}),
			rapid.Map(rapid.IntRange(0, 62), func(k int) int64 { return int64(1) << uint(k) }),
			rapid.Map(rapid.IntRange(0, 63), func(k int) int64 { return -(int64(1) << uint(k)) }),
			rapid.Int64(),
		).Draw(t, label)
	}
	bits := 8 * uint(e.Size)
	if signed {
		h := int64(1) << (bits - 1)
		return rapid.OneOf(
			rapid.SampledFrom([]int64{-h, h - 1, 0, -1, 1, -h + 1, h - 2, h / 2, -h / 2}),
			rapid.Int64Range(-h, h-1),
		).Draw(t, label)
	}
	m := int64(1)<<bits - 1
	return rapid.OneOf(
		rapid.SampledFrom([]int64{0, 1, m, m - 1, m/2 + 1, m / 2}),
		rapid.Int64Range(0, m),
	).Draw(t, label)
}

var floatSpecials = []float64{0, math.Copysign(0, -1), 1, -1, 0.5, 1.5, 0.1, -0.1, math.Inf(1), math.Inf(-1), math.NaN(),
	math.MaxFloat32, -math.MaxFloat32, math.SmallestNonzeroFloat32, math.MaxFloat64, -math.MaxFloat64, math.SmallestNonzeroFloat64,
	2.2250738585072014e-308, 1e39, -1e39, 3.4028235677973366e38, 1e100, 0x1p63, -0x1p63, 0x1p53, 16777217, 1e-46}

func genFloat(t *rapid.T, label string, single bool) float64 {
	if single {
		return rapid.OneOf(
			rapid.SampledFrom(floatSpecials),
			rapid.Map(rapid.Uint32(), func(b uint32) float64 { return float64(math.Float32frombits(b)) }),
			rapid.Map(rapid.Uint64(), math.Float64frombits),
			rapid.Map(rapid.Int64Range(-1000, 1000), func(i int64) float64 { return float64(i) / 8 }),
		).Draw(t, label)
	}
	return rapid.OneOf(
		rapid.SampledFrom(floatSpecials),
		rapid.Map(rapid.Uint64(), math.Float64frombits),
		rapid.Map(rapid.Int64Range(-1000, 1000), func(i int64) float64 { return float64(i) / 8 }),
	).Draw(t, label)
}

func genValFor(t *rapid.T, e packref.Elem, label string) packref.Val {
	switch e.Kind {
	case packref.KInt, packref.KUint:
		v := genIntFor(t, e, label)
		if v > -(1<<53) && v < 1<<53 && rapid.IntRange(0, 19).Draw(t, label+"-as-float") == 19 {
			return packref.FloatVal(float64(v))
		}
		return packref.IntVal(v)
	case packref.KFloat, packref.KDouble:
		if rapid.IntRange(0, 9).Draw(t, label+"-as-int") == 9 {
			return packref.IntVal(rapid.Int64Range(-1<<24, 1<<24).Draw(t, label))
		}
		return packref.FloatVal(genFloat(t, label, e.Kind == packref.KFloat))
	case packref.KStrLen:
		if e.Size == 1 && rapid.IntRange(0, 9).Draw(t, label+"-long") == 9 {
			return packref.StrVal(bytes.Repeat([]byte{0, 'x', 0xff}, 85)) // 255 bytes: the longest s1
		}
		return packref.StrVal(genBytes(t, label, 24, false))
	case packref.KStrZ:
		return packref.StrVal(genBytes(t, label, 24, true))
	case packref.KStrFix:
		return packref.StrVal(genBytes(t, label, e.Size, false))
	}
	panic("genValFor")
}

func genPackCase(t *rapid.T, nat packref.Native) packCase {
	toks := genTokens(t, nat)
	c := packCase{Fmt: joinToks(toks)}
	f, err := packref.Parse(c.Fmt, nat)
	if err != nil {
		panic(fmt.Sprintf("generator made a malformed format %q: %v", c.Fmt, err))
	}
	for i, e := range f.Elems {
		if e.Takes() {
			c.Vals = append(c.Vals, genValFor(t, e, fmt.Sprintf("v%d", i)))
		}
	}
	return c
}

// a bad (token, value) pair inserted into a valid case
type badPair struct {
	Tok    string
	Val    *packref.Val
	AtEnd  bool // only meaningful at the end of the format
	Format bool // format-level: pack, unpack and packsize must all raise
}

func iv(i int64) *packref.Val  { v := packref.IntVal(i); return &v }
func sv(s string) *packref.Val { v := packref.StrVal([]byte(s)); return &v }
func fv(f float64) *packref.Val {
	v := packref.FloatVal(f)
	return &v
}

func badPairs() []badPair {
	var bp []badPair
	for _, s := range []string{"i0", "i17", "I0", "I17", "I99", "i100", "s0", "s17", "!0", "!17", "!99", "i4294967297", "I18446744073709551617", "s18446744073709551620",
		"!18446744073709551617", "c18446744073709551617c", "q", "y", "r", "@", "?", "Z", "#", "e", "F", "D", "S", "t", "Xq", "X?", "X@", "X9", "c", "c b"} {
		bp = append(bp, badPair{Tok: s, Format: true})
	}
	bp = append(bp, badPair{Tok: "X", AtEnd: true, Format: true}, badPair{Tok: "x X", AtEnd: true, Format: true}, badPair{Tok: "c", AtEnd: true, Format: true})
	// alignment that is not a power of two and is actually needed
	for _, s := range []string{"!3 i4", "!3i3", "!6 j", "!5 d", "!12 i16", "!7 I8", "!3 f", "!6l", "!5n", "!3 h h i5", "!7 T"} {
		bp = append(bp, badPair{Tok: s, Val: iv(1), Format: true})
	}
	bp = append(bp, badPair{Tok: "!7 s8", Val: sv("abc"), Format: false}) // packsize raises anyway (variable size)
	bp = append(bp, badPair{Tok: "!3 Xi4", Format: true}, badPair{Tok: "!6 b Xd", Val: iv(1), Format: true})
	// values out of range
	for n := 1; n <= 7; n++ {
		h := int64(1) << (8*uint(n) - 1)
		bp = append(bp,
			badPair{Tok: "i" + strconv.Itoa(n), Val: iv(h)},
			badPair{Tok: "i" + strconv.Itoa(n), Val: iv(-h - 1)},
			badPair{Tok: "i" + strconv.Itoa(n), Val: iv(math.MaxInt64)},
			badPair{Tok: "i" + strconv.Itoa(n), Val: iv(math.MinInt64)},
			badPair{Tok: "I" + strconv.Itoa(n), Val: iv(2 * h)},
			badPair{Tok: "I" + strconv.Itoa(n), Val: iv(-1)},
			badPair{Tok: "I" + strconv.Itoa(n), Val: iv(math.MinInt64)},
		)
	}
	bp = append(bp, badPair{Tok: "b", Val: iv(128)}, badPair{Tok: "b", Val: iv(-129)}, badPair{Tok: "B", Val: iv(256)}, badPair{Tok: "B", Val: iv(-1)},
		badPair{Tok: "h", Val: iv(32768)}, badPair{Tok: "h", Val: iv(-32769)}, badPair{Tok: "H", Val: iv(65536)}, badPair{Tok: "H", Val: iv(-1)})
	// strings
	bp = append(bp, badPair{Tok: "z", Val: sv("a\x00b")}, badPair{Tok: "z", Val: sv("\x00")}, badPair{Tok: "s1", Val: sv(strings.Repeat("a", 256))},
		badPair{Tok: "s1", Val: sv(strings.Repeat("\x00", 300))}, badPair{Tok: "s2", Val: sv(strings.Repeat("b", 65536))},
		badPair{Tok: "c2", Val: sv("abc")}, badPair{Tok: "c1", Val: sv("ab")}, badPair{Tok: "c0", Val: sv("a")}, badPair{Tok: "c10", Val: sv("0123456789a")})
	// wrong kind of value
	nilv := &packref.Val{K: 'n'}
	bp = append(bp, badPair{Tok: "i4", Val: sv("x")}, badPair{Tok: "d", Val: sv("x")}, badPair{Tok: "f", Val: sv("")}, badPair{Tok: "j", Val: nilv},
		badPair{Tok: "z", Val: nilv}, badPair{Tok: "s4", Val: nilv}, badPair{Tok: "n", Val: nilv}, badPair{Tok: "c3", Val: nilv},
		badPair{Tok: "i4", Val: fv(1.5)}, badPair{Tok: "j", Val: fv(math.NaN())}, badPair{Tok: "J", Val: fv(math.Inf(1))}, badPair{Tok: "j", Val: fv(0x1p63)},
		badPair{Tok: "i16", Val: fv(-0x1.0000000000001p63)}, badPair{Tok: "B", Val: fv(0.5)})
	return bp
}

// genBadPackCase inserts one defect into a valid case.
func genBadPackCase(t *rapid.T, nat packref.Native, bps []badPair) (packCase, string) {
	toks := genTokens(t, nat)
	f, err := packref.Parse(joinToks(toks), nat)
	if err != nil {
		panic(err)
	}
	var vals []packref.Val
	for i, e := range f.Elems {
		if e.Takes() {
			vals = append(vals, genValFor(t, e, fmt.Sprintf("v%d", i)))
		}
	}
	if rapid.IntRange(0, 19).Draw(t, "drop-value") == 19 && len(vals) > 0 {
		return packCase{Fmt: joinToks(toks), Vals: vals[:len(vals)-1]}, "missing-value"
	}
	bp := rapid.SampledFrom(bps).Draw(t, "defect")
	at := len(toks)
	if !bp.AtEnd {
		at = rapid.IntRange(0, len(toks)).Draw(t, "at")
		// never split "X op": an X token carries its option
	}
	nv := 0
	for _, k := range toks[:at] {
		if k.Takes {
			nv++
		}
	}
	var nt []tok
	nt = append(nt, toks[:at]...)
	nt = append(nt, tok{Text: " " + bp.Tok, Takes: bp.Val != nil})
	if at < len(toks) {
		nt = append(nt, tok{Text: " "})
		nt = append(nt, toks[at:]...)
	}
	var nvals []packref.Val
	nvals = append(nvals, vals[:nv]...)
	if bp.Val != nil {
		nvals = append(nvals, *bp.Val)
	}
	nvals = append(nvals, vals[nv:]...)
	return packCase{Fmt: joinToks(nt), Vals: nvals}, bp.Tok
}

// genUnpackCase builds data for a valid format field by field.
func genUnpackCase(t *rapid.T, nat packref.Native) packCase {
	toks := genTokens(t, nat)
	c := packCase{Fmt: joinToks(toks)}
	f, err := packref.Parse(c.Fmt, nat)
	if err != nil {
		panic(err)
	}
	shift := 0
	if rapid.IntRange(0, 3).Draw(t, "shifted") == 0 {
		if f.NeedsAlignment() {
			shift = 16 * rapid.IntRange(0, 2).Draw(t, "shift16")
		} else {
			shift = rapid.IntRange(0, 20).Draw(t, "shift")
		}
	}
	data := make([]byte, shift)
	for i := range data {
		data[i] = byte(0xA0 + i)
	}
	padByte := func() byte { return rapid.SampledFrom([]byte{0, 0xff, 0x55, 1}).Draw(t, "pad") }
	for i, e := range f.Elems {
		label := fmt.Sprintf("d%d", i)
		pad, err := e.Padding(len(data))
		if err != nil {
			panic(err)
		}
		for k := 0; k < pad; k++ {
			data = append(data, padByte())
		}
		switch e.Kind {
		case packref.KAlign:
		case packref.KPadByte:
			data = append(data, padByte())
		case packref.KInt, packref.KUint:
			mode := rapid.IntRange(0, 9).Draw(t, label+"-mode")
			switch {
			case mode <= 4:
				b, err := packref.EncodeInt(genIntFor(t, e, label), e.Size, e.Kind == packref.KInt, e.Little)
				if err != nil {
					panic(err)
				}
				data = append(data, b...)
			case mode <= 6:
				data = append(data, rapid.SliceOfN(rapid.Byte(), e.Size, e.Size).Draw(t, label+"-raw")...)
			default:
				// wide patterns: a 64-bit value with an extension that is
				// right, wrong in one byte, or of the other sign
				low := genIntFor(t, packref.Elem{Kind: packref.KInt, Size: 8}, label)
				b := make([]byte, e.Size) // big endian
				ext := byte(0)
				if rapid.Bool().Draw(t, label+"-ext") {
					ext = 0xff
				}
				for k := range b {
					b[k] = ext
				}
				for k := 0; k < 8 && k < e.Size; k++ {
					b[e.Size-1-k] = byte(uint64(low) >> (8 * uint(k)))
				}
				if e.Size > 8 && rapid.IntRange(0, 3).Draw(t, label+"-flip") == 0 {
					b[rapid.IntRange(0, e.Size-9).Draw(t, label+"-flipat")] ^= rapid.SampledFrom([]byte{1, 0x80, 0xff, 0x10}).Draw(t, label+"-flipbit")
				}
				if e.Little {
					for x, y := 0, len(b)-1; x < y; x, y = x+1, y-1 {
						b[x], b[y] = b[y], b[x]
					}
				}
				data = append(data, b...)
			}
		case packref.KFloat:
			data = append(data, rapid.SliceOfN(rapid.Byte(), 4, 4).Draw(t, label+"-raw")...)
		case packref.KDouble:
			b, _, err := (&packref.Format{Elems: []packref.Elem{{Kind: packref.KDouble, Size: 8, Little: e.Little, MaxAlign: 1}}}).Encode([]packref.Val{packref.FloatVal(genFloat(t, label, false))})
			if err != nil {
				panic(err)
			}
			data = append(data, b...)
		case packref.KStrLen:
			s := genBytes(t, label, 20, false)
			n := int64(len(s))
			switch rapid.IntRange(0, 19).Draw(t, label+"-lenmode") {
			case 0: // a little too long
				n += int64(rapid.IntRange(1, 3000).Draw(t, label+"-excess"))
			case 1: // far too long
				n = rapid.SampledFrom([]int64{1 << 40, 1<<62 + 5, math.MaxInt64, -1, math.MinInt64, 1 << 32, 1<<31 - 1}).Draw(t, label+"-huge")
			}
			var b []byte
			if e.Size < 8 {
				n &= int64(1)<<(8*uint(e.Size)) - 1
			}
			b, err := packref.EncodeInt(n, e.Size, false, e.Little)
			if err != nil {
				panic(err)
			}
			if e.Size > 8 && rapid.IntRange(0, 15).Draw(t, label+"-lenhi") == 0 {
				// length above 2^64
				if e.Little {
					b[e.Size-1] = 1
				} else {
					b[0] = 1
				}
			}
			data = append(data, b...)
			data = append(data, s...)
		case packref.KStrZ:
			data = append(data, genBytes(t, label, 20, true)...)
			if rapid.IntRange(0, 19).Draw(t, label+"-unterminated") != 0 {
				data = append(data, 0)
			}
		case packref.KStrFix:
			data = append(data, rapid.SliceOfN(rapid.SampledFrom(strAlphabet), e.Size, e.Size).Draw(t, label+"-fix")...)
		}
	}
	switch rapid.IntRange(0, 9).Draw(t, "tail") {
	case 0, 1:
		if len(data) > shift {
			data = data[:rapid.IntRange(shift, len(data)-1).Draw(t, "truncate")]
		}
	case 2:
		data = append(data, genBytes(t, "extra", 5, false)...)
	}
	c.Data = data
	switch rapid.IntRange(0, 29).Draw(t, "initmode") {
	case 29:
		c.HasInit, c.Init = true, int64(len(data))+1+int64(rapid.IntRange(1, 40).Draw(t, "beyond"))
	case 28:
		c.HasInit, c.Init = true, rapid.SampledFrom([]int64{math.MaxInt64, 1 << 32, 1 << 31}).Draw(t, "far")
	case 27:
		c.HasInit, c.Init = true, rapid.SampledFrom([]int64{0, math.MinInt64, -int64(len(data)) - 1, -1 << 32}).Draw(t, "before")
	case 26, 25, 24:
		if len(data) > 0 {
			c.HasInit, c.Init = true, int64(shift)-int64(len(data)) // negative, same position as shift+1
			break
		}
		fallthrough
	default:
		if shift > 0 || rapid.Bool().Draw(t, "explicit-init") {
			c.HasInit, c.Init = true, int64(shift)+1
		}
	}
	return c
}

// ---------------------------------------------------------------------------
// (b) %q and (c) tostring/tonumber

type valCase struct {
	V packref.Val `json:"v"`
}

// escape classes of a byte string
func escapeClasses(s []byte) map[string]bool {
	cl := map[string]bool{}
	for i := 0; i < len(s); {
		c := s[i]
		switch {
		case c == 0:
			cl["nul"] = true
			if i+1 < len(s) && s[i+1] >= '0' && s[i+1] <= '9' {
				cl["nul+digit"] = true
			}
		case c == '\n':
			cl["newline"] = true
		case c == '\r':
			cl["cr"] = true
		case c == '"':
			cl["quote"] = true
		case c == '\\':
			cl["backslash"] = true
		case c < 32 || c == 127:
			cl["control"] = true
			if i+1 < len(s) && s[i+1] >= '0' && s[i+1] <= '9' {
				cl["control+digit"] = true
			}
		case c >= 128:
			r, w := utf8.DecodeRune(s[i:])
			if r == utf8.RuneError && w == 1 {
				cl["invalid-utf8"] = true
			} else if unicode.IsPrint(r) {
				cl["utf8-printable"] = true
			} else {
				cl["utf8-nonprintable"] = true
			}
			i += w
			continue
		}
		i++
	}
	return cl
}

var qPieces = [][]byte{
	{0}, {0}, []byte("\x000"), []byte("\x009"), {1}, {7}, {8}, {9}, {11}, {12}, {27}, {31}, {127}, []byte("\x011"), []byte("\x1f7"),
	{'\n'}, {'\r'}, []byte("\r\n"), {'"'}, {'\\'}, []byte("\\n"), []byte("\\\""), []byte("\\\n"), {'\''},
	{0x80}, {0xff}, {0xc0}, {0xfe}, {0xc2}, []byte("\xe2\x80"), []byte("\xf0\x9f\x98"), []byte("\xed\xa0\x80"), []byte("\xc0\x80"), []byte("\xf4\x90\x80\x80"),
	[]byte("\u00e9"), []byte("\u20ac"), []byte("\U0001F600"), []byte("\u4e2d"),
	[]byte("\ufffd"),
	[]byte("a"), []byte("Z"), []byte("0"), []byte("9"), []byte(" "), []byte("]]"), []byte("--"), []byte("%"), []byte("x"), []byte("u{41}"), []byte("ddd"),
}

// valid UTF-8 encodings of runes that are not printable
var qNonPrint = [][]byte{[]byte("\u0085"), []byte("\u00a0"), []byte("\u2028"), []byte("\u2029"), []byte("\u200b"), []byte("\ufeff"), []byte("\ue000"), []byte("\U0010ffff"), []byte("\u0080"), []byte("\u00ad"), []byte("\U000e0001")}

func genQString(t *rapid.T) []byte {
	n := rapid.IntRange(0, 12).Draw(t, "npieces")
	var b []byte
	for i := 0; i < n; i++ {
		switch rapid.IntRange(0, 19).Draw(t, "piecekind") {
		case 18, 17:
			b = append(b, rapid.Byte().Draw(t, "byte"))
		case 19:
			b = append(b, rapid.SampledFrom(qNonPrint).Draw(t, "nonprint")...)
		default:
			b = append(b, rapid.SampledFrom(qPieces).Draw(t, "piece")...)
		}
	}
	return b
}

var intSpecials = []int64{0, 1, -1, math.MinInt64, math.MaxInt64, math.MinInt64 + 1, math.MaxInt64 - 1, 1 << 53, 1<<53 + 1, -(1 << 53), 255, 1e15, 1e16, -1e18, 9007199254740993, 1 << 62, -(1 << 62), 100000, 1000000, 10000000}

func genInt(t *rapid.T, label string) int64 {
	return rapid.OneOf(
		rapid.SampledFrom(intSpecials),
		rapid.Int64Range(-1000, 1000),
		rapid.Map(rapid.IntRange(0, 62), func(k int) int64 { return int64(1) << uint(k) }),
		rapid.Map(rapid.IntRange(0, 63), func(k int) int64 { return -(int64(1) << uint(k)) }),
		rapid.Int64(),
	).Draw(t, label)
}

var numFloatSpecials = []float64{0, math.Copysign(0, -1), 1, -1, 0.1, -0.1, 1.5, 1e100, -1e100, 1e15, 1e16, 1e21, 1e22, 123456, 1234567, 1e5, 1e6, 999999, 1e-5, 1e-4, 0.0001234,
	0x1p63, -0x1p63, 0x1p64, 0x1p53, 0x1p53 + 2, 9.223372036854775e18, math.MaxFloat64, -math.MaxFloat64, math.SmallestNonzeroFloat64, -math.SmallestNonzeroFloat64,
	2.2250738585072014e-308, 2.225073858507201e-308, 5e-324, 1e-320, 0.30000000000000004, 1.7976931348623157e308, 3.141592653589793, 1e300 * 1e8 / 1e8,
	math.Inf(1), math.Inf(-1), math.NaN(), math.Float64frombits(0x7ff0000000000001), math.Float64frombits(0xfff8000000000000), 100, 255, -3, 65536, 4294967296, 1e10}

func genNumFloat(t *rapid.T, label string) float64 {
	return rapid.OneOf(
		rapid.SampledFrom(numFloatSpecials),
		rapid.Map(rapid.Uint64(), math.Float64frombits),
		rapid.Map(rapid.Int64Range(-100000, 100000), func(i int64) float64 { return float64(i) / 16 }),
		rapid.Map(rapid.Int64Range(-2000000, 2000000), func(i int64) float64 { return float64(i) }),
		rapid.Map(rapid.Uint64Range(0, 0x000fffffffffffff), math.Float64frombits), // denormals
		rapid.Float64(),
	).Draw(t, label)
}

func (ck *checker) quoteExcluded(v packref.Val) string {
	switch v.K {
	case 's':
		if ck.kf.qUnicode && escapeClasses(v.S)["utf8-nonprintable"] {
			return "C17-q-go-unicode-escape"
		}
	case 'i':
		if ck.kf.qMinInt && v.I == math.MinInt64 {
			return "C17-q-mininteger-float"
		}
	case 'f':
		f := v.Float()
		if ck.kf.qIntegralFloat && f == math.Trunc(f) && math.Abs(f) < 1e21 {
			return "C17-q-float-loses-type"
		}
	}
	return ""
}

func (ck *checker) checkQuote(c valCase) string {
	rec := ck.rec
	if id := ck.quoteExcluded(c.V); id != "" {
		rec.Discard("excluded-by-finding:" + id)
		return ""
	}
	tr := ck.run.call("quote", toValue(c.V))
	rec.Eval()
	desc := fmt.Sprintf("string.format('%%q', %s)", c.V)
	if m := broken(tr); m != "" {
		return desc + ": " + m
	}
	q, _ := event(tr, "q")
	switch c.V.K {
	case 's':
		cl := escapeClasses(c.V.S)
		names := make([]string, 0, len(cl))
		for k := range cl {
			names = append(names, k)
			rec.Class("q:string:" + k)
		}
		if len(names) == 0 {
			rec.Class("q:string:plain")
		}
		n := len(cl)
		if cl["nul+digit"] {
			n--
		}
		if cl["control+digit"] {
			n--
		}
		if n >= 2 {
			rec.NonTrivial("q|" + encVal(c.V))
		}
	case 'i':
		rec.Class("q:integer")
		if c.V.I == math.MinInt64 || c.V.I == math.MaxInt64 || c.V.I < 0 {
			rec.NonTrivial("q|" + encVal(c.V))
		}
	case 'f':
		f := c.V.Float()
		switch {
		case f != f:
			rec.Class("q:float:nan")
		case math.IsInf(f, 0):
			rec.Class("q:float:inf")
		case f == math.Trunc(f):
			rec.Class("q:float:integral")
		case math.Abs(f) < 2.2250738585072014e-308:
			rec.Class("q:float:denormal")
		default:
			rec.Class("q:float:other")
		}
		rec.NonTrivial("q|" + encVal(c.V))
	}
	if e, ok := event(tr, "format-error"); ok {
		return fmt.Sprintf("%s raised %s", desc, e)
	}
	if e, ok := event(tr, "load-error"); ok {
		return fmt.Sprintf("%s = %s does not load: %s", desc, q, e)
	}
	if e, ok := event(tr, "run-error"); ok {
		return fmt.Sprintf("%s = %s raises when run: %s", desc, q, e)
	}
	got, _ := event(tr, "value")
	tname := map[byte]string{'i': "integer", 'f': "float", 's': "string"}[c.V.K]
	want := encVal(c.V) + " " + harness.EncString(tname)
	if got != want {
		return fmt.Sprintf("%s = %s reads back as %s, expected %s", desc, q, got, want)
	}
	return ""
}

func (ck *checker) checkToString(c valCase) string {
	rec := ck.rec
	if c.V.K == 'f' {
		f := c.V.Float()
		if f != f || math.IsInf(f, 0) {
			rec.Discard("not-finite")
			return ""
		}
	}
	tr := ck.run.call("tostring", toValue(c.V))
	rec.Eval()
	desc := fmt.Sprintf("tonumber(tostring(%s))", c.V)
	if m := broken(tr); m != "" {
		return desc + ": " + m
	}
	got, _ := event(tr, "tostring")
	switch c.V.K {
	case 'i':
		rec.Class("tostring:integer")
		if c.V.I < 0 || c.V.I > 1<<53 {
			rec.NonTrivial("ts|" + encVal(c.V))
		}
		want := harness.EncString(strconv.FormatInt(c.V.I, 10)) + " " + encVal(c.V) + " true " + harness.EncString("integer")
		if got != want {
			return fmt.Sprintf("%s: got (text, number, equal, math.type) = %s, expected %s", desc, got, want)
		}
	case 'f':
		f := c.V.Float()
		if f == math.Trunc(f) {
			rec.Class("tostring:float:integral")
		} else {
			rec.Class("tostring:float:fractional")
		}
		rec.NonTrivial("ts|" + encVal(c.V))
		// (text, r, r == n, type): r == n must be true; r must be a number
		fields := strings.Split(got, " ")
		if len(fields) < 4 || fields[len(fields)-2] != "true" {
			return fmt.Sprintf("%s: got (text, number, equal, math.type) = %s: not equal to the original", desc, got)
		}
		// independent reading of the text: it must denote a number equal to f
		if txt, err := strconv.Unquote(strings.TrimPrefix(fields[0], "s:")); err == nil {
			if n, ok := numref.StringToNumber(txt); ok {
				if !numref.Eq(n, numref.Float(f)) {
					return fmt.Sprintf("%s: the text %q denotes another number", desc, txt)
				}
			} else {
				return fmt.Sprintf("%s: the text %q is not a Lua numeral", desc, txt)
			}
		}
	}
	return ""
}

// ---------------------------------------------------------------------------
// (d) string.format integer and string directives

type fmtPiece struct {
	Lit  []byte        `json:"lit,omitempty"`
	Spec *packref.Spec `json:"spec,omitempty"`
	Arg  *packref.Val  `json:"arg,omitempty"`
}

type fmtCase struct {
	Pieces []fmtPiece `json:"pieces"`
	// Tail is an incomplete directive ("%", "%-5", "%.3") ending the format:
	// undefined in ISO C, an error in the reference implementation; only "no
	// Go panic" is required.
	Tail string `json:"tail,omitempty"`
}

func (c fmtCase) format() string {
	var sb strings.Builder
	for _, p := range c.Pieces {
		if p.Spec != nil {
			sb.WriteString(p.Spec.Text())
		} else {
			sb.WriteString(strings.ReplaceAll(string(p.Lit), "%", "%%"))
		}
	}
	sb.WriteString(c.Tail)
	return sb.String()
}

func (c fmtCase) args() []packref.Val {
	var vs []packref.Val
	for _, p := range c.Pieces {
		if p.Spec != nil {
			vs = append(vs, *p.Arg)
		}
	}
	return vs
}

var flagSets = []string{"", "", "", "-", "0", "+", " ", "#", "-0", "0-", "+0", "0+", "-+", " 0", "- ", "#0", "0#", "-#", "+ ", "-+0", "#-0", "-#0", " +0", "+ -", "# 0", "+#"}

func genSpec(t *rapid.T) packref.Spec {
	s := packref.Spec{Width: -1, Prec: -1}
	s.Conv = rapid.SampledFrom([]byte{'d', 'd', 'i', 'u', 'x', 'X', 'o', 'c', 's', 's', 's'}).Draw(t, "conv")
	var flags []string
	switch s.Conv {
	case 'd', 'i':
		flags = []string{"", "", "-", "0", "+", " ", "-0", "0-", "+0", "0+", "-+", " 0", "- ", "-+0", " -0", "+-", "0 "}
	case 'u':
		flags = []string{"", "", "-", "0", "-0", "0-"}
	case 'x', 'X', 'o':
		flags = []string{"", "", "-", "0", "#", "-0", "0-", "#0", "0#", "-#", "#-", "#-0", "-#0"}
	default:
		flags = []string{"", "", "-"}
	}
	if rapid.IntRange(0, 24).Draw(t, "any-flags") == 0 {
		flags = flagSets // also combinations ISO C leaves undefined (only "no panic" is checked)
	}
	s.FlagOrder = rapid.SampledFrom(flags).Draw(t, "flags")
	s.Minus = strings.Contains(s.FlagOrder, "-")
	s.Plus = strings.Contains(s.FlagOrder, "+")
	s.Space = strings.Contains(s.FlagOrder, " ")
	s.Sharp = strings.Contains(s.FlagOrder, "#")
	s.Zero = strings.Contains(s.FlagOrder, "0")
	switch rapid.IntRange(0, 9).Draw(t, "has-width") {
	case 0, 1, 2:
	case 3:
		s.Width = rapid.SampledFrom([]int{0, 1, 20, 21, 64, 65, 99}).Draw(t, "width-edge")
	case 4:
		if rapid.IntRange(0, 3).Draw(t, "too-wide") == 0 {
			s.Width = rapid.SampledFrom([]int{100, 101, 255, 999, 1000, 100000}).Draw(t, "width-big")
			break
		}
		fallthrough
	default:
		s.Width = rapid.IntRange(1, 12).Draw(t, "width")
	}
	if s.Conv != 'c' || rapid.IntRange(0, 30).Draw(t, "c-prec") == 0 {
		switch rapid.IntRange(0, 9).Draw(t, "has-prec") {
		case 0, 1, 2, 3:
		case 4:
			s.Prec = rapid.SampledFrom([]int{0, 0, 1, 19, 20, 21, 22, 64, 99}).Draw(t, "prec-edge")
		case 5:
			if rapid.IntRange(0, 3).Draw(t, "too-precise") == 0 {
				s.Prec = rapid.SampledFrom([]int{100, 101, 999, 100000}).Draw(t, "prec-big")
				break
			}
			fallthrough
		default:
			s.Prec = rapid.IntRange(0, 8).Draw(t, "prec")
		}
	}
	return s
}

var fmtStrPieces = [][]byte{[]byte("a"), []byte("bc"), []byte(" "), []byte("\u00e9"), []byte("\u20ac"), []byte("\U0001F600"), {0xff}, {0x80}, {0xc3}, []byte("\n"), []byte("%"), []byte("0"), []byte("xyz"), []byte("\u00a0"), []byte("e\u0301")}

func genFmtString(t *rapid.T, label string, allowNul bool) []byte {
	n := rapid.IntRange(0, 6).Draw(t, label+"-n")
	var b []byte
	for i := 0; i < n; i++ {
		if allowNul && rapid.IntRange(0, 9).Draw(t, label+"-nul") == 0 {
			b = append(b, 0)
			continue
		}
		b = append(b, rapid.SampledFrom(fmtStrPieces).Draw(t, label)...)
	}
	return b
}

func genFmtCase(t *rapid.T) fmtCase {
	var c fmtCase
	n := rapid.IntRange(1, 3).Draw(t, "ndirectives")
	for i := 0; i < n; i++ {
		if rapid.Bool().Draw(t, "lit") {
			c.Pieces = append(c.Pieces, fmtPiece{Lit: genFmtString(t, "literal", false)})
		}
		s := genSpec(t)
		var arg packref.Val
		switch s.Conv {
		case 'c':
			arg = packref.IntVal(rapid.OneOf(rapid.Int64Range(0, 255), rapid.SampledFrom([]int64{0, 10, 65, 127, 128, 255, 256, 321, -1, -191})).Draw(t, "char"))
		case 's':
			switch rapid.IntRange(0, 9).Draw(t, "sarg") {
			case 0:
				arg = packref.IntVal(genInt(t, "sarg-int"))
			default:
				plain := s.FlagOrder == "" && s.Width < 0 && s.Prec < 0
				arg = packref.StrVal(genFmtString(t, "sarg", plain))
			}
		default:
			v := rapid.OneOf(
				rapid.SampledFrom([]int64{0, 0, 1, -1, 7, 8, 9, 10, 15, 16, 255, 256, -255, 42, -42, 100, math.MinInt64, math.MaxInt64, 1 << 32, -(1 << 31), 1<<63 - 2}),
				rapid.Int64Range(-100000, 100000),
				rapid.Int64(),
			).Draw(t, "iarg")
			if v > -(1<<53) && v < 1<<53 && rapid.IntRange(0, 19).Draw(t, "iarg-as-float") == 19 {
				arg = packref.FloatVal(float64(v))
			} else {
				arg = packref.IntVal(v)
			}
		}
		c.Pieces = append(c.Pieces, fmtPiece{Spec: &s, Arg: &arg})
	}
	if rapid.Bool().Draw(t, "lit-end") {
		c.Pieces = append(c.Pieces, fmtPiece{Lit: genFmtString(t, "literal-end", false)})
	}
	if rapid.IntRange(0, 49).Draw(t, "incomplete") == 49 {
		c.Tail = rapid.SampledFrom([]string{"%", "%5", "%-", "%.3", "%#0", "%-5.2", "% ", "%+99", "%."}).Draw(t, "tail")
	}
	return c
}

func argInt(v packref.Val) int64 {
	if v.K == 'f' {
		return int64(v.Float())
	}
	return v.I
}

func (ck *checker) fmtExcluded(c fmtCase) string {
	if ck.kf.fmtIncomplete && c.Tail != "" {
		return "C17-format-incomplete-directive-panic"
	}
	for _, p := range c.Pieces {
		if p.Spec == nil {
			continue
		}
		s, a := *p.Spec, *p.Arg
		switch s.Conv {
		case 'x', 'X':
			if ck.kf.fmtSharpXZero && s.Sharp && argInt(a) == 0 {
				return "C17-format-sharp-x-zero"
			}
			if ck.kf.fmtSharpZeroWidth && s.Sharp && s.Zero && !s.Minus && s.Width >= 0 && s.Prec < 0 && argInt(a) != 0 {
				return "C17-format-sharp-zero-width-x"
			}
		case 'o':
			if ck.kf.fmtOctNeg && argInt(a) < 0 {
				return "C17-format-o-negative"
			}
			if ck.kf.fmtSharpOPrec0 && s.Sharp && s.Prec == 0 && argInt(a) == 0 {
				return "C17-format-sharp-o-prec0-zero"
			}
		case 'd', 'i':
			if ck.kf.fmtSignPrec0 && (s.Plus || s.Space) && s.Prec == 0 && argInt(a) == 0 {
				return "C17-format-sign-prec0-zero"
			}
		case 's':
			if ck.kf.fmtStrRunes && a.K == 's' && (s.Width >= 0 || s.Prec >= 0) && utf8.RuneCount(a.S) != len(a.S) {
				return "C17-format-s-counts-runes"
			}
		}
	}
	return ""
}

func (ck *checker) checkFormat(c fmtCase) string {
	rec := ck.rec
	if id := ck.fmtExcluded(c); id != "" {
		rec.Discard("excluded-by-finding:" + id)
		return ""
	}
	f := c.format()
	vals := c.args()
	args := []rt.Value{rt.StringValue(f)}
	for _, v := range vals {
		args = append(args, toValue(v))
	}
	tr := ck.run.call("format", args...)
	desc := fmt.Sprintf("string.format(%q, %s)", f, valsText(vals))
	if tr.Panic != "" {
		rec.Eval()
		return desc + ": Go panic: " + tr.Panic
	}
	if c.Tail != "" {
		rec.Eval()
		rec.Class("format:incomplete-directive(no-panic-only)")
		return ""
	}
	var want strings.Builder
	defined, long, nontrivial := true, false, false
	for _, p := range c.Pieces {
		if p.Spec == nil {
			want.Write(p.Lit)
			continue
		}
		s := *p.Spec
		if !s.Defined() {
			defined = false
			continue
		}
		if s.Width > 99 || s.Prec > 99 {
			long = true
		}
		if s.FlagOrder != "" && s.Width >= 0 {
			nontrivial = true
		}
		if s.Conv == 's' {
			a := *p.Arg
			if a.K == 'i' {
				want.WriteString(s.FormatStr(strconv.FormatInt(a.I, 10)))
			} else {
				if bytes.IndexByte(a.S, 0) >= 0 && (s.FlagOrder != "" || s.Width >= 0 || s.Prec >= 0) {
					defined = false // C strings end at the first NUL; the manual does not say
					continue
				}
				want.WriteString(s.FormatStr(string(a.S)))
			}
		} else {
			want.WriteString(s.FormatInt(argInt(*p.Arg)))
		}
	}
	if !defined {
		rec.Discard("undefined-in-ISO-C(flag/precision-combination)")
		return ""
	}
	rec.Eval()
	if m := broken(tr); m != "" {
		return desc + ": " + m
	}
	for _, p := range c.Pieces {
		if p.Spec != nil {
			rec.Class("format:%" + string(p.Spec.Conv))
		}
	}
	if nontrivial {
		rec.NonTrivial("fmt|" + f + "|" + valsText(vals))
	}
	got, _ := event(tr, "format")
	if long {
		rec.Class("format:width-or-precision>99(error-or-result)")
		if isErr(got) {
			return ""
		}
	}
	if exp := "true " + harness.EncString(want.String()); got != exp {
		return fmt.Sprintf("%s = %s, ISO C printf gives %s", desc, got, exp)
	}
	return ""
}

// ---------------------------------------------------------------------------

func (ck *checker) replay(kind string, raw json.RawMessage) (any, string, error) {
	switch kind {
	case "pack", "packerr":
		var c packCase
		if err := json.Unmarshal(raw, &c); err != nil {
			return nil, "", err
		}
		return c, ck.checkPack(c), nil
	case "unpack":
		var c packCase
		if err := json.Unmarshal(raw, &c); err != nil {
			return nil, "", err
		}
		return c, ck.checkUnpack(c), nil
	case "quote":
		var c valCase
		if err := json.Unmarshal(raw, &c); err != nil {
			return nil, "", err
		}
		return c, ck.checkQuote(c), nil
	case "tostring":
		var c valCase
		if err := json.Unmarshal(raw, &c); err != nil {
			return nil, "", err
		}
		return c, ck.checkToString(c), nil
	case "format":
		var c fmtCase
		if err := json.Unmarshal(raw, &c); err != nil {
			return nil, "", err
		}
		return c, ck.checkFormat(c), nil
	case "piecewise":
		var c pieceCase
		if err := json.Unmarshal(raw, &c); err != nil {
			return nil, "", err
		}
		return c, ck.checkPiecewise(c), nil
	}
	return nil, "", fmt.Errorf("unknown replay kind %q", kind)
}

func TestC17(t *testing.T) {
	rec := ev.New("C17")
	defer Finish(t, rec)
	rec.Rule("(a) pack formats drawn from the grammar of manual 6.4.2 (endianness, ![n], b B h H i[n] I[n] l L j J T f d n s[n] z cn x X<op>, spaces; n in 1..16; 1-8 items) with in-range boundary/random values: packed bytes == independent encoder (math/big two's complement, encoding/binary floats), unpack(pack(v...)) == v... and next position, packsize == #packed; the same formats with one inserted defect (size outside 1..16, alignment not a power of 2, X at end, unknown option, value out of range, z with NUL, over-long string, wrong value kind, missing value) must raise; unpack of field-by-field constructed data (random padding bytes, wide integers with right/wrong sign extension, over-long/unterminated strings, truncation, initial position) against an independent decoder. (b) load('return '..format('%q',v))() == v for byte strings over every escape class, integers, floats (bit equality, math.type). (c) tonumber(tostring(n)) == n, integers also text == decimal and math.type. (d) string.format %d %i %u %c %x %X %o %s with flags/width/precision vs an ISO C printf model. Non-trivial: pack format with >= 2 items and alignment or a width outside {1,2,4,8}, or a boundary value, or an expected error; %q strings with >= 2 escape classes, negative/extreme integers, floats; printf spec with a flag and a width; distinct by (format, values).")
	rec.Assume("native sizes/alignment/endianness of h i l T f d and bare '!' are implementation-defined: taken from string.packsize probes, required to be plausible (h=2, i,l,T in {4,8}, j=n=d=8, f=4, '!' a power of two <= 16, endianness = host)")
	rec.Assume("X followed by an option without alignment of its own (c z x X space < > = !), unpack init 0 or before the start, alignment relative to a non-multiple-of-16 init, finite values beyond the float32 range under 'f', numeric strings where numbers are expected in pack, printf flag/precision combinations ISO C leaves undefined, %s with modifiers on strings with NULs, width/precision > 99: the manual is silent; either behaviour accepted or excluded and counted")
	run := &runner{}
	ck := &checker{rec: rec, run: run}
	nat, msg := probeNative(run)
	if msg != "" {
		rec.Violation("native", "probe", msg)
		return
	}
	ck.nat = nat
	rec.Set("native", fmt.Sprintf("%+v", nat))

	if rec.Replay != "" {
		rf, err := rec.LoadReplay()
		if err != nil {
			t.Fatal(err)
		}
		c, msg, err := ck.replay(rf.Kind, rf.Case)
		if err != nil {
			t.Fatal(err)
		}
		if msg != "" {
			rec.Violation(rf.Kind, c, msg)
		}
		return
	}

	ck.wireKnown()

	bps := badPairs()
	n := rec.Pick(20000, 300000)
	RunRapid(rec, "C17/pack-roundtrip", n, 0, func(t *rapid.T) {
		c := genPackCase(t, nat)
		rec.Sample(map[string]any{"pack": c.Fmt, "values": valsText(c.Vals)})
		if msg := ck.checkPack(c); msg != "" {
			FailCase(t, "pack", c, "%s", msg)
		}
	})
	RunRapid(rec, "C17/pack-defect", n/3, 1, func(t *rapid.T) {
		c, what := genBadPackCase(t, nat, bps)
		rec.Class("defect:" + strings.Fields(what + " .")[0])
		if msg := ck.checkPack(c); msg != "" {
			FailCase(t, "packerr", c, "%s", msg)
		}
	})
	RunRapid(rec, "C17/unpack-data", n, 2, func(t *rapid.T) {
		c := genUnpackCase(t, nat)
		if msg := ck.checkUnpack(c); msg != "" {
			FailCase(t, "unpack", c, "%s", msg)
		}
	})
	RunRapid(rec, "C17/piecewise-unpack", n/2, 6, func(t *rapid.T) {
		c, ok := genPieceCase(t, nat)
		if !ok {
			rec.Discard("piecewise: fewer than two value options")
			return
		}
		if msg := ck.checkPiecewise(c); msg != "" {
			FailCase(t, "piecewise", c, "%s", msg)
		}
	})
	RunRapid(rec, "C17/quote", n, 3, func(t *rapid.T) {
		var v packref.Val
		switch rapid.IntRange(0, 9).Draw(t, "kind") {
		case 9:
			v = packref.IntVal(genInt(t, "int"))
		case 8, 7, 6:
			v = packref.FloatVal(genNumFloat(t, "float"))
		default:
			v = packref.StrVal(genQString(t))
		}
		c := valCase{V: v}
		rec.Sample(map[string]any{"%q": v.String()})
		if msg := ck.checkQuote(c); msg != "" {
			FailCase(t, "quote", c, "%s", msg)
		}
	})
	RunRapid(rec, "C17/tostring", n, 4, func(t *rapid.T) {
		var v packref.Val
		if rapid.IntRange(0, 2).Draw(t, "kind") == 0 {
			v = packref.IntVal(genInt(t, "int"))
		} else {
			v = packref.FloatVal(genNumFloat(t, "float"))
		}
		c := valCase{V: v}
		if msg := ck.checkToString(c); msg != "" {
			FailCase(t, "tostring", c, "%s", msg)
		}
	})
	RunRapid(rec, "C17/format", n, 5, func(t *rapid.T) {
		c := genFmtCase(t)
		rec.Sample(map[string]any{"format": c.format(), "args": valsText(c.args())})
		if msg := ck.checkFormat(c); msg != "" {
			FailCase(t, "format", c, "%s", msg)
		}
	})
}

// wireKnown runs the fixed demonstration of every open finding; a switch is
// true only if the finding is listed open (its class is then excluded).
func (ck *checker) wireKnown() {
	rec := ck.rec
	k := &ck.kf
	ival := func(i int64) []packref.Val { return []packref.Val{packref.IntVal(i)} }
	pack := func(f string, vs ...packref.Val) func() bool {
		return func() bool { return ck.checkPack(packCase{Fmt: f, Vals: vs}) != "" }
	}
	unpack := func(f string, data string) func() bool {
		return func() bool { return ck.checkUnpack(packCase{Fmt: f, Data: []byte(data)}) != "" }
	}
	quote := func(v packref.Val) func() bool {
		return func() bool { return ck.checkQuote(valCase{V: v}) != "" }
	}
	format := func(s packref.Spec, a packref.Val) func() bool {
		return func() bool { return ck.checkFormat(fmtCase{Pieces: []fmtPiece{{Spec: &s, Arg: &a}}}) != "" }
	}
	spec := func(flags string, width, prec int, conv byte) packref.Spec {
		return packref.Spec{FlagOrder: flags, Minus: strings.Contains(flags, "-"), Plus: strings.Contains(flags, "+"), Space: strings.Contains(flags, " "),
			Sharp: strings.Contains(flags, "#"), Zero: strings.Contains(flags, "0"), Width: width, Prec: prec, Conv: conv}
	}
	k.packUnsignedNeg = CheckKnown(rec, "C17-pack-unsigned-negative", pack("J", ival(-1)...))
	k.packFloatNaN = CheckKnown(rec, "C17-pack-f-nan", pack("f", packref.FloatVal(math.NaN())))
	k.packC0 = CheckKnown(rec, "C17-pack-c0-overlong", pack("c0", packref.StrVal([]byte("abc"))))
	k.packsizeXs = CheckKnown(rec, "C17-packsize-X-before-s", pack("bXs4"+"b", ival(1)[0], ival(2)[0]))
	k.packsizeXEnd = CheckKnown(rec, "C17-packsize-X-at-end", pack("bX", ival(1)...))
	k.unpackAlign = CheckKnown(rec, "C17-unpack-align-not-pow2", unpack("!4i3", "\x00\x00\x00\x00\x00\x00\x00\x00"))
	k.unpackSLen = CheckKnown(rec, "C17-unpack-s-length-unchecked", unpack("<s8", "\xff\xff\xff\xff\xff\xff\xff\xffabc"))
	k.qUnicode = CheckKnown(rec, "C17-q-go-unicode-escape", quote(packref.StrVal([]byte("a\u0085b"))))
	k.qIntegralFloat = CheckKnown(rec, "C17-q-float-loses-type", quote(packref.FloatVal(1)))
	k.qMinInt = CheckKnown(rec, "C17-q-mininteger-float", quote(packref.IntVal(math.MinInt64)))
	k.fmtSharpXZero = CheckKnown(rec, "C17-format-sharp-x-zero", format(spec("#", -1, -1, 'x'), packref.IntVal(0)))
	k.fmtSharpZeroWidth = CheckKnown(rec, "C17-format-sharp-zero-width-x", format(spec("#0", 6, -1, 'x'), packref.IntVal(1)))
	k.fmtIncomplete = CheckKnown(rec, "C17-format-incomplete-directive-panic", func() bool { return ck.checkFormat(fmtCase{Tail: "%"}) != "" })
	k.fmtOctNeg = CheckKnown(rec, "C17-format-o-negative", format(spec("", -1, -1, 'o'), packref.IntVal(-1)))
	k.fmtSignPrec0 = CheckKnown(rec, "C17-format-sign-prec0-zero", format(spec("+", -1, 0, 'd'), packref.IntVal(0)))
	k.fmtSharpOPrec0 = CheckKnown(rec, "C17-format-sharp-o-prec0-zero", format(spec("#", -1, 0, 'o'), packref.IntVal(0)))
	k.fmtStrRunes = CheckKnown(rec, "C17-format-s-counts-runes", format(spec("", 5, -1, 's'), packref.StrVal([]byte("\u00e9"))))
}
