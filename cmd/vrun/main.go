// vrun runs Lua programs in golua and prints their canonical traces. It is
// built once per build-tag set by the C14 check (and usable by hand):
//
//	echo '{"source":"emit(1)","args":[]}' | vrun
//
// One JSON object per input line, one JSON trace per output line.
package main

import (
	"bufio"
	"encoding/json"
	"os"
	"runtime"
	"time"

	rt "github.com/arnodel/golua/runtime"

	"verif/internal/harness"
	"verif/internal/progcheck"
)

type out struct {
	Events     [][]string `json:"events"`
	Rets       []string   `json:"rets"`
	Err        string     `json:"err,omitempty"`
	CompileErr string     `json:"compile_err,omitempty"`
	Panic      string     `json:"panic,omitempty"`
	Killed     bool       `json:"killed,omitempty"`
}

func main() {
	in := bufio.NewReaderSize(os.Stdin, 1<<20)
	w := bufio.NewWriter(os.Stdout)
	defer w.Flush()
	dec := json.NewDecoder(in)
	enc := json.NewEncoder(w)
	for {
		var c progcheck.Case
		if err := dec.Decode(&c); err != nil {
			return
		}
		tr := progcheck.RunGolua(c, harness.Opts{CPU: 2_000_000_000, Setup: func(r *rt.Runtime, env *rt.Table, tr *harness.Trace, cn *harness.Canon) {
			// hostgc(): one full collection by Go's collector (collectgarbage is
			// not declared CPU-safe and is refused under the runner's limits);
			// the runtime picks up what became pending before the next continuation
			r.SetEnvGoFunc(env, "hostgc", func(t *rt.Thread, c *rt.GoCont) (rt.Cont, error) {
				runtime.GC()
				time.Sleep(200 * time.Microsecond)
				return c.Next(), nil
			}, 0, false).SolemnlyDeclareCompliance(rt.ComplyCpuSafe | rt.ComplyMemSafe | rt.ComplyIoSafe | rt.ComplyTimeSafe)
		}})
		enc.Encode(out{Events: tr.EventList, Rets: tr.RetList, Err: tr.ErrTok, CompileErr: tr.CompileErr, Panic: tr.Panic, Killed: tr.Killed})
		w.Flush()
	}
}
