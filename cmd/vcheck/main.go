// vcheck is the driver of every property check:
//
//	vcheck <ID> [--tier quick|thorough] [--seed N] [--shards N] [--replay FILE]
//
// It rebuilds the props test binary from /repo's current working tree (tag
// verif), runs the property's test in one or more shard processes, merges the
// shards' partial evidence into /verif/evidence/<ID>.json, prints
// KNOWN-FINDING / VIOLATION lines and maps outcomes to exit codes:
//
//	0  property held on everything explored
//	1  violation (a line "VIOLATION property=<id> replay=<path>" is printed)
//	2  inconclusive: build failure, worker death, harness timeout
package main

import (
	"bytes"
	"context"
	"encoding/binary"
	"encoding/json"
	"flag"
	"fmt"
	"os"
	"os/exec"
	"path/filepath"
	"regexp"
	"sort"
	"strconv"
	"strings"
	"sync"
	"syscall"
	"time"

	"verif/internal/ev"
)

type propCfg struct {
	test           string
	race           bool
	quickShards    int
	thoroughShards int
	quickTimeout   time.Duration
	thorTimeout    time.Duration
	level          string
	tags           string // extra build tags
	gomaxprocs     string
}

func cfg(id string) (propCfg, bool) {
	c := propCfg{
		test: "Test" + id, quickShards: 4, thoroughShards: 16,
		quickTimeout: 15 * time.Minute, thorTimeout: 90 * time.Minute,
		level: "exploration",
	}
	switch id {
	case "C01", "C02", "C03", "C04", "C05", "C06", "C07", "C08", "C10", "C11", "C12", "C13", "C14", "C15", "C16", "C17", "C18", "C19":
	case "C09", "C20":
		c.race = true
	default:
		return c, false
	}
	switch id {
	case "C04", "C08", "C14", "C18":
		c.quickShards = 2
	}
	return c, true
}

func fatal2(format string, a ...any) {
	fmt.Fprintf(os.Stderr, "vcheck: INCONCLUSIVE: "+format+"\n", a...)
	os.Exit(2)
}

func goEnv() []string {
	env := os.Environ()
	out := env[:0:0]
	for _, e := range env {
		k := e[:strings.IndexByte(e+"=", '=')]
		switch k {
		case "GOFLAGS", "GOPROXY", "GOSUMDB", "GOTOOLCHAIN":
			continue
		}
		out = append(out, e)
	}
	return append(out, "GOFLAGS=-mod=mod", "GOPROXY=off", "GOSUMDB=off", "GOTOOLCHAIN=local")
}

func main() {
	if len(os.Args) < 2 {
		fmt.Fprintln(os.Stderr, "usage: vcheck <ID> [--tier quick|thorough] [--seed N] [--shards N] [--replay FILE]")
		os.Exit(2)
	}
	id := os.Args[1]
	fs := flag.NewFlagSet("vcheck", flag.ExitOnError)
	tier := fs.String("tier", os.Getenv("VERIF_TIER"), "quick|thorough")
	seedS := fs.String("seed", os.Getenv("VERIF_SEED"), "seed")
	shards := fs.Int("shards", 0, "override shard count")
	replay := fs.String("replay", "", "replay file")
	keep := fs.Bool("keep", false, "keep scratch files")
	fs.Parse(os.Args[2:])
	if *tier != "thorough" {
		*tier = "quick"
	}
	seed := uint64(1)
	if *seedS != "" {
		if n, err := strconv.ParseUint(*seedS, 0, 64); err == nil {
			seed = n
		} else if n, err := strconv.ParseInt(*seedS, 0, 64); err == nil {
			seed = uint64(n)
		}
	}
	if seed == 0 {
		seed = 0x5EED
	}
	c, ok := cfg(id)
	if !ok {
		fatal2("unknown property %q", id)
	}
	vdir := ev.VerifDir()
	start := time.Now()

	scratch, err := os.MkdirTemp(filepath.Join(vdir, "bin"), "run-"+id+"-")
	if err != nil {
		os.MkdirAll(filepath.Join(vdir, "bin"), 0o755)
		scratch, err = os.MkdirTemp(filepath.Join(vdir, "bin"), "run-"+id+"-")
		if err != nil {
			fatal2("cannot create scratch dir: %v", err)
		}
	}
	if !*keep {
		defer os.RemoveAll(scratch)
	}
	exit := func(code int) {
		if !*keep {
			os.RemoveAll(scratch)
		}
		os.Exit(code)
	}

	// 1. build from /repo's current working tree
	bin := filepath.Join(scratch, "props.test")
	tags := "verif"
	if c.tags != "" {
		tags += "," + c.tags
	}
	args := []string{"test", "-c", "-vet=off", "-tags", tags, "-ldflags=-checklinkname=0", "-o", bin}
	if c.race {
		args = append(args, "-race")
	}
	args = append(args, "./props/"+strings.ToLower(id))
	cmd := exec.Command("go", args...)
	cmd.Dir = vdir
	cmd.Env = goEnv()
	if out, err := cmd.CombinedOutput(); err != nil {
		fmt.Fprintf(os.Stderr, "%s\n", out)
		fmt.Fprintf(os.Stderr, "vcheck: INCONCLUSIVE: build of /repo + checks failed: %v\n", err)
		exit(2)
	}

	// 2. run shards
	n := c.quickShards
	timeout := c.quickTimeout
	if *tier == "thorough" {
		n = c.thoroughShards
		timeout = c.thorTimeout
	}
	if *shards > 0 {
		n = *shards
	}
	if *replay != "" {
		n = 1
		if abs, err := filepath.Abs(*replay); err == nil {
			*replay = abs
		}
	}
	ctx, cancel := context.WithTimeout(context.Background(), timeout)
	defer cancel()
	type res struct {
		err     error
		log     string
		partial string
	}
	results := make([]res, n)
	var wg sync.WaitGroup
	for i := 0; i < n; i++ {
		wg.Add(1)
		go func(i int) {
			defer wg.Done()
			partial := filepath.Join(scratch, fmt.Sprintf("partial-%d.json", i))
			logf := filepath.Join(scratch, fmt.Sprintf("log-%d.txt", i))
			lf, _ := os.Create(logf)
			defer lf.Close()
			cmd := exec.CommandContext(ctx, bin, "-test.run", "^"+c.test+"$", "-test.timeout", "0", "-test.v", "-test.count", "1")
			cmd.Dir = filepath.Join(vdir, "props", strings.ToLower(id))
			cmd.Stdout = lf
			cmd.Stderr = lf
			cmd.SysProcAttr = &syscall.SysProcAttr{Setpgid: true}
			cmd.Cancel = func() error { return syscall.Kill(-cmd.Process.Pid, syscall.SIGKILL) }
			env := append(goEnv(),
				"VERIF_DIR="+vdir,
				"VERIF_TIER="+*tier,
				"VERIF_SEED="+strconv.FormatUint(seed, 10),
				"VERIF_SHARD="+strconv.Itoa(i),
				"VERIF_NSHARDS="+strconv.Itoa(n),
				"VERIF_OUT="+partial,
				"VERIF_SCRATCH="+scratch,
				"VERIF_BIN="+bin,
				"VERIF_REPLAY="+*replay,
				"VERIF_PROPERTY="+id,
			)
			if c.gomaxprocs != "" {
				env = append(env, "GOMAXPROCS="+c.gomaxprocs)
			}
			if c.race {
				// race reports go to a file that the check inspects after every
				// case (so that a report is attributed to a case and becomes a
				// violation with a replay instead of a dead worker)
				racelog := filepath.Join(scratch, fmt.Sprintf("race-%d", i))
				env = append(env, "GORACE=log_path="+racelog+" halt_on_error=0 exitcode=0 history_size=4", "VERIF_RACELOG="+racelog)
			}
			cmd.Env = env
			err := cmd.Run()
			results[i] = res{err: err, log: logf, partial: partial}
		}(i)
	}
	wg.Wait()
	timedOut := ctx.Err() != nil

	// 3. merge
	var (
		evals       int64
		classes     = map[string]int64{}
		discards    = map[string]int64{}
		samples     []json.RawMessage
		violations  []ev.Violation
		knownHits   = map[string]string{}
		extra       = map[string]any{}
		assumptions []string
		rule        string
		exhaustive  = true
		hashes      []uint64
		dead        []int
	)
	seenAssume := map[string]bool{}
	for i, r := range results {
		b, err := os.ReadFile(r.partial)
		var p ev.Partial
		if err != nil || json.Unmarshal(b, &p) != nil || !p.Finished {
			dead = append(dead, i)
			continue
		}
		if r.err != nil && len(p.Violations) == 0 {
			// the worker failed (panic, os.Exit, signal) although it reported no
			// violation: nothing it counted can be trusted
			dead = append(dead, i)
			continue
		}
		evals += p.Evaluations
		for k, v := range p.Classes {
			classes[k] += v
		}
		for k, v := range p.Discards {
			discards[k] += v
		}
		for _, s := range p.Samples {
			if len(samples) < 12 {
				samples = append(samples, s)
			}
		}
		violations = append(violations, p.Violations...)
		for k, v := range p.Known {
			knownHits[k] = v
		}
		for k, v := range p.Extra {
			if old, ok := extra[k]; ok {
				if of, ok1 := old.(float64); ok1 {
					if nf, ok2 := v.(float64); ok2 && strings.HasPrefix(k, "n_") {
						extra[k] = of + nf
						continue
					}
				}
			}
			extra[k] = v
		}
		for _, a := range p.Assumptions {
			if !seenAssume[a] {
				seenAssume[a] = true
				assumptions = append(assumptions, a)
			}
		}
		if p.Rule != "" {
			rule = p.Rule
		}
		exhaustive = exhaustive && p.Exhaustive
		if hb, err := os.ReadFile(p.HashFile); err == nil {
			for j := 0; j+8 <= len(hb); j += 8 {
				hashes = append(hashes, binary.LittleEndian.Uint64(hb[j:]))
			}
		}
	}
	sort.Slice(hashes, func(i, j int) bool { return hashes[i] < hashes[j] })
	distinct := 0
	for i := range hashes {
		if i == 0 || hashes[i] != hashes[i-1] {
			distinct++
		}
	}

	if *replay != "" {
		// replay mode: no evidence rewrite
		for _, r := range results {
			if b, err := os.ReadFile(r.log); err == nil {
				os.Stdout.Write(tail(b, 4000))
			}
		}
		if len(dead) > 0 {
			fatal2("replay worker died")
		}
		if len(violations) > 0 {
			for _, v := range violations {
				fmt.Printf("VIOLATION property=%s replay=%s\n", id, v.Replay)
			}
			exit(1)
		}
		fmt.Printf("replay: property %s holds on %s\n", id, *replay)
		exit(0)
	}

	cov := map[string]any{
		"evaluations":         evals,
		"distinct_nontrivial": distinct,
		"rule":                rule,
		"samples":             samples,
		"classes":             classes,
		"discards":            discards,
		"exhaustive":          exhaustive && len(dead) == 0,
		"shards":              n,
		"known_findings_hit":  knownHits,
	}
	if samples == nil {
		cov["samples"] = []any{}
	}
	for k, v := range extra {
		if _, ok := cov[k]; !ok {
			cov[k] = v
		}
	}
	evid := map[string]any{
		"property_id": id,
		"tier":        *tier,
		"seed":        seed,
		"level":       c.level,
		"coverage":    cov,
		"assumptions": assumptions,
		"wall_s":      time.Since(start).Seconds(),
		"violations":  len(violations),
	}
	if assumptions == nil {
		evid["assumptions"] = []string{}
	}
	eb, _ := json.MarshalIndent(evid, "", " ")
	os.MkdirAll(filepath.Join(vdir, "evidence"), 0o755)
	evPath := filepath.Join(vdir, "evidence", id+".json")
	tmp := evPath + fmt.Sprintf(".tmp%d", os.Getpid())
	if err := os.WriteFile(tmp, eb, 0o644); err == nil {
		os.Rename(tmp, evPath)
	}

	// 4. report
	kk := make([]string, 0, len(knownHits))
	for k := range knownHits {
		kk = append(kk, k)
	}
	sort.Strings(kk)
	for _, k := range kk {
		fmt.Printf("KNOWN-FINDING: property=%s %s: %s\n", id, k, knownHits[k])
	}
	fmt.Printf("%s tier=%s seed=%d shards=%d evaluations=%d distinct_nontrivial=%d violations=%d wall=%.1fs\n",
		id, *tier, seed, n, evals, distinct, len(violations), time.Since(start).Seconds())
	if len(violations) > 0 {
		seen := map[string]bool{}
		for _, v := range violations {
			if seen[v.Replay] {
				continue
			}
			seen[v.Replay] = true
			fmt.Printf("VIOLATION property=%s replay=%s\n", id, v.Replay)
			fmt.Printf("  %s\n", firstLines(v.Msg, 12))
		}
		exit(1)
	}
	if len(dead) > 0 && !timedOut && *replay == "" {
		// A worker that died of a Go panic / fatal error inside golua (typically
		// in a coroutine's goroutine, where the test cannot recover it) left the
		// case it was running in "<partial>.inflight". Re-run that case alone in
		// a fresh process: if golua kills that process too, the crash belongs to
		// the case and is a violation with a replay; otherwise the death stays
		// unexplained (inconclusive).
		crashRe := regexp.MustCompile(`(?m)^(panic: |fatal error: )`)
		golua := "github.com/arnodel/golua/"
		reported := 0
		for _, i := range dead {
			lb, _ := os.ReadFile(results[i].log)
			if !crashRe.Match(lb) || !bytes.Contains(lb, []byte(golua)) {
				continue
			}
			marker := results[i].partial + ".inflight"
			mb, err := os.ReadFile(marker)
			if err != nil {
				continue
			}
			confirmed := ""
			for attempt := 0; attempt < 3 && confirmed == ""; attempt++ {
				rctx, rcancel := context.WithTimeout(context.Background(), 5*time.Minute)
				rlog := filepath.Join(scratch, fmt.Sprintf("crash-replay-%d-%d.txt", i, attempt))
				rf, _ := os.Create(rlog)
				rc := exec.CommandContext(rctx, bin, "-test.run", "^"+c.test+"$", "-test.timeout", "0", "-test.v", "-test.count", "1")
				rc.Dir = filepath.Join(vdir, "props", strings.ToLower(id))
				rc.Stdout, rc.Stderr = rf, rf
				rc.SysProcAttr = &syscall.SysProcAttr{Setpgid: true}
				rc.Cancel = func() error { return syscall.Kill(-rc.Process.Pid, syscall.SIGKILL) }
				renv := append(goEnv(), "VERIF_DIR="+vdir, "VERIF_TIER="+*tier, "VERIF_SEED="+strconv.FormatUint(seed, 10), "VERIF_SHARD=0", "VERIF_NSHARDS=1",
					"VERIF_OUT="+filepath.Join(scratch, fmt.Sprintf("crash-replay-%d-%d.json", i, attempt)), "VERIF_SCRATCH="+scratch, "VERIF_BIN="+bin, "VERIF_REPLAY="+marker, "VERIF_PROPERTY="+id)
				if c.gomaxprocs != "" {
					renv = append(renv, "GOMAXPROCS="+c.gomaxprocs)
				}
				rc.Env = renv
				rc.Run()
				rf.Close()
				rcancel()
				if rb, err := os.ReadFile(rlog); err == nil && crashRe.Match(rb) && bytes.Contains(rb, []byte(golua)) {
					loc := crashRe.FindIndex(rb)
					confirmed = firstLines(string(rb[loc[0]:]), 14)
				}
			}
			if confirmed == "" {
				continue
			}
			dir := filepath.Join(vdir, "replays", id)
			os.MkdirAll(dir, 0o755)
			path := filepath.Join(dir, fmt.Sprintf("crash-%016x.json", ev.Hash(string(mb))))
			os.WriteFile(path, mb, 0o644)
			fmt.Printf("VIOLATION property=%s replay=%s\n", id, path)
			fmt.Printf("  golua killed the worker process while running this case, and again when the case was re-run alone in a fresh process:\n%s\n", confirmed)
			reported++
		}
		if reported > 0 {
			exit(1)
		}
	}
	if len(dead) > 0 || timedOut {
		for _, i := range dead {
			if b, err := os.ReadFile(results[i].log); err == nil {
				fmt.Fprintf(os.Stderr, "---- shard %d log tail ----\n%s\n", i, tail(b, 3000))
			}
		}
		if timedOut {
			fatal2("harness timeout after %v (shards dead: %v)", timeout, dead)
		}
		fmt.Fprintf(os.Stderr, "vcheck: INCONCLUSIVE: worker(s) %v died without reporting (see log tails above)\n", dead)
		exit(2)
	}
	exit(0)
}

func tail(b []byte, n int) []byte {
	if len(b) > n {
		return b[len(b)-n:]
	}
	return b
}

func firstLines(s string, n int) string {
	lines := strings.Split(s, "\n")
	if len(lines) > n {
		lines = append(lines[:n], "…")
	}
	return strings.Join(lines, "\n  ")
}
