// Package harness runs Lua source in a fresh golua runtime and turns what the
// host observes (emit callback events, returned values, error, context
// status, recovered Go panic) into a canonical, comparable Trace.
package harness

import (
	"bytes"
	"fmt"
	"math"
	"strconv"
	"strings"

	"github.com/arnodel/golua/lib"
	rt "github.com/arnodel/golua/runtime"
)

// Canon assigns stable small numbers to reference values (tables, coroutines,
// userdata) by first occurrence, so that identity relations can be compared
// between golua and the reference model without comparing addresses.
type Canon struct {
	ids map[any]int
}

func NewCanon() *Canon { return &Canon{ids: map[any]int{}} }

func (c *Canon) ID(p any) int {
	if id, ok := c.ids[p]; ok {
		return id
	}
	id := len(c.ids) + 1
	c.ids[p] = id
	return id
}

// EncFloat encodes a float by bit pattern (all NaNs are one value).
func EncFloat(f float64) string {
	if f != f {
		return "f:nan"
	}
	return "f:" + strconv.FormatUint(math.Float64bits(f), 16) + "(" + strconv.FormatFloat(f, 'g', -1, 64) + ")"
}

func EncInt(n int64) string { return "i:" + strconv.FormatInt(n, 10) }

func EncString(s string) string { return "s:" + strconv.Quote(s) }

// EncValue encodes a golua value canonically.
func (c *Canon) EncValue(v rt.Value) string {
	switch v.Type() {
	case rt.NilType:
		return "nil"
	case rt.BoolType:
		if v.AsBool() {
			return "true"
		}
		return "false"
	case rt.IntType:
		return EncInt(v.AsInt())
	case rt.FloatType:
		return EncFloat(v.AsFloat())
	case rt.StringType:
		return EncString(v.AsString())
	case rt.TableType:
		return "T#" + strconv.Itoa(c.ID(v.AsTable()))
	case rt.FunctionType:
		return "F"
	case rt.ThreadType:
		return "C#" + strconv.Itoa(c.ID(v.AsThread()))
	case rt.UserDataType:
		return "U#" + strconv.Itoa(c.ID(v.AsUserData()))
	default:
		return "?" + v.TypeName()
	}
}

// EncList encodes each value separately.
func (c *Canon) EncList(vs []rt.Value) []string {
	out := make([]string, len(vs))
	for i, v := range vs {
		out[i] = c.EncValue(v)
	}
	return out
}

func (c *Canon) EncValues(vs []rt.Value) string {
	var sb strings.Builder
	for i, v := range vs {
		if i > 0 {
			sb.WriteByte(' ')
		}
		sb.WriteString(c.EncValue(v))
	}
	return sb.String()
}

// Trace is what the host observed.
type Trace struct {
	Events     []string   `json:"events"`
	EventList  [][]string `json:"-"` // the same events, one token per value
	RetList    []string   `json:"-"`
	ErrTok     string     `json:"-"`
	Rets       string     `json:"rets,omitempty"`
	Err        string     `json:"err,omitempty"`         // canonical error value, "" if none
	CompileErr string     `json:"compile_err,omitempty"` // message of a compile error
	Panic      string     `json:"panic,omitempty"`       // recovered Go panic (never expected)
	Status     string     `json:"status,omitempty"`      // context status if run in a context
	Killed     bool       `json:"killed,omitempty"`
	UsedCPU    uint64     `json:"used_cpu,omitempty"`
	UsedMem    uint64     `json:"used_mem,omitempty"`
	Stdout     string     `json:"stdout,omitempty"`
}

func (t *Trace) String() string {
	var sb strings.Builder
	for i, e := range t.Events {
		fmt.Fprintf(&sb, "  emit[%d] %s\n", i, e)
	}
	if t.CompileErr != "" {
		fmt.Fprintf(&sb, "  compile error: %s\n", t.CompileErr)
	}
	if t.Err != "" {
		fmt.Fprintf(&sb, "  error: %s\n", t.Err)
	} else if t.CompileErr == "" && !t.Killed {
		fmt.Fprintf(&sb, "  return: %s\n", t.Rets)
	}
	if t.Killed {
		fmt.Fprintf(&sb, "  KILLED\n")
	}
	if t.Panic != "" {
		fmt.Fprintf(&sb, "  GO PANIC: %s\n", t.Panic)
	}
	return sb.String()
}

// Opts configures a run.
type Opts struct {
	ChunkName string
	Args      func(r *rt.Runtime, c *Canon) []rt.Value // builds the chunk's ... arguments
	CPU       uint64                                   // hard cpu limit (0: default safety net)
	Mem       uint64                                   // hard memory limit (0: default safety net)
	NoContext bool                                     // run without pushing a context
	Flags     rt.ComplianceFlags
	Setup     func(r *rt.Runtime, env *rt.Table, tr *Trace, c *Canon) // extra host functions
	MaxEvents int
	EventHook func(r *rt.Runtime, ev string) // called on every emit
}

const (
	DefaultCPU = 200_000_000
	DefaultMem = 2_000_000_000
)

// Run compiles src as a chunk and runs it.
func Run(src string, o Opts) (tr *Trace) {
	tr = &Trace{}
	canon := NewCanon()
	stdout := &bytes.Buffer{}
	defer func() {
		if p := recover(); p != nil {
			tr.Panic = fmt.Sprint(p)
		}
		tr.Stdout = stdout.String()
	}()
	r := rt.New(stdout)
	cleanup := lib.LoadAll(r)
	defer cleanup()
	defer func() {
		var err error
		r.Close(&err)
	}()
	maxEv := o.MaxEvents
	if maxEv == 0 {
		maxEv = 100000
	}
	r.SetEnvGoFunc(r.GlobalEnv(), "emit", func(t *rt.Thread, c *rt.GoCont) (rt.Cont, error) {
		if len(tr.Events) >= maxEv {
			return nil, fmt.Errorf("too many events")
		}
		l := canon.EncList(c.Etc())
		e := strings.Join(l, " ")
		tr.Events = append(tr.Events, e)
		tr.EventList = append(tr.EventList, l)
		if o.EventHook != nil {
			o.EventHook(t.Runtime, e)
		}
		return c.Next(), nil
	}, 0, true).SolemnlyDeclareCompliance(rt.ComplyCpuSafe | rt.ComplyMemSafe | rt.ComplyIoSafe | rt.ComplyTimeSafe)
	if o.Setup != nil {
		o.Setup(r, r.GlobalEnv(), tr, canon)
	}
	name := o.ChunkName
	if name == "" {
		name = "chunk"
	}
	var args []rt.Value
	if o.Args != nil {
		args = o.Args(r, canon)
	}
	run := func() error {
		clos, err := r.CompileAndLoadLuaChunk(name, []byte(src), rt.TableValue(r.GlobalEnv()))
		if err != nil {
			tr.CompileErr = err.Error()
			return nil
		}
		term := rt.NewTerminationWith(nil, 0, true)
		if err := rt.Call(r.MainThread(), rt.FunctionValue(clos), args, term); err != nil {
			return err
		}
		tr.RetList = canon.EncList(term.Etc())
		tr.Rets = strings.Join(tr.RetList, " ")
		return nil
	}
	var err error
	if o.NoContext {
		err = run()
	} else {
		cpu, mem := o.CPU, o.Mem
		if cpu == 0 {
			cpu = DefaultCPU
		}
		if mem == 0 {
			mem = DefaultMem
		}
		var ctx rt.RuntimeContext
		ctx, err = r.MainThread().CallContext(rt.RuntimeContextDef{
			HardLimits:    rt.RuntimeResources{Cpu: cpu, Memory: mem},
			RequiredFlags: o.Flags,
		}, run)
		if ctx != nil {
			tr.Status = ctx.Status().String()
			u := ctx.UsedResources()
			tr.UsedCPU, tr.UsedMem = u.Cpu, u.Memory
			if ctx.Status() == rt.StatusKilled {
				tr.Killed = true
				err = nil
			}
		}
	}
	if err != nil {
		tr.Err = canon.EncValue(rt.ErrorValue(err))
		tr.ErrTok = tr.Err
	}
	return tr
}

// Session is a long-lived runtime in which many small cases are run (one
// compiled function called with different arguments). A case that panics
// poisons the session; callers then create a new one.
type Session struct {
	R      *rt.Runtime
	Canon  *Canon
	events []string
	Stdout *bytes.Buffer
	clean  func()
}

func NewSession() *Session {
	s := &Session{Canon: NewCanon(), Stdout: &bytes.Buffer{}}
	s.R = rt.New(s.Stdout)
	s.clean = lib.LoadAll(s.R)
	s.R.SetEnvGoFunc(s.R.GlobalEnv(), "emit", func(t *rt.Thread, c *rt.GoCont) (rt.Cont, error) {
		if len(s.events) >= 100000 {
			return nil, fmt.Errorf("too many events")
		}
		s.events = append(s.events, s.Canon.EncValues(c.Etc()))
		return c.Next(), nil
	}, 0, true).SolemnlyDeclareCompliance(rt.ComplyCpuSafe | rt.ComplyMemSafe | rt.ComplyIoSafe | rt.ComplyTimeSafe)
	return s
}

func (s *Session) Close() {
	defer func() { recover() }()
	if s.clean != nil {
		s.clean()
	}
	var err error
	s.R.Close(&err)
}

// Load compiles src and returns the chunk's first result (typically a function).
func (s *Session) Load(name, src string) (v rt.Value, err error) {
	defer func() {
		if p := recover(); p != nil {
			err = fmt.Errorf("GO PANIC: %v", p)
		}
	}()
	clos, err := s.R.CompileAndLoadLuaChunk(name, []byte(src), rt.TableValue(s.R.GlobalEnv()))
	if err != nil {
		return rt.NilValue, err
	}
	return rt.Call1(s.R.MainThread(), rt.FunctionValue(clos))
}

// Call calls f with args inside a context with the given limits (0: safety
// net defaults) and returns the observation.
func (s *Session) Call(f rt.Value, cpu, mem uint64, args ...rt.Value) (tr *Trace) {
	tr = &Trace{}
	s.events = nil
	s.Canon = NewCanon()
	defer func() {
		if p := recover(); p != nil {
			tr.Panic = fmt.Sprint(p)
		}
		tr.Events = s.events
	}()
	if cpu == 0 {
		cpu = DefaultCPU
	}
	if mem == 0 {
		mem = DefaultMem
	}
	term := rt.NewTerminationWith(nil, 0, true)
	ctx, err := s.R.MainThread().CallContext(rt.RuntimeContextDef{
		HardLimits: rt.RuntimeResources{Cpu: cpu, Memory: mem},
	}, func() error {
		return rt.Call(s.R.MainThread(), f, args, term)
	})
	if ctx != nil {
		tr.Status = ctx.Status().String()
		u := ctx.UsedResources()
		tr.UsedCPU, tr.UsedMem = u.Cpu, u.Memory
		if ctx.Status() == rt.StatusKilled {
			tr.Killed = true
			err = nil
		}
	}
	if err != nil {
		tr.Err = s.Canon.EncValue(rt.ErrorValue(err))
	} else if !tr.Killed {
		tr.Rets = s.Canon.EncValues(term.Etc())
	}
	return tr
}
