// Package ctxref is an independent model of golua's stack of execution
// contexts, written from quotas.md and the statement of property C07, not
// from the implementation. All arithmetic is done on math/big integers with
// an explicit "unlimited" value, so nothing in the model can wrap around.
//
// Vocabulary (quotas.md): a context has hard limits ("kill"), soft limits
// ("stop"), used resources, required compliance flags and a status. A limit
// given as 0 means unlimited. A context is terminated ("killed") when a
// requirement would make used reach a hard limit; the requirement is then not
// granted. Due means: a soft limit is reached, or a stop was requested.
package ctxref

import (
	"fmt"
	"math/big"
)

// Res names a resource.
type Res int

const (
	CPU Res = iota
	Mem
	Time // milliseconds; consumption is an external input (the clock)
	NRes
)

func (r Res) String() string { return [...]string{"cpu", "memory", "millis"}[r] }

// MaxU is 2^64-1, the largest representable amount.
var MaxU = new(big.Int).SetUint64(^uint64(0))

// Lim is a limit: nil value = unlimited.
type Lim struct{ v *big.Int }

// Inf is the unlimited limit.
var Inf = Lim{}

// L makes a limit from golua's encoding (0 = unlimited).
func L(x uint64) Lim {
	if x == 0 {
		return Inf
	}
	return Lim{new(big.Int).SetUint64(x)}
}

func LBig(x *big.Int) Lim { return Lim{new(big.Int).Set(x)} }

func (l Lim) IsInf() bool { return l.v == nil }

// Big returns the finite value (nil if unlimited).
func (l Lim) Big() *big.Int { return l.v }

// U64 returns golua's encoding of the limit (0 = unlimited). Finite limits in
// the model are always in 1..2^64-1.
func (l Lim) U64() uint64 {
	if l.v == nil {
		return 0
	}
	if !l.v.IsUint64() {
		panic("ctxref: limit out of range: " + l.v.String())
	}
	return l.v.Uint64()
}

func (l Lim) String() string {
	if l.v == nil {
		return "inf"
	}
	return l.v.String()
}

// Min is the smaller of two limits.
func Min(a, b Lim) Lim {
	switch {
	case a.v == nil:
		return b
	case b.v == nil:
		return a
	case a.v.Cmp(b.v) <= 0:
		return a
	default:
		return b
	}
}

// Reached reports used >= l (never for the unlimited limit).
func (l Lim) Reached(used *big.Int) bool { return l.v != nil && used.Cmp(l.v) >= 0 }

// Flags are compliance flags; the bit values are the model's own.
type Flags uint8

const (
	MemSafe Flags = 1 << iota
	CPUSafe
	IOSafe
	TimeSafe
	AllFlags Flags = MemSafe | CPUSafe | IOSafe | TimeSafe
)

// Status of a context.
type Status int

const (
	Live Status = iota
	Done
	Error
	Killed
)

func (s Status) String() string { return [...]string{"live", "done", "error", "killed"}[s] }

// Def is a context definition in golua's encoding (0 = unlimited).
type Def struct {
	Hard  [NRes]uint64 `json:"hard"`
	Soft  [NRes]uint64 `json:"soft"`
	Flags Flags        `json:"flags"`
}

// Ctx is one context of the model stack.
type Ctx struct {
	Hard, Soft [NRes]Lim
	Used       [NRes]*big.Int // Used[Time] is not modelled (external)
	Flags      Flags
	Status     Status
	SoftStop   bool // a stop was requested on this context
	InhStop    bool // a stop had been requested on an ancestor when this context was created
	Parent     *Ctx
	Depth      int // 0 = root

	// Inh[r]: the hard limit on r is not this context's own but what the
	// enclosing context had left when this one was created (a requested limit
	// counts as own only if it is strictly smaller than that).
	Inh [NRes]bool
	// How the context was terminated, if it was: by reaching the hard limit
	// on KillRes (KillByLimit), which may be an inherited one (KillInh), or
	// by a forced kill (KillByLimit false).
	KillByLimit bool
	KillRes     Res
	KillInh     bool
}

func newCtx() *Ctx {
	c := &Ctx{}
	for r := range c.Used {
		c.Used[r] = new(big.Int)
	}
	return c
}

// Tracked reports whether the context has any finite limit on r: only then is
// the consumption of r observable through the limits.
func (c *Ctx) Tracked(r Res) bool { return !c.Hard[r].IsInf() || !c.Soft[r].IsInf() }

// Remaining is hard - used (unlimited if hard is).
func (c *Ctx) Remaining(r Res) Lim {
	if c.Hard[r].IsInf() {
		return Inf
	}
	return Lim{new(big.Int).Sub(c.Hard[r].v, c.Used[r])}
}

// SoftRemaining is soft - used, floored at 0 (unlimited if soft is).
func (c *Ctx) SoftRemaining(r Res) Lim {
	if c.Soft[r].IsInf() {
		return Inf
	}
	d := new(big.Int).Sub(c.Soft[r].v, c.Used[r])
	if d.Sign() < 0 {
		d.SetInt64(0)
	}
	return Lim{d}
}

// SoftReached: some soft limit is reached (usedMillis is the observed clock
// consumption of this context).
func (c *Ctx) SoftReached(usedMillis uint64) bool {
	if c.Soft[CPU].Reached(c.Used[CPU]) || c.Soft[Mem].Reached(c.Used[Mem]) {
		return true
	}
	return c.Soft[Time].Reached(new(big.Int).SetUint64(usedMillis))
}

// Due as the property states it: a soft limit is reached or a stop was
// requested. The second result is true when the only reason is a stop
// requested on an ancestor before this context was created (documentation is
// silent on whether that carries over: both answers are acceptable).
func (c *Ctx) Due(usedMillis uint64) (due bool, eitherOK bool) {
	if c.SoftStop || c.SoftReached(usedMillis) {
		return true, false
	}
	if c.InhStop {
		return true, true
	}
	return false, false
}

// Stack is the model of the context stack of one runtime.
type Stack struct {
	Cur *Ctx
}

// New returns a stack holding only the root context: unlimited, no flags.
func New() *Stack { return &Stack{Cur: newCtx()} }

func (s *Stack) Depth() int { return s.Cur.Depth }

// Implied are the flags implied by requested hard limits (quotas.md example:
// kill={cpu=1000} gives flags "cpusafe").
func Implied(d Def) Flags {
	var f Flags
	if d.Hard[CPU] != 0 {
		f |= CPUSafe
	}
	if d.Hard[Mem] != 0 {
		f |= MemSafe
	}
	if d.Hard[Time] != 0 {
		f |= TimeSafe
	}
	return f
}

// Push creates a child of the current context. parentUsedMillis is the clock
// consumption of the parent at that moment (an input of the system).
//
//	child.hard = min(parent.hard - parent.used, requested)
//	child.soft = min(child.hard, parent.soft, requested soft)
//	child.flags = parent.flags | requested | implied by requested hard limits
func (s *Stack) Push(d Def, parentUsedMillis uint64) *Ctx {
	p := s.Cur
	c := newCtx()
	c.Parent, c.Depth = p, p.Depth+1
	for r := Res(0); r < NRes; r++ {
		rem := p.Remaining(r)
		if r == Time && !p.Hard[r].IsInf() {
			d := new(big.Int).Sub(p.Hard[r].v, new(big.Int).SetUint64(parentUsedMillis))
			rem = Lim{d}
		}
		if !rem.IsInf() && rem.v.Sign() <= 0 {
			// cannot happen for a live parent (used < hard); keep the model total
			panic(fmt.Sprintf("ctxref: push under an exhausted parent (%s remaining %s)", r, rem))
		}
		c.Hard[r] = Min(rem, L(d.Hard[r]))
		c.Inh[r] = !rem.IsInf() && c.Hard[r].Big().Cmp(rem.Big()) == 0
		c.Soft[r] = Min(Min(c.Hard[r], p.Soft[r]), L(d.Soft[r]))
	}
	c.Flags = p.Flags | d.Flags | Implied(d)
	c.InhStop = p.SoftStop || p.InhStop
	s.Cur = c
	return c
}

// add returns used+a saturated at 2^64-1 and whether the exact sum exceeded it.
func add(used *big.Int, a *big.Int) (*big.Int, bool) {
	sum := new(big.Int).Add(used, a)
	if sum.Cmp(MaxU) > 0 {
		return new(big.Int).Set(MaxU), true
	}
	return sum, false
}

// Outcome of a requirement.
type Outcome struct {
	Killed   bool // the current context was terminated; nothing was granted
	Overflow bool // the exact sum does not fit in 64 bits
}

func (c *Ctx) require(r Res, a *big.Int) Outcome {
	sum := new(big.Int).Add(c.Used[r], a)
	over := sum.Cmp(MaxU) > 0
	// an overflowing sum is larger than every finite limit
	if c.Hard[r].Reached(sum) {
		c.Status = Killed
		c.KillByLimit, c.KillRes, c.KillInh = true, r, c.Inh[r]
		return Outcome{Killed: true, Overflow: over}
	}
	if over {
		sum.Set(MaxU)
	}
	c.Used[r] = sum
	return Outcome{Overflow: over}
}

// Require asks for a units of r (CPU or Mem) in the current context.
func (s *Stack) Require(r Res, a uint64) Outcome {
	return s.Cur.require(r, new(big.Int).SetUint64(a))
}

// WouldOverflow reports whether used+a exceeds 2^64-1 in the current context.
func (s *Stack) WouldOverflow(r Res, a uint64) bool {
	_, over := add(s.Cur.Used[r], new(big.Int).SetUint64(a))
	return over
}

// Release gives back a units of memory. What exceeds the current context's
// consumption was required in an enclosing context and is given back there,
// and so on up the chain (each level saturates at 0; anything left over at
// the root is dropped). The result is what was subtracted at each depth.
func (s *Stack) Release(a uint64) (delta map[int]*big.Int) {
	delta = map[int]*big.Int{}
	rest := new(big.Int).SetUint64(a)
	for c := s.Cur; c != nil && rest.Sign() > 0; c = c.Parent {
		d := new(big.Int).Set(rest)
		if d.Cmp(c.Used[Mem]) > 0 {
			d.Set(c.Used[Mem])
		}
		c.Used[Mem] = new(big.Int).Sub(c.Used[Mem], d)
		rest.Sub(rest, d)
		delta[c.Depth] = d
	}
	return delta
}

// ChainUsed is the memory consumption summed over the current context and
// all enclosing ones.
func (s *Stack) ChainUsed(r Res) *big.Int {
	sum := new(big.Int)
	for c := s.Cur; c != nil; c = c.Parent {
		sum.Add(sum, c.Used[r])
	}
	return sum
}

// StopSoft requests a stop: the current context becomes due.
func (s *Stack) StopSoft() { s.Cur.SoftStop = true }

// StopHard terminates the current context.
func (s *Stack) StopHard() { s.Cur.Status = Killed }

// SetError records that the code run in the current context ended with an error.
func (s *Stack) SetError() {
	if s.Cur.Status == Live {
		s.Cur.Status = Error
	}
}

// PopResult is what ending the current context does.
type PopResult struct {
	Ctx          *Ctx // the finished context (status no longer live)
	ParentKilled bool // charging the parent reached one of its hard limits
	Overflow     [NRes]bool
	// Propagated: the context had been terminated by a limit it inherited, so
	// the enclosing context (now current) is terminated as well: the limit
	// was its own or, in turn, one it inherited.
	Propagated bool
}

// PopWouldOverflow reports, per resource, whether charging the parent with
// the current context's consumption exceeds 2^64-1.
func (s *Stack) PopWouldOverflow() (o [NRes]bool) {
	c := s.Cur
	if c.Parent == nil {
		return
	}
	for _, r := range []Res{CPU, Mem} {
		_, o[r] = add(c.Parent.Used[r], c.Used[r])
	}
	return
}

// Pop ends the current context: a live context is done; its consumption of
// cpu and memory is charged to the parent. Returns nil at the root.
//
// managed says who ends the context: true for Thread.CallContext (pcall,
// runtime.callcontext), which makes the termination by an inherited limit
// reach the context that owns the limit; false for an embedder that pushed
// the context itself with PushContext and decides on its own what the
// termination means for the enclosing context.
func (s *Stack) Pop(managed bool) *PopResult {
	c := s.Cur
	if c.Parent == nil {
		return nil
	}
	if c.Status == Live {
		c.Status = Done
	}
	res := &PopResult{Ctx: c}
	p := c.Parent
	for _, r := range []Res{CPU, Mem} {
		o := p.require(r, c.Used[r])
		res.Overflow[r] = o.Overflow
		if o.Killed {
			res.ParentKilled = true
		}
	}
	s.Cur = p
	if managed && c.Status == Killed && c.KillByLimit && c.KillInh && !res.ParentKilled && p.Status == Live {
		p.Status = Killed
		p.KillByLimit, p.KillRes, p.KillInh = true, c.KillRes, p.Inh[c.KillRes]
		res.Propagated = true
	}
	return res
}

// CheckInvariants verifies the property's statements on the model itself
// (they hold by construction; this guards the model against its own bugs).
func (s *Stack) CheckInvariants() error {
	for c := s.Cur; c != nil; c = c.Parent {
		for r := Res(0); r < NRes; r++ {
			if !c.Hard[r].IsInf() {
				if c.Soft[r].IsInf() || c.Soft[r].v.Cmp(c.Hard[r].v) > 0 {
					return fmt.Errorf("model: depth %d %s soft %s > hard %s", c.Depth, r, c.Soft[r], c.Hard[r])
				}
				if r != Time && c.Used[r].Cmp(c.Hard[r].v) >= 0 {
					return fmt.Errorf("model: depth %d %s used %s >= hard %s", c.Depth, r, c.Used[r], c.Hard[r])
				}
			}
			if p := c.Parent; p != nil && r != Time && !p.Hard[r].IsInf() {
				rem := new(big.Int).Sub(p.Hard[r].v, p.Used[r])
				if c.Hard[r].IsInf() || c.Hard[r].v.Cmp(rem) > 0 {
					return fmt.Errorf("model: depth %d %s hard %s > parent remaining %s", c.Depth, r, c.Hard[r], rem)
				}
			}
		}
		if p := c.Parent; p != nil && c.Flags&p.Flags != p.Flags {
			return fmt.Errorf("model: depth %d flags %b do not include the parent's %b", c.Depth, c.Flags, p.Flags)
		}
	}
	return nil
}
